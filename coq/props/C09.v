(* C09 — variogram estimation respects its invariances and preprocessing semantics.
   Statements only; proofs in c09/C09_Removal.v (every number type), c09/C09_Invariance.v (over R, on the
   pair-enumeration specification that C08/C15 prove equal to the translated kernels), c09/C09_Model.v (hand model
   of the preprocessing, tied to vario_estimate by execution). *)
From Coq Require Import Reals ZArith List Bool Arith Permutation Sorted.
From GS Require Import Num Loops Cellwise RInst Estimator_gen C15_VarioSpec C08_Math C09_Lists C09_Removal C09_Invariance C09_Model C09_Directional C09_Units.
From GS Require C12_Mat.
Import ListNotations.
Close Scope R_scope.

(* 1. EVERY number type (IEEE doubles with NaN included, bit for bit): points whose value is NaN in every field
      contribute to no pair; deleting them (keeping the others in order) gives the identical result.
      This is the meaning of mask / no_data / NaN handling and of estimating on a sorted sub-sample. *)
Theorem C09_nan_is_removal :
  forall (T : Type) (O : NumOps T) f pos edges et dt keep,
    shape1 f = shape1 pos -> StronglySorted lt keep -> Forall (fun p => p < shape1 pos) keep ->
    (forall p, p < shape1 pos -> ~ In p keep -> forall m, m < shape0 f -> nisnan O (aget2 (n0 O) f m p) = true) ->
    unstructured_spec O (take_cols O keep f) edges (take_cols O keep pos) et dt = unstructured_spec O f edges pos et dt.
Proof. exact @missing_points_removed. Qed.
Print Assumptions C09_nan_is_removal.

Theorem C09_nan_point_in_no_pair :
  forall (T : Type) (O : NumOps T) f est j k acc,
    (forall m, m < shape0 f -> valid_pair O f m j k = false) -> pair_contrib O f est j k acc = acc.
Proof. exact @pair_contrib_skip. Qed.
Print Assumptions C09_nan_point_in_no_pair.

(* 2. over R: the estimate depends only on the MULTISET of points (coordinates, values): any permutation *)
Theorem C09_perm_invariant :
  forall ora f pos f' pos' edges et dt,
    shape0 pos' = shape0 pos -> shape0 f' = shape0 f -> shape1 f = shape1 pos -> shape1 f' = shape1 pos' ->
    Permutation (points pos f) (points pos' f') ->
    unstructured_spec (Rops ora) f' edges pos' et dt = unstructured_spec (Rops ora) f edges pos et dt.
Proof. exact perm_invariant. Qed.
Print Assumptions C09_perm_invariant.

Theorem C09_relabel_invariant :
  forall ora f pos edges et dt sigma,
    shape1 f = shape1 pos -> Forall (fun r => length r = shape1 pos) pos -> Forall (fun r => length r = shape1 pos) f ->
    Permutation sigma (seq 0 (shape1 pos)) ->
    unstructured_spec (Rops ora) (take_cols (Rops ora) sigma f) edges (take_cols (Rops ora) sigma pos) et dt
    = unstructured_spec (Rops ora) f edges pos et dt.
Proof. exact relabel_invariant. Qed.
Print Assumptions C09_relabel_invariant.

(* sub-sampling: the estimate on the drawn points depends only on the index SET (with 1: = all other points missing) *)
Theorem C09_sampling_is_subset :
  forall ora f pos edges et dt idx idx',
    shape1 f = shape1 pos -> Forall (fun p => (p < shape1 pos)%nat) idx -> Permutation idx idx' ->
    unstructured_spec (Rops ora) (take_cols (Rops ora) idx' f) edges (take_cols (Rops ora) idx' pos) et dt
    = unstructured_spec (Rops ora) (take_cols (Rops ora) idx f) edges (take_cols (Rops ora) idx pos) et dt.
Proof. exact subsample_order_free. Qed.
Print Assumptions C09_sampling_is_subset.

(* 3. rigid motions of the coordinates (Euclidean distance type 'e' = 101) *)
Theorem C09_translation_invariant :
  forall ora f pos edges et t, rect pos ->
    unstructured_spec (Rops ora) f edges (translate t pos) et 101 = unstructured_spec (Rops ora) f edges pos et 101.
Proof. exact translation_invariant. Qed.
Print Assumptions C09_translation_invariant.

Theorem C09_rotation_invariant :
  forall ora f pos edges et Q, C12_Mat.orth (shape0 pos) Q ->
    unstructured_spec (Rops ora) f edges (rotate Q pos) et 101 = unstructured_spec (Rops ora) f edges pos et 101.
Proof. exact rotation_invariant. Qed.
Print Assumptions C09_rotation_invariant.

(* 4. field value transformations *)
Theorem C09_shift_invariant :
  forall ora f pos edges et dt c, rect f -> shape1 f = shape1 pos ->
    unstructured_spec (Rops ora) (shift c f) edges pos et dt = unstructured_spec (Rops ora) f edges pos et dt.
Proof. exact shift_invariant. Qed.
Print Assumptions C09_shift_invariant.

Theorem C09_scale_square :
  forall ora f pos edges et dt c, rect f -> shape1 f = shape1 pos ->
    unstructured_spec (Rops ora) (scale c f) edges pos et dt
    = match unstructured_spec (Rops ora) f edges pos et dt with
      | None => None
      | Some (v, cnt) => Some (map (Rmult (c * c)) v, cnt)
      end.
Proof. exact scale_square. Qed.
Print Assumptions C09_scale_square.

(* 5. length unit of the bins (lat-lon, geo_scale = s): binning d against edges / s  =  binning d s against edges *)
Theorem C09_geo_scale_bin :
  forall ora edges s i d, (0 < s)%R ->
    in_bin (Rops ora) (map (fun e => (e / s)%R) edges) i d = in_bin (Rops ora) edges i (d * s)%R.
Proof. exact in_bin_units. Qed.
Print Assumptions C09_geo_scale_bin.

Theorem C09_geo_scale_units :
  forall ora dist f est edges n i s, (0 < s)%R ->
    bin_acc (Rops ora) dist f est (map (fun e => (e / s)%R) edges) n i
    = bin_acc (Rops ora) (fun j k => (dist j k * s)%R) f est edges n i.
Proof. exact geo_scale_units. Qed.
Print Assumptions C09_geo_scale_units.

(* 6. facts about the preprocessing model (every number type) *)
Theorem C09_selected_indices_sorted :
  forall sel, StronglySorted lt (keep_idx sel) /\ Forall (fun p => p < length sel) (keep_idx sel)
              /\ (forall p, In p (keep_idx sel) <-> p < length sel /\ nth p sel false = true).
Proof. intros sel. split; [apply keep_idx_sorted|]. split; [apply keep_idx_range|]. intros p. apply keep_idx_In. Qed.
Print Assumptions C09_selected_indices_sorted.

Theorem C09_drop_missing_same_estimate :
  forall (T : Type) (O : NumOps T) pos f edges et dt, shape1 f = shape1 pos ->
    unstructured_spec O (snd (pre_drop_missing O pos f)) edges (fst (pre_drop_missing O pos f)) et dt
    = unstructured_spec O f edges pos et dt.
Proof. exact @drop_missing_same_estimate. Qed.
Print Assumptions C09_drop_missing_same_estimate.

Theorem C09_mask_is_nan_marking :
  forall (T : Type) (O : NumOps T) gmask fmask pos f edges et dt,
    nisnan O (nan O) = true -> shape1 f = shape1 pos ->
    let pf := pre_mask O gmask fmask pos f in
    unstructured_spec O (snd pf) edges (fst pf) et dt
    = unstructured_spec O (nan_marked O (pre_select gmask fmask (shape1 f)) fmask f) edges pos et dt.
Proof. exact @mask_is_nan_marking. Qed.
Print Assumptions C09_mask_is_nan_marking.

Theorem C09_structured_equals_pointlist :
  forall (T : Type) (O : NumOps T) (ax : list T) rest q,
    q < length ax * length (grid_points rest) ->
    nth q (grid_points (ax :: rest)) [] =
    nth (q / length (grid_points rest)) ax (n0 O) :: nth (q mod length (grid_points rest)) (grid_points rest) [].
Proof. exact @grid_points_nth. Qed.
Print Assumptions C09_structured_equals_pointlist.

Theorem C09_grid_size :
  forall (T : Type) (axes : list (list T)),
    length (grid_points axes) = fold_right (fun ax m => length ax * m) 1 axes.
Proof. exact @grid_points_length. Qed.
Print Assumptions C09_grid_size.

Theorem C09_sturges_rule :
  forall n, 2 <= n -> (2 ^ (sturges n - 2) < Z.of_nat n * Z.of_nat n <= 2 ^ (sturges n - 1))%Z.
Proof. exact sturges_spec. Qed.
Print Assumptions C09_sturges_rule.

(* 7. directions handed to the kernel are unit vectors (over R) *)
Theorem C09_normalised_direction_is_unit :
  forall ora v, vnorm (Rops ora) v <> 0%R -> vnorm (Rops ora) (normalize_dir (Rops ora) v) = 1%R.
Proof. exact normalize_dir_unit. Qed.
Print Assumptions C09_normalised_direction_is_unit.

Theorem C09_ang2dir_unit_2d : forall ora a, vnorm (Rops ora) (ang2dir_row (Rops ora) 2 [a]) = 1%R.
Proof. exact ang2dir_unit_2d. Qed.
Print Assumptions C09_ang2dir_unit_2d.

Theorem C09_ang2dir_unit_3d : forall ora a b, vnorm (Rops ora) (ang2dir_row (Rops ora) 3 [a; b]) = 1%R.
Proof. exact ang2dir_unit_3d. Qed.
Print Assumptions C09_ang2dir_unit_3d.

(* 8. directional variograms rotate with the coordinate system (over R): the translated directional kernel gives the
      same result when points and directions are mapped by the same orthogonal matrix (any tolerance, bandwidth,
      separate_dirs flag, estimator) *)
Theorem C09_direction_test_rotates :
  forall ora Q pos dirs dist tol bw i j d,
    C12_Mat.orth (shape0 pos) Q -> i < shape1 pos -> j < shape1 pos -> d < shape0 dirs ->
    dir_test (Rops ora) (shape0 pos) (rotate Q pos) dist (rotate_dirs Q (shape0 pos) dirs) tol bw i j d
    = dir_test (Rops ora) (shape0 pos) pos dist dirs tol bw i j d.
Proof. exact dir_test_rotates. Qed.
Print Assumptions C09_direction_test_rotates.

Theorem C09_directional_rotates :
  forall ora Q f edges pos dirs tol bw sep et,
    C12_Mat.orth (shape0 pos) Q ->
    directional (Rops ora) f edges (rotate Q pos) (rotate_dirs Q (shape0 pos) dirs) tol bw sep et
    = directional (Rops ora) f edges pos dirs tol bw sep et.
Proof. exact directional_rotates. Qed.
Print Assumptions C09_directional_rotates.

(* 9. default lat-lon bins in any length unit r > 0 (over R): standard bins scale with the unit, so the kernel receives
      the same radian edges and the returned bin centres are the radian centres times the unit *)
Theorem C09_default_bins_scale_with_unit :
  forall ora r, (0 < r)%R -> forall ll, std_bins (Rops ora) true r ll = map (Rmult r) (std_bins (Rops ora) true 1%R ll).
Proof. exact std_bins_units. Qed.
Print Assumptions C09_default_bins_scale_with_unit.

Theorem C09_default_bins_unit_free :
  forall ora r, (0 < r)%R -> forall ll,
    pre_edges (Rops ora) true r (std_bins (Rops ora) true r ll) = pre_edges (Rops ora) true 1%R (std_bins (Rops ora) true 1%R ll).
Proof. exact default_bins_unit_free. Qed.
Print Assumptions C09_default_bins_unit_free.

Theorem C09_centres_scale_with_unit :
  forall ora r e, centers (Rops ora) (map (Rmult r) e) = map (Rmult r) (centers (Rops ora) e).
Proof. exact centers_units. Qed.
Print Assumptions C09_centres_scale_with_unit.

(* the same with the user overrides of standard_bins: max_dist given as r m in the unit, bin_no as is *)
Theorem C09_std_bins_overrides_scale_with_unit :
  forall ora r, (0 < r)%R -> forall ll bin_no max_dist,
    std_bins_kw (Rops ora) true r ll bin_no (match max_dist with Some m => Some (r * m)%R | None => None end)
    = map (Rmult r) (std_bins_kw (Rops ora) true 1%R ll bin_no max_dist).
Proof. exact std_bins_kw_units. Qed.
Print Assumptions C09_std_bins_overrides_scale_with_unit.

Theorem C09_std_bins_overrides_unit_free :
  forall ora r, (0 < r)%R -> forall ll bin_no max_dist,
    pre_edges (Rops ora) true r (std_bins_kw (Rops ora) true r ll bin_no (match max_dist with Some m => Some (r * m)%R | None => None end))
    = pre_edges (Rops ora) true 1%R (std_bins_kw (Rops ora) true 1%R ll bin_no max_dist).
Proof. exact bins_kw_unit_free. Qed.
Print Assumptions C09_std_bins_overrides_unit_free.

(* 10. vario_estimate_axis: the mask handed to the masked kernel is (own mask OR missing value); with C08_mask_is_filter:
       a lag pair is used iff neither of its cells is masked by the field's own mask nor missing (NaN / no_data) *)
Theorem C09_axis_pair_used :
  forall (T : Type) (O : NumOps T) nd own (f : list (list T)) i j k, i + k < shape0 f -> j < shape1 f ->
    andb (Z.eqb (aget2 0%Z (axis_mask O nd own f) i j) 0) (Z.eqb (aget2 0%Z (axis_mask O nd own f) (i + k) j) 0) = true
    <-> (nth j (nth i own []) false = false /\ axis_missing O nd (aget2 (n0 O) f i j) = false) /\
        (nth j (nth (i + k) own []) false = false /\ axis_missing O nd (aget2 (n0 O) f (i + k) j) = false).
Proof. exact @axis_pair_used. Qed.
Print Assumptions C09_axis_pair_used.
