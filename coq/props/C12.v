(* C12 — anisotropy and rotation act as a linear change of coordinates.  Only statements. *)
From Coq Require Import Reals List.
From GS Require Import Num Loops C12_Model C12_Mat C12_Bridge C12_Proofs.
Import ListNotations.
Open Scope R_scope.

Theorem C12_rotate_orthogonal : forall (n : nat) (angles : list R), (0 < n)%nat ->
  let Rm := matrix_rotate Rops n angles in
  matmul Rops (transpose Rops Rm) Rm = eye Rops n /\ matmul Rops Rm (transpose Rops Rm) = eye Rops n.
Proof. exact rotate_orthogonal. Qed.
Print Assumptions C12_rotate_orthogonal.
