(* C12 — anisotropy and rotation act as a linear change of coordinates.  Only statements; proofs in c12/*.v.
   The functions are the Gallina model C12_Model.v of gstools/tools/geometric.py and of the CovModel coordinate
   methods, instantiated at the real numbers [Rops] (the same definitions are extracted, run on floats and compared
   with the Python implementation on every check).  Matrices are lists of rows; [mof M i j] is entry (i,j);
   [wfm r c M] says that M has r rows of length c; [ratio dim anis k] is the k-th entry of (1, anis') where anis'
   is the padded ratio list set_anis dim anis; [sumf n f] = f 0 + ... + f (n-1). *)
From Coq Require Import Reals List.
From GS Require Import Num Loops C12_Model C12_Mat C12_Bridge C12_Proofs C12_Proofs2 C12_Proofs3 C12_Proofs4 C12_Proofs5.
Import ListNotations.
Open Scope R_scope.

(* every plane (i,j) has i < j < dim and there are exactly as many planes as angles (any number type) *)
Theorem C12_planes : forall dim : nat,
  length (rotation_planes dim) = no_of_angles dim /\
  Forall (fun pl => (fst pl < snd pl < dim)%nat) (rotation_planes dim).
Proof. exact planes_facts. Qed.
Print Assumptions C12_planes.

(* padding rules: angles are truncated / filled with 0 on the right, ratios truncated / filled with 1 on the LEFT
   (any number type) *)
Theorem C12_padding : forall (T : Type) (O : NumOps T) (dim : nat) (angles anis : list T),
  length (set_angles O dim angles) = no_of_angles dim /\
  (forall k, (k < no_of_angles dim)%nat -> nth k (set_angles O dim angles) (n0 O) = nth k angles (n0 O)) /\
  length (set_anis O dim anis) = (dim - 1)%nat /\
  ((length anis <= dim - 1)%nat -> forall k, (k < dim - 1)%nat ->
     nth k (set_anis O dim anis) (n1 O)
     = if Nat.ltb k (dim - 1 - length anis) then n1 O else nth (k - (dim - 1 - length anis)) anis (n1 O)).
Proof. exact @padding_facts. Qed.
Print Assumptions C12_padding.

Theorem C12_givens_orthogonal : forall (n p q : nat) (a : R), (p < q < n)%nat ->
  let G := givens_rotation Rops n (p, q) a in
  matmul Rops (transpose Rops G) G = eye Rops n /\ matmul Rops G (transpose Rops G) = eye Rops n.
Proof. exact givens_orthogonal. Qed.
Print Assumptions C12_givens_orthogonal.

(* every dimension, every angle list of every length *)
Theorem C12_rotate_orthogonal : forall (n : nat) (angles : list R), (0 < n)%nat ->
  let Rm := matrix_rotate Rops n angles in
  matmul Rops (transpose Rops Rm) Rm = eye Rops n /\ matmul Rops Rm (transpose Rops Rm) = eye Rops n.
Proof. exact rotate_orthogonal. Qed.
Print Assumptions C12_rotate_orthogonal.

Theorem C12_derotate_is_transpose : forall (n : nat) (angles : list R), (0 < n)%nat ->
  matrix_derotate Rops n angles = transpose Rops (matrix_rotate Rops n angles).
Proof. exact derotate_is_transpose. Qed.
Print Assumptions C12_derotate_is_transpose.

Theorem C12_derotate_rotate_identity : forall (n : nat) (angles : list R), (0 < n)%nat ->
  matmul Rops (matrix_derotate Rops n angles) (matrix_rotate Rops n angles) = eye Rops n /\
  matmul Rops (matrix_rotate Rops n angles) (matrix_derotate Rops n angles) = eye Rops n.
Proof. exact derotate_rotate. Qed.
Print Assumptions C12_derotate_rotate_identity.

Theorem C12_stretch_inverse : forall (dim : nat) (anis : list R), (0 < dim)%nat -> Forall (fun a => 0 < a) anis ->
  matmul Rops (matrix_isotropify Rops dim anis) (matrix_anisotropify Rops dim anis) = eye Rops dim /\
  matmul Rops (matrix_anisotropify Rops dim anis) (matrix_isotropify Rops dim anis) = eye Rops dim.
Proof. exact stretch_inverse. Qed.
Print Assumptions C12_stretch_inverse.

Theorem C12_iso_aniso_inverse : forall (dim : nat) (angles anis : list R), (0 < dim)%nat -> Forall (fun a => 0 < a) anis ->
  matmul Rops (matrix_isometrize Rops dim angles anis) (matrix_anisometrize Rops dim angles anis) = eye Rops dim /\
  matmul Rops (matrix_anisometrize Rops dim angles anis) (matrix_isometrize Rops dim angles anis) = eye Rops dim.
Proof. exact iso_aniso_inverse. Qed.
Print Assumptions C12_iso_aniso_inverse.

(* CovModel.isometrize / anisometrize on (dim, n) position arrays: both compositions are the identity *)
Theorem C12_positions_round_trip : forall (dim : nat) (angles anis : list R) (n : nat) (pos : list (list R)),
  (0 < dim)%nat -> Forall (fun a => 0 < a) anis -> wfm dim n pos ->
  isometrize Rops dim angles anis (anisometrize Rops dim angles anis pos) = pos /\
  anisometrize Rops dim angles anis (isometrize Rops dim angles anis pos) = pos.
Proof. exact positions_round_trip. Qed.
Print Assumptions C12_positions_round_trip.

(* proper rotation: explicit determinants (Leibniz / Laplace formulas det2, det3, det4 of C12_Mat.v), dims 1-4 *)
Theorem C12_rotate_det_one : forall angles : list R,
  matrix_rotate Rops 1 angles = [[1]] /\ det2 (mof (matrix_rotate Rops 2 angles)) = 1 /\
  det3 (mof (matrix_rotate Rops 3 angles)) = 1 /\ det4 (mof (matrix_rotate Rops 4 angles)) = 1.
Proof. exact rotate_det_one. Qed.
Print Assumptions C12_rotate_det_one.

(* 2-D: counter-clockwise by the first angle *)
Theorem C12_rotate_2d_ccw : forall angles : list R,
  matrix_rotate Rops 2 angles
  = let a := nth 0 angles 0 in [[cos a; - sin a]; [sin a; cos a]].
Proof. exact rotate_2d. Qed.
Print Assumptions C12_rotate_2d_ccw.

(* 3-D: Rx(roll) Ry(pitch) Rz(yaw), angles = (yaw, pitch, roll) *)
Theorem C12_rotate_3d_convention : forall angles : list R,
  let a := nth 0 angles 0 in let b := nth 1 angles 0 in let c := nth 2 angles 0 in
  matrix_rotate Rops 3 angles
  = matmul Rops [[1; 0; 0]; [0; cos c; - sin c]; [0; sin c; cos c]]
      (matmul Rops [[cos b; 0; sin b]; [0; 1; 0]; [- sin b; 0; cos b]]
                   [[cos a; - sin a; 0]; [sin a; cos a; 0]; [0; 0; 1]]).
Proof. exact rotate_3d. Qed.
Print Assumptions C12_rotate_3d_convention.

(* isometrize (t * i-th main axis) = (t / ratio_i) e_i *)
Theorem C12_main_axis_scale : forall (dim : nat) (angles anis : list R) (i : nat) (t : R),
  (0 < dim)%nat -> Forall (fun a => 0 < a) anis -> (i < dim)%nat ->
  let ax := arow (rotated_main_axes Rops dim angles) i in
  isometrize Rops dim angles anis (map (fun x => [t * x]) ax)
  = mkmat dim 1 (fun k _ => if Nat.eqb k i then t / ratio dim anis i else 0).
Proof. exact main_axis_scale. Qed.
Print Assumptions C12_main_axis_scale.

(* _get_iso_rad = Euclidean norm of the main-axis components divided by the ratios *)
Theorem C12_iso_rad : forall (dim : nat) (angles anis : list R) (n : nat) (pos : list (list R)),
  (0 < dim)%nat -> Forall (fun a => 0 < a) anis -> wfm dim n pos ->
  get_iso_rad Rops dim angles anis pos
  = map (fun j => sqrt (sumf dim (fun k =>
        Rsqr (sumf dim (fun l => mof (main_axes Rops dim angles) k l * mof pos l j) / ratio dim anis k)))) (seq 0 n).
Proof. exact iso_rad_spec. Qed.
Print Assumptions C12_iso_rad.

(* rotation alone never changes a distance *)
Theorem C12_iso_rad_rotation_invariant : forall (dim : nat) (angles anis : list R) (n : nat) (pos : list (list R)),
  (0 < dim)%nat -> Forall (fun a => a = 1) anis -> wfm dim n pos ->
  get_iso_rad Rops dim angles anis pos = col_norms Rops pos.
Proof. exact iso_rad_rotation_invariant. Qed.
Print Assumptions C12_iso_rad_rotation_invariant.

(* along main axis i the model has length scale len_scale * anis[i-1] = len_scale_vec[i] *)
Theorem C12_main_axis_len_scale : forall (dim : nat) (angles anis : list R) (ls : R) (i : nat) (t : R),
  (0 < dim)%nat -> Forall (fun a => 0 < a) anis -> (i < dim)%nat -> 0 < ls ->
  map (fun r => r / ls)
      (get_iso_rad Rops dim angles anis (map (fun x => [t * x]) (arow (rotated_main_axes Rops dim angles) i)))
  = [Rabs t / aget 0 (len_scale_vec Rops dim ls (set_anis Rops dim anis)) i].
Proof. exact main_axis_len_scale. Qed.
Print Assumptions C12_main_axis_len_scale.

(* cov_axis(t, i) and cov_spatial(t * main axis i) evaluate the isotropic covariance at the same radius *)
Theorem C12_axis_arg_is_radius : forall (dim : nat) (angles anis : list R) (i : nat) (t : R),
  (0 < dim)%nat -> Forall (fun a => 0 < a) anis -> (i < dim)%nat -> 0 <= t ->
  get_iso_rad Rops dim angles anis (map (fun x => [t * x]) (arow (rotated_main_axes Rops dim angles) i))
  = [axis_arg Rops (set_anis Rops dim anis) t i].
Proof. exact axis_arg_is_radius. Qed.
Print Assumptions C12_axis_arg_is_radius.

(* pipelines: the isotropic twin (no angles, no ratios) applied to the transformed positions returns them unchanged,
   so pre_pos hands the same isotropic positions to the generator / kriging system in both computations *)
Theorem C12_pipeline_isotropic_twin : forall (dim : nat) (angles anis : list R) (n : nat) (pos : list (list R)),
  (0 < dim)%nat -> wfm dim n pos ->
  isometrize Rops dim [] [] (isometrize Rops dim angles anis pos) = isometrize Rops dim angles anis pos.
Proof. exact isotropic_twin. Qed.
Print Assumptions C12_pipeline_isotropic_twin.

(* a list of (>= 2) positive length scales is reproduced: set_len_anis turns it into ratios whose len_scale_vec is the
   list itself, truncated to dim and padded with its last value (edge_pad) *)
Theorem C12_len_scale_list_roundtrip : forall (dim : nat) (ls anis : list R),
  (0 < dim)%nat -> (2 <= length (firstn dim ls))%nat -> Forall (fun l => 0 < l) ls ->
  exists an, set_len_anis Rops dim ls anis false = Some (nth 0 ls 0, an) /\
    length an = (dim - 1)%nat /\ Forall (fun a => 0 < a) an /\
    len_scale_vec Rops dim (nth 0 ls 0) an = edge_pad dim ls.
Proof. exact len_scale_list_roundtrip. Qed.
Print Assumptions C12_len_scale_list_roundtrip.

(* documented plane order: xy, xz, yz, xv, yv, zv in 4-D; adding a dimension only APPENDS the planes (k, dim-1), so
   the first no_of_angles (dim-1) planes of dimension dim are the planes of dimension dim-1, and plane k involves the
   last axis exactly when k >= no_of_angles (dim-1) (what set_model_angles(temporal=True) relies on) *)
Theorem C12_planes_order :
  rotation_planes 4 = [(0, 1); (0, 2); (1, 2); (0, 3); (1, 3); (2, 3)]%nat /\
  (forall n, rotation_planes (S (S n)) = rotation_planes (S n) ++ map (fun k => (k, S n)) (seq 0 (S n))) /\
  (forall dim, firstn (no_of_angles (dim - 1)) (rotation_planes dim) = rotation_planes (dim - 1)) /\
  (forall dim k, (k < no_of_angles dim)%nat ->
     (snd (nth k (rotation_planes dim) (0, 0)%nat) = dim - 1)%nat <-> (no_of_angles (dim - 1) <= k)%nat).
Proof. exact planes_order. Qed.
Print Assumptions C12_planes_order.

(* metric spatio-temporal model, spatial dimension m = n+1 >= 1, ANY angle list: the rotation is block diagonal, its
   spatial block is the rotation of the purely spatial model with the same angles, the time axis is untouched *)
Theorem C12_temporal_rotation_block : forall (n : nat) (angles : list R),
  let m := S n in
  let Rt := matrix_rotate Rops (S m) (set_model_angles Rops (S m) angles false true) in
  let Rs := matrix_rotate Rops m angles in
  (forall i j, (i < m)%nat -> (j < m)%nat -> mof Rt i j = mof Rs i j) /\
  (forall i, (i < S m)%nat -> mof Rt i m = delta i m /\ mof Rt m i = delta m i).
Proof. exact temporal_rotation_block. Qed.
Print Assumptions C12_temporal_rotation_block.

(* 3-D + time: yaw, pitch, roll act on space only *)
Theorem C12_temporal_3d_plus_time : forall angles : list R,
  let a := nth 0 angles 0 in let b := nth 1 angles 0 in let c := nth 2 angles 0 in
  let Rt := matrix_rotate Rops 4 (set_model_angles Rops 4 angles false true) in
  (forall i j, (i < 3)%nat -> (j < 3)%nat ->
     mof Rt i j = mof (matmul Rops [[1; 0; 0]; [0; cos c; - sin c]; [0; sin c; cos c]]
                        (matmul Rops [[cos b; 0; sin b]; [0; 1; 0]; [- sin b; 0; cos b]]
                                     [[cos a; - sin a; 0]; [sin a; cos a; 0]; [0; 0; 1]])) i j) /\
  (forall i, (i < 4)%nat -> mof Rt i 3%nat = delta i 3 /\ mof Rt 3%nat i = delta 3 i).
Proof. exact temporal_3d_plus_time. Qed.
Print Assumptions C12_temporal_3d_plus_time.

(* ---- one model object under every history of setter calls (geo_step: len_scale scalar/list, anis, angles, dim;
   a failing call leaves the state alone).  Evaluations are by construction functions of the PRESENT state
   (geo_isometrize s pos = isometrize (g_dim s) (g_angles s) (g_anis s) pos): nothing may depend on earlier states. *)
Theorem C12_history_wellformed : forall (ops : list (geo_op (T:=R))) (s : @geo R),
  geo_ok s -> geo_ok (fold_left (geo_step Rops) ops s).
Proof. exact geo_history_ok. Qed.
Print Assumptions C12_history_wellformed.

Theorem C12_init_wellformed : forall dim ls anis angles temporal (s : @geo R), (1 <= dim)%nat ->
  geo_init Rops dim ls anis angles temporal = Some s -> geo_ok s.
Proof. exact geo_init_ok. Qed.
Print Assumptions C12_init_wellformed.

(* the stored parameters are fixed points of the padding functions: every matrix is built from exactly the stored values *)
Theorem C12_stored_params_normal : forall s : @geo R, geo_ok s ->
  set_anis Rops (g_dim s) (g_anis s) = g_anis s /\ set_angles Rops (g_dim s) (g_angles s) = g_angles s.
Proof. exact geo_params_normal. Qed.
Print Assumptions C12_stored_params_normal.

(* after every history the coordinate maps of the present state are mutually inverse *)
Theorem C12_history_round_trip : forall (ops : list (geo_op (T:=R))) (s : @geo R) (n : nat) (pos : list (list R)),
  geo_ok s ->
  let s' := fold_left (geo_step Rops) ops s in
  wfm (g_dim s') n pos ->
  geo_isometrize Rops s' (geo_anisometrize Rops s' pos) = pos /\
  geo_anisometrize Rops s' (geo_isometrize Rops s' pos) = pos.
Proof. exact geo_history_round_trip. Qed.
Print Assumptions C12_history_round_trip.

(* a scalar len_scale assignment changes the main length scale and nothing else *)
Theorem C12_scalar_len_keeps_geometry : forall (s : @geo R) (l : R), geo_ok s -> 0 < l ->
  geo_step Rops s (OpLen [l]) = mkGeo (g_dim s) l (g_anis s) (g_angles s) (g_temporal s).
Proof. exact geo_scalar_len. Qed.
Print Assumptions C12_scalar_len_keeps_geometry.

Theorem C12_geo_ok_satisfiable : geo_ok (mkGeo 3%nat 2 [1; / 2] [0; 1; 0] false).
Proof. exact geo_ok_example. Qed.
Print Assumptions C12_geo_ok_satisfiable.

Theorem C12_hypotheses_satisfiable :
  (0 < 3)%nat /\ Forall (fun a => 0 < a) [2; / 2] /\ wfm 3 2 [[1; 2]; [3; 4]; [5; 6]] /\
  Forall (fun a : R => a = 0) [] /\ Forall (fun a => a = 1) [1; 1] /\ (0 < 1 < 3)%nat.
Proof. exact hypotheses_satisfiable. Qed.
Print Assumptions C12_hypotheses_satisfiable.
