(* C04_Tie.v — the hand model (C04_Model.v) equals the formulas that tools/py2coq.py translates from /repo's
   CURRENT sources on every run (coq/gen/Formulas_gen.v).  Proved at the real instance [Rops ora], for every oracle,
   with NO side condition: the only differences are  x ** 2 (source, C pow) vs x * x (model) — equal over R for every
   x ([Rpow_2]) —, the integer attribute dim arriving as the real [IZR d] (tests dim == 1 ... decided on Z in the
   model), np.maximum as one comparison ([fmax]) vs the NaN-aware [nmax] (no NaN in R), and the order of the two
   arms of masked assignments.  Then the C04 theorems are re-stated about the generated definitions. *)
From Coq Require Import Reals Lra Lia ZArith List Bool.
From Coquelicot Require Import Coquelicot.
From GS Require Import Num Loops Formulas RInst Formulas_gen C04_Model C04_Proofs C04_Analysis.
Import ListNotations.
Open Scope R_scope.

Lemma Reqb_IZR d n : Reqb (IZR d) (IZR n) = (d =? n)%Z.
Proof.
  unfold Reqb. destruct (Req_EM_T (IZR d) (IZR n)) as [E|E], (Z.eqb_spec d n) as [F|F]; try reflexivity.
  - apply eq_IZR in E. contradiction.
  - subst. contradiction.
Qed.
Lemma fmax_nmax ora a b : fmax (Rops ora) a b = nmax (Rops ora) a b.
Proof.
  unfold fmax, nmax. rsimp. unfold Rltb, Rleb.
  destruct (Rlt_dec a b), (Rle_dec b a); try reflexivity; lra.
Qed.
Lemma fisclose0 ora a : fisclose (Rops ora) a 0 = isclose0 (Rops ora) a.
Proof. reflexivity. Qed.

Ltac open_gen := unfold nlit, fisclose; rsimp; rewrite ?Rpow_2;
  change 1 with (IZR 1); rewrite ?Reqb_IZR; change (IZR 1) with 1.
Ltac open_model := unfold sq, zd, pw, sqrtpi, two, half, lit, nlit, Gam, lGam, Jv, F21, erf, erfinv, incgl, isclose0; rsimp.

Section Tie.
Variable ora : nat -> list R -> R.
Let O := Rops ora.

Lemma rad_fac_tie (d : Z) r : Formulas_gen.rad_fac O (IZR d) r = C04_Model.rad_fac O d r.
Proof.
  unfold Formulas_gen.rad_fac, C04_Model.rad_fac, O. open_gen. open_model.
  destruct (d =? 1)%Z; [reflexivity|]. destruct (d =? 2)%Z; [reflexivity|]. destruct (d =? 3)%Z; [reflexivity|].
  rewrite minus_IZR. reflexivity.
Qed.

Lemma Gaussian_spectral_density_tie (d : Z) l k :
  Formulas_gen.Gaussian_spectral_density O l (IZR d) k = gau_density O d l k.
Proof. unfold Formulas_gen.Gaussian_spectral_density, gau_density, O. open_gen. open_model. reflexivity. Qed.

Lemma Gaussian_spectral_rad_cdf_tie (d : Z) l r :
  Formulas_gen.Gaussian_spectral_rad_cdf O (IZR d) l r = gau_cdf O d l r.
Proof.
  unfold Formulas_gen.Gaussian_spectral_rad_cdf, gau_cdf, O. open_gen. open_model.
  destruct (d =? 1)%Z; [reflexivity|]. destruct (d =? 2)%Z; [reflexivity|]. destruct (d =? 3)%Z; reflexivity.
Qed.

Lemma Gaussian_spectral_rad_ppf_tie (d : Z) l u :
  Formulas_gen.Gaussian_spectral_rad_ppf O (IZR d) l u = gau_ppf O d l u.
Proof.
  unfold Formulas_gen.Gaussian_spectral_rad_ppf, gau_ppf, O. open_gen. open_model.
  destruct (d =? 1)%Z; [reflexivity|]. destruct (d =? 2)%Z; reflexivity.
Qed.

Lemma Exponential_spectral_density_tie (d : Z) l k :
  Formulas_gen.Exponential_spectral_density O l (IZR d) k = exp_density O d l k.
Proof. unfold Formulas_gen.Exponential_spectral_density, exp_density, O. open_gen. open_model. reflexivity. Qed.

Lemma Exponential_spectral_rad_cdf_tie (d : Z) l r :
  Formulas_gen.Exponential_spectral_rad_cdf O (IZR d) l r = exp_cdf O d l r.
Proof.
  unfold Formulas_gen.Exponential_spectral_rad_cdf, exp_cdf, O. open_gen. open_model.
  destruct (d =? 1)%Z; [reflexivity|]. destruct (d =? 2)%Z; [reflexivity|]. destruct (d =? 3)%Z; reflexivity.
Qed.

Lemma Exponential_spectral_rad_ppf_tie (d : Z) l u :
  Formulas_gen.Exponential_spectral_rad_ppf O (IZR d) l u = exp_ppf O d l u.
Proof.
  unfold Formulas_gen.Exponential_spectral_rad_ppf, exp_ppf, O. open_gen. open_model.
  destruct (d =? 1)%Z; [reflexivity|]. destruct (d =? 2)%Z; [|reflexivity].
  destruct (Rleb _ _); reflexivity.
Qed.

Lemma Matern_spectral_density_tie (d : Z) l nu k :
  Formulas_gen.Matern_spectral_density O l nu (IZR d) k = mat_density O d l nu k.
Proof. unfold Formulas_gen.Matern_spectral_density, mat_density, O. open_gen. open_model. reflexivity. Qed.

Lemma Integral_spectral_density_tie (d : Z) l nu k :
  Formulas_gen.Integral_spectral_density O l (IZR d) nu k = int_density O d l nu k.
Proof.
  unfold Formulas_gen.Integral_spectral_density, int_density, O. open_gen. open_model.
  destruct (Rltb _ nu); [reflexivity|]. destruct (Rleb _ _); reflexivity.
Qed.

Lemma JBessel_spectral_density_tie (d : Z) l nu k :
  Formulas_gen.JBessel_spectral_density O l (IZR d) nu k = jb_density O d l nu k.
Proof.
  unfold Formulas_gen.JBessel_spectral_density, jb_density, O. open_gen.
  rewrite (fmax_nmax ora). open_model. destruct (Rltb k _); reflexivity.
Qed.
Lemma HyperSpherical_spectral_density_tie (d : Z) l k :
  Formulas_gen.HyperSpherical_spectral_density O l (IZR d) k = hyp_density O d l k.
Proof.
  unfold Formulas_gen.HyperSpherical_spectral_density, hyp_density, O. open_gen. open_model.
  destruct (Rleb _ _); reflexivity.
Qed.

Lemma tpl_exp_spec_dens_base_tie (d : Z) l h k :
  Formulas_gen.tpl_exp_spec_dens_base O k (IZR d) l h = tplexp0 O d l h k.
Proof. unfold Formulas_gen.tpl_exp_spec_dens_base, tplexp0, O. open_gen. open_model. reflexivity. Qed.

Lemma tpl_gau_spec_dens_base_tie (d : Z) l h k :
  Formulas_gen.tpl_gau_spec_dens_base O k (IZR d) l h = tplgau0 O d l h k.
Proof.
  unfold Formulas_gen.tpl_gau_spec_dens_base, tplgau0, tplgau_series, O. open_gen. open_model.
  cbn [fold_left fst]. rsimp. destruct (Rltb _ _); reflexivity.
Qed.

(* the source repeats the len_low = 0 body inside the function; the model calls the base function *)
Lemma tpl_exp_spec_dens_tie (d : Z) l h low k :
  Formulas_gen.tpl_exp_spec_dens O k (IZR d) l h low = tplexp_density O d l h low k.
Proof.
  unfold tplexp_density, tpl_combine. rewrite <- !tpl_exp_spec_dens_base_tie.
  unfold Formulas_gen.tpl_exp_spec_dens, Formulas_gen.tpl_exp_spec_dens_base, O. open_gen. open_model. reflexivity.
Qed.
Lemma tpl_gau_spec_dens_tie (d : Z) l h low k :
  Formulas_gen.tpl_gau_spec_dens O k (IZR d) l h low = tplgau_density O d l h low k.
Proof.
  unfold tplgau_density, tpl_combine. rewrite <- !tpl_gau_spec_dens_base_tie.
  unfold Formulas_gen.tpl_gau_spec_dens, Formulas_gen.tpl_gau_spec_dens_base, O. open_gen. open_model. reflexivity.
Qed.
(* the classes' argument plumbing: (k, dim, len_rescaled, hurst, len_low_rescaled) *)
Lemma TPLGaussian_spectral_density_tie (d : Z) l h lowr k :
  Formulas_gen.TPLGaussian_spectral_density O (IZR d) l h lowr k = tplgau_density O d l h lowr k.
Proof. unfold Formulas_gen.TPLGaussian_spectral_density. apply tpl_gau_spec_dens_tie. Qed.
Lemma TPLExponential_spectral_density_tie (d : Z) l h lowr k :
  Formulas_gen.TPLExponential_spectral_density O (IZR d) l h lowr k = tplexp_density O d l h lowr k.
Proof. unfold Formulas_gen.TPLExponential_spectral_density. apply tpl_exp_spec_dens_tie. Qed.
End Tie.

(* ====================================================================== class level *)
(* what the SOURCE says now for a class: the generated formula applied to len_rescaled = len_scale / rescale, the
   dimension and (truncated power laws) len_low_rescaled = len_low / rescale — all eight analytic classes *)
Definition gen_density (ora : nat -> list R -> R) (m : cls) (d : Z) (ls rs k : R) : R :=
  let O := Rops ora in let l := ls / rs in
  match m with
  | Gaussian => Formulas_gen.Gaussian_spectral_density O l (IZR d) k
  | Exponential => Formulas_gen.Exponential_spectral_density O l (IZR d) k
  | Matern nu => Formulas_gen.Matern_spectral_density O l nu (IZR d) k
  | Integral nu => Formulas_gen.Integral_spectral_density O l (IZR d) nu k
  | HyperSpherical => Formulas_gen.HyperSpherical_spectral_density O l (IZR d) k
  | JBessel nu => Formulas_gen.JBessel_spectral_density O l (IZR d) nu k
  | TPLGaussian h low => Formulas_gen.TPLGaussian_spectral_density O (IZR d) l h (low / rs) k
  | TPLExponential h low => Formulas_gen.TPLExponential_spectral_density O (IZR d) l h (low / rs) k
  end.
Definition gen_cdf (ora : nat -> list R -> R) (m : cls (T:=R)) (d : Z) (ls rs r : R) : option R :=
  match m with
  | Gaussian => Formulas_gen.Gaussian_spectral_rad_cdf (Rops ora) (IZR d) (ls / rs) r
  | Exponential => Formulas_gen.Exponential_spectral_rad_cdf (Rops ora) (IZR d) (ls / rs) r
  | _ => None
  end.
Definition gen_ppf (ora : nat -> list R -> R) (m : cls (T:=R)) (d : Z) (ls rs u : R) : option R :=
  match m with
  | Gaussian => Formulas_gen.Gaussian_spectral_rad_ppf (Rops ora) (IZR d) (ls / rs) u
  | Exponential => Formulas_gen.Exponential_spectral_rad_ppf (Rops ora) (IZR d) (ls / rs) u
  | _ => None
  end.
Definition gen_pdf (ora : nat -> list R -> R) (m : cls) (d : Z) (ls rs r : R) : R :=
  Formulas_gen.rad_fac (Rops ora) (IZR d) r * gen_density ora m d ls rs r.

Section ClassTie.
Variable ora : nat -> list R -> R.
Lemma gen_density_tie m d ls rs k : gen_density ora m d ls rs k = spectral_density (Rops ora) m d ls rs k.
Proof.
  unfold gen_density, spectral_density, len_rescaled. rsimp. destruct m.
  - apply Gaussian_spectral_density_tie.
  - apply Exponential_spectral_density_tie.
  - apply Matern_spectral_density_tie.
  - apply Integral_spectral_density_tie.
  - apply HyperSpherical_spectral_density_tie.
  - apply JBessel_spectral_density_tie.
  - apply TPLGaussian_spectral_density_tie.
  - apply TPLExponential_spectral_density_tie.
Qed.
Lemma gen_cdf_tie m d ls rs r : gen_cdf ora m d ls rs r = spectral_rad_cdf (Rops ora) m d ls rs r.
Proof.
  unfold gen_cdf, spectral_rad_cdf, len_rescaled. rsimp. destruct m; try reflexivity.
  - apply Gaussian_spectral_rad_cdf_tie.
  - apply Exponential_spectral_rad_cdf_tie.
Qed.
Lemma gen_ppf_tie m d ls rs u : gen_ppf ora m d ls rs u = spectral_rad_ppf (Rops ora) m d ls rs u.
Proof.
  unfold gen_ppf, spectral_rad_ppf, len_rescaled. rsimp. destruct m; try reflexivity.
  - apply Gaussian_spectral_rad_ppf_tie.
  - apply Exponential_spectral_rad_ppf_tie.
Qed.
Lemma gen_pdf_tie m d ls rs r : gen_pdf ora m d ls rs r = pdfR ora m d ls rs r.
Proof. unfold gen_pdf, pdfR. rewrite rad_fac_tie, gen_density_tie. reflexivity. Qed.

(* ---------- the C04 theorems about the generated definitions *)
Theorem spectrum_scaling_gen m d ls rs k : 0 < ls -> 0 < rs -> scal_ok m (ls / rs) k ->
  gen_density ora m d ls rs k = Rpow (ls / rs) (IZR d) * gen_density ora (ref_cls m ls) d 1 1 ((ls / rs) * k).
Proof. intros Hl Hs Hok. rewrite !gen_density_tie. apply spectrum_scaling; assumption. Qed.

Theorem cdf_derivative_gen ls rs m d : 0 < ls -> 0 < rs -> gamma_hyps ora ->
  elementary m d \/ (via_erf m d /\ erf_derive_hyp ora) ->
  forall r, is_derive (fun r => getv (gen_cdf ora m d ls rs r)) r (gen_pdf ora m d ls rs r).
Proof.
  intros Hl Hs HG H r. rewrite gen_pdf_tie.
  apply is_derive_ext with (cdfR ora m d ls rs); [intros t; unfold cdfR; rewrite gen_cdf_tie; reflexivity|].
  apply cdf_derivative; assumption.
Qed.

Theorem cdf_limits_gen ls rs m d : 0 < ls -> 0 < rs -> elementary m d \/ (via_erf m d /\ erf_limit_hyps ora) ->
  getv (gen_cdf ora m d ls rs 0) = 0 /\ is_lim (fun r => getv (gen_cdf ora m d ls rs r)) p_infty 1.
Proof.
  intros Hl Hs H. destruct (cdf_limits ora ls rs Hl Hs m d H) as [H0 HL]. split.
  - rewrite gen_cdf_tie. exact H0.
  - apply is_lim_ext with (cdfR ora m d ls rs); [intros t; unfold cdfR; rewrite gen_cdf_tie; reflexivity|exact HL].
Qed.

Theorem pdf_integrates_to_one_gen ls rs m d : 0 < ls -> 0 < rs -> gamma_hyps ora ->
  elementary m d \/ (via_erf m d /\ erf_derive_hyp ora /\ erf_limit_hyps ora) ->
  is_RInt_gen (gen_pdf ora m d ls rs) (at_point 0) (Rbar_locally p_infty) 1.
Proof.
  intros Hl Hs HG H. apply is_RInt_gen_ext with (pdfR ora m d ls rs).
  - apply filter_forall. intros ab x _. symmetry. apply gen_pdf_tie.
  - apply pdf_integrates_to_one; assumption.
Qed.

Ltac gen_rw := rewrite ?gen_ppf_tie, ?gen_cdf_tie.
Theorem ppf_inverts_cdf_gen ls rs : 0 < ls -> 0 < rs ->
  (* Gaussian 2D *)
  (forall u, 0 <= u < 1 -> exists p, gen_ppf ora Gaussian 2 ls rs u = Some p /\ 0 <= p /\ gen_cdf ora Gaussian 2 ls rs p = Some u) /\
  (forall r, 0 <= r -> exists u, gen_cdf ora Gaussian 2 ls rs r = Some u /\ 0 <= u < 1 /\ gen_ppf ora Gaussian 2 ls rs u = Some r) /\
  (* Gaussian 1D, erfinv o erf = id assumed *)
  ((forall x, ora ORA_ERFINV [ora ORA_ERF [x]] = x) ->
   forall r, exists u, gen_cdf ora Gaussian 1 ls rs r = Some u /\ gen_ppf ora Gaussian 1 ls rs u = Some r) /\
  (* Exponential 1D *)
  (forall u, 0 <= u < 1 -> exists p, gen_ppf ora Exponential 1 ls rs u = Some p /\ gen_cdf ora Exponential 1 ls rs p = Some u) /\
  (forall r, exists u, gen_cdf ora Exponential 1 ls rs r = Some u /\ gen_ppf ora Exponential 1 ls rs u = Some r) /\
  (* Exponential 2D, outside the |1 - u| <= 1e-8 mask *)
  (forall u, 0 <= u -> tol8 < 1 - u ->
     exists p, gen_ppf ora Exponential 2 ls rs u = Some p /\ 0 <= p /\ gen_cdf ora Exponential 2 ls rs p = Some u) /\
  (forall r, 0 <= r -> tol8 < 1 / sqrt (1 + (r * (ls / rs)) * (r * (ls / rs))) ->
     exists u, gen_cdf ora Exponential 2 ls rs r = Some u /\ 0 <= u < 1 /\ gen_ppf ora Exponential 2 ls rs u = Some r).
Proof.
  intros Hl Hs. repeat split.
  - intros u Hu. destruct (gau2_cdf_ppf ora ls rs Hl Hs u Hu) as (p & A & B & Cc). exists p. gen_rw. auto.
  - intros r Hr. destruct (gau2_ppf_cdf ora ls rs Hl Hs r Hr) as (u & A & B & Cc). exists u. gen_rw. auto.
  - intros Hinv r. destruct (gau1_ppf_cdf ora ls rs Hl Hs r Hinv) as (u & A & B). exists u. gen_rw. auto.
  - intros u Hu. destruct (exp1_cdf_ppf ora ls rs Hl Hs u Hu) as (p & A & B). exists p. gen_rw. auto.
  - intros r. destruct (exp1_ppf_cdf ora ls rs Hl Hs r) as (u & A & B). exists u. gen_rw. auto.
  - intros u Hu0 Hu. destruct (exp2_cdf_ppf ora ls rs Hl Hs u Hu0 Hu) as (p & A & B & Cc). exists p. gen_rw. auto.
  - intros r Hr Hm. destruct (exp2_ppf_cdf ora ls rs Hl Hs r Hr Hm) as (u & A & B & Cc). exists u. gen_rw. auto.
Qed.

(* Fourier pair with the generated cor AND the generated spectral density of the Exponential class, d = 1 *)
Theorem fourier_pair_exponential_1d_gen ls rs k : 0 < ls -> 0 < rs -> ora ORA_GAMMA [1] = 1 ->
  is_RInt_gen (fun r => / PI * (Formulas_gen.Exponential_cor (Rops ora) (r / (ls / rs)) * cos (k * r)))
              (at_point 0) (Rbar_locally p_infty)
              (Formulas_gen.Exponential_spectral_density (Rops ora) (ls / rs) (IZR 1) k).
Proof.
  intros Hl Hs G1. change (Formulas_gen.Exponential_spectral_density (Rops ora) (ls / rs) (IZR 1) k) with (gen_density ora Exponential 1 ls rs k).
  rewrite gen_density_tie. apply (fourier_pair_exponential_1d ora ls rs Hl Hs k G1).
Qed.
End ClassTie.
