(* C04_Analysis.v — the analytic part of C04 that Coq's Reals + Coquelicot can carry:
   d/dr cdf = rad_fac * density, cdf(0) = 0, cdf -> 1, integral of the radial pdf over [0, oo) = 1
   (Exponential d = 1,2,3; Gaussian d = 2; Gaussian d = 1,3 with erf a variable whose derivative and
   limit are hypotheses, shown satisfiable by the integral of the Gaussian), and the Fourier pair of the
   Exponential model in one dimension. *)
From Coq Require Import Reals Lra Lia ZArith List Bool Psatz.
From Coquelicot Require Import Coquelicot.
From GS Require Import Num Loops RInst C04_Model C04_Proofs.
Import ListNotations.
Open Scope R_scope.

Ltac eqR := match goal with |- @eq _ ?a ?b => change (@eq R a b) end.
Ltac sidec := repeat split; try exact I; try assumption; try (apply Rgt_not_eq; assumption); try lra; try nra.

(* ---------- integral over [0, oo) from an antiderivative and its limit *)
Lemma RInt_gen_antiderivative (F f : R -> R) (L : R) :
  (forall x, is_derive F x (f x)) -> (forall x, continuous f x) -> is_lim F p_infty L ->
  is_RInt_gen f (at_point 0) (Rbar_locally p_infty) (L - F 0).
Proof.
  intros HD HC HL P HP.
  assert (HL' : is_lim (fun b => F b - F 0) p_infty (L - F 0)).
  { apply (is_lim_minus' F (fun _ => F 0) p_infty L (F 0)); [exact HL|apply is_lim_const]. }
  specialize (HL' P HP).
  unfold filtermapi.
  apply (Filter_prod _ _ _ (fun a => a = 0) (fun b => P (F b - F 0))).
  - reflexivity.
  - exact HL'.
  - intros a b -> Hb. exists (F b - F 0). split; [|exact Hb]. simpl.
    apply (is_RInt_derive F f 0 b); intros; auto.
Qed.

(* a function bounded by C / x vanishes at infinity *)
Lemma lim0_by_bound (f : R -> R) (C : R) : 0 < C ->
  (forall x, 0 < x -> Rabs (f x) <= C / x) -> is_lim f p_infty 0.
Proof.
  intros HC Hb. apply is_lim_spec. intros eps. exists (C / eps). intros x Hx.
  assert (He := cond_pos eps).
  assert (Hq : 0 < C / eps) by (apply Rdiv_lt_0_compat; assumption).
  assert (Hx0 : 0 < x) by lra.
  rewrite Rminus_0_r. apply Rle_lt_trans with (C / x); [apply Hb; exact Hx0|].
  apply Rmult_lt_reg_r with x; [exact Hx0|]. replace (C / x * x) with C by (field; lra).
  apply Rmult_lt_reg_r with (/ eps); [apply Rinv_0_lt_compat; exact He|].
  replace (eps * x * / eps) with x by (field; lra). exact Hx.
Qed.

Lemma lim_atan_p : is_lim atan p_infty (PI / 2).
Proof.
  apply is_lim_ext_loc with (fun x => PI / 2 - atan (/ x)).
  { exists 0. intros x Hx. rewrite atan_inv by exact Hx. ring. }
  replace (Finite (PI / 2)) with (Rbar_minus (PI / 2) (atan 0)) by (simpl; rewrite atan_0; f_equal; ring).
  apply is_lim_minus'; [apply is_lim_const|].
  apply is_lim_comp with 0.
  - apply is_lim_continuity. apply derivable_continuous_pt. apply derivable_pt_atan.
  - replace (Finite 0) with (Rbar_inv p_infty) by reflexivity. apply is_lim_inv; [apply is_lim_id|discriminate].
  - exists 0. intros x Hx H. injection H as H. assert (0 < / x) by (apply Rinv_0_lt_compat; exact Hx). lra.
Qed.

Lemma exp_sq_bound y : 0 <= y -> exp (- y) <= 1 / (1 + y).
Proof.
  intros Hy. rewrite exp_Ropp. unfold Rdiv. rewrite Rmult_1_l.
  apply Rinv_le_contravar; [lra|]. destruct (Req_dec y 0) as [->|Hne].
  - rewrite exp_0. lra.
  - left. apply exp_ineq1. lra.
Qed.

(* ====================================================================== the closed forms *)
Section ClosedForms.
Variable l : R.
Hypothesis Hl : 0 < l.

Definition eF1 r := atan (r * l) * 2 / PI.
Definition ep1 r := 2 / PI * (l / (1 + (r * l) * (r * l))).
Definition eF2 r := 1 - 1 / sqrt (1 + (r * l) * (r * l)).
Definition ep2 r := r * (l * l) / ((1 + (r * l) * (r * l)) * sqrt (1 + (r * l) * (r * l))).
Definition eF3 r := (atan (r * l) - r * l / (1 + (r * l) * (r * l))) * 2 / PI.
Definition ep3 r := 4 * (l * l * l) * (r * r) / (PI * ((1 + (r * l) * (r * l)) * (1 + (r * l) * (r * l)))).
Definition gF2 r := 1 - exp (- ((r * l / 2) * (r * l / 2))).
Definition gp2 r := r * (l * l) / 2 * exp (- ((r * l / 2) * (r * l / 2))).

Lemma q_pos r : 0 < 1 + (r * l) * (r * l). Proof. nra. Qed.
Lemma sq_pos r : 0 < sqrt (1 + (r * l) * (r * l)). Proof. apply sqrt_lt_R0, q_pos. Qed.

Lemma eF1_derive r : is_derive eF1 r (ep1 r).
Proof.
  unfold eF1, ep1. assert (Hpi := PI_RGT_0). assert (Hq := q_pos r).
  auto_derive; [exact I|]. field. split; nra.
Qed.
Lemma eF2_derive r : is_derive eF2 r (ep2 r).
Proof.
  unfold eF2, ep2. assert (Hq := q_pos r). assert (Hs := sq_pos r).
  assert (Hss : sqrt (1 + r * l * (r * l)) * sqrt (1 + r * l * (r * l)) = 1 + r * l * (r * l)) by (apply sqrt_sqrt; lra).
  auto_derive; [sidec|].
  set (s := sqrt (1 + r * l * (r * l))) in *. rewrite <- Hss. field. apply Rgt_not_eq. exact Hs.
Qed.
Lemma eF3_derive r : is_derive eF3 r (ep3 r).
Proof.
  unfold eF3, ep3. assert (Hpi := PI_RGT_0). assert (Hq := q_pos r).
  auto_derive; [sidec|]. field. split; nra.
Qed.
Lemma gF2_derive r : is_derive gF2 r (gp2 r).
Proof. unfold gF2, gp2. auto_derive; [exact I|]. unfold Rdiv. field. Qed.

Lemma ep1_cont r : continuous ep1 r.
Proof. apply (ex_derive_continuous ep1). unfold ep1. assert (Hq := q_pos r). assert (Hpi := PI_RGT_0). auto_derive. repeat split; nra. Qed.
Lemma ep2_cont r : continuous ep2 r.
Proof.
  apply (ex_derive_continuous ep2). unfold ep2. assert (Hq := q_pos r). assert (Hs := sq_pos r). auto_derive.
  repeat split; try exact Hq. apply Rgt_not_eq. apply Rmult_lt_0_compat; assumption.
Qed.
Lemma ep3_cont r : continuous ep3 r.
Proof.
  apply (ex_derive_continuous ep3). unfold ep3. assert (Hq := q_pos r). assert (Hpi := PI_RGT_0). auto_derive.
  repeat split. apply Rgt_not_eq. apply Rmult_lt_0_compat; [exact Hpi|]. apply Rmult_lt_0_compat; exact Hq.
Qed.
Lemma gp2_cont r : continuous gp2 r.
Proof. apply (ex_derive_continuous gp2). unfold gp2. auto_derive. exact I. Qed.

(* values at 0 *)
Lemma eF1_0 : eF1 0 = 0. Proof. unfold eF1. rewrite Rmult_0_l, atan_0. unfold Rdiv. ring. Qed.
Lemma eF2_0 : eF2 0 = 0.
Proof. unfold eF2. rewrite Rmult_0_l, Rmult_0_l, Rplus_0_r, sqrt_1. field. Qed.
Lemma eF3_0 : eF3 0 = 0. Proof. unfold eF3. rewrite Rmult_0_l, atan_0. unfold Rdiv. ring. Qed.
Lemma gF2_0 : gF2 0 = 0.
Proof. unfold gF2. replace (- (0 * l / 2 * (0 * l / 2))) with 0 by field. rewrite exp_0. ring. Qed.

(* limits at infinity *)
Lemma lim_atan_rl : is_lim (fun r => atan (r * l)) p_infty (PI / 2).
Proof.
  apply is_lim_ext with (fun r => atan (l * r + 0)); [intros; f_equal; ring|].
  apply (is_lim_comp_lin atan l 0 p_infty (PI / 2)); [|lra].
  replace (Rbar_plus (Rbar_mult l p_infty) 0) with p_infty; [exact lim_atan_p|].
  simpl. destruct (Rle_dec 0 l) as [H|H]; [|lra]. destruct (Rle_lt_or_eq_dec 0 l H); [reflexivity|lra].
Qed.
Lemma lim_inv_sqrt : is_lim (fun r => 1 / sqrt (1 + (r * l) * (r * l))) p_infty 0.
Proof.
  apply lim0_by_bound with (1 / l); [apply Rdiv_lt_0_compat; lra|]. intros x Hx.
  assert (Hs := sq_pos x). assert (Hxl : 0 < x * l) by (apply Rmult_lt_0_compat; assumption).
  rewrite Rabs_pos_eq by (left; apply Rdiv_lt_0_compat; lra).
  replace (1 / l / x) with (1 / (x * l)) by (field; lra).
  unfold Rdiv. rewrite !Rmult_1_l. apply Rinv_le_contravar; [exact Hxl|].
  rewrite <- (sqrt_square (x * l)) at 1 by lra. apply sqrt_le_1_alt. lra.
Qed.
Lemma lim_rl_q : is_lim (fun r => r * l / (1 + (r * l) * (r * l))) p_infty 0.
Proof.
  apply lim0_by_bound with (1 / l); [apply Rdiv_lt_0_compat; lra|]. intros x Hx.
  assert (Hq := q_pos x). assert (Hxl : 0 < x * l) by (apply Rmult_lt_0_compat; assumption).
  rewrite Rabs_pos_eq by (left; apply Rdiv_lt_0_compat; lra).
  apply Rmult_le_reg_r with (1 + x * l * (x * l)); [exact Hq|].
  replace (x * l / (1 + x * l * (x * l)) * (1 + x * l * (x * l))) with (x * l) by (field; lra).
  replace (1 / l / x * (1 + x * l * (x * l))) with (1 / (x * l) + x * l) by (field; lra).
  assert (0 < 1 / (x * l)) by (apply Rdiv_lt_0_compat; lra). lra.
Qed.
Lemma lim_gauss : is_lim (fun r => exp (- ((r * l / 2) * (r * l / 2)))) p_infty 0.
Proof.
  apply lim0_by_bound with (1 / l); [apply Rdiv_lt_0_compat; lra|]. intros x Hx.
  rewrite Rabs_pos_eq by (left; apply exp_pos).
  set (y := x * l / 2 * (x * l / 2)). assert (Hy : 0 <= y) by (unfold y; nra).
  apply Rle_trans with (1 / (1 + y)); [apply exp_sq_bound; exact Hy|].
  apply Rmult_le_reg_r with (1 + y); [lra|]. replace (1 / (1 + y) * (1 + y)) with 1 by (field; lra).
  apply Rmult_le_reg_r with (x * l); [apply Rmult_lt_0_compat; assumption|].
  replace (1 / l / x * (1 + y) * (x * l)) with (1 + y) by (field; lra).
  assert (H0 : 0 <= (1 - x * l / 2) * (1 - x * l / 2)) by (apply Rle_0_sqr).
  replace ((1 - x * l / 2) * (1 - x * l / 2)) with (1 + y - 1 * (x * l)) in H0 by (unfold y; field). lra.
Qed.

Lemma eF1_lim : is_lim eF1 p_infty 1.
Proof.
  assert (Hpi := PI_RGT_0). unfold eF1.
  replace (Finite 1) with (Rbar_mult (PI / 2) (2 / PI)) by (simpl; f_equal; field; lra).
  apply is_lim_ext with (fun r => atan (r * l) * (2 / PI)); [intros; field; lra|].
  apply is_lim_mult; [exact lim_atan_rl|apply is_lim_const|exact I].
Qed.
Lemma eF2_lim : is_lim eF2 p_infty 1.
Proof.
  unfold eF2. replace (Finite 1) with (Rbar_minus 1 0) by (simpl; f_equal; ring).
  apply is_lim_minus'; [apply is_lim_const|exact lim_inv_sqrt].
Qed.
Lemma eF3_lim : is_lim eF3 p_infty 1.
Proof.
  assert (Hpi := PI_RGT_0). unfold eF3.
  replace (Finite 1) with (Rbar_mult (Rbar_minus (PI / 2) 0) (2 / PI)) by (simpl; f_equal; field; lra).
  apply is_lim_ext with (fun r => (atan (r * l) - r * l / (1 + r * l * (r * l))) * (2 / PI)); [intros y; assert (0 < 1 + y * l * (y * l)) by nra; field; split; lra|].
  apply is_lim_mult; [|apply is_lim_const|exact I].
  apply is_lim_minus'; [exact lim_atan_rl|exact lim_rl_q].
Qed.
Lemma gF2_lim : is_lim gF2 p_infty 1.
Proof.
  unfold gF2. replace (Finite 1) with (Rbar_minus 1 0) by (simpl; f_equal; ring).
  apply is_lim_minus'; [apply is_lim_const|exact lim_gauss].
Qed.

(* integral of the radial pdf over [0, oo) is one *)
Lemma ep1_int : is_RInt_gen ep1 (at_point 0) (Rbar_locally p_infty) 1.
Proof. replace 1 with (1 - eF1 0) by (rewrite eF1_0; ring). apply RInt_gen_antiderivative; [exact eF1_derive|exact ep1_cont|exact eF1_lim]. Qed.
Lemma ep2_int : is_RInt_gen ep2 (at_point 0) (Rbar_locally p_infty) 1.
Proof. replace 1 with (1 - eF2 0) by (rewrite eF2_0; ring). apply RInt_gen_antiderivative; [exact eF2_derive|exact ep2_cont|exact eF2_lim]. Qed.
Lemma ep3_int : is_RInt_gen ep3 (at_point 0) (Rbar_locally p_infty) 1.
Proof. replace 1 with (1 - eF3 0) by (rewrite eF3_0; ring). apply RInt_gen_antiderivative; [exact eF3_derive|exact ep3_cont|exact eF3_lim]. Qed.
Lemma gp2_int : is_RInt_gen gp2 (at_point 0) (Rbar_locally p_infty) 1.
Proof. replace 1 with (1 - gF2 0) by (rewrite gF2_0; ring). apply RInt_gen_antiderivative; [exact gF2_derive|exact gp2_cont|exact gF2_lim]. Qed.

(* ---------- Gaussian d = 1, 3: erf is a variable; its derivative, value at 0 and limit are hypotheses *)
Section WithErf.
Variable erf : R -> R.
Hypothesis erf_derive : forall x, is_derive erf x (2 / sqrt PI * exp (- (x * x))).
Definition gF1 r := erf (r * l / 2).
Definition gp1 r := l / sqrt PI * exp (- ((r * l / 2) * (r * l / 2))).
Definition gF3 r := erf (r * l / 2) - r * l / sqrt PI * exp (- ((r * l / 2) * (r * l / 2))).
Definition gp3 r := r * r * (l * l * l) / (2 * sqrt PI) * exp (- ((r * l / 2) * (r * l / 2))).
Lemma spi : 0 < sqrt PI. Proof. apply sqrt_lt_R0, PI_RGT_0. Qed.
Lemma gF1_derive r : is_derive gF1 r (gp1 r).
Proof.
  unfold gF1, gp1. assert (Hs := spi).
  evar_last. { apply (is_derive_comp erf (fun r => r * l / 2)); [apply erf_derive|]. auto_derive; [exact I|reflexivity]. }
  unfold scal; simpl; unfold mult; simpl. eqR. field. lra.
Qed.
Lemma gF3_derive r : is_derive gF3 r (gp3 r).
Proof.
  unfold gF3. assert (Hs := spi).
  evar_last.
  { apply (is_derive_minus (fun r => erf (r * l / 2))); [apply gF1_derive|].
    instantiate (1 := (l / sqrt PI - r * l / sqrt PI * (r * (l * l) / 2)) * exp (- (r * l / 2 * (r * l / 2)))).
    auto_derive; [exact I|]. unfold Rdiv. field. lra. }
  unfold gp1, gp3, minus, plus, opp; simpl. eqR. unfold Rdiv. field. lra.
Qed.
Lemma gp1_cont r : continuous gp1 r.
Proof. apply (ex_derive_continuous gp1). unfold gp1. auto_derive. exact I. Qed.
Lemma gp3_cont r : continuous gp3 r.
Proof. apply (ex_derive_continuous gp3). unfold gp3. auto_derive. exact I. Qed.

Hypothesis erf_0 : erf 0 = 0.
Hypothesis erf_lim : is_lim erf p_infty 1.
Lemma gF1_0 : gF1 0 = 0. Proof. unfold gF1. replace (0 * l / 2) with 0 by field. exact erf_0. Qed.
Lemma gF3_0 : gF3 0 = 0. Proof. unfold gF3. replace (0 * l / 2) with 0 by field. rewrite erf_0. unfold Rdiv. ring. Qed.
Lemma gF1_lim : is_lim gF1 p_infty 1.
Proof.
  unfold gF1. apply is_lim_ext with (fun r => erf (l / 2 * r + 0)); [intros; f_equal; field|].
  apply (is_lim_comp_lin erf (l / 2) 0 p_infty 1); [|lra].
  replace (Rbar_plus (Rbar_mult (l / 2) p_infty) 0) with p_infty; [exact erf_lim|].
  simpl. destruct (Rle_dec 0 (l / 2)) as [H|H]; [|lra]. destruct (Rle_lt_or_eq_dec 0 (l / 2) H); [reflexivity|lra].
Qed.
Lemma lim_r_gauss : is_lim (fun r => r * l / sqrt PI * exp (- ((r * l / 2) * (r * l / 2)))) p_infty 0.
Proof.
  assert (Hs := spi).
  apply lim0_by_bound with (2 / (sqrt PI * l)); [apply Rdiv_lt_0_compat; [lra|apply Rmult_lt_0_compat; lra]|]. intros x Hx.
  assert (Hxl : 0 < x * l) by (apply Rmult_lt_0_compat; assumption).
  rewrite Rabs_pos_eq by (apply Rmult_le_pos; [left; apply Rdiv_lt_0_compat; lra|left; apply exp_pos]).
  set (y := x * l / 2 * (x * l / 2)). assert (Hy : 0 < y) by (unfold y; nra).
  (* exp(-y) = exp(-y/2)^2 <= 1/(1+y/2)^2 <= 1/(2y) *)
  assert (He : exp (- y) <= 1 / (2 * y)).
  { replace (- y) with (- (y / 2) + - (y / 2)) by field. rewrite exp_plus.
    assert (H1 := exp_sq_bound (y / 2)). assert (0 <= y / 2) by lra. specialize (H1 H).
    assert (H0 : 0 < exp (- (y / 2))) by apply exp_pos.
    apply Rle_trans with (1 / (1 + y / 2) * (1 / (1 + y / 2))); [apply Rmult_le_compat; lra|].
    apply Rmult_le_reg_r with (2 * y * ((1 + y / 2) * (1 + y / 2))); [nra|].
    replace (1 / (1 + y / 2) * (1 / (1 + y / 2)) * (2 * y * ((1 + y / 2) * (1 + y / 2)))) with (2 * y) by (field; lra).
    replace (1 / (2 * y) * (2 * y * ((1 + y / 2) * (1 + y / 2)))) with ((1 + y / 2) * (1 + y / 2)) by (field; lra).
    assert (Hsq : 0 <= (1 - y / 2) * (1 - y / 2)) by apply Rle_0_sqr.
    replace ((1 + y / 2) * (1 + y / 2)) with (2 * y + (1 - y / 2) * (1 - y / 2)) by field. lra. }
  apply Rle_trans with (x * l / sqrt PI * (1 / (2 * y))).
  { apply Rmult_le_compat_l; [left; apply Rdiv_lt_0_compat; lra|exact He]. }
  right. unfold y. field. repeat split; lra.
Qed.
Lemma gF3_lim : is_lim gF3 p_infty 1.
Proof.
  unfold gF3. replace (Finite 1) with (Rbar_minus 1 0) by (simpl; f_equal; ring).
  apply is_lim_minus'; [exact gF1_lim|exact lim_r_gauss].
Qed.
Lemma gp1_int : is_RInt_gen gp1 (at_point 0) (Rbar_locally p_infty) 1.
Proof. replace 1 with (1 - gF1 0) by (rewrite gF1_0; ring). apply RInt_gen_antiderivative; [exact gF1_derive|exact gp1_cont|exact gF1_lim]. Qed.
Lemma gp3_int : is_RInt_gen gp3 (at_point 0) (Rbar_locally p_infty) 1.
Proof. replace 1 with (1 - gF3 0) by (rewrite gF3_0; ring). apply RInt_gen_antiderivative; [exact gF3_derive|exact gp3_cont|exact gF3_lim]. Qed.
End WithErf.
End ClosedForms.

(* the hypotheses on erf's derivative and value at 0 are satisfiable: the integral of the Gaussian *)
Definition gaussd (t : R) : R := exp (- (t * t)).
Definition erfR (x : R) : R := 2 / sqrt PI * RInt gaussd 0 x.
Lemma gaussd_cont t : continuous gaussd t.
Proof. apply (ex_derive_continuous gaussd). unfold gaussd. auto_derive. exact I. Qed.
Lemma erfR_derive x : is_derive erfR x (2 / sqrt PI * exp (- (x * x))).
Proof.
  unfold erfR. apply (is_derive_scal (fun x => RInt gaussd 0 x) x (2 / sqrt PI) (gaussd x)).
  apply (is_derive_RInt gaussd (fun b => RInt gaussd 0 b) 0 x); [|apply gaussd_cont].
  apply filter_forall. intros b. apply (RInt_correct gaussd 0 b).
  apply (ex_RInt_continuous gaussd). intros z _. apply gaussd_cont.
Qed.
Lemma erfR_0 : erfR 0 = 0.
Proof. unfold erfR. rewrite RInt_point. unfold zero; simpl. ring. Qed.

(* ====================================================================== Fourier pair, Exponential, d = 1 *)
(* rho(r) = cor(r / l) = exp(-(r / l));  S(k) = (1/2pi) int_R rho(|r|) e^{ikr} dr = (1/pi) int_0^oo rho(r) cos(k r) dr *)
Section FourierExp1.
Variables (l k : R).
Hypothesis Hl : 0 < l.
Definition exp_cor (h : R) : R := exp (- h).
Definition fint (r : R) : R := / PI * (exp_cor (r / l) * cos (k * r)).
Definition fanti (r : R) : R :=
  exp (- (r / l)) * (- (1 / l) * cos (k * r) + k * sin (k * r)) / ((1 / l) * (1 / l) + k * k) / PI.
Lemma den_pos : 0 < (1 / l) * (1 / l) + k * k.
Proof. assert (0 < 1 / l) by (apply Rdiv_lt_0_compat; lra). nra. Qed.
Lemma fanti_derive r : is_derive fanti r (fint r).
Proof.
  unfold fanti, fint, exp_cor. assert (Hd := den_pos). assert (Hpi := PI_RGT_0).
  auto_derive; [sidec|]. unfold Rdiv. field. repeat split; try lra. assert (0 <= k * k * (l * l)) by nra. lra.
Qed.
Lemma fint_cont r : continuous fint r.
Proof. apply (ex_derive_continuous fint). unfold fint, exp_cor. auto_derive. sidec. Qed.
Lemma fanti_lim : is_lim fanti p_infty 0.
Proof.
  assert (Hd := den_pos). assert (Hpi := PI_RGT_0). assert (Ha : 0 < 1 / l) by (apply Rdiv_lt_0_compat; lra).
  set (C := (1 / l + Rabs k) / ((1 / l) * (1 / l) + k * k) / PI).
  assert (HC : 0 < C).
  { unfold C. apply Rdiv_lt_0_compat; [|exact Hpi]. apply Rdiv_lt_0_compat; [|exact Hd]. assert (H := Rabs_pos k). lra. }
  apply lim0_by_bound with (l * C); [apply Rmult_lt_0_compat; assumption|]. intros x Hx.
  unfold fanti. unfold Rdiv at 1 2. rewrite !Rabs_mult.
  rewrite (Rabs_pos_eq (/ PI)) by (left; apply Rinv_0_lt_compat; exact Hpi).
  rewrite (Rabs_pos_eq (/ (1 / l * (1 / l) + k * k))) by (left; apply Rinv_0_lt_compat; exact Hd).
  rewrite (Rabs_pos_eq (exp _)) by (left; apply exp_pos).
  assert (Hb : Rabs (- (1 / l) * cos (k * x) + k * sin (k * x)) <= 1 / l + Rabs k).
  { eapply Rle_trans; [apply Rabs_triang|]. rewrite !Rabs_mult. rewrite Rabs_Ropp, (Rabs_pos_eq (1 / l)) by lra.
    assert (Hc : Rabs (cos (k * x)) <= 1) by (apply Rabs_le; destruct (COS_bound (k * x)); split; lra).
    assert (Hs : Rabs (sin (k * x)) <= 1) by (apply Rabs_le; destruct (SIN_bound (k * x)); split; lra).
    assert (H := Rabs_pos k). nra. }
  assert (He : exp (- (x / l)) <= l / x).
  { assert (Hy : 0 < x / l) by (apply Rdiv_lt_0_compat; lra).
    apply Rle_trans with (1 / (1 + x / l)); [apply exp_sq_bound; lra|].
    replace (l / x) with (1 / (x / l)) by (field; lra). unfold Rdiv at 1 3. rewrite !Rmult_1_l.
    apply Rinv_le_contravar; lra. }
  assert (H0 : 0 < exp (- (x / l))) by apply exp_pos.
  assert (Hi1 : 0 < / (1 / l * (1 / l) + k * k)) by (apply Rinv_0_lt_compat; exact Hd).
  assert (Hi2 : 0 < / PI) by (apply Rinv_0_lt_compat; exact Hpi).
  assert (Hlx : 0 < l / x) by (apply Rdiv_lt_0_compat; lra).
  assert (Hkl : 0 <= k * k * (l * l)) by nra.
  replace (l * C / x) with (l / x * (1 / l + Rabs k) * / (1 / l * (1 / l) + k * k) * / PI) by (unfold C; field; repeat split; lra).
  apply Rmult_le_compat_r; [lra|]. apply Rmult_le_compat_r; [lra|].
  apply Rmult_le_compat; try lra. apply Rabs_pos.
Qed.
Lemma fourier_exp_1d_closed :
  is_RInt_gen fint (at_point 0) (Rbar_locally p_infty) (l / (PI * (1 + (k * l) * (k * l)))).
Proof.
  assert (Hd := den_pos). assert (Hpi := PI_RGT_0).
  replace (l / (PI * (1 + k * l * (k * l)))) with (0 - fanti 0).
  - apply RInt_gen_antiderivative; [exact fanti_derive|exact fint_cont|exact fanti_lim].
  - unfold fanti. replace (- (0 / l)) with 0 by (field; lra). rewrite exp_0, Rmult_0_r, cos_0, sin_0.
    field. repeat split; try lra. nra.
Qed.
End FourierExp1.

(* ====================================================================== the model's functions *)
Lemma Rpow_1 x : Rpow x 1 = x. Proof. rewrite (Rpow_IZR x 1). simpl. ring. Qed.
Lemma Rpow_2' x : Rpow x 2 = x * x. Proof. rewrite (Rpow_IZR x 2). simpl. ring. Qed.
Lemma Rpow_3 x : Rpow x 3 = x * x * x. Proof. rewrite (Rpow_IZR x 3). simpl. ring. Qed.
Lemma Rpow_three_halves y : 0 < y -> Rpow y (3 / 2) = y * sqrt y.
Proof.
  intros Hy. rewrite Rpow_pos by exact Hy. replace (3 / 2) with (1 + / 2) by lra.
  rewrite Rpower_plus, Rpower_1, Rpower_sqrt by exact Hy. reflexivity.
Qed.

Definition cdfR ora (m : cls) d ls rs r : R := getv (spectral_rad_cdf (Rops ora) m d ls rs r).
Definition pdfR ora (m : cls) d ls rs r : R := rad_fac (Rops ora) d r * spectral_density (Rops ora) m d ls rs r.
Definition gamma_hyps (ora : nat -> list R -> R) : Prop :=
  ora ORA_GAMMA [1] = 1 /\ ora ORA_GAMMA [3 / 2] = sqrt PI / 2 /\ ora ORA_GAMMA [2] = 1.
Definition erf_derive_hyp (ora : nat -> list R -> R) : Prop :=
  forall x, is_derive (fun x => ora ORA_ERF [x]) x (2 / sqrt PI * exp (- (x * x))).
Definition erf_limit_hyps (ora : nat -> list R -> R) : Prop :=
  ora ORA_ERF [0] = 0 /\ is_lim (fun x => ora ORA_ERF [x]) p_infty 1.

Section Tie.
Variable ora : nat -> list R -> R.
Variables (ls rs : R).
Hypothesis Hls : 0 < ls.
Hypothesis Hrs : 0 < rs.
Let l := ls / rs.
Let erf := fun x => ora ORA_ERF [x].
Lemma l_pos' : 0 < l. Proof. apply Rdiv_lt_0_compat; assumption. Qed.

Lemma cdf_exp1 r : cdfR ora Exponential 1 ls rs r = eF1 l r. Proof. reflexivity. Qed.
Lemma cdf_exp2 r : cdfR ora Exponential 2 ls rs r = eF2 l r. Proof. reflexivity. Qed.
Lemma cdf_exp3 r : cdfR ora Exponential 3 ls rs r = eF3 l r. Proof. reflexivity. Qed.
Lemma cdf_gau2 r : cdfR ora Gaussian 2 ls rs r = gF2 l r. Proof. reflexivity. Qed.
Lemma cdf_gau1 r : cdfR ora Gaussian 1 ls rs r = gF1 l erf r. Proof. reflexivity. Qed.
Lemma cdf_gau3 r : cdfR ora Gaussian 3 ls rs r = gF3 l erf r. Proof. reflexivity. Qed.

Ltac open_pdf := unfold pdfR, spectral_density, rad_fac, exp_density, gau_density, len_rescaled, sq, zd, pw, sqrtpi;
  cbv [Z.eqb Pos.eqb]; cbv iota; rsimp; fold l; rewrite ?two_R, ?lit0_R.

Lemma pdf_exp1 r : gamma_hyps ora -> pdfR ora Exponential 1 ls rs r = ep1 l r.
Proof.
  intros (G1 & G32 & G2). assert (Hl := l_pos'). assert (Hpi := PI_RGT_0). assert (Hq := q_pos l r).
  open_pdf. replace ((1 + 1) / 2) with 1 by lra. unfold Gam. rsimp. rewrite G1, !Rpow_1.
  unfold ep1. field. split; lra.
Qed.
Lemma pdf_exp2 r : gamma_hyps ora -> pdfR ora Exponential 2 ls rs r = ep2 l r.
Proof.
  intros (G1 & G32 & G2). assert (Hl := l_pos'). assert (Hpi := PI_RGT_0). assert (Hq := q_pos l r).
  assert (Hs := sq_pos l r). assert (Hsp := spi).
  open_pdf. replace ((2 + 1) / 2) with (3 / 2) by lra. unfold Gam. rsimp. rewrite G32, Rpow_2'.
  rewrite Rpow_three_halves by (apply Rmult_lt_0_compat; lra).
  rewrite sqrt_mult by lra.
  assert (Hss : sqrt PI * sqrt PI = PI) by (apply sqrt_sqrt; lra).
  unfold ep2. set (s := sqrt PI) in *. replace PI with (s * s) by exact Hss. field. repeat split; lra.
Qed.
Lemma pdf_exp3 r : gamma_hyps ora -> pdfR ora Exponential 3 ls rs r = ep3 l r.
Proof.
  intros (G1 & G32 & G2). assert (Hl := l_pos'). assert (Hpi := PI_RGT_0). assert (Hq := q_pos l r).
  open_pdf. replace ((3 + 1) / 2) with 2 by lra. unfold Gam. rsimp. rewrite G2, Rpow_3, Rpow_2'.
  unfold ep3. field. split; lra.
Qed.
Lemma pdf_gau2 r : pdfR ora Gaussian 2 ls rs r = gp2 l r.
Proof.
  assert (Hl := l_pos'). assert (Hpi := PI_RGT_0). assert (Hsp := spi).
  assert (Hss : sqrt PI * sqrt PI = PI) by (apply sqrt_sqrt; lra).
  open_pdf. rewrite Rpow_2'. unfold gp2. set (s := sqrt PI) in *. replace PI with (s * s) by exact Hss. field. lra.
Qed.
Lemma pdf_gau1 r : pdfR ora Gaussian 1 ls rs r = gp1 l r.
Proof.
  assert (Hl := l_pos'). assert (Hsp := spi).
  open_pdf. rewrite Rpow_1. unfold gp1. field. lra.
Qed.
Lemma pdf_gau3 r : pdfR ora Gaussian 3 ls rs r = gp3 l r.
Proof.
  assert (Hl := l_pos'). assert (Hpi := PI_RGT_0). assert (Hsp := spi).
  assert (Hss : sqrt PI * sqrt PI = PI) by (apply sqrt_sqrt; lra).
  open_pdf. rewrite Rpow_3. unfold gp3. set (s := sqrt PI) in *. replace PI with (s * s) by exact Hss. field. lra.
Qed.
End Tie.

(* ====================================================================== statements about the model *)
Definition elementary (m : cls (T:=R)) (d : Z) : Prop :=
  (m = Exponential /\ (d = 1 \/ d = 2 \/ d = 3)%Z) \/ (m = Gaussian /\ d = 2%Z).
Definition via_erf (m : cls (T:=R)) (d : Z) : Prop := m = Gaussian /\ (d = 1 \/ d = 3)%Z.

Section Final.
Variable ora : nat -> list R -> R.
Variables (ls rs : R).
Hypothesis Hls : 0 < ls.
Hypothesis Hrs : 0 < rs.
Let l := ls / rs.
Let erf := fun x => ora ORA_ERF [x].

Theorem cdf_derivative m d : gamma_hyps ora -> elementary m d \/ (via_erf m d /\ erf_derive_hyp ora) ->
  forall r, is_derive (cdfR ora m d ls rs) r (pdfR ora m d ls rs r).
Proof.
  intros HG H r. assert (Hl := l_pos' ls rs Hls Hrs).
  destruct H as [[[-> [-> | [-> | ->]]] | [-> ->]] | [[-> [-> | ->]] He]].
  - rewrite pdf_exp1 by assumption. (apply eF1_derive; assumption).
  - rewrite pdf_exp2 by assumption. (apply eF2_derive; assumption).
  - rewrite pdf_exp3 by assumption. (apply eF3_derive; assumption).
  - rewrite pdf_gau2 by assumption. (apply gF2_derive; assumption).
  - rewrite pdf_gau1 by assumption. (apply gF1_derive; assumption).
  - rewrite pdf_gau3 by assumption. (apply gF3_derive; assumption).
Qed.

Theorem cdf_limits m d : elementary m d \/ (via_erf m d /\ erf_limit_hyps ora) ->
  cdfR ora m d ls rs 0 = 0 /\ is_lim (cdfR ora m d ls rs) p_infty 1.
Proof.
  intros H. assert (Hl := l_pos' ls rs Hls Hrs).
  destruct H as [[[-> [-> | [-> | ->]]] | [-> ->]] | [[-> [-> | ->]] [E0 EL]]].
  - split; [apply eF1_0|(apply eF1_lim; assumption)].
  - split; [apply eF2_0|(apply eF2_lim; assumption)].
  - split; [apply eF3_0|(apply eF3_lim; assumption)].
  - split; [apply gF2_0|(apply gF2_lim; assumption)].
  - split; [(apply gF1_0; assumption)|(apply gF1_lim; assumption)].
  - split; [(apply gF3_0; assumption)|(apply gF3_lim; assumption)].
Qed.

Theorem pdf_integrates_to_one m d : gamma_hyps ora ->
  elementary m d \/ (via_erf m d /\ erf_derive_hyp ora /\ erf_limit_hyps ora) ->
  is_RInt_gen (pdfR ora m d ls rs) (at_point 0) (Rbar_locally p_infty) 1.
Proof.
  intros HG H. assert (Hl := l_pos' ls rs Hls Hrs).
  destruct H as [[[-> [-> | [-> | ->]]] | [-> ->]] | [[-> [-> | ->]] [He [E0 EL]]]].
  - apply is_RInt_gen_ext with (ep1 (ls / rs)); [apply filter_forall; intros; symmetry; apply pdf_exp1; assumption|(apply ep1_int; assumption)].
  - apply is_RInt_gen_ext with (ep2 (ls / rs)); [apply filter_forall; intros; symmetry; apply pdf_exp2; assumption|(apply ep2_int; assumption)].
  - apply is_RInt_gen_ext with (ep3 (ls / rs)); [apply filter_forall; intros; symmetry; apply pdf_exp3; assumption|(apply ep3_int; assumption)].
  - apply is_RInt_gen_ext with (gp2 (ls / rs)); [apply filter_forall; intros; symmetry; apply pdf_gau2; assumption|(apply gp2_int; assumption)].
  - apply is_RInt_gen_ext with (gp1 (ls / rs)); [apply filter_forall; intros; symmetry; apply pdf_gau1; assumption|(apply (gp1_int (ls / rs) Hl (fun x => ora ORA_ERF [x])); assumption)].
  - apply is_RInt_gen_ext with (gp3 (ls / rs)); [apply filter_forall; intros; symmetry; apply pdf_gau3; assumption|(apply (gp3_int (ls / rs) Hl (fun x => ora ORA_ERF [x])); assumption)].
Qed.

(* the code's 1D Exponential spectral density is the Fourier transform of its correlation exp(-(r/l)) *)
Theorem fourier_pair_exponential_1d k : ora ORA_GAMMA [1] = 1 ->
  is_RInt_gen (fun r => / PI * (exp_cor (r / (ls / rs)) * cos (k * r))) (at_point 0) (Rbar_locally p_infty)
              (spectral_density (Rops ora) Exponential 1 ls rs k).
Proof.
  intros G1. assert (Hl := l_pos' ls rs Hls Hrs). assert (Hpi := PI_RGT_0).
  replace (spectral_density (Rops ora) Exponential 1 ls rs k) with (ls / rs / (PI * (1 + (k * (ls / rs)) * (k * (ls / rs))))).
  - (apply fourier_exp_1d_closed; assumption).
  - unfold spectral_density, exp_density, len_rescaled, sq, zd, pw, Gam. rsimp. rewrite ?two_R.
    replace ((1 + 1) / 2) with 1 by lra. rewrite G1, !Rpow_1.
    assert (0 < 1 + k * (ls / rs) * (k * (ls / rs))) by nra.
    assert (0 < rs * rs + k * ls * (k * ls)) by nra. field. repeat split; lra.
Qed.
End Final.

(* ---------- the hypotheses are satisfiable *)
Definition ora_example (c : nat) (xs : list R) : R :=
  match c, xs with
  | 0%nat, [x] => if Req_EM_T x (3 / 2) then sqrt PI / 2 else 1
  | 6%nat, [x] => erfR x
  | _, _ => 0
  end.
Example gamma_hyps_satisfiable : gamma_hyps ora_example.
Proof.
  unfold gamma_hyps, ora_example, ORA_GAMMA. repeat split.
  - destruct (Req_EM_T 1 (3 / 2)); [lra|reflexivity].
  - destruct (Req_EM_T (3 / 2) (3 / 2)); [reflexivity|contradiction].
  - destruct (Req_EM_T 2 (3 / 2)); [lra|reflexivity].
Qed.
Example erf_derive_hyp_satisfiable : erf_derive_hyp ora_example /\ ora_example ORA_ERF [0] = 0.
Proof. split; [intros x; apply erfR_derive|apply erfR_0]. Qed.
