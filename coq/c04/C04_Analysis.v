(* C04_Analysis.v — the analytic part of C04 that Coq's Reals + Coquelicot can carry:
   d/dr cdf = rad_fac * density, cdf(0) = 0, cdf -> 1, integral of the radial pdf over [0, oo) = 1
   (Exponential d = 1,2,3; Gaussian d = 2; Gaussian d = 1,3 with erf a variable whose derivative and
   limit are hypotheses, shown satisfiable by the integral of the Gaussian), and the Fourier pair of the
   Exponential model in one dimension. *)
From Coq Require Import Reals Lra Lia ZArith List Bool Psatz.
From Coquelicot Require Import Coquelicot.
From GS Require Import Num Loops RInst C04_Model C04_Proofs.
Import ListNotations.
Open Scope R_scope.

Ltac eqR := match goal with |- @eq _ ?a ?b => change (@eq R a b) end.
Ltac sidec := repeat split; try exact I; try assumption; try (apply Rgt_not_eq; assumption); try lra; try nra.

(* ---------- integral over [0, oo) from an antiderivative and its limit *)
Lemma RInt_gen_antiderivative (F f : R -> R) (L : R) :
  (forall x, is_derive F x (f x)) -> (forall x, continuous f x) -> is_lim F p_infty L ->
  is_RInt_gen f (at_point 0) (Rbar_locally p_infty) (L - F 0).
Proof.
  intros HD HC HL P HP.
  assert (HL' : is_lim (fun b => F b - F 0) p_infty (L - F 0)).
  { apply (is_lim_minus' F (fun _ => F 0) p_infty L (F 0)); [exact HL|apply is_lim_const]. }
  specialize (HL' P HP).
  unfold filtermapi.
  apply (Filter_prod _ _ _ (fun a => a = 0) (fun b => P (F b - F 0))).
  - reflexivity.
  - exact HL'.
  - intros a b -> Hb. exists (F b - F 0). split; [|exact Hb]. simpl.
    apply (is_RInt_derive F f 0 b); intros; auto.
Qed.

(* a function bounded by C / x vanishes at infinity *)
Lemma lim0_by_bound (f : R -> R) (C : R) : 0 < C ->
  (forall x, 0 < x -> Rabs (f x) <= C / x) -> is_lim f p_infty 0.
Proof.
  intros HC Hb. apply is_lim_spec. intros eps. exists (C / eps). intros x Hx.
  assert (He := cond_pos eps).
  assert (Hq : 0 < C / eps) by (apply Rdiv_lt_0_compat; assumption).
  assert (Hx0 : 0 < x) by lra.
  rewrite Rminus_0_r. apply Rle_lt_trans with (C / x); [apply Hb; exact Hx0|].
  apply Rmult_lt_reg_r with x; [exact Hx0|]. replace (C / x * x) with C by (field; lra).
  apply Rmult_lt_reg_r with (/ eps); [apply Rinv_0_lt_compat; exact He|].
  replace (eps * x * / eps) with x by (field; lra). exact Hx.
Qed.

Lemma lim_atan_p : is_lim atan p_infty (PI / 2).
Proof.
  apply is_lim_ext_loc with (fun x => PI / 2 - atan (/ x)).
  { exists 0. intros x Hx. rewrite atan_inv by exact Hx. ring. }
  replace (Finite (PI / 2)) with (Rbar_minus (PI / 2) (atan 0)) by (simpl; rewrite atan_0; f_equal; ring).
  apply is_lim_minus'; [apply is_lim_const|].
  apply is_lim_comp with 0.
  - apply is_lim_continuity. apply derivable_continuous_pt. apply derivable_pt_atan.
  - replace (Finite 0) with (Rbar_inv p_infty) by reflexivity. apply is_lim_inv; [apply is_lim_id|discriminate].
  - exists 0. intros x Hx H. injection H as H. assert (0 < / x) by (apply Rinv_0_lt_compat; exact Hx). lra.
Qed.

Lemma exp_sq_bound y : 0 <= y -> exp (- y) <= 1 / (1 + y).
Proof.
  intros Hy. rewrite exp_Ropp. unfold Rdiv. rewrite Rmult_1_l.
  apply Rinv_le_contravar; [lra|]. destruct (Req_dec y 0) as [->|Hne].
  - rewrite exp_0. lra.
  - left. apply exp_ineq1. lra.
Qed.

(* ====================================================================== the closed forms *)
Section ClosedForms.
Variable l : R.
Hypothesis Hl : 0 < l.

Definition eF1 r := atan (r * l) * 2 / PI.
Definition ep1 r := 2 / PI * (l / (1 + (r * l) * (r * l))).
Definition eF2 r := 1 - 1 / sqrt (1 + (r * l) * (r * l)).
Definition ep2 r := r * (l * l) / ((1 + (r * l) * (r * l)) * sqrt (1 + (r * l) * (r * l))).
Definition eF3 r := (atan (r * l) - r * l / (1 + (r * l) * (r * l))) * 2 / PI.
Definition ep3 r := 4 * (l * l * l) * (r * r) / (PI * ((1 + (r * l) * (r * l)) * (1 + (r * l) * (r * l)))).
Definition gF2 r := 1 - exp (- ((r * l / 2) * (r * l / 2))).
Definition gp2 r := r * (l * l) / 2 * exp (- ((r * l / 2) * (r * l / 2))).

Lemma q_pos r : 0 < 1 + (r * l) * (r * l). Proof. nra. Qed.
Lemma sq_pos r : 0 < sqrt (1 + (r * l) * (r * l)). Proof. apply sqrt_lt_R0, q_pos. Qed.

Lemma eF1_derive r : is_derive eF1 r (ep1 r).
Proof.
  unfold eF1, ep1. assert (Hpi := PI_RGT_0). assert (Hq := q_pos r).
  auto_derive; [exact I|]. field. split; nra.
Qed.
Lemma eF2_derive r : is_derive eF2 r (ep2 r).
Proof.
  unfold eF2, ep2. assert (Hq := q_pos r). assert (Hs := sq_pos r).
  assert (Hss : sqrt (1 + r * l * (r * l)) * sqrt (1 + r * l * (r * l)) = 1 + r * l * (r * l)) by (apply sqrt_sqrt; lra).
  auto_derive; [sidec|].
  set (s := sqrt (1 + r * l * (r * l))) in *. rewrite <- Hss. field. apply Rgt_not_eq. exact Hs.
Qed.
Lemma eF3_derive r : is_derive eF3 r (ep3 r).
Proof.
  unfold eF3, ep3. assert (Hpi := PI_RGT_0). assert (Hq := q_pos r).
  auto_derive; [sidec|]. field. split; nra.
Qed.
Lemma gF2_derive r : is_derive gF2 r (gp2 r).
Proof. unfold gF2, gp2. auto_derive; [exact I|]. unfold Rdiv. field. Qed.

Lemma ep1_cont r : continuous ep1 r.
Proof. apply (ex_derive_continuous ep1). unfold ep1. assert (Hq := q_pos r). assert (Hpi := PI_RGT_0). auto_derive. repeat split; nra. Qed.
Lemma ep2_cont r : continuous ep2 r.
Proof.
  apply (ex_derive_continuous ep2). unfold ep2. assert (Hq := q_pos r). assert (Hs := sq_pos r). auto_derive.
  repeat split; try exact Hq. apply Rgt_not_eq. apply Rmult_lt_0_compat; assumption.
Qed.
Lemma ep3_cont r : continuous ep3 r.
Proof.
  apply (ex_derive_continuous ep3). unfold ep3. assert (Hq := q_pos r). assert (Hpi := PI_RGT_0). auto_derive.
  repeat split. apply Rgt_not_eq. apply Rmult_lt_0_compat; [exact Hpi|]. apply Rmult_lt_0_compat; exact Hq.
Qed.
Lemma gp2_cont r : continuous gp2 r.
Proof. apply (ex_derive_continuous gp2). unfold gp2. auto_derive. exact I. Qed.

(* values at 0 *)
Lemma eF1_0 : eF1 0 = 0. Proof. unfold eF1. rewrite Rmult_0_l, atan_0. unfold Rdiv. ring. Qed.
Lemma eF2_0 : eF2 0 = 0.
Proof. unfold eF2. rewrite Rmult_0_l, Rmult_0_l, Rplus_0_r, sqrt_1. field. Qed.
Lemma eF3_0 : eF3 0 = 0. Proof. unfold eF3. rewrite Rmult_0_l, atan_0. unfold Rdiv. ring. Qed.
Lemma gF2_0 : gF2 0 = 0.
Proof. unfold gF2. replace (- (0 * l / 2 * (0 * l / 2))) with 0 by field. rewrite exp_0. ring. Qed.

(* limits at infinity *)
Lemma lim_atan_rl : is_lim (fun r => atan (r * l)) p_infty (PI / 2).
Proof.
  apply is_lim_ext with (fun r => atan (l * r + 0)); [intros; f_equal; ring|].
  apply (is_lim_comp_lin atan l 0 p_infty (PI / 2)); [|lra].
  replace (Rbar_plus (Rbar_mult l p_infty) 0) with p_infty; [exact lim_atan_p|].
  simpl. destruct (Rle_dec 0 l) as [H|H]; [|lra]. destruct (Rle_lt_or_eq_dec 0 l H); [reflexivity|lra].
Qed.
Lemma lim_inv_sqrt : is_lim (fun r => 1 / sqrt (1 + (r * l) * (r * l))) p_infty 0.
Proof.
  apply lim0_by_bound with (1 / l); [apply Rdiv_lt_0_compat; lra|]. intros x Hx.
  assert (Hs := sq_pos x). assert (Hxl : 0 < x * l) by (apply Rmult_lt_0_compat; assumption).
  rewrite Rabs_pos_eq by (left; apply Rdiv_lt_0_compat; lra).
  replace (1 / l / x) with (1 / (x * l)) by (field; lra).
  unfold Rdiv. rewrite !Rmult_1_l. apply Rinv_le_contravar; [exact Hxl|].
  rewrite <- (sqrt_square (x * l)) at 1 by lra. apply sqrt_le_1_alt. lra.
Qed.
Lemma lim_rl_q : is_lim (fun r => r * l / (1 + (r * l) * (r * l))) p_infty 0.
Proof.
  apply lim0_by_bound with (1 / l); [apply Rdiv_lt_0_compat; lra|]. intros x Hx.
  assert (Hq := q_pos x). assert (Hxl : 0 < x * l) by (apply Rmult_lt_0_compat; assumption).
  rewrite Rabs_pos_eq by (left; apply Rdiv_lt_0_compat; lra).
  apply Rmult_le_reg_r with (1 + x * l * (x * l)); [exact Hq|].
  replace (x * l / (1 + x * l * (x * l)) * (1 + x * l * (x * l))) with (x * l) by (field; lra).
  replace (1 / l / x * (1 + x * l * (x * l))) with (1 / (x * l) + x * l) by (field; lra).
  assert (0 < 1 / (x * l)) by (apply Rdiv_lt_0_compat; lra). lra.
Qed.
Lemma lim_gauss : is_lim (fun r => exp (- ((r * l / 2) * (r * l / 2)))) p_infty 0.
Proof.
  apply lim0_by_bound with (1 / l); [apply Rdiv_lt_0_compat; lra|]. intros x Hx.
  rewrite Rabs_pos_eq by (left; apply exp_pos).
  set (y := x * l / 2 * (x * l / 2)). assert (Hy : 0 <= y) by (unfold y; nra).
  apply Rle_trans with (1 / (1 + y)); [apply exp_sq_bound; exact Hy|].
  apply Rmult_le_reg_r with (1 + y); [lra|]. replace (1 / (1 + y) * (1 + y)) with 1 by (field; lra).
  apply Rmult_le_reg_r with (x * l); [apply Rmult_lt_0_compat; assumption|].
  replace (1 / l / x * (1 + y) * (x * l)) with (1 + y) by (field; lra).
  assert (H0 : 0 <= (1 - x * l / 2) * (1 - x * l / 2)) by (apply Rle_0_sqr).
  replace ((1 - x * l / 2) * (1 - x * l / 2)) with (1 + y - 1 * (x * l)) in H0 by (unfold y; field). lra.
Qed.

Lemma eF1_lim : is_lim eF1 p_infty 1.
Proof.
  assert (Hpi := PI_RGT_0). unfold eF1.
  replace (Finite 1) with (Rbar_mult (PI / 2) (2 / PI)) by (simpl; f_equal; field; lra).
  apply is_lim_ext with (fun r => atan (r * l) * (2 / PI)); [intros; field; lra|].
  apply is_lim_mult; [exact lim_atan_rl|apply is_lim_const|exact I].
Qed.
Lemma eF2_lim : is_lim eF2 p_infty 1.
Proof.
  unfold eF2. replace (Finite 1) with (Rbar_minus 1 0) by (simpl; f_equal; ring).
  apply is_lim_minus'; [apply is_lim_const|exact lim_inv_sqrt].
Qed.
Lemma eF3_lim : is_lim eF3 p_infty 1.
Proof.
  assert (Hpi := PI_RGT_0). unfold eF3.
  replace (Finite 1) with (Rbar_mult (Rbar_minus (PI / 2) 0) (2 / PI)) by (simpl; f_equal; field; lra).
  apply is_lim_ext with (fun r => (atan (r * l) - r * l / (1 + r * l * (r * l))) * (2 / PI)); [intros y; assert (0 < 1 + y * l * (y * l)) by nra; field; split; lra|].
  apply is_lim_mult; [|apply is_lim_const|exact I].
  apply is_lim_minus'; [exact lim_atan_rl|exact lim_rl_q].
Qed.
Lemma gF2_lim : is_lim gF2 p_infty 1.
Proof.
  unfold gF2. replace (Finite 1) with (Rbar_minus 1 0) by (simpl; f_equal; ring).
  apply is_lim_minus'; [apply is_lim_const|exact lim_gauss].
Qed.

(* integral of the radial pdf over [0, oo) is one *)
Lemma ep1_int : is_RInt_gen ep1 (at_point 0) (Rbar_locally p_infty) 1.
Proof. replace 1 with (1 - eF1 0) by (rewrite eF1_0; ring). apply RInt_gen_antiderivative; [exact eF1_derive|exact ep1_cont|exact eF1_lim]. Qed.
Lemma ep2_int : is_RInt_gen ep2 (at_point 0) (Rbar_locally p_infty) 1.
Proof. replace 1 with (1 - eF2 0) by (rewrite eF2_0; ring). apply RInt_gen_antiderivative; [exact eF2_derive|exact ep2_cont|exact eF2_lim]. Qed.
Lemma ep3_int : is_RInt_gen ep3 (at_point 0) (Rbar_locally p_infty) 1.
Proof. replace 1 with (1 - eF3 0) by (rewrite eF3_0; ring). apply RInt_gen_antiderivative; [exact eF3_derive|exact ep3_cont|exact eF3_lim]. Qed.
Lemma gp2_int : is_RInt_gen gp2 (at_point 0) (Rbar_locally p_infty) 1.
Proof. replace 1 with (1 - gF2 0) by (rewrite gF2_0; ring). apply RInt_gen_antiderivative; [exact gF2_derive|exact gp2_cont|exact gF2_lim]. Qed.

(* ---------- Gaussian d = 1, 3: erf is a variable; its derivative, value at 0 and limit are hypotheses *)
Section WithErf.
Variable erf : R -> R.
Hypothesis erf_derive : forall x, is_derive erf x (2 / sqrt PI * exp (- (x * x))).
Definition gF1 r := erf (r * l / 2).
Definition gp1 r := l / sqrt PI * exp (- ((r * l / 2) * (r * l / 2))).
Definition gF3 r := erf (r * l / 2) - r * l / sqrt PI * exp (- ((r * l / 2) * (r * l / 2))).
Definition gp3 r := r * r * (l * l * l) / (2 * sqrt PI) * exp (- ((r * l / 2) * (r * l / 2))).
Lemma spi : 0 < sqrt PI. Proof. apply sqrt_lt_R0, PI_RGT_0. Qed.
Lemma gF1_derive r : is_derive gF1 r (gp1 r).
Proof.
  unfold gF1, gp1. assert (Hs := spi).
  evar_last. { apply (is_derive_comp erf (fun r => r * l / 2)); [apply erf_derive|]. auto_derive; [exact I|reflexivity]. }
  unfold scal; simpl; unfold mult; simpl. eqR. field. lra.
Qed.
Lemma gF3_derive r : is_derive gF3 r (gp3 r).
Proof.
  unfold gF3. assert (Hs := spi).
  evar_last.
  { apply (is_derive_minus (fun r => erf (r * l / 2))); [apply gF1_derive|].
    instantiate (1 := (l / sqrt PI - r * l / sqrt PI * (r * (l * l) / 2)) * exp (- (r * l / 2 * (r * l / 2)))).
    auto_derive; [exact I|]. unfold Rdiv. field. lra. }
  unfold gp1, gp3, minus, plus, opp; simpl. eqR. unfold Rdiv. field. lra.
Qed.
Lemma gp1_cont r : continuous gp1 r.
Proof. apply (ex_derive_continuous gp1). unfold gp1. auto_derive. exact I. Qed.
Lemma gp3_cont r : continuous gp3 r.
Proof. apply (ex_derive_continuous gp3). unfold gp3. auto_derive. exact I. Qed.

Hypothesis erf_0 : erf 0 = 0.
Hypothesis erf_lim : is_lim erf p_infty 1.
Lemma gF1_0 : gF1 0 = 0. Proof. unfold gF1. replace (0 * l / 2) with 0 by field. exact erf_0. Qed.
Lemma gF3_0 : gF3 0 = 0. Proof. unfold gF3. replace (0 * l / 2) with 0 by field. rewrite erf_0. unfold Rdiv. ring. Qed.
Lemma gF1_lim : is_lim gF1 p_infty 1.
Proof.
  unfold gF1. apply is_lim_ext with (fun r => erf (l / 2 * r + 0)); [intros; f_equal; field|].
  apply (is_lim_comp_lin erf (l / 2) 0 p_infty 1); [|lra].
  replace (Rbar_plus (Rbar_mult (l / 2) p_infty) 0) with p_infty; [exact erf_lim|].
  simpl. destruct (Rle_dec 0 (l / 2)) as [H|H]; [|lra]. destruct (Rle_lt_or_eq_dec 0 (l / 2) H); [reflexivity|lra].
Qed.
Lemma lim_r_gauss : is_lim (fun r => r * l / sqrt PI * exp (- ((r * l / 2) * (r * l / 2)))) p_infty 0.
Proof.
  assert (Hs := spi).
  apply lim0_by_bound with (2 / (sqrt PI * l)); [apply Rdiv_lt_0_compat; [lra|apply Rmult_lt_0_compat; lra]|]. intros x Hx.
  assert (Hxl : 0 < x * l) by (apply Rmult_lt_0_compat; assumption).
  rewrite Rabs_pos_eq by (apply Rmult_le_pos; [left; apply Rdiv_lt_0_compat; lra|left; apply exp_pos]).
  set (y := x * l / 2 * (x * l / 2)). assert (Hy : 0 < y) by (unfold y; nra).
  (* exp(-y) = exp(-y/2)^2 <= 1/(1+y/2)^2 <= 1/(2y) *)
  assert (He : exp (- y) <= 1 / (2 * y)).
  { replace (- y) with (- (y / 2) + - (y / 2)) by field. rewrite exp_plus.
    assert (H1 := exp_sq_bound (y / 2)). assert (0 <= y / 2) by lra. specialize (H1 H).
    assert (H0 : 0 < exp (- (y / 2))) by apply exp_pos.
    apply Rle_trans with (1 / (1 + y / 2) * (1 / (1 + y / 2))); [apply Rmult_le_compat; lra|].
    apply Rmult_le_reg_r with (2 * y * ((1 + y / 2) * (1 + y / 2))); [nra|].
    replace (1 / (1 + y / 2) * (1 / (1 + y / 2)) * (2 * y * ((1 + y / 2) * (1 + y / 2)))) with (2 * y) by (field; lra).
    replace (1 / (2 * y) * (2 * y * ((1 + y / 2) * (1 + y / 2)))) with ((1 + y / 2) * (1 + y / 2)) by (field; lra).
    assert (Hsq : 0 <= (1 - y / 2) * (1 - y / 2)) by apply Rle_0_sqr.
    replace ((1 + y / 2) * (1 + y / 2)) with (2 * y + (1 - y / 2) * (1 - y / 2)) by field. lra. }
  apply Rle_trans with (x * l / sqrt PI * (1 / (2 * y))).
  { apply Rmult_le_compat_l; [left; apply Rdiv_lt_0_compat; lra|exact He]. }
  right. unfold y. field. repeat split; lra.
Qed.
Lemma gF3_lim : is_lim gF3 p_infty 1.
Proof.
  unfold gF3. replace (Finite 1) with (Rbar_minus 1 0) by (simpl; f_equal; ring).
  apply is_lim_minus'; [exact gF1_lim|exact lim_r_gauss].
Qed.
Lemma gp1_int : is_RInt_gen gp1 (at_point 0) (Rbar_locally p_infty) 1.
Proof. replace 1 with (1 - gF1 0) by (rewrite gF1_0; ring). apply RInt_gen_antiderivative; [exact gF1_derive|exact gp1_cont|exact gF1_lim]. Qed.
Lemma gp3_int : is_RInt_gen gp3 (at_point 0) (Rbar_locally p_infty) 1.
Proof. replace 1 with (1 - gF3 0) by (rewrite gF3_0; ring). apply RInt_gen_antiderivative; [exact gF3_derive|exact gp3_cont|exact gF3_lim]. Qed.
End WithErf.
End ClosedForms.

(* the hypotheses on erf's derivative and value at 0 are satisfiable: the integral of the Gaussian *)
Definition gaussd (t : R) : R := exp (- (t * t)).
Definition erfR (x : R) : R := 2 / sqrt PI * RInt gaussd 0 x.
Lemma gaussd_cont t : continuous gaussd t.
Proof. apply (ex_derive_continuous gaussd). unfold gaussd. auto_derive. exact I. Qed.
Lemma erfR_derive x : is_derive erfR x (2 / sqrt PI * exp (- (x * x))).
Proof.
  unfold erfR. apply (is_derive_scal (fun x => RInt gaussd 0 x) x (2 / sqrt PI) (gaussd x)).
  apply (is_derive_RInt gaussd (fun b => RInt gaussd 0 b) 0 x); [|apply gaussd_cont].
  apply filter_forall. intros b. apply (RInt_correct gaussd 0 b).
  apply (ex_RInt_continuous gaussd). intros z _. apply gaussd_cont.
Qed.
Lemma erfR_0 : erfR 0 = 0.
Proof. unfold erfR. rewrite RInt_point. unfold zero; simpl. ring. Qed.
