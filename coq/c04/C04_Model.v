(* C04_Model.v — Gallina model of the spectral layer of GSTools' covariance models, written once for
   every number type (NumOps T): proved about at R (C04_Proofs.v, C04_Analysis.v), executed at OCaml
   floats against /repo (harness/c04.py).  numpy's element-wise masks are modelled on one wave number.

   modelled code                                                        model
   covmodel/tools.py   rad_fac                                           rad_fac
                       spectral_rad_pdf (abs, mask at r~0, isfinite,     spectral_rad_pdf
                                         clip at 0)
   covmodel/base.py    spectrum, ln_spectral_rad_pdf, len_rescaled,      spectrum, ln_spectral_rad_pdf,
                       has_cdf / has_ppf                                 len_rescaled, has_cdf, has_ppf
   covmodel/models.py  Gaussian / Exponential spectral_density,          gau_density gau_cdf gau_ppf
                       spectral_rad_cdf, spectral_rad_ppf, _has_*        exp_density exp_cdf exp_ppf
                       Matern, Integral, HyperSpherical, JBessel         mat_density int_density
                       spectral_density                                  hyp_density jb_density
   tools/special.py    tpl_exp_spec_dens, tpl_gau_spec_dens              tplexp_density tplgau_density
   covmodel/tpl_models.py  TPLGaussian/TPLExponential.spectral_density,  (wrappers in spectral_density)
                       len_low_rescaled

   The default numerical spectral_density (hankel.SymmetricFourierTransform of the correlation) is
   NOT modelled: it is an external quadrature; it is covered by the probes only.
   Special functions are [noracle O code args] (scipy.special.gamma, loggamma, jv, hyp2f1, erf,
   erfinv, gstools.tools.special.inc_gamma_low). *)
From Coq Require Import ZArith List Bool.
From GS Require Import Num Loops.
Import ListNotations.
Open Scope Z_scope.

Section Model.
Context {T : Type} (O : NumOps T).

Local Notation "a +! b" := (nadd O a b) (at level 50, left associativity).
Local Notation "a -! b" := (nsub O a b) (at level 50, left associativity).
Local Notation "a *! b" := (nmul O a b) (at level 40, left associativity).
Local Notation "a /! b" := (ndiv O a b) (at level 40, left associativity).
Local Notation zero := (n0 O).
Local Notation one := (n1 O).
Local Notation pi := (npi O).
Definition lit (p : Z) (k : nat) : T := nlit O p k.
Definition two : T := lit 2 0.
Definition half : T := lit 5 1.
Definition zd (d : Z) : T := nofZ O d.                       (* the Python int self.dim used as a float *)
Definition pw (x y : T) : T := npow O x y.                   (* ** *)
Definition sq (x : T) : T := x *! x.                         (* x ** 2 (np.square on arrays) *)
Definition sqrtpi : T := nsqrt O pi.                         (* np.sqrt(np.pi) *)

(* special functions of scipy / gstools.tools.special *)
Definition Gam (x : T) : T := noracle O ORA_GAMMA [x].
Definition lGam (x : T) : T := noracle O ORA_LOGGAMMA [x].
Definition Jv (nu x : T) : T := noracle O ORA_JV [nu; x].
Definition F21 (a b c x : T) : T := noracle O ORA_HYP2F1 [a; b; c; x].
Definition erf (x : T) : T := noracle O ORA_ERF [x].
Definition erfinv (x : T) : T := noracle O ORA_ERFINV [x].
Definition incgl (s x : T) : T := noracle O ORA_INCGAMMA_LOW [s; x].

(* numpy helpers on one element *)
Definition nmin (a b : T) : T := if nisnan O a then a else if nltb O a b then a else b.
Definition nmax (a b : T) : T := if nisnan O a then a else if nleb O b a then a else b.
(* np.isclose(a, 0):  |a - 0| <= atol + rtol * |0|  with atol = 1e-8, rtol = 1e-5 *)
Definition isclose0 (a : T) : bool :=
  nleb O (nabs O (a -! zero)) (lit 1 8 +! lit 1 5 *! nabs O zero).
(* np.isfinite x  <->  x - x = 0  (inf - inf and nan - nan are nan) *)
Definition isfinite (x : T) : bool := neqb O (x -! x) zero.

(* ---------- covmodel/base.py *)
Definition len_rescaled (len_scale rescale : T) : T := len_scale /! rescale.
Definition spectrum (dens : T -> T) (var k : T) : T := dens k *! var.

(* ---------- covmodel/tools.py *)
Definition rad_fac (d : Z) (r : T) : T :=
  if d =? 1 then two
  else if d =? 2 then two *! pi *! r
  else if d =? 3 then lit 4 0 *! pi *! sq r
  else zd d *! pw r (zd (d - 1)) *! pw sqrtpi (zd d) /! Gam (zd d /! two +! one).

Definition spectral_rad_pdf (d : Z) (dens : T -> T) (r0 : T) : T :=
  let r := nabs O r0 in
  let res := if 1 <? d then (if isclose0 r then zero else rad_fac d r *! nabs O (dens r))
             else rad_fac d r *! nabs O (dens r) in
  let res := if isfinite res then res else zero in
  nmax res zero.

Definition ln_spectral_rad_pdf (d : Z) (dens : T -> T) (r : T) : T := nln O (spectral_rad_pdf d dens r).

(* ---------- Gaussian (l = len_rescaled) *)
Definition gau_density (d : Z) (l k : T) : T :=
  pw (l /! two /! sqrtpi) (zd d) *! nexp O (nneg O (sq (k *! l /! two))).
Definition gau_cdf (d : Z) (l r : T) : option T :=
  if d =? 1 then Some (erf (r *! l /! two))
  else if d =? 2 then Some (one -! nexp O (nneg O (sq (r *! l /! two))))
  else if d =? 3 then Some (erf (r *! l /! two) -! r *! l /! sqrtpi *! nexp O (nneg O (sq (r *! l /! two))))
  else None.
Definition gau_ppf (d : Z) (l u : T) : option T :=
  if d =? 1 then Some (two /! l *! erfinv u)
  else if d =? 2 then Some (two /! l *! nsqrt O (nneg O (nln O (one -! u))))
  else None.

(* ---------- Exponential *)
Definition exp_density (d : Z) (l k : T) : T :=
  pw l (zd d) *! Gam ((zd d +! one) /! two)
  /! pw (pi *! (one +! sq (k *! l))) ((zd d +! one) /! two).
Definition exp_cdf (d : Z) (l r : T) : option T :=
  if d =? 1 then Some (natan O (r *! l) *! two /! pi)
  else if d =? 2 then Some (one -! one /! nsqrt O (one +! sq (r *! l)))
  else if d =? 3 then Some ((natan O (r *! l) -! r *! l /! (one +! sq (r *! l))) *! two /! pi)
  else None.
(* np.tan is sin / cos here; 2D: np.divide(1, (1-u)**2, out=inf, where=~isclose(1-u, 0)) *)
Definition exp_ppf (d : Z) (l u : T) : option T :=
  if d =? 1 then Some (nsin O (pi /! two *! u) /! ncos O (pi /! two *! u) /! l)
  else if d =? 2 then
    let um := one -! u in
    let u_power := if isclose0 um then one /! zero else one /! sq um in
    Some (nsqrt O (u_power -! one) /! l)
  else None.

(* ---------- Matern: Gaussian limit for nu > 20 (as in cor), else log-transformed closed form *)
Definition mat_density (d : Z) (l nu k : T) : T :=
  let x := sq (k *! l) in
  if nltb O (lit 20 0) nu then pw (l /! sqrtpi) (zd d) *! nexp O (nneg O x)
  else pw (l /! sqrtpi) (zd d) *!
       nexp O (nneg O (nu +! zd d /! two) *! nln O (one +! x /! nu)
               +! lGam (nu +! zd d /! two) -! lGam nu -! zd d *! nln O (nsqrt O nu)).

(* ---------- Integral *)
Definition int_density (d : Z) (l nu k : T) : T :=
  let fac := pw (half *! l /! sqrtpi) (zd d) in
  let lim := fac *! nu /! (nu +! zd d) in
  if nltb O (lit 50 0) nu then
    let x := sq (k *! l /! two) in
    lim *! nexp O (nneg O x) *! (one +! two *! x /! (nu +! zd d +! two))
  else
    let s := (nu +! zd d) /! two in
    if isclose0 k then lim
    else let x := sq (k *! l /! two) in half *! nu *! fac /! pw x s *! incgl s x.

(* ---------- HyperSpherical *)
Definition hyp_density (d : Z) (l k : T) : T :=
  if isclose0 k then pw (l /! lit 4 0) (zd d) /! Gam (zd d /! two +! one) /! pw sqrtpi (zd d)
  else Gam (zd d /! two +! one) /! pw sqrtpi (zd d) *! sq (Jv (zd d /! two) (k *! l /! two)) /! pw k (zd d).

(* ---------- JBessel: band-limited spectrum, divisor cut at nu - (d/2-1) = 0.01: gamma(np.maximum(.., 0.01)) *)
Definition jb_density (d : Z) (l nu k : T) : T :=
  if nltb O k (one /! l) then
    pw (l /! sqrtpi) (zd d) *! Gam (nu +! one) /! Gam (nmax (nu -! zd d /! two +! one) (lit 1 2))
    *! pw (one -! sq (k *! l)) (nu -! zd d /! two)
  else zero.

(* ---------- tools/special.py : truncated power law spectra (l, low already rescaled) *)
Definition tplexp0 (d : Z) (l h k : T) : T :=
  let z := sq (k *! l) in
  let a := h +! zd d /! two in
  let b := h +! half in
  let c := h +! zd d /! two +! one in
  let dd := zd d /! two +! half in
  let fac := pw l (zd d) *! h *! Gam dd /! (pw pi dd *! a) in
  fac /! pw (one +! z) a *! F21 a b c (z /! (one +! z)).

(* series of inc_gamma_low(a, z) / z**a = sum_n (-z)^n / (n! (a + n)), 12 terms, as the code's loop *)
Definition tplgau_series (a z : T) : T :=
  fst (fold_left (fun (st : T * T) (n : Z) =>
                    let '(series, term) := st in
                    (series +! term /! (a +! zd n), term *! (nneg O z /! (zd n +! one))))
                 [0; 1; 2; 3; 4; 5; 6; 7; 8; 9; 10; 11] (zero, one)).

Definition tplgau0 (d : Z) (l h k : T) : T :=
  let z := sq (k *! l /! two) in
  let a := h +! zd d /! two in
  let fac := pw (l /! two) (zd d) *! h /! pw pi (zd d /! two) in
  if nltb O (lit 1 1) z then fac *! incgl a z /! pw z a
  else fac *! tplgau_series a z.

(* superposition for a lower cut-off len_low > 0 (same weights as TPL*.correlation) *)
Definition tpl_combine (spec0 : T -> T) (l h low : T) : T :=
  if neqb O low zero then spec0 l
  else
    let fac_up := pw (l +! low) (two *! h) in
    let spec_up := spec0 (l +! low) in
    let fac_low := pw low (two *! h) in
    let spec_low := spec0 low in
    (fac_up *! spec_up -! fac_low *! spec_low) /! (fac_up -! fac_low).
Definition tplexp_density (d : Z) (l h low k : T) : T := tpl_combine (fun l' => tplexp0 d l' h k) l h low.
Definition tplgau_density (d : Z) (l h low k : T) : T := tpl_combine (fun l' => tplgau0 d l' h k) l h low.

(* ---------- the classes with analytic spectra *)
Inductive cls :=
| Gaussian | Exponential | Matern (nu : T) | Integral (nu : T) | HyperSpherical | JBessel (nu : T)
| TPLGaussian (hurst len_low : T) | TPLExponential (hurst len_low : T).

Definition spectral_density (m : cls) (d : Z) (len_scale rescale k : T) : T :=
  let l := len_rescaled len_scale rescale in
  match m with
  | Gaussian => gau_density d l k
  | Exponential => exp_density d l k
  | Matern nu => mat_density d l nu k
  | Integral nu => int_density d l nu k
  | HyperSpherical => hyp_density d l k
  | JBessel nu => jb_density d l nu k
  | TPLGaussian h low => tplgau_density d l h (low /! rescale) k
  | TPLExponential h low => tplexp_density d l h (low /! rescale) k
  end.

Definition spectral_rad_cdf (m : cls) (d : Z) (len_scale rescale r : T) : option T :=
  match m with
  | Gaussian => gau_cdf d (len_rescaled len_scale rescale) r
  | Exponential => exp_cdf d (len_rescaled len_scale rescale) r
  | _ => None
  end.
Definition spectral_rad_ppf (m : cls) (d : Z) (len_scale rescale u : T) : option T :=
  match m with
  | Gaussian => gau_ppf d (len_rescaled len_scale rescale) u
  | Exponential => exp_ppf d (len_rescaled len_scale rescale) u
  | _ => None
  end.
(* _has_cdf: dim in [1,2,3]; _has_ppf: dim in [1,2] (Gaussian, Exponential); hasattr(...) = False otherwise *)
Definition has_cdf (m : cls) (d : Z) : bool :=
  match m with Gaussian | Exponential => (d =? 1) || (d =? 2) || (d =? 3) | _ => false end.
Definition has_ppf (m : cls) (d : Z) : bool :=
  match m with Gaussian | Exponential => (d =? 1) || (d =? 2) | _ => false end.

Definition model_pdf (m : cls) (d : Z) (len_scale rescale r : T) : T :=
  spectral_rad_pdf d (spectral_density m d len_scale rescale) r.
Definition model_spectrum (m : cls) (d : Z) (len_scale rescale var k : T) : T :=
  spectrum (spectral_density m d len_scale rescale) var k.

(* driver entry: class by code *)
Definition cls_of_code (c : nat) (p1 p2 : T) : cls :=
  match c with
  | 0%nat => Gaussian | 1%nat => Exponential | 2%nat => Matern p1 | 3%nat => Integral p1
  | 4%nat => HyperSpherical | 5%nat => JBessel p1 | 6%nat => TPLGaussian p1 p2 | _ => TPLExponential p1 p2
  end.
Definition drv_density c p1 p2 d ls rs k := spectral_density (cls_of_code c p1 p2) d ls rs k.
Definition drv_pdf c p1 p2 d ls rs r := model_pdf (cls_of_code c p1 p2) d ls rs r.
Definition drv_lnpdf c p1 p2 d ls rs r :=
  ln_spectral_rad_pdf d (spectral_density (cls_of_code c p1 p2) d ls rs) r.
Definition drv_spectrum c p1 p2 d ls rs var k := model_spectrum (cls_of_code c p1 p2) d ls rs var k.
Definition drv_cdf c p1 p2 d ls rs r := spectral_rad_cdf (cls_of_code c p1 p2) d ls rs r.
Definition drv_ppf c p1 p2 d ls rs u := spectral_rad_ppf (cls_of_code c p1 p2) d ls rs u.
Definition drv_has (c : nat) (d : Z) : bool * bool :=
  (has_cdf (cls_of_code c zero zero) d, has_ppf (cls_of_code c zero zero) d).

End Model.
