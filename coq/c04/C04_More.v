(* C04_More.v — further analytic results: normalisation of the 2D Matern radial pdf (every nu > 0, both branches of the
   code), and the Fourier pair of the Exponential model in three dimensions (radial form of the 3D transform). *)
From Coq Require Import Reals Lra Lia ZArith List Bool Psatz.
From Coquelicot Require Import Coquelicot.
From GS Require Import Num Loops Formulas RInst Formulas_gen C04_Model C04_Proofs C04_Analysis C04_Tie.
Import ListNotations.
Open Scope R_scope.

(* ====================================================================== Matern, d = 2 *)
Section Matern2.
Variables (l nu : R).
Hypothesis Hl : 0 < l.
Hypothesis Hnu : 0 < nu.
Definition mq r := 1 + (r * l) * (r * l) / nu.
Definition mF2 r := 1 - exp (- nu * ln (mq r)).
Definition mp2 r := 2 * r * (l * l) * exp (- (nu + 1) * ln (mq r)).
Lemma mq_pos r : 0 < mq r.
Proof.
  unfold mq. assert (H0 : 0 <= r * l * (r * l)) by apply Rle_0_sqr.
  assert (0 <= r * l * (r * l) / nu) by (apply Rmult_le_pos; [exact H0|apply Rlt_le, Rinv_0_lt_compat; exact Hnu]). lra.
Qed.
Lemma mF2_derive r : is_derive mF2 r (mp2 r).
Proof.
  unfold mF2, mp2. assert (Hq := mq_pos r). unfold mq in *.
  auto_derive; [sidec|].
  replace (- (nu + 1) * ln (1 + r * l * (r * l) / nu)) with (- nu * ln (1 + r * l * (r * l) / nu) + - ln (1 + r * l * (r * l) / nu)) by ring.
  rewrite exp_plus, exp_Ropp, exp_ln by exact Hq. assert (H0 : 0 <= r * l * (r * l)) by apply Rle_0_sqr. unfold Rdiv in *. field. split; lra.
Qed.
Lemma mp2_cont r : continuous mp2 r.
Proof. apply (ex_derive_continuous mp2). unfold mp2. assert (Hq := mq_pos r). unfold mq in *. auto_derive. sidec. Qed.
Lemma mF2_0 : mF2 0 = 0.
Proof. unfold mF2, mq. replace (1 + 0 * l * (0 * l) / nu) with 1 by (field; lra). rewrite ln_1, Rmult_0_r, exp_0. ring. Qed.
Lemma mF2_lim : is_lim mF2 p_infty 1.
Proof.
  unfold mF2. replace (Finite 1) with (Rbar_minus 1 0) by (simpl; f_equal; ring).
  apply is_lim_minus'; [apply is_lim_const|].
  apply is_lim_spec. intros eps. assert (He := cond_pos eps).
  set (B := exp (- ln eps / nu)). assert (HB : 0 < B) by apply exp_pos.
  exists (Rmax 1 (B * nu / (l * l))). intros x Hx.
  assert (Hx1 : 1 < x) by (eapply Rle_lt_trans; [apply Rmax_l|exact Hx]).
  assert (Hx2 : B * nu / (l * l) < x) by (eapply Rle_lt_trans; [apply Rmax_r|exact Hx]).
  assert (Hll : 0 < l * l) by nra.
  assert (Hy : B < mq x).
  { unfold mq. assert (B < x * (l * l) / nu).
    { apply Rmult_lt_reg_r with (nu / (l * l)); [apply Rdiv_lt_0_compat; assumption|].
      replace (x * (l * l) / nu * (nu / (l * l))) with x by (field; lra).
      replace (B * (nu / (l * l))) with (B * nu / (l * l)) by (field; lra). exact Hx2. }
    assert (x * (l * l) / nu <= x * l * (x * l) / nu).
    { apply Rmult_le_compat_r; [left; apply Rinv_0_lt_compat; exact Hnu|]. nra. }
    lra. }
  rewrite Rminus_0_r, Rabs_pos_eq by (left; apply exp_pos).
  apply Rlt_le_trans with (exp (ln eps)); [|rewrite exp_ln by exact He; lra]. apply exp_increasing.
  assert (Hln : - ln eps / nu < ln (mq x)).
  { rewrite <- (ln_exp (- ln eps / nu)). apply ln_increasing; [exact HB|exact Hy]. }
  apply Rmult_lt_compat_l with (r := nu) in Hln; [|exact Hnu].
  replace (nu * (- ln eps / nu)) with (- ln eps) in Hln by (field; lra). lra.
Qed.
Lemma mp2_int : is_RInt_gen mp2 (at_point 0) (Rbar_locally p_infty) 1.
Proof. replace 1 with (1 - mF2 0) by (rewrite mF2_0; ring). apply RInt_gen_antiderivative; [exact mF2_derive|exact mp2_cont|exact mF2_lim]. Qed.
End Matern2.

(* the code's 2D Matern radial pdf (rad_fac * density, translated source through the tie) integrates to one, for every
   nu > 0: log-gamma branch (nu <= 20) under loggamma(nu + 1) - loggamma(nu) = ln nu, Gaussian-limit branch (nu > 20) *)
Theorem matern_2d_normalised ora ls rs nu : 0 < ls -> 0 < rs -> 0 < nu ->
  (nu <= 20 -> ora ORA_LOGGAMMA [nu + 2 / 2] - ora ORA_LOGGAMMA [nu] = ln nu) ->
  is_RInt_gen (gen_pdf ora (Matern nu) 2 ls rs) (at_point 0) (Rbar_locally p_infty) 1.
Proof.
  intros Hls Hrs Hnu HG. assert (Hl : 0 < ls / rs) by (apply Rdiv_lt_0_compat; assumption).
  assert (Hpi := PI_RGT_0). assert (Hsp := spi).
  assert (Hss : sqrt PI * sqrt PI = PI) by (apply sqrt_sqrt; lra).
  destruct (Rlt_dec 20 nu) as [Hbig|Hsmall].
  - (* Gaussian limit: the Gaussian 2D pdf with length 2 l *)
    apply is_RInt_gen_ext with (gp2 (2 * (ls / rs))); [|apply gp2_int; lra].
    apply filter_forall. intros ab r _. rewrite gen_pdf_tie.
    unfold pdfR, spectral_density, C04_Model.rad_fac, mat_density, len_rescaled, sq, zd, pw, sqrtpi, two, lit, nlit.
    cbv [Z.eqb Pos.eqb]; cbv iota. rsimp.
    unfold Rltb. destruct (Rlt_dec 20 nu); [|contradiction]. rewrite Rpow_2'. unfold gp2.
    replace (r * (2 * (ls / rs)) / 2 * (r * (2 * (ls / rs)) / 2)) with (r * (ls / rs) * (r * (ls / rs))) by (field; lra).
    set (s := sqrt PI) in *. replace PI with (s * s) by exact Hss. eqR. field. split; lra.
  - apply is_RInt_gen_ext with (mp2 (ls / rs) nu); [|apply mp2_int; assumption].
    apply filter_forall. intros ab r _. rewrite gen_pdf_tie.
    unfold pdfR, spectral_density, C04_Model.rad_fac, mat_density, len_rescaled, sq, zd, pw, sqrtpi, two, lit, nlit, lGam.
    cbv [Z.eqb Pos.eqb]; cbv iota. rsimp.
    unfold Rltb. destruct (Rlt_dec 20 nu); [contradiction|]. rewrite Rpow_2'.
    assert (HG' := HG ltac:(lra)).
    assert (Hsq : 2 * ln (sqrt nu) = ln nu).
    { rewrite <- (sqrt_sqrt nu) at 2 by lra. rewrite ln_mult by (apply sqrt_lt_R0; exact Hnu). ring. }
    replace (- (nu + 2 / 2) * ln (1 + r * (ls / rs) * (r * (ls / rs)) / nu) + ora ORA_LOGGAMMA [nu + 2 / 2] - ora ORA_LOGGAMMA [nu] - 2 * ln (sqrt nu))
      with (- (nu + 1) * ln (mq (ls / rs) nu r)) by (unfold mq; rewrite Hsq; replace (2 / 2) with 1 in * by lra; lra).
    unfold mp2. set (s := sqrt PI) in *. replace PI with (s * s) by exact Hss. eqR. field. split; lra.
Qed.
Example matern_loggamma_hyp_satisfiable : forall nu, exists ora : nat -> list R -> R,
  ora ORA_LOGGAMMA [nu + 2 / 2] - ora ORA_LOGGAMMA [nu] = ln nu.
Proof.
  intros nu. exists (fun c xs => match xs with [x] => if Req_EM_T x nu then 0 else ln nu | _ => 0 end).
  destruct (Req_EM_T (nu + 2 / 2) nu); [lra|]. destruct (Req_EM_T nu nu); [ring|contradiction].
Qed.

(* ====================================================================== Fourier pair, Exponential, d = 3 *)
(* the 3D transform of a radial function: S(k) = (2 pi)^-3 int rho(|r|) e^{ik.r} d^3r = 1/(2 pi^2 k) int_0^oo rho(r) r sin(k r) dr
   (angular integration of the plane wave over the sphere; this radial form is taken as the definition here) *)
Section FourierExp3.
Variables (l k : R).
Hypothesis Hl : 0 < l.
Hypothesis Hk : k <> 0.
Let a := 1 / l.
Definition f3int (r : R) : R := / (2 * (PI * PI) * k) * (exp_cor (r / l) * r * sin (k * r)).
Definition f3anti (r : R) : R :=
  - exp (- (r / l)) * ((a * r / (a * a + k * k) + (a * a - k * k) / ((a * a + k * k) * (a * a + k * k))) * sin (k * r)
                       + (k * r / (a * a + k * k) + 2 * a * k / ((a * a + k * k) * (a * a + k * k))) * cos (k * r))
  / (2 * (PI * PI) * k).
Lemma a_pos : 0 < a. Proof. unfold a. apply Rdiv_lt_0_compat; lra. Qed.
Lemma den3_pos : 0 < a * a + k * k.
Proof. assert (H := a_pos). assert (0 <= k * k) by apply Rle_0_sqr. nra. Qed.
Lemma f3anti_derive r : is_derive f3anti r (f3int r).
Proof.
  unfold f3anti, f3int, exp_cor. assert (Hd := den3_pos). assert (Hpi := PI_RGT_0). assert (Ha := a_pos).
  assert (Hal : a = 1 / l) by reflexivity. clearbody a.
  assert (Hpp : 0 < PI * PI) by nra.
  auto_derive; [sidec|]. subst a. eqR. unfold Rdiv in *. field.
  repeat split; try lra. assert (0 < l * l) by nra. assert (0 <= k * k * (l * l)) by (apply Rmult_le_pos; [apply Rle_0_sqr|lra]). nra.
Qed.
Lemma f3int_cont r : continuous f3int r.
Proof. apply (ex_derive_continuous f3int). unfold f3int, exp_cor. auto_derive. sidec. Qed.

Lemma exp_le_inv y : 0 < y -> exp (- y) <= 1 / y.
Proof.
  intros Hy. apply Rle_trans with (1 / (1 + y)); [apply exp_sq_bound; lra|].
  unfold Rdiv. rewrite !Rmult_1_l. apply Rinv_le_contravar; lra.
Qed.
Lemma exp_le_inv_sq y : 0 < y -> exp (- y) <= 4 / (y * y).
Proof.
  intros Hy. replace (- y) with (- (y / 2) + - (y / 2)) by field. rewrite exp_plus.
  assert (H1 := exp_le_inv (y / 2) ltac:(lra)). assert (H0 : 0 < exp (- (y / 2))) by apply exp_pos.
  replace (4 / (y * y)) with (1 / (y / 2) * (1 / (y / 2))) by (field; lra).
  apply Rmult_le_compat; lra.
Qed.

Lemma f3anti_lim : is_lim f3anti p_infty 0.
Proof.
  assert (Hd := den3_pos). assert (Hpi := PI_RGT_0). assert (Ha := a_pos). assert (Hpp : 0 < PI * PI) by nra.
  assert (Hak : 0 < Rabs k) by (apply Rabs_pos_lt; exact Hk).
  set (den := a * a + k * k) in *.
  set (A := (a + Rabs k) / den).
  set (B := (Rabs (a * a - k * k) + 2 * a * Rabs k) / (den * den)).
  set (D := 2 * (PI * PI) * Rabs k).
  assert (HA : 0 < A) by (unfold A; apply Rdiv_lt_0_compat; lra).
  assert (HB : 0 <= B).
  { unfold B. apply Rmult_le_pos; [|left; apply Rinv_0_lt_compat; nra]. assert (H := Rabs_pos (a * a - k * k)). nra. }
  assert (HD : 0 < D) by (unfold D; nra).
  apply lim0_by_bound with ((A * (4 * (l * l)) + B * l) / D + 1).
  { assert (0 <= (A * (4 * (l * l)) + B * l) / D); [|lra].
    apply Rmult_le_pos; [|left; apply Rinv_0_lt_compat; exact HD]. assert (0 < l * l) by nra. nra. }
  intros x Hx. unfold f3anti. fold den.
  set (X := a * x / den + (a * a - k * k) / (den * den)).
  set (Y := k * x / den + 2 * a * k / (den * den)).
  set (E := exp (- (x / l))). assert (HE : 0 < E) by apply exp_pos.
  assert (Hy : 0 < x / l) by (apply Rdiv_lt_0_compat; lra).
  assert (HE1 : E <= l / x).
  { unfold E. eapply Rle_trans; [apply exp_le_inv; exact Hy|]. right. field. split; lra. }
  assert (HE2 : E * x <= 4 * (l * l) / x).
  { unfold E. apply Rle_trans with (4 / (x / l * (x / l)) * x).
    - apply Rmult_le_compat_r; [lra|apply exp_le_inv_sq; exact Hy].
    - right. field. split; lra. }
  assert (HX : Rabs X <= a * x / den + Rabs (a * a - k * k) / (den * den)).
  { unfold X. eapply Rle_trans; [apply Rabs_triang|]. unfold Rdiv. rewrite !Rabs_mult.
    rewrite (Rabs_pos_eq a), (Rabs_pos_eq x), (Rabs_pos_eq (/ den)), (Rabs_pos_eq (/ (den * den))); try lra;
      left; apply Rinv_0_lt_compat; nra. }
  assert (HY : Rabs Y <= Rabs k * x / den + 2 * a * Rabs k / (den * den)).
  { unfold Y. eapply Rle_trans; [apply Rabs_triang|]. unfold Rdiv. rewrite !Rabs_mult.
    rewrite (Rabs_pos_eq a), (Rabs_pos_eq x), (Rabs_pos_eq 2), (Rabs_pos_eq (/ den)), (Rabs_pos_eq (/ (den * den))); try lra;
      left; apply Rinv_0_lt_compat; nra. }
  assert (Hs : Rabs (sin (k * x)) <= 1) by (apply Rabs_le; destruct (SIN_bound (k * x)); split; lra).
  assert (Hc : Rabs (cos (k * x)) <= 1) by (apply Rabs_le; destruct (COS_bound (k * x)); split; lra).
  assert (HXY : Rabs (X * sin (k * x) + Y * cos (k * x)) <= A * x + B).
  { eapply Rle_trans; [apply Rabs_triang|]. rewrite !Rabs_mult.
    assert (H1 := Rabs_pos X). assert (H2 := Rabs_pos Y).
    assert (Rabs X * Rabs (sin (k * x)) <= Rabs X * 1) by (apply Rmult_le_compat_l; lra).
    assert (Rabs Y * Rabs (cos (k * x)) <= Rabs Y * 1) by (apply Rmult_le_compat_l; lra).
    replace (A * x + B) with ((a * x / den + Rabs (a * a - k * k) / (den * den)) + (Rabs k * x / den + 2 * a * Rabs k / (den * den)))
      by (unfold A, B; field; lra).
    lra. }
  replace (- E * (X * sin (k * x) + Y * cos (k * x)) / (2 * (PI * PI) * k))
    with (- (E * (X * sin (k * x) + Y * cos (k * x))) * / (2 * (PI * PI) * k)) by (field; split; lra).
  rewrite Rabs_mult, Rabs_Ropp, Rabs_mult, (Rabs_pos_eq E) by lra.
  rewrite Rabs_inv, !Rabs_mult, (Rabs_pos_eq 2), (Rabs_pos_eq PI) by lra. fold D.
  assert (HEx : E * (A * x + B) <= A * (4 * (l * l) / x) + B * (l / x)).
  { replace (E * (A * x + B)) with (A * (E * x) + B * E) by ring.
    apply Rplus_le_compat; [apply Rmult_le_compat_l; lra|apply Rmult_le_compat_l; lra]. }
  apply Rle_trans with ((A * (4 * (l * l) / x) + B * (l / x)) * / D).
  - apply Rmult_le_compat_r; [left; apply Rinv_0_lt_compat; exact HD|].
    eapply Rle_trans; [apply Rmult_le_compat_l; [lra|exact HXY]|exact HEx].
  - replace (((A * (4 * (l * l)) + B * l) / D + 1) / x) with ((A * (4 * (l * l) / x) + B * (l / x)) * / D + 1 / x) by (field; lra).
    assert (0 < 1 / x) by (apply Rdiv_lt_0_compat; lra). lra.
Qed.

Lemma fourier_exp_3d_closed :
  is_RInt_gen f3int (at_point 0) (Rbar_locally p_infty) (l * l * l / ((PI * PI) * ((1 + (k * l) * (k * l)) * (1 + (k * l) * (k * l))))).
Proof.
  assert (Hd := den3_pos). assert (Hpi := PI_RGT_0). assert (Hpp : 0 < PI * PI) by nra.
  match goal with |- is_RInt_gen _ _ _ ?v => replace v with (0 - f3anti 0) end.
  - apply RInt_gen_antiderivative; [exact f3anti_derive|exact f3int_cont|exact f3anti_lim].
  - unfold f3anti. replace (- (0 / l)) with 0 by (field; lra). rewrite exp_0, !Rmult_0_r, cos_0, sin_0.
    unfold a in *. assert (0 < 1 + k * l * (k * l)) by (assert (0 <= k * l * (k * l)) by apply Rle_0_sqr; lra).
    assert (0 < l * l) by nra. assert (0 <= k * k * (l * l)) by (apply Rmult_le_pos; [apply Rle_0_sqr|lra]).
    field. repeat split; try lra; nra.
Qed.
End FourierExp3.

(* translated Exponential.cor and translated Exponential.spectral_density are a Fourier pair in three dimensions
   (radial form of the transform, k <> 0; Gamma(2) = 1 assumed of scipy's gamma) *)
Theorem fourier_pair_exponential_3d_gen ora ls rs k : 0 < ls -> 0 < rs -> k <> 0 -> ora ORA_GAMMA [2] = 1 ->
  is_RInt_gen (fun r => / (2 * (PI * PI) * k) * (Formulas_gen.Exponential_cor (Rops ora) (r / (ls / rs)) * r * sin (k * r)))
              (at_point 0) (Rbar_locally p_infty)
              (Formulas_gen.Exponential_spectral_density (Rops ora) (ls / rs) (IZR 3) k).
Proof.
  intros Hls Hrs Hk G2. assert (Hl : 0 < ls / rs) by (apply Rdiv_lt_0_compat; assumption). assert (Hpi := PI_RGT_0).
  rewrite Exponential_spectral_density_tie.
  replace (exp_density (Rops ora) 3 (ls / rs) k)
    with (ls / rs * (ls / rs) * (ls / rs) / ((PI * PI) * ((1 + (k * (ls / rs)) * (k * (ls / rs))) * (1 + (k * (ls / rs)) * (k * (ls / rs)))))).
  - apply (fourier_exp_3d_closed (ls / rs) k Hl Hk).
  - unfold exp_density, sq, zd, pw, Gam, two, lit, nlit. rsimp. replace ((3 + 1) / 2) with 2 by lra.
    rewrite G2, Rpow_3, Rpow_2'. assert (0 < 1 + k * (ls / rs) * (k * (ls / rs))) by (assert (0 <= k * (ls / rs) * (k * (ls / rs))) by apply Rle_0_sqr; lra).
    assert (0 < rs * rs + k * ls * (k * ls)) by (assert (0 <= k * ls * (k * ls)) by apply Rle_0_sqr; nra). field. repeat split; lra.
Qed.

(* ====================================================================== rad_fac is the surface of the sphere *)
(* the translated rad_fac(d, r) equals 2 pi^(d/2) / Gamma(d/2) r^(d-1)  (pi^(d/2) written sqrt(pi)^d):
   d = 1, 2, 3 from Gamma(1/2) = sqrt pi, Gamma(1) = 1, Gamma(3/2) = sqrt(pi)/2;  every d >= 4 (the general branch of the
   code) from the recurrence Gamma(d/2 + 1) = d/2 Gamma(d/2) at that d *)
Theorem rad_fac_sphere_surface_low ora (d : Z) r : (1 <= d <= 3)%Z -> 0 < r ->
  ora ORA_GAMMA [1 / 2] = sqrt PI -> ora ORA_GAMMA [2 / 2] = 1 -> ora ORA_GAMMA [3 / 2] = sqrt PI / 2 ->
  Formulas_gen.rad_fac (Rops ora) (IZR d) r = 2 * Rpow (sqrt PI) (IZR d) / ora ORA_GAMMA [IZR d / 2] * Rpow r (IZR (d - 1)).
Proof.
  intros Hd Hr G1 G2 G3. rewrite rad_fac_tie.
  assert (Hs : 0 < sqrt PI) by (apply sqrt_lt_R0, PI_RGT_0).
  assert (Hss : sqrt PI * sqrt PI = PI) by (apply sqrt_sqrt; left; apply PI_RGT_0).
  unfold C04_Model.rad_fac, sq, two, lit, nlit. rsimp.
  assert (d = 1 \/ d = 2 \/ d = 3)%Z as [ -> | [ -> | -> ] ] by lia; simpl Z.eqb; cbv iota.
  - rewrite G1. change (1 - 1)%Z with 0%Z. rewrite !Rpow_IZR. simpl. field. lra.
  - rewrite G2. change (2 - 1)%Z with 1%Z. rewrite !Rpow_IZR. simpl. rewrite !Rmult_1_r, Hss. field.
  - rewrite G3. change (3 - 1)%Z with 2%Z. rewrite !Rpow_IZR. simpl. rewrite !Rmult_1_r.
    replace (sqrt PI * (sqrt PI * sqrt PI)) with (PI * sqrt PI) by (rewrite Hss; ring). field. lra.
Qed.
Theorem rad_fac_sphere_surface_general ora (d : Z) r : (4 <= d)%Z ->
  ora ORA_GAMMA [IZR d / 2 + 1] = IZR d / 2 * ora ORA_GAMMA [IZR d / 2] -> ora ORA_GAMMA [IZR d / 2] <> 0 ->
  Formulas_gen.rad_fac (Rops ora) (IZR d) r = 2 * Rpow (sqrt PI) (IZR d) / ora ORA_GAMMA [IZR d / 2] * Rpow r (IZR (d - 1)).
Proof.
  intros Hd Hrec Hnz. rewrite rad_fac_tie.
  unfold C04_Model.rad_fac, sq, zd, pw, sqrtpi, Gam, two, lit, nlit. rsimp.
  destruct (Z.eqb_spec d 1); [lia|]. destruct (Z.eqb_spec d 2); [lia|]. destruct (Z.eqb_spec d 3); [lia|].
  rewrite Hrec. assert (Hd0 : IZR d <> 0) by (apply not_0_IZR; lia). field. split; assumption.
Qed.
