(* C04_Proofs.v — algebraic theorems about the spectral model at the real instance [Rops ora]:
   radial pdf = surface factor * density, length-scale / rescale dependence of every analytic density,
   ppf inverts cdf, offered cdf/ppf are defined.  The special functions are the arbitrary [ora]. *)
From Coq Require Import Reals Lra Lia ZArith List Bool Psatz.
From GS Require Import Num Loops RInst C04_Model.
Import ListNotations.
Open Scope R_scope.

Ltac rsimp := cbn [n0 n1 nadd nsub nmul ndiv nneg nabs nsqrt ncos nsin nexp nln nacos nasin natan natan2
                   npow nltb nleb neqb nisnan nofZ npi noracle Rops] in *.

(* ---------- C pow on the reals *)
Lemma Rpow_pos x y : 0 < x -> Rpow x y = Rpower x y.
Proof.
  intros Hx. unfold Rpow. destruct (Req_EM_T y (IZR (Int_part y))) as [E|E]; [|reflexivity].
  rewrite E at 2. symmetry. rewrite <- powerRZ_Rpower by exact Hx. reflexivity.
Qed.
Lemma Rpow_gt0 x y : 0 < x -> 0 < Rpow x y.
Proof. intros Hx. rewrite Rpow_pos by exact Hx. unfold Rpower. apply exp_pos. Qed.
Lemma Rpow_mult_pos x y e : 0 < x -> 0 < y -> Rpow (x * y) e = Rpow x e * Rpow y e.
Proof.
  intros Hx Hy. rewrite !Rpow_pos; try assumption; [|apply Rmult_lt_0_compat; assumption].
  symmetry. apply Rpower_mult_distr; assumption.
Qed.
Lemma Rpow_one e : Rpow 1 e = 1.
Proof. rewrite Rpow_pos by lra. unfold Rpower. rewrite ln_1, Rmult_0_r. apply exp_0. Qed.
Lemma powerRZ_mult_nz x y n : x <> 0 -> y <> 0 -> powerRZ (x * y) n = powerRZ x n * powerRZ y n.
Proof.
  intros Hx Hy. destruct n as [|p|p]; simpl.
  - ring.
  - apply Rpow_mult_distr.
  - rewrite Rpow_mult_distr. rewrite Rinv_mult. reflexivity.
Qed.
Lemma Rpow_mult_Z x y d : x <> 0 -> y <> 0 -> Rpow (x * y) (IZR d) = Rpow x (IZR d) * Rpow y (IZR d).
Proof. intros. rewrite !Rpow_IZR. apply powerRZ_mult_nz; assumption. Qed.
Lemma Rpow_Z_nz x d : x <> 0 -> Rpow x (IZR d) <> 0.
Proof. intros. rewrite Rpow_IZR. apply powerRZ_NOR. assumption. Qed.
Lemma Rpow_lt_base x y e : 0 < e -> 0 < x -> x < y -> Rpow x e < Rpow y e.
Proof.
  intros He Hx Hxy. rewrite !Rpow_pos by lra. unfold Rpower. apply exp_increasing.
  apply Rmult_lt_compat_l; [exact He|]. apply ln_increasing; assumption.
Qed.

Lemma sqrtpi_pos ora : 0 < sqrtpi (Rops ora).
Proof. unfold sqrtpi. rsimp. apply sqrt_lt_R0. apply PI_RGT_0. Qed.

(* literals *)
Lemma lit0_R ora p : lit (Rops ora) p 0 = IZR p. Proof. reflexivity. Qed.
Lemma two_R ora : two (Rops ora) = 2. Proof. reflexivity. Qed.
Lemma half_R ora : half (Rops ora) = 5 / 10. Proof. reflexivity. Qed.
Lemma tol_R ora : lit (Rops ora) 1 8 = 1 / 100000000. Proof. reflexivity. Qed.

Definition tol8 : R := 1 / 100000000.
Lemma isclose0_R ora a : isclose0 (Rops ora) a = Rleb (Rabs a) tol8.
Proof.
  unfold isclose0, tol8. rsimp. rewrite tol_R. f_equal.
  - f_equal. ring.
  - rewrite Rabs_R0. unfold lit, nlit. rsimp. lra.
Qed.
Lemma isfinite_R ora x : isfinite (Rops ora) x = true.
Proof. unfold isfinite. rsimp. apply Reqb_true. ring. Qed.
Lemma nmax0_R ora x : 0 <= x -> nmax (Rops ora) x 0 = x.
Proof. intros H. unfold nmax. rsimp. unfold Rleb. destruct (Rle_dec 0 x); [reflexivity|contradiction]. Qed.

(* ====================================================================== radial pdf *)
Lemma rad_fac_nonneg ora d r : (1 <= d <= 3)%Z -> 0 <= r -> 0 <= rad_fac (Rops ora) d r.
Proof.
  intros Hd Hr. unfold rad_fac, sq. rsimp. rewrite two_R.
  assert (Hpi := PI_RGT_0).
  destruct (Z.eqb_spec d 1); [lra|]. destruct (Z.eqb_spec d 2).
  { apply Rmult_le_pos; [lra|exact Hr]. }
  destruct (Z.eqb_spec d 3); [|lia]. rewrite lit0_R.
  apply Rmult_le_pos; [lra|]. apply Rmult_le_pos; exact Hr.
Qed.

(* unmasked branch (1D: every r; 2D/3D: |r| > 1e-8): the code's radial pdf is the surface factor of
   the |r|-sphere times |density| *)
Lemma pdf_unmasked ora d dens r : (1 <= d <= 3)%Z -> (d = 1%Z \/ tol8 < Rabs r) ->
  spectral_rad_pdf (Rops ora) d dens r = rad_fac (Rops ora) d (Rabs r) * Rabs (dens (Rabs r)).
Proof.
  intros Hd Hm. unfold spectral_rad_pdf. rewrite isfinite_R.
  assert (Hnn : 0 <= rad_fac (Rops ora) d (Rabs r) * Rabs (dens (Rabs r))).
  { apply Rmult_le_pos; [apply rad_fac_nonneg; [exact Hd|apply Rabs_pos]|apply Rabs_pos]. }
  rsimp. destruct (Z.ltb_spec 1 d) as [H1|H1].
  - rewrite isclose0_R. unfold Rleb. rewrite Rabs_Rabsolu.
    destruct (Rle_dec (Rabs r) tol8) as [Hc|Hc].
    + destruct Hm as [Hm|Hm]; [lia|lra].
    + apply nmax0_R. exact Hnn.
  - apply nmax0_R. exact Hnn.
Qed.

(* masked branch of the 2D/3D code: 0 for |r| <= 1e-8; the formula it replaces is at most
   4 pi 1e-8 |density| there (and is exactly 0 at r = 0) *)
Lemma pdf_masked ora d dens r : (2 <= d <= 3)%Z -> Rabs r <= tol8 ->
  spectral_rad_pdf (Rops ora) d dens r = 0 /\
  Rabs (rad_fac (Rops ora) d (Rabs r) * Rabs (dens (Rabs r)) - 0) <= 4 * PI * tol8 * Rabs (dens (Rabs r)).
Proof.
  intros Hd Hm. split.
  - unfold spectral_rad_pdf. rewrite isfinite_R. rsimp.
    destruct (Z.ltb_spec 1 d) as [H1|H1]; [|lia].
    rewrite isclose0_R. unfold Rleb. rewrite Rabs_Rabsolu.
    destruct (Rle_dec (Rabs r) tol8); [|contradiction]. apply nmax0_R. lra.
  - rewrite Rminus_0_r. rewrite Rabs_mult, Rabs_Rabsolu.
    apply Rmult_le_compat_r; [apply Rabs_pos|].
    assert (Hpi := PI_RGT_0). assert (Ha := Rabs_pos r).
    rewrite Rabs_pos_eq by (apply rad_fac_nonneg; [lia|exact Ha]).
    unfold rad_fac, sq. rsimp. rewrite two_R, lit0_R.
    destruct (Z.eqb_spec d 1); [lia|]. destruct (Z.eqb_spec d 2).
    + assert (2 * PI * Rabs r <= 2 * PI * tol8) by (apply Rmult_le_compat_l; lra).
      assert (0 <= 2 * PI * tol8) by (unfold tol8; nra). lra.
    + destruct (Z.eqb_spec d 3); [|lia].
      assert (Rabs r * Rabs r <= tol8 * 1).
      { apply Rmult_le_compat; try lra. unfold tol8 in *. lra. }
      assert (4 * PI * (Rabs r * Rabs r) <= 4 * PI * (tol8 * 1)) by (apply Rmult_le_compat_l; lra).
      lra.
Qed.

(* general dimension (d >= 4, "pragma: no cover" in the code): the formula with Gamma agrees with the
   three special cases under the three Gamma values it needs *)
Lemma rad_fac_general_agrees ora r :
  ora ORA_GAMMA [1 / 2 + 1] = sqrt PI / 2 -> ora ORA_GAMMA [2 / 2 + 1] = 1 ->
  ora ORA_GAMMA [3 / 2 + 1] = 3 * sqrt PI / 4 -> 0 < r ->
  forall d, (1 <= d <= 3)%Z ->
    IZR d * Rpow r (IZR (d - 1)) * Rpow (sqrt PI) (IZR d) / ora ORA_GAMMA [IZR d / 2 + 1]
    = rad_fac (Rops ora) d r.
Proof.
  intros G1 G2 G3 Hr d Hd.
  assert (Hs : 0 < sqrt PI) by (apply sqrt_lt_R0, PI_RGT_0).
  assert (Hss : sqrt PI * sqrt PI = PI) by (apply sqrt_sqrt; left; apply PI_RGT_0).
  unfold rad_fac, sq. rsimp. rewrite two_R, lit0_R.
  assert (d = 1 \/ d = 2 \/ d = 3)%Z as [ -> | [ -> | -> ] ] by lia; simpl Z.eqb; cbv iota.
  - rewrite G1. change (1 - 1)%Z with 0%Z. rewrite !Rpow_IZR. simpl. field. lra.
  - rewrite G2. change (2 - 1)%Z with 1%Z. rewrite !Rpow_IZR. simpl. rewrite !Rmult_1_r. rewrite Hss. field.
  - rewrite G3. change (3 - 1)%Z with 2%Z. rewrite !Rpow_IZR. simpl. rewrite !Rmult_1_r.
    replace (sqrt PI * (sqrt PI * sqrt PI)) with (PI * sqrt PI) by (rewrite Hss; ring). field. lra.
Qed.

(* ====================================================================== length scale / rescale *)
(* every analytic density depends on len_scale and rescale through l = len_scale / rescale only, and
   S_l(k) = l^d * S_1(l k)  — the scaling that the d-dimensional Fourier transform of rho(r / l) has *)
Section Scaling.
Variable ora : nat -> list R -> R.
Let O := Rops ora.
Variables (d : Z) (l k : R).
Hypothesis Hl : 0 < l.

Lemma div_sqrtpi_nz : l / sqrtpi O <> 0.
Proof. assert (H := sqrtpi_pos ora). unfold O. apply Rgt_not_eq. apply Rdiv_lt_0_compat; lra. Qed.

Lemma gau_scaling : gau_density O d l k = Rpow l (IZR d) * gau_density O d 1 (l * k).
Proof.
  assert (Hs := sqrtpi_pos ora). unfold gau_density, sq, zd, pw. unfold O. rsimp. rewrite two_R.
  replace (l / 2 / sqrtpi (Rops ora)) with (l * (1 / 2 / sqrtpi (Rops ora))) by (field; lra).
  rewrite Rpow_mult_Z; [|lra|apply Rgt_not_eq; apply Rdiv_lt_0_compat; lra].
  replace (l * k * 1 / 2) with (k * l / 2) by field. ring.
Qed.

Lemma exp_scaling : exp_density O d l k = Rpow l (IZR d) * exp_density O d 1 (l * k).
Proof.
  unfold exp_density, sq, zd, pw. unfold O. rsimp.
  rewrite Rpow_one. replace (l * k * 1) with (k * l) by ring. unfold Rdiv. ring.
Qed.

Lemma mat_scaling nu : mat_density O d l nu k = Rpow l (IZR d) * mat_density O d 1 nu (l * k).
Proof.
  assert (Hs := sqrtpi_pos ora). unfold mat_density, sq, zd, pw. unfold O. rsimp.
  replace (l / sqrtpi (Rops ora)) with (l * (1 / sqrtpi (Rops ora))) by (field; lra).
  rewrite Rpow_mult_Z; [|lra|apply Rgt_not_eq; apply Rdiv_lt_0_compat; lra].
  replace (l * k * 1) with (k * l) by ring.
  destruct (Rltb _ nu); ring.
Qed.

Definition mask_agree (x y : R) : Prop := Rabs x <= tol8 <-> Rabs y <= tol8.
Lemma mask_agree_if {A} x y (a b : A) : mask_agree x y ->
  (if Rleb (Rabs x) tol8 then a else b) = (if Rleb (Rabs y) tol8 then a else b).
Proof.
  intros [H1 H2]. unfold Rleb. destruct (Rle_dec (Rabs x) tol8), (Rle_dec (Rabs y) tol8); tauto.
Qed.

Lemma int_scaling nu : (nu <= 50 -> mask_agree k (l * k)) ->
  int_density O d l nu k = Rpow l (IZR d) * int_density O d 1 nu (l * k).
Proof.
  intros Hm. assert (Hs := sqrtpi_pos ora). unfold int_density, sq, zd, pw. unfold O. rsimp.
  rewrite two_R, half_R. rewrite !isclose0_R.
  replace (5 / 10 * l / sqrtpi (Rops ora)) with (l * (5 / 10 * 1 / sqrtpi (Rops ora))) by (field; lra).
  rewrite Rpow_mult_Z; [|lra|apply Rgt_not_eq; apply Rdiv_lt_0_compat; lra].
  replace (l * k * 1 / 2) with (k * l / 2) by field.
  destruct (Rltb (lit (Rops ora) 50 0) nu) eqn:E.
  - unfold Rdiv. ring.
  - rewrite (mask_agree_if k (l * k)).
    + destruct (Rleb (Rabs (l * k)) tol8); unfold Rdiv; ring.
    + apply Hm. apply Rltb_false in E. rewrite lit0_R in E. exact E.
Qed.

Lemma hyp_scaling : k <> 0 -> mask_agree k (l * k) ->
  hyp_density O d l k = Rpow l (IZR d) * hyp_density O d 1 (l * k).
Proof.
  intros Hk Hm. assert (Hs := sqrtpi_pos ora). unfold hyp_density, sq, zd, pw. unfold O. rsimp.
  rewrite two_R, lit0_R. rewrite !isclose0_R. rewrite (mask_agree_if k (l * k)) by exact Hm.
  destruct (Rleb (Rabs (l * k)) tol8).
  - replace (l / 4) with (l * (1 / 4)) by field. rewrite Rpow_mult_Z by lra. unfold Rdiv. ring.
  - rewrite Rpow_mult_Z by (try assumption; lra). replace (l * k * 1 / 2) with (k * l / 2) by field.
    field. repeat split; apply Rpow_Z_nz; try assumption; lra.
Qed.

Lemma hyp_scaling_0 : hyp_density O d l 0 = Rpow l (IZR d) * hyp_density O d 1 (l * 0).
Proof.
  assert (Hs := sqrtpi_pos ora). unfold hyp_density, sq, zd, pw. unfold O. rsimp.
  rewrite lit0_R. rewrite !isclose0_R. rewrite Rmult_0_r.
  assert (E : Rleb (Rabs 0) tol8 = true) by (apply Rleb_true; rewrite Rabs_R0; unfold tol8; lra).
  rewrite E. replace (l / 4) with (l * (1 / 4)) by field. rewrite Rpow_mult_Z by lra. unfold Rdiv. ring.
Qed.

Lemma jb_scaling nu : jb_density O d l nu k = Rpow l (IZR d) * jb_density O d 1 nu (l * k).
Proof.
  assert (Hs := sqrtpi_pos ora). unfold jb_density, sq, zd, pw. unfold O. rsimp.
  replace (l / sqrtpi (Rops ora)) with (l * (1 / sqrtpi (Rops ora))) by (field; lra).
  rewrite Rpow_mult_Z; [|lra|apply Rgt_not_eq; apply Rdiv_lt_0_compat; lra].
  replace (l * k * 1) with (k * l) by ring.
  assert (E : Rltb k (1 / l) = Rltb (l * k) (1 / 1)).
  { unfold Rltb. destruct (Rlt_dec k (1 / l)) as [H|H], (Rlt_dec (l * k) (1 / 1)) as [H'|H']; try reflexivity; exfalso.
    - apply H'. replace (1 / 1) with (l * (1 / l)) by (field; lra). apply Rmult_lt_compat_l; assumption.
    - apply H. apply Rmult_lt_reg_l with l; [exact Hl|]. replace (l * (1 / l)) with (1 / 1) by (field; lra). exact H'. }
  rewrite E. destruct (Rltb (l * k) (1 / 1)); unfold Rdiv; ring.
Qed.

Lemma tplexp0_scaling h : tplexp0 O d l h k = Rpow l (IZR d) * tplexp0 O d 1 h (l * k).
Proof.
  unfold tplexp0, sq, zd, pw. unfold O. rsimp. rewrite Rpow_one.
  replace (l * k * 1) with (k * l) by ring. unfold Rdiv. ring.
Qed.

Lemma tplgau0_scaling h : tplgau0 O d l h k = Rpow l (IZR d) * tplgau0 O d 1 h (l * k).
Proof.
  unfold tplgau0, sq, zd, pw. unfold O. rsimp. rewrite two_R.
  replace (l * k * 1 / 2) with (k * l / 2) by field.
  replace (l / 2) with (l * (1 / 2)) by field. rewrite Rpow_mult_Z by lra.
  destruct (Rltb _ _); unfold Rdiv; ring.
Qed.
End Scaling.

(* superposition with a lower cut-off: both truncation lengths scale together *)
Lemma tpl_combine_scaling ora (f g : R -> R) (c lam h low : R) :
  0 < lam -> 0 < h -> 0 <= low -> c <> 0 ->
  (forall x, 0 < x -> f (lam * x) = c * g x) ->
  tpl_combine (Rops ora) f lam h (lam * low) = c * tpl_combine (Rops ora) g 1 h low.
Proof.
  intros Hlam Hh Hlow Hc Hfg. unfold tpl_combine, pw. rsimp. rewrite two_R.
  unfold Reqb. destruct (Req_EM_T low 0) as [->|Hne].
  - rewrite Rmult_0_r. destruct (Req_EM_T 0 0); [|contradiction].
    rewrite <- (Rmult_1_r lam) at 1. apply Hfg. lra.
  - destruct (Req_EM_T (lam * low) 0) as [E|_].
    { exfalso. apply Rmult_integral in E. destruct E; lra. }
    assert (Hlow' : 0 < low) by lra.
    replace (lam + lam * low) with (lam * (1 + low)) by ring.
    rewrite !Rpow_mult_pos by lra. rewrite !Hfg by lra.
    assert (Hp : 0 < Rpow lam (2 * h)) by (apply Rpow_gt0; exact Hlam).
    assert (Hd : Rpow low (2 * h) < Rpow (1 + low) (2 * h)) by (apply Rpow_lt_base; lra).
    field. split; [lra|].
    replace (Rpow lam (2 * h) * Rpow (1 + low) (2 * h) - Rpow lam (2 * h) * Rpow low (2 * h))
      with (Rpow lam (2 * h) * (Rpow (1 + low) (2 * h) - Rpow low (2 * h))) by ring.
    apply Rmult_integral_contrapositive_currified; lra.
Qed.

(* ---------- the theorem for all eight analytic classes *)
Definition ref_cls (m : cls (T:=R)) (len_scale : R) : cls :=
  match m with
  | TPLGaussian h low => TPLGaussian h (low / len_scale)
  | TPLExponential h low => TPLExponential h (low / len_scale)
  | _ => m
  end.
(* side conditions: the masks around k = 0 (on k, not on k*l, in the code) must select the same branch;
   truncated power laws need hurst > 0 and len_low >= 0 (their bounds) *)
Definition scal_ok (m : cls (T:=R)) (lam k : R) : Prop :=
  match m with
  | Integral nu => nu <= 50 -> mask_agree k (lam * k)
  | HyperSpherical => k = 0 \/ mask_agree k (lam * k)
  | TPLGaussian h low | TPLExponential h low => 0 < h /\ 0 <= low
  | _ => True
  end.

Theorem spectrum_scaling ora (m : cls) (d : Z) (len_scale rescale k : R) :
  0 < len_scale -> 0 < rescale -> scal_ok m (len_scale / rescale) k ->
  spectral_density (Rops ora) m d len_scale rescale k
  = Rpow (len_scale / rescale) (IZR d)
    * spectral_density (Rops ora) (ref_cls m len_scale) d 1 1 ((len_scale / rescale) * k).
Proof.
  intros Hl Hs Hok. set (lam := len_scale / rescale) in *.
  assert (Hlam : 0 < lam) by (apply Rdiv_lt_0_compat; assumption).
  unfold spectral_density, len_rescaled. rsimp. fold lam.
  replace (1 / 1) with 1 by field.
  destruct m as [| |nu|nu| |nu|h low|h low]; simpl ref_cls; cbv iota beta.
  - apply gau_scaling. exact Hlam.
  - apply exp_scaling.
  - apply mat_scaling. exact Hlam.
  - apply int_scaling; [exact Hlam|exact Hok].
  - destruct Hok as [->|Hok].
    + apply hyp_scaling_0. exact Hlam.
    + destruct (Req_EM_T k 0) as [->|Hk]; [apply hyp_scaling_0; exact Hlam|apply hyp_scaling; assumption].
  - apply jb_scaling. exact Hlam.
  - destruct Hok as [Hh Hlow]. unfold tplgau_density.
    replace (low / rescale) with (lam * (low / len_scale)) by (unfold lam; field; lra).
    replace (low / len_scale / 1) with (low / len_scale) by (field; lra).
    apply tpl_combine_scaling; try assumption.
    + unfold Rdiv. apply Rmult_le_pos; [exact Hlow|]. left. apply Rinv_0_lt_compat. exact Hl.
    + apply Rpow_Z_nz. lra.
    + intros x Hx. assert (Hlx : 0 < lam * x) by (apply Rmult_lt_0_compat; assumption).
      rewrite (tplgau0_scaling ora d (lam * x) k Hlx h).
      rewrite (tplgau0_scaling ora d x (lam * k) Hx h). rewrite Rpow_mult_Z by lra.
      replace (lam * x * k) with (x * (lam * k)) by ring. ring.
  - destruct Hok as [Hh Hlow]. unfold tplexp_density.
    replace (low / rescale) with (lam * (low / len_scale)) by (unfold lam; field; lra).
    replace (low / len_scale / 1) with (low / len_scale) by (field; lra).
    apply tpl_combine_scaling; try assumption.
    + unfold Rdiv. apply Rmult_le_pos; [exact Hlow|]. left. apply Rinv_0_lt_compat. exact Hl.
    + apply Rpow_Z_nz. lra.
    + intros x Hx. rewrite (tplexp0_scaling ora d (lam * x) k h).
      rewrite (tplexp0_scaling ora d x (lam * k) h). rewrite Rpow_mult_Z by lra.
      replace (lam * x * k) with (x * (lam * k)) by ring. ring.
Qed.

(* the side conditions are satisfiable in every class (k = 1, len_scale = 2, rescale = 1) *)
Example scal_ok_example : forall m : cls, (match m with TPLGaussian h low | TPLExponential h low => 0 < h /\ 0 <= low | _ => True end) ->
  scal_ok m (2 / 1) 1.
Proof.
  intros m Hm. assert (Hma : mask_agree 1 (2 / 1 * 1)).
  { unfold mask_agree, tol8. replace (2 / 1 * 1) with 2 by field. rewrite !Rabs_pos_eq by lra. lra. }
  destruct m; simpl; auto.
Qed.

(* ====================================================================== offered cdf / ppf *)
(* structural, for every number type: where the class says it has a cdf / ppf the method returns a
   value (not None), and a ppf is only offered together with a cdf *)
Lemma offered_defined {T} (O : NumOps T) (m : cls) (d : Z) (ls rs x : T) :
  (has_cdf m d = true -> spectral_rad_cdf O m d ls rs x <> None) /\
  (has_ppf m d = true -> spectral_rad_ppf O m d ls rs x <> None) /\
  (has_ppf m d = true -> has_cdf m d = true).
Proof.
  unfold has_cdf, has_ppf, spectral_rad_cdf, spectral_rad_ppf, gau_cdf, gau_ppf, exp_cdf, exp_ppf.
  destruct m; repeat split; intros H; try discriminate;
    destruct (d =? 1)%Z, (d =? 2)%Z, (d =? 3)%Z; simpl in *; try discriminate; try reflexivity.
Qed.

Definition getv (o : option R) : R := match o with Some v => v | None => 0 end.

Ltac open_cdf := unfold spectral_rad_ppf, spectral_rad_cdf, gau_ppf, gau_cdf, exp_ppf, exp_cdf, len_rescaled, sq, erf, erfinv;
  cbv [Z.eqb Pos.eqb]; cbv iota.
Section Inverse.
Variable ora : nat -> list R -> R.
Let O := Rops ora.
Variables (len_scale rescale : R).
Hypothesis Hl : 0 < len_scale.
Hypothesis Hs : 0 < rescale.
Let l := len_scale / rescale.
Lemma l_pos : 0 < l. Proof. apply Rdiv_lt_0_compat; assumption. Qed.

(* Gaussian, d = 2 *)
Lemma gau2_cdf_ppf u : 0 <= u < 1 ->
  exists p, spectral_rad_ppf O Gaussian 2 len_scale rescale u = Some p /\ 0 <= p /\
            spectral_rad_cdf O Gaussian 2 len_scale rescale p = Some u.
Proof.
  intros Hu. assert (Hlp := l_pos). open_cdf. eexists. split; [reflexivity|].
  unfold O. rsimp. fold l. rewrite two_R.
  assert (Hln : 0 <= - ln (1 - u)).
  { assert (ln (1 - u) <= ln 1) by (destruct (Req_dec u 0) as [->|]; [rewrite Rminus_0_r; lra|left; apply ln_increasing; lra]).
    rewrite ln_1 in H. lra. }
  split.
  - apply Rmult_le_pos; [left; apply Rdiv_lt_0_compat; lra|apply sqrt_pos].
  - simpl. f_equal.
    replace (2 / l * sqrt (- ln (1 - u)) * l / 2) with (sqrt (- ln (1 - u))) by (field; lra).
    rewrite sqrt_sqrt by exact Hln. rewrite Ropp_involutive. rewrite exp_ln by lra. ring.
Qed.
Lemma gau2_ppf_cdf r : 0 <= r ->
  exists u, spectral_rad_cdf O Gaussian 2 len_scale rescale r = Some u /\ 0 <= u < 1 /\
            spectral_rad_ppf O Gaussian 2 len_scale rescale u = Some r.
Proof.
  intros Hr. assert (Hlp := l_pos). open_cdf. eexists. split; [reflexivity|].
  unfold O. rsimp. fold l. rewrite two_R.
  set (x := r * l / 2). assert (Hx : 0 <= x) by (unfold x; apply Rmult_le_pos; [apply Rmult_le_pos; lra|lra]).
  assert (He : 0 < exp (- (x * x)) <= 1).
  { split; [apply exp_pos|]. rewrite <- exp_0. destruct (Req_dec (x * x) 0) as [->|Hne]; [rewrite Ropp_0; lra|].
    left. apply exp_increasing. assert (0 <= x * x) by (apply Rmult_le_pos; lra). lra. }
  split; [lra|]. simpl. f_equal.
  replace (1 - (1 - exp (- (x * x)))) with (exp (- (x * x))) by ring.
  rewrite ln_exp. rewrite Ropp_involutive. rewrite sqrt_square by exact Hx. unfold x. field. lra.
Qed.

(* Gaussian, d = 1, under the hypothesis that the two scipy functions are mutually inverse *)
Lemma gau1_ppf_cdf r : (forall x, ora ORA_ERFINV [ora ORA_ERF [x]] = x) ->
  exists u, spectral_rad_cdf O Gaussian 1 len_scale rescale r = Some u /\
            spectral_rad_ppf O Gaussian 1 len_scale rescale u = Some r.
Proof.
  intros Hinv. assert (Hlp := l_pos). open_cdf. eexists. split; [reflexivity|].
  unfold O. rsimp. fold l. rewrite two_R. simpl. f_equal.
  rewrite Hinv. field. lra.
Qed.

(* Exponential, d = 1 (np.tan modelled as sin / cos) *)
Lemma tan_atan_id x : sin (atan x) / cos (atan x) = x.
Proof. apply atan_right_inv. Qed.
Lemma atan_tan_id x : - PI / 2 < x < PI / 2 -> atan (sin x / cos x) = x.
Proof.
  intros Hx. apply tan_inj; [apply atan_bound|exact Hx|]. rewrite atan_right_inv. reflexivity.
Qed.
Lemma exp1_cdf_ppf u : 0 <= u < 1 ->
  exists p, spectral_rad_ppf O Exponential 1 len_scale rescale u = Some p /\
            spectral_rad_cdf O Exponential 1 len_scale rescale p = Some u.
Proof.
  intros Hu. assert (Hlp := l_pos). assert (Hpi := PI_RGT_0). open_cdf. eexists. split; [reflexivity|].
  unfold O. rsimp. fold l. rewrite two_R. simpl. f_equal.
  assert (Hb : - PI / 2 < PI / 2 * u < PI / 2) by (split; nra).
  assert (Hc : 0 < cos (PI / 2 * u)) by (apply cos_gt_0; lra).
  replace (sin (PI / 2 * u) / cos (PI / 2 * u) / l * l) with (sin (PI / 2 * u) / cos (PI / 2 * u)) by (field; split; lra).
  rewrite atan_tan_id by exact Hb. field. lra.
Qed.
Lemma exp1_ppf_cdf r :
  exists u, spectral_rad_cdf O Exponential 1 len_scale rescale r = Some u /\
            spectral_rad_ppf O Exponential 1 len_scale rescale u = Some r.
Proof.
  assert (Hlp := l_pos). assert (Hpi := PI_RGT_0). open_cdf. eexists. split; [reflexivity|].
  unfold O. rsimp. fold l. rewrite two_R. simpl. f_equal.
  replace (PI / 2 * (atan (r * l) * 2 / PI)) with (atan (r * l)) by (field; lra).
  rewrite tan_atan_id. field. lra.
Qed.

(* Exponential, d = 2: outside the mask |1 - u| <= 1e-8 (where the code returns inf) *)
Lemma exp2_cdf_ppf u : 0 <= u -> tol8 < 1 - u ->
  exists p, spectral_rad_ppf O Exponential 2 len_scale rescale u = Some p /\ 0 <= p /\
            spectral_rad_cdf O Exponential 2 len_scale rescale p = Some u.
Proof.
  intros Hu0 Hu. assert (Hlp := l_pos). open_cdf. eexists. split; [reflexivity|].
  unfold O. rsimp. fold l. rewrite isclose0_R.
  assert (Ht : 0 < tol8) by (unfold tol8; lra).
  unfold Rleb. destruct (Rle_dec (Rabs (1 - u)) tol8) as [Hc|_].
  { rewrite Rabs_pos_eq in Hc by lra. lra. }
  assert (Hw : 0 < 1 - u <= 1) by lra. set (w := 1 - u) in *.
  assert (Hq : 0 <= 1 / (w * w) - 1).
  { assert (w * w <= 1) by nra. assert (0 < w * w) by nra.
    assert (1 <= 1 / (w * w)). { apply Rmult_le_reg_r with (w * w); [lra|]. replace (1 / (w * w) * (w * w)) with 1 by (field; lra). lra. }
    lra. }
  split.
  - apply Rmult_le_pos; [apply sqrt_pos|left; apply Rinv_0_lt_compat; exact Hlp].
  - simpl. f_equal.
    replace (sqrt (1 / (w * w) - 1) / l * l) with (sqrt (1 / (w * w) - 1)) by (field; lra).
    rewrite sqrt_sqrt by exact Hq.
    replace (1 + (1 / (w * w) - 1)) with (/ w * / w) by (field; lra).
    rewrite sqrt_square by (left; apply Rinv_0_lt_compat; lra).
    unfold w. field. fold w. lra.
Qed.
Lemma exp2_ppf_cdf r : 0 <= r -> tol8 < 1 / sqrt (1 + (r * l) * (r * l)) ->
  exists u, spectral_rad_cdf O Exponential 2 len_scale rescale r = Some u /\ 0 <= u < 1 /\
            spectral_rad_ppf O Exponential 2 len_scale rescale u = Some r.
Proof.
  intros Hr Hm. assert (Hlp := l_pos). open_cdf. eexists. split; [reflexivity|].
  unfold O. rsimp. fold l. rewrite isclose0_R.
  set (x := r * l) in *. assert (Hx : 0 <= x) by (unfold x; apply Rmult_le_pos; lra).
  set (q := sqrt (1 + x * x)) in *.
  assert (Hq1 : 1 <= q). { unfold q. rewrite <- sqrt_1 at 1. apply sqrt_le_1_alt. nra. }
  assert (Hqq : q * q = 1 + x * x) by (unfold q; apply sqrt_sqrt; nra).
  assert (Hiq : 0 < 1 / q <= 1).
  { split; [apply Rdiv_lt_0_compat; lra|]. apply Rmult_le_reg_r with q; [lra|]. replace (1 / q * q) with 1 by (field; lra). lra. }
  split; [lra|]. simpl.
  replace (1 - (1 - 1 / q)) with (1 / q) by ring.
  unfold Rleb. destruct (Rle_dec (Rabs (1 / q)) tol8) as [Hc|_].
  { rewrite Rabs_pos_eq in Hc by lra. lra. }
  assert (Hxx : x * x = q * q - 1) by lra.
  f_equal. replace (1 / (1 / q * (1 / q)) - 1) with (x * x) by (rewrite Hxx; field; lra).
  rewrite sqrt_square by exact Hx. unfold x. field. lra.
Qed.
End Inverse.
