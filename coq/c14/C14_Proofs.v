(* C14_Proofs.v — invariant of the parameter state machine and what follows from it.
   Everything here is for an arbitrary number type T and arbitrary operations; the only laws
   used are the two stated as section hypotheses (0 < 1 in the boolean order of O, |·| idempotent). *)
From Coq Require Import List Arith Lia ZArith Bool.
From GS Require Import Num Loops C14_Model.
Import ListNotations.

Lemma noa_mono a b : a <= b -> noa a <= noa b.
Proof.
  intros H. unfold noa. apply Nat.div_le_mono; [lia|]. apply Nat.mul_le_mono; lia.
Qed.

Lemma aupd_length {A} (l : list A) i v : length (aupd l i v) = length l.
Proof. revert i; induction l as [|h t IH]; intros [|i]; simpl; auto. Qed.
Lemma nth_aupd_same {A} (l : list A) i v d : i < length l -> nth i (aupd l i v) d = v.
Proof. revert i; induction l as [|h t IH]; intros [|i] H; simpl in *; try lia; auto. apply IH; lia. Qed.
Lemma nth_aupd_other {A} (l : list A) i j v d : i <> j -> nth j (aupd l i v) d = nth j l d.
Proof. revert i j; induction l as [|h t IH]; intros [|i] [|j] H; simpl; auto; try lia. Qed.

Section Proofs.
  Context {T : Type} (O : NumOps T).
  Hypothesis one_pos : nltb O (n0 O) (n1 O) = true.
  Hypothesis abs_idem : forall x, nabs O (nabs O x) = nabs O x.

  Notation State := (@State T).
  Notation Bnd := (@Bnd T).

  (* ---------- list normalisers *)
  Lemma set_anis_length d a : length (set_anis O d a) = d - 1.
  Proof.
    unfold set_anis. rewrite app_length, repeat_length, firstn_length. lia.
  Qed.
  Lemma set_anis_id d a : length a = d - 1 -> set_anis O d a = a.
  Proof.
    intros H. unfold set_anis. rewrite firstn_all2 by lia. rewrite H, Nat.sub_diag. reflexivity.
  Qed.
  Lemma set_angles_length d a : length (set_angles O d a) = noa d.
  Proof.
    unfold set_angles. rewrite app_length, repeat_length, firstn_length. lia.
  Qed.
  Lemma set_angles_id d a : length a = noa d -> set_angles O d a = a.
  Proof.
    intros H. unfold set_angles. rewrite firstn_all2 by lia. rewrite H, Nat.sub_diag. apply app_nil_r.
  Qed.

  Lemma force2_length a : length (force2 O a) = length a.
  Proof. destruct a as [|x [|y t]]; reflexivity. Qed.
  Lemma force2_ok a : ratios_ok O a = true -> ratios_ok O (force2 O a) = true.
  Proof.
    destruct a as [|x [|y t]]; simpl; auto; intros H.
    - now rewrite one_pos.
    - rewrite one_pos. simpl. apply andb_true_iff in H as [_ H]. apply andb_true_iff in H as [_ H]. exact H.
  Qed.
  Lemma force2_first a : 2 <= length a -> firstn 2 (force2 O a) = [n1 O; n1 O].
  Proof. destruct a as [|x [|y t]]; simpl; intros; try lia; reflexivity. Qed.
  Lemma force2_id a : firstn 2 a = [n1 O; n1 O] -> force2 O a = a.
  Proof. destruct a as [|x [|y t]]; simpl; intros H; try discriminate. now inversion H. Qed.

  Lemma pad_edge_length d l : length l <= d -> length (pad_edge O d l) = d.
  Proof. intros H. unfold pad_edge. rewrite app_length, repeat_length. lia. Qed.

  Lemma zero_tail_length k a : length (zero_tail O k a) = length a.
  Proof. unfold zero_tail. rewrite app_length, repeat_length, firstn_length. lia. Qed.
  Lemma zero_tail_skipn k a : k <= length a -> skipn k (zero_tail O k a) = repeat (n0 O) (length a - k).
  Proof.
    intros H. unfold zero_tail. rewrite skipn_app, firstn_length.
    rewrite skipn_all2 by (rewrite firstn_length; lia).
    replace (k - Nat.min k (length a)) with 0 by lia. reflexivity.
  Qed.
  Lemma zero_tail_id k a : skipn k a = repeat (n0 O) (length a - k) -> zero_tail O k a = a.
  Proof. intros H. unfold zero_tail. rewrite <- H. apply firstn_skipn. Qed.

  (* ---------- set_len_anis *)
  Lemma set_len_anis_ok d ls an ll l a : 1 <= d ->
    set_len_anis O d ls an ll = Ok (l, a) ->
    length a = d - 1 /\ ratios_ok O a = true /\ (ll = true -> 3 <= d -> firstn 2 a = [n1 O; n1 O])
    /\ hd l (firstn d ls) = l.
  Proof.
    intros Hd. unfold set_len_anis.
    destruct (firstn d ls) as [|l0 rest] eqn:E; [discriminate|].
    set (a0 := match rest with [] => set_anis O d an | _ => _ end).
    assert (La0 : length a0 = d - 1).
    { subst a0. destruct rest as [|r rest'].
      - apply set_anis_length.
      - rewrite map_length. assert (length (l0 :: r :: rest') <= d).
        { rewrite <- E, firstn_length. lia. }
        pose proof (pad_edge_length d (l0 :: r :: rest') H) as HP.
        destruct (pad_edge O d (l0 :: r :: rest')) eqn:EP; simpl in *; lia. }
    destruct (ratios_ok O a0) eqn:R; [|discriminate].
    intros H. inversion H; subst l a. clear H.
    destruct ll; simpl.
    - rewrite force2_length. repeat split; auto.
      + now apply force2_ok.
      + intros _ H3. apply force2_first. lia.
    - repeat split; auto. intros; discriminate.
  Qed.

  Lemma set_len_anis_firstn d ls an ll :
    set_len_anis O d ls an ll = set_len_anis O d (firstn d ls) an ll.
  Proof. unfold set_len_anis. now rewrite firstn_firstn, Nat.min_id. Qed.

  Lemma set_len_anis_scalar d l an ll : 1 <= d ->
    set_len_anis O d [l] an ll =
    if ratios_ok O (set_anis O d an) then Ok (l, if ll then force2 O (set_anis O d an) else set_anis O d an)
    else Error EAnis.
  Proof.
    intros Hd. unfold set_len_anis. destruct d as [|d']; [lia|]. simpl firstn. now rewrite firstn_nil.
  Qed.

  Lemma set_len_anis_scalar_id d l an ll : 1 <= d -> length an = d - 1 -> ratios_ok O an = true ->
    (ll = true -> firstn 2 an = [n1 O; n1 O]) ->
    set_len_anis O d [l] an ll = Ok (l, an).
  Proof.
    intros Hd Hl Hr Hf. unfold set_len_anis.
    destruct d as [|d']; [lia|]. simpl firstn. rewrite firstn_nil. cbv iota.
    rewrite set_anis_id by exact Hl. rewrite Hr.
    destruct ll; [rewrite force2_id by auto|]; reflexivity.
  Qed.

  (* ---------- set_model_angles *)
  Lemma set_model_angles_length d a ll tt : length (set_model_angles O d a ll tt) = noa d.
  Proof.
    unfold set_model_angles. destruct ll; [apply repeat_length|].
    destruct tt; [rewrite zero_tail_length|]; apply set_angles_length.
  Qed.
  Lemma set_model_angles_temporal d a ll : 1 <= d ->
    skipn (noa (d - 1)) (set_model_angles O d a ll true) = repeat (n0 O) (noa d - noa (d - 1)).
  Proof.
    intros Hd. pose proof (noa_mono (d - 1) d ltac:(lia)) as Hm.
    unfold set_model_angles. destruct ll.
    - clear. generalize (noa (d - 1)) (noa d). intros k n. revert k. induction n as [|n IH]; intros [|k]; simpl; auto.
    - rewrite zero_tail_skipn; rewrite set_angles_length; auto.
  Qed.
  Lemma set_model_angles_id d a ll tt : length a = noa d ->
    (ll = true -> a = repeat (n0 O) (noa d)) ->
    (tt = true -> skipn (noa (d - 1)) a = repeat (n0 O) (noa d - noa (d - 1))) ->
    set_model_angles O d a ll tt = a.
  Proof.
    intros Hl Hll Htt. unfold set_model_angles. destruct ll; [symmetry; auto|].
    rewrite set_angles_id by exact Hl. destruct tt; auto.
    apply zero_tail_id. rewrite Hl. auto.
  Qed.

  (* ---------- the invariant *)
  Definition WF (s : State) : Prop :=
    1 <= dim s /\ length (anis s) = dim s - 1 /\ length (angles s) = noa (dim s) /\
    ratios_ok O (anis s) = true /\
    (latlon s = true -> dim s = 3 + b2n (temporal s) /\ firstn 2 (anis s) = [n1 O; n1 O]
                        /\ angles s = repeat (n0 O) (noa (dim s))) /\
    (temporal s = true ->
       skipn (noa (dim s - 1)) (angles s) = repeat (n0 O) (noa (dim s) - noa (dim s - 1))) /\
    length (opts s) = length (b_opts s) /\
    nabs O (rescale s) = rescale s.

  (* every value inside its bounds, as check_arg_bounds sees it *)
  Definition InB (c : Cls) (s : State) : Prop := check_all O c s = None.

  Lemma checked_ok c s s' : checked O c s = Ok s' -> s' = s /\ InB c s.
  Proof. unfold checked, InB. destruct (check_all O c s); intros H; inversion H; auto. Qed.

  Lemma chk1_None i b v : chk1 O i b v = None <-> err_case O b v = 0.
  Proof. unfold chk1. destruct (err_case O b v); split; intros; auto; discriminate. Qed.

  Lemma chk1_Some i b v e : chk1 O i b v = Some e -> err_case O b v = 0 -> False.
  Proof. intros H1 H2. apply (proj2 (chk1_None i b v)) in H2. congruence. Qed.

  Lemma chk_opts_None i bs vs : chk_opts O i bs vs = None <->
    (forall j, j < length bs -> j < length vs ->
       err_case O (nth j bs (mkBnd None None true true)) [nth j vs (n0 O)] = 0).
  Proof.
    revert i vs. induction bs as [|b bs IH]; intros i vs; simpl.
    - split; auto. intros _ j H; lia.
    - destruct vs as [|v vs]; simpl.
      + split; auto. intros _ j _ H; lia.
      + destruct (chk1 O i b [v]) eqn:E.
        * split; [discriminate|]. intros H. specialize (H 0 ltac:(lia) ltac:(lia)). simpl in H.
          apply (proj2 (chk1_None i b [v])) in H. rewrite H in E. discriminate.
        * apply chk1_None in E. rewrite IH. split.
          -- intros H [|j] H1 H2; simpl; auto. apply H; lia.
          -- intros H j H1 H2. apply (H (S j)); lia.
  Qed.

  Definition InB' (c : Cls) (s : State) : Prop :=
    err_case O (b_var s) [var_of O c s] = 0 /\ err_case O (b_len s) [len_scale s] = 0 /\
    err_case O (b_nug s) [nugget s] = 0 /\ err_case O (b_anis s) (anis s) = 0 /\
    (forall j, j < length (b_opts s) -> j < length (opts s) ->
       err_case O (nth j (b_opts s) (mkBnd None None true true)) [nth j (opts s) (n0 O)] = 0).

  Lemma InB_iff c s : InB c s <-> InB' c s.
  Proof.
    unfold InB, InB', check_all, orelse.
    destruct (chk1 O 0 (b_var s) [var_of O c s]) eqn:E0.
    { split; [discriminate|]. intros [H _]. exfalso; eapply chk1_Some; eauto. }
    destruct (chk1 O 1 (b_len s) [len_scale s]) eqn:E1.
    { split; [discriminate|]. intros (_ & H & _). exfalso; eapply chk1_Some; eauto. }
    destruct (chk1 O 2 (b_nug s) [nugget s]) eqn:E2.
    { split; [discriminate|]. intros (_ & _ & H & _). exfalso; eapply chk1_Some; eauto. }
    destruct (chk1 O 3 (b_anis s) (anis s)) eqn:E3.
    { split; [discriminate|]. intros (_ & _ & _ & H & _). exfalso; eapply chk1_Some; eauto. }
    apply chk1_None in E0, E1, E2, E3. rewrite chk_opts_None. tauto.
  Qed.

  (* ---------- each setter: what it returns (frame) and that it keeps the invariant *)
  Lemma WF_with_len_anis s l a : WF s -> length a = dim s - 1 -> ratios_ok O a = true ->
    (latlon s = true -> firstn 2 a = [n1 O; n1 O]) -> WF (with_len_anis s l a).
  Proof.
    intros (W1 & W2 & W3 & W4 & W5 & W6 & W7 & W8) A1 A2 A3.
    unfold WF; simpl. do 4 (split; [auto|]). split; [|auto].
    intros L; destruct (W5 L) as (D & F & G); auto.
  Qed.

  Lemma set_len_spec c s ls s' : WF s -> set_len O c s ls = Ok s' ->
    exists l a, s' = with_len_anis s l a /\ hd l (firstn (dim s) ls) = l /\
                (length (firstn (dim s) ls) = 1 -> a = anis s) /\ WF s' /\ InB c s'.
  Proof.
    intros W. unfold set_len, bind.
    destruct (set_len_anis O (dim s) ls (anis s) (latlon s)) as [[l a]|e] eqn:E; [|discriminate].
    simpl. intros H. apply checked_ok in H as [-> HB]. exists l, a.
    pose proof W as (W1 & W2 & W3 & W4 & W5 & W6 & W7 & W8).
    pose proof (set_len_anis_ok _ _ _ _ _ _ W1 E) as (A1 & A2 & A3 & A4).
    split; [reflexivity|]. split; [exact A4|]. split; [|split; [|exact HB]].
    - intros L1. destruct (firstn (dim s) ls) as [|l0 [|r rest]] eqn:EF; simpl in L1; try lia.
      rewrite set_len_anis_firstn, EF in E. rewrite set_len_anis_scalar_id in E; auto.
      + now inversion E.
      + intros L. now destruct (W5 L) as (_ & ? & _).
    - apply WF_with_len_anis; auto. intros L. destruct (W5 L) as (D & F & G). apply A3; auto. lia.
  Qed.

  Lemma set_anis_op_spec c s an s' : WF s -> set_anis_op O c s an = Ok s' ->
    exists a, s' = with_len_anis s (len_scale s) a /\ WF s' /\ InB c s'.
  Proof.
    intros W. unfold set_anis_op, bind.
    destruct (set_len_anis O (dim s) [len_scale s] an (latlon s)) as [[l a]|e] eqn:E; [|discriminate].
    simpl. intros H. apply checked_ok in H as [-> HB].
    pose proof W as (W1 & W2 & W3 & W4 & W5 & W6 & W7 & W8).
    pose proof (set_len_anis_ok _ _ _ _ _ _ W1 E) as (A1 & A2 & A3 & A4).
    assert (l = len_scale s).
    { destruct (dim s); [lia|]. simpl in A4. auto. }
    subst l. exists a. split; [reflexivity|]. split; [|exact HB].
    apply WF_with_len_anis; auto. intros L. destruct (W5 L) as (D & F & G). apply A3; auto. lia.
  Qed.

  Lemma set_angles_op_spec c s an s' : WF s -> set_angles_op O c s an = Ok s' ->
    exists a, s' = with_angles s a /\ WF s' /\ InB c s'.
  Proof.
    intros W. unfold set_angles_op. intros H. apply checked_ok in H as [-> HB].
    eexists; split; [reflexivity|]. split; auto.
    destruct W as (W1 & W2 & W3 & W4 & W5 & W6 & W7 & W8).
    unfold WF; simpl. repeat split; auto.
    - apply set_model_angles_length.
    - apply W5; auto.
    - apply W5; auto.
    - unfold set_model_angles. now rewrite H.
    - intros Ht. rewrite Ht. now apply set_model_angles_temporal.
  Qed.

  Lemma WF_with_var_raw s v : WF s -> WF (with_var_raw s v).
  Proof. unfold WF; simpl; auto. Qed.
  Lemma WF_with_nugget s v : WF s -> WF (with_nugget s v).
  Proof. unfold WF; simpl; auto. Qed.
  Lemma WF_with_opts s i v : WF s -> WF (with_opts s (aupd (opts s) i v)).
  Proof. unfold WF; simpl. rewrite aupd_length. auto. Qed.
  Lemma WF_set_rescale c s r : WF s -> WF (set_rescale O c s r).
  Proof. unfold WF, set_rescale; simpl. intuition. Qed.

  Lemma set_dim_spec c s d s' : WF s -> set_dim O c s d = Ok s' ->
    exists d' a ang, s' = with_dim s d' (len_scale s) a ang /\ WF s' /\ InB c s' /\
      d' = (if latlon s then dim s else d) /\
      a = set_anis O d' (anis s) /\ ang = set_model_angles O d' (angles s) (latlon s) (temporal s).
  Proof.
    intros W. unfold set_dim.
    set (d' := if latlon s then 3 + b2n (temporal s) else d).
    destruct (d' <? 1) eqn:E1; [discriminate|]. apply Nat.ltb_ge in E1.
    unfold bind.
    destruct (set_len_anis O d' [len_scale s] (anis s) false) as [[l a]|e] eqn:E; [|discriminate].
    simpl. intros H. apply checked_ok in H as [-> HB].
    destruct W as (W1 & W2 & W3 & W4 & W5 & W6 & W7 & W8).
    pose proof (set_len_anis_ok _ _ _ _ _ _ E1 E) as (A1 & A2 & A3 & A4).
    assert (l = len_scale s) by (destruct d'; [lia|]; simpl in A4; auto). subst l.
    assert (Ea : a = set_anis O d' (anis s)).
    { rewrite set_len_anis_scalar in E by auto.
      destruct (ratios_ok O (set_anis O d' (anis s))); inversion E; auto. }
    assert (Ed : d' = if latlon s then dim s else d).
    { subst d'. destruct (latlon s) eqn:L; auto. now destruct (W5 eq_refl) as (-> & _). }
    assert (WF' : WF (with_dim s d' (len_scale s) a (set_model_angles O d' (angles s) (latlon s) (temporal s)))).
    { unfold WF; simpl. split; [exact E1|]. split; [exact A1|]. split; [apply set_model_angles_length|].
      split; [exact A2|]. split; [|split; [|split; [exact W7|exact W8]]].
      - intros L. destruct (W5 L) as (D & F & G). split; [|split].
        + subst d'. rewrite L. reflexivity.
        + rewrite Ed, L in Ea. rewrite set_anis_id in Ea by auto. now subst a.
        + unfold set_model_angles. now rewrite L.
      - intros Ht. rewrite Ht. now apply set_model_angles_temporal. }
    exists d', a, (set_model_angles O d' (angles s) (latlon s) (temporal s)).
    split; [reflexivity|]. split; [exact WF'|]. split; [exact HB|]. auto.
  Qed.

  Lemma len_firstn1 d (x : T) : 1 <= d -> length (firstn d [x]) = 1.
  Proof. intros H. destruct d; [lia|]. simpl. now rewrite firstn_nil. Qed.

  Lemma set_int_scale_spec c s ls s' : WF s -> set_int_scale O c s ls = Ok s' ->
    exists l a, s' = with_len_anis s l a /\ (length (firstn (dim s) ls) = 1 -> a = anis s) /\ WF s' /\ InB c s'.
  Proof.
    intros W. unfold set_int_scale, bind.
    destruct (set_len O c s ls) as [s1|] eqn:E1; [|discriminate].
    destruct (set_len_spec _ _ _ _ W E1) as (l1 & a1 & -> & _ & F1 & W1 & _).
    destruct (set_len O c (with_len_anis s l1 a1) [n1 O]) as [s2|] eqn:E2; [|discriminate].
    destruct (set_len_spec _ _ _ _ W1 E2) as (l2 & a2 & -> & _ & F2 & W2 & _).
    destruct (int_scale O c _) as [tmp|]; [|discriminate].
    match goal with |- context [set_len O c ?st ?x] => destruct (set_len O c st x) as [s3|] eqn:E3; [|discriminate] end.
    destruct (set_len_spec _ _ _ _ W2 E3) as (l3 & a3 & -> & _ & F3 & W3 & B3).
    destruct (int_scale O c _) as [i3|]; [|discriminate].
    destruct (isclose3 O i3 _); [|discriminate].
    intros H; inversion H; subst s'; clear H.
    exists l3, a3. split; [reflexivity|]. split; [|split; [exact W3|exact B3]].
    intros L. assert (D1 : 1 <= dim s) by (destruct W; auto).
    simpl in F1, F2, F3. rewrite F3, F2, F1; auto using len_firstn1.
  Qed.

  (* ---------- bounds operations *)
  Lemma WF_with_bounds s bv bl bn ba bo : WF s -> length bo = length (b_opts s) ->
    WF (with_bounds s bv bl bn ba bo).
  Proof. unfold WF; simpl. intros W ->. exact W. Qed.

  Lemma WF_install a b s s1 : WF s -> install a b s = Ok s1 ->
    WF s1 /\ dim s1 = dim s /\ latlon s1 = latlon s /\ temporal s1 = temporal s /\ var_raw s1 = var_raw s /\
    len_scale s1 = len_scale s /\ anis s1 = anis s /\ angles s1 = angles s /\ nugget s1 = nugget s /\
    rescale s1 = rescale s /\ opts s1 = opts s.
  Proof.
    intros W. destruct a as [| | | |i]; simpl.
    1-4: intros H; inversion H; subst s1; clear H; (split; [now apply WF_with_bounds|simpl; repeat split; auto]).
    destruct (i <? length (b_opts s)); [|discriminate].
    intros H; inversion H; subst s1; clear H.
    split; [apply WF_with_bounds; auto; apply aupd_length|simpl; repeat split; auto].
  Qed.

  Lemma set_opt_spec c s i v s' : WF s -> set_opt O c s i v = Ok s' ->
    s' = with_opts s (aupd (opts s) i v) /\ WF s' /\ InB c s'.
  Proof.
    intros W. unfold set_opt. destruct (i <? length (opts s)); [|discriminate].
    intros H. apply checked_ok in H as [-> HB].
    split; [reflexivity|]. split; [now apply WF_with_opts|exact HB].
  Qed.

  Lemma reset_spec c a v s s' : WF s -> reset O c a v s = Ok s' ->
    WF s' /\ InB c s' /\ dim s' = dim s /\ latlon s' = latlon s /\ temporal s' = temporal s /\
    angles s' = angles s /\ rescale s' = rescale s.
  Proof.
    intros W. destruct a; simpl.
    - unfold set_var. intros H. apply checked_ok in H as [-> HB].
      split; [now apply WF_with_var_raw|]. split; [exact HB|]. simpl; repeat split; auto.
    - intros H. destruct (set_len_spec _ _ _ _ W H) as (l & a & -> & _ & _ & W' & B').
      split; [exact W'|]. split; [exact B'|]. simpl; repeat split; auto.
    - unfold set_nugget. intros H. apply checked_ok in H as [-> HB].
      split; [now apply WF_with_nugget|]. split; [exact HB|]. simpl; repeat split; auto.
    - intros H. destruct (set_anis_op_spec _ _ _ _ W H) as (a & -> & W' & B').
      split; [exact W'|]. split; [exact B'|]. simpl; repeat split; auto.
    - intros H. destruct (set_opt_spec _ _ _ _ _ W H) as (-> & W' & B').
      split; [exact W'|]. split; [exact B'|]. simpl; repeat split; auto.
  Qed.

  (* installing a bound for which the current value is fine keeps "all in bounds" *)
  Lemma InB_install c a b s s1 : WF s -> InB c s -> install a b s = Ok s1 ->
    err_case O b (value_of O c a s1) = 0 -> InB c s1.
  Proof.
    intros W HB HI HE. apply InB_iff. apply InB_iff in HB. destruct HB as (B0 & B1 & B2 & B3 & B4).
    destruct a; simpl in HI.
    1-4: inversion HI; subst s1; clear HI; unfold InB'; simpl in *; repeat split; auto.
    destruct (i <? length (b_opts s)) eqn:Ei; [|discriminate]. apply Nat.ltb_lt in Ei.
    inversion HI; subst s1; clear HI. unfold InB'; simpl in *. repeat split; auto.
    intros j H1 H2. rewrite aupd_length in H1.
    destruct (Nat.eq_dec i j) as [->|N].
    - rewrite nth_aupd_same by auto. exact HE.
    - rewrite nth_aupd_other by auto. apply B4; auto.
  Qed.

  Definition same_shape (s s' : State) : Prop :=
    dim s' = dim s /\ latlon s' = latlon s /\ temporal s' = temporal s /\ angles s' = angles s /\
    rescale s' = rescale s.
  Lemma same_shape_refl s : same_shape s s. Proof. unfold same_shape; auto. Qed.
  Lemma same_shape_trans a b c : same_shape a b -> same_shape b c -> same_shape a c.
  Proof. unfold same_shape; intuition congruence. Qed.

  Lemma install_checked_spec c chk a b s s' : WF s -> install_checked O c chk a b s = Ok s' ->
    WF s' /\ same_shape s s' /\ (chk = true -> InB c s -> InB c s').
  Proof.
    intros W. unfold install_checked, bind.
    destruct (install a b s) as [s1|] eqn:E; [|discriminate].
    destruct (WF_install _ _ _ _ W E) as (W1 & D1 & L1 & T1 & _ & _ & _ & A1 & _ & R1 & _).
    destruct (chk && negb (err_case O b (value_of O c a s1) =? 0)) eqn:EC.
    - intros H. destruct (reset_spec _ _ _ _ _ W1 H) as (W' & B' & D' & L' & T' & A' & R').
      split; [exact W'|]. split; [unfold same_shape; repeat split; congruence|]. auto.
    - intros H; inversion H; subst s'; clear H.
      split; [exact W1|]. split; [unfold same_shape; repeat split; congruence|].
      intros -> HB. simpl in EC. apply negb_false_iff, Nat.eqb_eq in EC.
      exact (InB_install c a b s s1 W HB E EC).
  Qed.

  Lemma sab_loop_spec c chk kws : forall s vb s' vb', WF s -> sab_loop O c chk kws s vb = Ok (s', vb') ->
    WF s' /\ same_shape s s' /\ (chk = true -> InB c s -> InB c s').
  Proof.
    induction kws as [|[a b] rest IH]; intros s vb s' vb' W; simpl.
    - intros H; inversion H; subst. split; [auto|]. split; [apply same_shape_refl|auto].
    - destruct (negb (valid_bnd O b)); [discriminate|].
      assert (G : forall s1, install_checked O c chk a b s = Ok s1 ->
                sab_loop O c chk rest s1 vb = Ok (s', vb') ->
                WF s' /\ same_shape s s' /\ (chk = true -> InB c s -> InB c s')).
      { intros s1 E1 E2. destruct (install_checked_spec _ _ _ _ _ _ W E1) as (W1 & S1 & B1).
        destruct (IH _ _ _ _ W1 E2) as (W2 & S2 & B2).
        split; [exact W2|]. split; [eapply same_shape_trans; eauto|auto]. }
      destruct a; try (unfold bind; destruct (install_checked O c chk _ b s) as [s1|] eqn:E1; [|discriminate]; intros E2; eapply G; eauto).
      intros H. eapply IH; eauto.
  Qed.

  Lemma set_arg_bounds_spec c chk kws s s' : WF s -> set_arg_bounds O c chk kws s = Ok s' ->
    WF s' /\ same_shape s s' /\ (chk = true -> InB c s -> InB c s').
  Proof.
    intros W. unfold set_arg_bounds, bind.
    destruct (sab_loop O c chk kws s None) as [[s1 vb]|] eqn:E; [|discriminate].
    destruct (sab_loop_spec _ _ _ _ _ _ _ W E) as (W1 & S1 & B1). simpl.
    destruct vb as [b|].
    - intros H. destruct (install_checked_spec _ _ _ _ _ _ W1 H) as (W2 & S2 & B2).
      split; [exact W2|]. split; [eapply same_shape_trans; eauto|auto].
    - intros H; inversion H; subst. auto.
  Qed.

  Lemma set_bounds_prop_spec a b s s' : WF s -> set_bounds_prop O a b s = Ok s' ->
    WF s' /\ exists bv bl bn ba, s' = with_bounds s bv bl bn ba (b_opts s).
  Proof.
    intros W. unfold set_bounds_prop.
    destruct a; try discriminate; (destruct (valid_bnd O b); [|discriminate]); intros H;
      (split; [eapply WF_install; eauto|]); simpl in H; inversion H; subst s'; eauto.
  Qed.

  (* ---------- one step keeps the invariant *)
  Theorem step_WF c s op s' : WF s -> step O c s op = Ok s' -> WF s'.
  Proof.
    intros W. destruct op; simpl.
    - unfold set_var. intros H. apply checked_ok in H as [-> _]. now apply WF_with_var_raw.
    - unfold set_var_raw. intros H. apply checked_ok in H as [-> _]. now apply WF_with_var_raw.
    - unfold set_nugget. intros H. apply checked_ok in H as [-> _]. now apply WF_with_nugget.
    - intros H. destruct (set_len_spec _ _ _ _ W H) as (? & ? & _ & _ & _ & W' & _); auto.
    - intros H. destruct (set_anis_op_spec _ _ _ _ W H) as (? & _ & W' & _); auto.
    - intros H. destruct (set_angles_op_spec _ _ _ _ W H) as (? & _ & W' & _); auto.
    - intros H; inversion H. now apply WF_set_rescale.
    - intros H. destruct (set_dim_spec _ _ _ _ W H) as (? & ? & ? & _ & W' & _); auto.
    - intros H. destruct (set_opt_spec _ _ _ _ _ W H) as (_ & W' & _); auto.
    - intros H. destruct (set_int_scale_spec _ _ _ _ W H) as (? & ? & _ & _ & W' & _); auto.
    - intros H. destruct (set_arg_bounds_spec _ _ _ _ _ W H) as (W' & _); auto.
    - intros H. destruct (set_bounds_prop_spec _ _ _ _ W H) as (W' & _); auto.
  Qed.

  (* value setters end with check_arg_bounds: afterwards every value is inside its bounds,
     whatever the state was before *)
  Definition value_setter (op : @Op T) : bool :=
    match op with
    | SetVar _ | SetVarRaw _ | SetNugget _ | SetLenScale _ | SetAnis _ | SetAngles _
    | SetDim _ | SetOpt _ _ | SetIntScale _ => true
    | _ => false
    end.

  Theorem value_setter_establishes_bounds c s op s' : WF s -> value_setter op = true ->
    step O c s op = Ok s' -> InB c s'.
  Proof.
    intros W V. destruct op; simpl in V; try discriminate; simpl.
    - unfold set_var. intros H. now apply checked_ok in H as [-> ?].
    - unfold set_var_raw. intros H. now apply checked_ok in H as [-> ?].
    - unfold set_nugget. intros H. now apply checked_ok in H as [-> ?].
    - intros H. destruct (set_len_spec _ _ _ _ W H) as (? & ? & _ & _ & _ & _ & B); auto.
    - intros H. destruct (set_anis_op_spec _ _ _ _ W H) as (? & _ & _ & B); auto.
    - intros H. destruct (set_angles_op_spec _ _ _ _ W H) as (? & _ & _ & B); auto.
    - intros H. destruct (set_dim_spec _ _ _ _ W H) as (? & ? & ? & _ & _ & B & _); auto.
    - intros H. destruct (set_opt_spec _ _ _ _ _ W H) as (_ & _ & B); auto.
    - intros H. destruct (set_int_scale_spec _ _ _ _ W H) as (? & ? & _ & _ & _ & B); auto.
  Qed.

  Lemma var_factor_rescale c s r : is_tpl c = false ->
    var_factor O c (set_rescale O c s r) = var_factor O c s.
  Proof. destruct c; simpl; intros; try discriminate; reflexivity. Qed.

  Theorem step_InB c s op s' : WF s -> InB c s -> keeps_in_bounds c op = true ->
    step O c s op = Ok s' -> InB c s'.
  Proof.
    intros W B K. destruct (value_setter op) eqn:V.
    { now apply value_setter_establishes_bounds. }
    destruct op; simpl in V, K; try discriminate; simpl.
    - intros H; inversion H; subst s'; clear H. apply negb_true_iff in K.
      unfold InB, check_all in *. unfold var_of in *. rewrite var_factor_rescale by auto. exact B.
    - destruct chk; [|discriminate]. intros H.
      destruct (set_arg_bounds_spec _ _ _ _ _ W H) as (_ & _ & B'); auto.
  Qed.

  (* ---------- histories *)
  Theorem run_WF c ops : forall s s', WF s -> run O c s ops = Ok s' -> WF s'.
  Proof.
    induction ops as [|op rest IH]; intros s s' W; simpl.
    - intros H; inversion H; subst; auto.
    - unfold bind. destruct (step O c s op) as [s1|] eqn:E; [|discriminate].
      intros H. eapply IH; [|exact H]. eapply step_WF; eauto.
  Qed.

  Theorem run_InB c ops : forall s s', WF s -> InB c s -> forallb (keeps_in_bounds c) ops = true ->
    run O c s ops = Ok s' -> InB c s'.
  Proof.
    induction ops as [|op rest IH]; intros s s' W B K; simpl.
    - intros H; inversion H; subst; auto.
    - simpl in K. apply andb_true_iff in K as [K1 K2].
      unfold bind. destruct (step O c s op) as [s1|] eqn:E; [|discriminate].
      intros H. eapply IH; [| |exact K2|exact H].
      + eapply step_WF; eauto.
      + eapply step_InB; eauto.
  Qed.

  (* ---------- construction *)
  Lemma checked_self c s : InB c s -> checked O c s = Ok s.
  Proof. unfold InB, checked. now intros ->. Qed.

  Lemma build_WF c a s : build O c a = Ok s -> WF s.
  Proof.
    unfold build. set (d := eff_dim a).
    destruct (d <? 1) eqn:E1; [discriminate|]. apply Nat.ltb_ge in E1.
    destruct (negb (length (a_opts a) =? length (a_bopts a))) eqn:E2; [discriminate|].
    apply negb_false_iff, Nat.eqb_eq in E2.
    unfold bind. destruct (set_len_anis O d (a_len a) (a_anis a) (a_latlon a)) as [[l an]|] eqn:E; [|discriminate].
    pose proof (set_len_anis_ok _ _ _ _ _ _ E1 E) as (A1 & A2 & A3 & A4).
    simpl fst; simpl snd. intros H. inversion H; subst s; clear H.
    assert (Dll : a_latlon a = true -> d = 3 + b2n (a_temporal a)).
    { intros L. subst d. unfold eff_dim. now rewrite L. }
    assert (G : forall v, WF (mkState d (a_latlon a) (a_temporal a) v l an
                (set_model_angles O d (a_angles a) (a_latlon a) (a_temporal a)) (a_nugget a)
                (nabs O (match a_rescale a with None => default_rescale O c | Some x => x end))
                (a_opts a) (a_bvar a) (a_blen a) (a_bnug a) (a_banis a) (a_bopts a))).
    { intros v. unfold WF; simpl. split; [exact E1|]. split; [exact A1|].
      split; [apply set_model_angles_length|]. split; [exact A2|].
      split; [|split; [|split; [exact E2|apply abs_idem]]].
      - intros L. split; [auto|]. split.
        + apply A3; auto. rewrite (Dll L). lia.
        + unfold set_model_angles. now rewrite L.
      - intros Ht. rewrite Ht. now apply set_model_angles_temporal. }
    destruct (a_var_is_raw a); [apply G|]. unfold with_var_raw; simpl. apply G.
  Qed.

  Theorem construct_WF_InB c a s : construct O c a = Ok s -> WF s /\ InB c s.
  Proof.
    unfold construct, bind. destruct (build O c a) as [s0|] eqn:E; [|discriminate].
    intros H. apply checked_ok in H as [-> HB]. split; auto. eapply build_WF; eauto.
  Qed.

  Lemma build_args_of c s : WF s -> build O c (args_of s) = Ok s.
  Proof.
    intros (W1 & W2 & W3 & W4 & W5 & W6 & W7 & W8).
    unfold build.
    assert (ED : eff_dim (args_of s) = dim s).
    { unfold eff_dim; simpl. destruct (latlon s) eqn:L; auto. now destruct (W5 eq_refl) as (-> & _). }
    rewrite ED. destruct (dim s <? 1) eqn:E1; [apply Nat.ltb_lt in E1; lia|].
    simpl a_opts; simpl a_bopts. rewrite W7, Nat.eqb_refl. simpl negb. cbv iota.
    simpl a_len; simpl a_anis; simpl a_latlon.
    rewrite set_len_anis_scalar_id; auto.
    2:{ intros L. now destruct (W5 L) as (_ & ? & _). }
    unfold bind. simpl fst; simpl snd. simpl a_var_is_raw. cbv iota.
    simpl a_angles; simpl a_temporal; simpl a_rescale.
    rewrite set_model_angles_id; auto.
    2:{ intros L. now destruct (W5 L) as (_ & _ & ?). }
    rewrite W8. destruct s; reflexivity.
  Qed.

  (* the canonical form: a well-formed state with every value inside its bounds IS the state
     that the constructor builds from the state's own values *)
  Theorem canonical c s : WF s -> InB c s -> construct O c (args_of s) = Ok s.
  Proof.
    intros W B. unfold construct. rewrite build_args_of by exact W. simpl. now apply checked_self.
  Qed.

  (* ---------- the constructor with integral_scale= is the constructor followed by the two
     assignments it performs (integral_scale, then var again), and its result is canonical *)
  Theorem construct_int_is_history c a ls :
    construct_int O c a ls =
    if a_var_is_raw a then s0 <- build O c a ;; run O c s0 [SetIntScale ls]
    else s0 <- construct O c a ;; run O c s0 [SetIntScale ls; SetVar (a_var a)].
  Proof.
    unfold construct_int, construct, bind. simpl.
    destruct (build O c a) as [s0|]; [|destruct (a_var_is_raw a); reflexivity].
    destruct (a_var_is_raw a).
    - unfold bind. destruct (set_int_scale O c s0 ls); reflexivity.
    - destruct (checked O c s0) as [s0'|]; [|reflexivity]. unfold bind.
      destruct (set_int_scale O c s0' ls) as [s1|]; [|reflexivity].
      destruct (set_var O c s1 (a_var a)); reflexivity.
  Qed.

  Theorem construct_int_canonical c a ls s :
    construct_int O c a ls = Ok s -> WF s /\ InB c s /\ construct O c (args_of s) = Ok s.
  Proof.
    unfold construct_int, bind. destruct (build O c a) as [s0|] eqn:E; [|discriminate].
    pose proof (build_WF _ _ _ E) as W0.
    assert (G : forall s, WF s -> InB c s -> WF s /\ InB c s /\ construct O c (args_of s) = Ok s).
    { intros s' W' B'. split; [exact W'|]. split; [exact B'|]. now apply canonical. }
    destruct (a_var_is_raw a).
    - intros H. destruct (set_int_scale_spec _ _ _ _ W0 H) as (? & ? & _ & _ & W & B). auto.
    - destruct (checked O c s0) as [s0'|] eqn:E0; [|discriminate]. apply checked_ok in E0 as [-> _].
      destruct (set_int_scale O c s0 ls) as [s1|] eqn:E1; [|discriminate].
      destruct (set_int_scale_spec _ _ _ _ W0 E1) as (? & ? & _ & _ & W1 & _).
      unfold set_var. intros H. apply checked_ok in H as [-> B]. apply G; [now apply WF_with_var_raw|exact B].
  Qed.

  Theorem reachable_canonical c a ops s0 s :
    construct O c a = Ok s0 -> run O c s0 ops = Ok s -> forallb (keeps_in_bounds c) ops = true ->
    construct O c (args_of s) = Ok s.
  Proof.
    intros HC HR HK. destruct (construct_WF_InB _ _ _ HC) as [W B].
    apply canonical; [eapply run_WF|eapply run_InB]; eauto.
  Qed.

  Theorem reachable_invariant c a ops s0 s :
    construct O c a = Ok s0 -> run O c s0 ops = Ok s ->
    WF s /\ (forallb (keeps_in_bounds c) ops = true -> InB c s).
  Proof.
    intros HC HR. destruct (construct_WF_InB _ _ _ HC) as [W B].
    split; [eapply run_WF; eauto|]. intros HK. eapply run_InB; eauto.
  Qed.

  (* after ANY history (unchecked bounds included) one successful value assignment makes the
     state canonical again *)
  Theorem reachable_then_checked_canonical c a ops op s0 s s' :
    construct O c a = Ok s0 -> run O c s0 ops = Ok s -> value_setter op = true ->
    step O c s op = Ok s' -> construct O c (args_of s') = Ok s'.
  Proof.
    intros HC HR HV HS. destruct (construct_WF_InB _ _ _ HC) as [W _].
    pose proof (run_WF _ _ _ _ W HR) as W1.
    apply canonical; [eapply step_WF|eapply value_setter_establishes_bounds]; eauto.
  Qed.

  (* ---------- histories that leave the bounds at the class defaults: the state equals the one
     the user-level constructor Cls(...) builds *)
  Definition default_bounded (c : Cls) (s : State) : Prop :=
    b_var s = b_pos O /\ b_len s = b_pos O /\ b_nug s = b_nonneg O /\ b_anis s = b_pos O /\
    b_opts s = default_opt_bounds O c (dim s).

  Definition dim_free_bounds (c : Cls) : bool :=
    match c with SuperSpherical | JBessel | TPLSimple => false | _ => true end.
  Lemma dim_free c d d' : dim_free_bounds c = true -> default_opt_bounds O c d = default_opt_bounds O c d'.
  Proof. destruct c; simpl; intros; try discriminate; reflexivity. Qed.

  (* operations of a "plain" history: no bounds operation; dimension changes only for classes
     whose default bounds do not depend on the dimension *)
  Definition plain_op (c : Cls) (op : @Op T) : bool :=
    match op with
    | SetArgBounds _ _ | SetBoundsProp _ _ => false
    | SetDim _ => dim_free_bounds c
    | SetRescale _ => negb (is_tpl c)
    | _ => true
    end.
  Lemma plain_keeps c op : plain_op c op = true -> keeps_in_bounds c op = true.
  Proof. destruct op; simpl; auto; discriminate. Qed.

  Lemma step_default_bounded c s op s' : WF s -> default_bounded c s -> plain_op c op = true ->
    step O c s op = Ok s' -> default_bounded c s'.
  Proof.
    intros W D P. destruct op; simpl in P; try discriminate; simpl.
    - unfold set_var. intros H. now apply checked_ok in H as [-> _].
    - unfold set_var_raw. intros H. now apply checked_ok in H as [-> _].
    - unfold set_nugget. intros H. now apply checked_ok in H as [-> _].
    - intros H. destruct (set_len_spec _ _ _ _ W H) as (? & ? & -> & _); auto.
    - intros H. destruct (set_anis_op_spec _ _ _ _ W H) as (? & -> & _); auto.
    - intros H. destruct (set_angles_op_spec _ _ _ _ W H) as (? & -> & _); auto.
    - intros H; inversion H; auto.
    - intros H. destruct (set_dim_spec _ _ _ _ W H) as (d' & ? & ? & -> & _).
      destruct D as (D1 & D2 & D3 & D4 & D5). unfold default_bounded; simpl. repeat split; auto.
      rewrite D5. now apply dim_free.
    - intros H. destruct (set_opt_spec _ _ _ _ _ W H) as (-> & _); auto.
    - intros H. destruct (set_int_scale_spec _ _ _ _ W H) as (? & ? & -> & _); auto.
  Qed.

  Lemma run_default_bounded c ops : forall s s', WF s -> default_bounded c s ->
    forallb (plain_op c) ops = true -> run O c s ops = Ok s' -> default_bounded c s'.
  Proof.
    induction ops as [|op rest IH]; intros s s' W D K; simpl.
    - intros H; inversion H; subst; auto.
    - simpl in K. apply andb_true_iff in K as [K1 K2].
      unfold bind. destruct (step O c s op) as [s1|] eqn:E; [|discriminate].
      intros H. eapply IH; [| |exact K2|exact H].
      + eapply step_WF; eauto.
      + eapply step_default_bounded; eauto.
  Qed.

  Lemma ctor_default_bounded c a s : ctor O c a = Ok s -> default_bounded c s.
  Proof.
    unfold ctor, construct, build.
    destruct (eff_dim (with_default_bounds O c a) <? 1); [discriminate|].
    destruct (negb _); [discriminate|]. unfold bind.
    destruct (set_len_anis O _ _ _ _) as [[l an]|]; [|discriminate].
    intros H. apply checked_ok in H as [-> _].
    destruct (a_var_is_raw (with_default_bounds O c a)); unfold default_bounded; simpl; repeat split; auto.
  Qed.

  Theorem reachable_equals_fresh c a ops s0 s :
    ctor O c a = Ok s0 -> run O c s0 ops = Ok s -> forallb (plain_op c) ops = true ->
    ctor O c (args_of s) = Ok s.
  Proof.
    intros HC HR HK. pose proof (ctor_default_bounded _ _ _ HC) as D0.
    unfold ctor in HC. destruct (construct_WF_InB _ _ _ HC) as [W B].
    pose proof (run_WF _ _ _ _ W HR) as W1.
    pose proof (run_default_bounded _ _ _ _ W D0 HK HR) as (D1 & D2 & D3 & D4 & D5).
    assert (K' : forallb (keeps_in_bounds c) ops = true).
    { clear -HK. induction ops; simpl in *; auto. apply andb_true_iff in HK as [? ?].
      rewrite plain_keeps by auto. auto. }
    pose proof (run_InB _ _ _ _ W B K' HR) as B1.
    unfold ctor.
    assert (E : with_default_bounds O c (args_of s) = args_of s).
    { assert (ED : eff_dim (args_of s) = dim s).
      { unfold eff_dim; simpl. destruct (latlon s) eqn:L; auto.
        destruct W1 as (_ & _ & _ & _ & W5 & _). now destruct (W5 L) as (-> & _). }
      unfold with_default_bounds. rewrite ED. unfold args_of; simpl. congruence. }
    rewrite E. now apply canonical.
  Qed.

  (* ---------- frame conditions: which fields an assignment may change *)
  Definition frame (c : Cls) (op : @Op T) (s s' : State) : Prop :=
    match op with
    | SetVar v => s' = with_var_raw s (ndiv O v (var_factor O c s))
    | SetVarRaw v => s' = with_var_raw s v
    | SetNugget v => s' = with_nugget s v
    | SetLenScale ls | SetIntScale ls =>
        exists l a, s' = with_len_anis s l a /\ (length (firstn (dim s) ls) = 1 -> a = anis s)
    | SetAnis _ => exists a, s' = with_len_anis s (len_scale s) a
    | SetAngles _ => exists a, s' = with_angles s a
    | SetRescale _ => exists r, s' = with_rescale s r
    | SetDim d => exists d', s' = with_dim s d' (len_scale s) (set_anis O d' (anis s))
                                  (set_model_angles O d' (angles s) (latlon s) (temporal s))
                             /\ d' = (if latlon s then dim s else d)
    | SetOpt i v => s' = with_opts s (aupd (opts s) i v)
    | SetArgBounds false _ | SetBoundsProp _ _ =>
        exists bv bl bn ba bo, s' = with_bounds s bv bl bn ba bo
    | SetArgBounds true _ => same_shape s s'
    end.

  Lemma install_with_bounds a (b : Bnd) (s s1 : State) : install a b s = Ok s1 ->
    exists bv bl bn ba bo, s1 = with_bounds s bv bl bn ba bo.
  Proof.
    destruct a as [| | | |i]; simpl.
    1-4: intros H; inversion H; eauto 10.
    destruct (i <? _); [|discriminate]. intros H; inversion H; eauto 10.
  Qed.
  Lemma with_bounds_id (s : State) : with_bounds s (b_var s) (b_len s) (b_nug s) (b_anis s) (b_opts s) = s.
  Proof. destruct s; reflexivity. Qed.

  Lemma sab_loop_unchecked c kws : forall s vb s' vb', sab_loop O c false kws s vb = Ok (s', vb') ->
    exists bv bl bn ba bo, s' = with_bounds s bv bl bn ba bo.
  Proof.
    induction kws as [|[a b] rest IH]; intros s vb s' vb'; simpl.
    - intros H; inversion H; subst. do 5 eexists. symmetry. apply with_bounds_id.
    - destruct (negb (valid_bnd O b)); [discriminate|].
      assert (G : forall s1, install a b s = Ok s1 -> sab_loop O c false rest s1 vb = Ok (s', vb') ->
                 exists bv bl bn ba bo, s' = with_bounds s bv bl bn ba bo).
      { intros s1 E1 E2. destruct (install_with_bounds _ _ _ _ E1) as (? & ? & ? & ? & ? & ->).
        destruct (IH _ _ _ _ E2) as (? & ? & ? & ? & ? & ->). unfold with_bounds; simpl. eauto 10. }
      destruct a; try (unfold install_checked, bind; simpl andb;
        match goal with |- context [install ?x b s] => destruct (install x b s) as [s1|] eqn:E1; [|discriminate] end;
        intros E2; eapply G; eauto).
      intros H. eapply IH; eauto.
  Qed.

  Theorem frame_step c s op s' : WF s -> step O c s op = Ok s' -> frame c op s s'.
  Proof.
    intros W. destruct op; simpl.
    - unfold set_var. intros H. now apply checked_ok in H as [-> _].
    - unfold set_var_raw. intros H. now apply checked_ok in H as [-> _].
    - unfold set_nugget. intros H. now apply checked_ok in H as [-> _].
    - intros H. destruct (set_len_spec _ _ _ _ W H) as (l & a' & -> & _ & F & _); eauto.
    - intros H. destruct (set_anis_op_spec _ _ _ _ W H) as (a' & -> & _); eauto.
    - intros H. destruct (set_angles_op_spec _ _ _ _ W H) as (a' & -> & _); eauto.
    - intros H; inversion H. unfold set_rescale; eauto.
    - intros H. destruct (set_dim_spec _ _ _ _ W H) as (d' & a' & ang & -> & _ & _ & Ed & -> & ->). eauto.
    - intros H. now destruct (set_opt_spec _ _ _ _ _ W H) as (-> & _).
    - intros H. destruct (set_int_scale_spec _ _ _ _ W H) as (l & a' & -> & F & _); eauto.
    - destruct chk.
      + intros H. now destruct (set_arg_bounds_spec _ _ _ _ _ W H) as (_ & S & _).
      + unfold set_arg_bounds, bind. destruct (sab_loop O c false kws s None) as [[s1 vb]|] eqn:E; [|discriminate].
        destruct (sab_loop_unchecked _ _ _ _ _ _ E) as (? & ? & ? & ? & ? & ->). simpl.
        destruct vb as [b|].
        * unfold install_checked, bind. simpl install. simpl andb. intros H; inversion H. unfold with_bounds; simpl. eauto 10.
        * intros H; inversion H. eauto 10.
    - intros H. destruct (set_bounds_prop_spec _ _ _ _ W H) as (_ & ? & ? & ? & ? & ->). eauto 10.
  Qed.

  (* ---------- out-of-bounds values are rejected *)
  Theorem nugget_out_of_bounds_rejected c s v :
    err_case O (b_nug s) [v] <> 0 -> exists e, set_nugget O c s v = Error e.
  Proof.
    intros H. unfold set_nugget. destruct (checked O c (with_nugget s v)) as [s'|e] eqn:E; eauto.
    apply checked_ok in E as [_ B]. apply InB_iff in B. destruct B as (_ & _ & B & _). simpl in B. contradiction.
  Qed.
  Theorem var_raw_out_of_bounds_rejected c s v :
    err_case O (b_var s) [nmul O v (var_factor O c s)] <> 0 -> exists e, set_var_raw O c s v = Error e.
  Proof.
    intros H. unfold set_var_raw. destruct (checked O c (with_var_raw s v)) as [s'|e] eqn:E; eauto.
    apply checked_ok in E as [_ B]. apply InB_iff in B. destruct B as (B & _).
    exfalso. apply H. clear H. revert B. unfold var_of. simpl.
    replace (var_factor O c (with_var_raw s v)) with (var_factor O c s) by (destruct c; reflexivity).
    auto.
  Qed.
  Theorem len_scale_out_of_bounds_rejected c s ls :
    err_case O (b_len s) [hd (n0 O) (firstn (dim s) ls)] <> 0 -> exists e, set_len O c s ls = Error e.
  Proof.
    intros H. unfold set_len, bind, set_len_anis.
    destruct (firstn (dim s) ls) as [|l0 rest]; eauto. simpl in H.
    match goal with |- context [ratios_ok O ?a] => destruct (ratios_ok O a) end; eauto. simpl.
    match goal with |- context [checked O c ?st] => destruct (checked O c st) as [s'|e] eqn:E end; eauto.
    apply checked_ok in E as [_ B]. apply InB_iff in B. destruct B as (_ & B & _). simpl in B. contradiction.
  Qed.
  Theorem opt_out_of_bounds_rejected c s i v : i < length (b_opts s) ->
    err_case O (nth i (b_opts s) (mkBnd None None true true)) [v] <> 0 -> exists e, set_opt O c s i v = Error e.
  Proof.
    intros Hi H. unfold set_opt. destruct (i <? length (opts s)) eqn:Ei; eauto. apply Nat.ltb_lt in Ei.
    destruct (checked O c _) as [s'|e] eqn:E; eauto.
    apply checked_ok in E as [_ B]. apply InB_iff in B. destruct B as (_ & _ & _ & _ & B). simpl in B.
    specialize (B i Hi). rewrite aupd_length in B. specialize (B Ei). rewrite nth_aupd_same in B by auto. contradiction.
  Qed.
  Theorem anis_out_of_bounds_rejected c s an s' :
    set_anis_op O c s an = Ok s' -> err_case O (b_anis s) (anis s') = 0.
  Proof.
    unfold set_anis_op, bind. destruct (set_len_anis O _ _ _ _) as [[l a]|]; [|discriminate]. simpl.
    intros H. apply checked_ok in H as [-> B]. apply InB_iff in B. now destruct B as (_ & _ & _ & B & _).
  Qed.

  (* ---------- derived quantities *)
  Theorem derived_consistent s : WF s ->
    field_dim s = spatial_dim s + b2n (temporal s) /\
    length (len_scale_vec O s) = dim s /\ length (anis s) = dim s - 1 /\ length (angles s) = noa (dim s) /\
    (latlon s = true -> field_dim s + 1 = dim s /\ spatial_dim s = 2).
  Proof.
    intros (W1 & W2 & W3 & W4 & W5 & W6 & W7 & W8).
    unfold field_dim, spatial_dim, len_scale_vec. simpl. rewrite map_length.
    destruct (latlon s) eqn:L.
    - destruct (W5 eq_refl) as (D & _). repeat split; auto; lia.
    - repeat split; auto; try lia; try discriminate. destruct (temporal s); simpl; lia.
  Qed.
  (* ---------- assigning a parameter its own current value is the identity (the setters'
     normalisations are idempotent on reachable states) *)
  Lemma aupd_nth_same {A} (l : list A) i d : aupd l i (nth i l d) = l.
  Proof. revert i; induction l as [|h t IH]; intros [|i]; simpl; auto. now rewrite IH. Qed.

  Theorem self_assignment_identity c s : WF s -> InB c s ->
    step O c s (SetVarRaw (var_raw s)) = Ok s /\ step O c s (SetNugget (nugget s)) = Ok s /\
    step O c s (SetLenScale [len_scale s]) = Ok s /\ step O c s (SetAnis (anis s)) = Ok s /\
    step O c s (SetAngles (angles s)) = Ok s /\ step O c s (SetDim (dim s)) = Ok s /\
    step O c s (SetRescale (Some (rescale s))) = Ok s /\
    (forall i, i < length (opts s) -> step O c s (SetOpt i (nth i (opts s) (n0 O))) = Ok s).
  Proof.
    intros W B. pose proof W as (W1 & W2 & W3 & W4 & W5 & W6 & W7 & W8).
    assert (Hf : latlon s = true -> firstn 2 (anis s) = [n1 O; n1 O]).
    { intros L. now destruct (W5 L) as (_ & ? & _). }
    assert (Hang : set_model_angles O (dim s) (angles s) (latlon s) (temporal s) = angles s).
    { apply set_model_angles_id; auto. intros L. now destruct (W5 L) as (_ & _ & ?). }
    assert (E1 : with_var_raw s (var_raw s) = s) by (destruct s; reflexivity).
    assert (E2 : with_nugget s (nugget s) = s) by (destruct s; reflexivity).
    assert (E3 : with_len_anis s (len_scale s) (anis s) = s) by (destruct s; reflexivity).
    assert (E4 : with_angles s (angles s) = s) by (destruct s; reflexivity).
    assert (E5 : with_dim s (dim s) (len_scale s) (anis s) (angles s) = s) by (destruct s; reflexivity).
    assert (E6 : with_rescale s (rescale s) = s) by (destruct s; reflexivity).
    assert (E7 : with_opts s (opts s) = s) by (destruct s; reflexivity).
    simpl. repeat split.
    - unfold set_var_raw. rewrite E1. now apply checked_self.
    - unfold set_nugget. rewrite E2. now apply checked_self.
    - unfold set_len, bind. rewrite set_len_anis_scalar_id by auto. simpl. rewrite E3. now apply checked_self.
    - unfold set_anis_op, bind. rewrite set_len_anis_scalar_id by auto. simpl. rewrite E3. now apply checked_self.
    - unfold set_angles_op. rewrite Hang, E4. now apply checked_self.
    - unfold set_dim.
      assert (Ed : (if latlon s then 3 + b2n (temporal s) else dim s) = dim s).
      { destruct (latlon s) eqn:L; auto. now destruct (W5 eq_refl) as (-> & _). }
      rewrite Ed. destruct (dim s <? 1) eqn:E; [apply Nat.ltb_lt in E; lia|].
      unfold bind. rewrite set_len_anis_scalar_id by (auto; discriminate). simpl.
      rewrite Hang, E5. now apply checked_self.
    - unfold set_rescale. rewrite W8, E6. reflexivity.
    - intros i Hi. unfold set_opt. apply Nat.ltb_lt in Hi. rewrite Hi.
      rewrite aupd_nth_same, E7. now apply checked_self.
  Qed.
End Proofs.
