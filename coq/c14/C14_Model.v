(* C14_Model.v — the parameter state of a GSTools covariance model as a state machine.

   Hand model of  /repo/src/gstools/covmodel/base.py  (CovModel.__init__ and every public
   setter), covmodel/tools.py (set_len_anis, set_model_angles, set_dim, check_bounds,
   check_arg_in_bounds, check_arg_bounds, default_arg_from_bounds, set_arg_bounds),
   tools/geometric.py (set_anis, set_angles, no_of_angles), covmodel/tpl_models.py
   (TPLCovModel.var_factor) and the per-class tables of covmodel/models.py, tpl_models.py
   (optional arguments, their default values and default bounds, default_rescale, closed-form
   integral scales).  Generic in the number type: proved about for every [NumOps T] (two stated
   laws where needed), executed at OCaml floats against the implementation (harness/c14.py).

   A raising assignment ends the history: the code assigns before it checks, so the model
   returns [Error] and no state; the object after a ValueError is not claimed. *)
From Coq Require Import List Arith Lia ZArith Bool.
From GS Require Import Num Loops.
Import ListNotations.

Inductive Cls := Gaussian | Exponential | Matern | Integral | Stable | Rational | Cubic | Linear
  | Circular | Spherical | HyperSpherical | SuperSpherical | JBessel
  | TPLGaussian | TPLExponential | TPLStable | TPLSimple.

(* where the code raises.  [EBounds arg case]: check_arg_bounds, arg = position in
   model.arg_bounds (0 var, 1 len_scale, 2 nugget, 3 anis, 4+i optional argument i),
   case = error_case of check_arg_in_bounds (1: < closed lower, 2: <= open lower,
   3: > closed upper, 4: >= open upper). *)
Inductive Err := EBounds (arg case : nat) | EAnis | EDim | EBadBounds | EIndex | EIntScale
  | EUnknownArg | EUnsupported.
Inductive Res (A : Type) := Ok (a : A) | Error (e : Err).
Arguments Ok {A}. Arguments Error {A}.
Definition bind {A B} (r : Res A) (f : A -> Res B) : Res B :=
  match r with Ok a => f a | Error e => Error e end.
Notation "x <- r ;; k" := (bind r (fun x => k)) (at level 61, r at next level, right associativity).

Definition b2n (b : bool) : nat := if b then 1 else 0.
(* geometric.no_of_angles *)
Definition noa (d : nat) : nat := (d * (d - 1)) / 2.

(* which bound is addressed by set_arg_bounds / the *_bounds properties *)
Inductive BArg := BVar | BLen | BNug | BAnis | BOpt (i : nat).

Section Model.
  Context {T : Type} (O : NumOps T).
  Let z0 := n0 O. Let o1 := n1 O.
  Definition two : T := nlit O 2 0.

  (* ---- bounds: [a, b, "cc"|"co"|"oc"|"oo"]; an infinite end is None *)
  Record Bnd := mkBnd { blo : option T; bhi : option T; blc : bool; bhc : bool }.

  (* tools.check_bounds (the length and the type string are valid by construction of Bnd) *)
  Definition valid_bnd (b : Bnd) : bool :=
    match blo b, bhi b with Some a, Some c => negb (nleb O c a) | _, _ => true end.

  (* tools.check_arg_in_bounds: error_case for the (array of) value(s); the upper test
     overwrites the lower one exactly as in the code.  The code tests the NEGATED membership
     (`not (val >= lo)` ...), so that a NaN is outside every interval; an infinite end is None here, where
     only a NaN fails the negated test (a value equal to the infinity itself is outside the modelled space) *)
  Definition err_case (b : Bnd) (vals : list T) : nat :=
    let anynan := existsb (nisnan O) vals in
    let e1 := match blo b with
              | None => if anynan then (if blc b then 1 else 2) else 0      (* not (nan >= -inf) *)
              | Some a => if blc b then (if existsb (fun v => negb (nleb O a v)) vals then 1 else 0)
                          else (if existsb (fun v => negb (nltb O a v)) vals then 2 else 0)
              end in
    match bhi b with
    | None => if anynan then (if bhc b then 3 else 4) else e1               (* not (nan < inf) *)
    | Some c => if bhc b then (if existsb (fun v => negb (nleb O v c)) vals then 3 else e1)
                else (if existsb (fun v => negb (nltb O v c)) vals then 4 else e1)
    end.

  (* tools.default_arg_from_bounds *)
  Definition default_from (b : Bnd) : T :=
    match blo b, bhi b with
    | Some a, Some c => ndiv O (nadd O a c) two
    | Some a, None => nadd O a o1
    | None, Some c => nsub O c o1
    | None, None => z0
    end.

  (* ---- geometric.set_anis / set_angles, tools.set_len_anis / set_model_angles *)
  Definition set_anis (d : nat) (a : list T) : list T :=
    let a' := firstn (d - 1) a in repeat o1 (d - 1 - length a') ++ a'.
  Definition set_angles (d : nat) (a : list T) : list T :=
    let a' := firstn (noa d) a in a' ++ repeat z0 (noa d - length a').
  (* out_anis[:2] = 1.0 *)
  Definition force2 (a : list T) : list T :=
    match a with
    | _ :: _ :: t => o1 :: o1 :: t
    | [_] => [o1]
    | [] => []
    end.
  (* np.pad(ls, (0, d - len), "edge") *)
  Definition pad_edge (d : nat) (ls : list T) : list T := ls ++ repeat (last ls z0) (d - length ls).
  Definition ratios_ok (a : list T) : bool := forallb (fun x => nltb O z0 x) a.

  Definition set_len_anis (d : nat) (ls anis : list T) (latlon : bool) : Res (T * list T) :=
    match firstn d ls with
    | [] => Error EIndex
    | l0 :: rest =>
      let a := match rest with
               | [] => set_anis d anis
               | _ => map (fun l => ndiv O l l0) (tl (pad_edge d (l0 :: rest)))
               end in
      if ratios_ok a then Ok (l0, if latlon then force2 a else a) else Error EAnis
    end.

  (* out_angles[k:] = 0.0 *)
  Definition zero_tail (k : nat) (a : list T) : list T := firstn k a ++ repeat z0 (length a - k).
  Definition set_model_angles (d : nat) (ang : list T) (latlon temporal : bool) : list T :=
    if latlon then repeat z0 (noa d)
    else let a := set_angles d ang in if temporal then zero_tail (noa (d - 1)) a else a.

  (* ---- the state: private fields of CovModel that carry parameters *)
  Record State := mkState {
    dim : nat; latlon : bool; temporal : bool;
    var_raw : T; len_scale : T; anis : list T; angles : list T; nugget : T; rescale : T;
    opts : list T;                       (* optional arguments, in the order of opt_arg_bounds *)
    b_var : Bnd; b_len : Bnd; b_nug : Bnd; b_anis : Bnd; b_opts : list Bnd }.

  Definition with_var_raw s v := mkState (dim s) (latlon s) (temporal s) v (len_scale s) (anis s) (angles s) (nugget s) (rescale s) (opts s) (b_var s) (b_len s) (b_nug s) (b_anis s) (b_opts s).
  Definition with_len_anis s l a := mkState (dim s) (latlon s) (temporal s) (var_raw s) l a (angles s) (nugget s) (rescale s) (opts s) (b_var s) (b_len s) (b_nug s) (b_anis s) (b_opts s).
  Definition with_angles s a := mkState (dim s) (latlon s) (temporal s) (var_raw s) (len_scale s) (anis s) a (nugget s) (rescale s) (opts s) (b_var s) (b_len s) (b_nug s) (b_anis s) (b_opts s).
  Definition with_nugget s v := mkState (dim s) (latlon s) (temporal s) (var_raw s) (len_scale s) (anis s) (angles s) v (rescale s) (opts s) (b_var s) (b_len s) (b_nug s) (b_anis s) (b_opts s).
  Definition with_rescale s v := mkState (dim s) (latlon s) (temporal s) (var_raw s) (len_scale s) (anis s) (angles s) (nugget s) v (opts s) (b_var s) (b_len s) (b_nug s) (b_anis s) (b_opts s).
  Definition with_opts s o := mkState (dim s) (latlon s) (temporal s) (var_raw s) (len_scale s) (anis s) (angles s) (nugget s) (rescale s) o (b_var s) (b_len s) (b_nug s) (b_anis s) (b_opts s).
  Definition with_dim s d l a ang := mkState d (latlon s) (temporal s) (var_raw s) l a ang (nugget s) (rescale s) (opts s) (b_var s) (b_len s) (b_nug s) (b_anis s) (b_opts s).
  Definition with_bounds s bv bl bn ba bo := mkState (dim s) (latlon s) (temporal s) (var_raw s) (len_scale s) (anis s) (angles s) (nugget s) (rescale s) (opts s) bv bl bn ba bo.

  (* ---- per-class tables *)
  Definition half (n : nat) : T := ndiv O (nofZ O (Z.of_nat n)) two.
  Definition fifty : T := nlit O 50 0.
  Definition cc a c := mkBnd (Some a) (Some c) true true.
  (* default_opt_arg(): values in the order of default_opt_arg_bounds() *)
  Definition default_opts (c : Cls) (d : nat) : list T :=
    match c with
    | Matern | Integral | Rational => [o1]
    | Stable => [nlit O 15 1]
    | SuperSpherical => [half (d - 1)]
    | JBessel => [half d]
    | TPLGaussian => [nlit O 5 1; z0]
    | TPLExponential => [nlit O 25 2; z0]
    | TPLStable => [nlit O 5 1; nlit O 15 1; z0]
    | TPLSimple => [half (d + 1)]
    | _ => []
    end.
  Definition b_hurst := mkBnd (Some (nlit O 1 1)) (Some o1) false false.
  Definition b_lenlow := mkBnd (Some z0) None true false.
  Definition default_opt_bounds (c : Cls) (d : nat) : list Bnd :=
    match c with
    | Matern => [cc (nlit O 2 1) (nlit O 30 0)]
    | Integral => [mkBnd (Some z0) (Some fifty) false true]
    | Stable => [mkBnd (Some z0) (Some two) false true]
    | Rational => [cc (nlit O 5 1) fifty]
    | SuperSpherical => [cc (half (d - 1)) fifty]
    | JBessel => [cc (nsub O (half d) o1) fifty]
    | TPLGaussian | TPLExponential => [b_hurst; b_lenlow]
    | TPLStable => [b_hurst; mkBnd (Some z0) (Some two) false true; b_lenlow]
    | TPLSimple => [cc (half (d + 1)) fifty]
    | _ => []
    end.
  (* default_arg_bounds(): var, len_scale, nugget, anis *)
  Definition b_pos := mkBnd (Some z0) None false false.
  Definition b_nonneg := mkBnd (Some z0) None true false.
  Definition default_rescale (c : Cls) : T :=
    match c with Gaussian => ndiv O (nsqrt O (npi O)) two | _ => o1 end.

  Definition opt (s : State) (i : nat) : T := nth i (opts s) z0.
  Definition len_rescaled (s : State) : T := ndiv O (len_scale s) (rescale s).
  (* TPLCovModel.var_factor *)
  Definition tplfac (s : State) (h low : T) : T :=
    let e := nmul O two h in
    ndiv O (nsub O (npow O (ndiv O (nadd O low (len_scale s)) (rescale s)) e)
                   (npow O (ndiv O low (rescale s)) e)) e.
  Definition var_factor (c : Cls) (s : State) : T :=
    match c with
    | TPLGaussian | TPLExponential => tplfac s (opt s 0) (opt s 1)
    | TPLStable => tplfac s (opt s 0) (opt s 2)
    | _ => o1
    end.
  Definition is_tpl (c : Cls) : bool :=
    match c with TPLGaussian | TPLExponential | TPLStable => true | _ => false end.
  Definition var_of (c : Cls) (s : State) : T := nmul O (var_raw s) (var_factor c s).
  Definition sill (c : Cls) (s : State) : T := nadd O (var_of c s) (nugget s).
  Definition len_scale_vec (s : State) : list T :=
    len_scale s :: map (fun a => nmul O (len_scale s) a) (anis s).
  Definition field_dim (s : State) : nat := if latlon s then 2 + b2n (temporal s) else dim s.
  Definition spatial_dim (s : State) : nat := if latlon s then 2 else dim s - b2n (temporal s).

  (* closed-form calc_integral_scale of the six classes that override it; the others integrate
     the correlation numerically (scipy quad) and are not modelled *)
  Definition int_scale (c : Cls) (s : State) : option T :=
    let lr := len_rescaled s in
    match c with
    | Gaussian => Some (ndiv O (nmul O lr (nsqrt O (npi O))) two)
    | Exponential => Some lr
    | Stable => Some (nmul O lr (noracle O ORA_GAMMA [nadd O o1 (ndiv O o1 (opt s 0))]))
    | Matern => Some (ndiv O (ndiv O (nmul O lr (npi O)) (nsqrt O (opt s 0)))
                            (noracle O ORA_BETA [opt s 0; nlit O 5 1]))
    | Integral => Some (ndiv O (nmul O (nmul O lr (opt s 0)) (nsqrt O (npi O)))
                              (nadd O (nmul O two (opt s 0)) two))
    | Rational => Some (ndiv O (ndiv O (nmul O (nmul O lr (nsqrt O (nmul O (npi O) (opt s 0))))
                                               (noracle O ORA_GAMMA [nsub O (opt s 0) (nlit O 5 1)]))
                                      (noracle O ORA_GAMMA [opt s 0])) two)
    | _ => None
    end.

  (* ---- tools.check_arg_bounds: var, len_scale, nugget, anis, optional arguments, in this order *)
  Definition chk1 (i : nat) (b : Bnd) (vals : list T) : option Err :=
    match err_case b vals with 0 => None | c => Some (EBounds i c) end.
  Fixpoint chk_opts (i : nat) (bs : list Bnd) (vs : list T) : option Err :=
    match bs, vs with
    | b :: bs', v :: vs' => match chk1 i b [v] with Some e => Some e | None => chk_opts (S i) bs' vs' end
    | _, _ => None
    end.
  Definition orelse (a b : option Err) : option Err := match a with Some e => Some e | None => b end.
  Definition check_all (c : Cls) (s : State) : option Err :=
    orelse (chk1 0 (b_var s) [var_of c s])
   (orelse (chk1 1 (b_len s) [len_scale s])
   (orelse (chk1 2 (b_nug s) [nugget s])
   (orelse (chk1 3 (b_anis s) (anis s))
           (chk_opts 4 (b_opts s) (opts s))))).
  Definition checked (c : Cls) (s : State) : Res State :=
    match check_all c s with None => Ok s | Some e => Error e end.

  (* ---- the setters *)
  Definition set_var c s v := checked c (with_var_raw s (ndiv O v (var_factor c s))).
  Definition set_var_raw c s v := checked c (with_var_raw s v).
  Definition set_nugget c s v := checked c (with_nugget s v).
  (* len_scale.setter after the repair: the result of set_len_anis is stored as it is *)
  Definition set_len c s ls :=
    r <- set_len_anis (dim s) ls (anis s) (latlon s) ;; checked c (with_len_anis s (fst r) (snd r)).
  (* len_scale.setter of the pinned tree: lat-lon models got every ratio reset to 1 *)
  Definition set_len_pinned c s ls :=
    r <- set_len_anis (dim s) ls (anis s) (latlon s) ;;
    checked c (with_len_anis s (fst r) (if latlon s then repeat o1 (dim s - 1) else snd r)).
  Definition set_anis_op c s a :=
    r <- set_len_anis (dim s) [len_scale s] a (latlon s) ;; checked c (with_len_anis s (fst r) (snd r)).
  Definition set_angles_op c s a :=
    checked c (with_angles s (set_model_angles (dim s) a (latlon s) (temporal s))).
  Definition set_rescale (c : Cls) s (r : option T) :=
    with_rescale s (nabs O (match r with None => default_rescale c | Some x => x end)).
  (* tools.set_dim (no shipped class fixes its dimension; check_dim only warns) *)
  Definition set_dim c s (d : nat) :=
    let d' := if latlon s then 3 + b2n (temporal s) else d in
    if d' <? 1 then Error EDim else
    r <- set_len_anis d' [len_scale s] (anis s) false ;;
    checked c (with_dim s d' (fst r) (snd r) (set_model_angles d' (angles s) (latlon s) (temporal s))).
  Definition set_opt c s (i : nat) v :=
    if i <? length (opts s) then checked c (with_opts s (aupd (opts s) i v)) else Error EUnknownArg.
  (* np.isclose(a, b, rtol=1e-3) *)
  Definition isclose3 (a b : T) : bool :=
    nleb O (nabs O (nsub O a b)) (nadd O (nlit O 1 8) (nmul O (nlit O 1 3) (nabs O b))).
  Definition set_int_scale c s ls :=
    s1 <- set_len c s ls ;;
    let target := len_scale s1 in
    s2 <- set_len c s1 [o1] ;;
    match int_scale c s2 with
    | None => Error EUnsupported
    | Some tmp =>
      s3 <- set_len c s2 [ndiv O target tmp] ;;
      match int_scale c s3 with
      | Some i3 => if isclose3 i3 target then Ok s3 else Error EIntScale
      | None => Error EUnsupported
      end
    end.

  (* ---- bounds *)
  Definition install (a : BArg) (b : Bnd) (s : State) : Res State :=
    match a with
    | BVar => Ok (with_bounds s b (b_len s) (b_nug s) (b_anis s) (b_opts s))
    | BLen => Ok (with_bounds s (b_var s) b (b_nug s) (b_anis s) (b_opts s))
    | BNug => Ok (with_bounds s (b_var s) (b_len s) b (b_anis s) (b_opts s))
    | BAnis => Ok (with_bounds s (b_var s) (b_len s) (b_nug s) b (b_opts s))
    | BOpt i => if i <? length (b_opts s)
                then Ok (with_bounds s (b_var s) (b_len s) (b_nug s) (b_anis s) (aupd (b_opts s) i b))
                else Error EUnknownArg
    end.
  Definition value_of (c : Cls) (a : BArg) (s : State) : list T :=
    match a with
    | BVar => [var_of c s] | BLen => [len_scale s] | BNug => [nugget s] | BAnis => anis s
    | BOpt i => [opt s i]
    end.
  (* setattr(model, arg, default) of set_arg_bounds *)
  Definition reset (c : Cls) (a : BArg) (v : T) (s : State) : Res State :=
    match a with
    | BVar => set_var c s v
    | BLen => set_len c s [v]
    | BNug => set_nugget c s v
    | BAnis => set_anis_op c s (repeat v (dim s - 1))
    | BOpt i => set_opt c s i v
    end.
  Definition install_checked (c : Cls) (chk : bool) (a : BArg) (b : Bnd) (s : State) : Res State :=
    s1 <- install a b s ;;
    if chk && negb (err_case b (value_of c a s1) =? 0) then reset c a (default_from b) s1 else Ok s1.
  (* tools.set_arg_bounds: keyword order, "var" postponed to the end *)
  Fixpoint sab_loop (c : Cls) (chk : bool) (kws : list (BArg * Bnd)) (s : State) (vb : option Bnd)
    : Res (State * option Bnd) :=
    match kws with
    | [] => Ok (s, vb)
    | (a, b) :: rest =>
      if negb (valid_bnd b) then Error EBadBounds else
      match a with
      | BVar => sab_loop c chk rest s (Some b)
      | _ => s1 <- install_checked c chk a b s ;; sab_loop c chk rest s1 vb
      end
    end.
  Definition set_arg_bounds (c : Cls) (chk : bool) (kws : list (BArg * Bnd)) (s : State) : Res State :=
    r <- sab_loop c chk kws s None ;;
    match snd r with
    | None => Ok (fst r)
    | Some b => install_checked c chk BVar b (fst r)
    end.
  (* var_bounds / len_scale_bounds / nugget_bounds / anis_bounds property setters: no value check *)
  Definition set_bounds_prop (a : BArg) (b : Bnd) (s : State) : Res State :=
    match a with
    | BOpt _ => Error EUnknownArg
    | _ => if valid_bnd b then install a b s else Error EBadBounds
    end.

  (* ---- operations = public assignments *)
  Inductive Op :=
  | SetVar (v : T) | SetVarRaw (v : T) | SetNugget (v : T)
  | SetLenScale (ls : list T) | SetAnis (a : list T) | SetAngles (a : list T)
  | SetRescale (r : option T) | SetDim (d : nat) | SetOpt (i : nat) (v : T)
  | SetIntScale (ls : list T)
  | SetArgBounds (chk : bool) (kws : list (BArg * Bnd))
  | SetBoundsProp (a : BArg) (b : Bnd).

  Definition step (c : Cls) (s : State) (op : Op) : Res State :=
    match op with
    | SetVar v => set_var c s v
    | SetVarRaw v => set_var_raw c s v
    | SetNugget v => set_nugget c s v
    | SetLenScale ls => set_len c s ls
    | SetAnis a => set_anis_op c s a
    | SetAngles a => set_angles_op c s a
    | SetRescale r => Ok (set_rescale c s r)
    | SetDim d => set_dim c s d
    | SetOpt i v => set_opt c s i v
    | SetIntScale ls => set_int_scale c s ls
    | SetArgBounds chk kws => set_arg_bounds c chk kws s
    | SetBoundsProp a b => set_bounds_prop a b s
    end.
  (* the pinned tree differs in the len_scale setter only (integral_scale goes through it too,
     which the model of the pinned behaviour does not need) *)
  Definition step_pinned (c : Cls) (s : State) (op : Op) : Res State :=
    match op with SetLenScale ls => set_len_pinned c s ls | _ => step c s op end.

  (* a history: stops at the first raising assignment *)
  Fixpoint run (c : Cls) (s : State) (ops : list Op) : Res State :=
    match ops with
    | [] => Ok s
    | op :: rest => s' <- step c s op ;; run c s' rest
    end.

  (* ---- construction: CovModel.__init__ with the bounds that default_arg_bounds() /
     default_opt_arg_bounds() provide passed explicitly (validity of these class constants is
     not re-checked; integral_scale=None, hankel_kw irrelevant here) *)
  Record Args := mkArgs {
    a_dim : nat; a_spatial_dim : option nat; a_latlon : bool; a_temporal : bool;
    a_var : T; a_var_is_raw : bool; a_len : list T; a_anis : list T; a_angles : list T;
    a_nugget : T; a_rescale : option T; a_opts : list T;
    a_bvar : Bnd; a_blen : Bnd; a_bnug : Bnd; a_banis : Bnd; a_bopts : list Bnd }.

  Definition eff_dim (a : Args) : nat :=
    let d := match a_spatial_dim a with Some sd => sd + b2n (a_temporal a) | None => a_dim a end in
    if a_latlon a then 3 + b2n (a_temporal a) else d.

  (* everything __init__ stores before the first check_arg_bounds; with var= (not var_raw=) the raw
     variance is var / var_factor of the values just stored *)
  Definition build (c : Cls) (a : Args) : Res State :=
    let d := eff_dim a in
    if d <? 1 then Error EDim else
    if negb (length (a_opts a) =? length (a_bopts a)) then Error EUnknownArg else
    r <- set_len_anis d (a_len a) (a_anis a) (a_latlon a) ;;
    let s0 := mkState d (a_latlon a) (a_temporal a) (a_var a) (fst r) (snd r)
                (set_model_angles d (a_angles a) (a_latlon a) (a_temporal a)) (a_nugget a)
                (nabs O (match a_rescale a with None => default_rescale c | Some x => x end))
                (a_opts a) (a_bvar a) (a_blen a) (a_bnug a) (a_banis a) (a_bopts a) in
    Ok (if a_var_is_raw a then s0 else with_var_raw s0 (ndiv O (a_var a) (var_factor c s0))).
  Definition construct (c : Cls) (a : Args) : Res State := s <- build c a ;; checked c s.

  (* __init__ with integral_scale=ls: `self.var = var` (checked) / `_var = var_raw` (unchecked), then the
     integral_scale setter, then the variance is assigned AGAIN (var_factor may depend on the new length
     scale), then the final check_arg_bounds *)
  Definition construct_int (c : Cls) (a : Args) (ls : list T) : Res State :=
    s0 <- build c a ;;
    if a_var_is_raw a then set_int_scale c s0 ls
    else s0' <- checked c s0 ;; s1 <- set_int_scale c s0' ls ;; set_var c s1 (a_var a).

  (* the arguments that describe a state: every value as it is stored *)
  Definition args_of (s : State) : Args :=
    mkArgs (dim s) None (latlon s) (temporal s) (var_raw s) true [len_scale s] (anis s) (angles s)
           (nugget s) (Some (rescale s)) (opts s) (b_var s) (b_len s) (b_nug s) (b_anis s) (b_opts s).

  (* Cls(dim=…, …): the constructor as the user calls it, bounds = class defaults at the
     effective dimension, optional arguments given or defaulted by the caller *)
  Definition with_default_bounds (c : Cls) (a : Args) : Args :=
    mkArgs (a_dim a) (a_spatial_dim a) (a_latlon a) (a_temporal a) (a_var a) (a_var_is_raw a)
           (a_len a) (a_anis a) (a_angles a) (a_nugget a) (a_rescale a) (a_opts a)
           b_pos b_pos b_nonneg b_pos (default_opt_bounds c (eff_dim a)).
  Definition ctor (c : Cls) (a : Args) : Res State := construct c (with_default_bounds c a).
  Definition ctor_int (c : Cls) (a : Args) (ls : list T) : Res State := construct_int c (with_default_bounds c a) ls.

  (* operations that never look at values (documented as unchecked in the code) *)
  Definition unchecked_bounds_op (op : Op) : bool :=
    match op with SetBoundsProp _ _ | SetArgBounds false _ => true | _ => false end.
  (* operations after which check_arg_bounds has not necessarily seen the current values:
     unchecked bounds installation; rescale on the truncated-power-law classes (their variance
     follows var_raw * var_factor(rescale, …) and the rescale setter does not re-check) *)
  Definition keeps_in_bounds (c : Cls) (op : Op) : bool :=
    match op with
    | SetBoundsProp _ _ | SetArgBounds false _ => false
    | SetRescale _ => negb (is_tpl c)
    | _ => true
    end.
End Model.

Arguments Ok {A}. Arguments Error {A}.
