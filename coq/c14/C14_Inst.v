(* C14_Inst.v — two instances of the number interface for the C14 model.
   Qops (rationals, computable): concrete witnesses by vm_compute — the defect of the pinned
   len_scale setter, the stale dimension-dependent default bounds after a dim assignment, and
   non-vacuity of the hypotheses of the general theorems.
   Rops (reals): the two laws the general theorems assume hold, and the statements that need
   field algebra (variance round trip, per-axis length scales determine the state). *)
From Coq Require Import List Arith Lia ZArith Bool QArith Qabs Reals Lra.
From GS Require Import Num Loops C14_Model C14_Proofs.
Import ListNotations.

(* ------------------------------------------------------------------ rationals *)
Definition Qid (x : Q) : Q := x.
Definition Qops : NumOps Q :=
  mkNumOps Q 0%Q 1%Q Qplus Qminus Qmult Qdiv Qopp Qabs Qid Qid Qid Qid Qid Qid Qid Qid
    (fun x _ => x) (fun x _ => x)
    (fun x y => negb (Qle_bool y x)) Qle_bool Qeq_bool (fun _ => false) inject_Z 3%Q (fun _ _ => 1%Q).

Lemma Qops_one_pos : nltb Qops (n0 Qops) (n1 Qops) = true.
Proof. reflexivity. Qed.
Lemma Qops_abs_idem : forall x, nabs Qops (nabs Qops x) = nabs Qops x.
Proof. intros [n d]; simpl. now rewrite Z.abs_involutive. Qed.

Definition qb_pos := b_pos Qops.
(* Gaussian(latlon=True, temporal=True, anis=[1, 1, 3]) *)
Definition q_args_latlon_t : @Args Q :=
  mkArgs 3 None true true 1%Q false [1%Q] [1%Q; 1%Q; 3%Q] [] 0%Q None []
         (b_pos Qops) (b_pos Qops) (b_nonneg Qops) (b_pos Qops) [].

(* pinned tree: m.len_scale = 2 turns anis [1,1,3] into [1,1,1] — the frame condition fails *)
Lemma pinned_len_scale_drops_temporal_ratio :
  exists s0 s1, ctor Qops Gaussian q_args_latlon_t = Ok s0 /\ anis s0 = [1%Q; 1%Q; 3%Q] /\
                step_pinned Qops Gaussian s0 (SetLenScale [2%Q]) = Ok s1 /\ anis s1 = [1%Q; 1%Q; 1%Q].
Proof. eexists; eexists. vm_compute. repeat split; reflexivity. Qed.
(* repaired tree, same history: the ratio stays *)
Lemma fixed_len_scale_keeps_temporal_ratio :
  exists s0 s1, ctor Qops Gaussian q_args_latlon_t = Ok s0 /\
                step Qops Gaussian s0 (SetLenScale [2%Q]) = Ok s1 /\ anis s1 = [1%Q; 1%Q; 3%Q].
Proof. eexists; eexists. vm_compute. repeat split; reflexivity. Qed.

(* SuperSpherical(dim=2); m.dim = 3: the bounds of nu stay those of dim 2, nu = 1/2 stays, and the
   constructor rejects the resulting values (nu < (3-1)/2) *)
Definition q_args_ss2 : @Args Q :=
  mkArgs 2 None false false 1%Q false [1%Q] [1%Q] [] 0%Q None (default_opts Qops SuperSpherical 2)
         (b_pos Qops) (b_pos Qops) (b_nonneg Qops) (b_pos Qops) [].
Lemma dim_assignment_keeps_stale_default_bounds :
  exists s0 s1, ctor Qops SuperSpherical q_args_ss2 = Ok s0 /\
                step Qops SuperSpherical s0 (SetDim 3) = Ok s1 /\
                ctor Qops SuperSpherical (args_of s1) = Error (EBounds 4 1).
Proof. eexists; eexists. vm_compute. repeat split; reflexivity. Qed.

(* non-vacuity: a history through every kind of operation that succeeds *)
Definition q_history : list (@Op Q) :=
  [ SetVar 2%Q; SetLenScale [2%Q; 3%Q; 4%Q]; SetAnis [(1#2)%Q]; SetAngles [1%Q; 2%Q];
    SetNugget (1#4)%Q; SetRescale (Some (-2)%Q); SetDim 2; SetDim 4; SetOpt 0 (7#4)%Q; SetVarRaw 3%Q;
    SetArgBounds true [(BNug, mkBnd (Some 1%Q) (Some 2%Q) true true); (BVar, mkBnd (Some 0%Q) (Some 2%Q) false false)];
    SetIntScale [5%Q] ].
Definition q_args_stable : @Args Q :=
  mkArgs 3 None false false 1%Q false [1%Q] [1%Q] [0%Q] 0%Q None (default_opts Qops Stable 3)
         (b_pos Qops) (b_pos Qops) (b_nonneg Qops) (b_pos Qops) [].
Lemma history_exists :
  exists s0 s, ctor Qops Stable q_args_stable = Ok s0 /\ run Qops Stable s0 q_history = Ok s /\
               forallb (keeps_in_bounds Stable) q_history = true /\
               (dim s = 4 /\ length (anis s) = 3 /\ length (angles s) = 6)%nat.
Proof. eexists; eexists. vm_compute. repeat split; reflexivity. Qed.
Lemma plain_history_exists :
  exists s0 s, ctor Qops Stable q_args_stable = Ok s0 /\ run Qops Stable s0 (firstn 10 q_history) = Ok s /\
               forallb (plain_op Stable) (firstn 10 q_history) = true.
Proof. eexists; eexists. vm_compute. repeat split; reflexivity. Qed.
(* an out-of-bounds value exists and is rejected with the code's error case *)
Lemma rejection_exists :
  exists s0, ctor Qops Stable q_args_stable = Ok s0 /\
             step Qops Stable s0 (SetNugget (-1)%Q) = Error (EBounds 2 1) /\
             step Qops Stable s0 (SetOpt 0 (5#2)%Q) = Error (EBounds 4 3) /\
             step Qops Stable s0 (SetLenScale [0%Q]) = Error (EBounds 1 2) /\
             step Qops Stable s0 (SetAnis [(-1)%Q]) = Error EAnis.
Proof. eexists. vm_compute. repeat split; reflexivity. Qed.

(* ------------------------------------------------------------------ reals *)
Open Scope R_scope.
Definition Rltb (x y : R) : bool := if Rlt_dec x y then true else false.
Definition Rleb (x y : R) : bool := if Rle_dec x y then true else false.
Definition Reqb (x y : R) : bool := if Req_EM_T x y then true else false.
Definition Rops_with (ora : nat -> list R -> R) : NumOps R :=
  mkNumOps R 0 1 Rplus Rminus Rmult Rdiv Ropp Rabs sqrt cos sin exp ln acos asin atan
    (fun y x => atan (y / x)) Rpower Rltb Rleb Reqb (fun _ => false) IZR PI ora.

Section AtR.
  Variable ora : nat -> list R -> R.   (* scipy gamma / beta: arbitrary *)
  Let RO := Rops_with ora.

  Lemma Rops_one_pos : nltb RO (n0 RO) (n1 RO) = true.
  Proof. simpl. unfold Rltb. destruct (Rlt_dec 0 1); auto. lra. Qed.
  Lemma Rops_abs_idem : forall x, nabs RO (nabs RO x) = nabs RO x.
  Proof. intros x; simpl. apply Rabs_Rabsolu. Qed.

  (* m.var = v; m.var == v  whenever the variance factor is not zero (it is 1 for the classes
     that are not truncated power laws) *)
  Theorem var_roundtrip c s v s' : var_factor RO c s <> 0 ->
    step RO c s (SetVar v) = Ok s' -> var_of RO c s' = v.
  Proof.
    intros Hf. simpl. unfold set_var. intros H. apply checked_ok in H as [-> _].
    unfold var_of. simpl.
    replace (var_factor RO c (with_var_raw s (v / var_factor RO c s))) with (var_factor RO c s)
      by (destruct c; reflexivity).
    field. exact Hf.
  Qed.
  Lemma var_factor_plain c s : is_tpl c = false -> var_factor RO c s = 1.
  Proof. destruct c; simpl; intros; try discriminate; reflexivity. Qed.

  (* the per-axis length scales determine main scale and ratios: assigning len_scale_vec back
     is the identity *)
  Lemma map_div_mul l (a : list R) : l <> 0 -> map (fun x => x / l) (map (fun x => l * x) a) = a.
  Proof. intros Hl. induction a as [|x t IH]; simpl; auto. rewrite IH. f_equal. field. exact Hl. Qed.

  Lemma sla_list d l0 r rest an ll : length (l0 :: r :: rest) = d ->
    set_len_anis RO d (l0 :: r :: rest) an ll =
    if ratios_ok RO (map (fun x => x / l0) (r :: rest))
    then Ok (l0, if ll then force2 RO (map (fun x => x / l0) (r :: rest)) else map (fun x => x / l0) (r :: rest))
    else Error EAnis.
  Proof.
    intros H. unfold set_len_anis. rewrite firstn_all2 by lia. unfold pad_edge.
    rewrite H, Nat.sub_diag. simpl repeat. rewrite app_nil_r. reflexivity.
  Qed.

  Theorem len_scale_vec_roundtrip c s : WF RO s -> InB RO c s -> len_scale s <> 0 ->
    step RO c s (SetLenScale (len_scale_vec RO s)) = Ok s.
  Proof.
    intros W B Hl. pose proof W as (W1 & W2 & W3 & W4 & W5 & W6 & W7 & W8).
    simpl. unfold set_len, bind.
    assert (E : set_len_anis RO (dim s) (len_scale_vec RO s) (anis s) (latlon s) = Ok (len_scale s, anis s)).
    { assert (Hf : forall L : latlon s = true, firstn 2 (anis s) = [n1 RO; n1 RO]).
      { intros L. now destruct (W5 L) as (_ & ? & _). }
      unfold len_scale_vec.
      destruct (anis s) as [|a0 at'] eqn:EA.
      - simpl map. apply set_len_anis_scalar_id; auto.
      - change (map (fun a => nmul RO (len_scale s) a) (a0 :: at'))
          with (len_scale s * a0 :: map (fun x => len_scale s * x) at').
        rewrite sla_list by (simpl in *; rewrite map_length; lia).
        change (len_scale s * a0 :: map (fun x => len_scale s * x) at')
          with (map (fun x => len_scale s * x) (a0 :: at')).
        rewrite map_div_mul by exact Hl. rewrite W4.
        destruct (latlon s) eqn:L; [rewrite force2_id by (apply Hf; reflexivity)|]; reflexivity. }
    rewrite E. simpl. unfold checked. unfold InB in B.
    replace (with_len_anis s (len_scale s) (anis s)) with s by (destruct s; reflexivity).
    now rewrite B.
  Qed.
End AtR.
