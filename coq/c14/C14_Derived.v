(* C14_Derived.v — hidden derived state of a CovModel: the Hankel transform object model._sft
   (hankel.SymmetricFourierTransform(ndim=model.dim, **hankel_kw)) that spectrum() / spectral_density()
   of the classes without an analytic spectral density use.  tools.set_dim creates it (constructor
   and every `dim` assignment); no other assignment touches it.  The state machine below carries its
   ndim next to the primary parameters; the theorem says that after EVERY history the derived
   component is the function of the present primary parameters that a fresh constructor call
   computes: sft_ndim = dim. *)
From Coq Require Import List Arith Lia ZArith Bool.
From GS Require Import Num Loops C14_Model C14_Proofs.
Import ListNotations.

Section Derived.
  Context {T : Type} (O : NumOps T).
  Hypothesis one_pos : nltb O (n0 O) (n1 O) = true.
  Hypothesis abs_idem : forall x, nabs O (nabs O x) = nabs O x.

  Record DState := mkD { prim : @State T; sft_ndim : nat }.

  (* __init__: self.dim = ... -> set_dim -> SFT(ndim=model.dim) *)
  Definition dconstruct (c : Cls) (a : Args) : Res DState :=
    s <- construct O c a ;; Ok (mkD s (dim s)).
  (* dim.setter -> set_dim: model._sft = SFT(ndim=model.dim, ...) ; every other setter leaves _sft alone *)
  Definition dstep (c : Cls) (d : DState) (op : Op) : Res DState :=
    s' <- step O c (prim d) op ;;
    Ok (mkD s' (match op with SetDim _ => dim s' | _ => sft_ndim d end)).
  Fixpoint drun (c : Cls) (d : DState) (ops : list Op) : Res DState :=
    match ops with
    | [] => Ok d
    | op :: rest => d' <- dstep c d op ;; drun c d' rest
    end.

  (* assignments other than `dim` never change the dimension *)
  Lemma step_keeps_dim c s op s' : WF O s -> step O c s op = Ok s' ->
    (forall d, op <> SetDim d) -> dim s' = dim s.
  Proof.
    intros W H N. pose proof (frame_step O one_pos c s op s' W H) as F.
    destruct op; simpl in F.
    - now subst s'.
    - now subst s'.
    - now subst s'.
    - destruct F as (? & ? & -> & _); reflexivity.
    - destruct F as (? & ->); reflexivity.
    - destruct F as (? & ->); reflexivity.
    - destruct F as (? & ->); reflexivity.
    - exfalso. eapply N; reflexivity.
    - now subst s'.
    - destruct F as (? & ? & -> & _); reflexivity.
    - destruct chk.
      + now destruct F as (F & _).
      + destruct F as (? & ? & ? & ? & ? & ->); reflexivity.
    - destruct F as (? & ? & ? & ? & ? & ->); reflexivity.
  Qed.

  Definition Coherent (d : DState) : Prop := WF O (prim d) /\ sft_ndim d = dim (prim d).

  Lemma dstep_coherent c d op d' : Coherent d -> dstep c d op = Ok d' -> Coherent d'.
  Proof.
    intros [W E]. unfold dstep, bind. destruct (step O c (prim d) op) as [s'|] eqn:H; [|discriminate].
    intros H'; inversion H'; subst d'; clear H'. split; simpl.
    - eapply step_WF; eauto.
    - destruct op; try reflexivity; rewrite E; symmetry; eapply step_keeps_dim; eauto; intros ? X; discriminate.
  Qed.

  Theorem hidden_state_coherent c a ops d0 d :
    dconstruct c a = Ok d0 -> drun c d0 ops = Ok d -> Coherent d.
  Proof.
    unfold dconstruct, bind. destruct (construct O c a) as [s0|] eqn:HC; [|discriminate].
    intros H; inversion H; subst d0; clear H.
    destruct (construct_WF_InB O one_pos abs_idem _ _ _ HC) as [W _].
    assert (C0 : Coherent (mkD s0 (dim s0))) by (split; auto).
    revert C0. generalize (mkD s0 (dim s0)). induction ops as [|op rest IH]; intros d1 C1; simpl.
    - intros H; inversion H; subst; auto.
    - unfold bind. destruct (dstep c d1 op) as [d2|] eqn:E; [|discriminate].
      intros H. eapply IH; [|exact H]. eapply dstep_coherent; eauto.
  Qed.

  (* the reached derived state is the one a fresh constructor call with the reached values computes *)
  Theorem hidden_state_equals_fresh c a ops d0 d :
    dconstruct c a = Ok d0 -> drun c d0 ops = Ok d -> forallb (keeps_in_bounds c) (ops) = true ->
    dconstruct c (args_of (prim d)) = Ok d.
  Proof.
    intros HC HR HK. destruct (hidden_state_coherent _ _ _ _ _ HC HR) as [W E].
    assert (R : exists s0, construct O c a = Ok s0 /\ run O c s0 ops = Ok (prim d)).
    { clear HK W E. unfold dconstruct, bind in HC. destruct (construct O c a) as [s0|]; [|discriminate].
      inversion HC; subst d0; clear HC. exists s0; split; auto.
      change s0 with (prim (mkD s0 (dim s0))). revert HR. generalize (mkD s0 (dim s0)).
      induction ops as [|op rest IH]; intros d1; simpl.
      - intros H; inversion H; reflexivity.
      - unfold dstep, bind. destruct (step O c (prim d1) op) as [s'|]; [|discriminate]. apply IH. }
    destruct R as (s0 & C0 & R0).
    unfold dconstruct. rewrite (reachable_canonical O one_pos abs_idem c a ops s0 (prim d) C0 R0 HK). simpl.
    rewrite <- E. destruct d; reflexivity.
  Qed.
End Derived.
