(* C14_Tie.v — the formula parts of the C14 hand model equal the definitions that tools/py2coq.py
   translates from /repo on every run (coq/gen/Formulas_gen.v).  All ties hold for every number type
   (syntactic equality after unfolding): no side condition.
   Attribute chain of tpl_models.py as the model spells it out:
     len_up = len_low + len_scale ; len_up_rescaled = len_up / rescale ; len_low_rescaled = len_low / rescale. *)
From Coq Require Import List ZArith.
From GS Require Import Num Loops Formulas Formulas_gen C14_Model.
Import ListNotations.

Section Tie.
  Context {T : Type} (O : NumOps T).

  Definition len_up_rescaled (s : @State T) (low : T) : T := ndiv O (nadd O low (len_scale s)) (rescale s).
  Definition len_low_rescaled (s : @State T) (low : T) : T := ndiv O low (rescale s).

  (* TPLCovModel.var_factor (tpl_models.py) *)
  Lemma tplfac_tie s h low :
    tplfac O s h low = TPL_var_factor O (len_up_rescaled s low) h (len_low_rescaled s low).
  Proof. reflexivity. Qed.

  Lemma var_factor_tie s :
    var_factor O TPLGaussian s = TPL_var_factor O (len_up_rescaled s (opt O s 1)) (opt O s 0) (len_low_rescaled s (opt O s 1)) /\
    var_factor O TPLExponential s = TPL_var_factor O (len_up_rescaled s (opt O s 1)) (opt O s 0) (len_low_rescaled s (opt O s 1)) /\
    var_factor O TPLStable s = TPL_var_factor O (len_up_rescaled s (opt O s 2)) (opt O s 0) (len_low_rescaled s (opt O s 2)).
  Proof. repeat split; reflexivity. Qed.

  (* Gaussian.default_rescale (models.py) *)
  Lemma default_rescale_tie : default_rescale O Gaussian = Gaussian_default_rescale O.
  Proof. reflexivity. Qed.

  (* calc_integral_scale of the six closed-form classes (models.py) *)
  Lemma int_scale_tie s :
    int_scale O Gaussian s = Some (Gaussian_calc_integral_scale O (len_rescaled O s)) /\
    int_scale O Exponential s = Some (Exponential_calc_integral_scale (len_rescaled O s)) /\
    int_scale O Stable s = Some (Stable_calc_integral_scale O (len_rescaled O s) (opt O s 0)) /\
    int_scale O Matern s = Some (Matern_calc_integral_scale O (len_rescaled O s) (opt O s 0)) /\
    int_scale O Integral s = Some (Integral_calc_integral_scale O (len_rescaled O s) (opt O s 0)) /\
    int_scale O Rational s = Some (Rational_calc_integral_scale O (len_rescaled O s) (opt O s 0)).
  Proof. repeat split; reflexivity. Qed.
End Tie.
