(* RInst.v — the real-number instance of NumOps: what the theorems "at R" are about.
   The external special functions are a parameter [ora] (instantiated from Section variables
   in the theorems that mention them).  NaN does not exist in R: nisnan is constantly false. *)
From Coq Require Import Reals ZArith List Lra Lia.
From GS Require Import Num.
Open Scope R_scope.

Definition Rltb (x y : R) : bool := if Rlt_dec x y then true else false.
Definition Rleb (x y : R) : bool := if Rle_dec x y then true else false.
Definition Reqb (x y : R) : bool := if Req_EM_T x y then true else false.

Lemma Rltb_true x y : Rltb x y = true <-> x < y.
Proof. unfold Rltb. destruct (Rlt_dec x y); split; auto; discriminate. Qed.
Lemma Rltb_false x y : Rltb x y = false <-> y <= x.
Proof. unfold Rltb. destruct (Rlt_dec x y); split; auto; try discriminate; lra. Qed.
Lemma Rleb_true x y : Rleb x y = true <-> x <= y.
Proof. unfold Rleb. destruct (Rle_dec x y); split; auto; discriminate. Qed.
Lemma Rleb_false x y : Rleb x y = false <-> y < x.
Proof. unfold Rleb. destruct (Rle_dec x y); split; auto; try discriminate; lra. Qed.
Lemma Reqb_true x y : Reqb x y = true <-> x = y.
Proof. unfold Reqb. destruct (Req_EM_T x y); split; auto; discriminate. Qed.

(* C's atan2 on the reals (principal value in (-pi, pi]) *)
Definition Ratan2 (y x : R) : R :=
  if Rlt_dec 0 x then atan (y / x)
  else if Rlt_dec x 0 then (if Rle_dec 0 y then atan (y / x) + PI else atan (y / x) - PI)
  else if Rlt_dec 0 y then PI / 2 else if Rlt_dec y 0 then - PI / 2 else 0.

(* C's pow on the reals: integer exponents by repeated multiplication (any base), others by exp/ln *)
Definition Rpow (x y : R) : R :=
  if Req_EM_T y (IZR (Int_part y)) then powerRZ x (Int_part y) else Rpower x y.

Lemma Int_part_IZR n : Int_part (IZR n) = n.
Proof.
  unfold Int_part. pose proof (archimed (IZR n)) as [H1 H2].
  assert (IZR (up (IZR n)) = IZR n + 1 -> up (IZR n) = (n + 1)%Z) as Hk.
  { intros E. apply eq_IZR. rewrite plus_IZR. exact E. }
  assert (up (IZR n) = (n + 1)%Z).
  { apply eq_IZR. rewrite plus_IZR. simpl.
    assert (Hlt : (n < up (IZR n))%Z) by (apply lt_IZR; lra).
    assert (Hle : (up (IZR n) <= n + 1)%Z).
    { apply le_IZR. rewrite plus_IZR. simpl. lra. }
    assert (up (IZR n) = (n + 1)%Z) by lia. rewrite H. rewrite plus_IZR. reflexivity. }
  lia.
Qed.
Lemma Rpow_IZR x n : Rpow x (IZR n) = powerRZ x n.
Proof. unfold Rpow. rewrite Int_part_IZR. destruct (Req_EM_T (IZR n) (IZR n)); [reflexivity|contradiction]. Qed.
Lemma Rpow_2 x : Rpow x 2 = x * x.
Proof. rewrite (Rpow_IZR x 2). simpl. ring. Qed.

Definition Rops (ora : nat -> list R -> R) : NumOps R := {|
  n0 := 0; n1 := 1;
  nadd := Rplus; nsub := Rminus; nmul := Rmult; ndiv := Rdiv;
  nneg := Ropp; nabs := Rabs; nsqrt := sqrt;
  ncos := cos; nsin := sin; nexp := exp; nln := ln;
  nacos := acos; nasin := asin; natan := atan; natan2 := Ratan2;
  npow := Rpow;
  nltb := Rltb; nleb := Rleb; neqb := Reqb;
  nisnan := fun _ => false;
  nofZ := IZR;
  npi := PI;
  noracle := ora
|}.
