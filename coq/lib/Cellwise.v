(* Cellwise.v — simulation of a loop on a big state by a loop on one cell, results of
   owner-writes loops from an arbitrary initial array, nested loops as folds over pair lists. *)
From Coq Require Import List Arith Lia Permutation ZArith.
From GS Require Import Num Loops.
Import ListNotations.

Lemma let_pair_id {A B} (p : A * B) : (let '(a, b) := p in (a, b)) = p.
Proof. now destruct p. Qed.

(* a relation between two loop states is preserved by running related bodies *)
Lemma for_sim {S C : Type} (R : S -> C -> Prop) lo hi (body : nat -> S -> S) (g : nat -> C -> C) s c :
  R s c -> (forall j s c, lo <= j < hi -> R s c -> R (body j s) (g j c)) ->
  R (for_ lo hi body s) (for_ lo hi g c).
Proof.
  unfold for_. intros H0 Hstep.
  assert (forall l, (forall j, In j l -> lo <= j < hi) -> forall s c, R s c ->
            R (fold_left (fun st i => body i st) l s) (fold_left (fun st i => g i st) l c)) as Hl.
  { induction l as [|a l IH]; intros Hin s0 c0 HR; simpl; auto.
    apply IH; [intros; apply Hin; right; auto|]. apply Hstep; auto. apply Hin; left; auto. }
  apply Hl; auto. intros j Hj. apply in_seq in Hj. lia.
Qed.

Lemma for_inv {S : Type} (P : S -> Prop) lo hi (body : nat -> S -> S) s :
  P s -> (forall j s, lo <= j < hi -> P s -> P (body j s)) -> P (for_ lo hi body s).
Proof.
  intros H0 Hs. apply (for_sim (fun s (_ : unit) => P s) lo hi body (fun _ u => u) s tt); auto.
Qed.

Lemma for_ext_inv {S : Type} (P : S -> Prop) lo hi (f g : nat -> S -> S) s :
  P s -> (forall j s, lo <= j < hi -> P s -> f j s = g j s /\ P (g j s)) -> for_ lo hi f s = for_ lo hi g s.
Proof.
  intros H0 Hs.
  enough (for_ lo hi f s = for_ lo hi g s /\ P (for_ lo hi g s)) by tauto.
  apply (for_sim (fun a b => a = b /\ P b) lo hi f g s s); auto.
  intros j a b Hj [-> Hb]. destruct (Hs j b Hj Hb). split; auto.
Qed.

(* the part of a nested loop that is a fold over the lexicographic list of pairs j<k *)
Definition pairs_from (n j : nat) : list (nat * nat) := map (fun k => (j, k)) (seq (j + 1) (n - (j + 1))).
Definition pairs (n : nat) : list (nat * nat) := flat_map (pairs_from n) (seq 0 (n - 1 - 0)).

Lemma fold_left_flat_map {A B S} (f : A -> list B) (h : S -> B -> S) l s :
  fold_left h (flat_map f l) s = fold_left (fun st a => fold_left h (f a) st) l s.
Proof. revert s; induction l as [|a l IH]; intros s; simpl; auto. now rewrite fold_left_app, IH. Qed.

Lemma fold_left_map {A B S} (f : A -> B) (h : S -> B -> S) l s :
  fold_left h (map f l) s = fold_left (fun st a => h st (f a)) l s.
Proof. revert s; induction l as [|a l IH]; intros s; simpl; auto. Qed.

Lemma nested_for_pairs {S} n (body : nat -> nat -> S -> S) s :
  for_ 0 (n - 1) (fun j st => for_ (j + 1) n (fun k st => body j k st) st) s
  = fold_left (fun st jk => body (fst jk) (snd jk) st) (pairs n) s.
Proof.
  unfold pairs, for_. rewrite fold_left_flat_map.
  apply fold_left_ext_in. intros j st _. unfold pairs_from. now rewrite fold_left_map.
Qed.

Lemma in_pairs n j k : In (j, k) (pairs n) <-> j < k < n.
Proof.
  unfold pairs. rewrite in_flat_map. split.
  - intros [x [Hx Hin]]. unfold pairs_from in Hin. apply in_map_iff in Hin. destruct Hin as [y [E Hy]].
    inversion E; subst. apply in_seq in Hx. apply in_seq in Hy. lia.
  - intros H. exists j. split; [apply in_seq; lia|]. unfold pairs_from. apply in_map_iff. exists k. split; auto.
    apply in_seq. lia.
Qed.


(* result of a sequential owner-writes loop over all cells of an arbitrary initial array *)
Section Results.
  Context {A : Type} (d : A).
  Theorem for_cells1_map (body : nat -> list A -> list A) f st : owner_writes (cells1 d) body f ->
    for_ 0 (length st) body st = map (fun i => f i (aget d st i)) (seq 0 (length st)).
  Proof.
    intros Hb. unfold for_. rewrite Nat.sub_0_r. set (n := length st).
    assert (Hin : forall i, In i (seq 0 n) -> i < length st).
    { intros k Hk. apply in_seq in Hk. unfold n in Hk. lia. }
    apply (list_ext d).
    - rewrite (owner1_length d body f) by auto. now rewrite map_length, seq_length.
    - intros i Hi. rewrite (owner1_length d body f) in Hi by auto.
      destruct (owner_fold (cells1 d) body f (seq 0 n) st Hb (seq_NoDup _ _)) as [H1 _].
      { intros k Hk. simpl. auto. }
      specialize (H1 i). simpl in H1. rewrite H1 by auto.
      destruct (in_dec Nat.eq_dec i (seq 0 n)) as [_|Hn].
      + rewrite aget_map_seq by auto. reflexivity.
      + exfalso; apply Hn, in_seq; unfold n; lia.
  Qed.
End Results.
