(* Formulas.v — helpers used by the formula functions translated by tools/py2coq.py *)
From Coq Require Import ZArith List Bool.
From GS Require Import Num Loops.
Import ListNotations.

Section F.
Context {T : Type} (O : NumOps T).
(* np.minimum / np.maximum for non-NaN arguments *)
Definition fmin (a b : T) : T := if nltb O b a then b else a.
Definition fmax (a b : T) : T := if nltb O a b then b else a.
(* np.isclose(a, b) with the default tolerances rtol = 1e-5, atol = 1e-8 *)
Definition fisclose (a b : T) : bool :=
  nleb O (nabs O (nsub O a b)) (nadd O (nlit O 1 8) (nmul O (nlit O 1 5) (nabs O b))).
(* np.sign *)
Definition fsign (a : T) : T := if nltb O (n0 O) a then n1 O else if nltb O a (n0 O) then nneg O (n1 O) else n0 O.
(* np.log1p / np.expm1: ln(1+x) and exp(x)-1 (exact over R; in floats the library functions are more accurate:
   the generated terms are used for proofs over R, the float correspondence runs the hand models) *)
Definition flog1p (a : T) : T := nln O (nadd O (n1 O) a).
Definition fexpm1 (a : T) : T := nsub O (nexp O a) (n1 O).
End F.
