(* Loops.v — arrays as lists, sequential and "parallel" loops, and the lemmas that carry
   the kernel refinement / schedule-independence proofs.  Everything here is generic in
   the element type: no algebraic law of numbers is used. *)
From Coq Require Import List Arith Lia Permutation ZArith.
From GS Require Import Num.
Import ListNotations.

(* ---------- literals *)
Definition nlit {T} (O : NumOps T) (p : Z) (k : nat) : T :=
  match k with
  | O => nofZ O p
  | _ => ndiv O (nofZ O p) (nofZ O (10 ^ Z.of_nat k)%Z)
  end.

(* ---------- arrays *)
Section Arr.
  Context {A : Type}.
  Definition aget (d : A) (a : list A) (i : nat) : A := nth i a d.
  Fixpoint aupd (a : list A) (i : nat) (v : A) : list A :=
    match a, i with
    | [], _ => []
    | _ :: t, O => v :: t
    | h :: t, S i' => h :: aupd t i' v
    end.
End Arr.
Section Arr2.
  Context {A : Type}.
  Definition shape0 (a : list (list A)) : nat := length a.
  Definition shape1 (a : list (list A)) : nat := length (nth 0 a []).
  Definition arow (a : list (list A)) (i : nat) : list A := nth i a [].
  Definition aget2 (d : A) (a : list (list A)) (i j : nat) : A := aget d (arow a i) j.
  Definition aupd2 (a : list (list A)) (i j : nat) (v : A) : list (list A) :=
    aupd a i (aupd (arow a i) j v).
  Definition acol (d : A) (a : list (list A)) (j : nat) : list A := map (fun r => aget d r j) a.
End Arr2.
Section ArrLemmas.
  Context {A : Type}.
  Lemma aupd_length (a : list A) i v : length (aupd a i v) = length a.
  Proof. revert i; induction a as [|h t IH]; intros [|i]; simpl; auto. Qed.
  Lemma aget_aupd_same (d : A) a i v : i < length a -> aget d (aupd a i v) i = v.
  Proof. unfold aget; revert i; induction a as [|h t IH]; intros [|i] H; simpl in *; try lia; auto. apply IH; lia. Qed.
  Lemma aget_aupd_other (d : A) a i j v : i <> j -> aget d (aupd a i v) j = aget d a j.
  Proof. unfold aget; revert i j; induction a as [|h t IH]; intros [|i] [|j] H; simpl; auto; try lia. Qed.
  Lemma aupd_aupd_same (a : list A) i v w : aupd (aupd a i v) i w = aupd a i w.
  Proof. revert i; induction a as [|h t IH]; intros [|i]; simpl; auto. now rewrite IH. Qed.
  Lemma aupd_comm (a : list A) i j v w : i <> j -> aupd (aupd a i v) j w = aupd (aupd a j w) i v.
  Proof. revert i j; induction a as [|h t IH]; intros [|i] [|j] H; simpl; auto; try lia. now rewrite IH by lia. Qed.
  Lemma aupd_same_id (d : A) a i : aupd a i (aget d a i) = a.
  Proof. unfold aget; revert i; induction a as [|h t IH]; intros [|i]; simpl; auto. now rewrite IH. Qed.
  Lemma aupd_oob (a : list A) i v : length a <= i -> aupd a i v = a.
  Proof. revert i; induction a as [|h t IH]; intros [|i] H; simpl in *; auto; try lia. rewrite IH by lia. reflexivity. Qed.

  Lemma list_ext (d : A) (a b : list A) : length a = length b ->
    (forall i, i < length a -> aget d a i = aget d b i) -> a = b.
  Proof.
    unfold aget. revert b; induction a as [|x a IH]; intros [|y b] H E; simpl in *; try lia; auto.
    f_equal. { apply (E 0); lia. } apply IH; [lia|]. intros i Hi. apply (E (S i)); lia.
  Qed.
  Lemma aget_repeat (d : A) n i : aget d (repeat d n) i = d.
  Proof. unfold aget. revert i; induction n; intros [|i]; simpl; auto. Qed.
  Lemma aget_map_seq (d : A) (f : nat -> A) n i : i < n -> aget d (map f (seq 0 n)) i = f i.
  Proof.
    intros H. unfold aget. rewrite nth_indep with (d' := f 0) by (now rewrite map_length, seq_length).
    rewrite map_nth, seq_nth by auto. reflexivity.
  Qed.
End ArrLemmas.

(* ---------- loops *)
Definition for_ {S : Type} (lo hi : nat) (body : nat -> S -> S) (s : S) : S :=
  fold_left (fun st i => body i st) (seq lo (hi - lo)) s.

(* a prange: the iterations lo..hi-1 are executed in the order chosen by the scheduler
   [sched] (the theorems quantify over every sched that permutes its argument) *)
Definition par_for {S : Type} (sched : list nat -> list nat) (lo hi : nat)
    (body : nat -> S -> S) (s : S) : S :=
  fold_left (fun st i => body i st) (sched (seq lo (hi - lo))) s.

Definition is_sched (sched : list nat -> list nat) : Prop := forall l, Permutation (sched l) l.
Lemma is_sched_id : is_sched (fun l => l).
Proof. intros l; apply Permutation_refl. Qed.
Lemma is_sched_rev : is_sched (@rev nat).
Proof. intros l; apply Permutation_sym, Permutation_rev. Qed.

Lemma par_for_id {S} lo hi (body : nat -> S -> S) s : par_for (fun l => l) lo hi body s = for_ lo hi body s.
Proof. reflexivity. Qed.

Lemma for_ext {S} lo hi (f g : nat -> S -> S) s :
  (forall i st, lo <= i < hi -> f i st = g i st) -> for_ lo hi f s = for_ lo hi g s.
Proof.
  unfold for_. intros H.
  assert (forall l, (forall i, In i l -> lo <= i < hi) -> forall s, fold_left (fun st i => f i st) l s = fold_left (fun st i => g i st) l s) as Hl.
  { induction l as [|a l IH]; intros Hin s0; simpl; auto. rewrite H by (apply Hin; left; auto). apply IH. intros; apply Hin; right; auto. }
  apply Hl. intros i Hi. apply in_seq in Hi. lia.
Qed.

Lemma fold_left_ext_in {S B} (f g : S -> B -> S) l s :
  (forall x st, In x l -> f st x = g st x) -> fold_left f l s = fold_left g l s.
Proof.
  revert s; induction l as [|a l IH]; intros s H; simpl; auto.
  rewrite H by (left; auto). apply IH. intros; apply H; right; auto.
Qed.

(* ---------- a general "cells" view of a loop state, for owner-writes reasoning.
   A state S has cells indexed by nat; [cget]/[cset] satisfy the usual laws on the valid
   index set [cvalid].  Works for a single array, for pairs of arrays, and for columns of
   2-D arrays alike. *)
Record Cells (S C : Type) := mkCells {
  cvalid : S -> nat -> Prop;
  cget : S -> nat -> C;
  cset : S -> nat -> C -> S;
  cvalid_set : forall s i j c, cvalid s j -> cvalid (cset s i c) j;
  cget_set_same : forall s i c, cvalid s i -> cget (cset s i c) i = c;
  cget_set_other : forall s i j c, i <> j -> cget (cset s i c) j = cget s j;
  cset_set_same : forall s i c c', cset (cset s i c) i c' = cset s i c';
  cset_comm : forall s i j c c', i <> j -> cset (cset s i c) j c' = cset (cset s j c') i c;
  cset_get_id : forall s i, cset s i (cget s i) = s
}.
Arguments cvalid {S C}. Arguments cget {S C}. Arguments cset {S C}.
Arguments cvalid_set {S C}. Arguments cget_set_same {S C}. Arguments cget_set_other {S C}.
Arguments cset_set_same {S C}. Arguments cset_comm {S C}. Arguments cset_get_id {S C}.

Section Owner.
  Context {S C : Type} (K : Cells S C).

  (* iteration i rewrites only cell i, as a function of cell i alone *)
  Definition owner_writes (body : nat -> S -> S) (f : nat -> C -> C) : Prop :=
    forall i st, cvalid K st i -> body i st = cset K st i (f i (cget K st i)).

  Lemma owner_fold body f (l : list nat) st :
    owner_writes body f -> NoDup l -> (forall i, In i l -> cvalid K st i) ->
    (forall i, cvalid K st i ->
      cget K (fold_left (fun s i => body i s) l st) i
      = if in_dec Nat.eq_dec i l then f i (cget K st i) else cget K st i)
    /\ (forall i, cvalid K st i -> cvalid K (fold_left (fun s i => body i s) l st) i).
  Proof.
    intros Hb. revert st. induction l as [|a l IH]; intros st ND Hl.
    - simpl. split; auto.
    - inversion ND as [|? ? Hnin ND']; subst. simpl.
      assert (Ha : cvalid K st a) by (apply Hl; left; auto).
      rewrite (Hb a st Ha).
      assert (Hl' : forall i, In i l -> cvalid K (cset K st a (f a (cget K st a))) i).
      { intros i Hi. apply cvalid_set. apply Hl; right; auto. }
      destruct (IH _ ND' Hl') as [IH1 IH2]. split.
      + intros i Hi. rewrite IH1 by (apply cvalid_set; auto).
        destruct (Nat.eq_dec a i) as [->|Hne].
        * destruct (in_dec Nat.eq_dec i l); [contradiction|]. now rewrite cget_set_same.
        * rewrite cget_set_other by auto. destruct (in_dec Nat.eq_dec i l); reflexivity.
      + intros i Hi. apply IH2. apply cvalid_set; auto.
  Qed.

  Lemma owner_step_comm body f i j st : owner_writes body f -> i <> j ->
    cvalid K st i -> cvalid K st j -> body j (body i st) = body i (body j st).
  Proof.
    intros H Hij Hi Hj. rewrite (H i st Hi), (H j st Hj).
    rewrite (H j) by (apply cvalid_set; auto). rewrite (H i) by (apply cvalid_set; auto).
    rewrite !cget_set_other by auto. apply cset_comm; auto.
  Qed.

  (* schedule independence: any two duplicate-free orders of the same index set agree *)
  Lemma owner_perm body f (o1 o2 : list nat) st : owner_writes body f -> NoDup o1 ->
    Permutation o1 o2 -> (forall i, In i o1 -> cvalid K st i) ->
    fold_left (fun s i => body i s) o1 st = fold_left (fun s i => body i s) o2 st.
  Proof.
    intros H ND P. revert st ND. induction P; intros st ND Hv; simpl; auto.
    - inversion ND; subst. apply IHP; auto. intros i Hi. rewrite (H x st) by (apply Hv; left; auto).
      apply cvalid_set. apply Hv; right; auto.
    - inversion ND as [|? ? Hin ND']; subst. assert (x <> y) by (intro; subst; apply Hin; left; auto).
      f_equal. apply owner_step_comm with (f:=f); auto; apply Hv; simpl; auto.
    - rewrite IHP1 by auto. apply IHP2. { eapply Permutation_NoDup; eauto. }
      intros i Hi. apply Hv. eapply Permutation_in; [apply Permutation_sym; eauto|auto].
  Qed.

  Lemma par_for_sched_indep sched lo hi body f st : is_sched sched -> owner_writes body f ->
    (forall i, lo <= i < hi -> cvalid K st i) ->
    par_for sched lo hi body st = for_ lo hi body st.
  Proof.
    intros Hs Hb Hv. unfold par_for, for_.
    apply owner_perm with (f := f); auto.
    - eapply Permutation_NoDup; [apply Permutation_sym, Hs | apply seq_NoDup].
    - intros i Hi. apply Hv. apply (Permutation_in _ (Hs _)) in Hi. apply in_seq in Hi. lia.
  Qed.
End Owner.

(* ---------- the three cell structures used by the kernels *)
Section CellInst.
  Context {A : Type} (d : A).
  Program Definition cells1 : Cells (list A) A :=
    {| cvalid := fun s i => i < length s; cget := fun s i => aget d s i; cset := fun s i c => aupd s i c |}.
  Next Obligation. now rewrite aupd_length. Qed.
  Next Obligation. now apply aget_aupd_same. Qed.
  Next Obligation. now apply aget_aupd_other. Qed.
  Next Obligation. apply aupd_aupd_same. Qed.
  Next Obligation. now apply aupd_comm. Qed.
  Next Obligation. apply aupd_same_id. Qed.
End CellInst.

Section CellPair.
  Context {A B : Type} (da : A) (db : B).
  (* two arrays updated in lock step: (variogram, counts), (field, error) *)
  Program Definition cells2 : Cells (list A * list B) (A * B) :=
    {| cvalid := fun s i => i < length (fst s) /\ i < length (snd s);
       cget := fun s i => (aget da (fst s) i, aget db (snd s) i);
       cset := fun s i c => (aupd (fst s) i (fst c), aupd (snd s) i (snd c)) |}.
  Next Obligation. simpl. now rewrite !aupd_length. Qed.
  Next Obligation. simpl. f_equal; now apply aget_aupd_same. Qed.
  Next Obligation. simpl. f_equal; now apply aget_aupd_other. Qed.
  Next Obligation. simpl. now rewrite !aupd_aupd_same. Qed.
  Next Obligation. simpl. f_equal; now apply aupd_comm. Qed.
  Next Obligation. simpl. now rewrite !aupd_same_id. Qed.
End CellPair.

(* a loop that keeps rewriting one cell = one rewrite with the folded value *)
Lemma for_cell_local {S C} (K : Cells S C) (g : nat -> C -> C) i lo hi st : cvalid K st i ->
  for_ lo hi (fun j s => cset K s i (g j (cget K s i))) st
  = cset K st i (for_ lo hi g (cget K st i)).
Proof.
  unfold for_. intros Hi. generalize (seq lo (hi - lo)) as l. intros l; revert st Hi.
  induction l as [|j l IH]; intros st Hi; simpl.
  - now rewrite cset_get_id.
  - rewrite IH by (apply cvalid_set; auto). rewrite cget_set_same by auto. apply cset_set_same.
Qed.

(* ---------- results of an owner-writes loop started from a constant array *)
Section Results.
  Context {A : Type} (d : A).
  Lemma owner1_length body f l (st : list A) : owner_writes (cells1 d) body f ->
    (forall i, In i l -> i < length st) ->
    length (fold_left (fun s i => body i s) l st) = length st.
  Proof.
    intros H Hv. revert st Hv; induction l as [|a l IH]; intros st Hv; simpl; auto.
    assert (E : body a st = aupd st a (f a (aget d st a))) by (apply (H a st); apply Hv; left; auto).
    rewrite IH; rewrite E; [apply aupd_length|].
    intros i Hi. simpl. rewrite aupd_length. apply Hv; right; auto.
  Qed.

  Theorem par_for_cells1_map sched n body f : is_sched sched -> owner_writes (cells1 d) body f ->
    par_for sched 0 n body (repeat d n) = map (fun i => f i d) (seq 0 n).
  Proof.
    intros Hs Hb. rewrite (par_for_sched_indep (cells1 d) sched 0 n body f _ Hs Hb)
      by (intros; simpl; rewrite repeat_length; lia).
    unfold for_. rewrite Nat.sub_0_r.
    assert (Hin : forall i, In i (seq 0 n) -> i < length (repeat d n)).
    { intros k Hk. rewrite repeat_length. apply in_seq in Hk. lia. }
    apply (list_ext d).
    - rewrite (owner1_length body f) by auto. now rewrite repeat_length, map_length, seq_length.
    - intros i Hi. rewrite (owner1_length body f), repeat_length in Hi by auto.
      destruct (owner_fold (cells1 d) body f (seq 0 n) (repeat d n) Hb (seq_NoDup _ _)) as [H1 _].
      { intros k Hk. simpl. rewrite repeat_length. apply in_seq in Hk. lia. }
      specialize (H1 i). simpl in H1. rewrite H1 by (now rewrite repeat_length).
      destruct (in_dec Nat.eq_dec i (seq 0 n)) as [_|Hn].
      + rewrite aget_repeat, aget_map_seq by auto. reflexivity.
      + exfalso; apply Hn, in_seq; lia.
  Qed.
End Results.

Section Results2.
  Context {A B : Type} (da : A) (db : B).
  Lemma owner2_length body f l (st : list A * list B) : owner_writes (cells2 da db) body f ->
    (forall i, In i l -> i < length (fst st) /\ i < length (snd st)) ->
    length (fst (fold_left (fun s i => body i s) l st)) = length (fst st) /\
    length (snd (fold_left (fun s i => body i s) l st)) = length (snd st).
  Proof.
    intros H Hv. revert st Hv; induction l as [|a l IH]; intros st Hv; simpl; auto.
    assert (E : body a st = cset (cells2 da db) st a (f a (cget (cells2 da db) st a)))
      by (apply (H a st); apply Hv; left; auto).
    destruct (IH (body a st)) as [I1 I2].
    { intros i Hi. rewrite E. simpl. rewrite !aupd_length. apply Hv; right; auto. }
    rewrite I1, I2, E. simpl. now rewrite !aupd_length.
  Qed.

  Theorem par_for_cells2_map sched n body f : is_sched sched -> owner_writes (cells2 da db) body f ->
    par_for sched 0 n body (repeat da n, repeat db n)
    = (map (fun i => fst (f i (da, db))) (seq 0 n), map (fun i => snd (f i (da, db))) (seq 0 n)).
  Proof.
    intros Hs Hb. rewrite (par_for_sched_indep (cells2 da db) sched 0 n body f _ Hs Hb)
      by (intros; simpl; rewrite !repeat_length; lia).
    unfold for_. rewrite Nat.sub_0_r.
    destruct (owner2_length body f (seq 0 n) (repeat da n, repeat db n) Hb) as [L1 L2].
    { intros k Hk. simpl. rewrite !repeat_length. apply in_seq in Hk. lia. }
    simpl in L1, L2.
    rewrite repeat_length in L1, L2.
    destruct (owner_fold (cells2 da db) body f (seq 0 n) (repeat da n, repeat db n) Hb (seq_NoDup _ _)) as [H1 _].
    { intros k Hk. simpl. rewrite !repeat_length. apply in_seq in Hk. lia. }
    set (r := fold_left (fun s i => body i s) (seq 0 n) (repeat da n, repeat db n)) in *.
    assert (E : forall i, i < n -> (aget da (fst r) i, aget db (snd r) i) = f i (da, db)).
    { intros i Hi. specialize (H1 i). simpl in H1. rewrite H1 by (rewrite !repeat_length; lia).
      destruct (in_dec Nat.eq_dec i (seq 0 n)) as [_|Hn]; [now rewrite !aget_repeat|].
      exfalso; apply Hn, in_seq; lia. }
    rewrite (surjective_pairing r). f_equal.
    - apply (list_ext da); [now rewrite L1, map_length, seq_length|].
      intros i Hi. rewrite L1 in Hi. rewrite aget_map_seq by auto. now rewrite <- (E i Hi).
    - apply (list_ext db); [now rewrite L2, map_length, seq_length|].
      intros i Hi. rewrite L2 in Hi. rewrite aget_map_seq by auto. now rewrite <- (E i Hi).
  Qed.
End Results2.
