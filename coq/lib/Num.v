(* Num.v — the number interface every numerical model is written against.
   One Gallina definition is (a) proved about at the real instance (RInst.v) or for
   every instance when the statement is structural, and (b) extracted and executed at
   OCaml floats (ocaml/proto.ml) for the correspondence with /repo. *)
From Coq Require Import ZArith List.
Import ListNotations.

Record NumOps (T : Type) := mkNumOps {
  n0 : T; n1 : T;
  nadd : T -> T -> T; nsub : T -> T -> T; nmul : T -> T -> T; ndiv : T -> T -> T;
  nneg : T -> T; nabs : T -> T; nsqrt : T -> T;
  ncos : T -> T; nsin : T -> T; nexp : T -> T; nln : T -> T;
  nacos : T -> T; nasin : T -> T; natan : T -> T; natan2 : T -> T -> T;
  npow : T -> T -> T;
  nltb : T -> T -> bool; nleb : T -> T -> bool; neqb : T -> T -> bool;
  nisnan : T -> bool;
  nofZ : Z -> T;
  npi : T;
  (* external special functions (scipy): code + arguments; opaque everywhere *)
  noracle : nat -> list T -> T
}.
Arguments n0 {T}. Arguments n1 {T}. Arguments nadd {T}. Arguments nsub {T}.
Arguments nmul {T}. Arguments ndiv {T}. Arguments nneg {T}. Arguments nabs {T}.
Arguments nsqrt {T}. Arguments ncos {T}. Arguments nsin {T}. Arguments nexp {T}.
Arguments nln {T}. Arguments nacos {T}. Arguments nasin {T}. Arguments natan {T}.
Arguments natan2 {T}. Arguments npow {T}. Arguments nltb {T}. Arguments nleb {T}.
Arguments neqb {T}. Arguments nisnan {T}. Arguments nofZ {T}. Arguments npi {T}.
Arguments noracle {T}.

(* oracle codes (shared with ocaml/proto.ml and harness/oracle.py) *)
Definition ORA_GAMMA := 0%nat.      (* scipy.special.gamma x *)
Definition ORA_KV := 1%nat.         (* kv nu x *)
Definition ORA_JV := 2%nat.         (* jv nu x *)
Definition ORA_HYP2F1 := 3%nat.     (* hyp2f1 a b c x *)
Definition ORA_EXPN := 4%nat.       (* gstools.tools.special.exp_int s x *)
Definition ORA_INCGAMMA := 5%nat.   (* gstools.tools.special.inc_gamma s x *)
Definition ORA_ERF := 6%nat.
Definition ORA_ERFINV := 7%nat.
Definition ORA_LOGGAMMA := 8%nat.
Definition ORA_INCGAMMA_LOW := 9%nat.
Definition ORA_ERFC := 10%nat.
Definition ORA_BETA := 11%nat.
Definition ORA_INCBETA := 12%nat.
Definition ORA_TPLGAU := 13%nat.    (* tplstable_cor-like helpers if needed *)

(* keeps nat and Z in every extraction so that proto.ml can convert them *)
Definition proto_anchor (n : nat) (z : Z) : Z := (Z.of_nat n + z)%Z.
