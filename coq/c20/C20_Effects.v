(* C20 — effect programs of the public GSTools entry points over the primitives of C20_Heap.

   Each entry point is a straight-line effect program selected by a FINITE configuration: a list of
   digits [c] (mixed radix [dims e]) saying, for every array argument, its layout class and, for
   every option that changes what happens to buffers, its setting.  [prog true] models the repaired
   code (current tree), [prog false] the pinned tree before the four `fix:` commits.

   layout classes of an array argument that goes through np.asarray(x, dtype=double).reshape(s):
     0  float64 ndarray whose reshape is a view   -> the result ALIASES the caller's buffer
     1  float64 ndarray whose reshape must copy   -> asarray aliases, reshape allocates
     2  anything else (other dtype, list, tuple)  -> asarray allocates
   Variables 0..9 are the array arguments, 10.. are temporaries.  Operation codes are only labels. *)
From Coq Require Import List Arith Lia Bool ZArith.
From GS Require Import C20_Heap.
Import ListNotations.

(* attributes *)
Definition A_POS := 0.   Definition A_FIELD := 1.  Definition A_A := 2.     Definition A_B := 3.
Definition A_CPOS := 4.  Definition A_CVAL := 5.   Definition A_CEXT := 6.  Definition A_CERR := 7.
Definition A_KPOS := 8.  Definition A_KMAT := 9.   Definition A_KVAR := 10. Definition A_MEANF := 11.
Definition C_FIELD := 20. Definition C_RAWF := 21. Definition C_RAWK := 22.
Definition C_X := 23.     Definition C_Y := 24.    Definition C_Z := 25.
Definition G_PERIOD := 30.
Definition M_ANIS := 40.  Definition M_ANGLES := 41.  Definition M_MEAN := 42.  Definition M_TREND := 43.
Definition C_REFEXT := 26.  Definition C_REFEXT_Z := 27.

Inductive entry :=
| EVario | EVarioAxis | EStdBins | EFieldCall | EPostField | EApplyMNT | ERemoveTNM | ETransform
| ESRFCall | EKrigeCond | EKrigeCall | ECondSRF | EFitVario | ENormalizer | EGenerator | EArrayFn | ECovModel | EGeoTool | EModelEval | EMeanTrend.

Definition entries : list entry :=
  [EVario; EVarioAxis; EStdBins; EFieldCall; EPostField; EApplyMNT; ERemoveTNM; ETransform;
   ESRFCall; EKrigeCond; EKrigeCall; ECondSRF; EFitVario; ENormalizer; EGenerator; EArrayFn; ECovModel; EGeoTool; EModelEval; EMeanTrend].

Definition entry_id (e : entry) : nat :=
  match e with
  | EVario => 0 | EVarioAxis => 1 | EStdBins => 2 | EFieldCall => 3 | EPostField => 4 | EApplyMNT => 5
  | ERemoveTNM => 6 | ETransform => 7 | ESRFCall => 8 | EKrigeCond => 9 | EKrigeCall => 10
  | ECondSRF => 11 | EFitVario => 12 | ENormalizer => 13 | EGenerator => 14 | EArrayFn => 15 | ECovModel => 16 | EGeoTool => 17 | EModelEval => 18 | EMeanTrend => 19
  end.

Definition entry_of_id (n : nat) : option entry := nth_error entries n.

(* ---- configuration spaces (meaning of each digit: see the program of the entry point) *)
Definition base_dims (e : entry) : list nat :=
  match e with
  | EVario      => [2; 3; 3; 2; 3; 2; 2; 2; 2; 2; 2; 2; 3]
      (* pos f64/other; field ndarray f64 / other / masked array; bin_edges none/f64/other; mask;
         direction none/f64/other; angles; latlon; geo_scale<>1; mean+trend+normalizer; no_data;
         sampling; structured mesh; numeric options default / cressie+bandwidth+angles_tol+bin_no+max_dist /
         degree scale+other bandwidth+bin_no *)
  | EVarioAxis  => [2; 3; 2; 2; 2]
      (* data f64/other; ndarray / masked array without mask / masked array with mask;
         missing values present; no_data given; axis x (reshape is a view) / y (reshape copies) *)
  | EStdBins    => [3; 2; 2; 2; 4]          (* pos layout; latlon; geo_scale; structured; none / bin_no / max_dist / both given *)
  | EFieldCall  => [3; 4; 2; 3; 2; 2; 4]
      (* pos layout; field none / layout 0,1,2; post_process; store True/"a"/False; mean+trend+normalizer;
         structured; history: none / earlier call same pos / earlier call other pos / earlier call and now
         called WITHOUT pos (the stored positions are used again) *)
  | EPostField  => [3; 2; 3; 2]             (* field layout; process; save field/"a"/no; mean+trend+normalizer *)
  | EApplyMNT   => [2; 3; 2; 2; 2; 2]       (* pos; field layout; check_shape; stacked; mean+trend+norm; structured *)
  | ERemoveTNM  => [2; 3; 2; 2; 2; 2]
  | ETransform  => [10; 2; 3; 2; 2; 3; 3]
      (* method binary,discrete,boxcox,zinnharvey,force_moments,lognormal,uniform,arcsin,uquad,function;
         process; store True/"b"/False; keep_mean; trend+normalizer set; numeric arguments default / two
         non-default sets (shift, lmbda=0, conn, bounds, explicit value and threshold ARRAYS, user kwargs);
         source field made by SRF / Krige / a caller array stored with post_process=False *)
  | ESRFCall    => [3; 3; 2; 2; 3; 2; 4; 4]
      (* generator RandMeth/VectorField/Fourier; pos layout; structured; post_process; store; mean+..;
         point_volumes none/f64 array/other array/non-zero scalar; history *)
  | EKrigeCond  => [3; 3; 3; 4; 2; 2; 2]
      (* cond_pos layout; cond_val layout; ext_drift none/f64/other; cond_err nugget/scalar/f64 array/other
         array; fit_variogram; mean+trend+normalizer; constructor / set_condition on an existing object *)
  | EKrigeCall  => [3; 2; 4; 2; 2; 2; 3; 2; 2; 4]
      (* pos layout; structured; ext_drift none / layout 0,1,2; only_mean; return_var; post_process;
         store True/["a","b"]/False; chunked; mean+trend+normalizer; history *)
  | ECondSRF    => [3; 2; 2; 3; 2; 2; 2; 4; 3]
      (* pos layout; structured; post_process; store True/["x","y","z"]/False; krige_store; mean+..;
         nugget>0; history none / same pos (reuse branch) / other pos / stored pos; ext_drift given with the call
         none / float64 / other (remembered by the object for the reuse test) *)
  | EFitVario   => [3; 3; 4; 2; 2; 2]       (* x layout; y layout; weights none/"inv"/f64/other; directional; latlon; r2 *)
  | ENormalizer => [7; 6; 2; 2; 2; 3]       (* class; method; data f64/other; NaN; out-of-range; parameters default / lmbda=0 / other *)
  | EGenerator  => [3; 2; 2; 2]             (* generator; pos f64/other; nugget; non-default mean_u / sampling / mode grid *)
  | EArrayFn    => [8; 2; 3]
  | ECovModel   => [6; 4; 5; 5; 4]
  | EGeoTool    => [16; 3; 3]
      (* public helpers of gstools.tools called directly: set_angles, set_anis, matrix_* / rotated_main_axes,
         generate_grid, generate_st_grid, format_struct_pos_dim, format_struct_pos_shape, format_unstruct_pos_shape,
         ang2dir, latlon2pos, pos2latlon, chordal_to_great_circle, great_circle_to_chordal, inc_gamma/exp_int/..,
         tplstable_cor, tpl_*_spec_dens; layout class of the array; options default / temporal with time_scale <> 1 and
         radius <> 1 / second non-default set *)
  | EModelEval  => [7; 4; 3]
  | EMeanTrend  => [2; 2; 3]
      (* Field/SRF/Krige constructor or attribute setter; mean / trend; float64 vector / other vector / scalar *)
      (* CovModel.isometrize, anisometrize, *_spatial, variogram/covariance/.., *_yadrenko, spectral functions, *_axis;
         model plain / temporal / latlon / latlon+temporal (time anisotropy <> 1); layout class of the array *)
      (* gstools.transform.array_discrete,boxcox,zinnharvey,force_moments,to_lognormal,to_uniform,to_arcsin,
         to_uquad; data f64/other; numeric arguments default / two non-default sets *)
  end.

(* every configuration ends with one more digit: how the float64 array arguments are held by the caller -
   0 arrays that own their data / 1 contiguous VIEWS (row of a 2-D array, ravel / reshape of an n-D array) /
   2 strided VIEWS (column of a table, slice with a step).  numpy collapses base chains, so a view of a view has
   the caller's buffer as base; the effect of every primitive is the same for the three kinds (the programs do
   not read this digit) and the sweep confirms that on the implementation. *)
Definition dims (e : entry) : list nat := base_dims e ++ [3].

Definition nargs (e : entry) : nat :=
  match e with
  | EVario => 7 | EVarioAxis => 2 | EStdBins => 1 | EFieldCall => 2 | EPostField => 1 | EApplyMNT => 2
  | ERemoveTNM => 2 | ETransform => 2 | ESRFCall => 2 | EKrigeCond => 4 | EKrigeCall => 2 | ECondSRF => 2
  | EFitVario => 3 | ENormalizer => 1 | EGenerator => 3 | EArrayFn => 3 | ECovModel => 3 | EGeoTool => 2 | EModelEval => 1 | EMeanTrend => 1
  end.

Definition nz (n : nat) : bool := negb (n =? 0).

(* attributes that exist before the call (results stored by the earlier history) *)
Definition pre_attrs (e : entry) (c : list nat) : list attr :=
  match e with
  | EFieldCall => if nz (dg c 6) then [A_POS; A_FIELD] else []
  | EPostField => [A_POS; A_FIELD]
  | ETransform => [A_POS; A_FIELD]
  | ESRFCall => if nz (dg c 7) then [A_POS; A_FIELD] else []
  | EKrigeCond => if nz (dg c 6) then [A_CPOS; A_CVAL; A_CEXT; A_KPOS; A_KMAT] else []
  | EKrigeCall => [A_CPOS; A_CVAL; A_CEXT; A_KPOS; A_KMAT]
                  ++ (if nz (dg c 9) then [A_POS; A_FIELD; A_KVAR] else [])
  | ECovModel => if nz (dg c 0) then [M_ANIS; M_ANGLES] else []
  | ECondSRF => [A_CPOS; A_CVAL; A_CEXT; A_KPOS; A_KMAT]
                ++ (if nz (dg c 7) then [A_POS; C_FIELD; C_RAWF; C_RAWK; A_FIELD; A_KVAR] else [])
                ++ (if nz (dg c 7) && nz (dg c 8) then [C_REFEXT] else [])
  | EMeanTrend => if nz (dg c 0) then [M_MEAN; M_TREND] else []
  | _ => []
  end.

(* attributes compared with the implementation after the call *)
Definition obs_attrs (e : entry) : list attr :=
  match e with
  | EFieldCall | EPostField | ESRFCall => [A_POS; A_FIELD; A_A]
  | ETransform => [A_FIELD; A_B]
  | EKrigeCond => [A_CPOS; A_CVAL; A_CEXT; A_CERR; A_KPOS; A_KMAT]
  | EKrigeCall => [A_POS; A_FIELD; A_KVAR; A_MEANF; A_A; A_B]
  | ECondSRF => [A_POS; C_FIELD; C_RAWF; C_RAWK; C_X; C_Y; C_Z; A_FIELD; A_KVAR; C_REFEXT; C_REFEXT_Z]
  | EMeanTrend => [M_MEAN; M_TREND]
  | EGenerator => [G_PERIOD]
  | ECovModel => [M_ANIS; M_ANGLES]
  | _ => []
  end.

(* ---- building blocks *)
Definition asarr (d s : var) (alias : bool) : list prim := if alias then [Alias d s] else [New d 1 [s]].
Definition conv (d s : var) (lay : nat) : list prim :=      (* np.asarray(..., double).reshape(...) *)
  match lay with
  | 0 => [Alias d s; Alias d d]
  | 1 => [Alias d s; New d 1 [d]]
  | _ => [New d 1 [s]; Alias d d]
  end.
Definition when {A} (b : bool) (p : list A) : list A := if b then p else [].

(* apply_mean_norm_trend / remove_trend_norm_mean on variable f (positions p):
   repaired: copy, +=, (de)normalize -> new, +=, row view;  pinned tree: no copy *)
Definition mnt (fx : bool) (f p : var) : list prim :=
  when fx [New f 2 [f]] ++ [Write f 3 [p]; New f 4 [f]; Write f 3 [p]; Alias f f].

(* Field.post_field: asarray/reshape view; process -> apply_mean_norm_trend; when saving unprocessed values
   a COPY is stored and returned (since /repo 73ede17; the pinned tree stored the view itself) *)
Definition post_field (fx : bool) (f : var) (name : option attr) (process : bool) : list prim :=
  [Alias f f] ++ when process (mnt fx f 10)
  ++ match name with Some a => when (fx && negb process) [New f 2 [f]] ++ [Store a f] | None => [] end.

Definition del_fields : list prim :=
  [Del A_FIELD; Del A_A; Del A_B; Del A_KVAR; Del A_MEANF].
Definition del_cfields : list prim :=
  [Del C_FIELD; Del C_RAWF; Del C_RAWK; Del C_X; Del C_Y; Del C_Z].

(* Field.set_pos + pre_pos: stores pos (variable 10), isometrized positions in variable 12.
   Since /repo 002fae9 the pos setter stores COPIES (np.array(...).reshape / np.array per axis): the stored
   positions never alias the caller's arrays, whatever their layout class [lay]. *)
Definition set_pos (lay : nat) (structured : bool) (hist : nat) (dels : list prim) : list prim :=
  (if hist =? 3 then [Load 10 A_POS]       (* call without pos: the stored positions are read again *)
   else [New 10 1 [0]; Alias 10 10; Store A_POS 10] ++ when (hist =? 2) dels)
  ++ (if structured then [New 11 5 [10]] else [Alias 11 10]) ++ [New 12 6 [11]].

Definition store_name (s : nat) (dflt custom : attr) : option attr :=
  match s with 0 => Some dflt | 1 => Some custom | _ => None end.

(* ---- the entry points *)
Definition p_vario (fx : bool) (c : list nat) : list prim :=
  let posf := dg c 0 =? 0 in let kind := dg c 1 in let be := dg c 2 in let mask := nz (dg c 3) in
  let dir := dg c 4 in let ang := nz (dg c 5) in let latlon := nz (dg c 6) in
  let nodata := nz (dg c 9) in let sampling := nz (dg c 10) in let structured := nz (dg c 11) in
  let ma := kind =? 2 in let masked := ma || mask in
  let dirno := nz dir || ang in
  when (nz be) (asarr 10 3 (be =? 1) ++ [Alias 10 10; New 11 2 [10]])
  ++ [New 12 1 (if ma then [1; 2] else [1])]                       (* np.ma.array(field, copy=True) *)
  ++ when ma [New 13 1 [2]]
  ++ when (negb masked) [Alias 12 12]                               (* filled() without mask *)
  ++ (if structured then [New 14 5 [0]] else asarr 14 0 posf ++ [Alias 14 14])
  ++ [Alias 12 12]                                                  (* reshape *)
  ++ when masked [New 15 7 (when mask [4] ++ when ma [13]); New 14 8 [14; 15]; New 12 8 [12; 15]]
  ++ when nodata [Write 12 9 [12]]                                  (* field[isclose(...)] = nan *)
  ++ (if nz dir then asarr 16 5 (dir =? 1) ++ [Alias 16 16] else when ang [New 16 10 [6]])
  ++ when dirno (if latlon then [Raise] else [New 17 11 [16]; New 16 12 [16; 17]])
  ++ when sampling [New 12 8 [12]; New 14 8 [14]]
  ++ when (be =? 0) [New 10 13 [14]; New 11 2 [10]]
  ++ when latlon (if fx then [New 10 14 [10]] else [Write 10 14 []])  (* bin_edges / geo_scale *)
  ++ mnt fx 12 14
  ++ [New 18 15 ([12; 10; 14] ++ when dirno [16]); New 19 15 [18]; Ret 11; Ret 18; Ret 19].

Definition p_vario_axis (fx : bool) (c : list nat) : list prim :=
  let f64 := dg c 0 =? 0 in let kind := dg c 1 in let missing := nz (dg c 2) in let vw := dg c 4 =? 0 in
  let hasm := kind =? 2 in let masked := hasm || missing in
  [New 10 1 ([0] ++ when hasm [1])]                                 (* missing_mask *)
  ++ (if masked then
        (if fx then [New 11 1 [0]] ++ when hasm [New 12 1 [1]]       (* np.ma.array(copy=True) *)
         else asarr 11 0 f64 ++ when hasm (asarr 12 1 f64))
        ++ when missing (if hasm then [Write 12 2 [10]] else [New 12 2 [10]])   (* field.mask = ... *)
        ++ [Alias 13 12; Alias 11 11; Alias 13 13]
        ++ (if vw then [Alias 11 11; Alias 13 13] else [New 11 3 [11]; New 13 3 [13]])
        ++ [New 14 4 [11; 13]; Ret 14]
      else
        asarr 11 0 f64 ++ [Alias 11 11; Alias 11 11]
        ++ (if vw then [Alias 11 11] else [New 11 3 [11]])
        ++ [New 14 4 [11]; Ret 14]).

Definition p_std_bins (c : list nat) : list prim :=
  if dg c 4 =? 3 then [New 11 1 []; Ret 11]
  else (if nz (dg c 3) then [New 10 5 [0]] else conv 10 0 (dg c 0))
       ++ when (nz (dg c 1)) [New 10 2 [10]] ++ [New 11 3 [10]; Ret 11].

Definition p_field_call (fx : bool) (c : list nat) : list prim :=
  let fld := dg c 1 in
  set_pos (dg c 0) (nz (dg c 5)) (dg c 6) del_fields
  ++ (if fld =? 0 then [New 13 1 []] else conv 13 1 (fld - 1))
  ++ post_field fx 13 (store_name (dg c 3) A_FIELD A_A) (nz (dg c 2))
  ++ [Ret 13].

Definition p_post_field (fx : bool) (c : list nat) : list prim :=
  [Load 10 A_POS] ++ conv 13 0 (dg c 0)
  ++ post_field fx 13 (store_name (dg c 2) A_FIELD A_A) (nz (dg c 1)) ++ [Ret 13].

Definition p_mnt_tool (fx : bool) (c : list nat) : list prim :=
  (if nz (dg c 2) then conv 10 1 (dg c 1) else [Alias 10 1])
  ++ when (negb (nz (dg c 3))) [Alias 10 10]
  ++ mnt fx 10 0 ++ [Ret 10].

(* transforms that refuse a field with trend/normalizer when process=False: binary without `divide`,
   discrete with thresholds="equal", zinnharvey, force_moments, uniform, arcsin, uquad *)
Definition needs_normal (m opt : nat) : bool :=
  match m with
  | 0 => negb (opt =? 1)
  | 1 => opt =? 2
  | 3 | 4 | 6 | 7 | 8 => true
  | _ => false
  end.

Definition p_transform (fx : bool) (c : list nat) : list prim :=
  let process := nz (dg c 1) in
  when (negb process && nz (dg c 4) && needs_normal (dg c 0) (dg c 5)) [Raise]
  ++ [Load 9 A_POS; Load 10 A_FIELD]
  ++ when process (mnt fx 10 9)
  ++ [New 10 5 ([10] ++ when ((dg c 0 =? 1) && nz (dg c 5)) [0] ++ when ((dg c 0 =? 1) && (dg c 5 =? 1)) [1])]
      (* the array function; discrete reads the caller's value / threshold arrays *)
  ++ when process (mnt fx 10 9)
  ++ [Alias 10 10] ++ match store_name (dg c 2) A_FIELD A_B with Some a => [Store a 10] | None => [] end
  ++ [Ret 10].

Definition p_srf_call (fx : bool) (c : list nat) : list prim :=
  set_pos (dg c 1) (nz (dg c 2)) (dg c 7) del_fields
  ++ [New 13 1 [12]; Alias 13 13]
  ++ match dg c 6 with
     | 0 => []
     | 3 => [Write 13 3 []]                                          (* scalar point volume *)
     | _ => [New 14 2 [1]] ++ (if dg c 0 =? 1 then [Raise] else [Write 13 3 [14]])
     end
      (* an array of point volumes cannot be reshaped to a vector field: ValueError *)
  ++ post_field fx 13 (store_name (dg c 4) A_FIELD A_A) (nz (dg c 3))
  ++ [Ret 13].

Definition p_krige_cond (c : list nat) : list prim :=
  let ext := dg c 2 in let err := dg c 3 in
  conv 10 1 (dg c 1) ++ conv 11 0 (dg c 0)
  ++ [New 12 1 [10]; New 11 2 [11; 12]; New 10 2 [10; 12]; Store A_CPOS 11; Store A_CVAL 10]
  ++ when (nz (dg c 4)) [New 13 3 [10]; Write 13 4 []; New 14 5 [11; 13]]
  ++ match err with
     | 2 | 3 => [New 15 1 [3]; Alias 15 15; Store A_CERR 15]   (* np.array copy since /repo 60e16ba *)
     | _ => [Del A_CERR]
     end
  ++ match ext with
     | 0 => [New 16 1 []]
     | 1 => [Alias 16 2; Alias 16 16; New 16 1 [16]]            (* asarray view, then .copy() since /repo 60e16ba *)
     | _ => [New 16 1 [2]; Alias 16 16; New 16 1 [16]]
     end ++ [Store A_CEXT 16]
  ++ [New 17 6 [11]; Store A_KPOS 17; New 18 7 [17; 16]; Write 18 8 []; New 19 9 [18]; Store A_KMAT 19].

Definition p_krige_call (fx : bool) (c : list nat) : list prim :=
  let ext := dg c 2 in let only_mean := nz (dg c 3) in let rv := nz (dg c 4) && negb only_mean in
  let pp := nz (dg c 5) in let st := dg c 6 in
  let name0 := store_name st (if only_mean then A_MEANF else A_FIELD) A_A in
  let name1 := store_name st A_KVAR A_B in
  set_pos (dg c 0) (nz (dg c 1)) (dg c 9) del_fields
  ++ [New 13 1 []] ++ when rv [New 14 1 []]
  ++ (if only_mean && (ext =? 0) then [Load 15 A_KMAT; Load 16 A_CVAL; Write 13 2 [15; 16]]
      else when (nz ext) (conv 17 1 (ext - 1))
           ++ [Load 15 A_KMAT; Load 16 A_CVAL; Load 18 A_KPOS;
               New 19 3 ([18; 12] ++ when (nz ext) [17]); Write 13 4 [15; 19; 16]]
           ++ when rv [Write 14 4 [15; 19; 16]])
  ++ [Alias 13 13] ++ post_field fx 13 name0 pp
  ++ when rv ([New 14 5 [14]; Alias 14 14] ++ post_field fx 14 name1 false)
  ++ [Ret 13] ++ when rv [Ret 14].

Definition p_cond_srf (fx : bool) (c : list nat) : list prim :=
  let pp := nz (dg c 2) in let st := dg c 3 in let kst := nz (dg c 4) in let hist := dg c 7 in
  let save := negb (st =? 2) in
  let n0 := if st =? 1 then C_X else C_FIELD in
  let n1 := if st =? 1 then C_Y else C_RAWF in
  let n2 := if st =? 1 then C_Z else C_RAWK in
  let reuse := ((hist =? 1) || (hist =? 3)) && negb (st =? 1) in
  let ext := nz (dg c 8) in
  set_pos (dg c 0) (nz (dg c 1)) hist (del_fields ++ del_cfields)
  ++ [New 13 1 [12]; Alias 13 13]                                    (* raw random field *)
  ++ when ext [New 24 1 [1]; Alias 24 24]                              (* np.array(ext_drift).reshape(-1): a copy *)
  ++ (if reuse then [Load 14 n2; Load 15 A_KVAR]
      else [New 14 2 []; New 15 2 []; Load 16 A_KMAT; Load 17 A_CVAL; Load 18 A_KPOS; New 19 3 ([18; 12] ++ when ext [1]);
            Write 14 4 [16; 19; 17]; Write 15 4 [16; 19; 17]; Alias 14 14]
           ++ post_field fx 14 None false
           ++ [New 15 5 [15]; Alias 15 15] ++ post_field fx 15 (if kst then Some A_KVAR else None) false)
  ++ [New 20 6 [15]] ++ when (nz (dg c 6)) [New 21 7 [15; 20]]         (* scaling, nugget *)
  ++ when (negb reuse) ([New 22 8 [14]] ++ post_field fx 22 (if kst then Some A_FIELD else None) pp)
  ++ when (negb reuse) (post_field fx 14 (if save then Some n2 else None) false
                        ++ when save (let a := if st =? 1 then C_REFEXT_Z else C_REFEXT in
                                      if ext then [Store a 24] else [Del a]))   (* _krige_ref remembers the drift *)
  ++ post_field fx 13 (if save then Some n1 else None) false
  ++ [New 23 9 ([14; 20; 13] ++ when (nz (dg c 6)) [21])]
  ++ post_field fx 23 (if save then Some n0 else None) pp
  ++ [Ret 23].

Definition p_fit_vario (c : list nat) : list prim :=
  let w := dg c 2 in let dirv := nz (dg c 3) in let latlon := nz (dg c 4) in
  conv 10 0 (dg c 0) ++ conv 11 1 (dg c 1)
  ++ when dirv [New 10 2 [10]]
  ++ when (dirv && latlon) [Raise]
  ++ when latlon [New 10 3 [10]]
  ++ match w with 0 => [] | 1 => [New 12 4 [10]] | _ => [New 12 4 [2]] end
  ++ [New 13 5 ([10; 11] ++ when (nz w) [12]); Ret 13].

Definition p_normalizer (c : list nat) : list prim :=
  let m := dg c 1 in
  [New 10 1 [0]] ++ when (m <? 3) [New 11 2 [0]]
  ++ [New 12 3 [0; 10]] ++ when (nz (dg c 4)) [Write 10 4 [12]; New 12 3 [12]]
  ++ (if m <? 3 then [New 13 5 [12]; Write 11 6 [13; 10]; Ret 11] else []).

Definition p_generator (c : list nat) : list prim :=
  when (dg c 0 =? 2) [New 14 1 [1]; Store G_PERIOD 14; New 15 2 [2; 14]]
  ++ asarr 10 0 (dg c 1 =? 0) ++ [New 11 3 [10]] ++ when (nz (dg c 2)) [New 12 4 []]
  ++ [New 13 5 ([11] ++ when (nz (dg c 2)) [12]); Ret 13].

Definition p_array_fn (c : list nat) : list prim :=
  asarr 10 0 (dg c 1 =? 0)
  ++ [New 11 1 ([10] ++ when ((dg c 0 =? 0) && nz (dg c 2)) [1] ++ when ((dg c 0 =? 0) && (dg c 2 =? 1)) [2]); Ret 11].

(* ---- CovModel construction and parameter setters (covmodel/base.py, covmodel/tools.py, tools/geometric.py).
   digits: operation 0 constructor / 1 angles= / 2 anis= / 3 len_scale= / 4 integral_scale= / 5 dim= ;
   model kind 0 plain / 1 temporal / 2 latlon / 3 latlon+temporal ;
   angles and anis argument: 0 scalar or absent / 1 float64 ndarray of exactly the needed length /
   2 float64 too short (padded) / 3 float64 too long (truncated) / 4 other dtype, list ;
   len_scale (integral_scale) argument: 0 scalar / 1 float64 ndarray, one entry per axis / 2 float64 ndarray with one
   entry / 3 list, one entry per axis.   Arguments: 0 angles, 1 anis, 2 len_scale. *)
Definition ovar (o : option var) : list var := match o with Some v => [v] | None => [] end.

(* set_anis: np.array(anis) (copy), slice view, np.pad if too short; result in 11 *)
Definition set_anis_p (src : option var) (short : bool) : list prim :=
  [New 11 1 (ovar src); Alias 11 11] ++ when short [New 11 2 [11]].

(* set_len_anis: np.array(len_scale) (copy); several length scales -> anis = ratios written into np.zeros,
   else set_anis(anis); latlon: out_anis[:2] = 1 in place; the model stores the result *)
Definition set_len_anis_p (ls : option var) (multi : bool) (anis_src : option var) (short latlon : bool) : list prim :=
  [New 10 1 (ovar ls); Alias 10 10]
  ++ (if multi then [New 11 3 []; Write 11 4 [10]] else set_anis_p anis_src short)
  ++ when latlon [Write 11 5 []] ++ [Store M_ANIS 11].

(* set_model_angles: latlon -> zeros; else set_angles = np.asarray (alias iff float64 ndarray), atleast_1d/slice
   views, np.pad ALWAYS (new array); temporal: out_angles[k:] = 0 in place on that new array *)
Definition set_angles_p (src : option var) (f64 latlon temporal : bool) : list prim :=
  (if latlon then [New 12 1 []]
   else match src with Some v => asarr 12 v f64 | None => [New 12 1 []] end
        ++ [Alias 12 12; New 12 2 [12]] ++ when temporal [Write 12 3 []])
  ++ [Store M_ANGLES 12].

Definition p_covmodel (c : list nat) : list prim :=
  let op := dg c 0 in let kind := dg c 1 in let ang := dg c 2 in let ani := dg c 3 in let ls := dg c 4 in
  let temporal := (kind =? 1) || (kind =? 3) in let latlon := 2 <=? kind in
  let angsrc := if nz ang then Some 0 else None in
  let ang64 := nz ang && (ang <? 4) in
  let anisrc := if nz ani then Some 1 else None in
  let anishort := (ani =? 0) || (ani =? 2) in
  let lssrc := if nz ls then Some 2 else None in
  let multi := (ls =? 1) || (ls =? 3) in
  match op with
  | 0 => set_len_anis_p lssrc multi anisrc anishort latlon ++ set_angles_p angsrc ang64 latlon temporal
  | 1 => set_angles_p angsrc ang64 latlon temporal
  | 2 => set_len_anis_p None false anisrc anishort latlon
  | 3 => [Load 13 M_ANIS] ++ set_len_anis_p lssrc multi (Some 13) false latlon
  | 4 => [Load 13 M_ANIS] ++ set_len_anis_p lssrc multi (Some 13) false latlon
         ++ [Load 13 M_ANIS] ++ set_len_anis_p None false (Some 13) false latlon
         ++ [Load 13 M_ANIS] ++ set_len_anis_p None false (Some 13) false latlon
  | _ => [Load 13 M_ANIS] ++ set_len_anis_p None false (Some 13) true false
         ++ [Load 14 M_ANGLES] ++ set_angles_p (Some 14) true latlon temporal
  end.

(* ---- helpers of gstools.tools called directly.  Argument 0: the array, argument 1: the time axis of
   generate_st_grid.  Results are new arrays except for the three format_* functions, which hand back
   (views of) the caller's arrays. *)
Definition p_geo_tool (c : list nat) : list prim :=
  let fn := dg c 0 in let lay := dg c 1 in let f64 := lay <? 2 in
  match fn with
  | 0 => asarr 10 0 f64 ++ [Alias 10 10; New 11 1 [10]; Ret 11]             (* set_angles: np.pad always *)
  | 1 => [New 10 1 [0]; Alias 10 10; Ret 10]                                  (* set_anis: np.array *)
  | 2 => asarr 10 0 f64 ++ [New 10 1 [10]; New 11 2 [10]; Ret 11]            (* rotation / stretching matrices *)
  | 3 => [New 11 1 [0]; Alias 11 11; Ret 11]                                  (* generate_grid *)
  | 4 => conv 12 1 0 ++ (if dg c 2 =? 1 then [New 10 1 [0]] else asarr 10 0 f64 ++ [Alias 10 10])
         ++ [New 11 2 [10; 12]; Ret 11]                                       (* generate_st_grid *)
  | 5 => conv 10 0 lay ++ [Ret 10]                                            (* format_struct_pos_dim *)
  | 6 => [New 12 1 [0]] ++ conv 10 0 lay ++ [Ret 10]                          (* format_struct_pos_shape *)
  | 7 => asarr 10 0 f64 ++ [Alias 10 10; Ret 10]                              (* format_unstruct_pos_shape *)
  | 8 => asarr 10 0 f64 ++ [Alias 10 10; New 11 1 [10]; Write 11 2 [10]; Ret 11]   (* ang2dir *)
  | 9 | 10 => conv 10 0 lay ++ [New 11 1 [10]; New 12 2 [11; 10]; Ret 12]     (* latlon2pos, pos2latlon *)
  | 11 | 12 => [New 11 1 [0]; Ret 11]                                         (* chordal <-> great circle *)
  | 13 => asarr 10 0 f64 ++ [New 10 1 [10]; New 11 2 [10]; Write 11 3 [10]; Ret 11]   (* inc_gamma, exp_int, .. *)
  | 14 => [New 10 1 [0]; Write 10 2 []; New 11 3 [10]; Write 11 4 [10]; Ret 11]       (* tplstable_cor *)
  | _ => asarr 10 0 f64 ++ [New 12 1 [10]; New 11 2 [12]; Write 11 3 [12]; Ret 11]    (* tpl_*_spec_dens *)
  end.

(* ---- evaluation methods of a CovModel on caller arrays: np.asarray(...).reshape(...) views, new results *)
Definition p_model_eval (c : list nat) : list prim :=
  conv 10 0 (dg c 2) ++ [New 11 1 [10]; New 12 2 [11]; Ret 12].

(* ---- mean / trend given to a Field, SRF or Krige (constructor or attribute setter): _set_mean_trend keeps a
   COPY of a vector value (since /repo 9c5b77f), a scalar is stored as a float *)
Definition p_mean_trend (c : list nat) : list prim :=
  let a := if dg c 1 =? 0 then M_MEAN else M_TREND in
  if dg c 2 =? 2 then [Del a] else [New 10 1 [0]; Alias 10 10; Store a 10].

Definition prog (fx : bool) (e : entry) (c : list nat) : list prim :=
  match e with
  | EVario => p_vario fx c
  | EVarioAxis => p_vario_axis fx c
  | EStdBins => p_std_bins c
  | EFieldCall => p_field_call fx c
  | EPostField => p_post_field fx c
  | EApplyMNT | ERemoveTNM => p_mnt_tool fx c
  | ETransform => p_transform fx c
  | ESRFCall => p_srf_call fx c
  | EKrigeCond => p_krige_cond c
  | EKrigeCall => p_krige_call fx c
  | ECondSRF => p_cond_srf fx c
  | EFitVario => p_fit_vario c
  | ENormalizer => p_normalizer c
  | EGenerator => p_generator c
  | EArrayFn => p_array_fn c
  | ECovModel => p_covmodel c
  | EGeoTool => p_geo_tool c
  | EModelEval => p_model_eval c
  | EMeanTrend => p_mean_trend c
  end.

(* the effect program is selected by the base digits only; the trailing view digit is dropped explicitly *)
Definition base_cfg (e : entry) (c : list nat) : list nat := firstn (length (base_dims e)) c.
Definition program (e : entry) (c : list nat) : list prim := prog true e (base_cfg e c).       (* the code as it is now *)
Definition old_program (e : entry) (c : list nat) : list prim := prog false e (base_cfg e c).  (* the pinned tree *)

(* ---- canonical execution: one distinct buffer per argument and per pre-existing attribute *)
Fixpoint index_of (a : attr) (l : list attr) : option nat :=
  match l with
  | [] => None
  | h :: t => if h =? a then Some 0 else option_map S (index_of a t)
  end.

Definition unit_interp : nat -> list unit -> unit := fun _ _ => tt.

Definition init_state (e : entry) (c : list nat) : state (V := unit) :=
  let pre := pre_attrs e c in
  mk (repeat tt (nargs e + length pre))
     (fun v => if v <? nargs e then Some v else None)
     (fun a => option_map (fun i => nargs e + i) (index_of a pre))
     [] [] false.

Definition final_state (fx : bool) (e : entry) (c : list nat) : state :=
  run unit_interp (prog fx e (base_cfg e c)) (init_state e c).

(* buffers of the caller / of the earlier history that the call writes in place *)
Definition written_initial (fx : bool) (e : entry) (c : list nat) : list cid :=
  let n0 := nargs e + length (pre_attrs e c) in
  nodup Nat.eq_dec (filter (fun x => x <? n0) (wlog (final_state fx e c))).

Definition oz (o : option nat) : Z := match o with Some n => Z.of_nat (S n) | None => 0%Z end.

(* prediction handed to the harness:
   [raised; n0; #written; written...; #slots; slot...]  slot = buffer id + 1, 0 = absent;
   slots = returned values in order, then obs_attrs *)
Definition predict (fx : bool) (e : entry) (c : list nat) : list Z :=
  let st := final_state fx e c in
  let w := written_initial fx e c in
  let slots := rets st ++ map (att st) (obs_attrs e) in
  [if raised st then 1%Z else 0%Z; Z.of_nat (nargs e + length (pre_attrs e c)); Z.of_nat (length w)]
  ++ map Z.of_nat w ++ [Z.of_nat (length slots)] ++ map oz slots.

Definition predict_id (fx : bool) (eid : nat) (c : list nat) : list Z :=
  match entry_of_id eid with Some e => predict fx e c | None => [] end.
Definition dims_id (eid : nat) : list nat :=
  match entry_of_id eid with Some e => dims e | None => [] end.
Definition nargs_id (eid : nat) : nat := match entry_of_id eid with Some e => nargs e | None => 0 end.
Definition pre_attrs_id (eid : nat) (c : list nat) : list nat :=
  match entry_of_id eid with Some e => pre_attrs e c | None => [] end.
Definition obs_attrs_id (eid : nat) : list nat :=
  match entry_of_id eid with Some e => obs_attrs e | None => [] end.

(* ---- well-formedness of the effect programs: nothing is read before it is bound *)
Fixpoint wf (p : list prim) (bl : var -> bool) (ba : attr -> bool) : bool :=
  match p with
  | [] => true
  | Alias d s :: t => bl s && wf t (upd bl d true) ba
  | New d _ ss :: t => forallb bl ss && wf t (upd bl d true) ba
  | Write d _ ss :: t => bl d && forallb bl ss && wf t bl ba
  | Load d a :: t => ba a && wf t (upd bl d true) ba
  | Store a s :: t => bl s && wf t bl (upd ba a true)
  | Del a :: t => wf t bl (upd ba a false)
  | Ret s :: t => bl s && wf t bl ba
  | Raise :: _ => true
  end.

Definition wf_entry (fx : bool) (e : entry) (c : list nat) : bool :=
  wf (prog fx e (base_cfg e c)) (fun v => v <? nargs e) (fun a => existsb (Nat.eqb a) (pre_attrs e (base_cfg e c))).

(* ---- the finite checks *)
Definition noalias_entry (e : entry) : bool := forallb (fun c => noalias0 (program e c)) (all_cfgs (base_dims e)).
Definition safe_entry (e : entry) : bool := forallb (fun c => safe0 (program e c)) (all_cfgs (base_dims e)).
Definition safe_all : bool := forallb safe_entry entries.
Definition wf_all : bool :=
  forallb (fun e => forallb (fun c => wf_entry true e c && wf_entry false e c) (all_cfgs (base_dims e))) entries.
Definition cfg_count (e : entry) : Z := fold_right Z.mul 1%Z (map Z.of_nat (dims e)).
Definition total_cfgs : Z := fold_right Z.add 0%Z (map cfg_count entries).

Lemma entries_complete e : In e entries.
Proof. destruct e; simpl; tauto. Qed.

Lemma safe_all_true : forallb safe_entry entries = true.
Proof. vm_compute. reflexivity. Qed.

Lemma noalias_all_true : forallb noalias_entry entries = true.
Proof. vm_compute. reflexivity. Qed.

Lemma wf_all_true :
  forallb (fun e => forallb (fun c => wf_entry true e c && wf_entry false e c) (all_cfgs (base_dims e))) entries = true.
Proof. vm_compute. reflexivity. Qed.

Lemma total_cfgs_value : total_cfgs = 198468%Z.
Proof. vm_compute. reflexivity. Qed.

Lemma cfg_count_spec e : Z.of_nat (length (all_cfgs (dims e))) = cfg_count e.
Proof.
  rewrite all_cfgs_length. unfold cfg_count. induction (dims e) as [|d t IH]; simpl fold_right; auto.
  rewrite Nat2Z.inj_mul, IH. reflexivity.
Qed.

Lemma forallb_In {A} (f : A -> bool) l x : forallb f l = true -> In x l -> f x = true.
Proof. intros H. apply (proj1 (forallb_forall f l) H). Qed.

(* the finite checks run over the base digits; they lift to every configuration with a view digit *)
Lemma valid_firstn (b : list nat) : forall d c, valid_cfg (b ++ [d]) c -> valid_cfg b (firstn (length b) c).
Proof.
  unfold valid_cfg. induction b as [|h t IH]; intros d c H; simpl.
  - constructor.
  - inversion H; subst. constructor; auto. eapply IH; eauto.
Qed.

Lemma base_cfg_valid e c : valid_cfg (dims e) c -> valid_cfg (base_dims e) (base_cfg e c).
Proof. unfold dims, base_cfg. apply valid_firstn. Qed.

Lemma base_cfg_idem e c : base_cfg e (base_cfg e c) = base_cfg e c.
Proof. unfold base_cfg. rewrite firstn_firstn, Nat.min_id. reflexivity. Qed.

Lemma lift_check (Q : list nat -> bool) e :
  forallb (fun b => Q (base_cfg e b)) (all_cfgs (base_dims e)) = true ->
  forall c, valid_cfg (dims e) c -> Q (base_cfg e c) = true.
Proof.
  intros H c Hc.
  pose proof (forallb_In _ _ (base_cfg e c) H (all_cfgs_complete _ _ (base_cfg_valid e c Hc))) as H1.
  cbv beta in H1. rewrite base_cfg_idem in H1. exact H1.
Qed.

Lemma program_safe e c : valid_cfg (dims e) c -> safe0 (program e c) = true.
Proof.
  intros Hc. apply (lift_check (fun b => safe0 (prog true e b)) e); auto.
  exact (forallb_In safe_entry entries e safe_all_true (entries_complete e)).
Qed.

Lemma program_wf e c : valid_cfg (dims e) c -> wf_entry true e c = true /\ wf_entry false e c = true.
Proof.
  intros Hc. apply andb_true_iff.
  apply (lift_check (fun b => wf (prog true e b) (fun v => v <? nargs e) (fun a => existsb (Nat.eqb a) (pre_attrs e b))
                              && wf (prog false e b) (fun v => v <? nargs e) (fun a => existsb (Nat.eqb a) (pre_attrs e b))) e); auto.
  exact (forallb_In (fun e => forallb (fun c => wf_entry true e c && wf_entry false e c) (all_cfgs (base_dims e)))
                    entries e wf_all_true (entries_complete e)).
Qed.

(* every argument and every earlier result keeps its contents: all entry points, all configurations,
   all value types, all contents and sizes, all bindings/aliasing of arguments and attributes *)
Theorem no_caller_write :
  forall e c, valid_cfg (dims e) c ->
  forall (V : Type) (interp : nat -> list V -> V) (st : state (V := V)) cell,
    cell < length (heap st) ->
    nth_error (heap (run interp (program e c) st)) cell = nth_error (heap st) cell.
Proof. intros e c Hc V interp st cell Hl. apply run_frame; auto. apply program_safe; auto. Qed.

Lemma program_noalias e c : valid_cfg (dims e) c -> noalias0 (program e c) = true.
Proof.
  intros Hc. apply (lift_check (fun b => noalias0 (prog true e b)) e); auto.
  exact (forallb_In noalias_entry entries e noalias_all_true (entries_complete e)).
Qed.

(* stored state never aliases caller arrays: after any public call every attribute of the object refers to a
   buffer allocated by the call or to a buffer an attribute referred to before the call *)
Theorem no_caller_alias :
  forall e c, valid_cfg (dims e) c ->
  forall (V : Type) (interp : nat -> list V -> V) (st : state (V := V)) a cell,
    att (run interp (program e c) st) a = Some cell ->
    length (heap st) <= cell \/ exists a', att st a' = Some cell.
Proof. intros e c Hc V interp st a cell H. eapply run_noalias; eauto. apply program_noalias; auto. Qed.

Definition is_public_call {V} (cl : call (V := V)) : Prop :=
  exists e c, valid_cfg (dims e) c /\ c_prog cl = program e c.

(* histories of arbitrary length: nothing that exists after a prefix of calls (caller arrays, returned
   and stored results) is altered by any continuation made of public calls *)
Theorem no_history_write :
  forall (V : Type) (interp : nat -> list V -> V) (cs1 cs2 : list (call (V := V))) (st : state (V := V)),
    Forall is_public_call cs2 ->
    forall cell, cell < length (heap (run_seq interp cs1 st)) ->
      nth_error (heap (run_seq interp (cs1 ++ cs2) st)) cell = nth_error (heap (run_seq interp cs1 st)) cell.
Proof.
  intros V interp cs1 cs2 st HF cell Hl. apply history_frame; auto.
  eapply Forall_impl; [|exact HF]. intros cl (e & c & Hc & Hp). rewrite Hp. apply program_safe; auto.
Qed.

(* the pinned tree: each of the four defects is a configuration whose effect program writes a buffer
   of the caller / of the earlier history (these are the regression cases of the harness) *)
Definition cfg_vario_latlon := [0; 0; 1; 0; 0; 0; 1; 1; 0; 0; 0; 0; 0; 0].
Definition cfg_axis_mask := [0; 2; 1; 0; 0; 0].
Definition cfg_field_call := [0; 1; 1; 0; 1; 0; 0; 0].
Definition cfg_transform := [5; 1; 1; 1; 1; 0; 0; 0].

Lemma pinned_tree_refuted :
  written_initial false EVario cfg_vario_latlon = [3]          (* the caller's bin_edges *)
  /\ written_initial false EVarioAxis cfg_axis_mask = [1]       (* the caller's mask *)
  /\ written_initial false EFieldCall cfg_field_call = [1]      (* the caller's field array *)
  /\ written_initial false EPostField [0; 1; 0; 1] = [0]
  /\ written_initial false EApplyMNT [0; 0; 1; 0; 1; 0] = [1]
  /\ written_initial false ERemoveTNM [0; 0; 1; 0; 1; 0] = [1]
  /\ written_initial false ETransform cfg_transform = [3]       (* the stored 'field' (attribute cell) *)
  /\ written_initial true EVario cfg_vario_latlon = []
  /\ written_initial true EVarioAxis cfg_axis_mask = []
  /\ written_initial true EFieldCall cfg_field_call = []
  /\ written_initial true ETransform cfg_transform = [].
Proof. vm_compute. repeat split. Qed.

(* contents really change on the pinned-tree program: with numbers and  x := x + 1  as the in-place
   operation the caller's bin_edges differ after the call *)
Lemma pinned_tree_changes_contents :
  let interp := fun (_ : nat) (l : list nat) => S (hd 0 l) in
  let st := mk [10; 11; 12; 13; 14; 15; 16] (fun v => if v <? 7 then Some v else None) (fun _ => None) [] [] false in
  nth_error (heap (run interp (old_program EVario cfg_vario_latlon) st)) 3 = Some 14
  /\ nth_error (heap (run interp (program EVario cfg_vario_latlon) st)) 3 = Some 13.
Proof. vm_compute. split; reflexivity. Qed.

Lemma configs_exist :
  valid_cfg (dims EVario) cfg_vario_latlon /\ valid_cfg (dims EVarioAxis) cfg_axis_mask
  /\ valid_cfg (dims EFieldCall) cfg_field_call /\ valid_cfg (dims ETransform) cfg_transform.
Proof. unfold valid_cfg; simpl; repeat split; repeat constructor. Qed.

(* what the harness compares against: the canonical prediction of the repaired programs never lists a
   written caller / earlier buffer *)
Lemma filter_none {A} (f : A -> bool) l : Forall (fun x => f x = false) l -> filter f l = [].
Proof. induction 1 as [|x l Hx _ IH]; simpl; auto. now rewrite Hx. Qed.

Lemma predicted_writes_empty e c : valid_cfg (dims e) c -> written_initial true e c = [].
Proof.
  intros Hc. unfold written_initial, final_state.
  pose proof (run_log unit_interp (program e c) (init_state e c) (program_safe e c Hc) eq_refl) as H.
  assert (L : length (heap (init_state e c)) = nargs e + length (pre_attrs e c)) by (simpl; apply repeat_length).
  rewrite L in H. fold (program e c).
  rewrite filter_none; [reflexivity|].
  eapply Forall_impl; [|exact H]. intros x Hx. apply Nat.ltb_ge. exact Hx.
Qed.
