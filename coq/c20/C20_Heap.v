(* C20 — heap of array buffers with identities, effect primitives, frame theorem.

   A numpy array (or the data / the mask of a masked array) is a *buffer* (cell) of the heap; a
   Python variable or an attribute holds a reference to a buffer.  The contents of a buffer is one
   abstract value of an arbitrary type V (so every size, shape and content is covered), and
   every computation is an arbitrary function [interp op args] of the contents it reads.

   primitives (what numpy / GSTools statements do to buffers):
     Alias d s      d refers to the buffer of s   (np.asarray on a float64 ndarray, reshape/atleast_nd/
                    swapaxes/row views, filled() without mask, attribute reads of local objects)
     New d op ss    d refers to a NEW buffer computed from ss (copy, dtype conversion, fancy/boolean
                    indexing, arithmetic, np.pad, kernels, np.ma.array(copy=True), normalizer output)
     Write d op ss  the buffer of d is updated in place  (+= -= *= /=, masked assignment, mask setter)
     Load d a       d := attribute a of the object    Store a s   setattr(obj, a, s)   Del a  delattr
     Ret s          s is returned to the caller       Raise       the call ends with an exception *)
From Coq Require Import List Arith Lia Bool.
Import ListNotations.

Definition var := nat.
Definition attr := nat.
Definition cid := nat.

Inductive prim :=
| Alias (d s : var)
| New (d : var) (op : nat) (srcs : list var)
| Write (d : var) (op : nat) (srcs : list var)
| Load (d : var) (a : attr)
| Store (a : attr) (s : var)
| Del (a : attr)
| Ret (s : var)
| Raise.

Definition upd {A} (f : nat -> A) (k : nat) (v : A) : nat -> A := fun x => if x =? k then v else f x.

Fixpoint set_nth {A} (l : list A) (i : nat) (v : A) : list A :=
  match l, i with
  | [], _ => []
  | _ :: t, O => v :: t
  | h :: t, S i' => h :: set_nth t i' v
  end.

Lemma set_nth_length {A} (l : list A) i v : length (set_nth l i v) = length l.
Proof. revert i; induction l as [|h t IH]; intros [|i]; simpl; auto. Qed.

Lemma nth_error_set_nth_other {A} (l : list A) i j v : i <> j -> nth_error (set_nth l i v) j = nth_error l j.
Proof. revert i j; induction l as [|h t IH]; intros [|i] [|j] H; simpl; auto; try lia. Qed.

Lemma nth_error_app_lt {A} (l k : list A) i : i < length l -> nth_error (l ++ k) i = nth_error l i.
Proof. intros H. now rewrite nth_error_app1. Qed.

Section Sem.
  Context {V : Type} (interp : nat -> list V -> V).

  Record state := mk {
    heap : list V;
    loc : var -> option cid;
    att : attr -> option cid;
    rets : list (option cid);
    wlog : list cid;          (* buffers written in place, most recent first *)
    raised : bool }.

  Definition val1 (st : state) (v : var) : list V :=
    match loc st v with
    | Some c => match nth_error (heap st) c with Some x => [x] | None => [] end
    | None => []
    end.
  Definition vals (st : state) (srcs : list var) : list V := flat_map (val1 st) srcs.

  Definition step (p : prim) (st : state) : state :=
    match p with
    | Alias d s => mk (heap st) (upd (loc st) d (loc st s)) (att st) (rets st) (wlog st) (raised st)
    | New d op srcs =>
        mk (heap st ++ [interp op (vals st srcs)]) (upd (loc st) d (Some (length (heap st))))
           (att st) (rets st) (wlog st) (raised st)
    | Write d op srcs =>
        match loc st d with
        | Some c =>
            match nth_error (heap st) c with
            | Some old => mk (set_nth (heap st) c (interp op (old :: vals st srcs))) (loc st) (att st)
                             (rets st) (c :: wlog st) (raised st)
            | None => st
            end
        | None => st
        end
    | Load d a => mk (heap st) (upd (loc st) d (att st a)) (att st) (rets st) (wlog st) (raised st)
    | Store a s => mk (heap st) (loc st) (upd (att st) a (loc st s)) (rets st) (wlog st) (raised st)
    | Del a => mk (heap st) (loc st) (upd (att st) a None) (rets st) (wlog st) (raised st)
    | Ret s => mk (heap st) (loc st) (att st) (rets st ++ [loc st s]) (wlog st) (raised st)
    | Raise => mk (heap st) (loc st) (att st) (rets st) (wlog st) true
    end.

  Fixpoint run (p : list prim) (st : state) : state :=
    match p with
    | [] => st
    | Raise :: _ => step Raise st
    | x :: t => run t (step x st)
    end.

  (* ---- static check: every in-place write goes to a buffer allocated by the program itself.
     fl v / fa a = "variable v / attribute a certainly refers to a buffer allocated by this program" *)
  Fixpoint safe (p : list prim) (fl : var -> bool) (fa : attr -> bool) : bool :=
    match p with
    | [] => true
    | Alias d s :: t => safe t (upd fl d (fl s)) fa
    | New d _ _ :: t => safe t (upd fl d true) fa
    | Write d _ _ :: t => fl d && safe t fl fa
    | Load d a :: t => safe t (upd fl d (fa a)) fa
    | Store a s :: t => safe t fl (upd fa a (fl s))
    | Del a :: t => safe t fl (upd fa a false)
    | Ret _ :: t => safe t fl fa
    | Raise :: _ => true
    end.

  Definition nofresh : nat -> bool := fun _ => false.
  Definition safe0 (p : list prim) : bool := safe p nofresh nofresh.

  Definition inv (n0 : nat) (st : state) (fl : var -> bool) (fa : attr -> bool) : Prop :=
    n0 <= length (heap st)
    /\ (forall v, fl v = true -> exists c, loc st v = Some c /\ n0 <= c)
    /\ (forall a, fa a = true -> exists c, att st a = Some c /\ n0 <= c).

  Lemma upd_same {A} (f : nat -> A) k v : upd f k v k = v.
  Proof. unfold upd. now rewrite Nat.eqb_refl. Qed.
  Lemma upd_other {A} (f : nat -> A) k v x : x <> k -> upd f k v x = f x.
  Proof. unfold upd. intros H. destruct (x =? k) eqn:E; auto. apply Nat.eqb_eq in E; lia. Qed.

  (* one safe step: keeps the invariant, keeps every old buffer, logs only new buffers *)
  Lemma step_frame n0 p st fl fa :
    inv n0 st fl fa ->
    match p with Write d _ _ => fl d = true | _ => True end ->
    let fl' := match p with
               | Alias d s => upd fl d (fl s) | New d _ _ => upd fl d true
               | Load d a => upd fl d (fa a) | _ => fl end in
    let fa' := match p with
               | Store a s => upd fa a (fl s) | Del a => upd fa a false | _ => fa end in
    inv n0 (step p st) fl' fa'
    /\ (forall c, c < n0 -> nth_error (heap (step p st)) c = nth_error (heap st) c)
    /\ (Forall (fun c => n0 <= c) (wlog st) -> Forall (fun c => n0 <= c) (wlog (step p st))).
  Proof.
    intros (Hn & Hl & Ha) Hw. destruct p as [d s|d op ss|d op ss|d a|a s|a|s|]; simpl.
    - (* Alias *) split; [|split; auto]. split; [auto|split; auto]. intros v Hv. cbn [loc att heap wlog].
      destruct (Nat.eq_dec v d) as [->|Ne].
      + rewrite upd_same in Hv. rewrite upd_same. apply Hl; exact Hv.
      + rewrite upd_other in Hv by exact Ne. rewrite upd_other by exact Ne. apply Hl; exact Hv.
    - (* New *) split; [|split; auto].
      + split; [cbn [heap]; rewrite app_length; simpl; lia|split; auto]. intros v Hv. cbn [loc att heap wlog].
        destruct (Nat.eq_dec v d) as [->|Ne].
        * rewrite upd_same. exists (length (heap st)). split; [reflexivity|exact Hn].
        * rewrite upd_other in Hv by exact Ne. rewrite upd_other by exact Ne. apply Hl; exact Hv.
      + intros c Hc. cbn [heap]. apply nth_error_app_lt. lia.
    - (* Write *) destruct (Hl d Hw) as (c & Hc & Hge). rewrite Hc.
      destruct (nth_error (heap st) c) as [old|] eqn:E; simpl.
      + split; [|split].
        * split; [cbn [heap]; rewrite set_nth_length; auto|split; auto].
        * intros c' Hc'. cbn [heap]. apply nth_error_set_nth_other. lia.
        * intros HF. constructor; auto.
      + split; [|split; auto]. split; auto.
    - (* Load *) split; [|split; auto]. split; [auto|split; auto]. intros v Hv. cbn [loc att heap wlog].
      destruct (Nat.eq_dec v d) as [->|Ne].
      + rewrite upd_same in Hv. rewrite upd_same. apply Ha; exact Hv.
      + rewrite upd_other in Hv by exact Ne. rewrite upd_other by exact Ne. apply Hl; exact Hv.
    - (* Store *) split; [|split; auto]. split; [auto|split; auto]. intros b Hb. cbn [loc att heap wlog].
      destruct (Nat.eq_dec b a) as [->|Ne].
      + rewrite upd_same in Hb. rewrite upd_same. apply Hl; exact Hb.
      + rewrite upd_other in Hb by exact Ne. rewrite upd_other by exact Ne. apply Ha; exact Hb.
    - (* Del *) split; [|split; auto]. split; [auto|split; auto]. intros b Hb. cbn [loc att heap wlog].
      destruct (Nat.eq_dec b a) as [->|Ne].
      + rewrite upd_same in Hb. discriminate.
      + rewrite upd_other in Hb by exact Ne. rewrite upd_other by exact Ne. apply Ha; exact Hb.
    - (* Ret *) split; [|split; auto]. split; auto.
    - (* Raise *) split; [|split; auto]. split; auto.
  Qed.

  Lemma run_frame_gen n0 p : forall st fl fa,
    safe p fl fa = true -> inv n0 st fl fa ->
    (forall c, c < n0 -> nth_error (heap (run p st)) c = nth_error (heap st) c)
    /\ n0 <= length (heap (run p st))
    /\ (Forall (fun c => n0 <= c) (wlog st) -> Forall (fun c => n0 <= c) (wlog (run p st))).
  Proof.
    induction p as [|x t IH]; intros st fl fa Hs Hi.
    - simpl. split; auto. split; auto. apply Hi.
    - assert (G : forall fl' fa',
          safe t fl' fa' = true -> inv n0 (step x st) fl' fa' ->
          (forall c, c < n0 -> nth_error (heap (step x st)) c = nth_error (heap st) c) ->
          (Forall (fun c => n0 <= c) (wlog st) -> Forall (fun c => n0 <= c) (wlog (step x st))) ->
          (forall c, c < n0 -> nth_error (heap (run t (step x st))) c = nth_error (heap st) c)
          /\ n0 <= length (heap (run t (step x st)))
          /\ (Forall (fun c => n0 <= c) (wlog st) -> Forall (fun c => n0 <= c) (wlog (run t (step x st))))).
      { intros fl' fa' Hs' Hi' Hh Hlog. destruct (IH _ _ _ Hs' Hi') as (A & B & C).
        split; [intros c Hc; rewrite A by auto; apply Hh; auto|split; [auto|intros HF; apply C, Hlog, HF]]. }
      destruct x as [d s|d op ss|d op ss|d a|a s|a|s|].
      + pose proof (step_frame n0 (Alias d s) st fl fa Hi I) as HH. cbv zeta in HH.
        destruct HH as (Hi' & Hh & Hlog). exact (G _ _ Hs Hi' Hh Hlog).
      + pose proof (step_frame n0 (New d op ss) st fl fa Hi I) as HH. cbv zeta in HH.
        destruct HH as (Hi' & Hh & Hlog). exact (G _ _ Hs Hi' Hh Hlog).
      + simpl in Hs. apply andb_true_iff in Hs. destruct Hs as (Hd & Hs).
        pose proof (step_frame n0 (Write d op ss) st fl fa Hi Hd) as HH. cbv zeta in HH.
        destruct HH as (Hi' & Hh & Hlog). exact (G _ _ Hs Hi' Hh Hlog).
      + pose proof (step_frame n0 (Load d a) st fl fa Hi I) as HH. cbv zeta in HH.
        destruct HH as (Hi' & Hh & Hlog). exact (G _ _ Hs Hi' Hh Hlog).
      + pose proof (step_frame n0 (Store a s) st fl fa Hi I) as HH. cbv zeta in HH.
        destruct HH as (Hi' & Hh & Hlog). exact (G _ _ Hs Hi' Hh Hlog).
      + pose proof (step_frame n0 (Del a) st fl fa Hi I) as HH. cbv zeta in HH.
        destruct HH as (Hi' & Hh & Hlog). exact (G _ _ Hs Hi' Hh Hlog).
      + pose proof (step_frame n0 (Ret s) st fl fa Hi I) as HH. cbv zeta in HH.
        destruct HH as (Hi' & Hh & Hlog). exact (G _ _ Hs Hi' Hh Hlog).
      + simpl. split; auto. split; auto. apply Hi.
  Qed.

  Lemma inv_initial st : inv (length (heap st)) st nofresh nofresh.
  Proof. split; [lia|split; intros ? H; discriminate]. Qed.

  (* FRAME: a program that passes the static check leaves every buffer that existed before the call
     unchanged, whatever the heap contents, sizes, bindings and aliasing between arguments/attributes *)
  Theorem run_frame p st :
    safe0 p = true ->
    forall c, c < length (heap st) -> nth_error (heap (run p st)) c = nth_error (heap st) c.
  Proof. intros Hs. apply (run_frame_gen (length (heap st)) p st nofresh nofresh Hs (inv_initial st)). Qed.

  Theorem run_grows p st : safe0 p = true -> length (heap st) <= length (heap (run p st)).
  Proof. intros Hs. apply (run_frame_gen (length (heap st)) p st nofresh nofresh Hs (inv_initial st)). Qed.

  (* the write log of a safe program mentions only buffers allocated by the program *)
  Theorem run_log p st :
    safe0 p = true -> wlog st = [] -> Forall (fun c => length (heap st) <= c) (wlog (run p st)).
  Proof.
    intros Hs Hw. apply (run_frame_gen (length (heap st)) p st nofresh nofresh Hs (inv_initial st)).
    rewrite Hw. constructor.
  Qed.

  (* ---- second static check: an attribute is only ever bound to a buffer that the program allocated or
     that some attribute already referred to before the call - never to a buffer that only the CALLER
     holds.  cl v = "v certainly refers to such a buffer" *)
  Fixpoint noalias (p : list prim) (cl : var -> bool) : bool :=
    match p with
    | [] => true
    | Alias d s :: t => noalias t (upd cl d (cl s))
    | New d _ _ :: t => noalias t (upd cl d true)
    | Write _ _ _ :: t => noalias t cl
    | Load d _ :: t => noalias t (upd cl d true)
    | Store _ s :: t => cl s && noalias t cl
    | Del _ :: t => noalias t cl
    | Ret _ :: t => noalias t cl
    | Raise :: _ => true
    end.
  Definition noalias0 (p : list prim) : bool := noalias p nofresh.

  Definition okcell (n0 : nat) (att0 : attr -> option cid) (c : cid) : Prop :=
    n0 <= c \/ exists a', att0 a' = Some c.

  Definition ainv (n0 : nat) (att0 : attr -> option cid) (st : state) (cl : var -> bool) : Prop :=
    n0 <= length (heap st)
    /\ (forall v c, cl v = true -> loc st v = Some c -> okcell n0 att0 c)
    /\ (forall a c, att st a = Some c -> okcell n0 att0 c).

  Lemma upd_eq {A} (f : nat -> A) k v x : upd f k v x = if x =? k then v else f x.
  Proof. reflexivity. Qed.

  Lemma noalias_gen n0 att0 p : forall st cl,
    noalias p cl = true -> ainv n0 att0 st cl ->
    forall a c, att (run p st) a = Some c -> okcell n0 att0 c.
  Proof.
    induction p as [|x t IH]; intros st cl Hs (Hn & Hl & Ha).
    - simpl. exact Ha.
    - destruct x as [d s|d op ss|d op ss|d a0|a0 s|a0|s|]; simpl in Hs.
      + (* Alias *) change (run (Alias d s :: t) st) with (run t (step (Alias d s) st)).
        apply (IH _ _ Hs). split; [exact Hn|split; [|exact Ha]].
        intros v c Hv Hc. change (loc (step (Alias d s) st) v) with (upd (loc st) d (loc st s) v) in Hc.
        rewrite upd_eq in Hv; rewrite upd_eq in Hc. destruct (v =? d); eapply Hl; eauto.
      + (* New *) change (run (New d op ss :: t) st) with (run t (step (New d op ss) st)).
        apply (IH _ _ Hs). split; [simpl; rewrite app_length; simpl; lia|split; [|exact Ha]].
        intros v c Hv Hc.
        change (loc (step (New d op ss) st) v) with (upd (loc st) d (Some (length (heap st))) v) in Hc.
        rewrite upd_eq in Hv; rewrite upd_eq in Hc. destruct (v =? d).
        * injection Hc as <-. left. exact Hn.
        * eapply Hl; eauto.
      + (* Write *) change (run (Write d op ss :: t) st) with (run t (step (Write d op ss) st)).
        apply (IH _ _ Hs). simpl step.
        destruct (loc st d) as [c0|]; [destruct (nth_error (heap st) c0)|]; simpl.
        * split; [cbn [heap]; rewrite set_nth_length; exact Hn|split; [exact Hl|exact Ha]].
        * split; [exact Hn|split; [exact Hl|exact Ha]].
        * split; [exact Hn|split; [exact Hl|exact Ha]].
      + (* Load *) change (run (Load d a0 :: t) st) with (run t (step (Load d a0) st)).
        apply (IH _ _ Hs). split; [exact Hn|split; [|exact Ha]].
        intros v c Hv Hc. change (loc (step (Load d a0) st) v) with (upd (loc st) d (att st a0) v) in Hc.
        rewrite upd_eq in Hv; rewrite upd_eq in Hc. destruct (v =? d).
        * eapply Ha; eauto.
        * eapply Hl; eauto.
      + (* Store *) apply andb_true_iff in Hs. destruct Hs as (Hc0 & Hs).
        change (run (Store a0 s :: t) st) with (run t (step (Store a0 s) st)).
        apply (IH _ _ Hs). split; [exact Hn|split; [exact Hl|]].
        intros b c Hb. change (att (step (Store a0 s) st) b) with (upd (att st) a0 (loc st s) b) in Hb.
        rewrite upd_eq in Hb. destruct (b =? a0).
        * eapply Hl; eauto.
        * eapply Ha; eauto.
      + (* Del *) change (run (Del a0 :: t) st) with (run t (step (Del a0) st)).
        apply (IH _ _ Hs). split; [exact Hn|split; [exact Hl|]].
        intros b c Hb. change (att (step (Del a0) st) b) with (upd (att st) a0 None b) in Hb.
        rewrite upd_eq in Hb. destruct (b =? a0).
        * discriminate.
        * eapply Ha; eauto.
      + (* Ret *) change (run (Ret s :: t) st) with (run t (step (Ret s) st)).
        apply (IH _ _ Hs). split; [exact Hn|split; [exact Hl|exact Ha]].
      + (* Raise *) simpl. exact Ha.
  Qed.

  (* NO CALLER ALIAS: after a program that passes the check, every attribute refers to a buffer allocated by
     the program or to a buffer some attribute referred to before - never to an argument buffer *)
  Theorem run_noalias p st :
    noalias0 p = true ->
    forall a c, att (run p st) a = Some c ->
      length (heap st) <= c \/ exists a', att st a' = Some c.
  Proof.
    intros Hs. apply (noalias_gen (length (heap st)) (att st) p st nofresh Hs).
    split; [lia|split].
    - intros v c Hv. discriminate.
    - intros a c Hc. right. exists a. exact Hc.
  Qed.

  (* ---- histories: a sequence of calls on one object.  Between calls the caller may allocate arrays
     (extra) and binds the arguments of the next call to ANY buffers (also to results of earlier calls) *)
  Record call := mkcall { c_prog : list prim; c_args : var -> option cid; c_extra : list V }.

  Definition begin_call (cl : call) (st : state) : state :=
    mk (heap st ++ c_extra cl) (c_args cl) (att st) [] (wlog st) false.
  Definition run_call (cl : call) (st : state) : state := run (c_prog cl) (begin_call cl st).
  Definition run_seq (cs : list call) (st : state) : state := fold_left (fun s c => run_call c s) cs st.

  Lemma run_call_frame cl st : safe0 (c_prog cl) = true ->
    length (heap st) <= length (heap (run_call cl st))
    /\ forall c, c < length (heap st) -> nth_error (heap (run_call cl st)) c = nth_error (heap st) c.
  Proof.
    intros Hs. unfold run_call.
    assert (L : length (heap st) <= length (heap (begin_call cl st))) by (simpl; rewrite app_length; lia).
    split.
    - etransitivity; [exact L|]. apply run_grows; auto.
    - intros c Hc. rewrite run_frame by (auto; lia). simpl. apply nth_error_app_lt; auto.
  Qed.

  Theorem run_seq_frame cs : forall st,
    Forall (fun cl => safe0 (c_prog cl) = true) cs ->
    length (heap st) <= length (heap (run_seq cs st))
    /\ forall c, c < length (heap st) -> nth_error (heap (run_seq cs st)) c = nth_error (heap st) c.
  Proof.
    induction cs as [|cl t IH]; intros st HF; simpl.
    - split; auto.
    - inversion HF as [|? ? H1 H2]; subst. destruct (run_call_frame cl st H1) as (L1 & F1).
      destruct (IH (run_call cl st) H2) as (L2 & F2). split; [lia|].
      intros c Hc. rewrite F2 by lia. apply F1; auto.
  Qed.

  (* whatever exists after a prefix of the history (caller arrays, returned and stored results)
     is never altered by the rest of the history *)
  Theorem history_frame cs1 cs2 st :
    Forall (fun cl => safe0 (c_prog cl) = true) cs2 ->
    forall c, c < length (heap (run_seq cs1 st)) ->
      nth_error (heap (run_seq (cs1 ++ cs2) st)) c = nth_error (heap (run_seq cs1 st)) c.
  Proof.
    intros HF c Hc. unfold run_seq at 1. rewrite fold_left_app. fold (run_seq cs1 st).
    apply (run_seq_frame cs2 (run_seq cs1 st) HF); auto.
  Qed.
End Sem.

(* ---- finite configuration spaces: mixed-radix digit lists *)
Fixpoint all_cfgs (dims : list nat) : list (list nat) :=
  match dims with
  | [] => [[]]
  | d :: t => flat_map (fun x => map (cons x) (all_cfgs t)) (seq 0 d)
  end.

Definition valid_cfg (dims c : list nat) : Prop := Forall2 (fun x d => x < d) c dims.

Lemma all_cfgs_complete dims : forall c, valid_cfg dims c -> In c (all_cfgs dims).
Proof.
  induction dims as [|d t IH]; intros c H; inversion H; subst; simpl; auto.
  apply in_flat_map. exists x. split.
  - apply in_seq. lia.
  - apply in_map. apply IH; auto.
Qed.

Lemma flat_map_length_const {A B} (f : A -> list B) l k :
  (forall x, length (f x) = k) -> length (flat_map f l) = length l * k.
Proof. intros H. induction l; simpl; auto. rewrite app_length, IHl, H. lia. Qed.

Lemma all_cfgs_length dims : length (all_cfgs dims) = fold_right Nat.mul 1 dims.
Proof.
  induction dims as [|d t IH]; simpl; auto.
  rewrite (flat_map_length_const _ _ (length (all_cfgs t))).
  - rewrite seq_length, IH. reflexivity.
  - intros x. apply map_length.
Qed.

Definition dg (c : list nat) (i : nat) : nat := nth i c 0.
