(* C19_Tie.v — the hand model of C19 equals the formulas translated from the source on every run
   (coq/gen/Formulas_gen.v, tools/py2coq.py).  Generic number type where the two terms coincide up to
   unfolding; at the real instance otherwise (no side condition is needed for any of them: over R there
   is no NaN, integer powers are defined for every base, and 0 < y, y < 0 exclude each other). *)
From Coq Require Import Reals ZArith List Lra Lia Bool.
From GS Require Import Num Loops Formulas Formulas_gen C19_Model C19_RInst C19_Proofs.
Import ListNotations.
Open Scope R_scope.

(* array_to_lognormal: np.exp(field), any number type *)
Lemma array_to_lognormal_tie {T} (O : NumOps T) (field : list T) :
  map (Formulas_gen.array_to_lognormal O) field = C19_Model.array_to_lognormal O field.
Proof. reflexivity. Qed.

Section TieR.
  Variables erf erfinv : R -> R.
  Notation O := (Rops erf erfinv).

  Lemma Rpow_2 (x : R) : Rpow x 2 = x * x.
  Proof. change 2 with (IZR 2). rewrite Rpow_IZR. simpl. ring. Qed.

  (* _uniform_to_arcsin: the source squares with ** 2, the model multiplies *)
  Lemma uniform_to_arcsin_tie (field a b : R) :
    Formulas_gen.uniform_to_arcsin O field a b = uniform_to_arcsin_elem O a b field.
  Proof.
    unfold Formulas_gen.uniform_to_arcsin, uniform_to_arcsin_elem, sq, half.
    simpl npow. rewrite Rpow_2. reflexivity.
  Qed.

  (* _uniform_to_uquad: the source does two masked assignments in sequence (y > 0, then y < 0) on a zero array,
     the model is the nested conditional *)
  Lemma uniform_to_uquad_tie (field a b : R) :
    Formulas_gen.uniform_to_uquad O field a b = uniform_to_uquad_elem O a b field.
  Proof.
    unfold Formulas_gen.uniform_to_uquad, uniform_to_uquad_elem, uquad_alpha, uquad_beta, uquad_gamma,
      cbrt_signed, third, three, two.
    set (y := nadd O (ndiv O (nmul O (nlit O 3 0) field) (ndiv O (nlit O 12 0) (npow O (nsub O b a) (nlit O 3 0))))
                     (ndiv O (npow O (nsub O a b) (nlit O 3 0)) (nlit O 8 0))).
    cbv zeta. fold y.
    destruct (nltb O (n0 O) y) eqn:E1; destruct (nltb O y (n0 O)) eqn:E2; try reflexivity.
    exfalso. apply nltb_R in E1. apply nltb_R in E2. simpl in E1, E2. lra.
  Qed.

  (* np.isclose(lmbda, 0) = |lmbda| <= 1e-8 *)
  Lemma fisclose_0 (l : R) : fisclose O l (n0 O) = isclose0 O l.
  Proof.
    unfold fisclose, isclose0. cbn [nleb nabs nsub nadd nmul n0 Rops].
    replace (l - 0) with l by ring. rewrite Rabs_R0.
    replace (nlit O 1 8 + nlit O 1 5 * 0) with (nlit O 1 8) by ring. reflexivity.
  Qed.

  (* gstools.normalizer.BoxCox._normalize / _denormalize (the normalizer array_boxcox inverts) *)
  Lemma BoxCox_normalize_tie (lmbda data : R) :
    Formulas_gen.BoxCox_normalize O lmbda data = boxcox_normalize O lmbda data.
  Proof. unfold Formulas_gen.BoxCox_normalize, boxcox_normalize. rewrite fisclose_0. reflexivity. Qed.

  Lemma BoxCox_denormalize_tie (lmbda data : R) :
    Formulas_gen.BoxCox_denormalize O lmbda data = boxcox_denormalize O lmbda data.
  Proof. unfold Formulas_gen.BoxCox_denormalize, boxcox_denormalize. rewrite fisclose_0. reflexivity. Qed.

  (* consequences stated on the translated source formulas *)
  Lemma source_arcsine_ppf a b u : a < b -> 0 < u < 1 ->
    cdf_arcsine a b (Formulas_gen.uniform_to_arcsin O u a b) = u.
  Proof. intros. rewrite uniform_to_arcsin_tie. now apply arcsine_ppf. Qed.

  Lemma source_uquad_ppf a b u : a < b ->
    cdf_uquad a b (Formulas_gen.uniform_to_uquad O u a b) = u.
  Proof. intros. rewrite uniform_to_uquad_tie. now apply uquad_ppf. Qed.

  Lemma source_boxcox_inverse lmbda shift x :
    isclose0 O lmbda = true \/ 0 < lmbda * (x + shift) + 1 ->
    Formulas_gen.BoxCox_normalize O lmbda (array_boxcox_elem O lmbda shift x) = x + shift.
  Proof.
    intros H. rewrite BoxCox_normalize_tie.
    destruct (boxcox_inverts_normalizer erf erfinv lmbda shift x) as [H1 H2].
    destruct (isclose0 O lmbda) eqn:E.
    - now apply H1.
    - destruct H as [H|H]; [discriminate|]. now apply H2.
  Qed.
End TieR.
