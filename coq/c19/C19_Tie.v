(* C19_Tie.v — the hand model of C19 equals the formulas translated from the source on every run
   (coq/gen/Formulas_gen.v, tools/py2coq.py).  Generic number type where the two terms coincide up to
   unfolding; at the real instance otherwise (no side condition is needed for any of them: over R there
   is no NaN, integer powers are defined for every base, and 0 < y, y < 0 exclude each other). *)
From Coq Require Import Reals ZArith List Lra Lia Bool.
From GS Require Import Num Loops Formulas Formulas_gen C19_Model C19_RInst C19_Proofs C19_Final.
Import ListNotations.
Open Scope R_scope.

(* array_to_lognormal: np.exp(field), any number type *)
Lemma array_to_lognormal_tie {T} (O : NumOps T) (field : list T) :
  map (Formulas_gen.array_to_lognormal O) field = C19_Model.array_to_lognormal O field.
Proof. reflexivity. Qed.

(* array_to_uniform (mean, var given): same term up to unfolding, any number type *)
Lemma array_to_uniform_tie {T} (O : NumOps T) (field mean var low high : T) :
  Formulas_gen.array_to_uniform O field mean var low high = to_uniform_elem O mean var low high field.
Proof. reflexivity. Qed.

(* array_zinnharvey (mean, var given), conn = "low" / "high": same term up to unfolding, any number type *)
Lemma array_zinnharvey_low_tie {T} (O : NumOps T) (field mean var : T) :
  Formulas_gen.array_zinnharvey_low O field mean var = zinnharvey_elem O false mean var field.
Proof. reflexivity. Qed.

Lemma array_zinnharvey_high_tie {T} (O : NumOps T) (field mean var : T) :
  Formulas_gen.array_zinnharvey_high O field mean var = zinnharvey_elem O true mean var field.
Proof. reflexivity. Qed.

Section TieR.
  Variables erf erfinv : R -> R.
  Notation O := (Rops erf erfinv).

  Lemma Rpow_2 (x : R) : Rpow x 2 = x * x.
  Proof. change 2 with (IZR 2). rewrite Rpow_IZR. simpl. ring. Qed.

  (* _uniform_to_arcsin: the source squares with ** 2, the model multiplies *)
  Lemma uniform_to_arcsin_tie (field a b : R) :
    Formulas_gen.uniform_to_arcsin O field a b = uniform_to_arcsin_elem O a b field.
  Proof.
    unfold Formulas_gen.uniform_to_arcsin, uniform_to_arcsin_elem, sq, half.
    simpl npow. rewrite Rpow_2. reflexivity.
  Qed.

  (* _uniform_to_uquad: the source does two masked assignments in sequence (y > 0, then y < 0) on a zero array,
     the model is the nested conditional *)
  Lemma uniform_to_uquad_tie (field a b : R) :
    Formulas_gen.uniform_to_uquad O field a b = uniform_to_uquad_elem O a b field.
  Proof.
    unfold Formulas_gen.uniform_to_uquad, uniform_to_uquad_elem, uquad_alpha, uquad_beta, uquad_gamma,
      cbrt_signed, third, three, two.
    set (y := nadd O (ndiv O (nmul O (nlit O 3 0) field) (ndiv O (nlit O 12 0) (npow O (nsub O b a) (nlit O 3 0))))
                     (ndiv O (npow O (nsub O a b) (nlit O 3 0)) (nlit O 8 0))).
    cbv zeta. fold y.
    destruct (nltb O (n0 O) y) eqn:E1; destruct (nltb O y (n0 O)) eqn:E2; try reflexivity.
    exfalso. apply nltb_R in E1. apply nltb_R in E2. simpl in E1, E2. lra.
  Qed.

  (* np.isclose(lmbda, 0) = |lmbda| <= 1e-8 *)
  Lemma fisclose_0 (l : R) : fisclose O l (n0 O) = isclose0 O l.
  Proof.
    unfold fisclose, isclose0. cbn [nleb nabs nsub nadd nmul n0 Rops].
    replace (l - 0) with l by ring. rewrite Rabs_R0.
    replace (nlit O 1 8 + nlit O 1 5 * 0) with (nlit O 1 8) by ring. reflexivity.
  Qed.

  (* gstools.normalizer.BoxCox._normalize / _denormalize (the normalizer array_boxcox inverts) *)
  Lemma BoxCox_normalize_tie (lmbda data : R) :
    Formulas_gen.BoxCox_normalize O lmbda data = boxcox_normalize O lmbda data.
  Proof. unfold Formulas_gen.BoxCox_normalize, boxcox_normalize. rewrite fisclose_0. reflexivity. Qed.

  Lemma BoxCox_denormalize_tie (lmbda data : R) :
    Formulas_gen.BoxCox_denormalize O lmbda data = boxcox_denormalize O lmbda data.
  Proof. unfold Formulas_gen.BoxCox_denormalize, boxcox_denormalize. rewrite fisclose_0. reflexivity. Qed.

  (* array_to_arcsin / array_to_uquad with given mean, var and bounds, and with the default bounds *)
  Lemma array_to_arcsin_tie (field mean var a b : R) :
    Formulas_gen.array_to_arcsin O field mean var a b = to_arcsin_elem O mean var a b field.
  Proof. unfold Formulas_gen.array_to_arcsin. cbv zeta. rewrite uniform_to_arcsin_tie. reflexivity. Qed.

  Lemma array_to_arcsin_default_bounds_tie (field mean var a b : R) :
    Formulas_gen.array_to_arcsin_default_bounds O field mean var a b
    = to_arcsin_elem O mean var (arcsin_default_a O mean var) (arcsin_default_b O mean var) field.
  Proof. unfold Formulas_gen.array_to_arcsin_default_bounds. cbv zeta. rewrite uniform_to_arcsin_tie. reflexivity. Qed.

  Lemma array_to_uquad_tie (field mean var a b : R) :
    Formulas_gen.array_to_uquad O field mean var a b = to_uquad_elem O mean var a b field.
  Proof. unfold Formulas_gen.array_to_uquad. cbv zeta. rewrite uniform_to_uquad_tie. reflexivity. Qed.

  Lemma array_to_uquad_default_bounds_tie (field mean var a b : R) :
    Formulas_gen.array_to_uquad_default_bounds O field mean var a b
    = to_uquad_elem O mean var (uquad_default_a O mean var) (uquad_default_b O mean var) field.
  Proof. unfold Formulas_gen.array_to_uquad_default_bounds. cbv zeta. rewrite uniform_to_uquad_tie. reflexivity. Qed.

  (* array_boxcox: np.maximum(.., 0) is one comparison in the translation, NaN-propagating in the model: equal over R *)
  Lemma array_boxcox_tie (field lmbda shift : R) :
    Formulas_gen.array_boxcox O field lmbda shift = array_boxcox_elem O lmbda shift field.
  Proof.
    unfold Formulas_gen.array_boxcox, array_boxcox_elem. cbv zeta. rewrite fisclose_0.
    destruct (isclose0 O lmbda); reflexivity.
  Qed.

  (* consequences stated on the translated source formulas *)
  Lemma source_arcsine_ppf a b u : a < b -> 0 < u < 1 ->
    cdf_arcsine a b (Formulas_gen.uniform_to_arcsin O u a b) = u.
  Proof. intros. rewrite uniform_to_arcsin_tie. now apply arcsine_ppf. Qed.

  Lemma source_uquad_ppf a b u : a < b ->
    cdf_uquad a b (Formulas_gen.uniform_to_uquad O u a b) = u.
  Proof. intros. rewrite uniform_to_uquad_tie. now apply uquad_ppf. Qed.

  Lemma source_boxcox_inverse lmbda shift x :
    isclose0 O lmbda = true \/ 0 < lmbda * (x + shift) + 1 ->
    Formulas_gen.BoxCox_normalize O lmbda (array_boxcox_elem O lmbda shift x) = x + shift.
  Proof.
    intros H. rewrite BoxCox_normalize_tie.
    destruct (boxcox_inverts_normalizer erf erfinv lmbda shift x) as [H1 H2].
    destruct (isclose0 O lmbda) eqn:E.
    - now apply H1.
    - destruct H as [H|H]; [discriminate|]. now apply H2.
  Qed.
End TieR.

(* ------------------------------------------------------------------ the property theorems on the translated source terms *)
Section SourceR.
  Variables erf erfinv : R -> R.
  Hypothesis H : erf_hyps erf erfinv.
  Notation O := (Rops erf erfinv).

  Lemma source_uniform_pushforward m v low high : 0 < v -> low < high ->
    (forall x, cdf_uniform low high (Formulas_gen.array_to_uniform O x m v low high) = ncdf erf m v x) /\
    (forall x, low < Formulas_gen.array_to_uniform O x m v low high < high) /\
    (forall x y, x < y -> Formulas_gen.array_to_uniform O x m v low high < Formulas_gen.array_to_uniform O y m v low high).
  Proof.
    intros Hv Hl. destruct (F_uniform erf erfinv H m v low high Hv Hl) as (A & B & C).
    repeat split; intros; rewrite ?array_to_uniform_tie; auto; apply B.
  Qed.

  Lemma source_arcsine_pushforward m v a b : 0 < v -> a < b ->
    (forall x, cdf_arcsine a b (Formulas_gen.array_to_arcsin O x m v a b) = ncdf erf m v x) /\
    (forall x, a < Formulas_gen.array_to_arcsin O x m v a b < b) /\
    (forall x y, x < y -> Formulas_gen.array_to_arcsin O x m v a b < Formulas_gen.array_to_arcsin O y m v a b).
  Proof.
    intros Hv Hab. destruct (F_arcsine erf erfinv H m v a b Hv Hab) as (A & B & C).
    repeat split; intros; rewrite ?array_to_arcsin_tie; auto; apply B.
  Qed.

  Lemma source_uquad_pushforward m v a b : 0 < v -> a < b ->
    (forall x, cdf_uquad a b (Formulas_gen.array_to_uquad O x m v a b) = ncdf erf m v x) /\
    (forall x, a < Formulas_gen.array_to_uquad O x m v a b < b) /\
    (forall x y, x < y -> Formulas_gen.array_to_uquad O x m v a b < Formulas_gen.array_to_uquad O y m v a b).
  Proof.
    intros Hv Hab. destruct (F_uquad erf erfinv H m v a b Hv Hab) as (A & B & C).
    repeat split; intros; rewrite ?array_to_uquad_tie; auto; apply B.
  Qed.

  (* default bounds (a = b = None in the source): the bounds computed by the source are a proper interval whose arcsine /
     U-quadratic law has mean m and variance v, and the transformation pushes N(m, v) forward to that law *)
  Lemma source_arcsine_default m v : 0 < v ->
    let a := m - sqrt (2 * v) in
    let b := m + sqrt (2 * v) in
    a < b /\ arcsine_mean a b = m /\ arcsine_var a b = v /\
    (forall x a0 b0, cdf_arcsine a b (Formulas_gen.array_to_arcsin_default_bounds O x m v a0 b0) = ncdf erf m v x) /\
    (forall x y a0 b0, x < y ->
       Formulas_gen.array_to_arcsin_default_bounds O x m v a0 b0 < Formulas_gen.array_to_arcsin_default_bounds O y m v a0 b0).
  Proof.
    intros Hv a b.
    destruct (F_default_bounds erf erfinv m v (Rlt_le _ _ Hv)) as (M1 & V1 & _ & _ & Hlt).
    destruct (Hlt Hv) as [Hab _].
    change (arcsin_default_a O m v) with a in *. change (arcsin_default_b O m v) with b in *.
    destruct (F_arcsine erf erfinv H m v a b Hv Hab) as (A & B & C).
    repeat split; auto; intros; rewrite !array_to_arcsin_default_bounds_tie; auto.
  Qed.

  Lemma source_uquad_default m v : 0 < v ->
    let a := m - sqrt (5 / 3 * v) in
    let b := m + sqrt (5 / 3 * v) in
    a < b /\ uquad_mean a b = m /\ uquad_var a b = v /\
    (forall x a0 b0, cdf_uquad a b (Formulas_gen.array_to_uquad_default_bounds O x m v a0 b0) = ncdf erf m v x) /\
    (forall x y a0 b0, x < y ->
       Formulas_gen.array_to_uquad_default_bounds O x m v a0 b0 < Formulas_gen.array_to_uquad_default_bounds O y m v a0 b0).
  Proof.
    intros Hv a b.
    destruct (F_default_bounds erf erfinv m v (Rlt_le _ _ Hv)) as (_ & _ & M1 & V1 & Hlt).
    destruct (Hlt Hv) as [_ Hab].
    change (uquad_default_a O m v) with a in *. change (uquad_default_b O m v) with b in *.
    destruct (F_uquad erf erfinv H m v a b Hv Hab) as (A & B & C).
    repeat split; auto; intros; rewrite !array_to_uquad_default_bounds_tie; auto.
  Qed.

  Lemma source_zinnharvey m v : 0 < v ->
    (forall x, x <> m ->
       ncdf erf m v (Formulas_gen.array_zinnharvey_low O x m v) = halfnormal_cdf erf (Rabs ((x - m) / sqrt v)) /\
       ncdf erf m v (Formulas_gen.array_zinnharvey_high O x m v) = 1 - halfnormal_cdf erf (Rabs ((x - m) / sqrt v))) /\
    (forall x y, x <> m -> Rabs (x - m) < Rabs (y - m) ->
       Formulas_gen.array_zinnharvey_low O x m v < Formulas_gen.array_zinnharvey_low O y m v /\
       Formulas_gen.array_zinnharvey_high O y m v < Formulas_gen.array_zinnharvey_high O x m v) /\
    (forall x, Formulas_gen.array_zinnharvey_high O x m v - m = - (Formulas_gen.array_zinnharvey_low O x m v - m)).
  Proof.
    intros Hv. destruct (F_zinnharvey erf erfinv H m v Hv) as (A & B & C).
    repeat split; intros; rewrite ?array_zinnharvey_low_tie, ?array_zinnharvey_high_tie;
      try (apply A; assumption); try (apply B; assumption); apply C.
  Qed.
End SourceR.

Section SourceBoxcox.
  Variables erf erfinv : R -> R.
  Notation O := (Rops erf erfinv).
  (* both sides are translated source terms: BoxCox._normalize after array_boxcox is the shift *)
  Lemma source_boxcox_roundtrip lmbda shift x :
    fisclose O lmbda (n0 O) = true \/ 0 < lmbda * (x + shift) + 1 ->
    Formulas_gen.BoxCox_normalize O lmbda (Formulas_gen.array_boxcox O x lmbda shift) = x + shift.
  Proof.
    intros Hc. rewrite array_boxcox_tie. apply source_boxcox_inverse.
    rewrite fisclose_0 in Hc. exact Hc.
  Qed.
End SourceBoxcox.
