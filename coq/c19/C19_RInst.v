(* C19_RInst.v — the real-number instance of NumOps used by the C19 theorems, the target
   distribution functions, and the simplification lemmas that expose the model at R.

   erf / erfinv are PARAMETERS of the instance (section variables wherever a theorem needs
   facts about them).  [Rpow] is the mathematical real power restricted to where it is
   defined (integer exponents for any base, arbitrary exponents for positive bases). *)
From Coq Require Import Reals ZArith List Lra Lia Bool.
From GS Require Import Num Loops C19_Model.
Import ListNotations.
Open Scope R_scope.

Definition Rpow (x y : R) : R :=
  if Req_EM_T (IZR (Int_part y)) y then powerRZ x (Int_part y)
  else if Rlt_dec 0 x then Rpower x y else 0.

Definition Rltb (x y : R) : bool := if Rlt_dec x y then true else false.
Definition Rleb (x y : R) : bool := if Rle_dec x y then true else false.
Definition Reqb (x y : R) : bool := if Req_EM_T x y then true else false.

Definition Roracle (erf erfinv : R -> R) (code : nat) (args : list R) : R :=
  match args with
  | [x] => if Nat.eqb code ORA_ERF then erf x else if Nat.eqb code ORA_ERFINV then erfinv x else 0
  | _ => 0
  end.

(* natan2 is not used by the C19 model *)
Definition Rops (erf erfinv : R -> R) : NumOps R :=
  mkNumOps R 0 1 Rplus Rminus Rmult Rdiv Ropp Rabs sqrt cos sin exp ln acos asin atan
    (fun _ _ => 0) Rpow Rltb Rleb Reqb (fun _ => false) IZR PI (Roracle erf erfinv).

(* ------------------------------------------------------------------ target laws *)
Section Laws.
  Variable erf : R -> R.
  (* standard normal cdf and the cdf of N(m, v) *)
  Definition Phi0 (z : R) : R := / 2 * (1 + erf (z / sqrt 2)).
  Definition ncdf (m v x : R) : R := Phi0 ((x - m) / sqrt v).
  (* cdf of |Z|, Z standard normal, at z >= 0 *)
  Definition halfnormal_cdf (z : R) : R := 2 * Phi0 z - 1.
  (* target cdfs on their supports *)
  Definition cdf_uniform (low high y : R) : R := (y - low) / (high - low).
  Definition cdf_lognormal (m v y : R) : R := ncdf m v (ln y).
  Definition cdf_arcsine (a b y : R) : R := 2 / PI * asin (sqrt ((y - a) / (b - a))).
  Definition cdf_uquad (a b y : R) : R :=
    let al := 12 / (b - a) ^ 3 in
    let be := (a + b) / 2 in
    al / 3 * ((y - be) ^ 3 + (be - a) ^ 3).
End Laws.

(* moments of the target laws (standard formulas, taken from the definitions of the laws) *)
Definition arcsine_mean (a b : R) : R := (a + b) / 2.
Definition arcsine_var (a b : R) : R := (b - a) ^ 2 / 8.
Definition uquad_mean (a b : R) : R := (a + b) / 2.
Definition uquad_var (a b : R) : R := 3 * (b - a) ^ 2 / 20.

(* sample moments of a finite list *)
Definition Rsum (l : list R) : R := fold_right Rplus 0 l.
Definition Rmean (l : list R) : R := Rsum l / INR (length l).
Definition Rvar (l : list R) : R := Rmean (map (fun x => (x - Rmean l) ^ 2) l).

(* ------------------------------------------------------------------ Rpow facts *)
Lemma Int_part_IZR (z : Z) : Int_part (IZR z) = z.
Proof.
  destruct (base_Int_part (IZR z)) as [H1 H2].
  apply le_IZR in H1.
  assert (H3 : (z - 1 < Int_part (IZR z))%Z).
  { apply lt_IZR. rewrite minus_IZR. lra. }
  lia.
Qed.

Lemma Rpow_IZR (x : R) (z : Z) : Rpow x (IZR z) = powerRZ x z.
Proof.
  unfold Rpow. rewrite Int_part_IZR.
  destruct (Req_EM_T (IZR z) (IZR z)) as [_|n]; [reflexivity | contradiction n; reflexivity].
Qed.

Lemma Rpow_pos (x y : R) : 0 < x -> Rpow x y = Rpower x y.
Proof.
  intros Hx. unfold Rpow.
  destruct (Req_EM_T (IZR (Int_part y)) y) as [e|n].
  - rewrite powerRZ_Rpower by assumption. now rewrite e.
  - destruct (Rlt_dec 0 x); [reflexivity | contradiction].
Qed.

Lemma Rpow_3 (x : R) : Rpow x 3 = x ^ 3.
Proof. change 3 with (IZR 3). rewrite Rpow_IZR. reflexivity. Qed.

Lemma Rpower_third_cube (y : R) : 0 < y -> (Rpower y (1 / 3)) ^ 3 = y.
Proof.
  intros Hy. simpl. rewrite Rmult_1_r. rewrite <- !Rpower_plus.
  replace (1 / 3 + (1 / 3 + 1 / 3)) with 1 by lra. now apply Rpower_1.
Qed.

(* ------------------------------------------------------------------ model constants at R *)
Section AtR.
  Variables erf erfinv : R -> R.
  Let O := Rops erf erfinv.

  Lemma two_R : two O = 2.
  Proof. reflexivity. Qed.
  Lemma three_R : three O = 3.
  Proof. reflexivity. Qed.
  Lemma half_R : half O = / 2.
  Proof. unfold half, nlit. simpl. change (IZR (Z.pow_pos 10 1)) with 10. lra. Qed.
  Lemma third_R : third O = 1 / 3.
  Proof. reflexivity. Qed.
  Lemma erf_R x : C19_Model.erf O x = erf x.
  Proof. reflexivity. Qed.
  Lemma erfinv_R x : C19_Model.erfinv O x = erfinv x.
  Proof. reflexivity. Qed.
  Lemma sq_R x : sq O x = x * x.
  Proof. reflexivity. Qed.
  Lemma nmax_R a b : nmax O a b = Rmax a b.
  Proof.
    unfold nmax; simpl. unfold Rltb, Rmax.
    destruct (Rlt_dec a b), (Rle_dec a b); try reflexivity; lra.
  Qed.
  Lemma isclose0_R l : isclose0 O l = true <-> Rabs l <= 1 / 10 ^ 8.
  Proof.
    unfold isclose0, nlit; simpl. unfold Rleb.
    change (IZR (Z.pow_pos 10 8)) with 100000000.
    replace (10 * (10 * (10 * (10 * (10 * (10 * (10 * (10 * 1)))))))) with 100000000 by lra.
    destruct (Rle_dec (Rabs l) (1 / 100000000)); split; intros; try reflexivity; try assumption; try discriminate.
    contradiction.
  Qed.
  Lemma nltb_R x y : nltb O x y = true <-> x < y.
  Proof. simpl. unfold Rltb. destruct (Rlt_dec x y); split; intros; auto; discriminate. Qed.
  Lemma nleb_R x y : nleb O x y = true <-> x <= y.
  Proof. simpl. unfold Rleb. destruct (Rle_dec x y); split; intros; auto; discriminate. Qed.
  Lemma nltb_R_false x y : nltb O x y = false <-> y <= x.
  Proof. simpl. unfold Rltb. destruct (Rlt_dec x y); split; intros; auto; try discriminate; lra. Qed.
  Lemma nleb_R_false x y : nleb O x y = false <-> y < x.
  Proof. simpl. unfold Rleb. destruct (Rle_dec x y); split; intros; auto; try discriminate; lra. Qed.
End AtR.
