(* C19_Discrete.v — force_moments (exact sample moments), discrete / binary partitions,
   'equal' and 'arithmetic' thresholds, Field.transform wrappers and stored fields. *)
From Coq Require Import Reals ZArith List Lra Lia Bool Psatz Sorting.Sorted Permutation.
From GS Require Import Num Loops C19_Model C19_RInst C19_Proofs.
Import ListNotations.
Open Scope R_scope.

(* ------------------------------------------------------------------ sample moments *)
Lemma Rsum_map_affine (a b : R) (l : list R) :
  Rsum (map (fun x => a * x + b) l) = a * Rsum l + INR (length l) * b.
Proof.
  induction l as [|x l IH]; [simpl; ring|].
  change (length (x :: l)) with (S (length l)). rewrite S_INR. simpl. rewrite IH. ring.
Qed.

Lemma Rmean_map_affine (a b : R) (l : list R) : l <> [] ->
  Rmean (map (fun x => a * x + b) l) = a * Rmean l + b.
Proof.
  intros Hl. unfold Rmean. rewrite Rsum_map_affine, map_length.
  assert (INR (length l) <> 0).
  { apply not_0_INR. destruct l; [congruence | simpl; lia]. }
  field. assumption.
Qed.

Lemma Rvar_map_affine (a b : R) (l : list R) : l <> [] ->
  Rvar (map (fun x => a * x + b) l) = a * a * Rvar l.
Proof.
  intros Hl. unfold Rvar. rewrite Rmean_map_affine by assumption. rewrite map_map.
  rewrite (map_ext (fun x => (a * x + b - (a * Rmean l + b)) ^ 2)
                   (fun x => (a * a) * ((x - Rmean l) ^ 2) + 0)) by (intros; ring).
  rewrite <- (map_map (fun x => (x - Rmean l) ^ 2) (fun y => a * a * y + 0)).
  rewrite Rmean_map_affine; [ring|]. destruct l; [congruence | discriminate].
Qed.

Section MomentsR.
  Variables erf erfinv : R -> R.
  Notation O := (Rops erf erfinv).

  Lemma fold_left_Rplus (l : list R) (a : R) : fold_left Rplus l a = a + Rsum l.
  Proof. revert a; induction l as [|x l IH]; intros a; simpl; [ring|]. rewrite IH. ring. Qed.

  Lemma lmean_R (l : list R) : lmean O l = Rmean l.
  Proof.
    unfold lmean, lsum, Rmean. simpl. rewrite fold_left_Rplus. rewrite <- INR_IZR_INZ. f_equal. ring.
  Qed.

  Lemma lvar_R (l : list R) : lvar O l = Rvar l.
  Proof.
    unfold lvar, Rvar. rewrite !lmean_R. f_equal. apply map_ext. intros x. rewrite sq_R. simpl. ring.
  Qed.

  (* array_force_moments gives exactly the requested sample mean and variance *)
  Theorem force_moments_exact (field : list R) (mean var : R) :
    field <> [] -> 0 < Rvar field -> 0 <= var ->
    let out := array_force_moments O field mean var in
    length out = length field /\ Rmean out = mean /\ Rvar out = var.
  Proof.
    intros Hl Hv Hvar out. subst out. unfold array_force_moments. rewrite lmean_R, lvar_R. simpl.
    set (r := sqrt (var / Rvar field)).
    rewrite (map_ext (fun x => r * (x - Rmean field) + mean) (fun x => r * x + (mean - r * Rmean field)))
      by (intros; ring).
    split; [apply map_length|]. split.
    - rewrite Rmean_map_affine by assumption. ring.
    - rewrite Rvar_map_affine by assumption. unfold r. rewrite sqrt_sqrt.
      + field. lra.
      + apply Rmult_le_pos; [assumption|]. apply Rlt_le, Rinv_0_lt_compat, Hv.
  Qed.
End MomentsR.

(* ------------------------------------------------------------------ folds that pick at most one index *)
Lemma fold_pick_none {A} (P : nat -> bool) (f : nat -> A) (l : list nat) (r0 : A) :
  (forall i, In i l -> P i = false) ->
  fold_left (fun r i => if P i then f i else r) l r0 = r0.
Proof.
  revert r0; induction l as [|a l IH]; intros r0 H; simpl; [reflexivity|].
  rewrite (H a) by (left; reflexivity). apply IH. intros i Hi. apply H. right; assumption.
Qed.

Lemma fold_pick_one {A} (P : nat -> bool) (f : nat -> A) (l : list nat) (r0 : A) (j : nat) :
  NoDup l -> In j l -> P j = true -> (forall i, In i l -> i <> j -> P i = false) ->
  fold_left (fun r i => if P i then f i else r) l r0 = f j.
Proof.
  revert r0; induction l as [|a l IH]; intros r0 ND Hj Pj Hothers; simpl; [contradiction|].
  inversion ND as [|? ? Hnin ND']; subst.
  destruct (Nat.eq_dec a j) as [->|Hne].
  - rewrite Pj. apply fold_pick_none. intros i Hi. apply Hothers; [right; assumption|].
    intros ->. contradiction.
  - rewrite (Hothers a) by (try (left; reflexivity); assumption).
    destruct Hj as [->|Hj]; [contradiction Hne; reflexivity|].
    apply IH; try assumption. intros i Hi. apply Hothers. right; assumption.
Qed.

Lemma last_nth {A} (l : list A) (d : A) : last l d = nth (length l - 1) l d.
Proof.
  induction l as [|x l IH]; [reflexivity|]. destruct l as [|y l]; [reflexivity|].
  change (last (x :: y :: l) d) with (last (y :: l) d). rewrite IH. simpl. now rewrite Nat.sub_0_r.
Qed.

(* ------------------------------------------------------------------ discrete classes at R *)
Section DiscreteR.
  Variables erf erfinv : R -> R.
  Notation O := (Rops erf erfinv).

  (* class index i of x for thresholds thr:  thr[i-1] < x <= thr[i]  (open ends for i = 0, i = length thr) *)
  Definition in_class (thr : list R) (x : R) (i : nat) : Prop :=
    (i <= length thr)%nat /\ (i = 0%nat \/ nth (i - 1) thr 0 < x) /\ (i = length thr \/ x <= nth i thr 0).

  Lemma ascending_adj (thr : list R) : ascending O thr = true ->
    forall i, (S i < length thr)%nat -> nth i thr 0 < nth (S i) thr 0.
  Proof.
    induction thr as [|x t IH]; intros H i Hi; [simpl in Hi; lia|].
    destruct t as [|y t']; [simpl in Hi; lia|].
    change (ascending O (x :: y :: t')) with (nltb O x y && ascending O (y :: t')) in H.
    apply andb_prop in H as [H1 H2].
    destruct i as [|i].
    - simpl. now apply nltb_R in H1.
    - change (nth (S i) (x :: y :: t') 0) with (nth i (y :: t') 0).
      change (nth (S (S i)) (x :: y :: t') 0) with (nth (S i) (y :: t') 0).
      apply IH; [assumption | simpl in *; lia].
  Qed.

  Lemma ascending_nth (thr : list R) : ascending O thr = true ->
    forall i j, (i < j)%nat -> (j < length thr)%nat -> nth i thr 0 < nth j thr 0.
  Proof.
    intros H i j Hij. induction Hij as [|j Hij IH]; intros Hj.
    - now apply ascending_adj.
    - apply Rlt_trans with (nth j thr 0); [apply IH; lia | now apply ascending_adj].
  Qed.

  Lemma in_class_exists (thr : list R) (x : R) : exists i, in_class thr x i.
  Proof.
    assert (G : forall d n, (n + d = length thr)%nat -> (n = 0%nat \/ nth (n - 1) thr 0 < x) ->
                exists i, in_class thr x i).
    { induction d as [|d IH]; intros n Hn Hlow.
      - exists n. unfold in_class. repeat split; [lia | assumption | left; lia].
      - destruct (Rle_dec x (nth n thr 0)) as [Hle|Hgt].
        + exists n. unfold in_class. repeat split; [lia | assumption | right; assumption].
        + apply (IH (S n)); [lia|]. right. replace (S n - 1)%nat with n by lia. lra. }
    apply (G (length thr) 0%nat); [lia | left; reflexivity].
  Qed.

  Lemma in_class_below (thr : list R) x i : ascending O thr = true -> in_class thr x i ->
    forall j, (j < i)%nat -> nth j thr 0 < x.
  Proof.
    intros Ha (Hi & Hlow & _) j Hj. destruct Hlow as [->|Hlow]; [lia|].
    destruct (Nat.eq_dec j (i - 1)) as [->|Hne]; [assumption|].
    apply Rlt_trans with (nth (i - 1) thr 0); [|assumption]. apply ascending_nth; [assumption | lia | lia].
  Qed.

  Lemma in_class_above (thr : list R) x i : ascending O thr = true -> in_class thr x i ->
    forall j, (i <= j)%nat -> (j < length thr)%nat -> x <= nth j thr 0.
  Proof.
    intros Ha (Hi & _ & Hup) j Hj Hjl. destruct Hup as [->|Hup]; [lia|].
    destruct (Nat.eq_dec j i) as [->|Hne]; [assumption|].
    apply Rle_trans with (nth i thr 0); [assumption|]. apply Rlt_le. apply ascending_nth; [assumption | lia | lia].
  Qed.

  Lemma in_class_unique (thr : list R) x i j : ascending O thr = true ->
    in_class thr x i -> in_class thr x j -> i = j.
  Proof.
    intros Ha Hi Hj.
    destruct (Nat.lt_trichotomy i j) as [Hlt|[Heq|Hgt]]; [exfalso | assumption | exfalso].
    - generalize (in_class_below thr x j Ha Hj i Hlt). intros H1.
      assert (H2 : x <= nth i thr 0).
      { apply (in_class_above thr x i Ha Hi i); [lia|]. destruct Hj as (Hjl & _). lia. }
      lra.
    - generalize (in_class_below thr x i Ha Hi j Hgt). intros H1.
      assert (H2 : x <= nth j thr 0).
      { apply (in_class_above thr x j Ha Hj j); [lia|]. destruct Hi as (Hil & _). lia. }
      lra.
  Qed.

  (* the masked assignments of array_discrete put the value of the class of x into the cell,
     whatever the cell contained before *)
  Lemma discrete_elem_class (values thr : list R) (g x : R) (i : nat) :
    ascending O thr = true -> thr <> [] -> length values = S (length thr) -> in_class thr x i ->
    discrete_elem O values thr g x = nth i values 0.
  Proof.
    intros Ha Hne Hlen Hc.
    assert (Hk : (1 <= length thr)%nat) by (destruct thr; [congruence | simpl; lia]).
    generalize (in_class_below thr x i Ha Hc); intros Hbelow.
    generalize (in_class_above thr x i Ha Hc); intros Habove.
    destruct Hc as (Hi & Hlow & Hup).
    unfold discrete_elem. rewrite !last_nth. rewrite Hlen.
    replace (S (length thr) - 1)%nat with (length thr) by lia.
    replace (S (length thr) - 2)%nat with (length thr - 1)%nat by lia.
    simpl n0.
    set (P := fun j => nltb O (nth j thr 0) x && nleb O x (nth (S j) thr 0)).
    set (f := fun j => nth (S j) values 0).
    change (fun (r : R) (j : nat) => if nltb O (nth j thr 0) x && nleb O x (nth (S j) thr 0)
                                     then nth (S j) values 0 else r)
      with (fun (r : R) (j : nat) => if P j then f j else r).
    assert (Pfalse_low : forall j, (S j < i)%nat -> P j = false).
    { intros j Hj. unfold P. apply andb_false_intro2. apply nleb_R_false. apply Hbelow. lia. }
    assert (Pfalse_high : forall j, (i <= j)%nat -> (j < length thr)%nat -> P j = false).
    { intros j Hj Hjl. unfold P. apply andb_false_intro1. apply nltb_R_false. now apply Habove. }
    destruct (Nat.eq_dec i 0) as [->|Hi0].
    - (* first class *)
      assert (H0 : x <= nth 0 thr 0) by (apply Habove; lia).
      destruct (nleb O x (nth 0 thr 0)) eqn:E0; [|apply nleb_R_false in E0; lra].
      assert (Hlast : x <= nth (length thr - 1) thr 0) by (apply Habove; lia).
      destruct (nltb O (nth (length thr - 1) thr 0) x) eqn:E1; [apply nltb_R in E1; lra|].
      apply fold_pick_none. intros j Hj. apply in_seq in Hj. apply Pfalse_high; lia.
    - destruct (Nat.eq_dec i (length thr)) as [->|Hik].
      + (* last class *)
        assert (Hlast : nth (length thr - 1) thr 0 < x) by (apply Hbelow; lia).
        destruct (nltb O (nth (length thr - 1) thr 0) x) eqn:E1; [|apply nltb_R_false in E1; lra].
        apply fold_pick_none. intros j Hj. apply in_seq in Hj. apply Pfalse_low; lia.
      + (* inner class i: picked by the loop at index i-1 *)
        assert (Hpick : P (i - 1)%nat = true).
        { unfold P. apply andb_true_intro. split.
          - apply nltb_R. apply Hbelow. lia.
          - apply nleb_R. replace (S (i - 1)) with i by lia. apply Habove; lia. }
        replace (nth i values 0) with (f (i - 1)%nat) by (unfold f; f_equal; lia).
        apply fold_pick_one.
        * apply seq_NoDup.
        * apply in_seq. lia.
        * assumption.
        * intros j Hj Hne'. apply in_seq in Hj.
          destruct (Nat.lt_ge_cases (S j) i) as [Hlt|Hge]; [apply Pfalse_low; assumption|].
          apply Pfalse_high; lia.
  Qed.

  (* ---------------------------------------------------------------- sorting *)
  Lemma insert_sorted_perm x l : Permutation (insert_sorted O x l) (x :: l).
  Proof.
    induction l as [|y t IH]; simpl; [apply Permutation_refl|].
    destruct (Rleb x y); [apply Permutation_refl|].
    apply Permutation_trans with (y :: x :: t); [now apply perm_skip | apply perm_swap].
  Qed.

  Lemma sort_vals_perm l : Permutation (sort_vals O l) l.
  Proof.
    induction l as [|x l IH]; simpl; [apply Permutation_refl|].
    apply Permutation_trans with (x :: sort_vals O l); [apply insert_sorted_perm | now apply perm_skip].
  Qed.

  Lemma insert_sorted_sorted x l : Sorted Rle l -> Sorted Rle (insert_sorted O x l).
  Proof.
    induction l as [|y t IH]; intros Hs; simpl; [repeat constructor|].
    unfold Rleb. destruct (Rle_dec x y) as [Hle|Hgt].
    - constructor; [assumption | constructor; assumption].
    - inversion Hs as [|? ? Hst Hhd]; subst. constructor; [apply IH; assumption|].
      destruct t as [|z t']; simpl.
      + constructor. lra.
      + unfold Rleb. destruct (Rle_dec x z); constructor; try lra. inversion Hhd; subst. assumption.
  Qed.

  Lemma sort_vals_sorted l : Sorted Rle (sort_vals O l).
  Proof. induction l as [|x l IH]; simpl; [constructor | now apply insert_sorted_sorted]. Qed.

  Lemma sorted_adj (l : list R) : Sorted Rle l -> forall i, (S i < length l)%nat -> nth i l 0 <= nth (S i) l 0.
  Proof.
    induction l as [|x t IH]; intros Hs i Hi; [simpl in Hi; lia|].
    inversion Hs as [|? ? Hst Hhd]; subst.
    destruct t as [|y t']; [simpl in Hi; lia|].
    destruct i as [|i].
    - simpl. inversion Hhd; subst. assumption.
    - change (nth (S i) (x :: y :: t') 0) with (nth i (y :: t') 0).
      change (nth (S (S i)) (x :: y :: t') 0) with (nth (S i) (y :: t') 0).
      apply IH; [assumption | simpl in *; lia].
  Qed.

  Lemma sorted_nth (l : list R) : Sorted Rle l ->
    forall i j, (i <= j)%nat -> (j < length l)%nat -> nth i l 0 <= nth j l 0.
  Proof.
    intros Hs i j Hij. induction Hij as [|j Hij IH]; intros Hj; [lra|].
    apply Rle_trans with (nth j l 0); [apply IH; lia | now apply sorted_adj].
  Qed.

  Lemma midpoints_length (v : list R) : length (midpoints O v) = (length v - 1)%nat.
  Proof.
    induction v as [|x t IH]; [reflexivity|]. destruct t as [|y t']; [reflexivity|].
    change (midpoints O (x :: y :: t')) with (ndiv O (nadd O y x) (two O) :: midpoints O (y :: t')).
    simpl length in *. rewrite IH. lia.
  Qed.

  Lemma midpoints_nth (v : list R) i : (S i < length v)%nat ->
    nth i (midpoints O v) 0 = (nth i v 0 + nth (S i) v 0) / 2.
  Proof.
    revert i; induction v as [|x t IH]; intros i Hi; [simpl in Hi; lia|].
    destruct t as [|y t']; [simpl in Hi; lia|].
    change (midpoints O (x :: y :: t')) with (ndiv O (nadd O y x) (two O) :: midpoints O (y :: t')).
    destruct i as [|i].
    - simpl nth. rewrite two_R. simpl. lra.
    - change (nth (S i) (x :: y :: t') 0) with (nth i (y :: t') 0).
      change (nth (S (S i)) (x :: y :: t') 0) with (nth (S i) (y :: t') 0).
      simpl nth at 1. apply IH. simpl in *; lia.
  Qed.

  (* ---------------------------------------------------------------- the partition theorem *)
  Lemma discrete_setup_checks field values mode mean var vals thr :
    discrete_setup O field values mode mean var = Ok (vals, thr) ->
    ascending O thr = true /\ thr <> [] /\ length vals = S (length thr) /\
    (forall v, In v vals <-> In v values).
  Proof.
    unfold discrete_setup. intros H.
    assert (G : forall vs ts, length vs = S (length ts) \/ (ts = [] /\ True) ->
              (if negb (ascending O ts) then Err E_VALUE
               else match ts with [] => Err E_INDEX | _ :: _ => Ok (vs, ts) end) = Ok (vals, thr) ->
              vs = vals /\ ascending O thr = true /\ thr <> [] /\ length vals = S (length thr)).
    { intros vs ts Hl Hq. destruct (ascending O ts) eqn:Ea; simpl in Hq; [|discriminate].
      destruct ts as [|t0 ts']; [discriminate|]. inversion Hq; subst.
      destruct Hl as [Hl|[Hl _]]; [|discriminate]. repeat split; try assumption. discriminate. }
    destruct mode as [| |given].
    - apply G in H.
      + destruct H as (<- & Ha & Hne & Hl). repeat split; try assumption.
        * intros Hin. eapply Permutation_in; [apply sort_vals_perm | exact Hin].
        * intros Hin. eapply Permutation_in; [apply Permutation_sym, sort_vals_perm | exact Hin].
      + rewrite midpoints_length. destruct (sort_vals O values) as [|s0 st]; [right; split; auto | left; simpl; lia].
    - apply G in H.
      + destruct H as (<- & Ha & Hne & Hl). repeat split; try assumption; auto.
      + unfold equal_thresholds. rewrite map_length, seq_length.
        destruct values as [|v0 vt]; [right; split; auto | left; simpl; lia].
    - destruct (Nat.eqb (length values) (length given + 1)) eqn:El; [|discriminate].
      apply Nat.eqb_eq in El. apply G in H; [|left; lia].
      destruct H as (<- & Ha & Hne & Hl). repeat split; try assumption; auto.
  Qed.

  Theorem discrete_values_partition field values mode mean var vals thr :
    discrete_setup O field values mode mean var = Ok (vals, thr) ->
    (forall v, In v vals <-> In v values) /\ length vals = S (length thr) /\
    forall g x, exists i,
      in_class thr x i /\
      (forall j, in_class thr x j -> j = i) /\
      discrete_elem O vals thr g x = nth i vals 0 /\
      In (discrete_elem O vals thr g x) values.
  Proof.
    intros H. destruct (discrete_setup_checks _ _ _ _ _ _ _ H) as (Ha & Hne & Hl & Hin).
    split; [assumption|]. split; [assumption|]. intros g x.
    destruct (in_class_exists thr x) as [i Hi]. exists i.
    split; [assumption|]. split.
    - intros j Hj. eapply in_class_unique; eassumption.
    - rewrite (discrete_elem_class vals thr g x i Ha Hne Hl Hi). split; [reflexivity|].
      apply Hin. apply nth_In. destruct Hi as (Hi & _). lia.
  Qed.

  Theorem array_discrete_output field values mode mean var g out :
    array_discrete O g field values mode mean var = Ok out ->
    length out = length field /\ Forall (fun y => In y values) out.
  Proof.
    unfold array_discrete. intros H.
    destruct (discrete_setup O field values mode mean var) as [[vals thr]|c] eqn:Es; [|discriminate].
    inversion H; subst. split; [apply map_length|].
    apply Forall_forall. intros y Hy. apply in_map_iff in Hy as (x & <- & _).
    destruct (discrete_values_partition _ _ _ _ _ _ _ Es) as (_ & _ & Hp).
    destruct (Hp g x) as (i & _ & _ & _ & Hin). exact Hin.
  Qed.

  (* 'arithmetic': sorted values, thresholds are the midpoints, and the class value is a nearest value *)
  Theorem arithmetic_thresholds field values mean var vals thr :
    discrete_setup O field values ThrArith mean var = Ok (vals, thr) ->
    Permutation vals values /\ Sorted Rle vals /\
    (forall i, (i < length thr)%nat -> nth i thr 0 = (nth i vals 0 + nth (S i) vals 0) / 2) /\
    (forall g x v, In v values -> Rabs (x - discrete_elem O vals thr g x) <= Rabs (x - v)).
  Proof.
    intros H. generalize (discrete_setup_checks _ _ _ _ _ _ _ H). intros (Ha & Hne & Hl & Hin).
    assert (Hv : vals = sort_vals O values /\ thr = midpoints O vals).
    { unfold discrete_setup in H. destruct (negb (ascending O (midpoints O (sort_vals O values)))); [discriminate|].
      destruct (midpoints O (sort_vals O values)) eqn:Em; [discriminate|]. inversion H; subst. split; [reflexivity|]. now rewrite Em. }
    destruct Hv as [Hv Ht].
    assert (Hs : Sorted Rle vals) by (rewrite Hv; apply sort_vals_sorted).
    assert (Hmid : forall i, (i < length thr)%nat -> nth i thr 0 = (nth i vals 0 + nth (S i) vals 0) / 2).
    { intros i Hi. rewrite Ht at 1. apply midpoints_nth. lia. }
    split; [rewrite Hv; apply sort_vals_perm|]. split; [assumption|]. split; [assumption|].
    intros g x v Hvin. apply Hin in Hvin. apply In_nth with (d := 0) in Hvin as (j & Hj & <-).
    destruct (in_class_exists thr x) as [i Hi].
    rewrite (discrete_elem_class vals thr g x i Ha Hne Hl Hi).
    generalize (in_class_below thr x i Ha Hi); intros Hbelow.
    generalize (in_class_above thr x i Ha Hi); intros Habove.
    destruct Hi as (Hil & _ & _).
    destruct (Nat.lt_trichotomy j i) as [Hlt|[->|Hgt]]; [|lra|].
    - (* v_j <= v_{i-1} <= v_i and x above the midpoint of v_{i-1}, v_i *)
      assert (H1 : nth (i - 1) thr 0 < x) by (apply Hbelow; lia).
      rewrite Hmid in H1 by lia. replace (S (i - 1)) with i in H1 by lia.
      assert (H2 : nth j vals 0 <= nth (i - 1) vals 0) by (apply sorted_nth; [assumption | lia | lia]).
      assert (H3 : nth (i - 1) vals 0 <= nth i vals 0) by (apply sorted_nth; [assumption | lia | lia]).
      unfold Rabs. destruct (Rcase_abs (x - nth i vals 0)), (Rcase_abs (x - nth j vals 0)); lra.
    - assert (H1 : x <= nth i thr 0) by (apply Habove; lia).
      rewrite Hmid in H1 by lia.
      assert (H2 : nth (S i) vals 0 <= nth j vals 0) by (apply sorted_nth; [assumption | lia | lia]).
      assert (H3 : nth i vals 0 <= nth (S i) vals 0) by (apply sorted_nth; [assumption | lia | lia]).
      unfold Rabs. destruct (Rcase_abs (x - nth i vals 0)), (Rcase_abs (x - nth j vals 0)); lra.
  Qed.
End DiscreteR.

(* ------------------------------------------------------------------ 'equal' thresholds, binary *)
Section EqualR.
  Variables erf erfinv : R -> R.
  Hypothesis erf_incr : forall x y, x < y -> erf x < erf y.
  Hypothesis erf_odd : forall x, erf (- x) = - erf x.
  Hypothesis erf_erfinv : forall y, -1 < y < 1 -> erf (erfinv y) = y.
  Notation O := (Rops erf erfinv).
  Notation ncdf := (ncdf erf).

  Lemma equal_threshold_R m v n i :
    equal_threshold O m v n i = m + sqrt (v * 2) * erfinv (2 * (INR i / INR n) - 1).
  Proof. unfold equal_threshold. rewrite two_R. simpl. now rewrite <- !INR_IZR_INZ. Qed.

  Lemma frac_range n i : (0 < i < n)%nat -> 0 < INR i / INR n < 1.
  Proof.
    intros [H0 H1]. assert (0 < INR i) by (apply lt_0_INR; lia). assert (INR i < INR n) by (apply lt_INR; lia).
    split; [apply Rdiv_lt_0_compat; lra|]. apply Rmult_lt_reg_r with (INR n); [lra|]. field_simplify; lra.
  Qed.

  (* thresholds of 'equal' are the i/n quantiles of N(m, v): classes are equally likely, and ascending *)
  Theorem equal_thresholds_quantiles m v n : 0 < v ->
    (forall i, (0 < i < n)%nat -> ncdf m v (equal_threshold O m v n i) = INR i / INR n) /\
    (forall i j, (0 < i)%nat -> (i < j)%nat -> (j < n)%nat ->
       equal_threshold O m v n i < equal_threshold O m v n j) /\
    (forall i, (0 < i)%nat -> (S i < n)%nat ->
       ncdf m v (equal_threshold O m v n (S i)) - ncdf m v (equal_threshold O m v n i) = 1 / INR n).
  Proof.
    intros Hv.
    assert (Hs : 0 < sqrt v) by now apply sqrt_lt_R0.
    assert (Hs2 : 0 < sqrt 2) by (apply sqrt_lt_R0; lra).
    assert (Q : forall i, (0 < i < n)%nat -> ncdf m v (equal_threshold O m v n i) = INR i / INR n).
    { intros i Hi. rewrite equal_threshold_R. unfold C19_RInst.ncdf, C19_RInst.Phi0.
      rewrite sqrt_mult by lra.
      replace ((m + sqrt v * sqrt 2 * erfinv (2 * (INR i / INR n) - 1) - m) / sqrt v / sqrt 2)
        with (erfinv (2 * (INR i / INR n) - 1)) by (field; lra).
      generalize (frac_range n i Hi); intros Hf. rewrite erf_erfinv by lra. lra. }
    split; [exact Q|]. split.
    - intros i j H0 Hij Hj. rewrite !equal_threshold_R.
      apply Rplus_lt_compat_l. apply Rmult_lt_compat_l; [apply sqrt_lt_R0; lra|].
      generalize (frac_range n i ltac:(lia)) (frac_range n j ltac:(lia)); intros Hi' Hj'.
      assert (INR i / INR n < INR j / INR n).
      { unfold Rdiv. apply Rmult_lt_compat_r; [|apply lt_INR; lia].
        apply Rinv_0_lt_compat, lt_0_INR. lia. }
      destruct (Rlt_le_dec (erfinv (2 * (INR i / INR n) - 1)) (erfinv (2 * (INR j / INR n) - 1))) as [|Hle]; [assumption|].
      exfalso. destruct Hle as [Hlt|Heq].
      + apply erf_incr in Hlt. rewrite !erf_erfinv in Hlt by lra. lra.
      + assert (erf (erfinv (2 * (INR j / INR n) - 1)) = erf (erfinv (2 * (INR i / INR n) - 1))) by now rewrite Heq.
        rewrite !erf_erfinv in H1 by lra. lra.
    - intros i H0 Hi. rewrite !Q by lia. rewrite S_INR. field. apply not_0_INR. lia.
  Qed.

  (* binary: two values split at [divide]; with the defaults they are mean -+ sqrt(sill), split at the mean,
     which is the median of N(mean, sill): the two-point law keeps mean and variance *)
  Theorem binary_split g divide upper lower mean sill data :
    let d := opt_or divide mean in
    let u := opt_or upper (mean + sqrt sill) in
    let l := opt_or lower (mean - sqrt sill) in
    array_fn O g (MBinary divide upper lower) mean sill data
      = Ok (map (fun x => if Rle_dec x d then l else u) data) /\
    (divide = None -> upper = None -> lower = None -> 0 < sill ->
       ncdf mean sill d = / 2 /\ (l + u) / 2 = mean /\ ((l - mean) ^ 2 + (u - mean) ^ 2) / 2 = sill).
  Proof.
    intros d u l. split.
    - unfold array_fn, array_discrete, discrete_setup. simpl length. simpl Nat.eqb. cbv iota.
      change (ascending O [opt_or divide mean]) with true. simpl negb.
      cbv iota. f_equal. apply map_ext. intros x. unfold discrete_elem. simpl.
      fold d. unfold Rleb, Rltb.
      destruct (Rle_dec x d), (Rlt_dec d x); try reflexivity; lra.
    - intros -> -> -> Hs. subst d u l. simpl. split; [|split].
      + unfold C19_RInst.ncdf, C19_RInst.Phi0.
        replace ((mean - mean) / sqrt sill / sqrt 2) with 0
          by (field; split; apply Rgt_not_eq, sqrt_lt_R0; lra).
        assert (erf 0 = 0) by (generalize (erf_odd 0); rewrite Ropp_0; lra). rewrite H. lra.
      + lra.
      + assert (sqrt sill * sqrt sill = sill) by (apply sqrt_sqrt; lra). nra.
  Qed.
End EqualR.

(* ------------------------------------------------------------------ wrappers *)
Section WrapR.
  Variables erf erfinv : R -> R.
  Notation O := (Rops erf erfinv).

  Lemma map2_nth (f : R -> R -> R) (a b : list R) i : length a = length b -> (i < length a)%nat ->
    nth i (map2 f a b) 0 = f (nth i a 0) (nth i b 0).
  Proof.
    revert b i; induction a as [|x a IH]; intros [|y b] i Hl Hi; simpl in *; try lia.
    destruct i; [reflexivity|]. apply IH; lia.
  Qed.

  Lemma map2_length (f : R -> R -> R) (a b : list R) : length a = length b -> length (map2 f a b) = length a.
  Proof. revert b; induction a as [|x a IH]; intros [|y b] Hl; simpl in *; try lia. f_equal. apply IH. lia. Qed.

  Definition trend_ok (c : fcfg (T := R)) (data : list R) : Prop :=
    match c_trend c with None => True | Some tr => length tr = length data end.
  Definition trend_at (c : fcfg (T := R)) (i : nat) : R :=
    match c_trend c with None => 0 | Some tr => nth i tr 0 end.

  (* whatever process / keep_mean are, the array function sees (normal-space value) - (field mean) as
     (its input) - (the mean it is told): the standardised value is the one of the field *)
  Theorem wrapper_standardised (c : fcfg) keep_mean data i : trend_ok c data -> (i < length data)%nat ->
    length (pre_process O c keep_mean data) = length data /\
    nth i (pre_process O c keep_mean data) 0 - mean_arg O c true keep_mean
    = c_nf c (nth i data 0 - trend_at c i) - c_mean c.
  Proof.
    unfold trend_ok, trend_at, pre_process, mean_arg. intros Ht Hi.
    set (d1 := match c_trend c with None => data | Some tr => map2 (nsub O) data tr end).
    assert (Hd1 : length d1 = length data /\ nth i d1 0 = nth i data 0 - match c_trend c with None => 0 | Some tr => nth i tr 0 end).
    { unfold d1. destruct (c_trend c) as [tr|].
      - split; [apply map2_length; lia|]. rewrite map2_nth by lia. reflexivity.
      - split; [reflexivity | lra]. }
    destruct Hd1 as [L1 N1].
    destruct keep_mean; simpl negb; simpl andb; cbv iota.
    - rewrite map_length. split; [assumption|].
      rewrite (nth_indep _ 0 (c_nf c 0)) by (rewrite map_length; lia). rewrite map_nth. rewrite N1. reflexivity.
    - rewrite !map_length. split; [assumption|].
      rewrite (nth_indep _ 0 ((fun x => nsub O x (c_mean c)) (c_nf c 0))) by (rewrite !map_length; lia).
      rewrite (map_nth (fun x => nsub O x (c_mean c))). rewrite map_nth. rewrite N1. simpl. ring.
  Qed.

  (* with process = False a transformation that needs the mean / variance only runs on a default-normal field
     and is then handed the field's own mean and the model's sill *)
  Theorem wrapper_guard (c : fcfg) g m keep_mean data out :
    wrapper O g c m false keep_mean data = Ok out -> guarded m = true ->
    default_normal c = true /\ array_fn O g m (c_mean c) (c_sill c) data = Ok out.
  Proof.
    unfold wrapper, mean_arg. simpl negb. simpl andb. intros H Hg. rewrite Hg in H. simpl andb in H.
    destruct (default_normal c); simpl in H; [|discriminate]. split; [reflexivity|].
    destruct (array_fn O g m (c_mean c) (c_sill c) data); [assumption | discriminate].
  Qed.

  (* end-to-end shape of a processed uniform transformation (shows where keep_mean=False re-adds the mean) *)
  Theorem wrapper_uniform_processed (c : fcfg) g low high keep_mean data out i :
    0 < c_sill c -> trend_ok c data -> (i < length data)%nat ->
    wrapper O g c (MUniform low high) true keep_mean data = Ok out ->
    let z := c_nf c (nth i data 0 - trend_at c i) in
    let u := ncdf erf (c_mean c) (c_sill c) z in
    length out = length data /\
    nth i out 0 = c_ni c ((if keep_mean then 0 else c_mean c) + (u * (high - low) + low)) + trend_at c i.
  Proof.
    intros Hs Ht Hi H z u. unfold wrapper in H. simpl in H. inversion H; subst out; clear H.
    destruct (wrapper_standardised c keep_mean data i Ht Hi) as [Lp Np].
    unfold array_to_uniform. simpl opt_or.
    set (pd := pre_process O c keep_mean data) in *.
    set (T := to_uniform_elem O (mean_arg O c true keep_mean) (c_sill c) low high).
    assert (HT : T (nth i pd 0) = u * (high - low) + low).
    { unfold T. rewrite to_uniform_elem_R by assumption. unfold u, z, C19_RInst.ncdf. rewrite Np. reflexivity. }
    unfold post_process, trend_ok, trend_at in *.
    set (d1 := if keep_mean then map T pd else map (fun x => nadd O x (c_mean c)) (map T pd)).
    assert (Hd1 : length d1 = length data /\ nth i d1 0 = (if keep_mean then 0 else c_mean c) + (u * (high - low) + low)).
    { unfold d1. destruct keep_mean.
      - rewrite map_length. split; [assumption|].
        rewrite (nth_indep _ 0 (T 0)) by (rewrite map_length; lia). rewrite map_nth, HT. lra.
      - rewrite !map_length. split; [assumption|].
        rewrite (nth_indep _ 0 ((fun x => nadd O x (c_mean c)) (T 0))) by (rewrite !map_length; lia).
        rewrite (map_nth (fun x => nadd O x (c_mean c))), map_nth, HT. simpl. lra. }
    destruct Hd1 as [L1 N1].
    assert (Hd2 : length (map (c_ni c) d1) = length data /\
                  nth i (map (c_ni c) d1) 0 = c_ni c ((if keep_mean then 0 else c_mean c) + (u * (high - low) + low))).
    { rewrite map_length. split; [assumption|].
      rewrite (nth_indep _ 0 (c_ni c 0)) by (rewrite map_length; lia). now rewrite map_nth, N1. }
    destruct Hd2 as [L2 N2].
    destruct (c_trend c) as [tr|].
    - split; [rewrite map2_length; lia|]. rewrite map2_nth by lia. rewrite N2. reflexivity.
    - split; [assumption|]. rewrite N2. lra.
  Qed.
End WrapR.

(* ------------------------------------------------------------------ stored fields (any number type) *)
Section Store.
  Context {T : Type} (O : NumOps T).

  Lemma lookup_set_same (fs : fields (T := T)) k v : lookup (set_field fs k v) k = Some v.
  Proof.
    induction fs as [|[n w] t IH]; simpl.
    - now rewrite Z.eqb_refl.
    - destruct (Z.eqb n k) eqn:E; simpl; rewrite E; [reflexivity | assumption].
  Qed.

  Lemma lookup_set_other (fs : fields (T := T)) k k' v : k' <> k -> lookup (set_field fs k v) k' = lookup fs k'.
  Proof.
    intros Hne. induction fs as [|[n w] t IH]; simpl.
    - destruct (Z.eqb k k') eqn:E; [apply Z.eqb_eq in E; congruence | reflexivity].
    - destruct (Z.eqb n k) eqn:E; simpl.
      + apply Z.eqb_eq in E; subst. destruct (Z.eqb k k') eqn:E'; [apply Z.eqb_eq in E'; congruence | reflexivity].
      + destruct (Z.eqb n k'); [reflexivity | assumption].
  Qed.

  (* Field.transform: the returned values do not depend on the store argument; they are stored under the
     selected name (the source name for store=True), nothing else changes, store=False changes nothing *)
  Theorem transform_store g (c : fcfg) fs m field s process keep_mean fs' out :
    transform_step O g c fs m field s process keep_mean = Ok (fs', out) ->
    (exists data, lookup fs field = Some data /\ wrapper O g c m process keep_mean data = Ok out) /\
    let name := fst (store_config s field) in
    (s = StFalse -> fs' = fs) /\
    (s <> StFalse -> lookup fs' name = Some out /\ forall k, k <> name -> lookup fs' k = lookup fs k) /\
    (s = StTrue -> name = field).
  Proof.
    unfold transform_step. intros H.
    destruct (negb process && guarded m && negb (default_normal c)); [discriminate|].
    destruct (lookup fs field) as [data|] eqn:El; [|discriminate].
    destruct (wrapper O g c m process keep_mean data) as [o|e] eqn:Ew; [|discriminate].
    split; [exists data; split; [reflexivity|]|].
    - destruct s; simpl in H; inversion H; subst; assumption.
    - destruct s; simpl in H; inversion H; subst; simpl; repeat split; try congruence; intros.
      + apply lookup_set_same.
      + now apply lookup_set_other.
      + apply lookup_set_same.
      + now apply lookup_set_other.
  Qed.
End Store.
