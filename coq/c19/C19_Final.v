(* C19_Final.v — the theorems of C19 in the form stated in props/C19.v: quantified over the oracle
   functions erf / erfinv under the explicit hypothesis bundle [erf_hyps]. *)
From Coq Require Import Reals ZArith List Lra Lia Bool.
From GS Require Import Num Loops C19_Model C19_RInst C19_Proofs C19_Discrete.
Import ListNotations.
Open Scope R_scope.

(* what is assumed of scipy.special.erf / erfinv *)
Definition erf_hyps (erf erfinv : R -> R) : Prop :=
  (forall x y, x < y -> erf x < erf y) /\
  (forall x, erf (- x) = - erf x) /\
  (forall x, -1 < erf x < 1) /\
  (forall x, erfinv (erf x) = x) /\
  (forall y, -1 < y < 1 -> erf (erfinv y) = y).

(* the hypotheses are satisfiable: 2/pi * atan and tan(pi/2 * y) have all five properties *)
Lemma erf_hyps_satisfiable : exists erf erfinv, erf_hyps erf erfinv.
Proof.
  exists (fun x => 2 / PI * atan x), (fun y => tan (PI / 2 * y)).
  generalize PI_RGT_0; intros HPI.
  assert (Hc : 0 < 2 / PI) by (apply Rdiv_lt_0_compat; lra).
  repeat split.
  - intros x y H. apply Rmult_lt_compat_l; [assumption | now apply atan_increasing].
  - intros x. rewrite atan_opp. ring.
  - destruct (atan_bound x) as [H _].
    apply Rmult_lt_reg_r with (PI / 2); [lra|]. field_simplify; lra.
  - destruct (atan_bound x) as [_ H].
    apply Rmult_lt_reg_r with (PI / 2); [lra|]. field_simplify; lra.
  - intros x. replace (PI / 2 * (2 / PI * atan x)) with (atan x) by (field; lra). apply tan_atan.
  - intros y [H1 H2]. rewrite atan_tan; [field; lra|]. split; nra.
Qed.

Section Final.
  Variables erf erfinv : R -> R.
  Hypothesis H : erf_hyps erf erfinv.
  Notation O := (Rops erf erfinv).

  Let h1 := proj1 H.
  Let h2 := proj1 (proj2 H).
  Let h3 := proj1 (proj2 (proj2 H)).
  Let h4 := proj1 (proj2 (proj2 (proj2 H))).
  Let h5 := proj2 (proj2 (proj2 (proj2 H))).

  Lemma F_uniform m v low high : 0 < v -> low < high ->
    (forall x, cdf_uniform low high (to_uniform_elem O m v low high x) = ncdf erf m v x) /\
    (forall x, low < to_uniform_elem O m v low high x < high) /\
    (forall x y, x < y -> to_uniform_elem O m v low high x < to_uniform_elem O m v low high y).
  Proof. apply uniform_pushforward; assumption. Qed.

  Lemma F_lognormal m v :
    (forall x, cdf_lognormal erf m v (nexp O x) = ncdf erf m v x) /\
    (forall x, 0 < nexp O x) /\
    (forall x y, x < y -> nexp O x < nexp O y).
  Proof. apply lognormal_pushforward. Qed.

  Lemma F_arcsine m v a b : 0 < v -> a < b ->
    (forall x, cdf_arcsine a b (to_arcsin_elem O m v a b x) = ncdf erf m v x) /\
    (forall x, a < to_arcsin_elem O m v a b x < b) /\
    (forall x y, x < y -> to_arcsin_elem O m v a b x < to_arcsin_elem O m v a b y).
  Proof. apply arcsine_pushforward; assumption. Qed.

  Lemma F_uquad m v a b : 0 < v -> a < b ->
    (forall x, cdf_uquad a b (to_uquad_elem O m v a b x) = ncdf erf m v x) /\
    (forall x, a < to_uquad_elem O m v a b x < b) /\
    (forall x y, x < y -> to_uquad_elem O m v a b x < to_uquad_elem O m v a b y).
  Proof. apply uquad_pushforward; assumption. Qed.

  Lemma F_default_bounds m v : 0 <= v ->
    arcsine_mean (arcsin_default_a O m v) (arcsin_default_b O m v) = m /\
    arcsine_var (arcsin_default_a O m v) (arcsin_default_b O m v) = v /\
    uquad_mean (uquad_default_a O m v) (uquad_default_b O m v) = m /\
    uquad_var (uquad_default_a O m v) (uquad_default_b O m v) = v /\
    (0 < v -> arcsin_default_a O m v < arcsin_default_b O m v /\
              uquad_default_a O m v < uquad_default_b O m v).
  Proof. apply default_bounds_moments. Qed.

  Lemma F_zinnharvey m v : 0 < v ->
    (forall x, x <> m ->
       ncdf erf m v (zinnharvey_elem O false m v x) = halfnormal_cdf erf (Rabs ((x - m) / sqrt v)) /\
       ncdf erf m v (zinnharvey_elem O true m v x) = 1 - halfnormal_cdf erf (Rabs ((x - m) / sqrt v))) /\
    (forall x y, x <> m -> Rabs (x - m) < Rabs (y - m) ->
       zinnharvey_elem O false m v x < zinnharvey_elem O false m v y /\
       zinnharvey_elem O true m v y < zinnharvey_elem O true m v x) /\
    (forall x, zinnharvey_elem O true m v x - m = - (zinnharvey_elem O false m v x - m)).
  Proof. apply zinnharvey_normal; assumption. Qed.

  Lemma F_boxcox lmbda shift x :
    (isclose0 O lmbda = true ->
       0 < array_boxcox_elem O lmbda shift x /\
       boxcox_normalize O lmbda (array_boxcox_elem O lmbda shift x) = x + shift) /\
    (isclose0 O lmbda = false -> 0 < lmbda * (x + shift) + 1 ->
       0 < array_boxcox_elem O lmbda shift x /\
       boxcox_normalize O lmbda (array_boxcox_elem O lmbda shift x) = x + shift /\
       array_boxcox_elem O lmbda shift x = boxcox_denormalize O lmbda (x + shift)).
  Proof. apply boxcox_inverts_normalizer. Qed.

  Lemma F_equal_thresholds m v n : 0 < v ->
    (forall i, (0 < i < n)%nat -> ncdf erf m v (equal_threshold O m v n i) = INR i / INR n) /\
    (forall i j, (0 < i)%nat -> (i < j)%nat -> (j < n)%nat ->
       equal_threshold O m v n i < equal_threshold O m v n j) /\
    (forall i, (0 < i)%nat -> (S i < n)%nat ->
       ncdf erf m v (equal_threshold O m v n (S i)) - ncdf erf m v (equal_threshold O m v n i) = 1 / INR n).
  Proof. apply equal_thresholds_quantiles; assumption. Qed.

  Lemma F_binary g divide upper lower mean sill data :
    let d := opt_or divide mean in
    let u := opt_or upper (mean + sqrt sill) in
    let l := opt_or lower (mean - sqrt sill) in
    array_fn O g (MBinary divide upper lower) mean sill data
      = Ok (map (fun x => if Rle_dec x d then l else u) data) /\
    (divide = None -> upper = None -> lower = None -> 0 < sill ->
       ncdf erf mean sill d = / 2 /\ (l + u) / 2 = mean /\ ((l - mean) ^ 2 + (u - mean) ^ 2) / 2 = sill).
  Proof. apply binary_split; assumption. Qed.
End Final.
