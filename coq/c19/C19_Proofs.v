(* C19_Proofs.v — push-forward identities of the continuous transformations at R.
   erf / erfinv are section variables with explicit hypotheses; after the section closes every
   theorem is universally quantified over them. *)
From Coq Require Import Reals ZArith List Lra Lia Bool Psatz.
From GS Require Import Num Loops C19_Model C19_RInst.
Import ListNotations.
Open Scope R_scope.

Section Push.
  Variables erf erfinv : R -> R.
  Hypothesis erf_incr : forall x y, x < y -> erf x < erf y.
  Hypothesis erf_odd : forall x, erf (- x) = - erf x.
  Hypothesis erf_range : forall x, -1 < erf x < 1.
  Hypothesis erfinv_erf : forall x, erfinv (erf x) = x.
  Hypothesis erf_erfinv : forall y, -1 < y < 1 -> erf (erfinv y) = y.

  Notation O := (Rops erf erfinv).
  Notation Phi0 := (Phi0 erf).
  Notation ncdf := (ncdf erf).

  (* ---------------------------------------------------------------- facts about Phi *)
  Lemma sqrt2_pos : 0 < sqrt 2.
  Proof. apply sqrt_lt_R0; lra. Qed.

  Lemma erf_0 : erf 0 = 0.
  Proof. generalize (erf_odd 0). rewrite Ropp_0. lra. Qed.

  Lemma Phi0_range z : 0 < Phi0 z < 1.
  Proof. unfold C19_RInst.Phi0. generalize (erf_range (z / sqrt 2)). lra. Qed.

  Lemma Phi0_incr x y : x < y -> Phi0 x < Phi0 y.
  Proof.
    intros H. unfold C19_RInst.Phi0.
    assert (x / sqrt 2 < y / sqrt 2).
    { unfold Rdiv. apply Rmult_lt_compat_r; [apply Rinv_0_lt_compat, sqrt2_pos | assumption]. }
    generalize (erf_incr _ _ H0). lra.
  Qed.

  Lemma Phi0_sym z : Phi0 (- z) = 1 - Phi0 z.
  Proof.
    unfold C19_RInst.Phi0. replace (- z / sqrt 2) with (- (z / sqrt 2)) by (field; generalize sqrt2_pos; lra).
    rewrite erf_odd. lra.
  Qed.

  Lemma ncdf_range m v x : 0 < ncdf m v x < 1.
  Proof. apply Phi0_range. Qed.

  Lemma ncdf_incr m v x y : 0 < v -> x < y -> ncdf m v x < ncdf m v y.
  Proof.
    intros Hv H. unfold C19_RInst.ncdf. apply Phi0_incr.
    unfold Rdiv. apply Rmult_lt_compat_r; [apply Rinv_0_lt_compat, sqrt_lt_R0; assumption | lra].
  Qed.

  Lemma erfinv_incr x y : -1 < x < 1 -> -1 < y < 1 -> x < y -> erfinv x < erfinv y.
  Proof.
    intros Hx Hy H. destruct (Rlt_le_dec (erfinv x) (erfinv y)) as [|Hle]; [assumption|].
    exfalso. destruct Hle as [Hlt|Heq].
    - apply erf_incr in Hlt. rewrite !erf_erfinv in Hlt by assumption. lra.
    - assert (erf (erfinv y) = erf (erfinv x)) by now rewrite Heq.
      rewrite !erf_erfinv in H0 by assumption. lra.
  Qed.

  (* the argument of erf in the code, sqrt(2 var), against the standardised value *)
  Lemma std_arg m v x : 0 < v -> (x - m) / sqrt (2 * v) = (x - m) / sqrt v / sqrt 2.
  Proof.
    intros Hv. rewrite sqrt_mult by lra.
    field. split; apply Rgt_not_eq; first [apply sqrt2_pos | apply sqrt_lt_R0; assumption].
  Qed.

  (* ---------------------------------------------------------------- uniform *)
  Lemma to_uniform_elem_R m v low high x : 0 < v ->
    to_uniform_elem O m v low high x = ncdf m v x * (high - low) + low.
  Proof.
    intros Hv. unfold to_uniform_elem. rewrite half_R, two_R, erf_R. simpl.
    rewrite std_arg by assumption. reflexivity.
  Qed.

  Theorem uniform_pushforward m v low high : 0 < v -> low < high ->
    (forall x, cdf_uniform low high (to_uniform_elem O m v low high x) = ncdf m v x) /\
    (forall x, low < to_uniform_elem O m v low high x < high) /\
    (forall x y, x < y -> to_uniform_elem O m v low high x < to_uniform_elem O m v low high y).
  Proof.
    intros Hv Hlh. split; [|split].
    - intros x. rewrite to_uniform_elem_R by assumption. unfold cdf_uniform. field. lra.
    - intros x. rewrite to_uniform_elem_R by assumption.
      generalize (ncdf_range m v x). intros [H0 H1]. split; nra.
    - intros x y Hxy. rewrite !to_uniform_elem_R by assumption.
      generalize (ncdf_incr m v x y Hv Hxy). intros. nra.
  Qed.

  (* ---------------------------------------------------------------- log-normal *)
  Theorem lognormal_pushforward m v :
    (forall x, cdf_lognormal erf m v (nexp O x) = ncdf m v x) /\
    (forall x, 0 < nexp O x) /\
    (forall x y, x < y -> nexp O x < nexp O y).
  Proof.
    split; [|split]; simpl.
    - intros x. unfold cdf_lognormal. now rewrite ln_exp.
    - apply exp_pos.
    - apply exp_increasing.
  Qed.

  (* ---------------------------------------------------------------- arcsine *)
  Lemma uniform_to_arcsin_elem_R a b u :
    uniform_to_arcsin_elem O a b u = (b - a) * (sin (PI / 2 * u) * sin (PI / 2 * u)) + a.
  Proof.
    unfold uniform_to_arcsin_elem. rewrite sq_R, half_R. simpl.
    replace (PI * / 2 * u) with (PI / 2 * u) by lra. reflexivity.
  Qed.

  Lemma arcsin_angle u : 0 < u < 1 -> 0 < PI / 2 * u < PI / 2.
  Proof. intros [H0 H1]. generalize PI_RGT_0; intros. split; nra. Qed.

  Lemma arcsine_ppf a b u : a < b -> 0 < u < 1 ->
    cdf_arcsine a b (uniform_to_arcsin_elem O a b u) = u.
  Proof.
    intros Hab Hu. rewrite uniform_to_arcsin_elem_R. unfold cdf_arcsine.
    set (th := PI / 2 * u). destruct (arcsin_angle u Hu) as [T0 T1]. fold th in T0, T1.
    replace (((b - a) * (sin th * sin th) + a - a) / (b - a)) with (Rsqr (sin th)) by (unfold Rsqr; field; lra).
    rewrite sqrt_Rsqr_abs. generalize PI_RGT_0; intros HPI.
    assert (Hs : 0 < sin th) by (apply sin_gt_0; lra).
    rewrite Rabs_pos_eq by lra. rewrite asin_sin by lra.
    unfold th. field. lra.
  Qed.

  Lemma arcsine_ppf_range a b u : a < b -> 0 < u < 1 ->
    a < uniform_to_arcsin_elem O a b u < b.
  Proof.
    intros Hab Hu. rewrite uniform_to_arcsin_elem_R.
    set (th := PI / 2 * u). destruct (arcsin_angle u Hu) as [T0 T1]. fold th in T0, T1.
    generalize PI_RGT_0; intros HPI.
    assert (Hs : 0 < sin th) by (apply sin_gt_0; lra).
    assert (Hs1 : sin th < 1).
    { rewrite <- sin_PI2. apply sin_increasing_1; lra. }
    assert (Hq : 0 < sin th * sin th < 1) by (split; nra).
    set (q := sin th * sin th) in *. clearbody q. split; nra.
  Qed.

  Lemma arcsine_ppf_incr a b u1 u2 : a < b -> 0 < u1 < 1 -> 0 < u2 < 1 -> u1 < u2 ->
    uniform_to_arcsin_elem O a b u1 < uniform_to_arcsin_elem O a b u2.
  Proof.
    intros Hab H1 H2 H. rewrite !uniform_to_arcsin_elem_R.
    destruct (arcsin_angle u1 H1) as [A0 A1]. destruct (arcsin_angle u2 H2) as [B0 B1].
    generalize PI_RGT_0; intros HPI.
    assert (Hs1 : 0 < sin (PI / 2 * u1)) by (apply sin_gt_0; lra).
    assert (Hs : sin (PI / 2 * u1) < sin (PI / 2 * u2)).
    { apply sin_increasing_1; try lra. nra. }
    assert (Hq : sin (PI / 2 * u1) * sin (PI / 2 * u1) < sin (PI / 2 * u2) * sin (PI / 2 * u2)) by nra.
    apply Rplus_lt_compat_r. apply Rmult_lt_compat_l; lra.
  Qed.

  Lemma uniform01 m v x : 0 < v -> to_uniform_elem O m v (n0 O) (n1 O) x = ncdf m v x.
  Proof. intros Hv. rewrite to_uniform_elem_R by assumption. simpl. lra. Qed.

  Theorem arcsine_pushforward m v a b : 0 < v -> a < b ->
    (forall x, cdf_arcsine a b (to_arcsin_elem O m v a b x) = ncdf m v x) /\
    (forall x, a < to_arcsin_elem O m v a b x < b) /\
    (forall x y, x < y -> to_arcsin_elem O m v a b x < to_arcsin_elem O m v a b y).
  Proof.
    intros Hv Hab. unfold to_arcsin_elem. split; [|split]; intros x.
    - rewrite uniform01 by assumption. apply arcsine_ppf; [assumption | apply ncdf_range].
    - rewrite uniform01 by assumption. apply arcsine_ppf_range; [assumption | apply ncdf_range].
    - intros y Hxy. rewrite !uniform01 by assumption.
      apply arcsine_ppf_incr; try assumption; try apply ncdf_range. now apply ncdf_incr.
  Qed.

  (* ---------------------------------------------------------------- U-quadratic *)
  Lemma cbrt_signed_cube y : (cbrt_signed O y) ^ 3 = y.
  Proof.
    unfold cbrt_signed. rewrite third_R.
    destruct (nltb O (n0 O) y) eqn:E1.
    - apply nltb_R in E1. simpl in E1. simpl npow. rewrite Rpow_pos by assumption.
      now apply Rpower_third_cube.
    - apply nltb_R_false in E1. simpl in E1.
      destruct (nltb O y (n0 O)) eqn:E2.
      + apply nltb_R in E2. simpl in E2. simpl npow. simpl nneg. rewrite Rpow_pos by lra.
        replace ((- Rpower (- y) (1 / 3)) ^ 3) with (- (Rpower (- y) (1 / 3)) ^ 3) by ring.
        rewrite Rpower_third_cube by lra. ring.
      + apply nltb_R_false in E2. simpl in E2. simpl n0. assert (y = 0) by lra. subst. ring.
  Qed.

  Lemma cube_incr a b : a ^ 3 < b ^ 3 -> a < b.
  Proof.
    intros H. destruct (Rlt_le_dec a b) as [|Hle]; [assumption|]. exfalso.
    assert (b ^ 3 <= a ^ 3).
    { assert (0 <= (a - b) * (a * a + a * b + b * b)).
      { apply Rmult_le_pos; [lra|]. nra. }
      nra. }
    lra.
  Qed.

  Lemma cube_strict a b : a < b -> a ^ 3 < b ^ 3.
  Proof.
    intros H.
    assert (Hq : 0 < a * a + a * b + b * b).
    { destruct (Req_dec b 0) as [->|Hb]; [nra|].
      assert (0 < b * b) by nra. nra. }
    assert (0 < (b - a) * (a * a + a * b + b * b)) by (apply Rmult_lt_0_compat; lra).
    nra.
  Qed.

  Lemma cube_inj a b : a ^ 3 = b ^ 3 -> a = b.
  Proof.
    intros H. destruct (Rtotal_order a b) as [Hlt|[Heq|Hgt]]; [|assumption|].
    - apply cube_strict in Hlt. lra.
    - apply cube_strict in Hgt. lra.
  Qed.

  Lemma cbrt_signed_of_cube t : cbrt_signed O (t ^ 3) = t.
  Proof. apply cube_inj. apply cbrt_signed_cube. Qed.

  Lemma cbrt_signed_incr x y : x < y -> cbrt_signed O x < cbrt_signed O y.
  Proof. intros H. apply cube_incr. now rewrite !cbrt_signed_cube. Qed.

  Lemma uquad_consts a b : a < b ->
    uquad_alpha O a b = 12 / (b - a) ^ 3 /\ uquad_beta O a b = (a + b) / 2 /\
    uquad_gamma O a b = (a - b) ^ 3 / 8.
  Proof.
    intros Hab. unfold uquad_alpha, uquad_beta, uquad_gamma. rewrite three_R, two_R. simpl npow.
    rewrite !Rpow_3. repeat split.
  Qed.

  Lemma uniform_to_uquad_elem_R a b u : a < b ->
    uniform_to_uquad_elem O a b u
    = cbrt_signed O (3 * u / (12 / (b - a) ^ 3) + (a - b) ^ 3 / 8) + (a + b) / 2.
  Proof.
    intros Hab. unfold uniform_to_uquad_elem. destruct (uquad_consts a b Hab) as (-> & -> & ->).
    rewrite three_R. reflexivity.
  Qed.

  Lemma uquad_ppf a b u : a < b -> cdf_uquad a b (uniform_to_uquad_elem O a b u) = u.
  Proof.
    intros Hab. rewrite uniform_to_uquad_elem_R by assumption. unfold cdf_uquad.
    set (y := 3 * u / (12 / (b - a) ^ 3) + (a - b) ^ 3 / 8).
    replace (cbrt_signed O y + (a + b) / 2 - (a + b) / 2) with (cbrt_signed O y) by ring.
    rewrite cbrt_signed_cube. unfold y.
    assert (b - a <> 0) by lra. field. lra.
  Qed.

  Lemma uquad_ppf_incr a b u1 u2 : a < b -> u1 < u2 ->
    uniform_to_uquad_elem O a b u1 < uniform_to_uquad_elem O a b u2.
  Proof.
    intros Hab H. rewrite !uniform_to_uquad_elem_R by assumption.
    apply Rplus_lt_compat_r. apply cbrt_signed_incr.
    apply Rplus_lt_compat_r.
    assert (Hp : 0 < (b - a) ^ 3) by (apply pow_lt; lra).
    assert (Hal : 0 < / (12 / (b - a) ^ 3)).
    { apply Rinv_0_lt_compat. apply Rdiv_lt_0_compat; lra. }
    unfold Rdiv at 1 3. apply Rmult_lt_compat_r; [assumption | lra].
  Qed.

  Lemma uquad_ppf_range a b u : a < b -> 0 < u < 1 -> a < uniform_to_uquad_elem O a b u < b.
  Proof.
    intros Hab Hu.
    assert (E0 : uniform_to_uquad_elem O a b 0 = a).
    { rewrite uniform_to_uquad_elem_R by assumption.
      replace (3 * 0 / (12 / (b - a) ^ 3) + (a - b) ^ 3 / 8) with (((a - b) / 2) ^ 3)
        by (field; repeat split; lra).
      rewrite cbrt_signed_of_cube. lra. }
    assert (E1 : uniform_to_uquad_elem O a b 1 = b).
    { rewrite uniform_to_uquad_elem_R by assumption.
      replace (3 * 1 / (12 / (b - a) ^ 3) + (a - b) ^ 3 / 8) with (((b - a) / 2) ^ 3)
        by (field; repeat split; lra).
      rewrite cbrt_signed_of_cube. lra. }
    split; [rewrite <- E0 at 1 | rewrite <- E1 at 2]; apply uquad_ppf_incr; lra.
  Qed.

  Theorem uquad_pushforward m v a b : 0 < v -> a < b ->
    (forall x, cdf_uquad a b (to_uquad_elem O m v a b x) = ncdf m v x) /\
    (forall x, a < to_uquad_elem O m v a b x < b) /\
    (forall x y, x < y -> to_uquad_elem O m v a b x < to_uquad_elem O m v a b y).
  Proof.
    intros Hv Hab. unfold to_uquad_elem. split; [|split]; intros x.
    - rewrite uniform01 by assumption. now apply uquad_ppf.
    - rewrite uniform01 by assumption. apply uquad_ppf_range; [assumption | apply ncdf_range].
    - intros y Hxy. rewrite !uniform01 by assumption.
      apply uquad_ppf_incr; [assumption | now apply ncdf_incr].
  Qed.

  (* ---------------------------------------------------------------- default bounds *)
  Theorem default_bounds_moments m v : 0 <= v ->
    arcsine_mean (arcsin_default_a O m v) (arcsin_default_b O m v) = m /\
    arcsine_var (arcsin_default_a O m v) (arcsin_default_b O m v) = v /\
    uquad_mean (uquad_default_a O m v) (uquad_default_b O m v) = m /\
    uquad_var (uquad_default_a O m v) (uquad_default_b O m v) = v /\
    (0 < v -> arcsin_default_a O m v < arcsin_default_b O m v /\
              uquad_default_a O m v < uquad_default_b O m v).
  Proof.
    intros Hv.
    unfold arcsin_default_a, arcsin_default_b, uquad_default_a, uquad_default_b, five_thirds.
    rewrite two_R, three_R. simpl.
    unfold arcsine_mean, arcsine_var, uquad_mean, uquad_var.
    assert (H2 : sqrt (2 * v) * sqrt (2 * v) = 2 * v) by (apply sqrt_sqrt; lra).
    assert (H5 : sqrt (5 / 3 * v) * sqrt (5 / 3 * v) = 5 / 3 * v) by (apply sqrt_sqrt; lra).
    assert (P2 : 0 < v -> 0 < sqrt (2 * v)) by (intros; apply sqrt_lt_R0; lra).
    assert (P5 : 0 < v -> 0 < sqrt (5 / 3 * v)) by (intros; apply sqrt_lt_R0; lra).
    set (s2 := sqrt (2 * v)) in *. set (s5 := sqrt (5 / 3 * v)) in *. clearbody s2 s5.
    split; [lra|]. split; [nra|]. split; [lra|]. split; [nra|].
    intros Hpos. specialize (P2 Hpos). specialize (P5 Hpos). lra.
  Qed.

  (* ---------------------------------------------------------------- Zinn & Harvey *)
  Lemma zh_core_R z : zh_core O z = sqrt 2 * erfinv (2 * erf (z / sqrt 2) - 1).
  Proof. reflexivity. Qed.

  Lemma erf_pos z : 0 < z -> 0 < erf z.
  Proof. intros H. rewrite <- erf_0. now apply erf_incr. Qed.

  Lemma zh_arg_range z : 0 < z -> -1 < 2 * erf (z / sqrt 2) - 1 < 1.
  Proof.
    intros Hz. assert (0 < z / sqrt 2) by (apply Rdiv_lt_0_compat; [assumption | apply sqrt2_pos]).
    generalize (erf_pos _ H) (erf_range (z / sqrt 2)). lra.
  Qed.

  Lemma zh_core_cdf z : 0 < z -> Phi0 (zh_core O z) = halfnormal_cdf erf z.
  Proof.
    intros Hz. rewrite zh_core_R. unfold halfnormal_cdf, C19_RInst.Phi0.
    replace (sqrt 2 * erfinv (2 * erf (z / sqrt 2) - 1) / sqrt 2) with (erfinv (2 * erf (z / sqrt 2) - 1))
      by (field; apply Rgt_not_eq, sqrt2_pos).
    rewrite erf_erfinv by now apply zh_arg_range. lra.
  Qed.

  Lemma zh_core_incr z1 z2 : 0 < z1 -> z1 < z2 -> zh_core O z1 < zh_core O z2.
  Proof.
    intros H1 H. rewrite !zh_core_R. apply Rmult_lt_compat_l; [apply sqrt2_pos|].
    apply erfinv_incr; try (apply zh_arg_range; lra).
    assert (z1 / sqrt 2 < z2 / sqrt 2).
    { unfold Rdiv. apply Rmult_lt_compat_r; [apply Rinv_0_lt_compat, sqrt2_pos | assumption]. }
    generalize (erf_incr _ _ H0). lra.
  Qed.

  Lemma zinnharvey_elem_R high m v x :
    zinnharvey_elem O high m v x
    = (if high then - zh_core O (Rabs ((x - m) / sqrt v)) else zh_core O (Rabs ((x - m) / sqrt v))) * sqrt v + m.
  Proof. unfold zinnharvey_elem. destruct high; reflexivity. Qed.

  Lemma std_abs_pos m v x : 0 < v -> x <> m -> 0 < Rabs ((x - m) / sqrt v).
  Proof.
    intros Hv Hx. apply Rabs_pos_lt. unfold Rdiv. apply Rmult_integral_contrapositive_currified; [lra|].
    apply Rinv_neq_0_compat, Rgt_not_eq, sqrt_lt_R0, Hv.
  Qed.

  Theorem zinnharvey_normal m v : 0 < v ->
    (forall x, x <> m ->
       ncdf m v (zinnharvey_elem O false m v x) = halfnormal_cdf erf (Rabs ((x - m) / sqrt v)) /\
       ncdf m v (zinnharvey_elem O true m v x) = 1 - halfnormal_cdf erf (Rabs ((x - m) / sqrt v))) /\
    (forall x y, x <> m -> Rabs (x - m) < Rabs (y - m) ->
       zinnharvey_elem O false m v x < zinnharvey_elem O false m v y /\
       zinnharvey_elem O true m v y < zinnharvey_elem O true m v x) /\
    (forall x, zinnharvey_elem O true m v x - m = - (zinnharvey_elem O false m v x - m)).
  Proof.
    intros Hv. assert (Hs : 0 < sqrt v) by now apply sqrt_lt_R0.
    split; [|split].
    - intros x Hx. rewrite !zinnharvey_elem_R. unfold C19_RInst.ncdf.
      set (w := zh_core O (Rabs ((x - m) / sqrt v))).
      replace ((w * sqrt v + m - m) / sqrt v) with w by (field; lra).
      replace ((- w * sqrt v + m - m) / sqrt v) with (- w) by (field; lra).
      rewrite Phi0_sym. unfold w. rewrite zh_core_cdf by now apply std_abs_pos. split; reflexivity.
    - intros x y Hx Hxy. rewrite !zinnharvey_elem_R.
      assert (Hz : Rabs ((x - m) / sqrt v) < Rabs ((y - m) / sqrt v)).
      { unfold Rdiv. rewrite !Rabs_mult. apply Rmult_lt_compat_r; [|assumption].
        apply Rabs_pos_lt, Rinv_neq_0_compat. lra. }
      generalize (zh_core_incr _ _ (std_abs_pos m v x Hv Hx) Hz). intros Hw. split; nra.
    - intros x. rewrite !zinnharvey_elem_R. ring.
  Qed.

  (* ---------------------------------------------------------------- Box-Cox *)
  Theorem boxcox_inverts_normalizer lmbda shift x :
    (isclose0 O lmbda = true ->
       0 < array_boxcox_elem O lmbda shift x /\
       boxcox_normalize O lmbda (array_boxcox_elem O lmbda shift x) = x + shift) /\
    (isclose0 O lmbda = false -> 0 < lmbda * (x + shift) + 1 ->
       0 < array_boxcox_elem O lmbda shift x /\
       boxcox_normalize O lmbda (array_boxcox_elem O lmbda shift x) = x + shift /\
       array_boxcox_elem O lmbda shift x = boxcox_denormalize O lmbda (x + shift)).
  Proof.
    unfold array_boxcox_elem, boxcox_normalize, boxcox_denormalize. split.
    - intros ->. simpl. split; [apply exp_pos | apply ln_exp].
    - intros E Hpos. rewrite E. rewrite nmax_R. simpl.
      assert (Hl : lmbda <> 0).
      { intros ->. assert (isclose0 O 0 = true); [|congruence].
        apply isclose0_R. rewrite Rabs_R0. apply Rlt_le. apply Rdiv_lt_0_compat; [lra|]. apply pow_lt; lra. }
      rewrite Rmax_left by lra.
      rewrite (Rpow_pos (lmbda * (x + shift) + 1)) by assumption.
      assert (Hp : 0 < Rpower (lmbda * (x + shift) + 1) (1 / lmbda)) by (unfold Rpower; apply exp_pos).
      split; [assumption|]. split.
      + rewrite Rpow_pos by assumption. rewrite Rpower_mult.
        replace (1 / lmbda * lmbda) with 1 by (field; assumption).
        rewrite Rpower_1 by assumption. field. assumption.
      + replace (1 + (x + shift) * lmbda) with (lmbda * (x + shift) + 1) by ring.
        now rewrite Rpow_pos.
  Qed.

  Theorem boxcox_increasing lmbda shift x y : x < y ->
    (isclose0 O lmbda = true -> array_boxcox_elem O lmbda shift x < array_boxcox_elem O lmbda shift y) /\
    (isclose0 O lmbda = false -> 0 < lmbda * (x + shift) + 1 -> 0 < lmbda * (y + shift) + 1 ->
       array_boxcox_elem O lmbda shift x < array_boxcox_elem O lmbda shift y).
  Proof.
    intros Hxy. unfold array_boxcox_elem. split.
    - intros ->. simpl. apply exp_increasing. lra.
    - intros E Hx Hy. rewrite E. rewrite !nmax_R. simpl.
      assert (Hl : lmbda <> 0).
      { intros ->. assert (isclose0 O 0 = true); [|congruence].
        apply isclose0_R. rewrite Rabs_R0. apply Rlt_le. apply Rdiv_lt_0_compat; [lra|]. apply pow_lt; lra. }
      rewrite !Rmax_left by lra. rewrite !Rpow_pos by assumption.
      unfold Rpower. apply exp_increasing.
      destruct (Rtotal_order lmbda 0) as [Hneg|[H0|Hpos]]; [|contradiction|].
      + (* lmbda < 0: the base decreases, 1/lmbda is negative *)
        assert (Hb : lmbda * (y + shift) + 1 < lmbda * (x + shift) + 1) by nra.
        apply ln_increasing in Hb; [|assumption].
        assert (Hi : 1 / lmbda < 0) by (unfold Rdiv; rewrite Rmult_1_l; now apply Rinv_lt_0_compat).
        nra.
      + assert (Hb : lmbda * (x + shift) + 1 < lmbda * (y + shift) + 1) by nra.
        apply ln_increasing in Hb; [|assumption].
        assert (Hi : 0 < 1 / lmbda) by (unfold Rdiv; rewrite Rmult_1_l; now apply Rinv_0_lt_compat).
        nra.
  Qed.
End Push.
