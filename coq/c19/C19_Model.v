(* C19_Model.v — Gallina model of gstools.transform.array / gstools.transform.field
   (field transformations), written once against the number interface [NumOps]:
   proved about at the real instance (C19_RInst/C19_Proofs), executed at OCaml floats
   for the correspondence with /repo (harness/c19.py).

   erf / erfinv are scipy.special functions: oracle calls [noracle O ORA_ERF [x]] /
   [noracle O ORA_ERFINV [x]] (in theorems: section variables with explicit hypotheses).

   Every definition follows the operation order of the Python source so that the float
   instance reproduces the implementation up to libm/numpy kernel differences. *)
From Coq Require Import ZArith List Bool.
From GS Require Import Num Loops.
Import ListNotations.

(* results of functions that can raise *)
Inductive res (A : Type) : Type :=
| Ok (v : A)
| Err (code : nat).      (* 1 = ValueError, 2 = IndexError, 3 = KeyError *)
Arguments Ok {A}. Arguments Err {A}.

Definition E_VALUE := 1%nat.
Definition E_INDEX := 2%nat.
Definition E_KEY := 3%nat.

Section Model.
  Context {T : Type} (O : NumOps T).

  Definition erf (x : T) : T := noracle O ORA_ERF [x].
  Definition erfinv (x : T) : T := noracle O ORA_ERFINV [x].
  Definition two : T := nlit O 2 0.
  Definition half : T := nlit O 5 1.            (* the literal 0.5 *)
  Definition sq (x : T) : T := nmul O x x.      (* numpy: x ** 2 on arrays is x * x *)
  Definition nmax (a b : T) : T :=              (* np.maximum: NaN propagates *)
    if nisnan O a then a else if nltb O a b then b else a.
  Definition opt_or (o : option T) (d : T) : T := match o with Some v => v | None => d end.

  (* np.mean / np.var (ddof = 0) of a 1-d array *)
  Definition lsum (l : list T) : T := fold_left (nadd O) l (n0 O).
  Definition lmean (l : list T) : T := ndiv O (lsum l) (nofZ O (Z.of_nat (length l))).
  Definition lvar (l : list T) : T :=
    let m := lmean l in lmean (map (fun x => sq (nsub O x m)) l).

  (* ---------------------------------------------------------------- normal -> uniform *)
  (* 0.5 * (1 + erf((field - mean) / np.sqrt(2 * var))) * (high - low) + low *)
  Definition to_uniform_elem (mean var low high x : T) : T :=
    nadd O (nmul O (nmul O half (nadd O (n1 O)
              (erf (ndiv O (nsub O x mean) (nsqrt O (nmul O two var))))))
              (nsub O high low)) low.

  Definition array_to_uniform (field : list T) (mean var : option T) (low high : T) : list T :=
    let mean := opt_or mean (lmean field) in
    let var := opt_or var (lvar field) in
    map (to_uniform_elem mean var low high) field.

  (* ---------------------------------------------------------------- log-normal *)
  Definition array_to_lognormal (field : list T) : list T := map (nexp O) field.

  (* ---------------------------------------------------------------- arcsine *)
  (* (b - a) * np.sin(np.pi * 0.5 * field) ** 2 + a *)
  Definition uniform_to_arcsin_elem (a b u : T) : T :=
    nadd O (nmul O (nsub O b a) (sq (nsin O (nmul O (nmul O (npi O) half) u)))) a.

  Definition arcsin_default_a (mean var : T) : T := nsub O mean (nsqrt O (nmul O two var)).
  Definition arcsin_default_b (mean var : T) : T := nadd O mean (nsqrt O (nmul O two var)).

  Definition to_arcsin_elem (mean var a b x : T) : T :=
    uniform_to_arcsin_elem a b (to_uniform_elem mean var (n0 O) (n1 O) x).

  Definition array_to_arcsin (field : list T) (mean var a b : option T) : list T :=
    let mean := opt_or mean (lmean field) in
    let var := opt_or var (lvar field) in
    let a := opt_or a (arcsin_default_a mean var) in
    let b := opt_or b (arcsin_default_b mean var) in
    map (to_arcsin_elem mean var a b) field.

  (* ---------------------------------------------------------------- U-quadratic *)
  Definition three : T := nlit O 3 0.
  Definition third : T := ndiv O (n1 O) three.  (* the Python expression 1 / 3 *)

  (* result[y>0] = y ** (1/3) ; result[y<0] = -((-y) ** (1/3)) ; zeros elsewhere *)
  Definition cbrt_signed (y : T) : T :=
    if nltb O (n0 O) y then npow O y third
    else if nltb O y (n0 O) then nneg O (npow O (nneg O y) third)
    else n0 O.

  Definition uquad_alpha (a b : T) : T := ndiv O (nlit O 12 0) (npow O (nsub O b a) three).
  Definition uquad_beta (a b : T) : T := ndiv O (nadd O a b) two.
  Definition uquad_gamma (a b : T) : T := ndiv O (npow O (nsub O a b) three) (nlit O 8 0).

  Definition uniform_to_uquad_elem (a b u : T) : T :=
    let al := uquad_alpha a b in
    let be := uquad_beta a b in
    let ga := uquad_gamma a b in
    let y_raw := nadd O (ndiv O (nmul O three u) al) ga in
    nadd O (cbrt_signed y_raw) be.

  Definition five_thirds : T := ndiv O (nlit O 5 0) three.      (* 5.0 / 3.0 *)
  Definition uquad_default_a (mean var : T) : T := nsub O mean (nsqrt O (nmul O five_thirds var)).
  Definition uquad_default_b (mean var : T) : T := nadd O mean (nsqrt O (nmul O five_thirds var)).

  Definition to_uquad_elem (mean var a b x : T) : T :=
    uniform_to_uquad_elem a b (to_uniform_elem mean var (n0 O) (n1 O) x).

  Definition array_to_uquad (field : list T) (mean var a b : option T) : list T :=
    let mean := opt_or mean (lmean field) in
    let var := opt_or var (lvar field) in
    let a := opt_or a (uquad_default_a mean var) in
    let b := opt_or b (uquad_default_b mean var) in
    map (to_uquad_elem mean var a b) field.

  (* ---------------------------------------------------------------- Zinn & Harvey *)
  (* the inner map on the standardised absolute value z >= 0 *)
  Definition zh_core (z : T) : T :=
    let sq2 := nsqrt O two in
    nmul O sq2 (erfinv (nsub O (nmul O two (erf (ndiv O z sq2))) (n1 O))).

  Definition zinnharvey_elem (high : bool) (mean var x : T) : T :=
    let s := nsqrt O var in
    let r := nabs O (ndiv O (nsub O x mean) s) in
    let r := zh_core r in
    let r := if high then nneg O r else r in
    nadd O (nmul O r s) mean.

  Definition array_zinnharvey (field : list T) (high : bool) (mean var : option T) : list T :=
    let mean := opt_or mean (lmean field) in
    let var := opt_or var (lvar field) in
    map (zinnharvey_elem high mean var) field.

  (* ---------------------------------------------------------------- force moments *)
  Definition array_force_moments (field : list T) (mean var : T) : list T :=
    let var_in := lvar field in
    let mean_in := lmean field in
    let rescale := nsqrt O (ndiv O var var_in) in
    map (fun x => nadd O (nmul O rescale (nsub O x mean_in)) mean) field.

  (* ---------------------------------------------------------------- Box-Cox *)
  (* np.isclose(lmbda, 0): |lmbda - 0| <= 1e-8 + 1e-5 * |0| *)
  Definition isclose0 (l : T) : bool := nleb O (nabs O l) (nlit O 1 8).

  Definition array_boxcox_elem (lmbda shift x : T) : T :=
    let r := nadd O x shift in
    if isclose0 lmbda then nexp O r
    else npow O (nmax (nadd O (nmul O lmbda r) (n1 O)) (n0 O)) (ndiv O (n1 O) lmbda).

  Definition array_boxcox (field : list T) (lmbda shift : T) : list T :=
    map (array_boxcox_elem lmbda shift) field.

  (* gstools.normalizer.BoxCox._normalize / _denormalize (the normalizer the transformation inverts) *)
  Definition boxcox_normalize (lmbda y : T) : T :=
    if isclose0 lmbda then nln O y
    else ndiv O (nsub O (npow O y lmbda) (n1 O)) lmbda.
  Definition boxcox_denormalize (lmbda x : T) : T :=
    if isclose0 lmbda then nexp O x
    else npow O (nadd O (n1 O) (nmul O x lmbda)) (ndiv O (n1 O) lmbda).

  (* ---------------------------------------------------------------- discrete *)
  Inductive thr_mode : Type :=
  | ThrArith
  | ThrEqual
  | ThrGiven (thr : list T).

  (* np.sort on finite values: insertion sort with <= *)
  Fixpoint insert_sorted (x : T) (l : list T) : list T :=
    match l with
    | [] => [x]
    | y :: t => if nleb O x y then x :: l else y :: insert_sorted x t
    end.
  Definition sort_vals (l : list T) : list T := fold_right insert_sorted [] l.

  (* (values[1:] + values[:-1]) / 2 *)
  Fixpoint midpoints (v : list T) : list T :=
    match v with
    | x :: ((y :: _) as t) => ndiv O (nadd O y x) two :: midpoints t
    | _ => []
    end.

  (* mean + sqrt(var * 2) * erfinv(2 * (i / n) - 1),  i = 1 .. n-1 *)
  Definition equal_threshold (mean var : T) (n i : nat) : T :=
    let p := ndiv O (nofZ O (Z.of_nat i)) (nofZ O (Z.of_nat n)) in
    nadd O mean (nmul O (nsqrt O (nmul O var two)) (erfinv (nsub O (nmul O two p) (n1 O)))).
  Definition equal_thresholds (mean var : T) (n : nat) : list T :=
    map (equal_threshold mean var n) (seq 1 (n - 1)).

  (* np.all(thresholds[:-1] < thresholds[1:]) *)
  Fixpoint ascending (l : list T) : bool :=
    match l with
    | x :: ((y :: _) as t) => nltb O x y && ascending t
    | _ => true
    end.

  (* the masked assignments of array_discrete, for one cell.  [g] is the previous content of the
     cell (np.empty_like: arbitrary).  Order as in the source: first class, last class, then the
     inner classes i = 0 .. len(values)-3 with  thr[i] < x <= thr[i+1]  ->  values[i+1]. *)
  Definition discrete_elem (values thr : list T) (g x : T) : T :=
    let d := n0 O in
    let r := if nleb O x (nth 0 thr d) then nth 0 values d else g in
    let r := if nltb O (last thr d) x then last values d else r in
    fold_left (fun r i =>
        if nltb O (nth i thr d) x && nleb O x (nth (S i) thr d) then nth (S i) values d else r)
      (seq 0 (length values - 2)) r.

  (* values / thresholds selection and the checks of array_discrete *)
  Definition discrete_setup (field values : list T) (mode : thr_mode) (mean var : option T)
    : res (list T * list T) :=
    let vt : res (list T * list T) :=
      match mode with
      | ThrArith => let v := sort_vals values in Ok (v, midpoints v)
      | ThrEqual =>
          let mean := opt_or mean (lmean field) in
          let var := opt_or var (lvar field) in
          Ok (values, equal_thresholds mean var (length values))
      | ThrGiven thr =>
          if Nat.eqb (length values) (length thr + 1) then Ok (values, thr) else Err E_VALUE
      end in
    match vt with
    | Err c => Err c
    | Ok (values, thr) =>
        if negb (ascending thr) then Err E_VALUE
        else match thr with
             | [] => Err E_INDEX          (* thresholds[0] on an empty array *)
             | _ => Ok (values, thr)
             end
    end.

  Definition array_discrete (g : T) (field values : list T) (mode : thr_mode) (mean var : option T)
    : res (list T) :=
    match discrete_setup field values mode mean var with
    | Err c => Err c
    | Ok (values, thr) => Ok (map (discrete_elem values thr g) field)
    end.

  (* ================================================================ Field.transform wrappers *)
  (* Field configuration as far as the transformations read it.  Modelled domain: constant float
     mean; normalizer given by its two maps (c_norm_default = "type(normalizer) == Normalizer");
     trend None or its values at the field's points. *)
  Record fcfg : Type := mk_fcfg {
    c_mean : T;
    c_sill : T;                       (* fld.model.sill *)
    c_norm_default : bool;
    c_nf : T -> T;                    (* normalizer.normalize *)
    c_ni : T -> T;                    (* normalizer.denormalize *)
    c_trend : option (list T)
  }.

  Inductive tmethod : Type :=
  | MBinary (divide upper lower : option T)
  | MDiscrete (values : list T) (mode : thr_mode)
  | MBoxcox (lmbda shift : T)
  | MZinnHarvey (high : bool)
  | MForceMoments
  | MLognormal
  | MUniform (low high : T)
  | MArcsin (a b : option T)
  | MUquad (a b : option T).

  Fixpoint map2 (f : T -> T -> T) (a b : list T) : list T :=
    match a, b with
    | x :: a', y :: b' => f x y :: map2 f a' b'
    | _, _ => []
    end.

  (* remove_trend_norm_mean(mean = None if keep_mean else fld.mean) *)
  Definition pre_process (c : fcfg) (keep_mean : bool) (data : list T) : list T :=
    let d := match c_trend c with None => data | Some tr => map2 (nsub O) data tr end in
    let d := map (c_nf c) d in
    if keep_mean then d else map (fun x => nsub O x (c_mean c)) d.

  (* apply_mean_norm_trend(mean = None if keep_mean else fld.mean) *)
  Definition post_process (c : fcfg) (keep_mean : bool) (data : list T) : list T :=
    let d := if keep_mean then data else map (fun x => nadd O x (c_mean c)) data in
    let d := map (c_ni c) d in
    match c_trend c with None => d | Some tr => map2 (nadd O) d tr end.

  (* _check_for_default_normal (mean is a constant float in the modelled domain) *)
  Definition default_normal (c : fcfg) : bool :=
    c_norm_default c && match c_trend c with None => true | Some _ => false end.

  (* does the wrapper call _check_for_default_normal when process is False? *)
  Definition guarded (m : tmethod) : bool :=
    match m with
    | MBinary None _ _ => true
    | MBinary (Some _) _ _ => false
    | MDiscrete _ ThrEqual => true
    | MDiscrete _ _ => false
    | MBoxcox _ _ => false
    | MLognormal => false
    | _ => true
    end.

  (* the array function and keyword arguments the wrapper selects; [mean] is the wrapper's
     "0.0 if process and not keep_mean else fld.mean", [sill] is fld.model.sill *)
  Definition array_fn (g : T) (m : tmethod) (mean sill : T) (data : list T) : res (list T) :=
    match m with
    | MBinary divide upper lower =>
        let divide := opt_or divide mean in
        let upper := opt_or upper (nadd O mean (nsqrt O sill)) in
        let lower := opt_or lower (nsub O mean (nsqrt O sill)) in
        array_discrete g data [lower; upper] (ThrGiven [divide]) None None
    | MDiscrete values mode => array_discrete g data values mode (Some mean) (Some sill)
    | MBoxcox lmbda shift => Ok (array_boxcox data lmbda shift)
    | MZinnHarvey high => Ok (array_zinnharvey data high (Some mean) (Some sill))
    | MForceMoments => Ok (array_force_moments data mean sill)
    | MLognormal => Ok (array_to_lognormal data)
    | MUniform low high => Ok (array_to_uniform data (Some mean) (Some sill) low high)
    | MArcsin a b => Ok (array_to_arcsin data (Some mean) (Some sill) a b)
    | MUquad a b => Ok (array_to_uquad data (Some mean) (Some sill) a b)
    end.

  Definition mean_arg (c : fcfg) (process keep_mean : bool) : T :=
    if process && negb keep_mean then n0 O else c_mean c.

  (* the values returned by Field.transform(method, process=…, keep_mean=…) for stored data [data] *)
  Definition wrapper (g : T) (c : fcfg) (m : tmethod) (process keep_mean : bool) (data : list T)
    : res (list T) :=
    if negb process && guarded m && negb (default_normal c) then Err E_VALUE
    else
      let d := if process then pre_process c keep_mean data else data in
      match array_fn g m (mean_arg c process keep_mean) (c_sill c) d with
      | Err e => Err e
      | Ok r => Ok (if process then post_process c keep_mean r else r)
      end.

  (* ---------------------------------------------------------------- stored fields *)
  Inductive store_arg : Type := StTrue | StFalse | StName (name : Z).
  Definition fields : Type := list (Z * list T).      (* field_names order, name -> values *)

  Fixpoint lookup (fs : fields) (k : Z) : option (list T) :=
    match fs with
    | [] => None
    | (n, v) :: t => if Z.eqb n k then Some v else lookup t k
    end.
  Fixpoint set_field (fs : fields) (k : Z) (v : list T) : fields :=
    match fs with
    | [] => [(k, v)]                                   (* new names are appended *)
    | (n, w) :: t => if Z.eqb n k then (n, v) :: t else (n, w) :: set_field t k v
    end.

  (* get_store_config(store, default=field) *)
  Definition store_config (s : store_arg) (field : Z) : Z * bool :=
    match s with
    | StTrue => (field, true)
    | StFalse => (field, false)
    | StName n => (n, true)
    end.

  (* one Field.transform call on the stored fields: new store and returned values *)
  Definition transform_step (g : T) (c : fcfg) (fs : fields) (m : tmethod) (field : Z) (s : store_arg)
      (process keep_mean : bool) : res (fields * list T) :=
    if negb process && guarded m && negb (default_normal c) then Err E_VALUE
    else match lookup fs field with
    | None => Err E_KEY
    | Some data =>
        match wrapper g c m process keep_mean data with
        | Err e => Err e
        | Ok out =>
            let '(name, save) := store_config s field in
            Ok (if save then set_field fs name out else fs, out)
        end
    end.
End Model.

Arguments ThrArith {T}. Arguments ThrEqual {T}. Arguments ThrGiven {T}.
Arguments MForceMoments {T}. Arguments MLognormal {T}.
