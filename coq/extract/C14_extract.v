From Coq Require Import ExtrOcamlBasic.
From GS Require Import Num Loops C14_Model.
Extraction "c14_model.ml" proto_anchor
  construct ctor construct_int ctor_int step step_pinned args_of default_opts default_opt_bounds b_pos b_nonneg
  var_of var_factor sill len_scale_vec field_dim spatial_dim len_rescaled int_scale check_all default_rescale.
