From Coq Require Import ExtrOcamlBasic.
From GS Require Import Num Loops C03_Model.
Extraction "c03_model.ml" proto_anchor
  derive eval abstract cor_of class_fn class_get intscale_of set_intscale_of user_of
  axis_variant yadrenko_variant spatial_variant iso_rad isometrize2 chord vario_nugget cov_nugget sill
  tpl_var_factor tpl_correlation tplstable_cor percentile_curve percentile_ok default_arg_from_bounds
  rescale_gaussian len_rescaled set_integral_scale.
