From Coq Require Import ExtrOcamlBasic.
From GS Require Import Num Loops C19_Model.
Extraction "c19_model.ml" proto_anchor
  lmean lvar array_to_uniform array_to_lognormal array_to_arcsin array_to_uquad
  uniform_to_arcsin_elem uniform_to_uquad_elem array_zinnharvey array_force_moments
  array_boxcox boxcox_normalize boxcox_denormalize
  sort_vals midpoints equal_thresholds discrete_setup array_discrete
  wrapper transform_step.
