From Coq Require Import ExtrOcamlBasic.
From GS Require Import Num Loops C12_Model.
Extraction "c12_model.ml" proto_anchor
  no_of_angles rotation_planes set_angles set_anis eye givens_rotation matmul transpose
  matrix_rotate matrix_derotate matrix_isotropify matrix_anisotropify matrix_isometrize matrix_anisometrize
  rotated_main_axes isometrize anisometrize main_axes col_norms get_iso_rad len_scale_vec axis_arg
  set_model_angles set_len_anis geo_step geo_init geo_isometrize geo_anisometrize geo_iso_rad.
