From Coq Require Import ExtrOcamlBasic.
From GS Require Import Num Loops Cellwise Estimator_gen C15_VarioSpec.
Extraction "c08_model.ml" proto_anchor unstructured_spec structured_spec ma_structured_spec directional.
