From Coq Require Import ExtrOcamlBasic.
From GS Require Import Num Loops C07_Model.
Extraction "c07_model.ml" proto_anchor trace cond_field scaling.
