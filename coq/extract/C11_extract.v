From Coq Require Import ExtrOcamlBasic.
From GS Require Import Num Loops Summator_gen C11_Pointwise C11_Main C11_Incompr C11_GenState C11_Inst.
Extraction "c11_model.ml" proto_anchor
  summate_sched summate_fourier_sched summate_incompr
  randmeth_call fourier_call incompr_call ic_value rm_value fo_value pos_of grid_points flat_index point_at generate_grid
  compare isclose cm_delta cm_mode_draws rmc_init rmc_step foc_init foc_step fill.
