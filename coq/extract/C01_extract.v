From Coq Require Import ExtrOcamlBasic.
From GS Require Import Num Loops Summator_gen C12_Model C01_Model C01_Upscale.
Extraction "c01_model.ml" proto_anchor
  randmeth_amp get_nugget randmeth_call prod_list fourier_spectrum_factor fourier_k_norm fourier_call
  incompr_call srf_randmeth srf_fourier isometrize sphere2 sphere3 cov_sample
  gau1_ppf gau2_cdf gau2_ppf exp1_cdf exp1_ppf exp2_cdf exp2_ppf
  var_no_scaling cg_edge cg_factor var_coarse_graining upscale_factor upscale_field.
