From Coq Require Import ExtrOcamlBasic.
From GS Require Import Num Loops C02_Model.
Extraction "c02_model.ml" proto_anchor cls_of_nat oname_code check_dim opt_bounds opt_default arg_error lookup base_bound bname_of_Z cor_gaussian cor_exponential cor_stable cor_rational cor_cubic cor_linear cor_spherical cor_circular cor_tplsimple correlation_elem covariance_elem variogram_elem sd_gaussian sd_exponential sd_matern sd_integral sd_hyperspherical sd_jbessel sd_tplexp sd_tplgau.
