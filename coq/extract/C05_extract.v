From Coq Require Import ExtrOcamlBasic.
From GS Require Import Num Loops Krigesum_gen C05_Model.
Extraction "c05_model.ml" proto_anchor
  krige_matrix cond_err_vec rhs_matrix krige_cond krige_raw krige_raw_field krige_call krige_call_field get_mean mean_raw
  norm_fwd norm_bwd clip_var post_field grid chunk_targets ceil_div cwr drift_selects monomial poly_drifts set_cond_err.
