From Coq Require Import ExtrOcamlBasic.
From GS Require Import Num Loops Summator_gen C15_KernelSpec C12_Model C17_Model.
Extraction "c17_model.ml" proto_anchor
  generate_grid grid_size fill_to_dim two_pi delta_k arange_modes mode_axes set_modes grid_of k_norm
  spectrum_factor shift_axis isclose model_close fs_empty step step_gen init run edit_period edit_mode_no edit_model
  summate_fourier summate_fourier_spec isometrize rotated_main_axes.
