From Coq Require Import ExtrOcamlBasic.
From GS Require Import Num Loops Summator_gen C15_KernelSpec C16_Spec.
Extraction "c16_model.ml" proto_anchor summate_incompr summate_incompr_spec vfield velocity incompr_call incompr_generate.
