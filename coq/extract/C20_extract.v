From Coq Require Import ExtrOcamlBasic.
From GS Require Import Num C20_Heap C20_Effects.
Definition c20_numops_anchor {T} (O : NumOps T) : T := n0 O.
Extraction "c20_model.ml" proto_anchor c20_numops_anchor predict_id dims_id nargs_id pre_attrs_id obs_attrs_id entry_id.
