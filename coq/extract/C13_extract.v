From Coq Require Import ExtrOcamlBasic.
From GS Require Import Num Loops Estimator_gen C13_Model.
Extraction "c13_model.ml" proto_anchor
  dist_haversine dist_euclid
  deg2rad rad2deg latlon2pos pos2latlon chordal_to_great_circle great_circle_to_chordal dist
  no_of_angles rotation_planes set_angles set_anis givens_rotation
  matrix_rotate matrix_derotate matrix_isotropify matrix_anisotropify matrix_isometrize matrix_anisometrize
  set_len_anis set_model_angles construct gstep gsteps field_dim spatial_dim isometrize anisometrize cov_yadrenko
  krige_mat krige_vecs krige_system latlon_bins_max_dist latlon_bins_last_edge in_bin hinit hstep hrun holder_system.
