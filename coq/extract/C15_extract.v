From Coq Require Import ExtrOcamlBasic.
From GS Require Import Num Loops Summator_gen Krigesum_gen Estimator_gen.
Extraction "c15_model.ml" proto_anchor
  summate summate_sched summate_incompr summate_fourier summate_fourier_sched
  calc_field_krige_and_variance calc_field_krige calc_field_krige_and_variance_sched calc_field_krige_sched
  directional unstructured structured ma_structured
  directional_sched unstructured_sched structured_sched ma_structured_sched
  dist_euclid dist_haversine dir_test.
