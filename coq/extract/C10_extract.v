From Coq Require Import ExtrOcamlBasic.
From GS Require Import Num Loops C10_Model.
Extraction "c10_model.ml" proto_anchor fit_run fit_init fit_trace r2_score curve_step pre_para post.
