From Coq Require Import ExtrOcamlBasic.
From GS Require Import Num Loops C04_Model.
Extraction "c04_model.ml" proto_anchor rad_fac drv_density drv_pdf drv_lnpdf drv_spectrum drv_cdf drv_ppf drv_has tplgau_series.
