From Coq Require Import ExtrOcamlBasic.
From GS Require Import Num Loops Cellwise Estimator_gen C15_VarioSpec C09_Lists C09_Removal C09_Model.
Extraction "c09_model.ml" proto_anchor unstructured_spec take_cols isclose pre_select keep_idx pre_mask pre_no_data pre_drop_missing pre_dirs ang2dir_row sep_test pre_sample sturges std_bins std_bins_kw pre_edges centers generate_grid axis_mask axis_masked axis_estimate directional.
