From Coq Require Import ExtrOcamlBasic.
From GS Require Import Num Loops C18_Model.
Extraction "c18_model.ml" proto_anchor
  isclose normalize denormalize derivative normalize_raw denormalize_raw derivative_raw
  norm_range denorm_range kernel_loglikelihood loglikelihood apply_field remove_field single_val_vec fit_book.
