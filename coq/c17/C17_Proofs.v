(* C17_Proofs.v — exact periodicity of the Fourier generator's field over the reals, for every dimension,
   mode list, mode count, period, anisotropy, amplitude and position; built on the kernel theorem of c15
   (translated summate_fourier = summate_fourier_spec for every schedule). *)
From Coq Require Import Reals ZArith List Lia Lra Arith Bool.
From GS Require Import Num Loops RInst Summator_gen C15_KernelSpec C15_SummatorProofs C17_Model.
Import ListNotations.
Open Scope R_scope.

(* ---------- 2 pi Z is the period group of cos and sin *)
Lemma cos_period_Z x k : cos (x + 2 * IZR k * PI) = cos x.
Proof.
  destruct (Z_le_gt_dec 0 k) as [H|H].
  - rewrite <- (Z2Nat.id k H), <- INR_IZR_INZ. apply cos_period.
  - rewrite <- (cos_period (x + 2 * IZR k * PI) (Z.to_nat (- k))).
    rewrite INR_IZR_INZ, Z2Nat.id by lia. rewrite opp_IZR. f_equal. ring.
Qed.
Lemma sin_period_Z x k : sin (x + 2 * IZR k * PI) = sin x.
Proof.
  destruct (Z_le_gt_dec 0 k) as [H|H].
  - rewrite <- (Z2Nat.id k H), <- INR_IZR_INZ. apply sin_period.
  - rewrite <- (sin_period (x + 2 * IZR k * PI) (Z.to_nat (- k))).
    rewrite INR_IZR_INZ, Z2Nat.id by lia. rewrite opp_IZR. f_equal. ring.
Qed.

(* ---------- loops *)
Lemma for_S {St} n (body : nat -> St -> St) s : for_ 0 (S n) body s = body n (for_ 0 n body s).
Proof. unfold for_. rewrite !Nat.sub_0_r, seq_S, fold_left_app. reflexivity. Qed.
Lemma for_0 {St} (body : nat -> St -> St) s : for_ 0 0 body s = s.
Proof. reflexivity. Qed.

Lemma for_sum_split n (f g : nat -> R) :
  for_ 0 n (fun d ph => ph + (f d + g d)) 0
  = for_ 0 n (fun d ph => ph + f d) 0 + for_ 0 n (fun d ph => ph + g d) 0.
Proof. induction n. { rewrite !for_0. ring. } rewrite !for_S, IHn. ring. Qed.
Lemma for_sum_single n ax c :
  for_ 0 n (fun d ph => ph + (if Nat.eqb d ax then c else 0)) 0 = if Nat.ltb ax n then c else 0.
Proof.
  induction n. { reflexivity. } rewrite for_S, IHn.
  destruct (Nat.eqb_spec n ax) as [->|Hne].
  - rewrite Nat.ltb_irrefl. replace (ax <? S ax)%nat with true by (symmetry; apply Nat.ltb_lt; lia). ring.
  - destruct (Nat.ltb_spec ax n), (Nat.ltb_spec ax (S n)); try lia; ring.
Qed.

(* ---------- generate_grid, any element type *)
Lemma in_concat_repeat {A} (x : A) l k : In x (concat (repeat l k)) -> In x l.
Proof. induction k; simpl; [tauto|]. intros H. apply in_app_or in H. tauto. Qed.
Lemma concat_repeat_nil {A} k : concat (repeat (@nil A) k) = [].
Proof. induction k; simpl; auto. Qed.

Lemma grid_entries {A} (axes : list (list A)) : forall d,
  Forall (fun v => In v (nth d axes [])) (nth d (generate_grid axes) []).
Proof.
  induction axes as [|a rest IH]; intros d.
  - destruct d; constructor.
  - destruct d as [|d]; simpl.
    + apply Forall_forall. intros v Hv. apply in_flat_map in Hv. destruct Hv as [w [Hw Hv]].
      apply repeat_spec in Hv. now subst.
    + specialize (IH d). apply Forall_forall. intros v Hv.
      rewrite nth_indep with (d' := (fun row => concat (repeat row (length a))) []) in Hv.
      2:{ destruct (Nat.lt_ge_cases d (length (map (fun row => concat (repeat row (length a))) (generate_grid rest)))); auto.
          rewrite nth_overflow in Hv by auto. destruct Hv. }
      rewrite (map_nth (fun row => concat (repeat row (length a)))) in Hv.
      apply in_concat_repeat in Hv. rewrite Forall_forall in IH. auto.
Qed.

(* shape of the grid: one row per axis, grid_size columns (any element type) *)
Lemma concat_repeat_length {A} (l : list A) k : length (concat (repeat l k)) = (k * length l)%nat.
Proof. induction k; simpl; auto. rewrite app_length, IHk. lia. Qed.
Lemma flat_map_repeat_length {A} (a : list A) k : length (flat_map (fun v => repeat v k) a) = (length a * k)%nat.
Proof. induction a; simpl; auto. rewrite app_length, repeat_length, IHa. lia. Qed.
Lemma grid_shape {A} (axes : list (list A)) :
  length (generate_grid axes) = length axes /\
  Forall (fun row => length row = grid_size axes) (generate_grid axes).
Proof.
  induction axes as [|a rest [IH1 IH2]]; simpl. { split; constructor. }
  split. { now rewrite map_length, IH1. }
  constructor. { apply flat_map_repeat_length. }
  apply Forall_forall. intros row Hin. apply in_map_iff in Hin. destruct Hin as [r [<- Hr]].
  rewrite concat_repeat_length. rewrite Forall_forall in IH2. now rewrite (IH2 r Hr).
Qed.


Section Periodic.
  Variable ora : nat -> list R -> R.
  Notation RO := (Rops ora).

  (* well-shaped (dim, n) position array *)
  Definition wfpos (dim n : nat) (pos : list (list R)) : Prop :=
    length pos = dim /\ Forall (fun row => length row = n) pos.

  Lemma wfpos_row dim n pos d : wfpos dim n pos -> (d < dim)%nat -> length (arow pos d) = n.
  Proof. intros [H1 H2] Hd. unfold arow. rewrite Forall_forall in H2. apply H2, nth_In. lia. Qed.
  Lemma wfpos_shape1 dim n pos : wfpos dim n pos -> (0 < dim)%nat -> shape1 pos = n.
  Proof. intros W Hd. exact (wfpos_row dim n pos 0 W Hd). Qed.

  Lemma arow_aupd_same (pos : list (list R)) ax v : (ax < length pos)%nat -> arow (aupd pos ax v) ax = v.
  Proof. intros H. exact (aget_aupd_same [] pos ax v H). Qed.
  Lemma arow_aupd_other (pos : list (list R)) ax d v : ax <> d -> arow (aupd pos ax v) d = arow pos d.
  Proof. intros H. exact (aget_aupd_other [] pos ax d v H). Qed.

  Lemma shift_shape0 pos ax s : shape0 (shift_axis RO pos ax s) = shape0 pos.
  Proof. unfold shift_axis, shape0. apply aupd_length. Qed.
  Lemma shift_shape1 pos ax s : shape1 (shift_axis RO pos ax s) = shape1 pos.
  Proof.
    unfold shift_axis, shape1. destruct pos as [|r pos]; [reflexivity|].
    destruct ax; simpl; [now rewrite map_length | reflexivity].
  Qed.
  Lemma shift_wfpos dim n pos ax s : wfpos dim n pos -> (ax < dim)%nat -> wfpos dim n (shift_axis RO pos ax s).
  Proof.
    intros W Ha. pose proof (wfpos_row dim n pos ax W Ha) as L. destruct W as [H1 H2]. split.
    - unfold shift_axis. now rewrite aupd_length.
    - apply Forall_forall. intros row Hin. unfold shift_axis in Hin.
      apply (In_nth _ _ []) in Hin. destruct Hin as [d [Hd <-]]. rewrite aupd_length in Hd.
      destruct (Nat.eq_dec ax d) as [<-|Hne].
      + change (length (arow (aupd pos ax (map (fun x => nadd RO x s) (arow pos ax))) ax) = n).
        rewrite arow_aupd_same by lia. now rewrite map_length.
      + change (length (arow (aupd pos ax (map (fun x => nadd RO x s) (arow pos ax))) d) = n).
        rewrite arow_aupd_other by auto. rewrite Forall_forall in H2. apply H2. unfold arow. apply nth_In. lia.
  Qed.

  Lemma shift_entry dim n pos ax s d i : wfpos dim n pos -> (ax < dim)%nat -> (i < n)%nat ->
    aget2 0 (shift_axis RO pos ax s) d i = aget2 0 pos d i + (if Nat.eqb d ax then s else 0).
  Proof.
    intros W Ha Hi. unfold aget2, shift_axis. destruct (Nat.eqb_spec d ax) as [->|Hne].
    - rewrite arow_aupd_same by (destruct W; lia).
      unfold aget. rewrite nth_indep with (d' := (fun x => nadd RO x s) 0)
        by (rewrite map_length, (wfpos_row dim n pos ax W Ha); lia).
      rewrite (map_nth (fun x => nadd RO x s)). reflexivity.
    - rewrite arow_aupd_other by auto. ring.
  Qed.

  (* the phase of mode j at point i moves by k_{ax,j} * s *)
  Lemma phase_shift dim n modes pos ax s j i : wfpos dim n pos -> (ax < dim)%nat -> (i < n)%nat ->
    phase_of RO modes (shift_axis RO pos ax s) j i = phase_of RO modes pos j i + aget2 0 modes ax j * s.
  Proof.
    intros W Ha Hi. unfold phase_of. rewrite shift_shape0. simpl.
    rewrite (for_ext 0 (shape0 pos) _
      (fun d ph => ph + (aget2 0 modes d j * aget2 0 pos d i + (if Nat.eqb d ax then aget2 0 modes ax j * s else 0)))).
    2:{ intros d st Hd. rewrite (shift_entry dim n pos ax s d i W Ha Hi).
        destruct (Nat.eqb_spec d ax) as [->|_]; ring. }
    rewrite for_sum_split, for_sum_single. destruct W as [W1 _]. unfold shape0. rewrite W1.
    replace (ax <? dim)%nat with true by (symmetry; apply Nat.ltb_lt; lia). reflexivity.
  Qed.

  Lemma wave_period z1 z2 ph j (m : Z) : wave RO z1 z2 (ph + 2 * IZR m * PI) j = wave RO z1 z2 ph j.
  Proof. unfold wave. simpl. now rewrite cos_period_Z, sin_period_Z. Qed.

  (* ---------- core: ANY mode list whose components along the axis take the shift to a multiple of 2 pi *)
  Theorem periodic_spec dim n sf modes z1 z2 pos ax s :
    wfpos dim n pos -> (ax < dim)%nat ->
    (forall j, (j < shape1 modes)%nat -> exists m : Z, aget2 0 modes ax j * s = 2 * IZR m * PI) ->
    summate_fourier_spec RO sf modes z1 z2 (shift_axis RO pos ax s) = summate_fourier_spec RO sf modes z1 z2 pos.
  Proof.
    intros W Ha Hk. unfold summate_fourier_spec. rewrite shift_shape1.
    rewrite (wfpos_shape1 dim n pos W) by lia.
    apply map_ext_in. intros i Hi. apply in_seq in Hi. unfold summate_fourier_point.
    apply for_ext. intros j acc Hj. destruct (Hk j) as [m Hm]; [lia|].
    rewrite (phase_shift dim n) by (auto; lia). rewrite Hm. now rewrite wave_period.
  Qed.

  (* the same for the kernel translated from summator.pyx, under every schedule of its prange *)
  Theorem periodic_kernel sched dim n sf modes z1 z2 pos ax s :
    is_sched sched -> wfpos dim n pos -> (ax < dim)%nat ->
    (forall j, (j < shape1 modes)%nat -> exists m : Z, aget2 0 modes ax j * s = 2 * IZR m * PI) ->
    summate_fourier_sched RO sched sf modes z1 z2 (shift_axis RO pos ax s)
    = summate_fourier_sched RO sched sf modes z1 z2 pos.
  Proof.
    intros Hs W Ha Hk. rewrite !(summate_fourier_any_schedule RO sched) by auto.
    now apply (periodic_spec dim n).
  Qed.

  (* ---------- the generator's grid: every entry of row d is an integer multiple of delta_k[d] *)
  Lemma arange_entry n dk v : Z.even n = true -> In v (arange_modes RO n dk) -> exists m : Z, v = IZR m * dk.
  Proof.
    intros He Hin. unfold arange_modes in Hin. apply in_map_iff in Hin. destruct Hin as [i [<- _]].
    apply Zeven_bool_iff in He. destruct (Zeven_ex n He) as [h Hh].
    exists (Z.of_nat i - h)%Z. unfold nlit. cbn [nmul ndiv nofZ Rops].
    replace (2 * Z.of_nat i - n)%Z with (2 * (Z.of_nat i - h))%Z by lia. rewrite mult_IZR. field.
  Qed.
  Lemma arange_length n dk : length (arange_modes RO n dk) = Z.to_nat n.
  Proof. unfold arange_modes. now rewrite map_length, seq_length. Qed.

  Lemma nth_combine {A B} (a : list A) (b : list B) d da db : length a = length b ->
    nth d (combine a b) (da, db) = (nth d a da, nth d b db).
  Proof. intros H. apply combine_nth. exact H. Qed.

  Lemma delta_k_length period anis : length period = S (length anis) -> length (delta_k RO period anis) = length period.
  Proof. intros H. unfold delta_k. rewrite map_length, combine_length. simpl. lia. Qed.
  Lemma delta_k_nth period anis d : length period = S (length anis) -> (d < length period)%nat ->
    nth d (delta_k RO period anis) 0 = 2 * PI / nth d period 0 * nth d (1 :: anis) 0.
  Proof.
    intros H Hd. unfold delta_k.
    rewrite nth_indep with (d' := (fun pa => nmul RO (ndiv RO (two_pi RO) (fst pa)) (snd pa)) (0, 0))
      by (rewrite map_length, combine_length; simpl; lia).
    rewrite (map_nth (fun pa => nmul RO (ndiv RO (two_pi RO) (fst pa)) (snd pa))).
    rewrite nth_combine by (simpl; lia). simpl fst. simpl snd. unfold two_pi, nlit. cbn [nmul ndiv nofZ npi Rops]. reflexivity.
  Qed.

  Lemma mode_axes_nth mode_no dk d : length mode_no = length dk -> (d < length dk)%nat ->
    nth d (mode_axes RO mode_no dk) [] = arange_modes RO (nth d mode_no 0%Z) (nth d dk 0).
  Proof.
    intros H Hd. unfold mode_axes.
    rewrite nth_indep with (d' := (fun nd => arange_modes RO (fst nd) (snd nd)) (0%Z, 0))
      by (rewrite map_length, combine_length; lia).
    rewrite (map_nth (fun nd => arange_modes RO (fst nd) (snd nd))). now rewrite nth_combine.
  Qed.

  (* every wave number component of the generator's grid along axis d is an integer multiple of delta_k[d] *)
  Theorem grid_integer_multiples mode_no dk d j : length mode_no = length dk -> (d < length dk)%nat ->
    Forall (fun n => Z.even n = true) mode_no ->
    exists m : Z, aget2 0 (generate_grid (mode_axes RO mode_no dk)) d j = IZR m * nth d dk 0.
  Proof.
    intros HL Hd He. unfold aget2, aget, arow.
    pose proof (grid_entries (mode_axes RO mode_no dk) d) as G. rewrite mode_axes_nth in G by auto.
    set (row := nth d (generate_grid (mode_axes RO mode_no dk)) []) in *.
    destruct (Nat.lt_ge_cases j (length row)) as [Hj|Hj].
    - rewrite Forall_forall in G. apply (arange_entry (nth d mode_no 0%Z) (nth d dk 0)).
      + rewrite Forall_forall in He. apply He, nth_In. lia.
      + apply G, nth_In, Hj.
    - rewrite nth_overflow by auto. exists 0%Z. ring.
  Qed.

  (* ---------- the generator: modes = grid_of period mode_no anis; a move by q periods along axis ax is, in
     the isotropic coordinates the generator sums in, a move by q * period[ax] / ratio[ax] along e_ax *)
  Theorem periodic_generator sched dim n period mode_no anis sf z1 z2 pos ax (q : Z) :
    is_sched sched -> (0 < dim)%nat ->
    length period = dim -> length anis = (dim - 1)%nat -> length mode_no = dim ->
    Forall (fun k => Z.even k = true) mode_no ->
    wfpos dim n pos -> (ax < dim)%nat -> nth ax period 0 <> 0 -> nth ax (1 :: anis) 0 <> 0 ->
    let modes := grid_of RO period mode_no anis in
    let s := IZR q * (nth ax period 0 / nth ax (1 :: anis) 0) in
    summate_fourier_sched RO sched sf modes z1 z2 (shift_axis RO pos ax s)
    = summate_fourier_sched RO sched sf modes z1 z2 pos.
  Proof.
    intros Hs Hdim Lp La Lm He W Ha Hp Hr modes s.
    apply (periodic_kernel sched dim n); auto.
    intros j _. unfold modes, grid_of.
    assert (Ldk : length (delta_k RO period anis) = dim) by (rewrite delta_k_length; lia).
    destruct (grid_integer_multiples mode_no (delta_k RO period anis) ax j) as [m Hm]; try lia; auto.
    rewrite Hm, delta_k_nth by lia. exists (m * q)%Z. unfold s. rewrite mult_IZR. field. split; auto.
  Qed.
End Periodic.
