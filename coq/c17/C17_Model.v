(* C17_Model.v — Gallina model of gstools/field/generator.py class Fourier (mode grid, spectrum factor, the
   update / setter state machine) and of tools/geometric.py generate_grid.  Hand model, written once for every
   number type: proved about at R (C17_Proofs.v, C17_Axes.v), executed at OCaml floats through the extraction
   and compared with the Python implementation on every check (harness/c17.py).
   The summation itself is NOT modelled here: it is the kernel summate_fourier translated from summator.pyx on
   every run (gen/Summator_gen.v), proved equal to summate_fourier_spec for every schedule (c15). *)
From Coq Require Import List Arith ZArith Lia Bool.
From GS Require Import Num Loops.
Import ListNotations.

(* ---------- tools/geometric.py generate_grid:
     np.asarray(np.meshgrid( *axes, indexing="ij")).reshape((len(axes), -1))
   row d, flat index ((i0*L1 + i1)*L2 + i2 ...) holds axes[d][i_d] *)
Fixpoint grid_size {A : Type} (axes : list (list A)) : nat :=
  match axes with [] => 1 | a :: rest => length a * grid_size rest end.
Fixpoint generate_grid {A : Type} (axes : list (list A)) : list (list A) :=
  match axes with
  | [] => []
  | a :: rest =>
      flat_map (fun v => repeat v (grid_size rest)) a
      :: map (fun row => concat (repeat row (length a))) (generate_grid rest)
  end.

(* Fourier._fill_to_dim: np.atleast_1d(values)[:dim], padded with the last entry ("edge") up to length dim;
   None = the ValueError numpy raises when an empty array is to be padded *)
Definition fill_to_dim {A : Type} (dim : nat) (vals : list A) : option (list A) :=
  match firstn dim vals with
  | [] => None
  | x :: r => Some ((x :: r) ++ repeat (last (x :: r) x) (dim - length (x :: r)))
  end.

Section Model.
  Context {T : Type} (O : NumOps T).
  Notation zero := (n0 O).

  (* 2.0 * np.pi *)
  Definition two_pi : T := nmul O (nlit O 2 0) (npi O).

  (* anis = np.insert(model.anis.copy(), 0, 1.0);  delta_k = 2.0 * np.pi / period * anis *)
  Definition delta_k (period anis : list T) : list T :=
    map (fun pa => nmul O (ndiv O two_pi (fst pa)) (snd pa)) (combine period (n1 O :: anis)).

  (* np.arange(-n / 2.0, n / 2.0) * dk : entry i is (-n/2.0 + i) * dk = ((2 i - n) / 2.0) * dk, n entries
     (integer-valued float arange: exact for every n that fits in memory) *)
  Definition arange_modes (n : Z) (dk : T) : list T :=
    map (fun i => nmul O (ndiv O (nofZ O (2 * Z.of_nat i - n)) (nlit O 2 0)) dk) (seq 0 (Z.to_nat n)).

  Definition mode_axes (mode_no : list Z) (dk : list T) : list (list T) :=
    map (fun nd => arange_modes (fst nd) (snd nd)) (combine mode_no dk).

  (* Fourier._set_modes: (self._modes, self._mode_no) *)
  Definition set_modes (mode_no : list Z) (dk : list T) : list (list T) * list Z :=
    let axes := mode_axes mode_no dk in
    (generate_grid axes, map (fun a => Z.of_nat (length a)) axes).

  (* the mode grid of a generator with the given settings *)
  Definition grid_of (period : list T) (mode_no : list Z) (anis : list T) : list (list T) :=
    generate_grid (mode_axes mode_no (delta_k period anis)).

  (* k_norm = np.linalg.norm(self._modes, axis=0) *)
  Definition k_norm (modes : list (list T)) : list T :=
    map (fun j => nsqrt O (for_ 0 (shape0 modes)
                    (fun d acc => nadd O acc (nmul O (aget2 zero modes d j) (aget2 zero modes d j))) zero))
        (seq 0 (shape1 modes)).

  (* spectrum = np.maximum(model.spectrum(k_norm), 0.0);  np.sqrt(spectrum * np.prod(self._delta_k)); the spectrum
     values are an input (external: the covariance model's spectral density, possibly a numerical Hankel transform
     that is slightly negative where it vanishes) *)
  Definition spectrum_factor (spec : list T) (dk : list T) : list T :=
    let vol := fold_left (nmul O) dk (n1 O) in
    map (fun s => nsqrt O (nmul O (if nltb O s zero then zero else s) vol)) spec.

  (* moving every point by s along coordinate axis ax of a (dim, n) position array *)
  Definition shift_axis (pos : list (list T)) (ax : nat) (s : T) : list (list T) :=
    aupd pos ax (map (fun x => nadd O x s) (arow pos ax)).

  (* ---------- the update state machine (Fourier.update; the period / mode_no / model setters and
     SRF.__call__ are calls of update) *)
  (* what takes part in CovModel.__eq__ (covmodel/tools.py compare): dim, discrete attributes as a tag,
     the float parameters other than anis, and anis; floats are compared with np.isclose *)
  Record cmodel := mkCM { m_dim : nat; m_tag : Z; m_par : list T; m_anis : list T }.

  (* np.isclose(a, b): |a - b| <= 1e-8 + 1e-5 * |b| *)
  Definition isclose (a b : T) : bool :=
    nleb O (nabs O (nsub O a b)) (nadd O (nlit O 1 8) (nmul O (nlit O 1 5) (nabs O b))).
  Fixpoint all_close (a b : list T) : bool :=
    match a, b with
    | [], [] => true
    | x :: a', y :: b' => isclose x y && all_close a' b'
    | _, _ => false
    end.
  (* compare(this, that) *)
  Definition model_close (this that : cmodel) : bool :=
    Nat.eqb (m_dim this) (m_dim that) && Z.eqb (m_tag this) (m_tag that)
    && all_close (m_par this) (m_par that) && all_close (m_anis this) (m_anis that).

  Record fstate := mkFS {
    f_model : option cmodel;          (* self._model (a deep copy) *)
    f_period : option (list T);       (* self._period *)
    f_mode_no : option (list Z);      (* self._mode_no *)
    f_dk : list T;                    (* self._delta_k *)
    f_modes : list (list T)           (* self._modes *)
  }.
  Definition fs_empty : fstate := mkFS None None None [] [].

  (* update(model, seed, period, mode_no); u_seed = "a seed other than nan was passed" *)
  Record upd := mkUpd {
    u_model : option cmodel; u_seed : bool; u_period : option (list T); u_mode_no : option (list Z) }.
  Inductive outcome := Ok | Err.

  (* the tail of update: which of the model / seed branches is taken (all of them keep the grid);
     mesh = "mode_no is not None or period is not None" (period after the substitution above);
     the model is copied when it differs from the present copy or the mesh was modified *)
  Definition finish (st : fstate) (u : upd) (changed mesh : bool) : fstate * outcome :=
    match u_model u with
    | Some m =>
        if changed || mesh then (mkFS (Some m) (f_period st) (f_mode_no st) (f_dk st) (f_modes st), Ok)
        else (st, Ok)
    | None =>
        if u_seed u then (st, Ok)
        else if mesh then (st, Ok)
        else (st, Err)                       (* "neither 'model' nor 'seed' given!" *)
    end.

  (* the mode_no block *)
  Definition mode_block (st : fstate) (u : upd) (dim : nat) (changed pgiven : bool) : fstate * outcome :=
    match u_mode_no u with
    | None => finish st u changed pgiven
    | Some mv =>
        match fill_to_dim dim mv with
        | None => (st, Err)
        | Some mn =>
            if forallb Z.even mn then
              match f_period st with
              | None => (st, Err)            (* self._delta_k is None *)
              | Some _ =>
                  let gm := set_modes mn (f_dk st) in
                  finish (mkFS (f_model st) (f_period st) (Some (snd gm)) (f_dk st) (fst gm)) u changed true
              end
            else (st, Err)                   (* "Odd mode_no not supported." *)
        end
    end.

  (* [same_obj] = "the passed model IS the generator's internal copy" (model is self._model: the model getter returns
     the copy itself, so  m = gen.model; m.anis = x; gen.model = m  passes the stored object back; comparing it with
     itself says nothing, and update treats it as changed) *)
  Definition step_gen (same_obj : bool) (st : fstate) (u : upd) : fstate * outcome :=
    match (match u_model u with Some m => Some m | None => f_model st end) with
    | None => (st, Err)                      (* no model at all *)
    | Some tmp =>
        let dim := m_dim tmp in
        let changed := orb same_obj
                         match u_model u with
                         | Some m => match f_model st with Some c => negb (model_close c m) | None => true end
                         | None => false
                         end in
        (* a changed model re-uses the present period *)
        let period := match u_period u with
                      | Some p => Some p
                      | None => if changed then f_period st else None
                      end in
        match period with
        | None => mode_block st u dim changed false
        | Some pv =>
            match fill_to_dim dim pv with
            | None => (st, Err)
            | Some p =>
                let dk := delta_k p (m_anis tmp) in
                let st1 := mkFS (f_model st) (Some p) (f_mode_no st) dk (f_modes st) in
                match u_mode_no u with
                | Some _ => mode_block st1 u dim changed true
                | None =>
                    match f_mode_no st with
                    | None => (st1, Err)     (* Value has to be provided *)
                    | Some old =>
                        match fill_to_dim dim old with
                        | None => (st1, Err)
                        | Some mn =>
                            let gm := set_modes mn dk in
                            mode_block (mkFS (f_model st) (Some p) (Some (snd gm)) dk (fst gm)) u dim changed true
                        end
                    end
                end
            end
        end
    end.

  Definition step (st : fstate) (u : upd) : fstate * outcome := step_gen false st u.

  (* the model GETTER returns the stored copy itself: an in-place edit through it changes only the stored model *)
  Definition edit_model (st : fstate) (m : cmodel) : fstate :=
    mkFS (Some m) (f_period st) (f_mode_no st) (f_dk st) (f_modes st).

  (* the period / mode_no GETTERS return the stored array / list itself, so a caller can edit it in place before
     assigning it back (gen.period *= c;  m = gen.mode_no; m[0] = 8; gen.mode_no = m): such an edit changes the
     stored value and nothing else *)
  Definition edit_period (st : fstate) (p : list T) : fstate :=
    mkFS (f_model st) (Some p) (f_mode_no st) (f_dk st) (f_modes st).
  Definition edit_mode_no (st : fstate) (mn : list Z) : fstate :=
    mkFS (f_model st) (f_period st) (Some mn) (f_dk st) (f_modes st).

  (* Fourier(model, period, mode_no, seed) *)
  Definition init (m : cmodel) (period : list T) (mode_no : list Z) : fstate * outcome :=
    step fs_empty (mkUpd (Some m) true (Some period) (Some mode_no)).

  Definition run (st : fstate) (us : list upd) : fstate := fold_left (fun s u => fst (step s u)) us st.
End Model.
