(* C17_State.v — the update state machine of the Fourier generator keeps the mode grid equal to the grid of the
   current settings.  Structural (no law of the numbers is used): holds for every number type, floats included. *)
From Coq Require Import List Arith ZArith Lia Bool.
From GS Require Import Num Loops C17_Model.
Import ListNotations.

Lemma in_firstn_in {A} (x : A) n l : In x (firstn n l) -> In x l.
Proof. intros H. rewrite <- (firstn_skipn n l). apply in_or_app. now left. Qed.
Lemma last_in {A} (l : list A) d : l <> [] -> In (last l d) l.
Proof.
  induction l as [|a l IH]; intros H; [contradiction|]. destruct l as [|b l]; [left; reflexivity|].
  right. apply IH. discriminate.
Qed.
Lemma fill_to_dim_facts {A} (P : A -> Prop) dim (l l' : list A) :
  fill_to_dim dim l = Some l' -> Forall P l -> length l' = dim /\ Forall P l'.
Proof.
  unfold fill_to_dim. intros H HP.
  assert (HF : Forall P (firstn dim l)).
  { apply Forall_forall. intros x Hx. rewrite Forall_forall in HP. apply HP. eapply in_firstn_in; eauto. }
  pose proof (firstn_le_length dim l) as Hlen.
  destruct (firstn dim l) as [|x r] eqn:E; [discriminate|]. inversion H; subst l'. clear H. split.
  - change (length ((x :: r) ++ repeat (last (x :: r) x) (dim - length (x :: r))) = dim).
    rewrite app_length, repeat_length. lia.
  - change (Forall P ((x :: r) ++ repeat (last (x :: r) x) (dim - length (x :: r)))).
    apply Forall_app. split; auto. apply Forall_forall. intros y Hy. apply repeat_spec in Hy. subst y.
    rewrite Forall_forall in HF. apply HF. apply last_in. discriminate.
Qed.

Section State.
  Context {T : Type} (O : NumOps T).

  Definition wf_model (m : @cmodel T) : Prop := (1 <= m_dim m)%nat /\ length (m_anis m) = (m_dim m - 1)%nat.

  (* the grid part of the state is the grid of (period, mode_no, anis) in dimension dim *)
  Definition grid_ok (st : @fstate T) (a : list T) (dim : nat) : Prop :=
    exists p mn, f_period st = Some p /\ f_mode_no st = Some mn /\ length p = dim /\ length mn = dim /\
      f_dk st = delta_k O p a /\ f_modes st = grid_of O p mn a /\
      Forall (fun k => Z.even k = true /\ (0 <= k)%Z) mn.

  (* THE invariant: the generator holds a model copy, and its grid is the grid of its own current settings *)
  Definition Inv (st : @fstate T) : Prop :=
    exists m, f_model st = Some m /\ wf_model m /\ grid_ok st (m_anis m) (m_dim m).

  (* no update passes a model which np.isclose cannot tell from the generator's copy although its anisotropy
     differs (such a change never reaches the generator: known finding of C11) *)
  Definition no_subtle (st : @fstate T) (u : @upd T) : Prop :=
    match u_model u, f_model st with
    | Some m, Some c => model_close O c m = true -> m_anis m = m_anis c
    | _, _ => True
    end.
  Definition wf_upd (u : @upd T) : Prop := match u_model u with Some m => wf_model m | None => True end.

  Lemma delta_k_len p a dim : length p = dim -> length a = (dim - 1)%nat -> (1 <= dim)%nat ->
    length (delta_k O p a) = dim.
  Proof. intros. unfold delta_k. rewrite map_length, combine_length. simpl. lia. Qed.

  Lemma arange_clip n dk : arange_modes O (Z.of_nat (Z.to_nat n)) dk = arange_modes O n dk.
  Proof.
    destruct (Z_le_gt_dec 0 n). { now rewrite Z2Nat.id. }
    unfold arange_modes. rewrite Nat2Z.id. replace (Z.to_nat n) with 0%nat by lia. reflexivity.
  Qed.
  Lemma arange_len n dk : length (arange_modes O n dk) = Z.to_nat n.
  Proof. unfold arange_modes. now rewrite map_length, seq_length. Qed.

  (* _set_modes stores the lengths; the grid of the stored lengths is the grid just built *)
  Lemma set_modes_stored mn dk : length mn = length dk ->
    mode_axes O (snd (set_modes O mn dk)) dk = mode_axes O mn dk /\
    length (snd (set_modes O mn dk)) = length mn /\
    (Forall (fun k => Z.even k = true) mn ->
       Forall (fun k => Z.even k = true /\ (0 <= k)%Z) (snd (set_modes O mn dk))).
  Proof.
    unfold set_modes, mode_axes. simpl. revert dk. induction mn as [|n mn IH]; intros [|d dk] H; simpl in *; try lia.
    - repeat split; auto.
    - destruct (IH dk) as [I1 [I2 I3]]; [lia|]. repeat split.
      + rewrite arange_len, arange_clip. f_equal. exact I1.
      + now rewrite I2.
      + intros HE. inversion HE; subst. constructor; [|now apply I3]. rewrite arange_len. split; [|lia].
        destruct (Z_le_gt_dec 0 n). { now rewrite Z2Nat.id. } replace (Z.to_nat n) with 0%nat by lia. reflexivity.
  Qed.

  Definition new_copy (st : @fstate T) (u : @upd T) (replace : bool) : option (@cmodel T) :=
    match u_model u with Some m => if replace then Some m else f_model st | None => f_model st end.

  Lemma finish_ok st u c mesh st' : finish st u c mesh = (st', Ok) ->
    f_period st' = f_period st /\ f_mode_no st' = f_mode_no st /\ f_dk st' = f_dk st /\ f_modes st' = f_modes st /\
    f_model st' = new_copy st u (c || mesh).
  Proof.
    unfold finish, new_copy. destruct (u_model u) as [m|].
    - destruct (c || mesh); intros H; inversion H; subst; simpl; auto 10.
    - destruct (u_seed u); [|destruct mesh]; intros H; inversion H; subst; auto 10.
  Qed.

  (* the mode_no block: given a state whose period / delta_k are those of (p, a) in dimension dim, and whose
     modes are up to date unless a mode_no is passed, a successful run ends in a state with the grid of its settings *)
  Lemma mode_block_ok st u dim c pg a st' :
    (exists p, f_period st = Some p /\ length p = dim /\ f_dk st = delta_k O p a /\ length (f_dk st) = dim) ->
    (u_mode_no u = None -> grid_ok st a dim) ->
    mode_block O st u dim c pg = (st', Ok) ->
    grid_ok st' a dim /\
    f_model st' = new_copy st u (c || (pg || match u_mode_no u with Some _ => true | None => false end)).
  Proof.
    intros [p [Hp [Lp [Hdk Ldk]]]] HG. unfold mode_block. destruct (u_mode_no u) as [mv|].
    - destruct (fill_to_dim dim mv) as [mn|] eqn:Ef; [|discriminate].
      destruct (forallb Z.even mn) eqn:Ev; [|discriminate]. rewrite Hp. intros H.
      apply finish_ok in H. simpl in H. destruct H as [H1 [H2 [H3 [H4 H5]]]].
      destruct (fill_to_dim_facts (fun _ => True) dim mv mn Ef) as [Lmn _]. { apply Forall_forall; auto. }
      destruct (set_modes_stored mn (f_dk st)) as [S1 [S2 S3]]; [lia|].
      split.
      + exists p, (snd (set_modes O mn (f_dk st))). repeat split; auto; try congruence; try lia.
        * rewrite H4. unfold grid_of. rewrite <- Hdk, S1. reflexivity.
        * apply S3. apply Forall_forall. intros k Hk. rewrite forallb_forall in Ev. auto.
      + rewrite H5. unfold new_copy. simpl. rewrite !orb_true_r. reflexivity.
    - intros H. apply finish_ok in H. destruct H as [H1 [H2 [H3 [H4 H5]]]]. split.
      + destruct (HG eq_refl) as [p' [mn [G1 [G2 [G3 [G4 [G5 [G6 G7]]]]]]]].
        exists p', mn. repeat split; auto; congruence.
      + rewrite H5. now rewrite orb_false_r.
  Qed.

  Lemma model_close_dim c m : model_close O c m = true -> m_dim c = m_dim m.
  Proof. unfold model_close. intros H. apply andb_prop in H as [H _]. apply andb_prop in H as [H _].
    apply andb_prop in H as [H _]. now apply Nat.eqb_eq. Qed.

  (* one successful update re-establishes the invariant, and the passed model reaches the generator unless
     np.isclose calls it equal to the copy already held *)
  Theorem step_inv st u st' : Inv st -> wf_upd u -> no_subtle st u -> step O st u = (st', Ok) ->
    Inv st' /\
    (forall m, u_model u = Some m ->
       f_model st' = Some m \/ (exists c, f_model st = Some c /\ model_close O c m = true /\ f_model st' = Some c)).
  Proof.
    intros [c [Hc [Wc G]]] Wu Hns. unfold step, step_gen. cbn [orb]. rewrite Hc.
    destruct G as [p0 [mn0 [G1 [G2 [G3 [G4 [G5 [G6 G7]]]]]]]].
    assert (G : grid_ok st (m_anis c) (m_dim c)) by (exists p0, mn0; auto 10).
    set (tmp := match u_model u with Some m => m | None => c end).
    replace (match u_model u with Some m => Some m | None => Some c end) with (Some tmp)
      by (unfold tmp; destruct (u_model u); reflexivity).
    set (changed := match u_model u with Some m => negb (model_close O c m) | None => false end).
    assert (Wt : wf_model tmp). { unfold tmp. unfold wf_upd in Wu. destruct (u_model u); auto. }
    (* when the model is not "changed", it has the dimension and (not subtle) the anis of the copy *)
    assert (Hsame : changed = false -> m_dim tmp = m_dim c /\ m_anis tmp = m_anis c).
    { unfold changed, tmp. unfold no_subtle in Hns. rewrite Hc in Hns. destruct (u_model u) as [m|]; auto.
      intros Hn. apply negb_false_iff in Hn. split; [symmetry; now apply model_close_dim | now apply Hns]. }
    set (period := match u_period u with Some p => Some p | None => if changed then f_period st else None end).
    destruct period as [pv|] eqn:Eper.
    - (* delta_k is recomputed from the (new) model *)
      destruct (fill_to_dim (m_dim tmp) pv) as [p|] eqn:Efp; [|discriminate].
      destruct (fill_to_dim_facts (fun _ => True) _ pv p Efp) as [Lp _]. { apply Forall_forall; auto. }
      destruct Wt as [Wt1 Wt2].
      pose proof (delta_k_len p (m_anis tmp) (m_dim tmp) Lp Wt2 Wt1) as Ldk.
      assert (Hcopy : forall b, new_copy (mkFS (f_model st) (Some p) b (delta_k O p (m_anis tmp)) (f_modes st)) u (changed || (true || false)) = Some tmp
                      /\ True).
      { intros b. split; auto. unfold new_copy, tmp. simpl. rewrite orb_true_r. destruct (u_model u); auto. }
      destruct (u_mode_no u) as [mv|] eqn:Emv.
      + intros H. apply mode_block_ok with (a := m_anis tmp) in H.
        * destruct H as [H1 H2]. split.
          -- exists tmp. split. { rewrite H2. unfold new_copy, tmp. simpl. rewrite ?Emv, ?orb_true_r. destruct (u_model u); auto. }
             split; [split; auto|exact H1].
          -- intros m Hm. left. rewrite H2. unfold new_copy. rewrite Hm. simpl. rewrite ?Emv, ?orb_true_r. reflexivity.
        * exists p. simpl. auto.
        * rewrite Emv. discriminate.
      + rewrite G2. destruct (fill_to_dim (m_dim tmp) mn0) as [mn|] eqn:Efm; [|discriminate].
        destruct (fill_to_dim_facts (fun k => Z.even k = true /\ (0 <= k)%Z) _ mn0 mn Efm G7) as [Lmn Hev].
        destruct (set_modes_stored mn (delta_k O p (m_anis tmp))) as [S1 [S2 S3]]; [lia|].
        intros H. apply mode_block_ok with (a := m_anis tmp) in H.
        * destruct H as [H1 H2]. split.
          -- exists tmp. split. { rewrite H2. unfold new_copy, tmp. simpl. rewrite ?orb_true_r. destruct (u_model u); auto. }
             split; [split; auto|exact H1].
          -- intros m Hm. left. rewrite H2. unfold new_copy. rewrite Hm. simpl. rewrite ?orb_true_r. reflexivity.
        * exists p. simpl. auto.
        * intros _. exists p, (snd (set_modes O mn (delta_k O p (m_anis tmp)))).
          cbn [f_period f_mode_no f_dk f_modes f_model]. repeat split; auto; try lia.
          -- unfold grid_of. rewrite S1. reflexivity.
          -- apply S3. eapply Forall_impl; [|exact Hev]. intros k [Hk _]. exact Hk.
    - (* no period: the model is unchanged (isclose) or absent; delta_k is kept *)
      assert (Hch : changed = false).
      { unfold period in Eper. destruct (u_period u); [discriminate|]. destruct changed; auto. rewrite G1 in Eper. discriminate. }
      destruct (Hsame Hch) as [Hd Ha]. rewrite Hd.
      intros H. apply mode_block_ok with (a := m_anis c) in H.
      + destruct H as [H1 H2]. rewrite Hch in H2. simpl in H2. split.
        * unfold new_copy in H2. destruct (u_model u) as [m|] eqn:Em.
          -- unfold tmp in *. destruct (match u_mode_no u with Some _ => true | None => false end).
             ++ exists m. split; auto. split; [exact Wt|]. rewrite Ha, Hd. exact H1.
             ++ exists c. rewrite Hc in H2. auto.
          -- exists c. rewrite Hc in H2. auto.
        * intros m Hm. unfold new_copy in H2. rewrite Hm in H2.
          destruct (match u_mode_no u with Some _ => true | None => false end); [left; auto|].
          right. exists c. split; auto. split; [|congruence].
          unfold changed in Hch. rewrite Hm in Hch. now apply negb_false_iff in Hch.
      + exists p0. repeat split; auto. rewrite G5. destruct Wc. apply delta_k_len; auto.
      + intros _. exact G.
  Qed.

  (* ---------- assignments of values that alias the stored ones.  The setters always call update, and update
     recomputes delta_k and the grid from the value it is given, so the state before the assignment need not
     satisfy the invariant in the edited component. *)
  Lemma step_gen_eff force st u st' c pv : f_model st = Some c -> wf_model c -> wf_upd u ->
    (match u_period u with
     | Some p => Some p
     | None => if orb force (match u_model u with Some m => negb (model_close O c m) | None => false end)
               then f_period st else None
     end) = Some pv ->
    (u_mode_no u = None ->
       exists mn0, f_mode_no st = Some mn0 /\ Forall (fun k => Z.even k = true /\ (0 <= k)%Z) mn0) ->
    step_gen O force st u = (st', Ok) ->
    Inv st' /\ f_model st' = Some (match u_model u with Some m => m | None => c end).
  Proof.
    intros Hc Wc Wu Heff Hmn. unfold step_gen. rewrite Hc.
    set (tmp := match u_model u with Some m => m | None => c end).
    replace (match u_model u with Some m => Some m | None => Some c end) with (Some tmp)
      by (unfold tmp; destruct (u_model u); reflexivity).
    set (changed := orb force (match u_model u with Some m => negb (model_close O c m) | None => false end)) in *.
    cbv zeta. rewrite Heff.
    assert (Wt : wf_model tmp). { unfold tmp. unfold wf_upd in Wu. destruct (u_model u); auto. }
    destruct (fill_to_dim (m_dim tmp) pv) as [p|] eqn:Efp; [|discriminate].
    destruct (fill_to_dim_facts (fun _ => True) _ pv p Efp) as [Lp _]. { apply Forall_forall; auto. }
    destruct Wt as [Wt1 Wt2].
    pose proof (delta_k_len p (m_anis tmp) (m_dim tmp) Lp Wt2 Wt1) as Ldk.
    destruct (u_mode_no u) as [mv|] eqn:Emv.
    - intros H. apply mode_block_ok with (a := m_anis tmp) in H.
      + destruct H as [H1 H2].
        assert (Hm : f_model st' = Some tmp).
        { rewrite H2. unfold new_copy, tmp. simpl. rewrite ?Emv, ?orb_true_r. destruct (u_model u); auto. }
        split; [|exact Hm]. exists tmp. split; [exact Hm|]. split; [split; auto|exact H1].
      + exists p. simpl. auto.
      + rewrite Emv. discriminate.
    - destruct (Hmn eq_refl) as [mn0 [G2 G7]]. rewrite G2.
      destruct (fill_to_dim (m_dim tmp) mn0) as [mn|] eqn:Efm; [|discriminate].
      destruct (fill_to_dim_facts (fun k => Z.even k = true /\ (0 <= k)%Z) _ mn0 mn Efm G7) as [Lmn Hev].
      destruct (set_modes_stored mn (delta_k O p (m_anis tmp))) as [S1 [S2 S3]]; [lia|].
      intros H. apply mode_block_ok with (a := m_anis tmp) in H.
      + destruct H as [H1 H2].
        assert (Hm : f_model st' = Some tmp).
        { rewrite H2. unfold new_copy, tmp. simpl. rewrite ?orb_true_r. destruct (u_model u); auto. }
        split; [|exact Hm]. exists tmp. split; [exact Hm|]. split; [split; auto|exact H1].
      + exists p. simpl. auto.
      + intros _. exists p, (snd (set_modes O mn (delta_k O p (m_anis tmp)))).
        cbn [f_period f_mode_no f_dk f_modes f_model]. repeat split; auto; try lia.
        * unfold grid_of. rewrite S1. reflexivity.
        * apply S3. eapply Forall_impl; [|exact Hev]. intros k [Hk _]. exact Hk.
  Qed.

  Lemma step_with_period st u st' c pv : f_model st = Some c -> wf_model c -> wf_upd u -> u_period u = Some pv ->
    (u_mode_no u = None ->
       exists mn0, f_mode_no st = Some mn0 /\ Forall (fun k => Z.even k = true /\ (0 <= k)%Z) mn0) ->
    step O st u = (st', Ok) -> Inv st'.
  Proof.
    intros Hc Wc Wu Hp Hmn H. apply (step_gen_eff false st u st' c pv) in H; auto. { tauto. } now rewrite Hp.
  Qed.

  (* m = gen.model; m.anis = x; gen.model = m  (also update(model=m, seed/period/mode_no ...) with that object):
     the in-place edit changes only the stored model; update is handed the stored object itself, treats it as
     changed and rebuilds delta_k and the grid from it — whatever the edit and whatever else is passed *)
  Theorem alias_model st m_edit u st' : Inv st -> wf_model m_edit -> u_model u = Some m_edit ->
    step_gen O true (edit_model st m_edit) u = (st', Ok) -> Inv st' /\ f_model st' = Some m_edit.
  Proof.
    intros [c [Hc [Wc [p0 [mn0 [G1 [G2 [G3 [G4 [G5 [G6 G7]]]]]]]]]]] Wm Hu H.
    destruct (u_period u) as [pv|] eqn:Ep.
    - apply (step_gen_eff true _ u st' m_edit pv) in H; auto.
      + now rewrite Hu in H.
      + unfold wf_upd. now rewrite Hu.
      + now rewrite Ep.
      + intros _. exists mn0. auto.
    - apply (step_gen_eff true _ u st' m_edit p0) in H; auto.
      + now rewrite Hu in H.
      + unfold wf_upd. now rewrite Hu.
      + rewrite Ep. cbn. exact G1.
      + intros _. exists mn0. auto.
  Qed.

  (* gen.period <op>= c / per = gen.period; per[i] = v; gen.period = per : whatever the edit left in _period *)
  Theorem alias_period st p_edit pv sd st' : Inv st ->
    step O (edit_period st p_edit) (mkUpd None sd (Some pv) None) = (st', Ok) -> Inv st'.
  Proof.
    intros [c [Hc [Wc [p0 [mn0 [G1 [G2 [G3 [G4 [G5 [G6 G7]]]]]]]]]]] H.
    apply (step_with_period _ _ _ c pv) in H; auto; try exact I.
    intros _. exists mn0. auto.
  Qed.

  (* m = gen.mode_no; m[i] = v; gen.mode_no = m : whatever the edit left in _mode_no *)
  Theorem alias_mode_no st mn_edit mv sd st' : Inv st ->
    step O (edit_mode_no st mn_edit) (mkUpd None sd None (Some mv)) = (st', Ok) -> Inv st'.
  Proof.
    intros [c [Hc [Wc [p0 [mn0 [G1 [G2 [G3 [G4 [G5 [G6 G7]]]]]]]]]]]. unfold step, step_gen. cbn [orb].
    cbn [u_model u_period u_mode_no u_seed edit_mode_no f_model f_period]. rewrite Hc.
    intros H. apply mode_block_ok with (a := m_anis c) in H.
    - destruct H as [H1 H2]. exists c. split; [|split; auto].
      rewrite H2. unfold new_copy. cbn. exact Hc.
    - exists p0. cbn. repeat split; auto. rewrite G5. destruct Wc. apply delta_k_len; auto.
    - cbn. discriminate.
  Qed.

  (* Fourier(model, period, mode_no, seed) establishes the invariant *)
  Theorem init_inv m period mode_no st : wf_model m -> init O m period mode_no = (st, Ok) ->
    Inv st /\ f_model st = Some m.
  Proof.
    intros [W1 W2]. unfold init, step, step_gen. cbn [orb u_model u_period u_mode_no u_seed f_model f_period fs_empty].
    destruct (fill_to_dim (m_dim m) period) as [p|] eqn:Efp; [|discriminate].
    destruct (fill_to_dim_facts (fun _ => True) _ period p Efp) as [Lp _]. { apply Forall_forall; auto. }
    intros H. apply mode_block_ok with (a := m_anis m) in H.
    - destruct H as [H1 H2]. unfold new_copy in H2. cbn in H2. split; auto.
      exists m. repeat split; auto.
    - exists p. cbn. repeat split; auto. now apply delta_k_len.
    - cbn. discriminate.
  Qed.

  (* ---------- the grid is a function of the PRESENT (model copy, period, mode counts) only: two states that satisfy
     the invariant and agree on these agree on delta_k and the mode grid, whatever their histories *)
  Theorem history_independent st1 st2 : Inv st1 -> Inv st2 ->
    f_model st1 = f_model st2 -> f_period st1 = f_period st2 -> f_mode_no st1 = f_mode_no st2 ->
    f_dk st1 = f_dk st2 /\ f_modes st1 = f_modes st2.
  Proof.
    intros [c1 [M1 [_ [p1 [n1 [P1 [N1 [_ [_ [D1 [G1 _]]]]]]]]]]] [c2 [M2 [_ [p2 [n2 [P2 [N2 [_ [_ [D2 [G2 _]]]]]]]]]]] Em Ep En.
    assert (c1 = c2) by congruence. assert (p1 = p2) by congruence. assert (n1 = n2) by congruence. subst.
    split; congruence.
  Qed.

  Lemma fill_to_dim_id {A} dim (l : list A) : length l = dim -> (1 <= dim)%nat -> fill_to_dim dim l = Some l.
  Proof.
    intros H Hd. unfold fill_to_dim. rewrite firstn_all2 by lia. destruct l as [|x r]; [simpl in H; lia|].
    rewrite H, Nat.sub_diag. simpl. now rewrite app_nil_r.
  Qed.

  Lemma set_modes_stored_id mn dk : length mn = length dk -> Forall (fun k => (0 <= k)%Z) mn ->
    snd (set_modes O mn dk) = mn.
  Proof.
    unfold set_modes, mode_axes. simpl. revert dk. induction mn as [|n mn IH]; intros [|d dk] H HF; simpl in *; try lia; auto.
    inversion HF; subst. rewrite arange_len, Z2Nat.id by auto. f_equal. apply IH; auto.
  Qed.

  (* ... in particular the state after any history equals, in every component, the state of a generator freshly
     constructed from the present model copy, period and mode counts *)
  Theorem equals_fresh st m p mn st0 : Inv st ->
    f_model st = Some m -> f_period st = Some p -> f_mode_no st = Some mn ->
    init O m p mn = (st0, Ok) -> st0 = st.
  Proof.
    intros HI Hm Hp Hn Hi. pose proof HI as HI'.
    destruct HI' as [c [Mc [Wc [p1 [n1 [P1 [N1 [L1 [L2 [D1 [G1 F1]]]]]]]]]]].
    assert (c = m) by congruence. assert (p1 = p) by congruence. assert (n1 = mn) by congruence. subst.
    destruct (init_inv m p mn st0 Wc Hi) as [HI0 M0].
    revert Hi. unfold init, step, step_gen. cbn [orb u_model u_period u_mode_no u_seed f_model f_period fs_empty].
    destruct Wc as [W1 W2].
    rewrite (fill_to_dim_id (m_dim m) p L1 W1). unfold mode_block. cbn [u_mode_no].
    rewrite (fill_to_dim_id (m_dim m) mn L2 W1).
    assert (Ev : forallb Z.even mn = true).
    { apply forallb_forall. intros k Hk. rewrite Forall_forall in F1. now destruct (F1 k Hk). }
    rewrite Ev. cbn [f_period f_dk f_model f_mode_no f_modes finish u_model orb].
    intros H. inversion H; subst st0. clear H.
    assert (Ldk : length (delta_k O p (m_anis m)) = m_dim m) by (apply delta_k_len; auto).
    change (map (fun a : list T => Z.of_nat (length a)) (mode_axes O mn (delta_k O p (m_anis m))))
      with (snd (set_modes O mn (delta_k O p (m_anis m)))).
    rewrite set_modes_stored_id.
    2:{ lia. } 2:{ eapply Forall_impl; [|exact F1]. intros k [_ Hk]. exact Hk. }
    destruct st as [fm fp fn fd fg]. simpl in *. subst. unfold grid_of. reflexivity.
  Qed.

  (* histories: every update succeeds, passes well-formed models, and none is a sub-isclose change *)
  Fixpoint good_history (st : @fstate T) (us : list (@upd T)) : Prop :=
    match us with
    | [] => True
    | u :: r => wf_upd u /\ no_subtle st u /\ snd (step O st u) = Ok /\ good_history (fst (step O st u)) r
    end.

  Theorem run_inv us : forall st, Inv st -> good_history st us -> Inv (run O st us).
  Proof.
    induction us as [|u r IH]; intros st HI HG; simpl in *; auto.
    destruct HG as [Wu [Hs [Hok HG]]]. apply IH; auto.
    destruct (step O st u) as [st' o] eqn:E. simpl in *. subst o. now destruct (step_inv st u st' HI Wu Hs E).
  Qed.
End State.
