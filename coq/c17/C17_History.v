(* C17_History.v — after any history of successful updates the field of the generator is periodic with the
   generator's own current period, mode count and model (over the reals). *)
From Coq Require Import Reals ZArith List Lia Lra Arith Bool.
From GS Require Import Num Loops RInst Summator_gen C15_KernelSpec C15_SummatorProofs C17_Model C17_Proofs C17_State.
Import ListNotations.
Open Scope R_scope.

Section History.
  Variable ora : nat -> list R -> R.
  Notation RO := (Rops ora).

  Lemma inv_periodic sched (st : @fstate R) : Inv RO st -> is_sched sched ->
    exists m p mn, f_model st = Some m /\ f_period st = Some p /\ f_mode_no st = Some mn /\
      length p = m_dim m /\ length mn = m_dim m /\ f_modes st = grid_of RO p mn (m_anis m) /\
      forall n sf z1 z2 pos ax (q : Z), wfpos (m_dim m) n pos -> (ax < m_dim m)%nat ->
        nth ax p 0 <> 0 -> nth ax (1 :: m_anis m) 0 <> 0 ->
        summate_fourier_sched RO sched sf (f_modes st) z1 z2
          (shift_axis RO pos ax (IZR q * (nth ax p 0 / nth ax (1 :: m_anis m) 0)))
        = summate_fourier_sched RO sched sf (f_modes st) z1 z2 pos.
  Proof.
    intros [m [Hm [[W1 W2] [p [mn [G1 [G2 [G3 [G4 [G5 [G6 G7]]]]]]]]]]] Hs.
    exists m, p, mn. repeat split; auto.
    intros n sf z1 z2 pos ax q Wp Ha Hp Hr. rewrite G6.
    apply (periodic_generator ora sched (m_dim m) n); auto; try lia.
    eapply Forall_impl; [|exact G7]. intros k [Hk _]. exact Hk.
  Qed.

  Theorem periodic_after_history sched m0 period0 mode_no0 st0 us :
    is_sched sched -> wf_model m0 -> init RO m0 period0 mode_no0 = (st0, Ok) -> good_history RO st0 us ->
    let st := run RO st0 us in
    exists m p mn, f_model st = Some m /\ f_period st = Some p /\ f_mode_no st = Some mn /\
      length p = m_dim m /\ length mn = m_dim m /\ f_modes st = grid_of RO p mn (m_anis m) /\
      forall n sf z1 z2 pos ax (q : Z), wfpos (m_dim m) n pos -> (ax < m_dim m)%nat ->
        nth ax p 0 <> 0 -> nth ax (1 :: m_anis m) 0 <> 0 ->
        summate_fourier_sched RO sched sf (f_modes st) z1 z2
          (shift_axis RO pos ax (IZR q * (nth ax p 0 / nth ax (1 :: m_anis m) 0)))
        = summate_fourier_sched RO sched sf (f_modes st) z1 z2 pos.
  Proof.
    intros Hs Wm Hi Hg st. apply inv_periodic; auto. apply run_inv; auto.
    now destruct (init_inv RO m0 period0 mode_no0 st0 Wm Hi).
  Qed.

  (* ---------- why the mode count must be even: with an odd count the grid consists of half-integer multiples
     of delta_k and a 1-D field changes its sign after one period *)
  Lemma for_neg N (f : nat -> R) :
    for_ 0 N (fun j acc => acc + - f j) 0 = - for_ 0 N (fun j acc => acc + f j) 0.
  Proof. induction N. { rewrite !for_0. ring. } rewrite !for_S, IHN. ring. Qed.

  Lemma cos_half_period x (k : Z) : cos (x + (2 * IZR k + 1) * PI) = - cos x.
  Proof. replace (x + (2 * IZR k + 1) * PI) with ((x + PI) + 2 * IZR k * PI) by ring.
    rewrite cos_period_Z. apply neg_cos. Qed.
  Lemma sin_half_period x (k : Z) : sin (x + (2 * IZR k + 1) * PI) = - sin x.
  Proof. replace (x + (2 * IZR k + 1) * PI) with ((x + PI) + 2 * IZR k * PI) by ring.
    rewrite sin_period_Z. apply neg_sin. Qed.

  Lemma flat_map_repeat1 {A} (l : list A) : flat_map (fun v => repeat v 1) l = l.
  Proof. induction l; simpl; [auto | now f_equal]. Qed.

  Theorem odd_count_antiperiodic sched (nmodes : Z) period sf z1 z2 (xs : list R) :
    is_sched sched -> Z.odd nmodes = true -> period <> 0 ->
    let modes := grid_of RO [period] [nmodes] [] in
    summate_fourier_sched RO sched sf modes z1 z2 (shift_axis RO [xs] 0 period)
    = map Ropp (summate_fourier_sched RO sched sf modes z1 z2 [xs]).
  Proof.
    intros Hs Ho Hp modes. rewrite !(summate_fourier_any_schedule RO sched) by auto.
    unfold summate_fourier_spec. rewrite shift_shape1. rewrite map_map.
    assert (W : wfpos 1 (length xs) [xs]) by (split; [reflexivity | repeat constructor]).
    change (shape1 [xs]) with (length xs).
    apply map_ext_in. intros i Hi. apply in_seq in Hi. unfold summate_fourier_point.
    rewrite <- for_neg. apply for_ext. intros j acc Hj.
    rewrite (phase_shift ora 1 (length xs)) by (auto; lia).
    assert (Hk : exists m : Z, aget2 0 modes 0 j * period = (2 * IZR m + 1) * PI).
    { unfold modes, grid_of, delta_k, mode_axes. cbn [combine map fst snd generate_grid grid_size].
      unfold aget2, arow. cbn [nth]. rewrite flat_map_repeat1.
      unfold shape1, modes, grid_of, delta_k, mode_axes in Hj.
      cbn [combine map fst snd generate_grid grid_size nth] in Hj. rewrite flat_map_repeat1 in Hj.
      unfold arange_modes in *. rewrite map_length, seq_length in Hj.
      unfold aget. rewrite nth_indep with (d' := (fun i0 => nmul RO (ndiv RO (nofZ RO (2 * Z.of_nat i0 - nmodes)) (nlit RO 2 0))
                 (nmul RO (ndiv RO (two_pi RO) period) (n1 RO))) 0%nat) by (rewrite map_length, seq_length; lia).
      rewrite (map_nth (fun i0 => nmul RO (ndiv RO (nofZ RO (2 * Z.of_nat i0 - nmodes)) (nlit RO 2 0))
                 (nmul RO (ndiv RO (two_pi RO) period) (n1 RO)))). rewrite seq_nth by lia.
      apply Zodd_bool_iff in Ho. destruct (Zodd_ex nmodes Ho) as [h Hh].
      exists (Z.of_nat j - h - 1)%Z. unfold two_pi, nlit. cbn [nmul ndiv nofZ npi n1 Rops]. simpl (0 + j)%nat.
      replace (2 * Z.of_nat j - nmodes)%Z with (2 * (Z.of_nat j - h - 1) + 1)%Z by lia.
      rewrite plus_IZR, mult_IZR. field. exact Hp. }
    destruct Hk as [m Hm]. rewrite Hm. unfold wave. cbn [nadd nmul ncos nsin Rops].
    rewrite cos_half_period, sin_half_period. ring.
  Qed.
End History.
