(* C17_Axes.v — periodicity in the user's coordinates: positions are isometrized (derotated, then divided by
   the anisotropy ratios: C12's model of CovModel.isometrize) before the summation, so a move by the period
   along a MAIN AXIS of the model is a move by period/ratio along a coordinate axis of the summation.
   Builds on c12 (main_axis_scale: isometrize (t * main axis i) = (t / ratio_i) e_i). *)
From Coq Require Import Reals ZArith List Lia Lra Arith Bool.
From GS Require Import Num Loops Summator_gen C15_KernelSpec C17_Model.
From GS Require RInst C17_Proofs.
From GS Require Import C12_Model C12_Mat C12_Bridge C12_Proofs C12_Proofs2.
Import ListNotations.
Open Scope R_scope.

(* the two real instances (lib/RInst.v, c12/C12_Mat.v) agree on every operation used here, so the theorems of
   C17_Proofs apply verbatim *)
Notation RO' := (RInst.Rops (fun _ _ => 0)).

Lemma shift_inst : @shift_axis R RO = @shift_axis R RO'.
Proof. reflexivity. Qed.
Lemma sum_inst : @summate_fourier_sched R RO = @summate_fourier_sched R RO'.
Proof. reflexivity. Qed.
Lemma grid_inst : @grid_of R RO = @grid_of R RO'.
Proof. reflexivity. Qed.

Lemma set_anis_full dim (anis : list R) : length anis = (dim - 1)%nat -> set_anis RO dim anis = anis.
Proof.
  intros H. unfold set_anis. rewrite firstn_all2 by lia. rewrite H, Nat.sub_diag. reflexivity.
Qed.

(* moving all points of a (dim, n) array by the vector t * v *)
Definition move_along (dim n : nat) (pos : list (list R)) (v : list R) (t : R) : list (list R) :=
  mkmat dim n (fun k j => aget2 0 pos k j + t * aget 0 v k).

Lemma isometrize_move dim n angles anis pos ax t : (0 < dim)%nat -> Forall (fun a => 0 < a) anis ->
  wfm dim n pos -> (ax < dim)%nat ->
  isometrize RO dim angles anis (move_along dim n pos (arow (rotated_main_axes RO dim angles) ax) t)
  = shift_axis RO (isometrize RO dim angles anis pos) ax (t / ratio dim anis ax).
Proof.
  intros Hd Hp Wp Ha.
  set (axis := arow (rotated_main_axes RO dim angles) ax).
  pose proof (wfm_isometrize dim angles anis Hd) as WM.
  pose proof (rotate_wfm dim angles Hd) as WR. pose proof (wfm_transpose dim dim _ WR Hd) as WT.
  assert (Lax : length axis = dim) by (apply (wfm_row_len dim dim _ ax WT Ha)).
  assert (Wm : wfm dim n (move_along dim n pos axis t)) by apply wfm_mkmat.
  assert (Wi : wfm dim n (isometrize RO dim angles anis pos)) by (apply (wfm_matmul dim dim n); auto).
  assert (Wc : wfm dim 1 (map (fun x => [t * x]) axis)).
  { split. { now rewrite map_length. } apply Forall_forall. intros r Hr. apply in_map_iff in Hr.
    destruct Hr as [x [<- _]]. reflexivity. }
  (* the column of the isometrize matrix hit by the main axis, from C12 *)
  assert (Hcol : forall k, (k < dim)%nat ->
     sumf dim (fun l => mof (matrix_isometrize RO dim angles anis) k l * (t * aget 0 axis l))
     = if Nat.eqb k ax then t / ratio dim anis ax else 0).
  { intros k Hk. pose proof (main_axis_scale dim angles anis ax t Hd Hp Ha) as MS. cbv zeta in MS. fold axis in MS.
    assert (E : mof (isometrize RO dim angles anis (map (fun x => [t * x]) axis)) k 0%nat
                = if Nat.eqb k ax then t / ratio dim anis ax else 0).
    { rewrite MS. unfold mof. rewrite aget2_mkmat by lia. reflexivity. }
    rewrite <- E. unfold isometrize. rewrite (mof_matmul dim dim 1) by (auto; lia). unfold mmul.
    apply sumf_ext. intros l Hl. f_equal. unfold mof, aget2, arow.
    rewrite nth_indep with (d' := (fun x => [t * x]) 0) by (rewrite map_length; lia).
    rewrite (map_nth (fun x => [t * x])). reflexivity. }
  rewrite shift_inst. apply (mat_ext_R dim n).
  - apply (wfm_matmul dim dim n); auto.
  - exact (C17_Proofs.shift_wfpos (fun _ _ => 0) dim n _ ax _ Wi Ha).
  - intros k j Hk Hj. unfold isometrize at 1. rewrite (mof_matmul dim dim n) by auto. unfold mmul.
    rewrite (sumf_ext dim _ (fun l => mof (matrix_isometrize RO dim angles anis) k l * mof pos l j
                                     + mof (matrix_isometrize RO dim angles anis) k l * (t * aget 0 axis l))).
    2:{ intros l Hl. unfold move_along, mof at 2. rewrite aget2_mkmat by auto. unfold mof. ring. }
    rewrite sumf_plus, (Hcol k Hk).
    unfold mof at 3. rewrite (C17_Proofs.shift_entry (fun _ _ => 0) dim n _ ax _ k j Wi Ha Hj).
    f_equal. unfold isometrize. rewrite (mof_matmul dim dim n) by auto. reflexivity.
Qed.

(* ---------- rotated / anisotropic models: along the main axes *)
Theorem periodic_main_axes sched dim n angles anis period mode_no sf z1 z2 pos ax (q : Z) :
  is_sched sched -> (0 < dim)%nat -> length period = dim -> length mode_no = dim ->
  Forall (fun k => Z.even k = true) mode_no ->
  length anis = (dim - 1)%nat -> Forall (fun a => 0 < a) anis ->
  wfm dim n pos -> (ax < dim)%nat -> nth ax period 0 <> 0 ->
  let axis := arow (rotated_main_axes RO dim angles) ax in
  let modes := grid_of RO period mode_no anis in
  summate_fourier_sched RO sched sf modes z1 z2
    (isometrize RO dim angles anis (move_along dim n pos axis (IZR q * nth ax period 0)))
  = summate_fourier_sched RO sched sf modes z1 z2 (isometrize RO dim angles anis pos).
Proof.
  intros Hs Hd Lp Lm He La Hp Wp Ha Hper axis modes. unfold axis.
  rewrite (isometrize_move dim n angles anis pos ax) by auto.
  assert (Hr : ratio dim anis ax = nth ax (1 :: anis) 0).
  { unfold ratio, aget. now rewrite set_anis_full. }
  assert (Hrp : 0 < ratio dim anis ax) by (now apply ratio_pos).
  assert (Wi : wfm dim n (isometrize RO dim angles anis pos)).
  { apply (wfm_matmul dim dim n); auto. now apply wfm_isometrize. }
  replace (IZR q * nth ax period 0 / ratio dim anis ax)
    with (IZR q * (nth ax period 0 / nth ax (1 :: anis) 0)) by (rewrite Hr; field; rewrite <- Hr; lra).
  unfold modes. rewrite shift_inst, sum_inst, grid_inst.
  exact (C17_Proofs.periodic_generator (fun _ _ => 0) sched dim n period mode_no anis sf z1 z2
           (isometrize RO dim angles anis pos) ax q Hs Hd Lp La Lm He Wi Ha Hper ltac:(rewrite <- Hr; lra)).
Qed.

(* ---------- unrotated models: the main axes are the coordinate axes *)
Lemma main_axes_unrotated dim angles ax : (0 < dim)%nat -> Forall (fun a => a = 0) angles -> (ax < dim)%nat ->
  arow (rotated_main_axes RO dim angles) ax = map (fun j => if Nat.eqb ax j then 1 else 0) (seq 0 dim).
Proof.
  intros Hd H0 Ha. unfold rotated_main_axes. rewrite <- derotate_is_transpose by auto.
  rewrite derotate_zero by auto. unfold eye. now rewrite arow_mkmat.
Qed.

Theorem periodic_unrotated sched dim n angles anis period mode_no sf z1 z2 pos ax (q : Z) :
  is_sched sched -> (0 < dim)%nat -> length period = dim -> length mode_no = dim ->
  Forall (fun k => Z.even k = true) mode_no ->
  length anis = (dim - 1)%nat -> Forall (fun a => 0 < a) anis -> Forall (fun a => a = 0) angles ->
  wfm dim n pos -> (ax < dim)%nat -> nth ax period 0 <> 0 ->
  let modes := grid_of RO period mode_no anis in
  summate_fourier_sched RO sched sf modes z1 z2
    (isometrize RO dim angles anis (shift_axis RO pos ax (IZR q * nth ax period 0)))
  = summate_fourier_sched RO sched sf modes z1 z2 (isometrize RO dim angles anis pos).
Proof.
  intros Hs Hd Lp Lm He La Hp H0 Wp Ha Hper modes.
  pose proof (periodic_main_axes sched dim n angles anis period mode_no sf z1 z2 pos ax q
                Hs Hd Lp Lm He La Hp Wp Ha Hper) as PM. cbv zeta in PM. unfold modes. rewrite <- PM.
  f_equal. f_equal. rewrite shift_inst.
  apply (mat_ext_R dim n).
  - exact (C17_Proofs.shift_wfpos (fun _ _ => 0) dim n _ ax _ Wp Ha).
  - apply wfm_mkmat.
  - intros k j Hk Hj. unfold mof. rewrite (C17_Proofs.shift_entry (fun _ _ => 0) dim n _ ax _ k j Wp Ha Hj).
    unfold move_along. rewrite aget2_mkmat by auto. f_equal.
    rewrite main_axes_unrotated by auto. rewrite aget_map_seq by auto.
    rewrite (Nat.eqb_sym ax k). destruct (Nat.eqb k ax); ring.
Qed.
