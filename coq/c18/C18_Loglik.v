(* C18_Loglik.v — the coded log-likelihood is the Gaussian maximum-likelihood profile: with z_i = normalize x_i,
   loglikelihood = sum_i [ ln pdf_{N(mu, s2)}(z_i) + ln max(1e-16, T'(x_i)) ] at mu = mean z, s2 = var z,
   and no other (mu, s2) gives a larger value. *)
From Coq Require Import Reals Lra Psatz List Bool ZArith.
From GS Require Import Num Loops C18_Model C18_RInst.
Import ListNotations.
Open Scope R_scope.

Definition rsum (l : list R) : R := fold_left Rplus l 0.
Lemma nsum_R l : nsum Rops l = rsum l.
Proof. reflexivity. Qed.
Lemma fold_acc l a : fold_left Rplus l a = a + rsum l.
Proof.
  unfold rsum. revert a. induction l as [|h t IH]; intros a; simpl; [ring|].
  rewrite IH, (IH (0 + h)). ring.
Qed.
Lemma rsum_cons a l : rsum (a :: l) = a + rsum l.
Proof. unfold rsum at 1. simpl. rewrite fold_acc. ring. Qed.
Lemma rsum_nil : rsum [] = 0.
Proof. reflexivity. Qed.
Lemma rsum_map_plus {A} (f g : A -> R) l : rsum (map (fun x => f x + g x) l) = rsum (map f l) + rsum (map g l).
Proof. induction l as [|h t IH]; simpl; rewrite ?rsum_nil, ?rsum_cons, ?IH; ring. Qed.
Lemma rsum_map_scal {A} c (f : A -> R) l : rsum (map (fun x => c * f x) l) = c * rsum (map f l).
Proof. induction l as [|h t IH]; simpl; rewrite ?rsum_nil, ?rsum_cons, ?IH; ring. Qed.
Lemma rsum_map_const {A} c (l : list A) : rsum (map (fun _ => c) l) = INR (length l) * c.
Proof.
  induction l as [|h t IH]; [simpl; rewrite rsum_nil; ring|].
  change (map (fun _ : A => c) (h :: t)) with (c :: map (fun _ : A => c) t).
  rewrite rsum_cons, IH. change (length (h :: t)) with (S (length t)). rewrite S_INR. ring.
Qed.
Lemma rsum_map_ext {A} (f g : A -> R) l : (forall x, f x = g x) -> rsum (map f l) = rsum (map g l).
Proof. intros H. induction l as [|h t IH]; simpl; rewrite ?rsum_cons, ?IH, ?H; reflexivity. Qed.
Lemma rsum_sq_nonneg {A} (f : A -> R) l : 0 <= rsum (map (fun x => f x * f x) l).
Proof. induction l as [|h t IH]; simpl; rewrite ?rsum_nil, ?rsum_cons; [lra|]. pose proof (Rle_0_sqr (f h)) as H. unfold Rsqr in H. lra. Qed.
Lemma nsize_R {A} (l : list A) : IZR (Z.of_nat (length l)) = INR (length l).
Proof. symmetry. apply INR_IZR_INZ. Qed.

(* Gaussian log-density *)
Definition gauss_logpdf (mu s2 z : R) : R :=
  ln (/ sqrt (2 * PI * s2) * exp (- ((z - mu) * (z - mu)) / (2 * s2))).
Lemma ln_sqrt a : 0 < a -> ln (sqrt a) = ln a / 2.
Proof.
  intros Ha. assert (0 < sqrt a) as Hs by (apply sqrt_lt_R0; exact Ha).
  assert (ln (sqrt a * sqrt a) = ln a) as H by (rewrite sqrt_sqrt by lra; reflexivity).
  rewrite ln_mult in H by assumption. lra.
Qed.
Lemma gauss_logpdf_eq mu s2 z : 0 < s2 ->
  gauss_logpdf mu s2 z = - / 2 * ln (2 * PI * s2) + - / (2 * s2) * ((z - mu) * (z - mu)).
Proof.
  intros Hs. unfold gauss_logpdf. assert (0 < 2 * PI * s2) as Hp by (pose proof PI_RGT_0; nra).
  assert (0 < sqrt (2 * PI * s2)) as Hq by (apply sqrt_lt_R0; exact Hp).
  rewrite ln_mult; [|apply Rinv_0_lt_compat; exact Hq|apply exp_pos].
  rewrite ln_Rinv by exact Hq. rewrite ln_sqrt by exact Hp. rewrite ln_exp. field. lra.
Qed.

Section Profile.
  Variable zs : list R.
  Let n := INR (length zs).
  Let m := rsum zs / n.
  Let v := rsum (map (fun z => (z - m) * (z - m)) zs) / n.
  Hypothesis Hn : zs <> [].
  Lemma n_pos : 0 < n.
  Proof. unfold n. destruct zs; [congruence|]. apply lt_0_INR. simpl. apply Nat.lt_0_succ. Qed.
  Lemma nmean_R : nmean Rops zs = m.
  Proof. unfold nmean, m, n. rewrite nsum_R. unfold nsize. simpl. rewrite nsize_R. reflexivity. Qed.
  Lemma nvar_R : nvar Rops zs = v.
  Proof.
    unfold nvar. cbv zeta. rewrite nmean_R. unfold nmean, v, n. rewrite nsum_R. unfold nsize. simpl nofZ.
    rewrite map_length, nsize_R. reflexivity.
  Qed.
  Lemma sum_centered : rsum (map (fun z => z - m) zs) = 0.
  Proof.
    pose proof n_pos as Hp.
    replace (map (fun z => z - m) zs) with (map (fun z => (fun z => z) z + (fun _ => - m) z) zs) by reflexivity.
    rewrite rsum_map_plus, rsum_map_const, map_id. fold n. unfold m. field. lra.
  Qed.
  (* sum of squares about any mu = sum of squares about the mean + n (m - mu)^2 *)
  Lemma sumsq_shift mu :
    rsum (map (fun z => (z - mu) * (z - mu)) zs) = n * v + n * ((m - mu) * (m - mu)).
  Proof.
    pose proof n_pos as Hp.
    rewrite (rsum_map_ext _ (fun z => (z - m) * (z - m) + ((2 * (m - mu)) * (z - m) + (m - mu) * (m - mu)))) by (intros; ring).
    rewrite rsum_map_plus, rsum_map_plus, rsum_map_scal, sum_centered, rsum_map_const. fold n. unfold v. field. lra.
  Qed.
  Lemma gauss_sum mu s2 : 0 < s2 ->
    rsum (map (gauss_logpdf mu s2) zs) =
    - (n / 2) * ln (2 * PI * s2) - (n * v + n * ((m - mu) * (m - mu))) / (2 * s2).
  Proof.
    intros Hs. rewrite (rsum_map_ext _ (fun z => (fun _ => - / 2 * ln (2 * PI * s2)) z + - / (2 * s2) * ((z - mu) * (z - mu))))
      by (intros; apply gauss_logpdf_eq; exact Hs).
    rewrite rsum_map_plus, rsum_map_const, rsum_map_scal, sumsq_shift. fold n. field. lra.
  Qed.
  Lemma gauss_profile : 0 < v ->
    rsum (map (gauss_logpdf m v) zs) = - (n / 2) * ln v - (n / 2) * (ln (2 * PI) + 1).
  Proof.
    intros Hv. rewrite gauss_sum by exact Hv. replace ((m - m) * (m - m)) with 0 by ring.
    rewrite ln_mult; [|pose proof PI_RGT_0; lra|exact Hv]. field. lra.
  Qed.
  Lemma gauss_max mu s2 : 0 < v -> 0 < s2 ->
    rsum (map (gauss_logpdf mu s2) zs) <= rsum (map (gauss_logpdf m v) zs).
  Proof.
    intros Hv Hs. pose proof n_pos as Hp. rewrite gauss_profile by exact Hv. rewrite gauss_sum by exact Hs.
    assert (0 < 2 * PI) as H2 by (pose proof PI_RGT_0; lra).
    rewrite (ln_mult (2 * PI) s2) by assumption.
    (* ln (v / s2) <= v / s2 - 1 *)
    assert (0 < v / s2) as Hq by (apply Rdiv_lt_0_compat; assumption).
    pose proof (exp_ineq1_le (ln (v / s2))) as He. rewrite exp_ln in He by exact Hq.
    unfold Rdiv in He at 1. rewrite ln_mult in He; [|exact Hv|apply Rinv_0_lt_compat; exact Hs].
    rewrite ln_Rinv in He by exact Hs.
    assert (0 <= n * ((m - mu) * (m - mu)) / (2 * s2)) as Hsq.
    { apply Rmult_le_pos; [apply Rmult_le_pos; [lra|apply Rle_0_sqr]|left; apply Rinv_0_lt_compat; lra]. }
    assert ((n * v + n * ((m - mu) * (m - mu))) / (2 * s2) = (n / 2) * (v / s2) + n * ((m - mu) * (m - mu)) / (2 * s2)) as E
      by (field; lra).
    rewrite E. nra.
  Qed.
End Profile.

(* the model's likelihood in these terms *)
Definition jac (k : nkind) (p : npar R) (x : R) : R := ln (nmax Rops (tiny Rops) (derivative_raw Rops k p x)).
Definition full_loglik (k : nkind) (p : npar R) (mu s2 : R) (d : list R) : R :=
  rsum (map (fun x => gauss_logpdf mu s2 (normalize_raw Rops k p x)) d) + rsum (map (jac k p) d).

Lemma mhalf_R : mhalf Rops = - (5 / 10).
Proof. reflexivity. Qed.

Lemma loglik_valid_R k p d :
  loglik_valid Rops k p d =
  - (5 / 10) * INR (length d) * ln (nvar Rops (map (normalize_raw Rops k p) d)) + rsum (map (jac k p) d)
  + - (5 / 10) * INR (length d) * (ln (2 * PI) + 1).
Proof.
  unfold loglik_valid, kernel_loglik_valid. rewrite <- (nsize_R d). reflexivity.
Qed.

Theorem loglik_profile k p d : d <> [] -> 0 < nvar Rops (map (normalize_raw Rops k p) d) ->
  loglik_valid Rops k p d =
  full_loglik k p (nmean Rops (map (normalize_raw Rops k p) d)) (nvar Rops (map (normalize_raw Rops k p) d)) d.
Proof.
  intros Hd Hv. rewrite loglik_valid_R. set (zs := map (normalize_raw Rops k p) d) in *.
  assert (zs <> []) as Hz by (unfold zs; destruct d; [congruence|discriminate]).
  unfold full_loglik. rewrite <- (map_map (normalize_raw Rops k p) (gauss_logpdf _ _)). fold zs.
  rewrite nmean_R, nvar_R in * by exact Hz. rewrite gauss_profile by assumption.
  replace (length d) with (length zs) by (unfold zs; apply map_length). field.
Qed.

Theorem loglik_maximal k p d mu s2 : d <> [] -> 0 < nvar Rops (map (normalize_raw Rops k p) d) -> 0 < s2 ->
  full_loglik k p mu s2 d <= loglik_valid Rops k p d.
Proof.
  intros Hd Hv Hs. rewrite loglik_profile by assumption. set (zs := map (normalize_raw Rops k p) d) in *.
  assert (zs <> []) as Hz by (unfold zs; destruct d; [congruence|discriminate]).
  unfold full_loglik. rewrite <- !(map_map (normalize_raw Rops k p) (gauss_logpdf _ _)). fold zs.
  rewrite nmean_R, nvar_R in * by exact Hz. apply Rplus_le_compat_r. apply gauss_max; assumption.
Qed.

Theorem loglik_kernel_offset k p d :
  loglik_valid Rops k p d = kernel_loglik_valid Rops k p d - INR (length d) / 2 * (ln (2 * PI) + 1).
Proof.
  unfold loglik_valid. rewrite mhalf_R. unfold nsize. simpl nofZ. rewrite nsize_R.
  change (nln Rops (nmul Rops (two Rops) (npi Rops))) with (ln (2 * PI)).
  change (nadd Rops (ln (2 * PI)) (n1 Rops)) with (ln (2 * PI) + 1).
  set (K := kernel_loglik_valid Rops k p d). simpl. field.
Qed.
