(* C18_Tie.v — the hand model's maps equal the formulas translated from /repo's normalizer/methods.py on every run
   (coq/gen/Formulas_gen.v).  Twelve ties hold for every number type by unfolding; the six that go through
   np.log1p / np.expm1 (rendered ln (1+x) / exp x - 1 by the translator, oracle functions in the hand model) hold at
   the real instance, for every lmbda and every datum, without side conditions. *)
From Coq Require Import Reals List Bool ZArith.
From Coquelicot Require Import Coquelicot.
From GS Require Import Num Loops Formulas Formulas_gen C18_Model C18_RInst C18_Analysis C18_Proofs.
Open Scope R_scope.

Section Generic.
  Context {T : Type} (O : NumOps T).
  Lemma LogNormal_normalize_tie p x : LogNormal_normalize O x = normalize_raw O KLogNormal p x.
  Proof. reflexivity. Qed.
  Lemma LogNormal_denormalize_tie p y : LogNormal_denormalize O y = denormalize_raw O KLogNormal p y.
  Proof. reflexivity. Qed.
  Lemma LogNormal_derivative_tie p x : LogNormal_derivative O x = derivative_raw O KLogNormal p x.
  Proof. reflexivity. Qed.
  Lemma BoxCox_normalize_tie p x : BoxCox_normalize O (lmbda p) x = normalize_raw O KBoxCox p x.
  Proof. reflexivity. Qed.
  Lemma BoxCox_denormalize_tie p y : BoxCox_denormalize O (lmbda p) y = denormalize_raw O KBoxCox p y.
  Proof. reflexivity. Qed.
  Lemma BoxCox_derivative_tie p x : BoxCox_derivative O (lmbda p) x = derivative_raw O KBoxCox p x.
  Proof. reflexivity. Qed.
  Lemma BoxCoxShift_normalize_tie p x : BoxCoxShift_normalize O (lmbda p) (shift p) x = normalize_raw O KBoxCoxShift p x.
  Proof. reflexivity. Qed.
  Lemma BoxCoxShift_denormalize_tie p y : BoxCoxShift_denormalize O (lmbda p) (shift p) y = denormalize_raw O KBoxCoxShift p y.
  Proof. reflexivity. Qed.
  Lemma BoxCoxShift_derivative_tie p x : BoxCoxShift_derivative O (shift p) (lmbda p) x = derivative_raw O KBoxCoxShift p x.
  Proof. reflexivity. Qed.
  Lemma YeoJohnson_derivative_tie p x : YeoJohnson_derivative O (lmbda p) x = derivative_raw O KYeoJohnson p x.
  Proof. reflexivity. Qed.
  Lemma Modulus_derivative_tie p x : Modulus_derivative O (lmbda p) x = derivative_raw O KModulus p x.
  Proof. reflexivity. Qed.
  Lemma Manly_derivative_tie p x : Manly_derivative O (lmbda p) x = derivative_raw O KManly p x.
  Proof. reflexivity. Qed.
  (* the range properties (option T * option T, None = infinite bound) *)
  Lemma BoxCox_denormalize_range_tie p : BoxCox_denormalize_range O (lmbda p) = denorm_range O KBoxCox p.
  Proof. reflexivity. Qed.
  Lemma BoxCoxShift_normalize_range_tie p : BoxCoxShift_normalize_range O (shift p) = norm_range O KBoxCoxShift p.
  Proof. reflexivity. Qed.
  Lemma BoxCoxShift_denormalize_range_tie p : BoxCoxShift_denormalize_range O (lmbda p) = denorm_range O KBoxCoxShift p.
  Proof. reflexivity. Qed.
  Lemma YeoJohnson_denormalize_range_tie p : YeoJohnson_denormalize_range O (lmbda p) = denorm_range O KYeoJohnson p.
  Proof. reflexivity. Qed.
  Lemma Modulus_denormalize_range_tie p : Modulus_denormalize_range O (lmbda p) = denorm_range O KModulus p.
  Proof. reflexivity. Qed.
  Lemma Manly_denormalize_range_tie p : Manly_denormalize_range O (lmbda p) = denorm_range O KManly p.
  Proof. reflexivity. Qed.
  (* the source's ranges by class; class attributes that are not functions: (0.0, inf) for LogNormal / BoxCox
     normalize_range, (-inf, inf) otherwise *)
  Definition src_norm_range (k : nkind) (p : npar T) : option T * option T :=
    match k with
    | KLogNormal | KBoxCox => (Some (n0 O), None)
    | KBoxCoxShift => BoxCoxShift_normalize_range O (shift p)
    | _ => (None, None)
    end.
  Definition src_denorm_range (k : nkind) (p : npar T) : option T * option T :=
    match k with
    | KBoxCox => BoxCox_denormalize_range O (lmbda p)
    | KBoxCoxShift => BoxCoxShift_denormalize_range O (lmbda p)
    | KYeoJohnson => YeoJohnson_denormalize_range O (lmbda p)
    | KModulus => Modulus_denormalize_range O (lmbda p)
    | KManly => Manly_denormalize_range O (lmbda p)
    | _ => (None, None)
    end.
  Lemma src_norm_range_tie k p : src_norm_range k p = norm_range O k p.
  Proof. destruct k; reflexivity. Qed.
  Lemma src_denorm_range_tie k p : src_denorm_range k p = denorm_range O k p.
  Proof. destruct k; reflexivity. Qed.
End Generic.

(* through log1p / expm1: at R *)
Lemma YeoJohnson_normalize_tie p x : YeoJohnson_normalize Rops (lmbda p) x = normalize_raw Rops KYeoJohnson p x.
Proof.
  unfold YeoJohnson_normalize, normalize_raw. cbv zeta.
  change (fisclose Rops (lmbda p) (n0 Rops)) with (close0 Rops (lmbda p)).
  change (fisclose Rops (lmbda p) (nlit Rops 2 0)) with (close2 Rops (lmbda p)).
  destruct (nleb Rops (n0 Rops) x); destruct (close0 Rops (lmbda p)); destruct (close2 Rops (lmbda p)); reflexivity.
Qed.
Lemma YeoJohnson_denormalize_tie p y : YeoJohnson_denormalize Rops (lmbda p) y = denormalize_raw Rops KYeoJohnson p y.
Proof.
  unfold YeoJohnson_denormalize, denormalize_raw. cbv zeta.
  change (fisclose Rops (lmbda p) (n0 Rops)) with (close0 Rops (lmbda p)).
  change (fisclose Rops (lmbda p) (nlit Rops 2 0)) with (close2 Rops (lmbda p)).
  destruct (nleb Rops (n0 Rops) y); destruct (close0 Rops (lmbda p)); destruct (close2 Rops (lmbda p)); reflexivity.
Qed.
Lemma Modulus_normalize_tie p x : Modulus_normalize Rops (lmbda p) x = normalize_raw Rops KModulus p x.
Proof. reflexivity. Qed.
Lemma Modulus_denormalize_tie p y : Modulus_denormalize Rops (lmbda p) y = denormalize_raw Rops KModulus p y.
Proof. reflexivity. Qed.
Lemma Manly_normalize_tie p x : Manly_normalize Rops (lmbda p) x = normalize_raw Rops KManly p x.
Proof. reflexivity. Qed.
Lemma Manly_denormalize_tie p y : Manly_denormalize Rops (lmbda p) y = denormalize_raw Rops KManly p y.
Proof. reflexivity. Qed.

(* ---- the source's maps, selected by class (the base class is the identity with a central-difference derivative,
   not a formula function of the table) *)
Definition src_normalize (k : nkind) (p : npar R) (x : R) : R :=
  match k with
  | KIdentity => x
  | KLogNormal => LogNormal_normalize Rops x
  | KBoxCox => BoxCox_normalize Rops (lmbda p) x
  | KBoxCoxShift => BoxCoxShift_normalize Rops (lmbda p) (shift p) x
  | KYeoJohnson => YeoJohnson_normalize Rops (lmbda p) x
  | KModulus => Modulus_normalize Rops (lmbda p) x
  | KManly => Manly_normalize Rops (lmbda p) x
  end.
Definition src_denormalize (k : nkind) (p : npar R) (y : R) : R :=
  match k with
  | KIdentity => y
  | KLogNormal => LogNormal_denormalize Rops y
  | KBoxCox => BoxCox_denormalize Rops (lmbda p) y
  | KBoxCoxShift => BoxCoxShift_denormalize Rops (lmbda p) (shift p) y
  | KYeoJohnson => YeoJohnson_denormalize Rops (lmbda p) y
  | KModulus => Modulus_denormalize Rops (lmbda p) y
  | KManly => Manly_denormalize Rops (lmbda p) y
  end.
Definition src_derivative (k : nkind) (p : npar R) (x : R) : R :=
  match k with
  | KIdentity => derivative_raw Rops KIdentity p x
  | KLogNormal => LogNormal_derivative Rops x
  | KBoxCox => BoxCox_derivative Rops (lmbda p) x
  | KBoxCoxShift => BoxCoxShift_derivative Rops (shift p) (lmbda p) x
  | KYeoJohnson => YeoJohnson_derivative Rops (lmbda p) x
  | KModulus => Modulus_derivative Rops (lmbda p) x
  | KManly => Manly_derivative Rops (lmbda p) x
  end.
Lemma src_normalize_tie k p x : src_normalize k p x = normalize_raw Rops k p x.
Proof. destruct k; try reflexivity. apply YeoJohnson_normalize_tie. Qed.
Lemma src_denormalize_tie k p y : src_denormalize k p y = denormalize_raw Rops k p y.
Proof. destruct k; try reflexivity. apply YeoJohnson_denormalize_tie. Qed.
Lemma src_derivative_tie k p x : src_derivative k p x = derivative_raw Rops k p x.
Proof. destruct k; reflexivity. Qed.

(* ---- the main theorems about the translated source formulas and the translated source ranges *)
Notation sNR k p := (src_norm_range Rops k p).
Notation sDR k p := (src_denorm_range Rops k p).
Theorem src_denorm_norm k p x : in_range Rops (sNR k p) x = true ->
  in_range Rops (sDR k p) (src_normalize k p x) = true /\
  src_denormalize k p (src_normalize k p x) = x.
Proof.
  rewrite src_norm_range_tie, src_denorm_range_tie.
  intros H. rewrite src_denormalize_tie, src_normalize_tie. apply in_range_R in H. destruct (coreA k p x H) as [H1 H2].
  split; [apply in_range_R; exact H1|exact H2].
Qed.
Theorem src_norm_denorm k p y : in_range Rops (sDR k p) y = true ->
  in_range Rops (sNR k p) (src_denormalize k p y) = true /\
  src_normalize k p (src_denormalize k p y) = y.
Proof.
  rewrite src_norm_range_tie, src_denorm_range_tie.
  intros H. rewrite src_normalize_tie, src_denormalize_tie. apply in_range_R in H. destruct (coreB k p y H) as [H1 H2].
  split; [apply in_range_R; exact H1|exact H2].
Qed.
Theorem src_strictly_increasing k p x1 x2 :
  in_range Rops (sNR k p) x1 = true -> in_range Rops (sNR k p) x2 = true ->
  x1 < x2 -> src_normalize k p x1 < src_normalize k p x2.
Proof. rewrite src_norm_range_tie, !src_normalize_tie. apply strictly_increasing. Qed.
Theorem src_ranges k p y :
  (exists x, in_range Rops (sNR k p) x = true /\ src_normalize k p x = y) <->
  in_range Rops (sDR k p) y = true.
Proof.
  rewrite src_norm_range_tie, src_denorm_range_tie.
  rewrite <- image_is_range. split; intros [x [H E]]; exists x; (split; [exact H|]);
    [rewrite <- src_normalize_tie|rewrite src_normalize_tie]; exact E.
Qed.
Theorem src_derivative_exact k p x : in_range Rops (sNR k p) x = true -> exact_branch k p x ->
  is_derive (src_normalize k p) x (src_derivative k p x).
Proof.
  rewrite src_norm_range_tie.
  intros H E. rewrite src_derivative_tie. apply (is_derive_ext (normalize_raw Rops k p)).
  - intros t. symmetry. apply src_normalize_tie.
  - apply derivative_exact; assumption.
Qed.
