(* C18_Model.v — Gallina model of gstools.normalizer (base.py, methods.py, tools.py), generic over the
   number interface.  One scalar function per coded formula, written with the operations in the order
   of the Python source; NaN results are [None].  Proved about at R (C18_Proofs.v), executed at OCaml
   floats (ocaml/drv_c18.ml) against the implementation. *)
From Coq Require Import ZArith List Bool.
From GS Require Import Num Loops.
Import ListNotations.

Inductive nkind := KIdentity | KLogNormal | KBoxCox | KBoxCoxShift | KYeoJohnson | KModulus | KManly.

(* numpy's expm1 / log1p : external functions (oracle codes local to C18) *)
Definition ORA_EXPM1 := 40%nat.
Definition ORA_LOG1P := 41%nat.

Record npar (T : Type) := mkpar { lmbda : T; shift : T }.
Arguments mkpar {T}. Arguments lmbda {T}. Arguments shift {T}.

Section Model.
  Context {T : Type} (O : NumOps T).
  Local Infix "+." := (nadd O) (at level 50, left associativity).
  Local Infix "-." := (nsub O) (at level 50, left associativity).
  Local Infix "*." := (nmul O) (at level 40, left associativity).
  Local Infix "/." := (ndiv O) (at level 40, left associativity).
  Local Notation zero := (n0 O).
  Local Notation one := (n1 O).

  Definition two : T := nofZ O 2.
  Definition atol : T := nlit O 1 8.      (* numpy.isclose default atol = 1e-8 *)
  Definition rtol : T := nlit O 1 5.      (* numpy.isclose default rtol = 1e-5 *)
  (* np.isclose(a, b) for finite b :  |a - b| <= atol + rtol * |b| *)
  Definition isclose (a b : T) : bool := nleb O (nabs O (a -. b)) (atol +. rtol *. nabs O b).
  Definition close0 (l : T) : bool := isclose l zero.
  Definition close2 (l : T) : bool := isclose l two.

  Definition expm1 (x : T) : T := noracle O ORA_EXPM1 [x].
  Definition log1p (x : T) : T := noracle O ORA_LOG1P [x].
  (* np.sign on non-NaN data *)
  Definition sign (x : T) : T :=
    if nltb O zero x then one else if nltb O x zero then nneg O one else zero.

  (* ---- methods.py : _normalize *)
  Definition normalize_raw (k : nkind) (p : npar T) (x : T) : T :=
    let l := lmbda p in
    match k with
    | KIdentity => x
    | KLogNormal => nln O x
    | KBoxCox => if close0 l then nln O x else (npow O x l -. one) /. l
    | KBoxCoxShift =>
        if close0 l then nln O (x +. shift p) else (npow O (x +. shift p) l -. one) /. l
    | KYeoJohnson =>
        if nleb O zero x
        then (if close0 l then log1p x else (npow O (x +. one) l -. one) /. l)
        else (if close2 l then nneg O (log1p (nneg O x))
              else nneg O (npow O (nneg O x +. one) (two -. l) -. one) /. (two -. l))
    | KModulus =>
        if close0 l then sign x *. log1p (nabs O x)
        else sign x *. (npow O (nabs O x +. one) l -. one) /. l
    | KManly => if close0 l then x else expm1 (x *. l) /. l
    end.

  (* ---- methods.py : _denormalize *)
  Definition denormalize_raw (k : nkind) (p : npar T) (y : T) : T :=
    let l := lmbda p in
    match k with
    | KIdentity => y
    | KLogNormal => nexp O y
    | KBoxCox => if close0 l then nexp O y else npow O (one +. y *. l) (one /. l)
    | KBoxCoxShift =>
        if close0 l then nexp O y -. shift p else npow O (one +. y *. l) (one /. l) -. shift p
    | KYeoJohnson =>
        if nleb O zero y
        then (if close0 l then expm1 y else npow O (y *. l +. one) (one /. l) -. one)
        else (if close2 l then nneg O (expm1 (nneg O y))
              else one -. npow O (nneg O (two -. l) *. y +. one) (one /. (two -. l)))
    | KModulus =>
        if close0 l then sign y *. expm1 (nabs O y)
        else sign y *. (npow O (one +. l *. nabs O y) (one /. l) -. one)
    | KManly => if close0 l then y else log1p (y *. l) /. l
    end.

  (* ---- _derivative (base class: central difference of the identity with dx = 1e-6) *)
  Definition dx : T := nlit O 1 6.
  Definition derivative_raw (k : nkind) (p : npar T) (x : T) : T :=
    let l := lmbda p in
    match k with
    | KIdentity => ((x +. dx) -. (x -. dx)) /. (two *. dx)
    | KLogNormal => npow O x (nneg O one)
    | KBoxCox => npow O x (l -. one)
    | KBoxCoxShift => npow O (x +. shift p) (l -. one)
    | KYeoJohnson => npow O (nabs O x +. one) (sign x *. (l -. one))
    | KModulus => npow O (nabs O x +. one) (l -. one)
    | KManly => nexp O (x *. l)
    end.

  (* ---- normalize_range / denormalize_range : None = infinite bound *)
  Definition range := (option T * option T)%type.
  Definition norm_range (k : nkind) (p : npar T) : range :=
    match k with
    | KLogNormal | KBoxCox => (Some zero, None)
    | KBoxCoxShift => (Some (nneg O (shift p)), None)
    | _ => (None, None)
    end.
  Definition boxcox_range (l : T) : range :=
    if close0 l then (None, None)
    else if nltb O l zero then (None, Some (nneg O (one /. l)))
    else (Some (nneg O (one /. l)), None).
  Definition denorm_range (k : nkind) (p : npar T) : range :=
    let l := lmbda p in
    match k with
    | KBoxCox | KBoxCoxShift | KManly => boxcox_range l
    | KYeoJohnson =>
        if nltb O l zero && negb (close0 l) then (None, Some (nneg O (one /. l)))
        else if nltb O two l && negb (close2 l) then (Some (nneg O (one /. (l -. two))), None)
        else (None, None)
    | KModulus =>
        if nltb O l zero && negb (close0 l) then (Some (one /. l), Some (nneg O (one /. l)))
        else (None, None)
    | _ => (None, None)
    end.

  (* ---- base.py : _check_input.  The range test is skipped when both bounds are infinite; otherwise
     data > lo and data < hi, where a comparison with an infinite bound fails only for infinite data. *)
  Definition isinf (x : T) : bool := nisnan O (x -. x).       (* x is known not to be NaN *)
  Definition above (lo : option T) (x : T) : bool :=
    match lo with Some l => nltb O l x | None => negb (isinf x && nltb O x zero) end.
  Definition below (hi : option T) (x : T) : bool :=
    match hi with Some h => nltb O x h | None => negb (isinf x && nltb O zero x) end.
  Definition in_range (r : range) (x : T) : bool :=
    match r with
    | (None, None) => true
    | (lo, hi) => above lo x && below hi x
    end.
  Definition guarded (r : range) (f : T -> T) (x : T) : option T :=
    if nisnan O x then None else if in_range r x then Some (f x) else None.

  Definition normalize (k : nkind) (p : npar T) : T -> option T :=
    guarded (norm_range k p) (normalize_raw k p).
  Definition denormalize (k : nkind) (p : npar T) : T -> option T :=
    guarded (denorm_range k p) (denormalize_raw k p).
  Definition derivative (k : nkind) (p : npar T) : T -> option T :=
    guarded (norm_range k p) (derivative_raw k p).

  (* ---- likelihood (base.py) on a data array *)
  Definition valid_data (k : nkind) (p : npar T) (data : list T) : list T :=
    filter (fun x => negb (nisnan O x) && in_range (norm_range k p) x) data.
  Definition nsum (l : list T) : T := fold_left (nadd O) l zero.
  Definition nsize (l : list T) : T := nofZ O (Z.of_nat (length l)).
  Definition nmean (l : list T) : T := nsum l /. nsize l.
  Definition nvar (l : list T) : T :=
    let m := nmean l in nmean (map (fun x => (x -. m) *. (x -. m)) l).
  Definition nmax (a b : T) : T := if nltb O a b then b else a.
  Definition mhalf : T := nneg O (nlit O 5 1).
  Definition tiny : T := nlit O 1 16.
  Definition kernel_loglik_valid (k : nkind) (p : npar T) (d : list T) : T :=
    (mhalf *. nsize d *. nln O (nvar (map (normalize_raw k p) d)))
    +. nsum (map (fun x => nln O (nmax tiny (derivative_raw k p x))) d).
  Definition loglik_valid (k : nkind) (p : npar T) (d : list T) : T :=
    kernel_loglik_valid k p d +. mhalf *. nsize d *. (nln O (two *. npi O) +. one).
  Definition kernel_loglikelihood k p data := kernel_loglik_valid k p (valid_data k p data).
  Definition loglikelihood k p data := loglik_valid k p (valid_data k p data).

  (* ---- tools.py : the pipeline, value semantics at one point.  m, t = mean and trend at that point. *)
  Definition apply_pt (k : nkind) (p : npar T) (m t raw : T) : option T :=
    option_map (fun v => v +. t) (denormalize k p (raw +. m)).
  Definition remove_pt (k : nkind) (p : npar T) (m t f : T) : option T :=
    option_map (fun v => v -. m) (normalize k p (f -. t)).
  Fixpoint zip3 {A B C : Type} (a : list A) (b : list B) (c : list C) : list (A * B * C) :=
    match a, b, c with
    | x :: a', y :: b', z :: c' => (x, y, z) :: zip3 a' b' c'
    | _, _, _ => []
    end.
  Definition apply_field k p (means trends raws : list T) : list (option T) :=
    map (fun '(m, t, r) => apply_pt k p m t r) (zip3 means trends raws).
  Definition remove_field k p (means trends fld : list T) : list (option T) :=
    map (fun '(m, t, f) => remove_pt k p m t f) (zip3 means trends fld).
  (* tools/misc.py _func_from_single_val: a constant vector value is cut / padded with its last entry *)
  Definition single_val_vec (vals : list T) (dim : nat) : list T :=
    firstn dim vals ++ repeat (last vals zero) (dim - length vals).
End Model.

(* ---- base.py : fit, the bookkeeping around the optimiser.  Parameters are held in sorted-name order
   (all_names); skipm marks the skipped names.  The objective _neg_kllf writes every trial point of the
   optimiser into the free parameters (setattr in zip order), and the optimum is written back the same way.
   The optimiser is an oracle: any list of trial points and any final point. *)
Section FitBook.
  Context {T : Type}.
  (* for name, val in zip(para_names, vals): setattr(self, name, val) *)
  Fixpoint scatter (skipm : list bool) (vals : list T) (st : list T) : list T :=
    match skipm, st with
    | true :: sk, v :: st' => v :: scatter sk vals st'
    | false :: sk, v :: st' =>
        match vals with
        | x :: xs => x :: scatter sk xs st'
        | [] => v :: scatter sk [] st'
        end
    | _, _ => st
    end.
  (* values of the free parameters, in order *)
  Fixpoint gather (skipm : list bool) (st : list T) : list T :=
    match skipm, st with
    | true :: sk, _ :: st' => gather sk st'
    | false :: sk, v :: st' => v :: gather sk st'
    | _, _ => []
    end.
  (* result: the object's parameters after fit, and the returned dict (None = {}, no free parameter) *)
  Definition fit_book (skipm : list bool) (trials : list (list T)) (xfinal : list T) (st : list T)
    : list T * option (list T) :=
    if forallb (fun b => b) skipm then (st, None)
    else let st1 := fold_left (fun s tr => scatter skipm tr s) trials st in
         let st2 := scatter skipm xfinal st1 in (st2, Some st2).
End FitBook.

