(* C18_RInst.v — the real-number instance of NumOps used by the C18 theorems, and the reflection
   lemmas for its boolean tests.  expm1 x = exp x - 1, log1p x = ln (1 + x);  nisnan is constantly false. *)
From Coq Require Import Reals Lra List Bool ZArith.
From GS Require Import Num Loops C18_Model.
Import ListNotations.
Open Scope R_scope.

Definition Roracle (code : nat) (args : list R) : R :=
  match args with
  | [x] => if Nat.eqb code ORA_EXPM1 then exp x - 1
           else if Nat.eqb code ORA_LOG1P then ln (1 + x) else 0
  | _ => 0
  end.

Definition Rops : NumOps R :=
  mkNumOps R 0 1 Rplus Rminus Rmult Rdiv Ropp Rabs sqrt cos sin exp ln acos asin atan
    (fun y x => atan (y / x)) Rpower
    (fun x y => if Rlt_dec x y then true else false)
    (fun x y => if Rle_dec x y then true else false)
    (fun x y => if Req_EM_T x y then true else false)
    (fun _ => false) IZR PI Roracle.

Lemma ltb_true a b : nltb Rops a b = true <-> a < b.
Proof. simpl. destruct (Rlt_dec a b); split; intros; auto; discriminate. Qed.
Lemma ltb_false a b : nltb Rops a b = false <-> b <= a.
Proof. simpl. destruct (Rlt_dec a b); split; intros; auto; try discriminate; lra. Qed.
Lemma leb_true a b : nleb Rops a b = true <-> a <= b.
Proof. simpl. destruct (Rle_dec a b); split; intros; auto; discriminate. Qed.
Lemma leb_false a b : nleb Rops a b = false <-> b < a.
Proof. simpl. destruct (Rle_dec a b); split; intros; auto; try discriminate; lra. Qed.

Lemma atol_R : atol Rops = 1 / 100000000.
Proof. reflexivity. Qed.
Lemma rtol_R : rtol Rops = 1 / 100000.
Proof. reflexivity. Qed.
Lemma two_R : two Rops = 2.
Proof. reflexivity. Qed.

(* the coded branch tests at R *)
Lemma close0_true l : close0 Rops l = true <-> Rabs l <= 1 / 100000000.
Proof.
  unfold close0, isclose. rewrite leb_true, atol_R, rtol_R. simpl.
  rewrite Rminus_0_r, Rabs_R0. split; intros; lra.
Qed.
Lemma close2_true l : close2 Rops l = true <-> Rabs (l - 2) <= 1 / 100000000 + 2 / 100000.
Proof.
  unfold close2, isclose. rewrite leb_true, atol_R, rtol_R, two_R. simpl.
  rewrite (Rabs_pos_eq 2) by lra. split; intros; lra.
Qed.
Lemma close0_false_neq l : close0 Rops l = false -> l <> 0.
Proof.
  intros H E. subst. assert (close0 Rops 0 = true) as H1.
  { apply close0_true. rewrite Rabs_R0. lra. }
  congruence.
Qed.
Lemma close2_false_neq l : close2 Rops l = false -> 2 - l <> 0.
Proof.
  intros H E. assert (l = 2) by lra. subst. assert (close2 Rops 2 = true) as H1.
  { apply close2_true. replace (2 - 2) with 0 by ring. rewrite Rabs_R0. lra. }
  congruence.
Qed.
Lemma close0_zero : close0 Rops 0 = true.
Proof. apply close0_true. rewrite Rabs_R0. lra. Qed.
Lemma close2_two : close2 Rops 2 = true.
Proof. apply close2_true. replace (2 - 2) with 0 by ring. rewrite Rabs_R0. lra. Qed.

Lemma isnan_R x : nisnan Rops x = false.
Proof. reflexivity. Qed.
Lemma isinf_R x : isinf Rops x = false.
Proof. reflexivity. Qed.

(* range membership at R as a proposition *)
Definition inR (r : option R * option R) (x : R) : Prop :=
  (match fst r with Some l => l < x | None => True end) /\
  (match snd r with Some h => x < h | None => True end).
Lemma in_range_R r x : in_range Rops r x = true <-> inR r x.
Proof.
  destruct r as [[l|] [h|]]; unfold in_range, inR, above, below; simpl fst; simpl snd;
    rewrite ?andb_true_iff, ?isinf_R, ?ltb_true; simpl; tauto.
Qed.
Lemma guarded_R r f x : guarded Rops r f x = if in_range Rops r x then Some (f x) else None.
Proof. reflexivity. Qed.
