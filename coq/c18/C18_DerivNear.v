(* C18_DerivNear.v — the reported derivative in the logarithmic branches with a parameter that is close to,
   but not equal to, the special value: reported = true derivative * exp e with |e| <= (1e-8 + 2e-5) |u(x)|. *)
From Coq Require Import Reals Lra Psatz List Bool ZArith.
From Coquelicot Require Import Coquelicot.
From GS Require Import Num Loops C18_Model C18_RInst C18_Analysis C18_Proofs.
Open Scope R_scope.

Definition eff (c : bool) (l : R) : R := if c then 0 else l.
Lemma gbc_eff c l u : gbc c l u = gbc c (eff c l) u.
Proof. destruct c; reflexivity. Qed.
Lemma eff_ne c l : (c = false -> l <> 0) -> c = false -> eff c l <> 0.
Proof. intros H E. rewrite E. simpl. auto. Qed.
Lemma eff_0 c l : c = true -> eff c l = 0.
Proof. intros E. rewrite E. reflexivity. Qed.
Lemma near_factor l le u b : exp (l * u) / b * exp (- ((l - le) * u)) = exp (le * u) / b.
Proof.
  unfold Rdiv. rewrite Rmult_assoc, (Rmult_comm (/ b)), <- Rmult_assoc, <- exp_plus. f_equal. f_equal. ring.
Qed.
Lemma pw_eff cP lP cN lN x : pw cP lP cN lN x = pw cP (eff cP lP) cN (eff cN lN) x.
Proof. unfold pw. destruct (Rle_dec 0 x); rewrite <- gbc_eff; reflexivity. Qed.

(* the quantity the branch parameter multiplies *)
Definition ubase (k : nkind) (p : npar R) (x : R) : R :=
  match k with
  | KBoxCox => ln x
  | KBoxCoxShift => ln (x + shift p)
  | KYeoJohnson | KModulus => ln (1 + Rabs x)
  | KManly => x
  | _ => 0
  end.
Definition branch_tol : R := 1 / 100000000 + 2 / 100000.

Lemma dev0 p : Rabs (lmbda p - eff (c0 p) (lmbda p)) <= branch_tol.
Proof.
  unfold eff, branch_tol. destruct (c0 p) eqn:E.
  - apply close0_true in E. rewrite Rminus_0_r. lra.
  - replace (lmbda p - lmbda p) with 0 by ring. rewrite Rabs_R0. lra.
Qed.
Lemma dev2 p : Rabs ((2 - lmbda p) - eff (c2 p) (2 - lmbda p)) <= branch_tol.
Proof.
  unfold eff, branch_tol. destruct (c2 p) eqn:E.
  - apply close2_true in E. rewrite Rminus_0_r. replace (2 - lmbda p) with (- (lmbda p - 2)) by ring. rewrite Rabs_Ropp. lra.
  - replace (2 - lmbda p - (2 - lmbda p)) with 0 by ring. rewrite Rabs_R0. lra.
Qed.

Theorem derivative_near k p x : in_range Rops (norm_range Rops k p) x = true ->
  exists e, is_derive (N k p) x (derivative_raw Rops k p x * exp (- e)) /\
            (exact_branch k p x -> e = 0) /\ Rabs e <= branch_tol * Rabs (ubase k p x).
Proof.
  intros HR. pose proof HR as HR'. apply in_range_R in HR. destruct k; destruct HR as [Hlo _]; simpl in Hlo.
  1, 2: exists 0; rewrite Ropp_0, exp_0, Rmult_1_r; split; [apply derivative_exact; [exact HR'|exact I]|];
        split; [reflexivity|]; rewrite Rabs_R0; unfold branch_tol; apply Rmult_le_pos; [lra|apply Rabs_pos].
  - (* BoxCox *)
    exists ((lmbda p - eff (c0 p) (lmbda p)) * ln x). split; [|split].
    + apply (is_derive_ext (fun t => gbc (c0 p) (eff (c0 p) (lmbda p)) (ln (0 + 1 * t)))).
      { intros t. rewrite N_boxcox, <- gbc_eff. do 2 f_equal. ring. }
      replace (derivative_raw Rops KBoxCox p x * exp (- ((lmbda p - eff (c0 p) (lmbda p)) * ln x)))
        with (1 * (exp (eff (c0 p) (lmbda p) * ln (0 + 1 * x)) / (0 + 1 * x))).
      * apply lin_ln_derive; [apply eff_ne; apply Hc0|lra|]. intros H. left. apply eff_0. exact H.
      * unfold derivative_raw. simpl. replace (0 + 1 * x) with x by ring. rewrite Rmult_1_l.
        change (Rpower x (lmbda p - 1)) with (Rpower x (lmbda p - 1)). rewrite (pow_minus1 x (lmbda p) Hlo).
        symmetry. apply near_factor.
    + unfold exact_branch. intros H. unfold eff. destruct (c0 p); [rewrite (H eq_refl)|]; ring.
    + unfold ubase. rewrite Rabs_mult. apply Rmult_le_compat_r; [apply Rabs_pos|apply dev0].
  - (* BoxCoxShift *)
    exists ((lmbda p - eff (c0 p) (lmbda p)) * ln (x + shift p)). split; [|split].
    + apply (is_derive_ext (fun t => gbc (c0 p) (eff (c0 p) (lmbda p)) (ln (shift p + 1 * t)))).
      { intros t. rewrite N_shift, <- gbc_eff. do 2 f_equal. ring. }
      replace (derivative_raw Rops KBoxCoxShift p x * exp (- ((lmbda p - eff (c0 p) (lmbda p)) * ln (x + shift p))))
        with (1 * (exp (eff (c0 p) (lmbda p) * ln (shift p + 1 * x)) / (shift p + 1 * x))).
      * apply lin_ln_derive; [apply eff_ne; apply Hc0|lra|]. intros H. left. apply eff_0. exact H.
      * unfold derivative_raw. simpl. replace (shift p + 1 * x) with (x + shift p) by ring. rewrite Rmult_1_l.
        rewrite (pow_minus1 (x + shift p) (lmbda p)) by lra. symmetry. apply near_factor.
    + unfold exact_branch. intros H. unfold eff. destruct (c0 p); [rewrite (H eq_refl)|]; ring.
    + unfold ubase. rewrite Rabs_mult. apply Rmult_le_compat_r; [apply Rabs_pos|apply dev0].
  - (* YeoJohnson *)
    exists (if Rle_dec 0 x then (lmbda p - eff (c0 p) (lmbda p)) * ln (1 + x)
            else ((2 - lmbda p) - eff (c2 p) (2 - lmbda p)) * ln (1 - x)).
    split; [|split].
    + apply (is_derive_ext (pw (c0 p) (eff (c0 p) (lmbda p)) (c2 p) (eff (c2 p) (2 - lmbda p)))).
      { intros t. rewrite N_yj. symmetry. apply pw_eff. }
      replace (derivative_raw Rops KYeoJohnson p x * exp (- (if Rle_dec 0 x then (lmbda p - eff (c0 p) (lmbda p)) * ln (1 + x)
                 else ((2 - lmbda p) - eff (c2 p) (2 - lmbda p)) * ln (1 - x))))
        with (pwd (eff (c0 p) (lmbda p)) (eff (c2 p) (2 - lmbda p)) x).
      * apply pw_derive; [apply eff_ne; apply Hc0|apply eff_ne; apply Hc2|intros _; apply eff_0|intros _; apply eff_0].
      * rewrite pwd_yj. unfold pwd. destruct (Rle_dec 0 x); symmetry; apply near_factor.
    + unfold exact_branch. intros [HP HN]. unfold eff. destruct (Rle_dec 0 x) as [[H|H]|H].
      * destruct (c0 p); [rewrite (HP H eq_refl)|]; ring.
      * subst x. replace (1 + 0) with 1 by ring. rewrite ln_1. ring.
      * assert (x < 0) as Hx by lra. destruct (c2 p); [rewrite (HN Hx eq_refl)|]; ring.
    + unfold ubase. destruct (Rle_dec 0 x) as [H|H]; rewrite Rabs_mult.
      * rewrite (Rabs_pos_eq x) by exact H. apply Rmult_le_compat_r; [apply Rabs_pos|apply dev0].
      * rewrite (Rabs_left x) by lra. apply Rmult_le_compat_r; [apply Rabs_pos|apply dev2].
  - (* Modulus *)
    exists (if Rle_dec 0 x then (lmbda p - eff (c0 p) (lmbda p)) * ln (1 + x)
            else (lmbda p - eff (c0 p) (lmbda p)) * ln (1 - x)).
    split; [|split].
    + apply (is_derive_ext (pw (c0 p) (eff (c0 p) (lmbda p)) (c0 p) (eff (c0 p) (lmbda p)))).
      { intros t. rewrite N_mod. symmetry. apply pw_eff. }
      replace (derivative_raw Rops KModulus p x * exp (- (if Rle_dec 0 x then (lmbda p - eff (c0 p) (lmbda p)) * ln (1 + x)
                 else (lmbda p - eff (c0 p) (lmbda p)) * ln (1 - x))))
        with (pwd (eff (c0 p) (lmbda p)) (eff (c0 p) (lmbda p)) x).
      * apply pw_derive; [apply eff_ne; apply Hc0|apply eff_ne; apply Hc0|intros _; apply eff_0|intros _; apply eff_0].
      * rewrite pwd_mod. unfold pwd. destruct (Rle_dec 0 x); symmetry; apply near_factor.
    + unfold exact_branch. intros H. unfold eff. destruct (Rle_dec 0 x); destruct (c0 p); try rewrite (H eq_refl); ring.
    + unfold ubase. destruct (Rle_dec 0 x) as [H|H]; rewrite Rabs_mult.
      * rewrite (Rabs_pos_eq x) by exact H. apply Rmult_le_compat_r; [apply Rabs_pos|apply dev0].
      * rewrite (Rabs_left x) by lra. apply Rmult_le_compat_r; [apply Rabs_pos|apply dev0].
  - (* Manly *)
    exists ((lmbda p - eff (c0 p) (lmbda p)) * x). split; [|split].
    + apply (is_derive_ext (gbc (c0 p) (eff (c0 p) (lmbda p)))).
      { intros t. rewrite N_manly. symmetry. apply gbc_eff. }
      replace (derivative_raw Rops KManly p x * exp (- ((lmbda p - eff (c0 p) (lmbda p)) * x)))
        with (exp (eff (c0 p) (lmbda p) * x)).
      * apply gbc_derive; [apply eff_ne; apply Hc0|apply eff_0].
      * simpl. rewrite <- exp_plus. f_equal. ring.
    + unfold exact_branch. intros H. unfold eff. destruct (c0 p); [rewrite (H eq_refl)|]; ring.
    + unfold ubase. rewrite Rabs_mult. apply Rmult_le_compat_r; [apply Rabs_pos|apply dev0].
Qed.
