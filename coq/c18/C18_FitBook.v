(* C18_FitBook.v — Normalizer.fit bookkeeping for ANY behaviour of the optimiser (any trial sequence, any
   final point) and any number type: skipped parameters are untouched, the free parameters hold the
   optimiser's final point in name order, the returned dict is the object state. *)
From Coq Require Import List Bool Arith Lia.
From GS Require Import Num Loops C18_Model.
Import ListNotations.

Section FB.
  Context {T : Type}.
  Implicit Types (skipm : list bool) (st vals : list T).

  Lemma scatter_length skipm vals st : length (scatter skipm vals st) = length st.
  Proof.
    revert vals st. induction skipm as [|b sk IH]; intros vals [|v st]; simpl; auto.
    - destruct b; reflexivity.
    - destruct b; simpl; [now rewrite IH|]. destruct vals; simpl; now rewrite IH.
  Qed.
  Lemma scatter_skipped skipm vals st d i :
    nth i skipm false = true -> nth i (scatter skipm vals st) d = nth i st d.
  Proof.
    revert vals st i. induction skipm as [|b sk IH]; intros vals st i H.
    - destruct i; discriminate.
    - destruct st as [|v st]; [destruct b; reflexivity|].
      destruct i as [|i]; simpl in H.
      + subst b. reflexivity.
      + destruct b; simpl; [apply IH; exact H|]. destruct vals; simpl; apply IH; exact H.
  Qed.
  Lemma scatter_beyond skipm vals st d i :
    length skipm <= i -> nth i (scatter skipm vals st) d = nth i st d.
  Proof.
    revert vals st i. induction skipm as [|b sk IH]; intros vals st i H; [reflexivity|].
    destruct st as [|v st]; [destruct b; reflexivity|].
    destruct i as [|i]; simpl in H; [lia|].
    destruct b; simpl; [apply IH; lia|]. destruct vals; simpl; apply IH; lia.
  Qed.
  Definition nfree skipm : nat := length (filter negb skipm).
  Lemma gather_scatter skipm vals st :
    length skipm = length st -> length vals = nfree skipm -> gather skipm (scatter skipm vals st) = vals.
  Proof.
    unfold nfree. revert vals st. induction skipm as [|b sk IH]; intros vals [|v st] H1 H2; simpl in *; try discriminate.
    - destruct vals; [reflexivity|discriminate].
    - destruct b; simpl in *.
      + apply IH; [lia|exact H2].
      + destruct vals as [|x xs]; simpl in *; [discriminate|]. f_equal. apply IH; lia.
  Qed.
  Lemma fold_scatter_skipped skipm (trials : list (list T)) st d i :
    nth i skipm false = true ->
    nth i (fold_left (fun s tr => scatter skipm tr s) trials st) d = nth i st d.
  Proof.
    intros H. revert st. induction trials as [|tr trs IH]; intros st; simpl; [reflexivity|].
    rewrite IH. apply scatter_skipped. exact H.
  Qed.
  Lemma fold_scatter_length skipm (trials : list (list T)) st :
    length (fold_left (fun s tr => scatter skipm tr s) trials st) = length st.
  Proof.
    revert st. induction trials as [|tr trs IH]; intros st; simpl; [reflexivity|]. rewrite IH. apply scatter_length.
  Qed.

  Theorem fit_skipped_untouched skipm trials xfinal st d i :
    nth i skipm false = true -> nth i (fst (fit_book skipm trials xfinal st)) d = nth i st d.
  Proof.
    intros H. unfold fit_book. destruct (forallb (fun b => b) skipm); simpl; [reflexivity|].
    rewrite scatter_skipped by exact H. apply fold_scatter_skipped. exact H.
  Qed.
  Theorem fit_free_hold_optimum skipm trials xfinal st :
    length skipm = length st -> length xfinal = nfree skipm -> nfree skipm <> 0 ->
    gather skipm (fst (fit_book skipm trials xfinal st)) = xfinal.
  Proof.
    intros H1 H2 H3. unfold fit_book. destruct (forallb (fun b => b) skipm) eqn:E; simpl.
    - exfalso. apply H3. unfold nfree. clear -E. induction skipm as [|b sk IH]; simpl in *; [reflexivity|].
      apply andb_true_iff in E. destruct E as [Eb E]. subst b. simpl. apply IH. exact E.
    - apply gather_scatter; [rewrite fold_scatter_length; exact H1|exact H2].
  Qed.
  Theorem fit_dict_is_state skipm trials xfinal st :
    (nfree skipm = 0 -> fit_book skipm trials xfinal st = (st, None)) /\
    (nfree skipm <> 0 -> snd (fit_book skipm trials xfinal st) = Some (fst (fit_book skipm trials xfinal st))) /\
    length (fst (fit_book skipm trials xfinal st)) = length st.
  Proof.
    unfold fit_book. destruct (forallb (fun b => b) skipm) eqn:E; simpl.
    - repeat split; auto. intros H. exfalso. apply H. unfold nfree. clear -E.
      induction skipm as [|b sk IH]; simpl in *; [reflexivity|].
      apply andb_true_iff in E. destruct E as [Eb E]. subst b. simpl. apply IH. exact E.
    - repeat split; auto.
      + intros H. exfalso. unfold nfree in H. clear -E H. induction skipm as [|b sk IH]; simpl in *; [discriminate|].
        destruct b; simpl in *; [apply IH; assumption|discriminate].
      + rewrite scatter_length. apply fold_scatter_length.
  Qed.
End FB.
