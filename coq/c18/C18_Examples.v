(* C18_Examples.v — the hypotheses of the C18 theorems are satisfiable (no theorem holds vacuously). *)
From Coq Require Import Reals Lra Psatz List Bool ZArith.
From GS Require Import Num Loops C18_Model C18_RInst C18_Analysis C18_Proofs C18_Loglik.
Import ListNotations.
Open Scope R_scope.

(* every normalize range contains 1 (when the shift is > -1), and then the denormalize range contains its image *)
Example ranges_inhabited k p : -1 < shift p ->
  in_range Rops (norm_range Rops k p) 1 = true /\
  in_range Rops (denorm_range Rops k p) (normalize_raw Rops k p 1) = true.
Proof.
  intros Hs. assert (in_range Rops (norm_range Rops k p) 1 = true) as H.
  { apply in_range_R. destruct k; unfold norm_range, inR; simpl; lra. }
  split; [exact H|]. apply image_is_range. exists 1. split; [exact H|reflexivity].
Qed.
(* both kinds of branch occur, and the special values are in the logarithmic branch *)
Example branches_inhabited :
  close0 Rops 0 = true /\ close0 Rops (1 / 1000000000) = true /\ close0 Rops (-1) = false /\ close0 Rops (1 / 2) = false /\
  close2 Rops 2 = true /\ close2 Rops (2 + 1 / 100000) = true /\ close2 Rops (5 / 2) = false.
Proof.
  repeat split; try (apply close0_true); try (apply close2_true);
    try (apply not_true_is_false; intros H; apply close0_true in H);
    try (apply not_true_is_false; intros H; apply close2_true in H);
    try (rewrite Rabs_pos_eq in * by lra); try (rewrite Rabs_left in * by lra);
    try (replace (2 - 2) with 0 in * by ring; rewrite Rabs_R0 in * ); try lra.
Qed.
(* data with positive variance *)
Example variance_positive p : [0; 1] <> [] /\ 0 < nvar Rops (map (normalize_raw Rops KIdentity p) [0; 1]).
Proof.
  split; [discriminate|]. unfold nvar, nmean, nsum, nsize. simpl. lra.
Qed.
