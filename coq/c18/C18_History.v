(* C18_History.v — a holder of the mean / normalizer / trend pipeline (Krige and subclasses; Field, SRF, CondSRF are the
   special case without conditions) as a state machine: the state is the PRESENT mean, normalizer, trend and
   conditioning data; the kriging operator is an oracle K (setup index = conditioning positions, model, targets).
   Evaluations leave no trace, so every result is a function of the present parameters only, and at R an exact
   interpolator returns the conditioning values after ANY history (round trip of the pipeline). *)
From Coq Require Import Reals Lra List Bool ZArith.
From GS Require Import Num Loops C18_Model C18_RInst C18_Analysis C18_Proofs C18_Pipeline.
Import ListNotations.

Section Hist.
  Context {T : Type} (O : NumOps T).
  Variable K : nat -> list (option T) -> list T.

  Record hstate := mkh {
    h_kind : nkind; h_par : npar T;
    h_mc : list T; h_tc : list T;          (* mean / trend at the conditioning points *)
    h_mt : list T; h_tt : list T;          (* mean / trend at the target points *)
    h_cond : list T; h_setup : nat }.
  Inductive hop :=
  | OSetMean (mc mt : list T) | OSetTrend (tc ttg : list T)
  | OSetNorm (k : nkind) (p : npar T)                 (* setter, fitted normalizer, or in-place parameter change *)
  | OSetCond (setup : nat) (vals mc tc : list T)
  | OSetPos (setup : nat) (mt ttg : list T)
  | OEval.
  (* krige/base.py _krige_cond and __call__ + post_field *)
  Definition krige_cond (s : hstate) : list (option T) :=
    remove_field O (h_kind s) (h_par s) (h_mc s) (h_tc s) (h_cond s).
  Definition heval (s : hstate) : list (option T) :=
    apply_field O (h_kind s) (h_par s) (h_mt s) (h_tt s) (K (h_setup s) (krige_cond s)).
  Definition hstep (s : hstate) (op : hop) : hstate * option (list (option T)) :=
    match op with
    | OSetMean mc mt => (mkh (h_kind s) (h_par s) mc (h_tc s) mt (h_tt s) (h_cond s) (h_setup s), None)
    | OSetTrend tc ttg => (mkh (h_kind s) (h_par s) (h_mc s) tc (h_mt s) ttg (h_cond s) (h_setup s), None)
    | OSetNorm k p => (mkh k p (h_mc s) (h_tc s) (h_mt s) (h_tt s) (h_cond s) (h_setup s), None)
    | OSetCond n v mc tc => (mkh (h_kind s) (h_par s) mc tc (h_mt s) (h_tt s) v n, None)
    | OSetPos n mt ttg => (mkh (h_kind s) (h_par s) (h_mc s) (h_tc s) mt ttg (h_cond s) n, None)
    | OEval => (s, Some (heval s))
    end.
  Definition run (ops : list hop) (s : hstate) : hstate := fold_left (fun st o => fst (hstep st o)) ops s.

  Theorem eval_leaves_no_trace ops1 ops2 s : run (ops1 ++ OEval :: ops2) s = run (ops1 ++ ops2) s.
  Proof. unfold run. rewrite !fold_left_app. reflexivity. Qed.
  Fixpoint no_evals (ops : list hop) : list hop :=
    match ops with [] => [] | OEval :: t => no_evals t | o :: t => o :: no_evals t end.
  Theorem result_is_function_of_setters ops s :
    snd (hstep (run ops s) OEval) = Some (heval (run (no_evals ops) s)).
  Proof.
    simpl. f_equal. f_equal. revert s. induction ops as [|o t IH]; intros s; [reflexivity|].
    destruct o; simpl; apply IH.
  Qed.
End Hist.

(* at R: an interpolator that is exact at the conditioning points gives back the conditioning values, whatever
   happened before, as long as the present detrended data lie in the present normalize range *)
Open Scope R_scope.
Definition strip (l : list (option R)) : list R := map (fun o => match o with Some v => v | None => 0 end) l.

Lemma roundtrip_lists k p vals : forall mc tc,
  length mc = length vals -> length tc = length vals ->
  Forall (fun mtf => in_range Rops (norm_range Rops k p) (snd mtf - snd (fst mtf)) = true) (zip3 mc tc vals) ->
  apply_field Rops k p mc tc (strip (remove_field Rops k p mc tc vals)) = map Some vals.
Proof.
  induction vals as [|f fs IH]; intros [|m ms] [|t ts] L1 L2 HF; simpl in *; try discriminate; [reflexivity|].
  inversion HF as [|? ? Hh Ht]; subst. simpl in Hh.
  destruct (pipeline_pt_rev k p m t f Hh) as [P1 P2].
  unfold remove_field, apply_field in *. simpl. rewrite P1. simpl. rewrite P2. f_equal.
  apply IH; [congruence|congruence|exact Ht].
Qed.

Theorem history_honours_data (K : nat -> list (option R) -> list R) (ops : list (@hop R)) (s0 : @hstate R) :
  let s := run Rops K ops s0 in
  length (h_mc s) = length (h_cond s) -> length (h_tc s) = length (h_cond s) ->
  h_mt s = h_mc s -> h_tt s = h_tc s ->                              (* targets = conditioning points *)
  K (h_setup s) (krige_cond Rops s) = strip (krige_cond Rops s) ->   (* exact interpolation there *)
  Forall (fun mtf => in_range Rops (norm_range Rops (h_kind s) (h_par s)) (snd mtf - snd (fst mtf)) = true)
         (zip3 (h_mc s) (h_tc s) (h_cond s)) ->
  heval Rops K s = map Some (h_cond s).
Proof.
  intros s L1 L2 E1 E2 EK HF. unfold heval. rewrite EK, E1, E2. unfold krige_cond. apply roundtrip_lists; assumption.
Qed.

(* ---- Krige.get_mean(post_process=True): the (given or estimated) raw mean through mean and normalizer, no trend *)
Section GetMean.
  Context {T : Type} (O : NumOps T).
  Definition get_mean (k : nkind) (p : npar T) (m rawm : T) : option T := denormalize O k p (nadd O rawm m).
  (* a field evaluated with only_mean=True is get_mean plus the trend at the point *)
  Theorem only_mean_is_get_mean_plus_trend k p m t rawm :
    apply_pt O k p m t rawm = option_map (fun v => nadd O v t) (get_mean k p m rawm).
  Proof. reflexivity. Qed.
End GetMean.
Theorem get_mean_roundtrip k p m rawm : in_range Rops (denorm_range Rops k p) (rawm + m) = true ->
  get_mean Rops k p m rawm = Some (denormalize_raw Rops k p (rawm + m)) /\
  normalize Rops k p (denormalize_raw Rops k p (rawm + m)) = Some (rawm + m).
Proof. intros H. unfold get_mean. apply (norm_denorm k p (rawm + m) H). Qed.
