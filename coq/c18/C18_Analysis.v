(* C18_Analysis.v — real analysis behind every power-family normalizer: the Box-Cox kernel
   bc l u = (exp (l u) - 1) / l  with inverse  bci l v = ln (1 + v l) / l,  and the guarded versions that
   follow the coded branch flag (c = true: the logarithmic branch, identity in u). *)
From Coq Require Import Reals Lra Lia Psatz Bool.
From Coquelicot Require Import Coquelicot.
Open Scope R_scope.

Definition bc (l u : R) : R := (exp (l * u) - 1) / l.
Definition bci (l v : R) : R := ln (1 + v * l) / l.

Lemma bc_valid l u : l <> 0 -> 1 + bc l u * l = exp (l * u).
Proof. intros Hl. unfold bc. field. exact Hl. Qed.
Lemma bc_valid_pos l u : l <> 0 -> 0 < 1 + bc l u * l.
Proof. intros Hl. rewrite bc_valid by exact Hl. apply exp_pos. Qed.
Lemma bci_bc l u : l <> 0 -> bci l (bc l u) = u.
Proof. intros Hl. unfold bci. rewrite bc_valid by exact Hl. rewrite ln_exp. field. exact Hl. Qed.
Lemma bc_bci l v : l <> 0 -> 0 < 1 + v * l -> bc l (bci l v) = v.
Proof.
  intros Hl Hv. unfold bc, bci. replace (l * (ln (1 + v * l) / l)) with (ln (1 + v * l)) by (field; exact Hl).
  rewrite exp_ln by exact Hv. field. exact Hl.
Qed.
Lemma bc_0 l : l <> 0 -> bc l 0 = 0.
Proof. intros Hl. unfold bc. rewrite Rmult_0_r, exp_0. field. exact Hl. Qed.
Lemma bc_incr l u1 u2 : l <> 0 -> u1 < u2 -> bc l u1 < bc l u2.
Proof.
  intros Hl Hu. unfold bc. destruct (Rlt_dec 0 l) as [Hp|Hn].
  - apply Rmult_lt_compat_r; [apply Rinv_0_lt_compat; exact Hp|].
    apply Rplus_lt_compat_r. apply exp_increasing. apply Rmult_lt_compat_l; assumption.
  - assert (l < 0) as Hneg by lra.
    assert (exp (l * u2) < exp (l * u1)) as He by (apply exp_increasing; nra).
    unfold Rdiv. assert (/ l < 0) as Hi by (apply Rinv_lt_0_compat; exact Hneg).
    nra.
Qed.
Lemma bc_derive l u : l <> 0 -> is_derive (bc l) u (exp (l * u)).
Proof.
  intros Hl. unfold bc. auto_derive; [exact I|]. field. exact Hl.
Qed.

(* guarded kernel: flag c = true selects the logarithmic branch *)
Definition gbc (c : bool) (l u : R) : R := if c then u else bc l u.
Definition gbci (c : bool) (l v : R) : R := if c then v else bci l v.
Definition gvalid (c : bool) (l v : R) : Prop := c = true \/ 0 < 1 + v * l.

Section G.
  Variables (c : bool) (l : R).
  Hypothesis Hc : c = false -> l <> 0.
  Lemma gbc_valid u : gvalid c l (gbc c l u).
  Proof. unfold gvalid, gbc. destruct c; [left; reflexivity|right; apply bc_valid_pos; auto]. Qed.
  Lemma gbci_gbc u : gbci c l (gbc c l u) = u.
  Proof. unfold gbci, gbc. destruct c; [reflexivity|apply bci_bc; auto]. Qed.
  Lemma gbc_gbci v : gvalid c l v -> gbc c l (gbci c l v) = v.
  Proof.
    unfold gvalid, gbci, gbc. destruct c; intros [H|H]; try reflexivity; try discriminate.
    apply bc_bci; auto.
  Qed.
  Lemma gbc_0 : gbc c l 0 = 0.
  Proof. unfold gbc. destruct c; [reflexivity|apply bc_0; auto]. Qed.
  Lemma gbc_incr u1 u2 : u1 < u2 -> gbc c l u1 < gbc c l u2.
  Proof. unfold gbc. destruct c; [auto|apply bc_incr; auto]. Qed.
  Lemma gbc_incr_le u1 u2 : u1 <= u2 -> gbc c l u1 <= gbc c l u2.
  Proof. intros [H|H]; [left; apply gbc_incr; exact H|subst; right; reflexivity]. Qed.
  Lemma gbc_pos u : 0 < u -> 0 < gbc c l u.
  Proof. intros H. rewrite <- gbc_0. apply gbc_incr. exact H. Qed.
  Lemma gbc_nonneg u : 0 <= u -> 0 <= gbc c l u.
  Proof. intros H. rewrite <- gbc_0. apply gbc_incr_le. exact H. Qed.
  Lemma gbc_lt_reflect u1 u2 : gbc c l u1 < gbc c l u2 -> u1 < u2.
  Proof.
    intros H. destruct (Rlt_dec u1 u2) as [|N]; [assumption|exfalso].
    assert (u2 <= u1) as Hle by lra. apply gbc_incr_le in Hle. lra.
  Qed.
  Lemma gbci_pos v : gvalid c l v -> 0 < v -> 0 < gbci c l v.
  Proof. intros Hv H. apply gbc_lt_reflect. rewrite gbc_0, gbc_gbci by exact Hv. exact H. Qed.
  Lemma gbci_nonneg v : gvalid c l v -> 0 <= v -> 0 <= gbci c l v.
  Proof.
    intros Hv H. destruct (Rle_dec 0 (gbci c l v)) as [|N]; [assumption|exfalso].
    assert (gbci c l v < 0) as Hlt by lra. apply gbc_incr in Hlt. rewrite gbc_0, gbc_gbci in Hlt by exact Hv. lra.
  Qed.
  Lemma gbc_derive u : (c = true -> l = 0) -> is_derive (gbc c l) u (exp (l * u)).
  Proof.
    intros H0. unfold gbc. destruct c.
    - rewrite H0 by reflexivity. rewrite Rmult_0_l, exp_0. apply (is_derive_id u).
    - apply bc_derive. auto.
  Qed.
  (* in the logarithmic branch with l <> 0 (|l| <= 1e-8) the coded derivative carries the extra factor exp (l u) *)
  Lemma gbc_derive_log u : c = true -> is_derive (gbc c l) u 1.
  Proof. intros H. unfold gbc. rewrite H. apply (is_derive_id u). Qed.
End G.

(* gluing two differentiable branches at 0 *)
Lemma derive_glue (f g h : R -> R) (d : R) :
  (forall y, 0 <= y -> f y = g y) -> (forall y, y < 0 -> f y = h y) -> g 0 = h 0 ->
  is_derive g 0 d -> is_derive h 0 d -> is_derive f 0 d.
Proof.
  intros Hg Hh H0 Dg Dh. apply is_derive_Reals in Dg. apply is_derive_Reals in Dh.
  apply is_derive_Reals. intros eps He.
  destruct (Dg eps He) as [d1 H1]. destruct (Dh eps He) as [d2 H2].
  assert (0 < Rmin d1 d2) as Hm by (apply Rmin_pos; [apply (cond_pos d1)|apply (cond_pos d2)]).
  exists (mkposreal _ Hm). intros t Ht Hlt. simpl in Hlt.
  rewrite Rplus_0_l. rewrite (Hg 0) by lra.
  destruct (Rle_dec 0 t) as [Hp|Hn].
  - rewrite Hg by exact Hp. specialize (H1 t Ht). rewrite Rplus_0_l in H1. apply H1.
    eapply Rlt_le_trans; [exact Hlt|apply Rmin_l].
  - rewrite Hh by lra. rewrite H0. specialize (H2 t Ht). rewrite Rplus_0_l in H2. apply H2.
    eapply Rlt_le_trans; [exact Hlt|apply Rmin_r].
Qed.

(* ---- gbc composed with ln of an affine base  a + e x  (BoxCox: x; shifted: x + s; Yeo-Johnson/Modulus: 1 ± x) *)
Lemma lin_ln_derive c l a e x :
  (c = false -> l <> 0) -> 0 < a + e * x -> (c = true -> l = 0 \/ a + e * x = 1) ->
  is_derive (fun t => gbc c l (ln (a + e * t))) x (e * (exp (l * ln (a + e * x)) / (a + e * x))).
Proof.
  intros Hc Hb Hex. unfold gbc. destruct c.
  - assert (exp (l * ln (a + e * x)) = 1) as E.
    { destruct (Hex eq_refl) as [H|H]; [rewrite H, Rmult_0_l; apply exp_0|rewrite H, ln_1, Rmult_0_r; apply exp_0]. }
    rewrite E. auto_derive; [exact Hb|]. field. lra.
  - unfold bc. auto_derive; [exact Hb|]. field. split; [lra|apply Hc; reflexivity].
Qed.

Lemma pow_minus1 b l : 0 < b -> Rpower b (l - 1) = exp (l * ln b) / b.
Proof.
  intros Hb. unfold Rpower. replace ((l - 1) * ln b) with (l * ln b + - ln b) by ring.
  rewrite exp_plus, exp_Ropp, exp_ln by exact Hb. reflexivity.
Qed.

(* ---- the two-sided family (Yeo-Johnson: (c0, l, c2, 2 - l); Modulus: (c0, l, c0, l)) *)
Section PW.
  Variables (cP : bool) (lP : R) (cN : bool) (lN : R).
  Hypothesis HcP : cP = false -> lP <> 0.
  Hypothesis HcN : cN = false -> lN <> 0.
  Definition pw (x : R) : R :=
    if Rle_dec 0 x then gbc cP lP (ln (1 + x)) else - gbc cN lN (ln (1 - x)).
  Definition pwi (y : R) : R :=
    if Rle_dec 0 y then exp (gbci cP lP y) - 1 else 1 - exp (gbci cN lN (- y)).
  Definition pwvalid (y : R) : Prop :=
    if Rle_dec 0 y then gvalid cP lP y else gvalid cN lN (- y).
  Definition pwd (x : R) : R :=
    if Rle_dec 0 x then exp (lP * ln (1 + x)) / (1 + x) else exp (lN * ln (1 - x)) / (1 - x).

  Lemma pw_nonneg x : 0 <= x -> 0 <= pw x.
  Proof.
    intros H. unfold pw. destruct (Rle_dec 0 x); [|lra]. apply gbc_nonneg; [exact HcP|].
    rewrite <- ln_1. destruct H as [H|H]; [left; apply ln_increasing; lra|subst; right; f_equal; ring].
  Qed.
  Lemma pw_neg x : x < 0 -> pw x < 0.
  Proof.
    intros H. unfold pw. destruct (Rle_dec 0 x); [lra|].
    assert (0 < gbc cN lN (ln (1 - x))); [|lra]. apply gbc_pos; [exact HcN|].
    rewrite <- ln_1. apply ln_increasing; lra.
  Qed.
  Lemma pwi_pw x : pwi (pw x) = x.
  Proof.
    destruct (Rle_dec 0 x) as [H|H].
    - pose proof (pw_nonneg x H) as Hs. unfold pwi. destruct (Rle_dec 0 (pw x)); [|lra].
      unfold pw. destruct (Rle_dec 0 x); [|lra]. rewrite gbci_gbc by exact HcP. rewrite exp_ln by lra. ring.
    - assert (x < 0) as Hx by lra. pose proof (pw_neg x Hx) as Hs. unfold pwi.
      destruct (Rle_dec 0 (pw x)); [lra|]. unfold pw. destruct (Rle_dec 0 x); [lra|].
      rewrite Ropp_involutive, gbci_gbc by exact HcN. rewrite exp_ln by lra. ring.
  Qed.
  Lemma pw_valid x : pwvalid (pw x).
  Proof.
    unfold pwvalid. destruct (Rle_dec 0 x) as [H|H].
    - pose proof (pw_nonneg x H). destruct (Rle_dec 0 (pw x)); [|lra].
      unfold pw. destruct (Rle_dec 0 x); [|lra]. apply gbc_valid. exact HcP.
    - assert (x < 0) as Hx by lra. pose proof (pw_neg x Hx). destruct (Rle_dec 0 (pw x)); [lra|].
      unfold pw. destruct (Rle_dec 0 x); [lra|]. rewrite Ropp_involutive. apply gbc_valid. exact HcN.
  Qed.
  Lemma pwi_nonneg y : pwvalid y -> 0 <= y -> 0 <= pwi y.
  Proof.
    unfold pwvalid, pwi. intros Hv H. destruct (Rle_dec 0 y); [|lra].
    pose proof (gbci_nonneg cP lP HcP y Hv H) as Hg.
    assert (1 <= exp (gbci cP lP y)); [|lra].
    rewrite <- exp_0. destruct Hg as [Hg|Hg]; [left; apply exp_increasing; exact Hg|rewrite <- Hg; right; reflexivity].
  Qed.
  Lemma pwi_neg y : pwvalid y -> y < 0 -> pwi y < 0.
  Proof.
    unfold pwvalid, pwi. intros Hv H. destruct (Rle_dec 0 y); [lra|].
    assert (0 < - y) as Hy by lra. pose proof (gbci_pos cN lN HcN (- y) Hv Hy) as Hg.
    assert (1 < exp (gbci cN lN (- y))); [|lra]. rewrite <- exp_0. apply exp_increasing. exact Hg.
  Qed.
  Lemma pw_pwi y : pwvalid y -> pw (pwi y) = y.
  Proof.
    intros Hv. destruct (Rle_dec 0 y) as [H|H].
    - pose proof (pwi_nonneg y Hv H) as Hs. unfold pw. destruct (Rle_dec 0 (pwi y)); [|lra].
      unfold pwvalid in Hv. unfold pwi. destruct (Rle_dec 0 y); [|lra].
      replace (1 + (exp (gbci cP lP y) - 1)) with (exp (gbci cP lP y)) by ring.
      rewrite ln_exp. apply gbc_gbci; assumption.
    - assert (y < 0) as Hy by lra. pose proof (pwi_neg y Hv Hy) as Hs. unfold pw.
      destruct (Rle_dec 0 (pwi y)); [lra|]. unfold pwvalid in Hv. unfold pwi. destruct (Rle_dec 0 y); [lra|].
      replace (1 - (1 - exp (gbci cN lN (- y)))) with (exp (gbci cN lN (- y))) by ring.
      rewrite ln_exp, gbc_gbci by assumption. ring.
  Qed.
  Lemma pw_incr x1 x2 : x1 < x2 -> pw x1 < pw x2.
  Proof.
    intros H. destruct (Rle_dec 0 x1) as [H1|H1].
    - unfold pw. destruct (Rle_dec 0 x1); [|lra]. destruct (Rle_dec 0 x2); [|lra].
      apply gbc_incr; [exact HcP|]. apply ln_increasing; lra.
    - destruct (Rle_dec 0 x2) as [H2|H2].
      + assert (pw x1 < 0) by (apply pw_neg; lra). pose proof (pw_nonneg x2 H2). lra.
      + unfold pw. destruct (Rle_dec 0 x1); [lra|]. destruct (Rle_dec 0 x2); [lra|].
        apply Ropp_lt_contravar. apply gbc_incr; [exact HcN|]. apply ln_increasing; lra.
  Qed.
  (* derivative: exact wherever the branch in force is the power branch or its parameter is the special value *)
  Lemma pw_derive x :
    (0 < x -> cP = true -> lP = 0) -> (x < 0 -> cN = true -> lN = 0) -> is_derive pw x (pwd x).
  Proof.
    intros HP HN. unfold pwd. destruct (Rle_dec 0 x) as [H|H].
    - destruct H as [H|H].
      + (* x > 0 *)
        apply (is_derive_ext_loc (fun t => gbc cP lP (ln (1 + 1 * t)))).
        { assert (locally x (fun t => 0 < t)) as L by (apply (open_gt 0 x); exact H).
          apply (filter_imp (fun t => 0 < t)); [|exact L]. intros t Ht. unfold pw.
          destruct (Rle_dec 0 t); [|lra]. do 2 f_equal. ring. }
        replace (exp (lP * ln (1 + x)) / (1 + x)) with (1 * (exp (lP * ln (1 + 1 * x)) / (1 + 1 * x)))
          by (rewrite Rmult_1_l; replace (1 + 1 * x) with (1 + x) by ring; reflexivity).
        apply lin_ln_derive; [exact HcP|lra|]. intros Hc. left. apply HP; assumption.
      + (* x = 0 *)
        subst x.
        replace (exp (lP * ln (1 + 0)) / (1 + 0)) with 1
          by (replace (1 + 0) with 1 by ring; rewrite ln_1, Rmult_0_r, exp_0; field).
        apply (derive_glue pw (fun t => gbc cP lP (ln (1 + 1 * t))) (fun t => - gbc cN lN (ln (1 + (-1) * t)))).
        * intros y Hy. unfold pw. destruct (Rle_dec 0 y); [|lra]. do 2 f_equal. ring.
        * intros y Hy. unfold pw. destruct (Rle_dec 0 y); [lra|]. do 3 f_equal. ring.
        * replace (1 + 1 * 0) with 1 by ring. replace (1 + -1 * 0) with 1 by ring.
          rewrite ln_1, !gbc_0 by assumption. ring.
        * assert (is_derive (fun t => gbc cP lP (ln (1 + 1 * t))) 0
                    (1 * (exp (lP * ln (1 + 1 * 0)) / (1 + 1 * 0)))) as D1.
          { apply lin_ln_derive; [exact HcP|lra|]. intros _. right. ring. }
          replace (1 * (exp (lP * ln (1 + 1 * 0)) / (1 + 1 * 0))) with 1 in D1; [exact D1|].
          replace (1 + 1 * 0) with 1 by ring. rewrite ln_1, Rmult_0_r, exp_0. field.
        * assert (is_derive (fun t => - gbc cN lN (ln (1 + -1 * t))) 0
                    (- (-1 * (exp (lN * ln (1 + -1 * 0)) / (1 + -1 * 0))))) as D1.
          { apply (is_derive_opp (fun t => gbc cN lN (ln (1 + -1 * t)))).
            apply lin_ln_derive; [exact HcN|lra|]. intros _. right. ring. }
          replace (- (-1 * (exp (lN * ln (1 + -1 * 0)) / (1 + -1 * 0)))) with 1 in D1; [exact D1|].
          replace (1 + -1 * 0) with 1 by ring. rewrite ln_1, Rmult_0_r, exp_0. field.
    - assert (x < 0) as Hx by lra.
      apply (is_derive_ext_loc (fun t => - gbc cN lN (ln (1 + (-1) * t)))).
      { assert (locally x (fun t => t < 0)) as L by (apply (open_lt 0 x); exact Hx).
        apply (filter_imp (fun t => t < 0)); [|exact L]. intros t Ht. unfold pw.
        destruct (Rle_dec 0 t); [lra|]. do 3 f_equal. ring. }
      replace (exp (lN * ln (1 - x)) / (1 - x)) with (- (-1 * (exp (lN * ln (1 + -1 * x)) / (1 + -1 * x))))
        by (replace (1 + -1 * x) with (1 - x) by ring; ring).
      apply (is_derive_opp (fun t => gbc cN lN (ln (1 + -1 * t)))).
      apply lin_ln_derive; [exact HcN|lra|]. intros Hc. left. apply HN; assumption.
  Qed.
End PW.
