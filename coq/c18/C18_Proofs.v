(* C18_Proofs.v — the normalizer model at R: views of the coded formulas in terms of the Box-Cox kernel
   (C18_Analysis.v), inverse pairs, monotonicity, ranges, derivatives. *)
From Coq Require Import Reals Lra Psatz List Bool ZArith.
From Coquelicot Require Import Coquelicot.
From GS Require Import Num Loops C18_Model C18_RInst C18_Analysis.
Import ListNotations.
Open Scope R_scope.

Notation N := (normalize_raw Rops).
Notation D := (denormalize_raw Rops).
Notation c0 p := (close0 Rops (lmbda p)).
Notation c2 p := (close2 Rops (lmbda p)).

Lemma Hc0 (p : npar R) : c0 p = false -> lmbda p <> 0.
Proof. apply close0_false_neq. Qed.
Lemma Hc2 (p : npar R) : c2 p = false -> 2 - lmbda p <> 0.
Proof. apply close2_false_neq. Qed.

Lemma expm1_R x : expm1 Rops x = exp x - 1.
Proof. reflexivity. Qed.
Lemma log1p_R x : log1p Rops x = ln (1 + x).
Proof. reflexivity. Qed.

(* ---------------------------------------------------------------- views of _normalize *)
Lemma N_boxcox p x : N KBoxCox p x = gbc (c0 p) (lmbda p) (ln x).
Proof. unfold normalize_raw, gbc. destruct (c0 p); reflexivity. Qed.
Lemma N_shift p x : N KBoxCoxShift p x = gbc (c0 p) (lmbda p) (ln (x + shift p)).
Proof. unfold normalize_raw, gbc. destruct (c0 p); reflexivity. Qed.
Lemma N_manly p x : N KManly p x = gbc (c0 p) (lmbda p) x.
Proof.
  unfold normalize_raw, gbc. destruct (c0 p); [reflexivity|]. rewrite expm1_R. unfold bc. simpl.
  rewrite (Rmult_comm x). reflexivity.
Qed.
Lemma N_yj p x : N KYeoJohnson p x = pw (c0 p) (lmbda p) (c2 p) (2 - lmbda p) x.
Proof.
  unfold normalize_raw, pw. simpl nleb. destruct (Rle_dec 0 x) as [H|H].
  - unfold gbc. destruct (c0 p); [apply log1p_R|]. simpl. unfold bc, Rpower.
    replace (x + 1) with (1 + x) by ring. reflexivity.
  - unfold gbc. destruct (c2 p) eqn:E; [rewrite log1p_R; reflexivity|]. simpl. unfold bc, Rpower.
    replace (- x + 1) with (1 - x) by ring. change (two Rops) with 2. field. apply Hc2. exact E.
Qed.
Lemma sign_pos x : 0 < x -> sign Rops x = 1.
Proof. intros H. unfold sign. simpl. destruct (Rlt_dec 0 x); [reflexivity|lra]. Qed.
Lemma sign_neg x : x < 0 -> sign Rops x = -1.
Proof. intros H. unfold sign. simpl. destruct (Rlt_dec 0 x); [lra|]. destruct (Rlt_dec x 0); [reflexivity|lra]. Qed.
Lemma sign_0 : sign Rops 0 = 0.
Proof. unfold sign. simpl. destruct (Rlt_dec 0 0); [lra|reflexivity]. Qed.
Lemma N_mod p x : N KModulus p x = pw (c0 p) (lmbda p) (c0 p) (lmbda p) x.
Proof.
  unfold normalize_raw, pw. destruct (Rle_dec 0 x) as [[H|H]|H].
  - rewrite sign_pos by exact H. simpl nabs. rewrite Rabs_pos_eq by lra. unfold gbc.
    destruct (c0 p) eqn:E; [rewrite log1p_R; simpl; ring|]. simpl. unfold bc, Rpower.
    replace (x + 1) with (1 + x) by ring. field. apply Hc0. exact E.
  - subst x. rewrite sign_0. replace (1 + 0) with 1 by ring. rewrite ln_1, gbc_0 by apply Hc0.
    destruct (c0 p) eqn:E; simpl; [ring|]. field. apply Hc0. exact E.
  - assert (x < 0) as Hx by lra. rewrite sign_neg by exact Hx. simpl nabs. rewrite Rabs_left by exact Hx. unfold gbc.
    destruct (c0 p) eqn:E; [rewrite log1p_R; unfold Rminus; simpl; ring|]. simpl. unfold bc, Rpower.
    replace (- x + 1) with (1 - x) by ring. field. apply Hc0. exact E.
Qed.

(* ---------------------------------------------------------------- views of _denormalize *)
Lemma D_boxcox p y : D KBoxCox p y = exp (gbci (c0 p) (lmbda p) y).
Proof.
  unfold denormalize_raw, gbci. destruct (c0 p) eqn:E; [reflexivity|]. simpl. unfold Rpower, bci. f_equal.
  field. apply Hc0. exact E.
Qed.
Lemma D_shift p y : D KBoxCoxShift p y = exp (gbci (c0 p) (lmbda p) y) - shift p.
Proof.
  unfold denormalize_raw, gbci. destruct (c0 p) eqn:E; [reflexivity|]. simpl. unfold Rpower, bci. f_equal. f_equal.
  field. apply Hc0. exact E.
Qed.
Lemma D_manly p y : D KManly p y = gbci (c0 p) (lmbda p) y.
Proof. unfold denormalize_raw, gbci. destruct (c0 p); [reflexivity|]. rewrite log1p_R. reflexivity. Qed.
Lemma D_yj p y : D KYeoJohnson p y = pwi (c0 p) (lmbda p) (c2 p) (2 - lmbda p) y.
Proof.
  unfold denormalize_raw, pwi. simpl nleb. destruct (Rle_dec 0 y) as [H|H].
  - unfold gbci. destruct (c0 p) eqn:E; [apply expm1_R|]. simpl. unfold bci, Rpower. f_equal. f_equal.
    replace (y * lmbda p + 1) with (1 + y * lmbda p) by ring. field. apply Hc0. exact E.
  - unfold gbci. destruct (c2 p) eqn:E; [rewrite expm1_R; simpl; ring|]. simpl. unfold bci, Rpower.
    change (two Rops) with 2. f_equal. f_equal.
    replace (- (2 - lmbda p) * y + 1) with (1 + - y * (2 - lmbda p)) by ring. field. apply Hc2. exact E.
Qed.
Lemma gbci_0 c l : (c = false -> l <> 0) -> gbci c l 0 = 0.
Proof.
  intros H. unfold gbci, bci. destruct c; [reflexivity|]. rewrite Rmult_0_l, Rplus_0_r, ln_1. field. auto.
Qed.
Lemma D_mod p y : D KModulus p y = pwi (c0 p) (lmbda p) (c0 p) (lmbda p) y.
Proof.
  unfold denormalize_raw, pwi. destruct (Rle_dec 0 y) as [[H|H]|H].
  - rewrite sign_pos by exact H. simpl nabs. rewrite Rabs_pos_eq by lra. unfold gbci.
    destruct (c0 p) eqn:E; [rewrite expm1_R; simpl; ring|]. simpl. unfold bci, Rpower.
    rewrite Rmult_1_l. f_equal. f_equal. rewrite (Rmult_comm (lmbda p) y). field. apply Hc0. exact E.
  - subst y. rewrite sign_0, gbci_0 by apply Hc0. rewrite exp_0. destruct (c0 p); simpl; ring.
  - assert (y < 0) as Hy by lra. rewrite sign_neg by exact Hy. simpl nabs. rewrite Rabs_left by exact Hy. unfold gbci.
    destruct (c0 p) eqn:E; [rewrite expm1_R; simpl; ring|]. simpl. unfold bci, Rpower.
    replace (1 + lmbda p * - y) with (1 + - y * lmbda p) by ring.
    replace (1 / lmbda p * ln (1 + - y * lmbda p)) with (ln (1 + - y * lmbda p) / lmbda p) by (field; apply Hc0; exact E).
    ring.
Qed.

(* ---------------------------------------------------------------- views of the coded ranges *)
Lemma bound_neg l y : l < 0 -> (y < - (1 / l) <-> 0 < 1 + y * l).
Proof.
  intros Hl. assert (l * (1 / l) = 1) as Hi by (field; lra). set (i := 1 / l) in *. split; intros H; nra.
Qed.
Lemma bound_pos l y : 0 < l -> (- (1 / l) < y <-> 0 < 1 + y * l).
Proof.
  intros Hl. assert (l * (1 / l) = 1) as Hi by (field; lra). set (i := 1 / l) in *. split; intros H; nra.
Qed.
Lemma inv_neg l : l < 0 -> 1 / l < 0.
Proof. intros H. unfold Rdiv. rewrite Rmult_1_l. apply Rinv_lt_0_compat. exact H. Qed.
Lemma inv_pos l : 0 < l -> 0 < 1 / l.
Proof. intros H. unfold Rdiv. rewrite Rmult_1_l. apply Rinv_0_lt_compat. exact H. Qed.

Lemma R_boxcox l y : inR (boxcox_range Rops l) y <-> gvalid (close0 Rops l) l y.
Proof.
  unfold boxcox_range, gvalid. destruct (close0 Rops l) eqn:E.
  - unfold inR; simpl. tauto.
  - pose proof (close0_false_neq l E) as Hl. simpl nltb. destruct (Rlt_dec l 0) as [Hn|Hn]; unfold inR; simpl.
    + rewrite (bound_neg l y Hn). split; [intros [_ H]; right; exact H|intros [H|H]; [discriminate|tauto]].
    + assert (0 < l) as Hp by lra. rewrite (bound_pos l y Hp).
      split; [intros [H _]; right; exact H|intros [H|H]; [discriminate|tauto]].
Qed.
Lemma ltb_R a b : nltb Rops a b = if Rlt_dec a b then true else false.
Proof. reflexivity. Qed.
Ltac all_valid y :=
  unfold inR; simpl fst; simpl snd; split; [intros _|intros _; split; exact I];
  destruct (Rle_dec 0 y); try (left; reflexivity); right; nra.
Lemma R_yj p y : inR (denorm_range Rops KYeoJohnson p) y <-> pwvalid (c0 p) (lmbda p) (c2 p) (2 - lmbda p) y.
Proof.
  unfold denorm_range, pwvalid, gvalid. cbv zeta. set (l := lmbda p). change (two Rops) with 2. change (n0 Rops) with 0. rewrite !ltb_R.
  assert (forall P : Prop, (false = true \/ P) <-> P) as Hor by (intros P; split; [intros [H|H]; [discriminate|exact H]|auto]).
  destruct (Rlt_dec l 0) as [Hn|Hn]; destruct (close0 Rops l) eqn:E0; cbn [andb negb].
  - destruct (Rlt_dec 2 l) as [H2|H2]; [lra|]. cbn [andb negb]. all_valid y.
  - (* l < 0, power branch: (-inf, -1/l) *)
    unfold inR; simpl fst; simpl snd. pose proof (inv_neg l Hn) as Hi. destruct (Rle_dec 0 y) as [Hy|Hy].
    + rewrite Hor. change (nneg Rops (ndiv Rops (n1 Rops) l)) with (- (1 / l)). rewrite (bound_neg l y Hn). tauto.
    + change (nneg Rops (ndiv Rops (n1 Rops) l)) with (- (1 / l)).
      split; [intros _; right; nra|intros _; split; [exact I|lra]].
  - destruct (Rlt_dec 2 l) as [H2|H2]; destruct (close2 Rops l) eqn:E2; cbn [andb negb]; try (all_valid y).
    exfalso. apply close0_true in E0. rewrite Rabs_pos_eq in E0 by lra. lra.
  - destruct (Rlt_dec 2 l) as [H2|H2]; destruct (close2 Rops l) eqn:E2; cbn [andb negb]; try (all_valid y).
    (* 2 < l, power branch: (-1/(l-2), inf) *)
    unfold inR; simpl fst; simpl snd. assert (0 < l - 2) as Hp by lra. pose proof (inv_pos _ Hp) as Hi.
    change (nneg Rops (ndiv Rops (n1 Rops) (nsub Rops l 2))) with (- (1 / (l - 2))).
    destruct (Rle_dec 0 y) as [Hy|Hy].
    + split; [intros _; right; nra|intros _; split; [lra|exact I]].
    + rewrite Hor. rewrite (bound_pos (l - 2) y Hp). replace (1 + - y * (2 - l)) with (1 + y * (l - 2)) by ring. tauto.
Qed.
Lemma R_mod p y : inR (denorm_range Rops KModulus p) y <-> pwvalid (c0 p) (lmbda p) (c0 p) (lmbda p) y.
Proof.
  unfold denorm_range, pwvalid, gvalid. cbv zeta. set (l := lmbda p). change (n0 Rops) with 0. rewrite !ltb_R.
  assert (forall P : Prop, (false = true \/ P) <-> P) as Hor by (intros P; split; [intros [H|H]; [discriminate|exact H]|auto]).
  destruct (Rlt_dec l 0) as [Hn|Hn]; destruct (close0 Rops l) eqn:E0; cbn [andb negb]; try (all_valid y).
  unfold inR; simpl fst; simpl snd. pose proof (inv_neg l Hn) as Hi.
  change (nneg Rops (ndiv Rops (n1 Rops) l)) with (- (1 / l)). change (ndiv Rops (n1 Rops) l) with (1 / l).
  destruct (Rle_dec 0 y) as [Hy|Hy]; rewrite Hor.
  - rewrite <- (bound_neg l y Hn). split; [tauto|intros H; split; [lra|exact H]].
  - rewrite <- (bound_neg l (- y) Hn). split; [intros [H _]; lra|intros H; split; lra].
Qed.

(* ---------------------------------------------------------------- inverse pairs on the coded ranges *)
Lemma coreA k p x : inR (norm_range Rops k p) x ->
  inR (denorm_range Rops k p) (N k p x) /\ D k p (N k p x) = x.
Proof.
  destruct k; unfold norm_range; intros [Hlo _]; simpl in Hlo.
  - split; [split; exact I|reflexivity].
  - split; [split; exact I|]. simpl. apply exp_ln. exact Hlo.
  - split; [apply R_boxcox; rewrite N_boxcox; apply gbc_valid; apply Hc0|].
    rewrite D_boxcox, N_boxcox, gbci_gbc by apply Hc0. apply exp_ln. exact Hlo.
  - split; [apply R_boxcox; rewrite N_shift; apply gbc_valid; apply Hc0|].
    rewrite D_shift, N_shift, gbci_gbc by apply Hc0. rewrite exp_ln by lra. ring.
  - split; [apply R_yj; rewrite N_yj; apply pw_valid; [apply Hc0|apply Hc2]|].
    rewrite D_yj, N_yj. apply pwi_pw; [apply Hc0|apply Hc2].
  - split; [apply R_mod; rewrite N_mod; apply pw_valid; apply Hc0|].
    rewrite D_mod, N_mod. apply pwi_pw; apply Hc0.
  - split; [apply R_boxcox; rewrite N_manly; apply gbc_valid; apply Hc0|].
    rewrite D_manly, N_manly. apply gbci_gbc. apply Hc0.
Qed.

Lemma coreB k p y : inR (denorm_range Rops k p) y ->
  inR (norm_range Rops k p) (D k p y) /\ N k p (D k p y) = y.
Proof.
  destruct k; intros Hy.
  - split; [split; exact I|reflexivity].
  - split; [split; [apply exp_pos|exact I]|]. simpl. apply ln_exp.
  - apply R_boxcox in Hy. split; [split; [rewrite D_boxcox; apply exp_pos|exact I]|].
    rewrite N_boxcox, D_boxcox, ln_exp. apply gbc_gbci; [apply Hc0|exact Hy].
  - apply R_boxcox in Hy. split.
    + rewrite D_shift. unfold norm_range, inR. simpl fst. simpl snd. change (nneg Rops (shift p)) with (- shift p).
      pose proof (exp_pos (gbci (c0 p) (lmbda p) y)). split; [lra|exact I].
    + rewrite N_shift, D_shift. replace (exp (gbci (c0 p) (lmbda p) y) - shift p + shift p)
        with (exp (gbci (c0 p) (lmbda p) y)) by ring.
      rewrite ln_exp. apply gbc_gbci; [apply Hc0|exact Hy].
  - apply R_yj in Hy. split; [split; exact I|]. rewrite N_yj, D_yj. apply pw_pwi; [apply Hc0|apply Hc2|exact Hy].
  - apply R_mod in Hy. split; [split; exact I|]. rewrite N_mod, D_mod. apply pw_pwi; [apply Hc0|apply Hc0|exact Hy].
  - apply R_boxcox in Hy. split; [split; exact I|]. rewrite N_manly, D_manly. apply gbc_gbci; [apply Hc0|exact Hy].
Qed.

Lemma core_incr k p x1 x2 : inR (norm_range Rops k p) x1 -> inR (norm_range Rops k p) x2 -> x1 < x2 ->
  N k p x1 < N k p x2.
Proof.
  destruct k; unfold norm_range; intros [H1 _] [H2 _] H; simpl in H1, H2.
  - exact H.
  - simpl. apply ln_increasing; assumption.
  - rewrite !N_boxcox. apply gbc_incr; [apply Hc0|]. apply ln_increasing; assumption.
  - rewrite !N_shift. apply gbc_incr; [apply Hc0|]. apply ln_increasing; lra.
  - rewrite !N_yj. apply pw_incr; [apply Hc0|apply Hc2|exact H].
  - rewrite !N_mod. apply pw_incr; [apply Hc0|apply Hc0|exact H].
  - rewrite !N_manly. apply gbc_incr; [apply Hc0|exact H].
Qed.

(* statements on the model's own (boolean) range tests *)
Theorem denorm_norm k p x : in_range Rops (norm_range Rops k p) x = true ->
  normalize Rops k p x = Some (N k p x) /\ denormalize Rops k p (N k p x) = Some x.
Proof.
  intros H. pose proof (proj1 (in_range_R _ _) H) as HR. destruct (coreA k p x HR) as [Hd He].
  apply in_range_R in Hd. unfold normalize, denormalize. rewrite !guarded_R, H, Hd, He. split; reflexivity.
Qed.
Theorem norm_denorm k p y : in_range Rops (denorm_range Rops k p) y = true ->
  denormalize Rops k p y = Some (D k p y) /\ normalize Rops k p (D k p y) = Some y.
Proof.
  intros H. pose proof (proj1 (in_range_R _ _) H) as HR. destruct (coreB k p y HR) as [Hd He].
  apply in_range_R in Hd. unfold normalize, denormalize. rewrite !guarded_R, H, Hd, He. split; reflexivity.
Qed.
Theorem strictly_increasing k p x1 x2 :
  in_range Rops (norm_range Rops k p) x1 = true -> in_range Rops (norm_range Rops k p) x2 = true ->
  x1 < x2 -> N k p x1 < N k p x2.
Proof. intros H1 H2. apply core_incr; apply in_range_R; assumption. Qed.
Theorem image_is_range k p y :
  (exists x, in_range Rops (norm_range Rops k p) x = true /\ N k p x = y) <->
  in_range Rops (denorm_range Rops k p) y = true.
Proof.
  split.
  - intros [x [Hx E]]. subst y. apply in_range_R. apply coreA. apply in_range_R. exact Hx.
  - intros Hy. exists (D k p y). apply in_range_R in Hy. destruct (coreB k p y Hy) as [Hd He].
    split; [apply in_range_R; exact Hd|exact He].
Qed.

(* ---------------------------------------------------------------- derivative *)
Definition exact_branch (k : nkind) (p : npar R) (x : R) : Prop :=
  match k with
  | KBoxCox | KBoxCoxShift | KManly | KModulus => c0 p = true -> lmbda p = 0
  | KYeoJohnson => (0 < x -> c0 p = true -> lmbda p = 0) /\ (x < 0 -> c2 p = true -> lmbda p = 2)
  | _ => True
  end.

Lemma dx_R : dx Rops = 1 / 1000000.
Proof. reflexivity. Qed.

Lemma pwd_yj p x : derivative_raw Rops KYeoJohnson p x = pwd (lmbda p) (2 - lmbda p) x.
Proof.
  unfold derivative_raw, pwd. destruct (Rle_dec 0 x) as [[H|H]|H].
  - rewrite sign_pos by exact H. simpl. rewrite Rabs_pos_eq by lra. rewrite Rmult_1_l.
    replace (x + 1) with (1 + x) by ring. apply pow_minus1. lra.
  - subst x. rewrite sign_0. simpl. rewrite Rabs_R0. unfold Rpower. replace (0 + 1) with 1 by ring.
    replace (1 + 0) with 1 by ring. rewrite ln_1, !Rmult_0_r, exp_0. field.
  - assert (x < 0) as Hx by lra. rewrite sign_neg by exact Hx. simpl. rewrite Rabs_left by exact Hx.
    replace (- x + 1) with (1 - x) by ring. replace (-1 * (lmbda p - 1)) with ((2 - lmbda p) - 1) by ring.
    apply pow_minus1. lra.
Qed.
Lemma pwd_mod p x : derivative_raw Rops KModulus p x = pwd (lmbda p) (lmbda p) x.
Proof.
  unfold derivative_raw, pwd. simpl. destruct (Rle_dec 0 x) as [H|H].
  - rewrite Rabs_pos_eq by lra. replace (x + 1) with (1 + x) by ring. apply pow_minus1. lra.
  - rewrite Rabs_left by lra. replace (- x + 1) with (1 - x) by ring. apply pow_minus1. lra.
Qed.

Theorem derivative_exact k p x : in_range Rops (norm_range Rops k p) x = true -> exact_branch k p x ->
  is_derive (N k p) x (derivative_raw Rops k p x).
Proof.
  intros HR Hex. apply in_range_R in HR. destruct k; destruct HR as [Hlo _]; simpl in Hlo.
  - (* identity: the central difference of the identity is 1 *)
    replace (derivative_raw Rops KIdentity p x) with 1
      by (unfold derivative_raw; rewrite dx_R; change (two Rops) with 2; simpl; field).
    apply (is_derive_id x).
  - replace (derivative_raw Rops KLogNormal p x) with (/ x).
    + apply (is_derive_ln x Hlo).
    + unfold derivative_raw. simpl. rewrite Rpower_Ropp, Rpower_1 by exact Hlo. reflexivity.
  - apply (is_derive_ext (fun t => gbc (c0 p) (lmbda p) (ln (0 + 1 * t)))).
    { intros t. rewrite N_boxcox. do 2 f_equal. ring. }
    replace (derivative_raw Rops KBoxCox p x) with (1 * (exp (lmbda p * ln (0 + 1 * x)) / (0 + 1 * x))).
    + apply lin_ln_derive; [apply Hc0|lra|]. intros H. left. apply Hex. exact H.
    + unfold derivative_raw. simpl. replace (0 + 1 * x) with x by ring. rewrite Rmult_1_l. symmetry. apply pow_minus1. exact Hlo.
  - apply (is_derive_ext (fun t => gbc (c0 p) (lmbda p) (ln (shift p + 1 * t)))).
    { intros t. rewrite N_shift. do 2 f_equal. ring. }
    replace (derivative_raw Rops KBoxCoxShift p x) with (1 * (exp (lmbda p * ln (shift p + 1 * x)) / (shift p + 1 * x))).
    + apply lin_ln_derive; [apply Hc0|lra|]. intros H. left. apply Hex. exact H.
    + unfold derivative_raw. simpl. replace (shift p + 1 * x) with (x + shift p) by ring. rewrite Rmult_1_l. symmetry.
      apply pow_minus1. lra.
  - destruct Hex as [HP HN]. apply (is_derive_ext (pw (c0 p) (lmbda p) (c2 p) (2 - lmbda p))).
    { intros t. symmetry. apply N_yj. }
    rewrite pwd_yj. apply pw_derive; [apply Hc0|apply Hc2|exact HP|]. intros Hx Hc. rewrite (HN Hx Hc). ring.
  - apply (is_derive_ext (pw (c0 p) (lmbda p) (c0 p) (lmbda p))).
    { intros t. symmetry. apply N_mod. }
    rewrite pwd_mod. apply pw_derive; [apply Hc0|apply Hc0|intros _; exact Hex|intros _; exact Hex].
  - apply (is_derive_ext (gbc (c0 p) (lmbda p))).
    { intros t. symmetry. apply N_manly. }
    replace (derivative_raw Rops KManly p x) with (exp (lmbda p * x)) by (simpl; rewrite (Rmult_comm x); reflexivity).
    apply gbc_derive; [apply Hc0|exact Hex].
Qed.
