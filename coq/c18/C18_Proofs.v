(* C18_Proofs.v — the normalizer model at R: views of the coded formulas in terms of the Box-Cox kernel
   (C18_Analysis.v), inverse pairs, monotonicity, ranges, derivatives. *)
From Coq Require Import Reals Lra Psatz List Bool ZArith.
From Coquelicot Require Import Coquelicot.
From GS Require Import Num Loops C18_Model C18_RInst C18_Analysis.
Import ListNotations.
Open Scope R_scope.

Notation N := (normalize_raw Rops).
Notation D := (denormalize_raw Rops).
Notation c0 p := (close0 Rops (lmbda p)).
Notation c2 p := (close2 Rops (lmbda p)).

Lemma Hc0 (p : npar R) : c0 p = false -> lmbda p <> 0.
Proof. apply close0_false_neq. Qed.
Lemma Hc2 (p : npar R) : c2 p = false -> 2 - lmbda p <> 0.
Proof. apply close2_false_neq. Qed.

Lemma expm1_R x : expm1 Rops x = exp x - 1.
Proof. reflexivity. Qed.
Lemma log1p_R x : log1p Rops x = ln (1 + x).
Proof. reflexivity. Qed.

(* ---------------------------------------------------------------- views of _normalize *)
Lemma N_boxcox p x : N KBoxCox p x = gbc (c0 p) (lmbda p) (ln x).
Proof. unfold normalize_raw, gbc. destruct (c0 p); reflexivity. Qed.
Lemma N_shift p x : N KBoxCoxShift p x = gbc (c0 p) (lmbda p) (ln (x + shift p)).
Proof. unfold normalize_raw, gbc. destruct (c0 p); reflexivity. Qed.
Lemma N_manly p x : N KManly p x = gbc (c0 p) (lmbda p) x.
Proof.
  unfold normalize_raw, gbc. destruct (c0 p); [reflexivity|]. rewrite expm1_R. unfold bc. simpl.
  rewrite (Rmult_comm x). reflexivity.
Qed.
Lemma N_yj p x : N KYeoJohnson p x = pw (c0 p) (lmbda p) (c2 p) (2 - lmbda p) x.
Proof.
  unfold normalize_raw, pw. simpl nleb. destruct (Rle_dec 0 x) as [H|H].
  - unfold gbc. destruct (c0 p); [apply log1p_R|]. simpl. unfold bc, Rpower.
    replace (x + 1) with (1 + x) by ring. reflexivity.
  - unfold gbc. destruct (c2 p) eqn:E; [rewrite log1p_R; reflexivity|]. simpl. unfold bc, Rpower.
    replace (- x + 1) with (1 - x) by ring. change (two Rops) with 2. field. apply Hc2. exact E.
Qed.
Lemma sign_pos x : 0 < x -> sign Rops x = 1.
Proof. intros H. unfold sign. simpl. destruct (Rlt_dec 0 x); [reflexivity|lra]. Qed.
Lemma sign_neg x : x < 0 -> sign Rops x = -1.
Proof. intros H. unfold sign. simpl. destruct (Rlt_dec 0 x); [lra|]. destruct (Rlt_dec x 0); [reflexivity|lra]. Qed.
Lemma sign_0 : sign Rops 0 = 0.
Proof. unfold sign. simpl. destruct (Rlt_dec 0 0); [lra|reflexivity]. Qed.
Lemma N_mod p x : N KModulus p x = pw (c0 p) (lmbda p) (c0 p) (lmbda p) x.
Proof.
  unfold normalize_raw, pw. destruct (Rle_dec 0 x) as [[H|H]|H].
  - rewrite sign_pos by exact H. simpl nabs. rewrite Rabs_pos_eq by lra. unfold gbc.
    destruct (c0 p) eqn:E; [rewrite log1p_R; simpl; ring|]. simpl. unfold bc, Rpower.
    replace (x + 1) with (1 + x) by ring. field. apply Hc0. exact E.
  - subst x. rewrite sign_0. replace (1 + 0) with 1 by ring. rewrite ln_1, gbc_0 by apply Hc0.
    destruct (c0 p) eqn:E; simpl; [ring|]. field. apply Hc0. exact E.
  - assert (x < 0) as Hx by lra. rewrite sign_neg by exact Hx. simpl nabs. rewrite Rabs_left by exact Hx. unfold gbc.
    destruct (c0 p) eqn:E; [rewrite log1p_R; unfold Rminus; simpl; ring|]. simpl. unfold bc, Rpower.
    replace (- x + 1) with (1 - x) by ring. field. apply Hc0. exact E.
Qed.

(* ---------------------------------------------------------------- views of _denormalize *)
Lemma D_boxcox p y : D KBoxCox p y = exp (gbci (c0 p) (lmbda p) y).
Proof.
  unfold denormalize_raw, gbci. destruct (c0 p) eqn:E; [reflexivity|]. simpl. unfold Rpower, bci. f_equal.
  field. apply Hc0. exact E.
Qed.
Lemma D_shift p y : D KBoxCoxShift p y = exp (gbci (c0 p) (lmbda p) y) - shift p.
Proof.
  unfold denormalize_raw, gbci. destruct (c0 p) eqn:E; [reflexivity|]. simpl. unfold Rpower, bci. f_equal. f_equal.
  field. apply Hc0. exact E.
Qed.
Lemma D_manly p y : D KManly p y = gbci (c0 p) (lmbda p) y.
Proof. unfold denormalize_raw, gbci. destruct (c0 p); [reflexivity|]. rewrite log1p_R. reflexivity. Qed.
Lemma D_yj p y : D KYeoJohnson p y = pwi (c0 p) (lmbda p) (c2 p) (2 - lmbda p) y.
Proof.
  unfold denormalize_raw, pwi. simpl nleb. destruct (Rle_dec 0 y) as [H|H].
  - unfold gbci. destruct (c0 p) eqn:E; [apply expm1_R|]. simpl. unfold bci, Rpower. f_equal. f_equal.
    replace (y * lmbda p + 1) with (1 + y * lmbda p) by ring. field. apply Hc0. exact E.
  - unfold gbci. destruct (c2 p) eqn:E; [rewrite expm1_R; simpl; ring|]. simpl. unfold bci, Rpower.
    change (two Rops) with 2. f_equal. f_equal.
    replace (- (2 - lmbda p) * y + 1) with (1 + - y * (2 - lmbda p)) by ring. field. apply Hc2. exact E.
Qed.
Lemma gbci_0 c l : (c = false -> l <> 0) -> gbci c l 0 = 0.
Proof.
  intros H. unfold gbci, bci. destruct c; [reflexivity|]. rewrite Rmult_0_l, Rplus_0_r, ln_1. field. auto.
Qed.
Lemma D_mod p y : D KModulus p y = pwi (c0 p) (lmbda p) (c0 p) (lmbda p) y.
Proof.
  unfold denormalize_raw, pwi. destruct (Rle_dec 0 y) as [[H|H]|H].
  - rewrite sign_pos by exact H. simpl nabs. rewrite Rabs_pos_eq by lra. unfold gbci.
    destruct (c0 p) eqn:E; [rewrite expm1_R; simpl; ring|]. simpl. unfold bci, Rpower.
    rewrite Rmult_1_l. f_equal. f_equal. rewrite (Rmult_comm (lmbda p) y). field. apply Hc0. exact E.
  - subst y. rewrite sign_0, gbci_0 by apply Hc0. rewrite exp_0. destruct (c0 p); simpl; ring.
  - assert (y < 0) as Hy by lra. rewrite sign_neg by exact Hy. simpl nabs. rewrite Rabs_left by exact Hy. unfold gbci.
    destruct (c0 p) eqn:E; [rewrite expm1_R; simpl; ring|]. simpl. unfold bci, Rpower.
    replace (1 + lmbda p * - y) with (1 + - y * lmbda p) by ring.
    replace (1 / lmbda p * ln (1 + - y * lmbda p)) with (ln (1 + - y * lmbda p) / lmbda p) by (field; apply Hc0; exact E).
    ring.
Qed.

(* ---------------------------------------------------------------- views of the coded ranges *)
Lemma bound_neg l y : l < 0 -> (y < - (1 / l) <-> 0 < 1 + y * l).
Proof.
  intros Hl. assert (l * (1 / l) = 1) as Hi by (field; lra). set (i := 1 / l) in *. split; intros H; nra.
Qed.
Lemma bound_pos l y : 0 < l -> (- (1 / l) < y <-> 0 < 1 + y * l).
Proof.
  intros Hl. assert (l * (1 / l) = 1) as Hi by (field; lra). set (i := 1 / l) in *. split; intros H; nra.
Qed.
Lemma inv_neg l : l < 0 -> 1 / l < 0.
Proof. intros H. unfold Rdiv. rewrite Rmult_1_l. apply Rinv_lt_0_compat. exact H. Qed.
Lemma inv_pos l : 0 < l -> 0 < 1 / l.
Proof. intros H. unfold Rdiv. rewrite Rmult_1_l. apply Rinv_0_lt_compat. exact H. Qed.

Lemma R_boxcox l y : inR (boxcox_range Rops l) y <-> gvalid (close0 Rops l) l y.
Proof.
  unfold boxcox_range, gvalid. destruct (close0 Rops l) eqn:E.
  - unfold inR; simpl. tauto.
  - pose proof (close0_false_neq l E) as Hl. simpl nltb. destruct (Rlt_dec l 0) as [Hn|Hn]; unfold inR; simpl.
    + rewrite (bound_neg l y Hn). split; [intros [_ H]; right; exact H|intros [H|H]; [discriminate|tauto]].
    + assert (0 < l) as Hp by lra. rewrite (bound_pos l y Hp).
      split; [intros [H _]; right; exact H|intros [H|H]; [discriminate|tauto]].
Qed.
Lemma R_yj p y : inR (denorm_range Rops KYeoJohnson p) y <-> pwvalid (c0 p) (lmbda p) (c2 p) (2 - lmbda p) y.
Proof.
  unfold denorm_range, pwvalid, gvalid. set (l := lmbda p). simpl nltb. change (two Rops) with 2.
  destruct (Rlt_dec l 0) as [Hn|Hn]; destruct (close0 Rops l) eqn:E0; simpl andb.
  4: destruct (Rlt_dec 2 l) as [H2|H2]; destruct (close2 Rops l) eqn:E2; simpl andb.
  1, 3, 4, 6, 7: unfold inR; simpl; split; [intros _|tauto]; destruct (Rle_dec 0 y); try (left; reflexivity);
    right; nra.
  - (* l < 0, power branch: (-inf, -1/l) *)
    unfold inR; simpl. pose proof (inv_neg l Hn). destruct (Rle_dec 0 y) as [Hy|Hy].
    + rewrite (bound_neg l y Hn). split; [intros [_ H]; right; exact H|intros [H|H]; [discriminate|tauto]].
    + split; [intros _; right; nra|intros _; split; [exact I|lra]].
  - (* 2 < l, power branch: (-1/(l-2), inf) *)
    unfold inR; simpl. assert (0 < l - 2) as Hp by lra. pose proof (inv_pos _ Hp). destruct (Rle_dec 0 y) as [Hy|Hy].
    + split; [intros _; right; nra|intros _; split; [lra|exact I]].
    + rewrite (bound_pos (l - 2) y Hp). replace (1 + - y * (2 - l)) with (1 + y * (l - 2)) by ring.
      split; [intros [H _]; right; exact H|intros [H|H]; [discriminate|tauto]].
Qed.
