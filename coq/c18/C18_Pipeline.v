(* C18_Pipeline.v — _check_input NaN policy (every number type), and the mean / normalizer / trend pipeline
   of normalizer/tools.py at R. *)
From Coq Require Import Reals Lra List Bool ZArith.
From GS Require Import Num Loops C18_Model C18_RInst C18_Analysis C18_Proofs.
Import ListNotations.

(* ---------------------------------------------------------------- NaN policy, any NumOps *)
Section Generic.
  Context {T : Type} (O : NumOps T).
  Lemma guarded_spec r f x :
    guarded O r f x = if negb (nisnan O x) && in_range O r x then Some (f x) else None.
  Proof. unfold guarded. destruct (nisnan O x); reflexivity. Qed.

  Theorem nan_policy k p x :
    (nisnan O x = true ->
       normalize O k p x = None /\ denormalize O k p x = None /\ derivative O k p x = None) /\
    (nisnan O x = false ->
       (normalize O k p x = if in_range O (norm_range O k p) x then Some (normalize_raw O k p x) else None) /\
       (derivative O k p x = if in_range O (norm_range O k p) x then Some (derivative_raw O k p x) else None) /\
       (denormalize O k p x = if in_range O (denorm_range O k p) x then Some (denormalize_raw O k p x) else None)).
  Proof.
    unfold normalize, denormalize, derivative, guarded. split; intros H; rewrite H; repeat split; reflexivity.
  Qed.

  (* the likelihood functions see exactly the entries that are not NaN and lie in the normalize range,
     in their original order; filtering twice changes nothing *)
  Theorem valid_data_spec k p data x :
    In x (valid_data O k p data) <->
    In x data /\ nisnan O x = false /\ in_range O (norm_range O k p) x = true.
  Proof.
    unfold valid_data. rewrite filter_In, andb_true_iff, negb_true_iff. tauto.
  Qed.
  Theorem loglik_ignores_invalid k p data :
    kernel_loglikelihood O k p (valid_data O k p data) = kernel_loglikelihood O k p data /\
    loglikelihood O k p (valid_data O k p data) = loglikelihood O k p data.
  Proof.
    unfold kernel_loglikelihood, loglikelihood, valid_data.
    assert (forall (f : T -> bool) l, filter f (filter f l) = filter f l) as Hf.
    { intros f l. induction l as [|a l IH]; simpl; [reflexivity|].
      destruct (f a) eqn:E; simpl; [rewrite E, IH; reflexivity|exact IH]. }
    rewrite Hf. split; reflexivity.
  Qed.

  Lemma zip3_length {A B C} (a : list A) (b : list B) (c : list C) :
    length a = length c -> length b = length c -> length (zip3 a b c) = length c.
  Proof.
    revert b c. induction a as [|x a IH]; intros [|y b] [|z c]; simpl; intros H1 H2; try discriminate; auto.
  Qed.
End Generic.

(* ---------------------------------------------------------------- pipeline at R *)
Open Scope R_scope.

Theorem pipeline_pt k p m t raw :
  in_range Rops (denorm_range Rops k p) (raw + m) = true ->
  apply_pt Rops k p m t raw = Some (denormalize_raw Rops k p (raw + m) + t) /\
  remove_pt Rops k p m t (denormalize_raw Rops k p (raw + m) + t) = Some raw.
Proof.
  intros H. destruct (norm_denorm k p _ H) as [H1 H2]. unfold apply_pt, remove_pt. split.
  - change (nadd Rops raw m) with (raw + m). rewrite H1. reflexivity.
  - change (nsub Rops (denormalize_raw Rops k p (raw + m) + t) t) with (denormalize_raw Rops k p (raw + m) + t - t).
    replace (denormalize_raw Rops k p (raw + m) + t - t) with (denormalize_raw Rops k p (raw + m)) by ring.
    rewrite H2. simpl. f_equal. ring.
Qed.

Theorem pipeline_pt_rev k p m t f :
  in_range Rops (norm_range Rops k p) (f - t) = true ->
  remove_pt Rops k p m t f = Some (normalize_raw Rops k p (f - t) - m) /\
  apply_pt Rops k p m t (normalize_raw Rops k p (f - t) - m) = Some f.
Proof.
  intros H. destruct (denorm_norm k p _ H) as [H1 H2]. unfold apply_pt, remove_pt. split.
  - change (nsub Rops f t) with (f - t). rewrite H1. reflexivity.
  - change (nadd Rops (normalize_raw Rops k p (f - t) - m) m) with (normalize_raw Rops k p (f - t) - m + m).
    replace (normalize_raw Rops k p (f - t) - m + m) with (normalize_raw Rops k p (f - t)) by ring.
    rewrite H2. simpl. f_equal. ring.
Qed.

(* whole fields: position-wise means and trends *)
Theorem pipeline_field k p means trends raws :
  length means = length raws -> length trends = length raws ->
  Forall (fun mtr => in_range Rops (denorm_range Rops k p) (snd mtr + fst (fst mtr)) = true) (zip3 means trends raws) ->
  exists outs,
    apply_field Rops k p means trends raws = map Some outs /\
    outs = map (fun mtr => denormalize_raw Rops k p (snd mtr + fst (fst mtr)) + snd (fst mtr)) (zip3 means trends raws) /\
    remove_field Rops k p means trends outs = map Some raws.
Proof.
  revert trends raws. induction means as [|m ms IH]; intros [|t ts] [|r rs]; simpl; intros H1 H2 HF; try discriminate.
  - exists []. repeat split; reflexivity.
  - inversion HF as [|? ? Hh Ht]; subst. assert (length ms = length rs) as L1 by congruence. assert (length ts = length rs) as L2 by congruence.
    destruct (IH ts rs L1 L2 Ht) as [outs [Ha [Ho Hr]]].
    destruct (pipeline_pt k p m t r Hh) as [P1 P2].
    exists ((denormalize_raw Rops k p (r + m) + t) :: outs). unfold apply_field, remove_field in *. simpl.
    rewrite P1, P2. repeat split; f_equal; assumption.
Qed.
