(* C05_RInst.v — the real-number instance of the number interface used by the C05/C06 theorems.
   The kriging model uses only + - * / abs, comparisons and the literal 1e-8; the remaining fields are
   filled with the standard functions (never used by the model; no oracle function is used). *)
From Coq Require Import Reals ZArith List.
From GS Require Import Num.
Local Open Scope R_scope.

Definition Rltb (x y : R) : bool := if Rlt_dec x y then true else false.
Definition Rleb (x y : R) : bool := if Rle_dec x y then true else false.
Definition Reqb (x y : R) : bool := if Req_EM_T x y then true else false.

Definition Rops : NumOps R := {|
  n0 := 0; n1 := 1;
  nadd := Rplus; nsub := Rminus; nmul := Rmult; ndiv := Rdiv;
  nneg := Ropp; nabs := Rabs; nsqrt := sqrt;
  ncos := cos; nsin := sin; nexp := exp; nln := ln;
  nacos := acos; nasin := asin; natan := atan; natan2 := fun y x => atan (y / x);
  npow := Rpower;
  nltb := Rltb; nleb := Rleb; neqb := Reqb;
  nisnan := fun _ => false;
  nofZ := IZR;
  npi := PI;
  noracle := fun _ _ => 0
|}.

Lemma Rltb_true x y : Rltb x y = true <-> x < y.
Proof. unfold Rltb; destruct (Rlt_dec x y); split; intros; auto; try discriminate; contradiction. Qed.
Lemma Rleb_true x y : Rleb x y = true <-> x <= y.
Proof. unfold Rleb; destruct (Rle_dec x y); split; intros; auto; try discriminate; contradiction. Qed.
