(* C05_Mat.v — finite sums and index-function matrices over R (own copy for C05/C06). *)
From Coq Require Import Reals Lra Lia Arith List Permutation.
Import ListNotations.
Local Open Scope R_scope.

Fixpoint sumf (n : nat) (f : nat -> R) : R := match n with O => 0 | S m => sumf m f + f m end.

Lemma sumf_ext n f g : (forall k, (k < n)%nat -> f k = g k) -> sumf n f = sumf n g.
Proof. induction n; simpl; intros H; auto. rewrite IHn, H; auto. Qed.
Lemma sumf_plus n f g : sumf n (fun k => f k + g k) = sumf n f + sumf n g.
Proof. induction n; simpl; [lra|]. rewrite IHn; lra. Qed.
Lemma sumf_scal n c f : sumf n (fun k => c * f k) = c * sumf n f.
Proof. induction n; simpl; [lra|]. rewrite IHn; lra. Qed.
Lemma sumf_scal_r n c f : sumf n (fun k => f k * c) = sumf n f * c.
Proof. induction n; simpl; [lra|]. rewrite IHn; lra. Qed.
Lemma sumf_zero n : sumf n (fun _ => 0) = 0.
Proof. induction n; simpl; lra. Qed.
Lemma sumf_zero_ext n f : (forall k, (k < n)%nat -> f k = 0) -> sumf n f = 0.
Proof. intros H. rewrite (sumf_ext n f (fun _ => 0)) by auto. apply sumf_zero. Qed.
Lemma sumf_swap n m (f : nat -> nat -> R) :
  sumf n (fun i => sumf m (fun j => f i j)) = sumf m (fun j => sumf n (fun i => f i j)).
Proof. induction n; simpl. { now rewrite sumf_zero. } rewrite IHn, <- sumf_plus. reflexivity. Qed.
Lemma sumf_nonneg n f : (forall k, (k < n)%nat -> 0 <= f k) -> 0 <= sumf n f.
Proof. induction n; simpl; intros H; [lra|]. assert (0 <= sumf n f) by (apply IHn; auto). specialize (H n ltac:(lia)). lra. Qed.

Definition delta (i j : nat) : R := if Nat.eq_dec i j then 1 else 0.
Lemma delta_same i : delta i i = 1.
Proof. unfold delta; destruct (Nat.eq_dec i i); [reflexivity|contradiction]. Qed.
Lemma delta_diff i j : i <> j -> delta i j = 0.
Proof. intros H; unfold delta; destruct (Nat.eq_dec i j); [contradiction|reflexivity]. Qed.
Lemma delta_sym i j : delta i j = delta j i.
Proof. unfold delta; destruct (Nat.eq_dec i j), (Nat.eq_dec j i); subst; try reflexivity; contradiction. Qed.
Lemma sumf_delta_l n i f : (i < n)%nat -> sumf n (fun k => delta i k * f k) = f i.
Proof.
  induction n; intros H; [lia|]. simpl. destruct (Nat.eq_dec i n) as [->|Hne].
  - rewrite sumf_zero_ext. { rewrite delta_same; lra. }
    intros k Hk. rewrite delta_diff by lia. lra.
  - rewrite IHn by lia. rewrite delta_diff by auto. lra.
Qed.
Lemma sumf_delta_r n i f : (i < n)%nat -> sumf n (fun k => f k * delta k i) = f i.
Proof.
  intros H. rewrite (sumf_ext n _ (fun k => delta i k * f k)). { now apply sumf_delta_l. }
  intros k _. rewrite (delta_sym k i). ring.
Qed.
(* split a sum at n: the first n terms and the rest *)
Lemma sumf_split n m f : sumf (n + m) f = sumf n f + sumf m (fun k => f (n + k)%nat).
Proof.
  induction m; simpl. { rewrite Nat.add_0_r. lra. }
  rewrite Nat.add_succ_r. simpl. rewrite IHm. lra.
Qed.

(* sums are invariant under re-indexing by a bijection of [0,n) *)
Lemma sumf_fold n f : sumf n f = fold_right (fun k acc => f k + acc) 0 (seq 0 n).
Proof.
  induction n; [reflexivity|]. rewrite seq_S, fold_right_app. simpl sumf. rewrite IHn. simpl.
  generalize (seq 0 n) as l. induction l; simpl; [lra|]. rewrite <- IHl. lra.
Qed.
Lemma fold_right_perm f (l l' : list nat) : Permutation l l' ->
  fold_right (fun k acc => f k + acc) 0 l = fold_right (fun k acc => f k + acc) 0 l'.
Proof. induction 1; simpl; lra. Qed.
Lemma sumf_reindex n (s : nat -> nat) f :
  (forall i, (i < n)%nat -> (s i < n)%nat) ->
  (forall i j, (i < n)%nat -> (j < n)%nat -> s i = s j -> i = j) ->
  sumf n (fun i => f (s i)) = sumf n f.
Proof.
  intros Hb Hinj. rewrite !sumf_fold.
  assert (P : Permutation (map s (seq 0 n)) (seq 0 n)).
  { apply NoDup_Permutation_bis.
    - assert (forall l, NoDup l -> (forall x, In x l -> (x < n)%nat) -> NoDup (map s l)) as G.
      { induction l as [|a l IH]; intros ND Hl; simpl; constructor.
        - inversion ND; subst. intros Hin. apply in_map_iff in Hin. destruct Hin as [x [Hx Hin]].
          assert (x = a) by (apply Hinj; auto; apply Hl; simpl; auto). subst. contradiction.
        - inversion ND; subst. apply IH; auto. intros; apply Hl; simpl; auto. }
      apply G. apply seq_NoDup. intros x Hx. apply in_seq in Hx. lia.
    - rewrite map_length. lia.
    - intros x Hx. apply in_map_iff in Hx. destruct Hx as [y [<- Hy]]. apply in_seq in Hy. apply in_seq.
      specialize (Hb y). lia. }
  rewrite <- (fold_right_perm f _ _ P).
  generalize (seq 0 n) as l. induction l; simpl; auto. now rewrite IHl.
Qed.

Definition mat := nat -> nat -> R.
Definition vec := nat -> R.
Definition mmul (n : nat) (A B : mat) : mat := fun i j => sumf n (fun k => A i k * B k j).
Definition mvec (n : nat) (A : mat) (v : vec) : vec := fun i => sumf n (fun k => A i k * v k).
Definition dot (n : nat) (u v : vec) : R := sumf n (fun k => u k * v k).
Definition mT (A : mat) : mat := fun i j => A j i.
Definition meq (n : nat) (A B : mat) := forall i j, (i < n)%nat -> (j < n)%nat -> A i j = B i j.
Definition veq (n : nat) (u v : vec) := forall i, (i < n)%nat -> u i = v i.

Lemma dot_ext n u u' v v' : veq n u u' -> veq n v v' -> dot n u v = dot n u' v'.
Proof. intros H1 H2. apply sumf_ext; intros k Hk. now rewrite H1, H2. Qed.
Lemma dot_comm n u v : dot n u v = dot n v u.
Proof. apply sumf_ext; intros; ring. Qed.
Lemma mvec_ext n A A' v v' : meq n A A' -> veq n v v' -> veq n (mvec n A v) (mvec n A' v').
Proof. intros HA Hv i Hi. apply sumf_ext; intros k Hk. now rewrite HA, Hv. Qed.
(* (A B) v = A (B v) *)
Lemma mvec_mmul n A B v : veq n (mvec n (mmul n A B) v) (mvec n A (mvec n B v)).
Proof.
  intros i Hi. unfold mvec, mmul.
  rewrite (sumf_ext n _ (fun k => sumf n (fun l => A i l * B l k * v k))).
  2:{ intros k _. rewrite <- sumf_scal_r. reflexivity. }
  rewrite sumf_swap. apply sumf_ext; intros l _. rewrite <- sumf_scal. apply sumf_ext; intros; ring.
Qed.
Lemma mvec_delta n v : veq n (mvec n delta v) v.
Proof. intros i Hi. unfold mvec. now apply sumf_delta_l. Qed.
(* u . (A v) = (A^T u) . v *)
Lemma dot_mvec n A u v : dot n u (mvec n A v) = dot n (mvec n (mT A) u) v.
Proof.
  unfold dot, mvec, mT.
  rewrite (sumf_ext n _ (fun k => sumf n (fun l => u k * A k l * v l))).
  2:{ intros k _. rewrite <- sumf_scal. apply sumf_ext; intros; ring. }
  rewrite sumf_swap. apply sumf_ext; intros l _. rewrite <- sumf_scal_r. apply sumf_ext; intros; ring.
Qed.
Lemma dot_lin_l n a b u1 u2 v : dot n (fun i => a * u1 i + b * u2 i) v = a * dot n u1 v + b * dot n u2 v.
Proof.
  unfold dot. rewrite <- !sumf_scal, <- sumf_plus. apply sumf_ext; intros; ring.
Qed.
