(* C06_Proofs.v — exact interpolation at the data, variance bounds, duplicated conditioning points.
   Same model as C05 (C05_Model.v); builds on C05_Proofs.v. *)
From Coq Require Import Reals Lra Lia Arith List Bool ZArith.
From GS Require Import Num Loops Krigesum_gen C05_Mat C05_RInst C05_Model C05_Proofs.
Import ListNotations.
Local Open Scope R_scope.

Lemma lit_1e8 : nlit Rops 1 8 = 1 / 100000000.
Proof. unfold nlit. simpl. reflexivity. Qed.

Lemma isclose0_true r : isclose0 Rops r = true <-> Rabs r <= 1 / 100000000.
Proof. unfold isclose0. rewrite lit_1e8. simpl. apply Rleb_true. Qed.

Lemma clip_var_R sill e : clip_var Rops sill e = if Rlt_dec (sill - e) 0 then 0 else sill - e.
Proof. unfold clip_var. simpl. unfold Rltb. destruct (Rlt_dec (sill - e) 0); reflexivity. Qed.
Lemma clip_var_nonneg sill e : 0 <= clip_var Rops sill e.
Proof. rewrite clip_var_R. destruct (Rlt_dec (sill - e) 0); lra. Qed.
Lemma clip_var_le sill e : 0 <= sill -> 0 <= e -> clip_var Rops sill e <= sill.
Proof. intros. rewrite clip_var_R. destruct (Rlt_dec (sill - e) 0); lra. Qed.

Lemma sumf_two n p q f : (p < n)%nat -> (q < n)%nat -> p <> q ->
  (forall k, (k < n)%nat -> k <> p -> k <> q -> f k = 0) -> sumf n f = f p + f q.
Proof.
  intros Hp Hq Hpq H.
  rewrite (sumf_ext n f (fun k => delta p k * f k + delta q k * f k)).
  - rewrite sumf_plus, !sumf_delta_l by auto. reflexivity.
  - intros k Hk. unfold delta. destruct (Nat.eq_dec p k), (Nat.eq_dec q k); subst; try lia; try lra.
    rewrite H by auto. lra.
Qed.

Lemma sumf_minus n f g : sumf n (fun k => f k - g k) = sumf n f - sumf n g.
Proof. induction n; simpl; [lra|]. rewrite IHn; lra. Qed.

Section Exact.
Variable S : KSys R.
Variable Q : KTgt R.
Variable Kinv : list (list R).
Notation N := (ks_size S).
Notation n := (ks_n S).
Notation K := (kmat_entry Rops S).
Notation Ki := (mat_of Kinv).
Hypothesis HN : shape0 Kinv = N.

(* ---- when target t sits on conditioning point m and that point carries no measurement error,
   the right-hand side is column m of the kriging matrix *)
Definition at_data_point (t m : nat) : Prop :=
  (m < n)%nat /\ kt_only_mean Q = false /\
  (forall i, (i < n)%nat -> aget2 0 (kt_c0 Q) i t = aget2 0 (ks_C S) i m) /\
  (forall l, (l < ks_p S)%nat -> aget2 0 (kt_drifts Q) l t = aget2 0 (ks_drifts S) l m) /\
  (ks_exact S = true ->
     Rabs (aget2 0 (kt_d0 Q) m t) <= 1 / 100000000 /\
     (forall i, (i < n)%nat -> i <> m -> 1 / 100000000 < Rabs (aget2 0 (kt_d0 Q) i t)) /\
     aget2 0 (ks_C S) m m + aget 0 (ks_err S) m = ks_sill S) /\
  (ks_exact S = false -> aget 0 (ks_err S) m = 0).

Lemma rhs_is_column t m : at_data_point t m -> forall i, (i < N)%nat -> rhs_entry Rops S Q i t = K i m.
Proof.
  clear HN. intros (Hm & Hom & Hc & Hd & Hex & Hnex) i Hi. unfold rhs_entry, kmat_entry, cov_nugget_at. rewrite Hom.
  change (n0 Rops) with 0. change (n1 Rops) with 1. change (nadd Rops) with Rplus.
  destruct (Nat.ltb_spec m n) as [_|]; [|lia].
  destruct (Nat.ltb_spec i n) as [Hin|Hin].
  - destruct (ks_exact S) eqn:E.
    + destruct (Hex eq_refl) as (H1 & H2 & H3).
      destruct (Nat.eqb_spec i m) as [->|Hne].
      * assert (C1 : isclose0 Rops (aget2 0 (kt_d0 Q) m t) = true) by (now apply isclose0_true).
        rewrite C1. simpl. lra.
      * destruct (isclose0 Rops (aget2 0 (kt_d0 Q) i t)) eqn:C1.
        { apply isclose0_true in C1. specialize (H2 i Hin Hne). lra. }
        now apply Hc.
    + destruct (Nat.eqb_spec i m) as [->|Hne]; rewrite Hc by auto; [rewrite (Hnex eq_refl); ring | reflexivity].
  - destruct (Nat.ltb_spec i (n + ks_u S)); [reflexivity|].
    apply Hd. unfold ks_size in Hi. lia.
Qed.

(* Kinv K = I and k = K e_m  ==>  the weights are the unit vector e_m *)
Lemma lam_unit t m : meq N (mmul N Ki K) delta -> (m < N)%nat ->
  (forall i, (i < N)%nat -> rhs_entry Rops S Q i t = K i m) ->
  veq N (lam_at S Q Kinv t) (fun i => delta i m).
Proof.
  intros HL Hm Hk i Hi. unfold lam_at, mvec.
  rewrite (sumf_ext N _ (fun j => Ki i j * K j m)).
  2:{ intros j Hj. unfold rhs_col. now rewrite Hk. }
  exact (HL i m Hi Hm).
Qed.

Variables (chunk : nat).
Hypothesis Hc : (1 <= chunk)%nat.

Theorem exact_raw cond t m : (t < kt_m Q)%nat -> meq N (mmul N Ki K) delta -> at_data_point t m ->
  aget 0 (fst (krige_raw Rops S Q Kinv cond chunk)) t = vec_of cond m /\
  aget 0 (snd (krige_raw Rops S Q Kinv cond chunk)) t = aget2 0 (ks_C S) m m + aget 0 (ks_err S) m.
Proof.
  intros Ht HL HA. pose proof (rhs_is_column t m HA) as Hk.
  assert (Hm : (m < n)%nat) by (apply HA).
  assert (HmN : (m < N)%nat) by (unfold ks_size; lia).
  assert (H0 : (0 < N)%nat) by lia.
  pose proof (lam_unit t m HL HmN Hk) as U.
  rewrite (raw_field_t S Q Kinv HN cond chunk Hc H0 t Ht), (raw_err_t S Q Kinv HN cond chunk Hc H0 t Ht).
  split.
  - rewrite (dot_ext N _ (vec_of cond) _ (fun i => delta i m) (fun _ _ => eq_refl) U).
    unfold dot. now rewrite sumf_delta_r.
  - rewrite (dot_ext N _ (rhs_col S Q t) _ (fun i => delta i m) (fun _ _ => eq_refl) U).
    unfold dot. rewrite sumf_delta_r by auto. unfold rhs_col. rewrite Hk by auto.
    unfold kmat_entry. destruct (Nat.ltb_spec m n); [|lia]. rewrite Nat.eqb_refl. reflexivity.
Qed.
End Exact.

(* the full call: conditioning value and zero variance, through normalizer, mean and trend *)
Theorem exact_at_data S Q Kinv nr dn val ctrend cmean tmean ttrend chunk t m :
  shape0 Kinv = ks_size S -> (1 <= chunk)%nat -> (t < kt_m Q)%nat ->
  meq (ks_size S) (mmul (ks_size S) (mat_of Kinv) (kmat_entry Rops S)) delta ->
  at_data_point S Q t m -> length val = ks_n S ->
  aget 0 tmean t = aget 0 cmean m -> aget 0 ttrend t = aget 0 ctrend m ->
  dn (nr (aget 0 val m - aget 0 ctrend m)) = aget 0 val m - aget 0 ctrend m ->
  aget2 0 (ks_C S) m m + aget 0 (ks_err S) m = ks_sill S ->
  let r := krige_call Rops S Q Kinv nr dn val ctrend cmean tmean ttrend chunk in
  aget 0 (fst r) t = aget 0 val m /\ aget 0 (snd r) t = 0.
Proof.
  intros HN Hc Ht HL HA Hl Hmean Htrend Hdn Hsill r.
  assert (Hm : (m < ks_n S)%nat) by (apply HA).
  assert (H0 : (0 < ks_size S)%nat) by (unfold ks_size; lia).
  set (cond := krige_cond Rops nr val ctrend cmean (ks_u S + ks_p S)).
  destruct (exact_raw S Q Kinv HN chunk Hc cond t m Ht HL HA) as [E1 E2].
  destruct (krige_raw_length S Q Kinv cond chunk Hc H0 HN) as [L1 L2].
  unfold r, krige_call. fold cond. cbn [fst snd]. split.
  - rewrite post_field_at by (now rewrite L1). rewrite E1. unfold cond. rewrite krige_cond_vec, Hl.
    destruct (Nat.ltb_spec m (ks_n S)); [|lia]. rewrite Hmean, Htrend.
    replace (nr (aget 0 val m - aget 0 ctrend m) - aget 0 cmean m + aget 0 cmean m)
      with (nr (aget 0 val m - aget 0 ctrend m)) by ring.
    rewrite Hdn. ring.
  - unfold aget in *. rewrite nth_indep with (d' := clip_var Rops (ks_sill S) 0) by (now rewrite map_length, L2).
    rewrite map_nth. rewrite E2, Hsill, clip_var_R. destruct (Rlt_dec (ks_sill S - ks_sill S) 0); lra.
Qed.

(* the returned variance is never negative: every input, every Kinv *)
Theorem variance_nonneg S Q Kinv nr dn val ctrend cmean tmean ttrend chunk :
  Forall (fun v => 0 <= v) (snd (krige_call Rops S Q Kinv nr dn val ctrend cmean tmean ttrend chunk)).
Proof.
  unfold krige_call. cbn [snd]. apply Forall_forall. intros v Hv. apply in_map_iff in Hv.
  destruct Hv as [e [<- _]]. apply clip_var_nonneg.
Qed.

(* ---- upper bound: a kriging matrix with non-negative quadratic form gives variance <= sill *)
Definition quad (n : nat) (A : mat) (v : vec) : R := dot n v (mvec n A v).

Theorem variance_le_sill S Q Kinv nr dn val ctrend cmean tmean ttrend chunk t :
  shape0 Kinv = ks_size S -> (1 <= chunk)%nat -> (0 < ks_size S)%nat -> (t < kt_m Q)%nat ->
  meq (ks_size S) (mmul (ks_size S) (kmat_entry Rops S) (mat_of Kinv)) delta ->
  (forall v, 0 <= quad (ks_size S) (kmat_entry Rops S) v) -> 0 <= ks_sill S ->
  aget 0 (snd (krige_call Rops S Q Kinv nr dn val ctrend cmean tmean ttrend chunk)) t <= ks_sill S.
Proof.
  intros HN Hc H0 Ht HR Hpsd Hs.
  set (cond := krige_cond Rops nr val ctrend cmean (ks_u S + ks_p S)).
  destruct (krige_raw_length S Q Kinv cond chunk Hc H0 HN) as [L1 L2].
  unfold krige_call. fold cond. cbn [snd].
  unfold aget. rewrite nth_indep with (d' := clip_var Rops (ks_sill S) 0) by (now rewrite map_length, L2).
  rewrite map_nth. apply clip_var_le; auto.
  change (0 <= aget 0 (snd (krige_raw Rops S Q Kinv cond chunk)) t).
  rewrite (raw_err_t S Q Kinv HN cond chunk Hc H0 t Ht).
  set (lam := lam_at S Q Kinv t).
  rewrite (dot_ext _ _ (mvec (ks_size S) (kmat_entry Rops S) lam) lam lam).
  - rewrite dot_comm. apply Hpsd.
  - intros i Hi. symmetry. now apply (lam_solves S Q Kinv t HR i Hi).
  - intros i Hi; reflexivity.
Qed.

(* simple kriging (no unbiasedness row, no drift): K = C + diag(err); a positive semi-definite covariance
   block (C02) and non-negative measurement errors give the non-negative quadratic form *)
Lemma simple_K_quad S v : ks_unb S = false -> ks_p S = 0%nat ->
  quad (ks_size S) (kmat_entry Rops S) v
  = quad (ks_n S) (mat_of (ks_C S)) v + sumf (ks_n S) (fun i => aget 0 (ks_err S) i * (v i * v i)).
Proof.
  intros Hu Hp. unfold ks_size, ks_u. rewrite Hu, Hp, !Nat.add_0_r.
  unfold quad, dot, mvec. rewrite <- sumf_plus. apply sumf_ext. intros i Hi.
  rewrite (sumf_ext (ks_n S) _ (fun k => mat_of (ks_C S) i k * v k + delta i k * (aget 0 (ks_err S) i * v k))).
  - rewrite sumf_plus, sumf_delta_l by auto. ring.
  - intros k Hk. unfold kmat_entry, mat_of.
    destruct (Nat.ltb_spec i (ks_n S)); [|lia]. destruct (Nat.ltb_spec k (ks_n S)); [|lia].
    destruct (Nat.eqb_spec i k) as [->|Hne].
    + rewrite delta_same. change (nadd Rops) with Rplus. change (n0 Rops) with 0. ring.
    + rewrite delta_diff by auto. change (n0 Rops) with 0. ring.
Qed.

Theorem simple_variance_le_sill S Q Kinv nr dn val ctrend cmean tmean ttrend chunk t :
  ks_unb S = false -> ks_p S = 0%nat ->
  shape0 Kinv = ks_size S -> (1 <= chunk)%nat -> (0 < ks_n S)%nat -> (t < kt_m Q)%nat ->
  meq (ks_size S) (mmul (ks_size S) (kmat_entry Rops S) (mat_of Kinv)) delta ->
  (forall v, 0 <= quad (ks_n S) (mat_of (ks_C S)) v) ->
  (forall i, (i < ks_n S)%nat -> 0 <= aget 0 (ks_err S) i) -> 0 <= ks_sill S ->
  aget 0 (snd (krige_call Rops S Q Kinv nr dn val ctrend cmean tmean ttrend chunk)) t <= ks_sill S.
Proof.
  intros Hu Hp HN Hc Hn Ht HR Hpsd He Hs.
  apply variance_le_sill; auto.
  - unfold ks_size. lia.
  - intros v. rewrite simple_K_quad by auto.
    assert (0 <= sumf (ks_n S) (fun i => aget 0 (ks_err S) i * (v i * v i))).
    { apply sumf_nonneg. intros k Hk. specialize (He k Hk). nra. }
    specialize (Hpsd v). lra.
Qed.

(* ---- duplicated conditioning points solved with a Moore-Penrose pseudo-inverse.
   Only two of the four Penrose equations are needed: (2) K+ K K+ = K+ and (4) (K+ K)^T = K+ K.
   If columns a and b of the kriging matrix coincide, the two points receive the same weight, so the
   estimate depends on their two data values only through the sum (they act as one point carrying the
   mean of the two values with twice the weight).  Holds for every variant (the columns include the
   unbiasedness and drift entries). *)
Section Duplicates.
Variable S : KSys R.
Variable Q : KTgt R.
Variable Kinv : list (list R).
Notation N := (ks_size S).
Notation K := (kmat_entry Rops S).
Notation Ki := (mat_of Kinv).
Hypothesis HN : shape0 Kinv = N.
Hypothesis MP2 : meq N (mmul N (mmul N Ki K) Ki) Ki.
Hypothesis MP4 : forall i j, (i < N)%nat -> (j < N)%nat -> mmul N Ki K i j = mmul N Ki K j i.

Lemma lam_fixed t : veq N (lam_at S Q Kinv t) (mvec N (mmul N Ki K) (lam_at S Q Kinv t)).
Proof.
  intros i Hi. unfold lam_at at 1.
  rewrite <- (mvec_ext N _ Ki (rhs_col S Q t) (rhs_col S Q t) MP2 (fun _ _ => eq_refl) i Hi).
  now rewrite (mvec_mmul N (mmul N Ki K) Ki (rhs_col S Q t) i Hi).
Qed.

Lemma equal_weights t a b : (a < N)%nat -> (b < N)%nat -> (forall j, (j < N)%nat -> K j a = K j b) ->
  lam_at S Q Kinv t a = lam_at S Q Kinv t b.
Proof.
  intros Ha Hb Hcol. rewrite (lam_fixed t a Ha), (lam_fixed t b Hb). unfold mvec.
  apply sumf_ext. intros l Hl. f_equal. rewrite (MP4 a l Ha Hl), (MP4 b l Hb Hl).
  unfold mmul. apply sumf_ext. intros j Hj. now rewrite Hcol.
Qed.

Variable chunk : nat.
Hypothesis Hc : (1 <= chunk)%nat.

Theorem duplicates_pinv cond cond' t a b : (t < kt_m Q)%nat -> (a < N)%nat -> (b < N)%nat -> a <> b ->
  (forall j, (j < N)%nat -> K j a = K j b) ->
  (forall i, (i < N)%nat -> i <> a -> i <> b -> vec_of cond i = vec_of cond' i) ->
  vec_of cond a + vec_of cond b = vec_of cond' a + vec_of cond' b ->
  aget 0 (fst (krige_raw Rops S Q Kinv cond chunk)) t = aget 0 (fst (krige_raw Rops S Q Kinv cond' chunk)) t.
Proof.
  intros Ht Ha Hb Hab Hcol Hrest Hsum. assert (H0 : (0 < N)%nat) by lia.
  rewrite !(raw_field_t S Q Kinv HN _ chunk Hc H0 t Ht).
  set (lam := lam_at S Q Kinv t).
  assert (E : lam a = lam b) by (now apply equal_weights).
  apply Rminus_diag_uniq. unfold dot. rewrite <- sumf_minus.
  rewrite (sumf_ext N _ (fun k => (vec_of cond k - vec_of cond' k) * lam k)) by (intros; ring).
  rewrite (sumf_two N a b) by (auto; intros k Hk Hka Hkb; rewrite Hrest by auto; ring).
  rewrite <- E. nra.
Qed.
End Duplicates.

(* ---- the cond_err guard: an ACCEPTED exact setup carries the model nugget at every point, so with the covariance
   block of a model (C_mm = var) and sill = var + nugget the "no measurement error" premise C_mm + err_m = sill of
   exact_at_data holds by construction: every accepted exact object reproduces its data with zero variance *)
Lemma accepted_exact_err exact n (nugget : R) ce e m :
  set_cond_err Rops exact n nugget ce = Some e -> exact = true -> (m < n)%nat -> aget 0 e m = nugget /\ ce = None.
Proof.
  unfold set_cond_err. destruct ce as [[sc v]|]; intros H He Hm.
  - subst exact. discriminate.
  - inversion H. split; [|reflexivity]. unfold aget.
    rewrite nth_indep with (d' := nugget) by (rewrite repeat_length; lia). apply nth_repeat.
Qed.

Theorem exact_accepted S Q Kinv nr dn val ctrend cmean tmean ttrend chunk t m (var nugget : R) ce :
  set_cond_err Rops (ks_exact S) (ks_n S) nugget ce = Some (ks_err S) -> ks_exact S = true ->
  aget2 0 (ks_C S) m m = var -> ks_sill S = var + nugget ->
  shape0 Kinv = ks_size S -> (1 <= chunk)%nat -> (t < kt_m Q)%nat ->
  meq (ks_size S) (mmul (ks_size S) (mat_of Kinv) (kmat_entry Rops S)) delta ->
  (* target t sits on conditioning point m: geometry only *)
  (m < ks_n S)%nat -> kt_only_mean Q = false ->
  (forall i, (i < ks_n S)%nat -> aget2 0 (kt_c0 Q) i t = aget2 0 (ks_C S) i m) ->
  (forall l, (l < ks_p S)%nat -> aget2 0 (kt_drifts Q) l t = aget2 0 (ks_drifts S) l m) ->
  Rabs (aget2 0 (kt_d0 Q) m t) <= 1 / 100000000 ->
  (forall i, (i < ks_n S)%nat -> i <> m -> 1 / 100000000 < Rabs (aget2 0 (kt_d0 Q) i t)) ->
  length val = ks_n S ->
  aget 0 tmean t = aget 0 cmean m -> aget 0 ttrend t = aget 0 ctrend m ->
  dn (nr (aget 0 val m - aget 0 ctrend m)) = aget 0 val m - aget 0 ctrend m ->
  let r := krige_call Rops S Q Kinv nr dn val ctrend cmean tmean ttrend chunk in
  aget 0 (fst r) t = aget 0 val m /\ aget 0 (snd r) t = 0.
Proof.
  intros Hacc Hex HC Hs HN Hc Ht HL Hm Hom Hc0 Hdr Hd0 Hsep Hl Hmean Htrend Hdn.
  destruct (accepted_exact_err _ _ _ _ _ m Hacc Hex Hm) as [Herr _].
  assert (Hz : aget2 0 (ks_C S) m m + aget 0 (ks_err S) m = ks_sill S) by (rewrite HC, Herr, Hs; reflexivity).
  apply exact_at_data; auto.
  unfold at_data_point. repeat split; auto.
  intros Hne. rewrite Hex in Hne. discriminate.
Qed.
