(* C05_Model.v — hand model of gstools.krige.base.Krige (one model for C05 and C06), generic in the
   number type.  What is modelled (krige/base.py):
     _get_krige_mat   -> krige_matrix      (covariance block + measurement error on the diagonal,
                                            unbiasedness row/column, functional then external drift
                                            blocks, zero corner); the (pseudo-)inverse is NOT modelled:
                                            it is an argument [Kinv] everywhere (LAPACK = oracle)
     _get_krige_vecs  -> rhs_matrix        (covariance / nugget-aware covariance, ones, drifts, only_mean)
     _krige_cond      -> krige_cond        (detrend, normalise, subtract mean, zero pad)
     __call__         -> krige_raw / krige_call   (chunk loop around the TRANSLATED kernels of
                                            gen/Krigesum_gen.v, max(sill - e, 0), mean/normalizer/trend)
     get_mean         -> get_mean
   Inputs that come from other parts of GSTools (covariance values, distances, drift values, trend and
   mean values) are arguments: the covariance function itself belongs to C02/C03/C13. *)
From Coq Require Import ZArith List Bool Arith Lia.
From GS Require Import Num Loops Krigesum_gen.
Import ListNotations.

Section Model.
Context {T : Type} (O : NumOps T).
Notation z := (n0 O).

(* ---------- the kriging system fixed by set_condition *)
Record KSys := mkKSys {
  ks_n : nat;                 (* cond_no *)
  ks_unb : bool;              (* unbiased *)
  ks_exact : bool;            (* exact *)
  ks_sill : T;                (* model.sill *)
  ks_C : list (list T);       (* model.covariance(dist(cond_i, cond_j)),  n x n *)
  ks_err : list T;            (* cond_err per conditioning point (scalars already broadcast) *)
  ks_Fint : list (list T);    (* drift function l at conditioning point i,  p x n *)
  ks_Fext : list (list T)     (* external drift l at conditioning point i,  q x n *)
}.

Definition ks_u (S : KSys) : nat := if ks_unb S then 1 else 0.
Definition ks_drifts (S : KSys) : list (list T) := ks_Fint S ++ ks_Fext S.
Definition ks_p (S : KSys) : nat := length (ks_drifts S).          (* drift_no *)
Definition ks_size (S : KSys) : nat := ks_n S + ks_u S + ks_p S.   (* krige_size *)

(* cond_err: "nugget"/scalar broadcast, or one value per point *)
Definition cond_err_vec (n : nat) (scalar : bool) (e : list T) : list T :=
  if scalar then repeat (aget z e 0) n else e.

(* the cond_err setter with its guard (all three routes -- constructor, set_condition(cond_err=...), the property
   setter -- end here): "nugget" (None) is always accepted and means the model nugget at every point; an explicit
   value (scalar flag, values) is REJECTED (ValueError = None) when the interpolator is exact, otherwise a single value
   is broadcast and a vector must have one entry per conditioning point *)
Definition set_cond_err (exact : bool) (n : nat) (nugget : T) (ce : option (bool * list T)) : option (list T) :=
  match ce with
  | None => Some (repeat nugget n)
  | Some (scalar, v) =>
      if exact then None
      else if scalar then Some (repeat (aget z v 0) n)
      else if length v =? n then Some v else None
  end.

Definition kmat_entry (S : KSys) (i j : nat) : T :=
  let n := ks_n S in let u := ks_u S in
  if i <? n then
    if j <? n then
      (if i =? j then nadd O (aget2 z (ks_C S) i j) (aget z (ks_err S) i) else aget2 z (ks_C S) i j)
    else if j <? n + u then n1 O
    else aget2 z (ks_drifts S) (j - n - u) i
  else if j <? n then
    (if i <? n + u then n1 O else aget2 z (ks_drifts S) (i - n - u) j)
  else z.

Definition krige_matrix (S : KSys) : list (list T) :=
  map (fun i => map (fun j => kmat_entry S i j) (seq 0 (ks_size S))) (seq 0 (ks_size S)).

(* ---------- right-hand sides *)
Record KTgt := mkKTgt {
  kt_m : nat;                 (* number of target points *)
  kt_c0 : list (list T);      (* model.covariance(dist(cond_i, target_t)),  n x m *)
  kt_d0 : list (list T);      (* dist(cond_i, target_t),  n x m *)
  kt_Gint : list (list T);    (* drift function l at target t,  p x m *)
  kt_Gext : list (list T);    (* external drift l at target t,  q x m *)
  kt_only_mean : bool
}.
Definition kt_drifts (Q : KTgt) := kt_Gint Q ++ kt_Gext Q.

(* np.isclose(r, 0) with numpy's defaults: |r| <= 1e-8 + 1e-5*0 *)
Definition isclose0 (r : T) : bool := nleb O (nabs O r) (nlit O 1 8).
(* CovModel.cov_nugget: the sill at (numerically) zero lag *)
Definition cov_nugget_at (sill r c : T) : T := if isclose0 r then sill else c.

Definition rhs_entry (S : KSys) (Q : KTgt) (i t : nat) : T :=
  let n := ks_n S in let u := ks_u S in
  if i <? n then
    if kt_only_mean Q then z
    else if ks_exact S then cov_nugget_at (ks_sill S) (aget2 z (kt_d0 Q) i t) (aget2 z (kt_c0 Q) i t)
    else aget2 z (kt_c0 Q) i t
  else if i <? n + u then n1 O
  else aget2 z (kt_drifts Q) (i - n - u) t.

(* the matrix handed to the kernel for the targets [ts] (one chunk) *)
Definition rhs_matrix (S : KSys) (Q : KTgt) (ts : list nat) : list (list T) :=
  map (fun i => map (fun t => rhs_entry S Q i t) ts) (seq 0 (ks_size S)).

(* ---------- conditioning data: detrend, normalise, subtract mean, zero pad *)
Definition krige_cond (nr : T -> T) (val trend mean : list T) (pad : nat) : list T :=
  map (fun i => nsub O (nr (nsub O (aget z val i) (aget z trend i))) (aget z mean i)) (seq 0 (length val))
  ++ repeat z pad.

(* ---------- chunk loop around the translated kernels *)
Definition ceil_div (m c : nat) : nat := (m + c - 1) / c.
Definition chunk_targets (m c i : nat) : list nat := seq (i * c) (min m ((i + 1) * c) - i * c).

Definition krige_raw (S : KSys) (Q : KTgt) (Kinv : list (list T)) (cond : list T) (chunk : nat)
  : list T * list T :=
  let parts := map (fun i => calc_field_krige_and_variance O Kinv
                                (rhs_matrix S Q (chunk_targets (kt_m Q) chunk i)) cond)
                   (seq 0 (ceil_div (kt_m Q) chunk)) in
  (concat (map fst parts), concat (map snd parts)).

Definition krige_raw_field (S : KSys) (Q : KTgt) (Kinv : list (list T)) (cond : list T) (chunk : nat)
  : list T :=
  concat (map (fun i => calc_field_krige O Kinv (rhs_matrix S Q (chunk_targets (kt_m Q) chunk i)) cond)
              (seq 0 (ceil_div (kt_m Q) chunk))).

(* np.maximum(sill - e, 0) *)
Definition clip_var (sill e : T) : T :=
  let x := nsub O sill e in if nisnan O x then x else if nltb O x z then z else x.

(* apply_mean_norm_trend: denormalize(field + mean) + trend *)
Definition post_field (dn : T -> T) (f mean trend : list T) : list T :=
  map (fun t => nadd O (dn (nadd O (aget z f t) (aget z mean t))) (aget z trend t)) (seq 0 (length f)).

Definition krige_call (S : KSys) (Q : KTgt) (Kinv : list (list T)) (nr dn : T -> T)
    (val ctrend cmean tmean ttrend : list T) (chunk : nat) : list T * list T :=
  let cond := krige_cond nr val ctrend cmean (ks_u S + ks_p S) in
  let fe := krige_raw S Q Kinv cond chunk in
  (post_field dn (fst fe) tmean ttrend, map (clip_var (ks_sill S)) (snd fe)).

(* ---------- Krige.get_mean *)
(* (definitions below; krige_call_field, the return_var=False / only_mean path, follows them) *)
Definition mean_raw (S : KSys) (Kinv : list (list T)) (cond : list T) : T :=
  if ks_unb S then
    for_ 0 (ks_size S) (fun i acc => nadd O acc (nmul O (aget z cond i) (aget2 z Kinv i (ks_n S)))) z
  else z.
Definition get_mean (S : KSys) (Kinv : list (list T)) (cond : list T) (dn : T -> T)
    (mean : T) (mean_callable post : bool) : option T :=
  let const_mean := (ks_p S =? 0) && negb mean_callable in
  if negb const_mean && (post || (0 <? ks_p S)) then None
  else let r := mean_raw S Kinv cond in Some (if post then dn (nadd O r mean) else r).

(* __call__(return_var=False) and __call__(only_mean=True): a constant mean is filled in directly *)
Definition krige_call_field (S : KSys) (Q : KTgt) (Kinv : list (list T)) (nr dn : T -> T)
    (val ctrend cmean tmean ttrend : list T) (chunk : nat) : list T :=
  let cond := krige_cond nr val ctrend cmean (ks_u S + ks_p S) in
  let f := if kt_only_mean Q && (ks_p S =? 0) then repeat (mean_raw S Kinv cond) (kt_m Q)
           else krige_raw_field S Q Kinv cond chunk in
  post_field dn f tmean ttrend.

(* ---------- the normalizers used by the executable correspondence (C18 treats them in depth) *)
Definition norm_fwd (code : nat) (lam x : T) : T :=
  match code with
  | 0 => x
  | 1 => nln O x
  | _ => ndiv O (nsub O (npow O x lam) (n1 O)) lam
  end.
Definition norm_bwd (code : nat) (lam y : T) : T :=
  match code with
  | 0 => y
  | 1 => nexp O y
  | _ => npow O (nadd O (n1 O) (nmul O y lam)) (ndiv O (n1 O) lam)
  end.

(* ---------- krige/tools.get_drift_functions: the polynomial drift basis of order k in dim coordinates:
   for d = 1..k the monomials x_{i1}*...*x_{id} with i1 <= ... <= id, in the order of
   itertools.combinations_with_replacement(range(dim), d); _f_factory evaluates ((1.0*x_{i1})*x_{i2})*... *)
Fixpoint cwr (dim k lo : nat) : list (list nat) :=
  match k with
  | 0 => [[]]
  | S k' => flat_map (fun i => map (cons i) (cwr dim k' i)) (seq lo (dim - lo))
  end.
Definition drift_selects (dim order : nat) : list (list nat) :=
  flat_map (fun d => cwr dim (S d) 0) (seq 0 order).
Definition monomial (pos : list (list T)) (sel : list nat) (t : nat) : T :=
  fold_left (fun acc i => nmul O acc (aget2 z pos i t)) sel (n1 O).
(* rows: monomial l at point t of the (dim x m) position array *)
Definition poly_drifts (dim order m : nat) (pos : list (list T)) : list (list T) :=
  map (fun sel => map (fun t => monomial pos sel t) (seq 0 m)) (drift_selects dim order).

(* ---------- structured meshes: generate_grid = cartesian product in C order *)
Fixpoint grid (axes : list (list T)) : list (list T) :=
  match axes with
  | [] => [[]]
  | a :: rest => flat_map (fun x => map (fun p => x :: p) (grid rest)) a
  end.
End Model.

Arguments KSys : clear implicits. Arguments KTgt : clear implicits.
Arguments mkKSys {T}. Arguments mkKTgt {T}.
Arguments ks_n {T}. Arguments ks_unb {T}. Arguments ks_exact {T}. Arguments ks_sill {T}.
Arguments ks_C {T}. Arguments ks_err {T}. Arguments ks_Fint {T}. Arguments ks_Fext {T}.
Arguments kt_m {T}. Arguments kt_c0 {T}. Arguments kt_d0 {T}. Arguments kt_Gint {T}.
Arguments kt_Gext {T}. Arguments kt_only_mean {T}.
Arguments ks_u {T}. Arguments ks_drifts {T}. Arguments ks_p {T}. Arguments ks_size {T}.
Arguments kt_drifts {T}. Arguments grid {T}.
