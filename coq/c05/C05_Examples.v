(* C05_Examples.v — the hypotheses of the C05/C06 theorems are satisfiable: a concrete ordinary-kriging
   system with two conditioning points (covariance 1 at lag 0, 1/2 between the points), its exact
   inverse, a target on conditioning point 0, and a duplicated-point system with its Moore-Penrose
   pseudo-inverse. *)
From Coq Require Import Reals Lra Lia Arith List Bool ZArith.
From GS Require Import Num Loops Krigesum_gen C05_Mat C05_RInst C05_Model C05_Proofs C06_Proofs.
Import ListNotations.
Local Open Scope R_scope.

Definition S_ex : KSys R := mkKSys 2 true false 1 [[1; 1/2]; [1/2; 1]] [0; 0] [] [].
Definition Kinv_ex : list (list R) := [[1; -1; 1/2]; [-1; 1; 1/2]; [1/2; 1/2; -3/4]].
(* two targets: target 0 sits on conditioning point 0, target 1 on conditioning point 1 *)
Definition Q_ex : KTgt R := mkKTgt 2 [[1; 1/2]; [1/2; 1]] [[0; 1]; [1; 0]] [] [] false.

Ltac three i := destruct i as [|[|[|i]]]; try lia.

Example ex_size : ks_size S_ex = 3%nat /\ shape0 Kinv_ex = ks_size S_ex.
Proof. split; reflexivity. Qed.

Example ex_inverse :
  meq (ks_size S_ex) (mmul (ks_size S_ex) (kmat_entry Rops S_ex) (mat_of Kinv_ex)) delta /\
  meq (ks_size S_ex) (mmul (ks_size S_ex) (mat_of Kinv_ex) (kmat_entry Rops S_ex)) delta.
Proof.
  split; intros i j Hi Hj; change (ks_size S_ex) with 3%nat in *; three i; three j;
    unfold mmul, delta, mat_of, kmat_entry, aget2, arow, aget; simpl; lra.
Qed.

Example ex_at_data_point : at_data_point S_ex Q_ex 0 0.
Proof.
  unfold at_data_point. simpl. repeat split; try lia; try discriminate.
  all: intros i Hi; destruct i as [|[|i]]; try lia; reflexivity.
Qed.

(* the non-negative quadratic form of C06_simple_variance_le_sill *)
Example ex_quad_nonneg : forall v : vec, 0 <= quad 2 (mat_of [[1; 1/2]; [1/2; 1]]) v.
Proof.
  intros v. unfold quad, dot, mvec, mat_of, aget2, arow, aget. simpl.
  assert (0 <= (v 0%nat + v 1%nat / 2) * (v 0%nat + v 1%nat / 2) + 3 / 4 * (v 1%nat * v 1%nat)) by nra. nra.
Qed.

(* targets: any target set is related to itself by the identity map *)
Example ex_tgt_related : tgt_cols_related Rops S_ex Q_ex Q_ex (fun t => t).
Proof. split; [reflexivity|]. intros t Ht. split; auto. Qed.

(* swapping the two conditioning points of S_ex: the system is mapped to itself, the right-hand side of
   target 0 to that of target 1 *)
Definition swap01 (i : nat) : nat := match i with 0%nat => 1%nat | 1%nat => 0%nat | _ => i end.
Example ex_cond_perm :
  (forall i, (i < 3)%nat -> (swap01 i < 3)%nat /\ (swap01 i < 3)%nat /\ swap01 (swap01 i) = i /\ swap01 (swap01 i) = i) /\
  (forall i j, (i < 3)%nat -> (j < 3)%nat -> kmat_entry Rops S_ex (swap01 i) (swap01 j) = kmat_entry Rops S_ex i j) /\
  (forall i, (i < 3)%nat -> rhs_entry Rops S_ex Q_ex (swap01 i) 1 = rhs_entry Rops S_ex Q_ex i 0).
Proof.
  split; [|split].
  - intros i Hi. three i; simpl; repeat split; lia.
  - intros i j Hi Hj. three i; three j; reflexivity.
  - intros i Hi. three i; reflexivity.
Qed.

(* duplicated conditioning points: simple kriging with two coincident points, K = [[1,1],[1,1]],
   K+ = [[1/4,1/4],[1/4,1/4]] satisfies Penrose (2) and (4), and the two columns of K coincide *)
Definition S_dup : KSys R := mkKSys 2 false false 1 [[1; 1]; [1; 1]] [0; 0] [] [].
Definition Kpinv_dup : list (list R) := [[1/4; 1/4]; [1/4; 1/4]].
Example ex_duplicates :
  let N := ks_size S_dup in let K := kmat_entry Rops S_dup in let Ki := mat_of Kpinv_dup in
  meq N (mmul N (mmul N Ki K) Ki) Ki /\
  (forall i j, (i < N)%nat -> (j < N)%nat -> mmul N Ki K i j = mmul N Ki K j i) /\
  (forall j, (j < N)%nat -> K j 0%nat = K j 1%nat) /\
  ~ (exists M : mat, meq N (mmul N K M) delta).
Proof.
  cbv zeta. change (ks_size S_dup) with 2%nat. repeat split.
  - intros i j Hi Hj. destruct i as [|[|i]]; try lia; destruct j as [|[|j]]; try lia;
      unfold mmul, mat_of, kmat_entry, aget2, arow, aget; simpl; lra.
  - intros i j Hi Hj. destruct i as [|[|i]]; try lia; destruct j as [|[|j]]; try lia;
      unfold mmul, mat_of, kmat_entry, aget2, arow, aget; simpl; lra.
  - intros j Hj. destruct j as [|[|j]]; try lia; unfold kmat_entry, aget2, arow, aget; simpl; lra.
  - intros [M HM].
    pose proof (HM 0%nat 0%nat ltac:(lia) ltac:(lia)) as A. pose proof (HM 1%nat 0%nat ltac:(lia) ltac:(lia)) as B.
    unfold mmul, delta, kmat_entry, aget2, arow, aget in A, B. simpl in A, B. lra.
Qed.

(* the concrete reordering relation is satisfiable: the two points of S_ex swapped, target 0 of Q_ex
   becomes target 1, data [3; 5] become [5; 3] *)
Example ex_cond_reordered : cond_reordered S_ex S_ex Q_ex Q_ex [3; 5; 0] [5; 3; 0] swap01 swap01 0 1.
Proof.
  unfold cond_reordered. simpl. repeat split; try lia.
  all: try (intros i Hi; destruct i as [|[|i]]; try lia; simpl; repeat split; lia).
  all: try (intros i j Hi Hj; destruct i as [|[|i]]; try lia; destruct j as [|[|j]]; try lia; reflexivity).
  all: try (intros i Hi; destruct i as [|[|[|i]]]; try lia; reflexivity).
  all: try (intros l i Hl; lia).
  all: try (intros l Hl; lia).
  all: destruct i as [|[|i]]; try lia; try reflexivity; simpl; lia.
Qed.

(* the cond_err guard: "nugget" accepted in exact mode; explicit values -- zeros included -- rejected in exact mode and
   accepted (broadcast) otherwise *)
Example ex_cond_err_guard :
  set_cond_err Rops true 2 (1/2) None = Some [1/2; 1/2] /\
  set_cond_err Rops true 2 (1/2) (Some (false, [0; 0])) = None /\
  set_cond_err Rops true 2 (1/2) (Some (true, [0])) = None /\
  set_cond_err Rops false 2 (1/2) (Some (true, [1/10])) = Some [1/10; 1/10] /\
  set_cond_err Rops false 2 (1/2) (Some (false, [1/10; 0; 0])) = None.
Proof. repeat split; reflexivity. Qed.
