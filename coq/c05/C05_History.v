(* C05_History.v — one Krige object as a state machine: what is cached (_krige_pos, _krige_mat) and when it is
   recomputed.  Version counters stand for the present values of the model parameters, of the conditions
   (positions, values, measurement errors, external drift values, drift functions) and of mean / trend /
   normalizer; the cached quantities remember the versions they were computed from.  A call returns a function of
   (cached versions, present model for the targets' side, present post-processing settings, target set); a FRESH
   object built from the present settings returns the same function of the present versions.
   Theorem: in every history, each call that is not preceded by an un-refreshed in-place edit (model attribute
   changed in place or set_drift_functions without the documented set_condition() / model re-assignment) returns
   exactly what the fresh object returns, whatever happened before (other calls, other target sets, return_var,
   setters).  The implementation is compared with this on random histories (harness: probe_update_sequence). *)
From Coq Require Import List Arith Lia Bool.
Import ListNotations.

Record KState := mkKState {
  cur_model : nat; cur_cond : nat; cur_post : nat;
  pos_model : nat; pos_cond : nat;          (* versions _krige_pos was computed from *)
  mat_model : nat; mat_cond : nat;          (* versions _krige_mat was computed from *)
  tgt : nat                                  (* stored target positions *)
}.

Inductive Op :=
| EditModel                     (* krige.model.anis = ... etc., in place *)
| SetDrift                      (* set_drift_functions(...) *)
| SetCondition (newdata : bool) (* set_condition(...) with or without new positions / values / errors *)
| AssignModel (changed : bool)  (* krige.model = m  (another model, or the same object again) *)
| SetPost                       (* krige.mean = / krige.trend = / krige.normalizer = *)
| Call (target : option nat) (return_var : bool).   (* krige(pos) or krige() on the stored positions *)

Definition refresh (s : KState) : KState :=
  mkKState (cur_model s) (cur_cond s) (cur_post s) (cur_model s) (cur_cond s) (cur_model s) (cur_cond s) (tgt s).

(* what a call computes from: (krige_pos versions, krige_mat versions, model used for the targets, post settings, targets) *)
Definition Out := (nat * nat * nat * nat * nat * nat * nat)%type.
Definition observed (s : KState) (t : nat) : Out :=
  (pos_model s, pos_cond s, mat_model s, mat_cond s, cur_model s, cur_post s, t).
Definition fresh (s : KState) (t : nat) : Out :=
  (cur_model s, cur_cond s, cur_model s, cur_cond s, cur_model s, cur_post s, t).

Definition step (s : KState) (o : Op) : KState * option (Out * Out) :=
  match o with
  | EditModel => (mkKState (S (cur_model s)) (cur_cond s) (cur_post s) (pos_model s) (pos_cond s) (mat_model s) (mat_cond s) (tgt s), None)
  | SetDrift => (mkKState (cur_model s) (S (cur_cond s)) (cur_post s) (pos_model s) (pos_cond s) (mat_model s) (mat_cond s) (tgt s), None)
  | SetCondition b =>
      (refresh (mkKState (cur_model s) (if b then S (cur_cond s) else cur_cond s) (cur_post s)
                         (pos_model s) (pos_cond s) (mat_model s) (mat_cond s) (tgt s)), None)
  | AssignModel b =>
      (refresh (mkKState (if b then S (cur_model s) else cur_model s) (cur_cond s) (cur_post s)
                         (pos_model s) (pos_cond s) (mat_model s) (mat_cond s) (tgt s)), None)
  | SetPost => (mkKState (cur_model s) (cur_cond s) (S (cur_post s)) (pos_model s) (pos_cond s) (mat_model s) (mat_cond s) (tgt s), None)
  | Call t _ =>
      let t' := match t with Some x => x | None => tgt s end in
      let s' := mkKState (cur_model s) (cur_cond s) (cur_post s) (pos_model s) (pos_cond s) (mat_model s) (mat_cond s) t' in
      (s', Some (observed s' t', fresh s' t'))
  end.

(* un-refreshed in-place edit pending? *)
Definition dirty_step (d : bool) (o : Op) : bool :=
  match o with
  | EditModel | SetDrift => true
  | SetCondition _ | AssignModel _ => false
  | SetPost | Call _ _ => d
  end.

Definition coherent (s : KState) : Prop :=
  pos_model s = cur_model s /\ pos_cond s = cur_cond s /\ mat_model s = cur_model s /\ mat_cond s = cur_cond s.

(* the run: list of (observed, fresh, dirty-at-that-moment) for every call of the history *)
Fixpoint run (s : KState) (d : bool) (ops : list Op) : list (Out * Out * bool) :=
  match ops with
  | [] => []
  | o :: rest =>
      let '(s', out) := step s o in
      let d' := dirty_step d o in
      match out with
      | Some (a, b) => (a, b, d') :: run s' d' rest
      | None => run s' d' rest
      end
  end.

Lemma step_invariant s d o : (d = false -> coherent s) -> (dirty_step d o = false -> coherent (fst (step s o))).
Proof.
  intros H Hd. destruct o; simpl in Hd; try discriminate; unfold coherent; simpl; auto.
  all: destruct (H Hd) as (A & B & C0 & D); auto.
Qed.

Lemma step_call_output s d t rv : (d = false -> coherent s) ->
  forall a b, snd (step s (Call t rv)) = Some (a, b) -> d = false -> a = b.
Proof.
  intros H a b E Hd. destruct (H Hd) as (A & B & C0 & D). simpl in E. inversion E.
  unfold observed, fresh. simpl. now rewrite A, B, C0, D.
Qed.

Theorem history_coherent : forall ops s d, (d = false -> coherent s) ->
  Forall (fun r => snd r = false -> fst (fst r) = snd (fst r)) (run s d ops).
Proof.
  induction ops as [|o ops IH]; intros s d H; simpl; [constructor|].
  pose proof (step_invariant s d o H) as Hinv.
  destruct (step s o) as [s' out] eqn:E. simpl in Hinv.
  destruct out as [[a b]|].
  - constructor.
    + simpl. intros Hd. destruct o; simpl in E; try discriminate.
      assert (d = false) by exact Hd.
      eapply (step_call_output s d target return_var H a b); auto. simpl. inversion E. reflexivity.
    + apply IH. exact Hinv.
  - apply IH. exact Hinv.
Qed.

(* a freshly constructed object is coherent: the constructor ends with set_condition *)
Definition init (t : nat) : KState := mkKState 0 0 0 0 0 0 0 t.
Corollary history_from_construction ops t :
  Forall (fun r => snd r = false -> fst (fst r) = snd (fst r)) (run (init t) false ops).
Proof. apply history_coherent. intros _. repeat split. Qed.

(* non-vacuity: an in-place edit WITHOUT refresh is observable (the premise "not dirty" cannot be dropped), and the
   documented refresh repairs it *)
Example stale_without_refresh :
  run (init 0) false [EditModel; Call (Some 1) true] = [((0, 0, 0, 0, 1, 0, 1), (1, 0, 1, 0, 1, 0, 1), true)].
Proof. reflexivity. Qed.
Example refreshed_history :
  run (init 0) false [Call (Some 1) true; EditModel; SetCondition false; SetPost; Call None false; AssignModel false; Call (Some 2) true]
  = [((0, 0, 0, 0, 0, 0, 1), (0, 0, 0, 0, 0, 0, 1), false);
     ((1, 0, 1, 0, 1, 1, 1), (1, 0, 1, 0, 1, 1, 1), false);
     ((1, 0, 1, 0, 1, 1, 2), (1, 0, 1, 0, 1, 1, 2), false)].
Proof. reflexivity. Qed.
