(* C05_Proofs.v — proofs about the kriging model (C05_Model.v).
   Part A (generic number type): the chunk loop around the translated kernels returns, for target t,
     a value that depends on column t of the right-hand side only: chunk independence, target
     permutation equivariance, mesh expansion.
   Part B (R): the returned values are d.lambda and k.lambda with K lambda = k; linearity, reproduction
     of constants and drifts, invariance under permutation of the conditioning points. *)
From Coq Require Import Reals Lra Lia Arith List Bool Permutation ZArith Sorted.
From GS Require Import Num Loops Krigesum_gen C15_KernelSpec C15_SummatorProofs C05_Mat C05_RInst C05_Model.
Import ListNotations.

(* ====================================================================== Part A: generic *)
Section Generic.
Context {T : Type} (O : NumOps T).
Notation z := (n0 O).

Lemma nth_map_seq {A} (d : A) (f : nat -> A) n i : i < n -> nth i (map f (seq 0 n)) d = f i.
Proof. intros H. exact (aget_map_seq d f n i H). Qed.

Lemma map_nth_seq {A B} (d : A) (g : A -> B) (l : list A) :
  map (fun k => g (nth k l d)) (seq 0 (length l)) = map g l.
Proof.
  induction l as [|a l IH]; simpl; auto. f_equal. rewrite <- seq_shift, map_map. exact IH.
Qed.

(* entries of the assembled matrix and of a right-hand side block *)
Lemma krige_matrix_entries (S : KSys T) i j : i < ks_size S -> j < ks_size S ->
  aget2 z (krige_matrix O S) i j = kmat_entry O S i j.
Proof.
  intros Hi Hj. unfold aget2, arow, krige_matrix. rewrite (nth_map_seq [] _ _ i Hi).
  exact (aget_map_seq z _ _ j Hj).
Qed.
Lemma krige_matrix_shape (S : KSys T) : length (krige_matrix O S) = ks_size S.
Proof. unfold krige_matrix. now rewrite map_length, seq_length. Qed.

Lemma rhs_matrix_entries (S : KSys T) (Q : KTgt T) ts i k : i < ks_size S -> k < length ts ->
  aget2 z (rhs_matrix O S Q ts) i k = rhs_entry O S Q i (nth k ts 0).
Proof.
  intros Hi Hk. unfold aget2, arow, rhs_matrix. rewrite (nth_map_seq [] _ _ i Hi).
  unfold aget. rewrite nth_indep with (d' := rhs_entry O S Q i 0) by (now rewrite map_length).
  now rewrite map_nth.
Qed.
Lemma rhs_matrix_shape1 (S : KSys T) (Q : KTgt T) ts : 0 < ks_size S -> shape1 (rhs_matrix O S Q ts) = length ts.
Proof.
  intros H. unfold shape1, rhs_matrix. rewrite (nth_map_seq [] _ _ 0 H). now rewrite map_length.
Qed.

(* the value the implementation returns for target t: inner products with  Kinv * (column t) *)
Definition fac_at (S : KSys T) (Q : KTgt T) (Kinv : list (list T)) (i t : nat) : T :=
  for_ 0 (shape0 Kinv) (fun j acc => nadd O acc (nmul O (aget2 z Kinv i j) (rhs_entry O S Q j t))) z.
Definition field_at (S : KSys T) (Q : KTgt T) Kinv (cond : list T) (t : nat) : T :=
  for_ 0 (shape0 Kinv) (fun i acc => nadd O acc (nmul O (aget z cond i) (fac_at S Q Kinv i t))) z.
Definition err_at (S : KSys T) (Q : KTgt T) Kinv (t : nat) : T :=
  for_ 0 (shape0 Kinv) (fun i acc => nadd O acc (nmul O (rhs_entry O S Q i t) (fac_at S Q Kinv i t))) z.

Lemma fac_of_rhs S Q Kinv ts i k : shape0 Kinv = ks_size S -> k < length ts ->
  krig_fac_of O Kinv (rhs_matrix O S Q ts) i k = fac_at S Q Kinv i (nth k ts 0).
Proof.
  intros HN Hk. unfold krig_fac_of, fac_at. apply for_ext. intros j acc Hj.
  rewrite rhs_matrix_entries by (auto; lia). reflexivity.
Qed.

Lemma field_spec_rhs S Q Kinv cond ts : 0 < ks_size S -> shape0 Kinv = ks_size S ->
  krige_field_spec O Kinv (rhs_matrix O S Q ts) cond = map (field_at S Q Kinv cond) ts.
Proof.
  intros H0 HN. unfold krige_field_spec. rewrite rhs_matrix_shape1 by auto.
  rewrite <- (map_nth_seq 0 (field_at S Q Kinv cond) ts).
  apply map_ext_in. intros k Hk. apply in_seq in Hk.
  unfold krige_field_point, field_at. apply for_ext. intros i acc Hi.
  rewrite fac_of_rhs by (auto; lia). reflexivity.
Qed.
Lemma error_spec_rhs S Q Kinv ts : 0 < ks_size S -> shape0 Kinv = ks_size S ->
  krige_error_spec O Kinv (rhs_matrix O S Q ts) = map (err_at S Q Kinv) ts.
Proof.
  intros H0 HN. unfold krige_error_spec. rewrite rhs_matrix_shape1 by auto.
  rewrite <- (map_nth_seq 0 (err_at S Q Kinv) ts).
  apply map_ext_in. intros k Hk. apply in_seq in Hk.
  unfold krige_error_point, err_at. apply for_ext. intros i acc Hi.
  rewrite fac_of_rhs, rhs_matrix_entries by (auto; lia). reflexivity.
Qed.

(* ---- the chunks tile the target range *)
Lemma chunks_prefix m c k : concat (map (chunk_targets m c) (seq 0 k)) = seq 0 (min m (k * c)).
Proof.
  induction k as [|k IH]. { simpl. now rewrite Nat.min_0_r. }
  rewrite seq_S, map_app, concat_app, IH. simpl. rewrite app_nil_r. unfold chunk_targets.
  replace ((k + 1) * c) with (k * c + c) by lia.
  destruct (le_lt_dec m (k * c)) as [Hle|Hlt].
  - rewrite !Nat.min_l by lia. replace (m - k * c) with 0 by lia. simpl. now rewrite app_nil_r.
  - rewrite (Nat.min_r m (k * c)) by lia.
    set (r := min m (k * c + c) - k * c).
    assert (E : min m (c + k * c) = k * c + r) by (unfold r; lia).
    rewrite E, seq_app. reflexivity.
Qed.
Lemma ceil_div_covers m c : 1 <= c -> m <= ceil_div m c * c.
Proof.
  intros Hc. unfold ceil_div. pose proof (Nat.mul_succ_div_gt (m + c - 1) c ltac:(lia)) as H.
  rewrite Nat.mul_succ_r in H. rewrite Nat.mul_comm. lia.
Qed.
Lemma chunks_cover m c : 1 <= c -> concat (map (chunk_targets m c) (seq 0 (ceil_div m c))) = seq 0 m.
Proof. intros Hc. rewrite chunks_prefix. f_equal. pose proof (ceil_div_covers m c Hc). lia. Qed.

Lemma concat_map_map {A B} (g : A -> B) (ls : list (list A)) : concat (map (map g) ls) = map g (concat ls).
Proof. now rewrite concat_map. Qed.

(* MAIN generic statement: whatever the chunk size, target t receives field_at t / err_at t *)
Theorem krige_raw_pointwise S Q Kinv cond chunk : 1 <= chunk -> 0 < ks_size S -> shape0 Kinv = ks_size S ->
  krige_raw O S Q Kinv cond chunk
  = (map (field_at S Q Kinv cond) (seq 0 (kt_m Q)), map (err_at S Q Kinv) (seq 0 (kt_m Q))).
Proof.
  intros Hc H0 HN. unfold krige_raw. rewrite !map_map.
  rewrite (map_ext _ (fun i => map (field_at S Q Kinv cond) (chunk_targets (kt_m Q) chunk i))).
  2:{ intros i. rewrite krige_var_refines. simpl. now apply field_spec_rhs. }
  rewrite (map_ext (fun i => snd _) (fun i => map (err_at S Q Kinv) (chunk_targets (kt_m Q) chunk i))).
  2:{ intros i. rewrite krige_var_refines. simpl. now apply error_spec_rhs. }
  rewrite <- !(map_map (chunk_targets (kt_m Q) chunk)), !concat_map_map, chunks_cover by auto. reflexivity.
Qed.
Theorem krige_raw_field_pointwise S Q Kinv cond chunk : 1 <= chunk -> 0 < ks_size S -> shape0 Kinv = ks_size S ->
  krige_raw_field O S Q Kinv cond chunk = map (field_at S Q Kinv cond) (seq 0 (kt_m Q)).
Proof.
  intros Hc H0 HN. unfold krige_raw_field.
  rewrite (map_ext _ (fun i => map (field_at S Q Kinv cond) (chunk_targets (kt_m Q) chunk i))).
  2:{ intros i. rewrite krige_refines. now apply field_spec_rhs. }
  rewrite <- (map_map (chunk_targets (kt_m Q) chunk)), concat_map_map, chunks_cover by auto. reflexivity.
Qed.

(* chunk independence *)
Theorem chunk_independent S Q Kinv cond c1 c2 : 1 <= c1 -> 1 <= c2 -> 0 < ks_size S -> shape0 Kinv = ks_size S ->
  krige_raw O S Q Kinv cond c1 = krige_raw O S Q Kinv cond c2 /\
  krige_raw_field O S Q Kinv cond c1 = fst (krige_raw O S Q Kinv cond c2).
Proof.
  intros. split.
  - now rewrite !krige_raw_pointwise.
  - now rewrite krige_raw_field_pointwise, krige_raw_pointwise.
Qed.

(* the value at a target depends on the target's own column only: two target sets whose columns are
   related by ANY index map s (a permutation, a selection, a repetition) give related results *)
Definition tgt_cols_related (S : KSys T) (Q Q' : KTgt T) (s : nat -> nat) : Prop :=
  kt_only_mean Q' = kt_only_mean Q /\
  forall t, t < kt_m Q' -> s t < kt_m Q /\
    forall i, i < ks_size S -> rhs_entry O S Q' i t = rhs_entry O S Q i (s t).

Theorem target_map_equivariant S Q Q' s Kinv cond c c' :
  1 <= c -> 1 <= c' -> 0 < ks_size S -> shape0 Kinv = ks_size S -> tgt_cols_related S Q Q' s ->
  forall t, t < kt_m Q' ->
    aget z (fst (krige_raw O S Q' Kinv cond c')) t = aget z (fst (krige_raw O S Q Kinv cond c)) (s t) /\
    aget z (snd (krige_raw O S Q' Kinv cond c')) t = aget z (snd (krige_raw O S Q Kinv cond c)) (s t).
Proof.
  intros Hc Hc' H0 HN [_ R] t Ht. destruct (R t Ht) as [Hs E].
  rewrite !krige_raw_pointwise by auto. simpl.
  rewrite !(aget_map_seq z) by auto.
  assert (F : forall i, i < ks_size S -> fac_at S Q' Kinv i t = fac_at S Q Kinv i (s t)).
  { intros i Hi. unfold fac_at. apply for_ext. intros j acc Hj. rewrite E by lia. reflexivity. }
  split.
  - unfold field_at. apply for_ext. intros i acc Hi. rewrite F by lia. reflexivity.
  - unfold err_at. apply for_ext. intros i acc Hi. rewrite F, E by lia. reflexivity.
Qed.

(* ---- structured meshes: generate_grid lists the cartesian product in C order, so the value stored at
   multi-index (i, rest) of a structured result is the value of the point (x_i, p_rest) *)
Lemma grid_length (axes : list (list T)) : length (grid axes) = fold_right (fun a acc => length a * acc) 1 axes.
Proof.
  induction axes as [|a rest IH]; simpl; auto.
  rewrite <- IH. generalize (grid rest) as g. intros g. induction a as [|x a IHa]; simpl; auto.
  rewrite app_length, map_length, IHa. reflexivity.
Qed.
Lemma grid_index (a : list T) (rest : list (list T)) i j d0 :
  i < length a -> j < length (grid rest) ->
  nth (i * length (grid rest) + j) (grid (a :: rest)) [] = nth i a d0 :: nth j (grid rest) [].
Proof.
  simpl. generalize (grid rest) as g. intros g. revert i. induction a as [|x a IH]; intros i Hi Hj; simpl in *; [lia|].
  destruct i as [|i].
  - simpl. rewrite app_nth1 by (now rewrite map_length).
    rewrite nth_indep with (d' := x :: []) by (now rewrite map_length).
    now rewrite (map_nth (fun p => x :: p) g [] j).
  - rewrite app_nth2 by (rewrite map_length; simpl; lia). rewrite map_length.
    replace (S i * length g + j - length g) with (i * length g + j) by (simpl; lia).
    apply IH; auto; lia.
Qed.
End Generic.

(* ---- the polynomial drift basis (get_drift_functions with "linear" / "quadratic" / an integer order):
   exactly the monomials of degree 1..order with non-decreasing coordinate indices below dim *)
Lemma cwr_spec dim k lo sel : In sel (cwr dim k lo) ->
  length sel = k /\ Forall (fun i => lo <= i < dim) sel /\ Sorted.StronglySorted le sel.
Proof.
  revert lo sel. induction k as [|k IH]; intros lo sel H; simpl in H.
  - destruct H as [<-|[]]. repeat split; constructor.
  - apply in_flat_map in H. destruct H as [i [Hi H]]. apply in_seq in Hi.
    apply in_map_iff in H. destruct H as [r [<- Hr]]. destruct (IH i r Hr) as (L & B & So).
    repeat split.
    + simpl. now rewrite L.
    + constructor; [lia|]. eapply Forall_impl; [|exact B]. simpl. intros a Ha. lia.
    + constructor; auto. eapply Forall_impl; [|exact B]. simpl. intros a Ha. lia.
Qed.
Theorem drift_basis_spec dim order sel : In sel (drift_selects dim order) ->
  1 <= length sel <= order /\ Forall (fun i => i < dim) sel /\ Sorted.StronglySorted le sel.
Proof.
  unfold drift_selects. intros H. apply in_flat_map in H. destruct H as [d [Hd H]]. apply in_seq in Hd.
  destruct (cwr_spec dim (S d) 0 sel H) as (L & B & So). repeat split; auto; try lia.
  eapply Forall_impl; [|exact B]. simpl. intros a Ha. lia.
Qed.
Example drift_basis_quadratic_2d : drift_selects 2 2 = [[0]; [1]; [0; 0]; [0; 1]; [1; 1]].
Proof. reflexivity. Qed.
Example drift_basis_cubic_1d : drift_selects 1 3 = [[0]; [0; 0]; [0; 0; 0]].
Proof. reflexivity. Qed.
Example drift_basis_count_3d : length (drift_selects 3 2) = 9 /\ length (drift_selects 2 3) = 9.
Proof. split; reflexivity. Qed.

(* ====================================================================== Part B: over R *)
Open Scope R_scope.

Definition mat_of (l : list (list R)) : mat := fun i j => aget2 0 l i j.
Definition vec_of (l : list R) : vec := fun i => aget 0 l i.

Lemma for_sumf n (f : nat -> R) : for_ 0 n (fun i acc => acc + f i) 0 = sumf n f.
Proof.
  unfold for_. rewrite Nat.sub_0_r. induction n; [reflexivity|].
  rewrite seq_S, fold_left_app. simpl. now rewrite IHn.
Qed.

Section Real.
Variable S : KSys R.
Variable Q : KTgt R.
Variable Kinv : list (list R).
Let N := ks_size S.
Let K : mat := kmat_entry Rops S.
Let Ki : mat := mat_of Kinv.
Definition rhs_col (t : nat) : vec := fun i => rhs_entry Rops S Q i t.
(* the weights the implementation uses for target t *)
Definition lam_at (t : nat) : vec := mvec N Ki (rhs_col t).

Hypothesis HN : shape0 Kinv = N.

Lemma fac_at_R i t : fac_at Rops S Q Kinv i t = lam_at t i.
Proof. unfold fac_at, lam_at, mvec. rewrite HN. exact (for_sumf N _). Qed.
Lemma field_at_R cond t : field_at Rops S Q Kinv cond t = dot N (vec_of cond) (lam_at t).
Proof.
  unfold field_at, dot. rewrite HN.
  rewrite <- (for_sumf N (fun i => vec_of cond i * lam_at t i)).
  apply for_ext. intros i acc _. simpl. now rewrite fac_at_R.
Qed.
Lemma err_at_R t : err_at Rops S Q Kinv t = dot N (rhs_col t) (lam_at t).
Proof.
  unfold err_at, dot. rewrite HN.
  rewrite <- (for_sumf N (fun i => rhs_col t i * lam_at t i)).
  apply for_ext. intros i acc _. simpl. now rewrite fac_at_R.
Qed.

(* K Kinv = I : the weights solve the kriging system *)
Lemma lam_solves t : meq N (mmul N K Ki) delta -> veq N (mvec N K (lam_at t)) (rhs_col t).
Proof.
  intros H i Hi. unfold lam_at.
  rewrite <- (mvec_mmul N K Ki (rhs_col t) i Hi).
  rewrite (mvec_ext N _ delta (rhs_col t) (rhs_col t) H (fun _ _ => eq_refl) i Hi).
  now apply mvec_delta.
Qed.
(* Kinv K = I : every solution of the system is the one the implementation uses *)
Lemma lam_unique t mu : meq N (mmul N Ki K) delta -> veq N (mvec N K mu) (rhs_col t) -> veq N (lam_at t) mu.
Proof.
  intros H Hmu i Hi. unfold lam_at.
  rewrite (mvec_ext N Ki Ki (rhs_col t) (mvec N K mu) (fun _ _ _ _ => eq_refl) (fun j Hj => eq_sym (Hmu j Hj)) i Hi).
  rewrite <- (mvec_mmul N Ki K mu i Hi).
  rewrite (mvec_ext N _ delta mu mu H (fun _ _ => eq_refl) i Hi).
  now apply mvec_delta.
Qed.

Section Call.
Variables (cond : list R) (chunk : nat).
Hypothesis Hc : (1 <= chunk)%nat.
Hypothesis H0 : (0 < N)%nat.

Lemma raw_field_t t : (t < kt_m Q)%nat ->
  aget 0 (fst (krige_raw Rops S Q Kinv cond chunk)) t = dot N (vec_of cond) (lam_at t).
Proof.
  intros Ht. rewrite (krige_raw_pointwise Rops S Q Kinv cond chunk Hc H0 HN). simpl.
  rewrite (aget_map_seq 0) by auto. apply field_at_R.
Qed.
Lemma raw_err_t t : (t < kt_m Q)%nat ->
  aget 0 (snd (krige_raw Rops S Q Kinv cond chunk)) t = dot N (rhs_col t) (lam_at t).
Proof.
  intros Ht. rewrite (krige_raw_pointwise Rops S Q Kinv cond chunk Hc H0 HN). simpl.
  rewrite (aget_map_seq 0) by auto. apply err_at_R.
Qed.

Theorem solves_system t : (t < kt_m Q)%nat -> meq N (mmul N K Ki) delta ->
  exists lam : vec,
    veq N (mvec N K lam) (rhs_col t) /\
    aget 0 (fst (krige_raw Rops S Q Kinv cond chunk)) t = dot N (vec_of cond) lam /\
    aget 0 (snd (krige_raw Rops S Q Kinv cond chunk)) t = dot N (rhs_col t) lam /\
    (meq N (mmul N Ki K) delta -> forall mu, veq N (mvec N K mu) (rhs_col t) ->
       aget 0 (fst (krige_raw Rops S Q Kinv cond chunk)) t = dot N (vec_of cond) mu /\
       aget 0 (snd (krige_raw Rops S Q Kinv cond chunk)) t = dot N (rhs_col t) mu).
Proof.
  intros Ht HR. exists (lam_at t). split; [now apply lam_solves|]. split; [now apply raw_field_t|].
  split; [now apply raw_err_t|]. intros HL mu Hmu.
  pose proof (lam_unique t mu HL Hmu) as E. rewrite raw_field_t, raw_err_t by auto.
  split; apply dot_ext; auto; intros i Hi; reflexivity.
Qed.
End Call.
End Real.

(* ---------------------------------------------------------------- consequences *)
Lemma size_unb (S : KSys R) : ks_unb S = true -> (ks_n S < ks_size S)%nat.
Proof. intros Hu. unfold ks_size, ks_u. rewrite Hu. lia. Qed.

Section Consequences.
Variable S : KSys R.
Variable Q : KTgt R.
Variable Kinv : list (list R).
Notation N := (ks_size S).
Notation n := (ks_n S).
Notation K := (kmat_entry Rops S).
Notation Ki := (mat_of Kinv).
Hypothesis HN : shape0 Kinv = N.
Variable chunk : nat.
Hypothesis Hc : (1 <= chunk)%nat.
Hypothesis H0 : (0 < N)%nat.
Notation fieldv cond t := (aget 0 (fst (krige_raw Rops S Q Kinv cond chunk)) t).
Notation errv cond t := (aget 0 (snd (krige_raw Rops S Q Kinv cond chunk)) t).

(* the estimate is linear in the prepared data, whatever Kinv is *)
Theorem linear_in_data c1 c2 c3 a b t : (t < kt_m Q)%nat ->
  (forall i, (i < N)%nat -> vec_of c3 i = a * vec_of c1 i + b * vec_of c2 i) ->
  fieldv c3 t = a * fieldv c1 t + b * fieldv c2 t.
Proof.
  intros Ht H. rewrite !(raw_field_t S Q Kinv HN _ chunk Hc H0 t Ht).
  rewrite <- dot_lin_l. apply dot_ext; auto. intros i Hi; reflexivity.
Qed.
(* the error term does not depend on the data at all *)
Theorem error_data_free c1 c2 t : (t < kt_m Q)%nat -> errv c1 t = errv c2 t.
Proof. intros Ht. now rewrite !(raw_err_t S Q Kinv HN _ chunk Hc H0 t Ht). Qed.

Lemma kmat_low_row r j : (n <= r)%nat -> (n <= j)%nat -> K r j = 0.
Proof.
  intros Hr Hj. unfold kmat_entry.
  destruct (Nat.ltb_spec r n); [lia|]. destruct (Nat.ltb_spec j n); [lia|]. reflexivity.
Qed.

(* rows n..N-1 of the system (unbiasedness and drift rows) are reproduced *)
Lemma row_identity t r : meq N (mmul N K Ki) delta -> (n <= r < N)%nat ->
  sumf n (fun i => K r i * lam_at S Q Kinv t i) = rhs_entry Rops S Q r t.
Proof.
  intros HR Hr. pose proof (lam_solves S Q Kinv t HR r ltac:(lia)) as E. unfold mvec, rhs_col in E.
  replace N with (n + (N - n))%nat in E at 1 by lia.
  rewrite sumf_split in E. rewrite (sumf_zero_ext (N - n)) in E.
  2:{ intros k Hk. rewrite kmat_low_row by lia. ring. }
  rewrite <- E. ring.
Qed.
Theorem reproduces_row cond t r c : (t < kt_m Q)%nat -> meq N (mmul N K Ki) delta -> (n <= r < N)%nat ->
  (forall i, (i < n)%nat -> vec_of cond i = c * K r i) ->
  (forall i, (n <= i < N)%nat -> vec_of cond i = 0) ->
  fieldv cond t = c * rhs_entry Rops S Q r t.
Proof.
  intros Ht HR Hr Hd Hz. rewrite (raw_field_t S Q Kinv HN _ chunk Hc H0 t Ht). unfold dot.
  replace N with (n + (N - n))%nat at 1 by lia.
  rewrite sumf_split. rewrite (sumf_zero_ext (N - n)).
  2:{ intros k Hk. rewrite Hz by lia. ring. }
  rewrite <- (row_identity t r HR Hr), <- sumf_scal, Rplus_0_r.
  apply sumf_ext. intros i Hi. rewrite Hd by auto. ring.
Qed.

Lemma kmat_unb_row i : ks_unb S = true -> (i < n)%nat -> K n i = 1.
Proof.
  intros Hu Hi. unfold kmat_entry, ks_u. rewrite Hu.
  destruct (Nat.ltb_spec n n); [lia|]. destruct (Nat.ltb_spec i n); [|lia].
  destruct (Nat.ltb_spec n (n + 1)); [reflexivity|lia].
Qed.
Lemma rhs_unb_row t : ks_unb S = true -> rhs_entry Rops S Q n t = 1.
Proof.
  intros Hu. unfold rhs_entry, ks_u. rewrite Hu.
  destruct (Nat.ltb_spec n n); [lia|]. destruct (Nat.ltb_spec n (n + 1)); [reflexivity|lia].
Qed.

(* unbiased variants: constant (prepared) data give back the constant *)
Theorem reproduces_constants_raw cond t c : (t < kt_m Q)%nat -> meq N (mmul N K Ki) delta ->
  ks_unb S = true ->
  (forall i, (i < n)%nat -> vec_of cond i = c) -> (forall i, (n <= i < N)%nat -> vec_of cond i = 0) ->
  fieldv cond t = c.
Proof.
  intros Ht HR Hu Hd Hz. pose proof (size_unb S Hu).
  rewrite (reproduces_row cond t n c Ht HR ltac:(lia)); auto.
  - rewrite rhs_unb_row by auto. ring.
  - intros i Hi. rewrite kmat_unb_row, Hd by auto. ring.
Qed.

(* data equal to drift l (functional or external) at the conditioning points give back drift l at the target *)
Lemma kmat_drift_row l i : (l < ks_p S)%nat -> (i < n)%nat ->
  K (n + ks_u S + l) i = aget2 0 (ks_drifts S) l i.
Proof.
  intros Hl Hi. unfold kmat_entry.
  destruct (Nat.ltb_spec (n + ks_u S + l) n); [lia|]. destruct (Nat.ltb_spec i n); [|lia].
  destruct (Nat.ltb_spec (n + ks_u S + l) (n + ks_u S)); [lia|].
  replace (n + ks_u S + l - n - ks_u S)%nat with l by lia. reflexivity.
Qed.
Lemma rhs_drift_row l t : rhs_entry Rops S Q (n + ks_u S + l) t = aget2 0 (kt_drifts Q) l t.
Proof.
  unfold rhs_entry.
  destruct (Nat.ltb_spec (n + ks_u S + l) n); [lia|].
  destruct (Nat.ltb_spec (n + ks_u S + l) (n + ks_u S)); [lia|].
  replace (n + ks_u S + l - n - ks_u S)%nat with l by lia. reflexivity.
Qed.
Theorem reproduces_drifts cond t l c : (t < kt_m Q)%nat -> meq N (mmul N K Ki) delta -> (l < ks_p S)%nat ->
  (forall i, (i < n)%nat -> vec_of cond i = c * aget2 0 (ks_drifts S) l i) ->
  (forall i, (n <= i < N)%nat -> vec_of cond i = 0) ->
  fieldv cond t = c * aget2 0 (kt_drifts Q) l t.
Proof.
  intros Ht HR Hl Hd Hz.
  rewrite (reproduces_row cond t (n + ks_u S + l) c Ht HR); auto.
  - now rewrite rhs_drift_row.
  - unfold ks_size. lia.
  - intros i Hi. rewrite kmat_drift_row, Hd by auto. reflexivity.
Qed.
End Consequences.

(* ---------------------------------------------------------------- the full pipeline *)
Lemma krige_cond_vec nr val tr mn pad i :
  vec_of (krige_cond Rops nr val tr mn pad) i =
  if (i <? length val)%nat then nr (aget 0 val i - aget 0 tr i) - aget 0 mn i else 0.
Proof.
  unfold vec_of, krige_cond, aget. destruct (Nat.ltb_spec i (length val)) as [H|H].
  - rewrite app_nth1 by (now rewrite map_length, seq_length).
    exact (aget_map_seq 0 _ _ i H).
  - rewrite app_nth2 by (rewrite map_length, seq_length; lia).
    exact (aget_repeat 0 pad _).
Qed.
Lemma krige_raw_length S Q Kinv cond chunk : (1 <= chunk)%nat -> (0 < ks_size S)%nat -> shape0 Kinv = ks_size S ->
  length (fst (krige_raw Rops S Q Kinv cond chunk)) = kt_m Q /\ length (snd (krige_raw Rops S Q Kinv cond chunk)) = kt_m Q.
Proof. intros. rewrite krige_raw_pointwise by auto. simpl. now rewrite !map_length, seq_length. Qed.
Lemma post_field_at dn f mean trend t : (t < length f)%nat ->
  aget 0 (post_field Rops dn f mean trend) t = dn (aget 0 f t + aget 0 mean t) + aget 0 trend t.
Proof. intros H. unfold post_field. exact (aget_map_seq 0 _ _ t H). Qed.

(* unbiased kriging of data that are constant after detrending returns that constant plus the trend at
   the target, through normalizer and (constant) mean *)
Theorem reproduces_constants S Q Kinv nr dn val ctrend cmean tmean ttrend chunk t v mu :
  shape0 Kinv = ks_size S -> (1 <= chunk)%nat -> (t < kt_m Q)%nat ->
  meq (ks_size S) (mmul (ks_size S) (kmat_entry Rops S) (mat_of Kinv)) delta ->
  ks_unb S = true -> length val = ks_n S ->
  (forall i, (i < ks_n S)%nat -> aget 0 val i - aget 0 ctrend i = v /\ aget 0 cmean i = mu) ->
  aget 0 tmean t = mu -> dn (nr v) = v ->
  aget 0 (fst (krige_call Rops S Q Kinv nr dn val ctrend cmean tmean ttrend chunk)) t = v + aget 0 ttrend t.
Proof.
  intros HN Hc Ht HR Hu Hl Hv Hm Hdn.
  assert (H0 : (0 < ks_size S)%nat) by (pose proof (size_unb S Hu); lia).
  unfold krige_call. cbn [fst].
  rewrite post_field_at by (destruct (krige_raw_length S Q Kinv (krige_cond Rops nr val ctrend cmean (ks_u S + ks_p S)) chunk Hc H0 HN) as [L _]; now rewrite L).
  rewrite (reproduces_constants_raw S Q Kinv HN chunk Hc H0 _ t (nr v - mu) Ht HR Hu).
  - rewrite Hm. replace (nr v - mu + mu) with (nr v) by ring. now rewrite Hdn.
  - intros i Hi. rewrite krige_cond_vec, Hl. destruct (Nat.ltb_spec i (ks_n S)); [|lia].
    destruct (Hv i Hi) as [-> ->]. reflexivity.
  - intros i Hi. rewrite krige_cond_vec, Hl. destruct (Nat.ltb_spec i (ks_n S)); [lia|reflexivity].
Qed.

(* ---------------------------------------------------------------- order of the conditioning points *)
(* Two systems related by a bijection s of the index range (for a reordering of the conditioning points
   s permutes 0..n-1 and fixes the unbiasedness/drift indices), each solved with ITS OWN inverse. *)
Theorem cond_perm_invariant S S' Q Q' Kinv Kinv' cond cond' chunk chunk' (s s' : nat -> nat) t t' :
  let N := ks_size S in
  ks_size S' = N -> shape0 Kinv = N -> shape0 Kinv' = N -> (0 < N)%nat -> (1 <= chunk)%nat -> (1 <= chunk')%nat ->
  (t < kt_m Q)%nat -> (t' < kt_m Q')%nat ->
  (forall i, (i < N)%nat -> (s i < N)%nat /\ (s' i < N)%nat /\ s' (s i) = i /\ s (s' i) = i) ->
  (forall i j, (i < N)%nat -> (j < N)%nat -> kmat_entry Rops S' (s i) (s j) = kmat_entry Rops S i j) ->
  (forall i, (i < N)%nat -> rhs_entry Rops S' Q' (s i) t' = rhs_entry Rops S Q i t) ->
  (forall i, (i < N)%nat -> vec_of cond' (s i) = vec_of cond i) ->
  meq N (mmul N (kmat_entry Rops S) (mat_of Kinv)) delta ->
  meq N (mmul N (mat_of Kinv') (kmat_entry Rops S')) delta ->
  aget 0 (fst (krige_raw Rops S' Q' Kinv' cond' chunk')) t' = aget 0 (fst (krige_raw Rops S Q Kinv cond chunk)) t /\
  aget 0 (snd (krige_raw Rops S' Q' Kinv' cond' chunk')) t' = aget 0 (snd (krige_raw Rops S Q Kinv cond chunk)) t.
Proof.
  intros N HS HN HN' H0 Hc Hc' Ht Ht' Hs HK Hk Hd HR HL'.
  assert (HN'' : shape0 Kinv' = ks_size S') by (now rewrite HS).
  assert (H0' : (0 < ks_size S')%nat) by (now rewrite HS).
  rewrite (raw_field_t S' Q' Kinv' HN'' cond' chunk' Hc' H0' t' Ht'), (raw_err_t S' Q' Kinv' HN'' cond' chunk' Hc' H0' t' Ht').
  rewrite (raw_field_t S Q Kinv HN cond chunk Hc H0 t Ht), (raw_err_t S Q Kinv HN cond chunk Hc H0 t Ht).
  rewrite HS. fold N.
  set (lam := lam_at S Q Kinv t).
  set (mu := fun j => lam (s' j)).
  assert (Hinj : forall i j, (i < N)%nat -> (j < N)%nat -> s i = s j -> i = j).
  { intros i j Hi Hj E. destruct (Hs i Hi) as (_ & _ & A & _). destruct (Hs j Hj) as (_ & _ & B & _). congruence. }
  assert (Hb : forall i, (i < N)%nat -> (s i < N)%nat) by (intros i Hi; apply (Hs i Hi)).
  assert (Hmu : veq (ks_size S') (mvec (ks_size S') (kmat_entry Rops S') mu) (rhs_col S' Q' t')).
  { rewrite HS. fold N. intros r Hr. destruct (Hs r Hr) as (_ & Hq & _ & Er). rewrite <- Er.
    generalize dependent (s' r). intros q Hq _. clear r Hr.
    unfold mvec, rhs_col. rewrite <- (sumf_reindex N s _ Hb Hinj). rewrite Hk by auto.
    pose proof (lam_solves S Q Kinv t HR q Hq) as E. unfold rhs_col in E. rewrite <- E. unfold mvec. fold lam.
    apply sumf_ext. intros j Hj. destruct (Hs j Hj) as (_ & _ & Ej & _).
    unfold mu. rewrite Ej. now rewrite HK by auto. }
  pose proof (lam_unique S' Q' Kinv' t' mu) as U. rewrite HS in U. fold N in U.
  specialize (U HL'). rewrite HS in Hmu. fold N in Hmu. specialize (U Hmu).
  split.
  - rewrite (dot_ext N _ (vec_of cond') _ mu (fun _ _ => eq_refl) U). unfold dot.
    rewrite <- (sumf_reindex N s _ Hb Hinj). apply sumf_ext. intros j Hj.
    destruct (Hs j Hj) as (_ & _ & Ej & _). unfold mu. now rewrite Ej, Hd.
  - rewrite (dot_ext N _ (rhs_col S' Q' t') _ mu (fun _ _ => eq_refl) U). unfold dot.
    rewrite <- (sumf_reindex N s _ Hb Hinj). apply sumf_ext. intros j Hj.
    destruct (Hs j Hj) as (_ & _ & Ej & _). unfold mu, rhs_col. now rewrite Ej, Hk.
Qed.

(* ---- the concrete form: S', Q', cond' are S, Q, cond with the conditioning points listed in another
   order (sg sends the old position of a point to its new position; sg' is its inverse) *)
Definition cond_reordered (S S' : KSys R) (Q Q' : KTgt R) (cond cond' : list R) (sg sg' : nat -> nat) (t t' : nat) : Prop :=
  ks_n S' = ks_n S /\ ks_unb S' = ks_unb S /\ ks_exact S' = ks_exact S /\ ks_sill S' = ks_sill S /\
  ks_p S' = ks_p S /\ kt_only_mean Q' = kt_only_mean Q /\
  (forall i, (i < ks_n S)%nat -> (sg i < ks_n S)%nat /\ (sg' i < ks_n S)%nat /\ sg' (sg i) = i /\ sg (sg' i) = i) /\
  (forall i j, (i < ks_n S)%nat -> (j < ks_n S)%nat -> aget2 0 (ks_C S') (sg i) (sg j) = aget2 0 (ks_C S) i j) /\
  (forall i, (i < ks_n S)%nat -> aget 0 (ks_err S') (sg i) = aget 0 (ks_err S) i) /\
  (forall l i, (l < ks_p S)%nat -> (i < ks_n S)%nat -> aget2 0 (ks_drifts S') l (sg i) = aget2 0 (ks_drifts S) l i) /\
  (forall i, (i < ks_n S)%nat -> aget2 0 (kt_c0 Q') (sg i) t' = aget2 0 (kt_c0 Q) i t /\
                                 aget2 0 (kt_d0 Q') (sg i) t' = aget2 0 (kt_d0 Q) i t) /\
  (forall l, (l < ks_p S)%nat -> aget2 0 (kt_drifts Q') l t' = aget2 0 (kt_drifts Q) l t) /\
  (forall i, (i < ks_n S)%nat -> vec_of cond' (sg i) = vec_of cond i) /\
  (forall i, (ks_n S <= i < ks_size S)%nat -> vec_of cond' i = vec_of cond i).

Definition ext_perm (n : nat) (sg : nat -> nat) (i : nat) : nat := if (i <? n)%nat then sg i else i.

Lemma cond_reordered_related S S' Q Q' cond cond' sg sg' t t' :
  cond_reordered S S' Q Q' cond cond' sg sg' t t' ->
  let N := ks_size S in let s := ext_perm (ks_n S) sg in let s' := ext_perm (ks_n S) sg' in
  ks_size S' = N /\
  (forall i, (i < N)%nat -> (s i < N)%nat /\ (s' i < N)%nat /\ s' (s i) = i /\ s (s' i) = i) /\
  (forall i j, (i < N)%nat -> (j < N)%nat -> kmat_entry Rops S' (s i) (s j) = kmat_entry Rops S i j) /\
  (forall i, (i < N)%nat -> rhs_entry Rops S' Q' (s i) t' = rhs_entry Rops S Q i t) /\
  (forall i, (i < N)%nat -> vec_of cond' (s i) = vec_of cond i).
Proof.
  intros (Hn & Hu & He & Hsl & Hp & Hom & Hsg & HC & Herr & HF & Hc0 & HG & Hd1 & Hd2) N s s'.
  assert (HuN : ks_u S' = ks_u S) by (unfold ks_u; now rewrite Hu).
  assert (HN : ks_size S' = N) by (unfold N, ks_size; now rewrite Hn, HuN, Hp).
  assert (Hs_lt : forall i, (i < ks_n S)%nat -> s i = sg i /\ (sg i < ks_n S)%nat).
  { intros i Hi. unfold s, ext_perm. destruct (Nat.ltb_spec i (ks_n S)); [|lia]. split; auto. apply (Hsg i Hi). }
  assert (Hs_ge : forall i, (ks_n S <= i)%nat -> s i = i).
  { intros i Hi. unfold s, ext_perm. destruct (Nat.ltb_spec i (ks_n S)); [lia|reflexivity]. }
  split; [exact HN|]. split; [|split; [|split]].
  - intros i Hi. unfold s, s', ext_perm.
    destruct (Nat.ltb_spec i (ks_n S)) as [Hlt|Hge].
    + destruct (Hsg i Hlt) as (A & B & C1 & D).
      destruct (Nat.ltb_spec (sg i) (ks_n S)); [|lia]. destruct (Nat.ltb_spec (sg' i) (ks_n S)); [|lia].
      unfold N, ks_size. repeat split; auto; lia.
    + destruct (Nat.ltb_spec i (ks_n S)); [lia|]. repeat split; auto.
  - intros i j Hi Hj. unfold kmat_entry. rewrite Hn, HuN.
    destruct (Nat.ltb_spec i (ks_n S)) as [Hi1|Hi1]; destruct (Nat.ltb_spec j (ks_n S)) as [Hj1|Hj1].
    + destruct (Hs_lt i Hi1) as [-> Hsi]. destruct (Hs_lt j Hj1) as [-> Hsj].
      destruct (Nat.ltb_spec (sg i) (ks_n S)); [|lia]. destruct (Nat.ltb_spec (sg j) (ks_n S)); [|lia].
      rewrite HC, Herr by auto.
      destruct (Nat.eqb_spec i j) as [->|Hne].
      * rewrite Nat.eqb_refl. reflexivity.
      * destruct (Nat.eqb_spec (sg i) (sg j)) as [E|_]; [|reflexivity].
        exfalso. apply Hne. destruct (Hsg i Hi1) as (_ & _ & A & _). destruct (Hsg j Hj1) as (_ & _ & B & _). congruence.
    + destruct (Hs_lt i Hi1) as [-> Hsi]. rewrite (Hs_ge j Hj1).
      destruct (Nat.ltb_spec (sg i) (ks_n S)); [|lia]. destruct (Nat.ltb_spec j (ks_n S)); [lia|].
      destruct (Nat.ltb_spec j (ks_n S + ks_u S)); [reflexivity|].
      apply HF; auto. unfold N, ks_size in Hj. lia.
    + rewrite (Hs_ge i Hi1). destruct (Hs_lt j Hj1) as [-> Hsj].
      destruct (Nat.ltb_spec i (ks_n S)); [lia|]. destruct (Nat.ltb_spec (sg j) (ks_n S)); [|lia].
      destruct (Nat.ltb_spec i (ks_n S + ks_u S)); [reflexivity|].
      apply HF; auto. unfold N, ks_size in Hi. lia.
    + rewrite (Hs_ge i Hi1), (Hs_ge j Hj1).
      destruct (Nat.ltb_spec i (ks_n S)); [lia|]. destruct (Nat.ltb_spec j (ks_n S)); [lia|]. reflexivity.
  - intros i Hi. unfold rhs_entry. rewrite Hn, HuN, Hom, He, Hsl. change (n0 Rops) with 0.
    destruct (Nat.ltb_spec i (ks_n S)) as [Hi1|Hi1].
    + destruct (Hs_lt i Hi1) as [-> Hsi]. destruct (Nat.ltb_spec (sg i) (ks_n S)); [|lia].
      destruct (Hc0 i Hi1) as [-> ->]. reflexivity.
    + rewrite (Hs_ge i Hi1). destruct (Nat.ltb_spec i (ks_n S)); [lia|].
      destruct (Nat.ltb_spec i (ks_n S + ks_u S)); [reflexivity|].
      apply HG. unfold N, ks_size in Hi. lia.
  - intros i Hi. destruct (Nat.lt_ge_cases i (ks_n S)) as [Hi1|Hi1].
    + destruct (Hs_lt i Hi1) as [-> _]. now apply Hd1.
    + rewrite (Hs_ge i Hi1). apply Hd2. unfold N in Hi. lia.
Qed.

(* reordering the conditioning points (each system solved with its own two-sided inverse) does not change
   the estimate and the error term *)
Theorem cond_order_invariant S S' Q Q' Kinv Kinv' cond cond' chunk chunk' sg sg' t t' :
  cond_reordered S S' Q Q' cond cond' sg sg' t t' ->
  shape0 Kinv = ks_size S -> shape0 Kinv' = ks_size S -> (0 < ks_size S)%nat ->
  (1 <= chunk)%nat -> (1 <= chunk')%nat -> (t < kt_m Q)%nat -> (t' < kt_m Q')%nat ->
  meq (ks_size S) (mmul (ks_size S) (kmat_entry Rops S) (mat_of Kinv)) delta ->
  meq (ks_size S) (mmul (ks_size S) (mat_of Kinv') (kmat_entry Rops S')) delta ->
  aget 0 (fst (krige_raw Rops S' Q' Kinv' cond' chunk')) t' = aget 0 (fst (krige_raw Rops S Q Kinv cond chunk)) t /\
  aget 0 (snd (krige_raw Rops S' Q' Kinv' cond' chunk')) t' = aget 0 (snd (krige_raw Rops S Q Kinv cond chunk)) t.
Proof.
  intros HR HN HN' H0 Hc Hc' Ht Ht' HI HI'.
  destruct (cond_reordered_related S S' Q Q' cond cond' sg sg' t t' HR) as (HS & Hs & HK & Hk & Hd).
  exact (cond_perm_invariant S S' Q Q' Kinv Kinv' cond cond' chunk chunk'
           (ext_perm (ks_n S) sg) (ext_perm (ks_n S) sg') t t' HS HN HN' H0 Hc Hc' Ht Ht' Hs HK Hk Hd HI HI').
Qed.
