(* C13_Time.v — model state of lat-lon / temporal models, the time axis (appended, scaled by the
   last ratio only, never rotated into space: the rotation is block diagonal in EVERY dimension),
   and invariance of the kriging system under rotations of the sphere. *)
From Coq Require Import Reals Lra Lia ZArith List Bool Arith.
From GS Require Import Num Loops Estimator_gen C13_RInst C13_Model C13_Geo.
Import ListNotations.

(* ====================================================================== structural part, every T *)
Section Structural.
Context {T : Type} (O : NumOps T).
Local Notation zero := (n0 O).
Local Notation one := (n1 O).

(* the time coordinate is appended and only divided by the time scale; the sphere part does not see it *)
Lemma latlon2pos_time_appended r ts ts' la lo t :
  latlon2pos O r true ts [la; lo; t] = latlon2pos O r false ts' [la; lo] ++ [ndiv O t ts].
Proof. reflexivity. Qed.

Lemma pos2latlon_time_appended r ts ts' x y z t :
  pos2latlon O r true ts [x; y; z; t] = pos2latlon O r false ts' [x; y; z] ++ [nmul O t ts].
Proof. reflexivity. Qed.

Lemma no_of_angles_S m : no_of_angles (S m) = no_of_angles m + m.
Proof.
  unfold no_of_angles. replace (S m - 1) with m by lia.
  destruct m as [|k]; [reflexivity|].
  replace (S (S k) * S k) with (S k * (S k - 1) + S k * 2) by (simpl; lia).
  rewrite Nat.div_add by lia. reflexivity.
Qed.

Lemma rotation_planes_S m : rotation_planes (S (S m)) = rotation_planes (S m) ++ map (fun i => (i, S m)) (seq 0 (S m)).
Proof.
  unfold rotation_planes. replace (S (S m) - 1) with (S m) by lia. replace (S m - 1) with m by lia.
  rewrite seq_S, flat_map_app. simpl flat_map at 2. now rewrite app_nil_r.
Qed.

Lemma rotation_planes_bound dim p q : In (p, q) (rotation_planes dim) -> p < q /\ q < dim.
Proof.
  unfold rotation_planes. intros H. apply in_flat_map in H. destruct H as (j & Hj & H).
  apply in_map_iff in H. destruct H as (i & E & Hi). inversion E; subst.
  apply in_seq in Hj. apply in_seq in Hi. lia.
Qed.

Lemma rotation_planes_length dim : length (rotation_planes dim) = no_of_angles dim.
Proof.
  destruct dim as [|m]; [reflexivity|]. induction m as [|m IH]; [reflexivity|].
  rewrite rotation_planes_S, app_length, map_length, seq_length, IH, (no_of_angles_S (S m)). reflexivity.
Qed.

Lemma set_angles_length dim angles : length (set_angles O dim angles) = no_of_angles dim.
Proof.
  unfold set_angles. rewrite app_length, repeat_length.
  pose proof (firstn_le_length (no_of_angles dim) angles). lia.
Qed.

Lemma set_angles_idem dim l : length l = no_of_angles dim -> set_angles O dim l = l.
Proof.
  intros H. unfold set_angles. rewrite <- H, firstn_all, Nat.sub_diag. simpl. apply app_nil_r.
Qed.

Lemma set_model_angles_length dim angles latlon temporal :
  length (set_model_angles O dim angles latlon temporal) = no_of_angles dim.
Proof.
  unfold set_model_angles. destruct latlon; [apply repeat_length|].
  destruct temporal; [|apply set_angles_length].
  rewrite app_length, repeat_length, firstn_length, set_angles_length.
  destruct dim as [|m]; [reflexivity|]. replace (S m - 1) with m by lia. rewrite no_of_angles_S. lia.
Qed.

(* set_model_angles: lat-lon => all zero; temporal => exactly the planes containing the time axis are zero *)
Lemma set_model_angles_latlon dim angles temporal k :
  aget zero (set_model_angles O dim angles true temporal) k = zero.
Proof. unfold set_model_angles. apply aget_repeat. Qed.

Lemma set_model_angles_temporal_zero dim angles k : no_of_angles (dim - 1) <= k ->
  aget zero (set_model_angles O dim angles false true) k = zero.
Proof.
  intros Hk. unfold set_model_angles, aget.
  assert (Hl : length (firstn (no_of_angles (dim - 1)) (set_angles O dim angles)) = no_of_angles (dim - 1)).
  { rewrite firstn_length, set_angles_length. destruct dim as [|m]; [reflexivity|].
    replace (S m - 1) with m by lia. rewrite no_of_angles_S. lia. }
  rewrite app_nth2 by lia. apply (aget_repeat zero).
Qed.

Lemma set_model_angles_temporal_keep dim angles k : k < no_of_angles (dim - 1) ->
  aget zero (set_model_angles O dim angles false true) k = aget zero (set_angles O dim angles) k.
Proof.
  intros Hk. unfold set_model_angles, aget.
  assert (Hl : length (firstn (no_of_angles (dim - 1)) (set_angles O dim angles)) = no_of_angles (dim - 1)).
  { rewrite firstn_length, set_angles_length. destruct dim as [|m]; [reflexivity|].
    replace (S m - 1) with m by lia. rewrite no_of_angles_S. lia. }
  rewrite app_nth1 by lia.
  rewrite <- (firstn_skipn (no_of_angles (dim - 1)) (set_angles O dim angles)) at 2.
  rewrite app_nth1 by lia. reflexivity.
Qed.

(* the k-th rotation plane contains the time axis dim-1  iff  k >= no_of_angles (dim-1) *)
Lemma time_planes m k : k < no_of_angles (S (S m)) ->
  let pl := nth k (rotation_planes (S (S m))) (0, 0) in
  if Nat.ltb k (no_of_angles (S m)) then fst pl < snd pl /\ snd pl < S m
  else snd pl = S m /\ fst pl = k - no_of_angles (S m).
Proof.
  intros Hk. cbv zeta. rewrite rotation_planes_S.
  destruct (Nat.ltb_spec k (no_of_angles (S m))) as [H|H].
  - rewrite app_nth1 by (rewrite rotation_planes_length; auto).
    assert (Hin : In (nth k (rotation_planes (S m)) (0, 0)) (rotation_planes (S m)))
      by (apply nth_In; rewrite rotation_planes_length; auto).
    destruct (nth k (rotation_planes (S m)) (0, 0)) as [p q]. apply rotation_planes_bound in Hin. simpl. lia.
  - rewrite app_nth2 by (rewrite rotation_planes_length; auto). rewrite rotation_planes_length.
    rewrite (no_of_angles_S (S m)) in Hk.
    rewrite nth_indep with (d' := (0, S m)) by (rewrite map_length, seq_length; lia).
    rewrite (map_nth (fun i => (i, S m)) (seq 0 (S m)) 0). cbn [fst snd]. split; auto.
    rewrite seq_nth by lia. lia.
Qed.

(* ---------- model construction: lat-lon forces dim 3 (+1), spatial isotropy, zero angles *)
Lemma set_len_anis_length dim ls anis latlon l a : 1 <= dim ->
  set_len_anis O dim ls anis latlon = Some (l, a) -> length a = dim - 1.
Proof.
  intros Hd. unfold set_len_anis.
  set (oa := if Nat.eqb (length (firstn dim ls)) 1 then _ else _).
  assert (Hoa : length oa = dim - 1).
  { unfold oa. destruct (Nat.eqb (length (firstn dim ls)) 1).
    - unfold set_anis. rewrite app_length, repeat_length. pose proof (firstn_le_length (dim - 1) anis). lia.
    - rewrite map_length, seq_length. reflexivity. }
  destruct (forallb _ oa); [|discriminate]. intros E. inversion E; subst.
  destruct latlon; [rewrite map_length, seq_length|]; auto.
Qed.

Theorem construct_latlon dim sdim temporal geo ls anis angles m :
  construct O dim sdim true temporal geo ls anis angles = Some m ->
  g_dim m = 3 + b2n temporal /\ g_latlon m = true /\ g_temporal m = temporal /\
  length (g_anis m) = 2 + b2n temporal /\ aget zero (g_anis m) 0 = one /\ aget zero (g_anis m) 1 = one /\
  g_angles m = repeat zero (no_of_angles (3 + b2n temporal)) /\
  field_dim m = 2 + b2n temporal /\ spatial_dim m = 2.
Proof.
  unfold construct. replace (Nat.ltb (3 + b2n temporal) 1) with false by (destruct temporal; reflexivity).
  destruct (set_len_anis O (3 + b2n temporal) ls anis true) as [[l a]|] eqn:E; [|discriminate].
  intros H. inversion H; subst; clear H. cbn [g_dim g_latlon g_temporal g_anis g_angles].
  assert (Hb : b2n temporal <= 1) by (destruct temporal; simpl; lia).
  assert (H1 : 1 <= 3 + b2n temporal) by lia.
  pose proof (set_len_anis_length _ _ _ _ _ _ H1 E) as Hl.
  unfold field_dim, spatial_dim. cbn [g_dim g_latlon g_temporal].
  repeat split; auto; try lia.
  - unfold set_len_anis in E. destruct (forallb _ _); [|discriminate]. inversion E; subst.
    rewrite map_length, seq_length in Hl.
    set (oa := if Nat.eqb _ 1 then _ else _) in *.
    destruct (length oa) as [|[|n]]; try (destruct temporal; simpl in Hl; lia). reflexivity.
  - unfold set_len_anis in E. destruct (forallb _ _); [|discriminate]. inversion E; subst.
    rewrite map_length, seq_length in Hl.
    set (oa := if Nat.eqb _ 1 then _ else _) in *.
    destruct (length oa) as [|[|n]]; try (destruct temporal; simpl in Hl; lia). reflexivity.
Qed.

(* the time ratio of a lat-lon + temporal model is the last (padded) input ratio: it is the ONLY ratio kept *)
Theorem construct_latlon_time_ratio dim sdim geo l a1 a2 a3 angles m :
  construct O dim sdim true true geo [l] [a1; a2; a3] angles = Some m ->
  g_anis m = [one; one; a3] /\ g_len_scale m = l.
Proof.
  unfold construct. cbn [b2n Nat.add Nat.ltb Nat.leb].
  unfold set_len_anis. cbn [firstn length Nat.eqb set_anis Nat.sub repeat app].
  destruct (forallb _ _); [|discriminate]. intros H; inversion H; subst. cbn. auto.
Qed.

(* ---------- invariant of the lat-lon / temporal part of the model state, over ALL setter histories *)
Definition geo_inv (m : geomodel (T := T)) : Prop :=
  1 <= g_dim m /\ length (g_anis m) = g_dim m - 1 /\ length (g_angles m) = no_of_angles (g_dim m) /\
  (g_latlon m = true ->
     g_dim m = 3 + b2n (g_temporal m) /\ aget zero (g_anis m) 0 = one /\ aget zero (g_anis m) 1 = one /\
     g_angles m = repeat zero (no_of_angles (g_dim m))) /\
  (g_latlon m = false -> g_temporal m = true ->
     forall k, no_of_angles (g_dim m - 1) <= k -> aget zero (g_angles m) k = zero).

Lemma set_len_anis_latlon_ones dim ls anis l a : 3 <= dim ->
  set_len_anis O dim ls anis true = Some (l, a) -> aget zero a 0 = one /\ aget zero a 1 = one.
Proof.
  intros Hd E. pose proof (set_len_anis_length dim ls anis true l a ltac:(lia) E) as Hl.
  unfold set_len_anis in E. destruct (forallb _ _); [|discriminate]. inversion E; subst.
  rewrite map_length, seq_length in Hl.
  set (oa := if Nat.eqb _ 1 then _ else _) in *.
  destruct (length oa) as [|[|n]]; try lia. split; reflexivity.
Qed.

Lemma set_model_angles_inv dim angles latlon temporal :
  (latlon = true -> set_model_angles O dim angles latlon temporal = repeat zero (no_of_angles dim)) /\
  (latlon = false -> temporal = true ->
     forall k, no_of_angles (dim - 1) <= k -> aget zero (set_model_angles O dim angles latlon temporal) k = zero).
Proof.
  split.
  - intros ->. reflexivity.
  - intros -> -> k Hk. now apply set_model_angles_temporal_zero.
Qed.

Theorem construct_inv dim sdim latlon temporal geo ls anis angles m :
  construct O dim sdim latlon temporal geo ls anis angles = Some m ->
  geo_inv m /\ g_latlon m = latlon /\ g_temporal m = temporal.
Proof.
  unfold construct.
  set (d := if latlon then 3 + b2n temporal else _).
  destruct (Nat.ltb_spec d 1) as [|Hd]; [discriminate|].
  destruct (set_len_anis O d ls anis latlon) as [[l a]|] eqn:E; [|discriminate].
  intros H; inversion H; subst; clear H. unfold geo_inv. cbn [g_dim g_latlon g_temporal g_anis g_angles].
  split; [|auto]. split; [lia|]. split; [eapply set_len_anis_length; eauto|].
  split; [apply set_model_angles_length|]. split.
  - intros Hl. subst latlon. assert (Ed : d = 3 + b2n temporal) by reflexivity.
    assert (H3 : 3 <= d) by lia.
    destruct (set_len_anis_latlon_ones d ls anis l a H3 E) as [H0 H1].
    split; [exact Ed|]. split; [exact H0|]. split; [exact H1 | reflexivity].
  - intros Hl Ht k Hk. subst latlon temporal. now apply set_model_angles_temporal_zero.
Qed.

Lemma len_anis_step_inv m ls an l a : geo_inv m ->
  set_len_anis O (g_dim m) ls an (g_latlon m) = Some (l, a) ->
  geo_inv (mkGeo (g_dim m) (g_latlon m) (g_temporal m) (g_geo_scale m) l a (g_angles m)).
Proof.
  intros (Hd & Ha & Hg & Hll & Htt) E. unfold geo_inv. cbn [g_dim g_latlon g_temporal g_anis g_angles].
  split; [exact Hd|]. split; [eapply set_len_anis_length; eauto|]. split; [exact Hg|]. split; [|exact Htt].
  intros Hl. destruct (Hll Hl) as (Hdim & _ & _ & Hang). rewrite Hl in E.
  assert (H3 : 3 <= g_dim m) by lia.
  destruct (set_len_anis_latlon_ones (g_dim m) ls an l a H3 E) as [H0 H1].
  split; [exact Hdim|]. split; [exact H0|]. split; [exact H1 | exact Hang].
Qed.

Lemma set_len_anis_scalar_id dim l anis l' a : 1 <= dim -> length anis = dim - 1 ->
  set_len_anis O dim [l] anis false = Some (l', a) -> a = anis /\ l' = l.
Proof.
  intros Hd Ha E. unfold set_len_anis in E.
  assert (Hf : forall d, 1 <= d -> firstn d [l] = [l]) by (intros [|d] ?; [lia | destruct d; reflexivity]).
  rewrite (Hf _ Hd) in E. cbn [length Nat.eqb aget nth] in E.
  assert (Hs : set_anis O dim anis = anis).
  { unfold set_anis. rewrite <- Ha, firstn_all, Nat.sub_diag. reflexivity. }
  rewrite Hs in E. destruct (forallb _ _); [|discriminate]. inversion E; subst. auto.
Qed.

Theorem gstep_inv m op m' : geo_inv m -> gstep O m op = Some m' ->
  geo_inv m' /\ g_latlon m' = g_latlon m /\ g_temporal m' = g_temporal m /\ g_geo_scale m' = g_geo_scale m /\
  g_dim m' = match op with OpDim d => if g_latlon m then g_dim m else d | _ => g_dim m end.
Proof.
  intros Hi H. destruct op as [ls|an|ang|d]; cbn [gstep] in H.
  - destruct (set_len_anis O (g_dim m) ls (g_anis m) (g_latlon m)) as [[l a]|] eqn:E; [|discriminate].
    inversion H; subst; clear H. split; [eapply len_anis_step_inv; eauto|]. cbn. auto.
  - destruct (set_len_anis O (g_dim m) [g_len_scale m] an (g_latlon m)) as [[l a]|] eqn:E; [|discriminate].
    inversion H; subst; clear H. split; [eapply len_anis_step_inv; eauto|]. cbn. auto.
  - inversion H; subst; clear H. split; [|cbn; auto].
    destruct Hi as (Hd & Ha & Hg & Hll & Htt). unfold geo_inv. cbn [g_dim g_latlon g_temporal g_anis g_angles].
    split; [exact Hd|]. split; [exact Ha|]. split; [apply set_model_angles_length|]. split.
    + intros Hl. destruct (Hll Hl) as (Hdim & H0 & H1 & _). rewrite Hl.
      split; [exact Hdim|]. split; [exact H0|]. split; [exact H1 | reflexivity].
    + intros Hl Ht k Hk. rewrite Hl, Ht. now apply set_model_angles_temporal_zero.
  - destruct Hi as (Hd & Ha & Hg & Hll & Htt).
    set (d' := if g_latlon m then 3 + b2n (g_temporal m) else d) in *.
    destruct (Nat.ltb_spec d' 1) as [|Hd']; [discriminate|].
    destruct (set_len_anis O d' [g_len_scale m] (g_anis m) false) as [[l a]|] eqn:E; [|discriminate].
    inversion H; subst; clear H. cbn [g_dim g_latlon g_temporal g_anis g_angles g_geo_scale].
    split.
    + unfold geo_inv. cbn [g_dim g_latlon g_temporal g_anis g_angles].
      split; [exact Hd'|]. split; [eapply set_len_anis_length; eauto|]. split; [apply set_model_angles_length|]. split.
      * intros Hl. destruct (Hll Hl) as (Hdim & H0 & H1 & _).
        assert (Ed : d' = g_dim m) by (unfold d'; rewrite Hl; lia).
        rewrite Ed in E. destruct (set_len_anis_scalar_id (g_dim m) _ _ _ _ Hd Ha E) as [-> _].
        rewrite Hl. split; [unfold d'; rewrite Hl; reflexivity|]. split; [exact H0|]. split; [exact H1 | reflexivity].
      * intros Hl Ht k Hk. rewrite Hl, Ht. now apply set_model_angles_temporal_zero.
    + repeat (split; [reflexivity|]). unfold d'. destruct (g_latlon m) eqn:Hl; [|reflexivity].
      destruct (Hll eq_refl) as (Hdim & _). lia.
Qed.

Theorem gsteps_inv ops : forall m m', geo_inv m -> gsteps O m ops = Some m' ->
  geo_inv m' /\ g_latlon m' = g_latlon m /\ g_temporal m' = g_temporal m /\ g_geo_scale m' = g_geo_scale m.
Proof.
  induction ops as [|op r IH]; intros m m' Hi H; cbn [gsteps] in H.
  - inversion H; subst. auto.
  - destruct (gstep O m op) as [m1|] eqn:E; [|discriminate].
    destruct (gstep_inv m op m1 Hi E) as (Hi1 & E2 & E3 & E4 & _).
    destruct (IH m1 m' Hi1 H) as (Hi' & F2 & F3 & F4).
    rewrite F2, F3, F4. auto.
Qed.

(* normal form of the angles of a temporal model: re-normalising stored angles that satisfy the invariant is the identity *)
Lemma all_zero_repeat (l : list T) : (forall k, aget zero l k = zero) -> l = repeat zero (length l).
Proof.
  intros H. apply (list_ext zero); [now rewrite repeat_length|].
  intros i _. rewrite H. symmetry. apply aget_repeat.
Qed.

Lemma nth_skipn_T n (l : list T) k : aget zero (skipn n l) k = aget zero l (n + k).
Proof.
  unfold aget. revert l. induction n as [|n IH]; intros l; [reflexivity|].
  destruct l as [|x l]; [destruct k; reflexivity|]. cbn [skipn Nat.add nth]. apply IH.
Qed.

Lemma temporal_angles_normal_form dim (l : list T) : length l = no_of_angles dim ->
  (forall k, no_of_angles (dim - 1) <= k -> aget zero l k = zero) ->
  set_model_angles O dim l false true = l.
Proof.
  intros Hl Hz. unfold set_model_angles. rewrite (set_angles_idem dim l Hl).
  rewrite <- (firstn_skipn (no_of_angles (dim - 1)) l) at 3. f_equal.
  rewrite (all_zero_repeat (skipn (no_of_angles (dim - 1)) l)).
  - rewrite skipn_length. reflexivity.
  - intros k. rewrite nth_skipn_T. apply Hz. lia.
Qed.

(* assigning a scalar len_scale keeps every ratio, in particular the time ratio of a lat-lon + temporal
   model (the defect repaired by /repo commit b408ce8) *)
Lemma map_override_ones (r : list T) :
  map (fun i => if Nat.ltb i 2 then one else aget zero (one :: one :: r) i) (seq 0 (length (one :: one :: r))) = one :: one :: r.
Proof.
  cbn [length seq map Nat.ltb Nat.leb]. f_equal. f_equal.
  rewrite <- seq_shift, <- seq_shift, !map_map.
  apply (list_ext zero).
  - now rewrite map_length, seq_length.
  - intros i Hi. rewrite map_length, seq_length in Hi.
    rewrite (aget_map_seq zero) by auto. reflexivity.
Qed.

Theorem len_scale_keeps_ratios m l m' : geo_inv m ->
  gstep O m (OpLen [l]) = Some m' -> g_anis m' = g_anis m /\ g_len_scale m' = l.
Proof.
  intros (Hd & Ha & Hg & Hll & Htt) H. cbn [gstep] in H.
  destruct (set_len_anis O (g_dim m) [l] (g_anis m) (g_latlon m)) as [[l' a]|] eqn:E; [|discriminate].
  inversion H; subst; clear H. cbn [g_anis g_len_scale].
  unfold set_len_anis in E.
  assert (Hf : forall d, 1 <= d -> firstn d [l] = [l]) by (intros [|d] ?; [lia | destruct d; reflexivity]).
  rewrite (Hf _ Hd) in E. cbn [length Nat.eqb aget nth] in E.
  assert (Hs : set_anis O (g_dim m) (g_anis m) = g_anis m).
  { unfold set_anis. rewrite <- Ha, firstn_all, Nat.sub_diag. reflexivity. }
  rewrite Hs in E. destruct (forallb _ _); [|discriminate]. inversion E; subst; clear E. split; [|reflexivity].
  destruct (g_latlon m) eqn:Hl; [|reflexivity].
  destruct (Hll eq_refl) as (Hdim & H0 & H1 & _).
  destruct (g_anis m) as [|a0 [|a1 r]] eqn:Ea; cbn [length] in Ha; try (destruct (g_temporal m); cbn in Hdim; lia).
  unfold aget in H0, H1. cbn [nth] in H0, H1. subst a0 a1. apply map_override_ones.
Qed.

(* ---------- holders: the cached conditioning positions are those of a fresh object whenever the last operation
   is not an in-place change (model replacement, set_condition() and set_condition(new data) all recompute), for
   EVERY history before it; an evaluation then hands the solver exactly the system of a fresh object *)
Definition coherent (h : holder (T := T)) : Prop := h_kpos h = map (isometrize O (h_model h)) (h_cond h).

Lemma hstep_refreshing_coherent h op : refreshing op = true -> coherent (hstep O h op).
Proof. destruct op; intros H; try discriminate; reflexivity. Qed.

Theorem holder_history_coherent h ops op : refreshing op = true -> coherent (hrun O h (ops ++ [op])).
Proof. intros H. unfold hrun. rewrite fold_left_app. cbn [fold_left]. now apply hstep_refreshing_coherent. Qed.

Theorem holder_system_is_fresh h cf cfr unbiased cond_err tgt : coherent h ->
  holder_system O h cf cfr unbiased cond_err tgt = krige_system O (h_model h) cf cfr unbiased cond_err (h_cond h) tgt.
Proof. intros Hc. unfold holder_system, krige_system. now rewrite Hc. Qed.

(* replacing the model keeps the data and makes the holder equal to a freshly initialised one *)
Theorem holder_set_model_is_init h ops m :
  hrun O h (ops ++ [HSetModel m]) = hinit O m (h_cond (hrun O h ops)).
Proof. unfold hrun. rewrite fold_left_app. reflexivity. Qed.

End Structural.

(* ====================================================================== real instance *)
Local Open Scope R_scope.
Section RealPart.
Variable ora : nat -> list R -> R.
Local Notation RO := (Rops_with ora).

Lemma aget_mapseq (f : nat -> R) n i : (i < n)%nat -> aget 0 (map f (seq 0 n)) i = f i.
Proof. intros. now apply (aget_map_seq 0). Qed.

Lemma ent_mk n f i j : (i < n)%nat -> (j < n)%nat -> ent RO (mk n f) i j = f i j.
Proof.
  intros Hi Hj. unfold ent, mk, aget2, arow, aget.
  rewrite nth_indep with (d' := map (fun j => f 0%nat j) (seq 0 n)) by (now rewrite map_length, seq_length).
  rewrite (map_nth (fun i => map (fun j => f i j) (seq 0 n))), seq_nth by auto. simpl.
  apply (aget_mapseq (fun j => f i j)); auto.
Qed.

Lemma sumn_S n f : sumn RO (S n) f = sumn RO n f + f n.
Proof. unfold sumn. rewrite seq_S, fold_left_app. reflexivity. Qed.

Lemma sumn_ext n f g : (forall k, (k < n)%nat -> f k = g k) -> sumn RO n f = sumn RO n g.
Proof. induction n; intros H; [reflexivity|]. rewrite !sumn_S, IHn, H; auto. Qed.

Lemma sumn_zero n f : (forall k, (k < n)%nat -> f k = 0) -> sumn RO n f = 0.
Proof. induction n; intros H; [reflexivity|]. rewrite sumn_S, IHn, H by auto. lra. Qed.

Lemma sumn_single n f i : (i < n)%nat -> (forall k, (k < n)%nat -> k <> i -> f k = 0) -> sumn RO n f = f i.
Proof.
  induction n; intros Hi H; [lia|]. rewrite sumn_S. destruct (Nat.eq_dec i n) as [->|Hne].
  - rewrite sumn_zero; [lra|]. intros k Hk. apply H; lia.
  - rewrite IHn by (auto; lia). rewrite (H n) by lia. lra.
Qed.

(* "time block": row and column tau = n-1 are those of the identity *)
Definition tblock (n : nat) (M : list (list R)) : Prop :=
  (forall i, (i < n - 1)%nat -> ent RO M i (n - 1) = 0 /\ ent RO M (n - 1) i = 0) /\ ent RO M (n - 1) (n - 1) = 1.

Lemma tblock_eye n : (1 <= n)%nat -> tblock n (eye RO n).
Proof.
  intros Hn. unfold eye. split.
  - intros i Hi. rewrite !ent_mk by lia.
    destruct (Nat.eqb_spec i (n - 1)); [lia|]. destruct (Nat.eqb_spec (n - 1) i); [lia|]. auto.
  - rewrite ent_mk by lia. now rewrite Nat.eqb_refl.
Qed.

Lemma tblock_mmul n A B : (1 <= n)%nat -> tblock n A -> tblock n B -> tblock n (mmul RO n A B).
Proof.
  intros Hn [HA HA1] [HB HB1]. unfold mmul. split.
  - intros i Hi. rewrite !ent_mk by lia. split.
    + rewrite (sumn_single n _ (n - 1)%nat) by
        (try lia; intros k Hk Hne; cbn [nmul Rops_with]; rewrite (proj1 (HB k ltac:(lia))); ring).
      cbn [nmul Rops_with]. rewrite (proj1 (HA i Hi)). ring.
    + rewrite (sumn_single n _ (n - 1)%nat) by
        (try lia; intros k Hk Hne; cbn [nmul Rops_with]; rewrite (proj2 (HA k ltac:(lia))); ring).
      cbn [nmul Rops_with]. rewrite (proj2 (HB i Hi)). ring.
  - rewrite ent_mk by lia.
    rewrite (sumn_single n _ (n - 1)%nat) by
      (try lia; intros k Hk Hne; cbn [nmul Rops_with]; rewrite (proj1 (HB k ltac:(lia))); ring).
    cbn [nmul Rops_with]. rewrite HA1, HB1. ring.
Qed.

(* a Givens rotation in a purely spatial plane leaves the time axis alone *)
Lemma tblock_givens_spatial n p q a : (1 <= n)%nat -> (p < n - 1)%nat -> (q < n - 1)%nat ->
  tblock n (givens_rotation RO n (p, q) a).
Proof.
  intros Hn Hp Hq. unfold givens_rotation. cbn [fst snd]. split.
  - intros i Hi. rewrite !ent_mk by lia.
    destruct (Nat.eqb_spec i p), (Nat.eqb_spec i q), (Nat.eqb_spec (n - 1) p), (Nat.eqb_spec (n - 1) q),
      (Nat.eqb_spec i (n - 1)), (Nat.eqb_spec (n - 1) i); try lia; cbn [andb]; auto.
  - rewrite ent_mk by lia.
    destruct (Nat.eqb_spec (n - 1) p), (Nat.eqb_spec (n - 1) q); try lia. cbn [andb].
    now rewrite Nat.eqb_refl.
Qed.

(* a Givens rotation by the angle 0 is the identity, whatever the plane *)
Lemma tblock_givens_zero n p q : (1 <= n)%nat -> p <> q -> tblock n (givens_rotation RO n (p, q) 0).
Proof.
  intros Hn Hpq. unfold givens_rotation. cbn [fst snd ncos nsin nneg Rops_with n0 n1]. rewrite cos_0, sin_0, Ropp_0. split.
  - intros i Hi. rewrite !ent_mk by lia.
    destruct (Nat.eqb_spec i p), (Nat.eqb_spec i q), (Nat.eqb_spec (n - 1) p), (Nat.eqb_spec (n - 1) q),
      (Nat.eqb_spec i (n - 1)), (Nat.eqb_spec (n - 1) i); try lia; cbn [andb]; auto.
  - rewrite ent_mk by lia.
    destruct (Nat.eqb_spec (n - 1) p), (Nat.eqb_spec (n - 1) q); try lia; cbn [andb]; auto.
    now rewrite Nat.eqb_refl.
Qed.

Lemma alt_sign_zero k : alt_sign RO k 0 = 0.
Proof. unfold alt_sign. destruct (Nat.even k); cbn [nmul nneg n1 Rops_with]; ring. Qed.

(* folding Givens factors (either side) keeps the time block, provided each factor does *)
Lemma fold_tblock n (step : list (list R) -> nat * (nat * nat) -> list (list R)) l M :
  (forall M kp, In kp l -> tblock n M -> tblock n (step M kp)) -> tblock n M -> tblock n (fold_left step l M).
Proof.
  revert M. induction l as [|x l IH]; intros M H HM; simpl; auto.
  apply IH; [intros; apply H; [right|]; auto | apply H; [left|]; auto].
Qed.

(* the angles a temporal model stores *)
Definition temporal_angles (dim : nat) (angles : list R) := set_model_angles RO dim angles false true.

Lemma temporal_angles_zero dim angles k : (no_of_angles (dim - 1) <= k)%nat ->
  aget 0 (temporal_angles dim angles) k = 0.
Proof. intros H. exact (set_model_angles_temporal_zero RO dim angles k H). Qed.

Lemma factor_tblock dim angles (sgn : R -> R) k pl : (2 <= dim)%nat -> sgn 0 = 0 ->
  In (k, pl) (combine (seq 0 (no_of_angles dim)) (rotation_planes dim)) ->
  tblock dim (givens_rotation RO dim pl (alt_sign RO k (sgn (aget 0 (temporal_angles dim angles) k)))).
Proof.
  intros Hd Hs Hin. destruct dim as [|[|m]]; try lia.
  assert (Hnth : (k < no_of_angles (S (S m)))%nat /\ pl = nth k (rotation_planes (S (S m))) (0%nat, 0%nat)).
  { apply (In_nth _ _ (0%nat, (0%nat, 0%nat))) in Hin. destruct Hin as (i & Hi & E).
    rewrite combine_length, seq_length, rotation_planes_length, Nat.min_id in Hi.
    rewrite combine_nth in E by (now rewrite seq_length, rotation_planes_length).
    rewrite seq_nth in E by auto. inversion E; subst. auto. }
  destruct Hnth as (Hi & Epl). subst pl. set (i := k) in *.
  pose proof (time_planes m i Hi) as Hp. cbv zeta in Hp.
  destruct (nth i (rotation_planes (S (S m))) (0%nat, 0%nat)) as [p q]. cbn [fst snd] in Hp.
  destruct (Nat.ltb_spec i (no_of_angles (S m))) as [Hlt|Hge].
  - apply tblock_givens_spatial; lia.
  - rewrite temporal_angles_zero by (replace (S (S m) - 1)%nat with (S m) by lia; auto).
    rewrite Hs, alt_sign_zero.
    apply tblock_givens_zero; [lia|]. rewrite (no_of_angles_S (S m)) in Hi. lia.
Qed.

Lemma temporal_angles_set dim angles : set_angles RO dim (temporal_angles dim angles) = temporal_angles dim angles.
Proof. apply set_angles_idem. apply set_model_angles_length. Qed.

(* C13_time_axis, rotation part: for EVERY dimension and EVERY angle list the (de)rotation matrix of a
   temporal model is block diagonal: the time axis is never rotated into space *)
Theorem derotate_time_block dim angles : (1 <= dim)%nat ->
  tblock dim (matrix_derotate RO dim (temporal_angles dim angles)).
Proof.
  intros Hd. unfold matrix_derotate. rewrite temporal_angles_set.
  destruct (Nat.eq_dec dim 1) as [->|Hne]; [apply tblock_eye; lia|].
  apply fold_tblock; [|apply tblock_eye; auto].
  intros M [k pl] Hin HM. cbn [fst snd]. apply tblock_mmul; auto.
  assert (Hk : (k < no_of_angles dim)%nat).
  { apply in_combine_l in Hin. apply in_seq in Hin. lia. }
  assert (E : aget (n0 RO) (map (nneg RO) (temporal_angles dim angles)) k = - aget 0 (temporal_angles dim angles) k).
  { unfold aget. cbn [n0 nneg Rops_with]. rewrite nth_indep with (d' := - 0) by
      (rewrite map_length; unfold temporal_angles; rewrite set_model_angles_length; auto).
    apply (map_nth Ropp). }
  rewrite E. apply (factor_tblock dim angles Ropp k pl); auto; [lia | apply Ropp_0].
Qed.

Theorem rotate_time_block dim angles : (1 <= dim)%nat ->
  tblock dim (matrix_rotate RO dim (temporal_angles dim angles)).
Proof.
  intros Hd. unfold matrix_rotate. rewrite temporal_angles_set.
  destruct (Nat.eq_dec dim 1) as [->|Hne]; [apply tblock_eye; lia|].
  apply fold_tblock; [|apply tblock_eye; auto].
  intros M [k pl] Hin HM. cbn [fst snd]. apply tblock_mmul; auto.
  apply (factor_tblock dim angles (fun x => x) k pl); auto; lia.
Qed.

(* multiplication by a diagonal matrix from the left *)
Lemma sumn_delta n (c : R) g i : (i < n)%nat ->
  sumn RO n (fun k => (if Nat.eqb i k then c else 0) * g k) = c * g i.
Proof.
  intros Hi. rewrite (sumn_single n _ i); auto.
  - now rewrite Nat.eqb_refl.
  - intros k Hk Hne. destruct (Nat.eqb_spec i k); [lia|ring].
Qed.

Lemma ent_diag_mmul n d D i j : (i < n)%nat -> (j < n)%nat ->
  ent RO (mmul RO n (diag RO n d) D) i j = aget 0 d i * ent RO D i j.
Proof.
  intros Hi Hj. unfold mmul. rewrite ent_mk by auto. cbn [nmul Rops_with].
  rewrite (sumn_ext n _ (fun k => (if Nat.eqb i k then aget 0 d i else 0) * ent RO D k j)).
  - exact (sumn_delta n (aget 0 d i) (fun k => ent RO D k j) i Hi).
  - intros k Hk. unfold diag. rewrite ent_mk by auto. reflexivity.
Qed.

Lemma nth_last_R (l : list R) d : nth (length l - 1) l d = last l d.
Proof.
  induction l as [|a l IH]; [reflexivity|]. destruct l as [|b l]; [reflexivity|].
  replace (length (a :: b :: l) - 1)%nat with (S (length (b :: l) - 1)) by (simpl; lia).
  change (nth (S (length (b :: l) - 1)) (a :: b :: l) d) with (nth (length (b :: l) - 1) (b :: l) d).
  rewrite IH. reflexivity.
Qed.

(* C13_time_axis: the isometrizing matrix of a temporal model (dim >= 2, dim - 1 ratios) maps the time
   coordinate to t / anis[-1], and no spatial output depends on t *)
Theorem isometrize_time_axis dim angles anis (p : list R) :
  (2 <= dim)%nat -> length anis = (dim - 1)%nat ->
  let M := matrix_isometrize RO dim (temporal_angles dim angles) anis in
  let tau := (dim - 1)%nat in
  (forall i, (i < tau)%nat -> ent RO M i tau = 0 /\ ent RO M tau i = 0) /\
  ent RO M tau tau = 1 / last anis 0 /\
  aget 0 (matvec RO dim M p) tau = aget 0 p tau / last anis 0.
Proof.
  intros Hd Hl. cbv zeta. unfold matrix_isometrize, matrix_isotropify.
  destruct (derotate_time_block dim angles ltac:(lia)) as [HD HD1].
  assert (Hsa : set_anis RO dim anis = anis).
  { unfold set_anis. rewrite <- Hl, firstn_all, Nat.sub_diag. reflexivity. }
  rewrite Hsa.
  assert (Hlast : aget 0 (1 :: map (fun a => 1 / a) anis) (dim - 1) = 1 / last anis 0).
  { destruct dim as [|[|m]]; try lia. replace (S (S m) - 1)%nat with (S m) in * by lia.
    unfold aget. cbn [nth]. rewrite nth_indep with (d' := 1 / 0) by (rewrite map_length; lia).
    rewrite (map_nth (fun a => 1 / a)). f_equal.
    replace m with (length anis - 1)%nat by lia. apply nth_last_R. }
  assert (E1 : forall i, (i < dim - 1)%nat ->
     ent RO (mmul RO dim (diag RO dim (n1 RO :: map (fun a => ndiv RO (n1 RO) a) anis))
        (matrix_derotate RO dim (temporal_angles dim angles))) i (dim - 1) = 0 /\
     ent RO (mmul RO dim (diag RO dim (n1 RO :: map (fun a => ndiv RO (n1 RO) a) anis))
        (matrix_derotate RO dim (temporal_angles dim angles))) (dim - 1) i = 0).
  { intros i Hi. rewrite !ent_diag_mmul by lia. rewrite (proj1 (HD i Hi)), (proj2 (HD i Hi)). split; ring. }
  assert (E2 : ent RO (mmul RO dim (diag RO dim (n1 RO :: map (fun a => ndiv RO (n1 RO) a) anis))
        (matrix_derotate RO dim (temporal_angles dim angles))) (dim - 1) (dim - 1) = 1 / last anis 0).
  { rewrite ent_diag_mmul by lia. rewrite HD1. cbn [n1 ndiv Rops_with]. rewrite Hlast. ring. }
  split; [exact E1|]. split; [exact E2|].
  unfold matvec. rewrite aget_mapseq by lia.
  rewrite (sumn_single dim _ (dim - 1)%nat) by
    (try lia; intros k Hk Hne; cbn [nmul Rops_with]; rewrite (proj2 (E1 k ltac:(lia))); ring).
  cbn [nmul Rops_with n0]. rewrite E2. unfold Rdiv. ring.
Qed.

(* the same for the STATE of a metric temporal model after any history of setters (len_scale, anis, angles, dim up or down):
   the invariant keeps the stored angles in the normal form of set_model_angles *)
Theorem time_axis_of_invariant_state (m : geomodel (T := R)) (p : list R) :
  geo_inv RO m -> g_latlon m = false -> g_temporal m = true -> (2 <= g_dim m)%nat ->
  let M := matrix_isometrize RO (g_dim m) (g_angles m) (g_anis m) in
  let tau := (g_dim m - 1)%nat in
  (forall i, (i < tau)%nat -> ent RO M i tau = 0 /\ ent RO M tau i = 0) /\
  ent RO M tau tau = 1 / last (g_anis m) 0 /\
  aget 0 (isometrize RO m p) tau = aget 0 p tau / last (g_anis m) 0.
Proof.
  intros (Hd & Ha & Hg & Hll & Htt) Hl Ht H2. cbv zeta.
  pose proof (temporal_angles_normal_form RO (g_dim m) (g_angles m) Hg (Htt Hl Ht)) as Hn.
  unfold isometrize. rewrite Hl. rewrite <- Hn.
  exact (isometrize_time_axis (g_dim m) (g_angles m) (g_anis m) p H2 Ha).
Qed.

(* ---------- rotations of the sphere and the kriging system *)
Definition orth3 (Q : list (list R)) : Prop :=
  forall i j, (i < 3)%nat -> (j < 3)%nat ->
    ent RO Q 0 i * ent RO Q 0 j + ent RO Q 1 i * ent RO Q 1 j + ent RO Q 2 i * ent RO Q 2 j = if Nat.eqb i j then 1 else 0.

(* rotate the three space coordinates, keep whatever follows (the time coordinate) *)
Definition rot (Q : list (list R)) (p : list R) : list R := matvec RO 3 Q (firstn 3 p) ++ skipn 3 p.

Lemma sqdist_acc (l : list (R * R)) acc :
  fold_left (fun acc ab => nadd RO acc (nmul RO (nsub RO (fst ab) (snd ab)) (nsub RO (fst ab) (snd ab)))) l acc
  = acc + fold_left (fun acc ab => nadd RO acc (nmul RO (nsub RO (fst ab) (snd ab)) (nsub RO (fst ab) (snd ab)))) l 0.
Proof.
  revert acc. induction l as [|x l IH]; intros acc; simpl; [lra|].
  rewrite IH, (IH (0 + _)). lra.
Qed.

Lemma sqdist_app u1 u2 v1 v2 : length u1 = length v1 ->
  sqdist RO (u1 ++ u2) (v1 ++ v2) = sqdist RO u1 v1 + sqdist RO u2 v2.
Proof.
  intros H. unfold sqdist.
  assert (E : combine (u1 ++ u2) (v1 ++ v2) = combine u1 v1 ++ combine u2 v2).
  { revert v1 H. induction u1 as [|a u1 IH]; intros [|b v1] H; simpl in *; try lia; auto. f_equal. apply IH. lia. }
  rewrite E, fold_left_app. cbn [n0 Rops_with]. apply sqdist_acc.
Qed.

Lemma rot3_sqdist Q u0 u1 u2 v0 v1 v2 : orth3 Q ->
  sqdist RO (matvec RO 3 Q [u0; u1; u2]) (matvec RO 3 Q [v0; v1; v2]) = sqdist RO [u0; u1; u2] [v0; v1; v2].
Proof.
  intros HQ. unfold matvec, sqdist, sumn. cbn [seq map combine fold_left fst snd aget nth nadd nsub nmul n0 Rops_with].
  pose proof (HQ 0%nat 0%nat ltac:(lia) ltac:(lia)) as H00. pose proof (HQ 1%nat 1%nat ltac:(lia) ltac:(lia)) as H11.
  pose proof (HQ 2%nat 2%nat ltac:(lia) ltac:(lia)) as H22. pose proof (HQ 0%nat 1%nat ltac:(lia) ltac:(lia)) as H01.
  pose proof (HQ 0%nat 2%nat ltac:(lia) ltac:(lia)) as H02. pose proof (HQ 1%nat 2%nat ltac:(lia) ltac:(lia)) as H12.
  cbn [Nat.eqb] in *.
  set (a := ent RO Q 0 0) in *. set (b := ent RO Q 0 1) in *. set (c := ent RO Q 0 2) in *.
  set (d := ent RO Q 1 0) in *. set (e := ent RO Q 1 1) in *. set (f := ent RO Q 1 2) in *.
  set (g := ent RO Q 2 0) in *. set (h := ent RO Q 2 1) in *. set (k := ent RO Q 2 2) in *.
  set (w0 := u0 - v0). set (w1 := u1 - v1). set (w2 := u2 - v2).
  transitivity (w0 * w0 * (a * a + d * d + g * g) + w1 * w1 * (b * b + e * e + h * h) + w2 * w2 * (c * c + f * f + k * k)
                + 2 * w0 * w1 * (a * b + d * e + g * h) + 2 * w0 * w2 * (a * c + d * f + g * k)
                + 2 * w1 * w2 * (b * c + e * f + h * k)).
  - unfold w0, w1, w2. ring.
  - rewrite H00, H11, H22, H01, H02, H12. unfold w0, w1, w2. ring.
Qed.

Lemma firstn3_skipn (p : list R) : (3 <= length p)%nat ->
  exists a b c, firstn 3 p = [a; b; c] /\ p = [a; b; c] ++ skipn 3 p.
Proof.
  destruct p as [|a [|b [|c r]]]; simpl; intros H; try lia. exists a, b, c. auto.
Qed.

Theorem rot_dist Q u v : orth3 Q -> (3 <= length u)%nat -> length u = length v ->
  dist RO (rot Q u) (rot Q v) = dist RO u v.
Proof.
  intros HQ Hu Huv. unfold dist. f_equal. unfold rot.
  destruct (firstn3_skipn u Hu) as (a & b & c & Eu & Eu'). destruct (firstn3_skipn v ltac:(lia)) as (a' & b' & c' & Ev & Ev').
  rewrite Eu, Ev. rewrite sqdist_app by (unfold matvec; now rewrite !map_length).
  rewrite rot3_sqdist by auto.
  transitivity (sqdist RO ([a; b; c] ++ skipn 3 u) ([a'; b'; c'] ++ skipn 3 v)); [now rewrite sqdist_app | now rewrite <- Eu', <- Ev'].
Qed.

(* a rotation keeps points on their sphere *)
Lemma rot3_norm Q x y z : orth3 Q ->
  let q := matvec RO 3 Q [x; y; z] in
  aget 0 q 0 * aget 0 q 0 + aget 0 q 1 * aget 0 q 1 + aget 0 q 2 * aget 0 q 2 = x * x + y * y + z * z.
Proof.
  intros HQ. pose proof (rot3_sqdist Q x y z 0 0 0 HQ) as H.
  assert (E0 : matvec RO 3 Q [0; 0; 0] = [0; 0; 0]).
  { unfold matvec, sumn. cbn [seq map fold_left aget nth nadd nmul n0 Rops_with]. repeat f_equal; ring. }
  rewrite E0 in H. cbv zeta. unfold sqdist in H. unfold matvec in *.
  cbn [seq map combine fold_left fst snd aget nth nadd nsub nmul n0 Rops_with] in *. lra.
Qed.

Section Krige.
  Variables (cf cfr : R -> R) (unbiased : bool) (cond_err : list R) (Q : list (list R)).
  Hypothesis HQ : orth3 Q.

  Lemma krige_cov_mat_rot n kpos : (3 <= n)%nat -> Forall (fun p => length p = n) kpos ->
    krige_cov_mat RO cf cond_err (map (rot Q) kpos) = krige_cov_mat RO cf cond_err kpos.
  Proof.
    intros Hn Hall. unfold krige_cov_mat. rewrite map_length.
    apply map_ext_in; intros i Hi. apply map_ext_in; intros j Hj.
    apply in_seq in Hi. apply in_seq in Hj.
    assert (Hnth : forall k, (k < length kpos)%nat -> nth k (map (rot Q) kpos) [] = rot Q (nth k kpos []) /\ length (nth k kpos []) = n).
    { intros k Hk. split.
      - rewrite nth_indep with (d' := rot Q []) by (now rewrite map_length). apply map_nth.
      - rewrite Forall_forall in Hall. apply Hall. now apply nth_In. }
    destruct (Hnth i ltac:(lia)) as [-> Li]. destruct (Hnth j ltac:(lia)) as [-> Lj].
    rewrite rot_dist by (auto; lia). reflexivity.
  Qed.

  Lemma krige_cov_vecs_rot n kpos tgt : (3 <= n)%nat ->
    Forall (fun p => length p = n) kpos -> Forall (fun p => length p = n) tgt ->
    krige_cov_vecs RO cfr (map (rot Q) kpos) (map (rot Q) tgt) = krige_cov_vecs RO cfr kpos tgt.
  Proof.
    intros Hn Hk Ht. unfold krige_cov_vecs. rewrite map_map.
    apply map_ext_in; intros p Hp. rewrite map_map. apply map_ext_in; intros x Hx.
    rewrite Forall_forall in Hk, Ht. rewrite rot_dist; auto; rewrite (Hk p Hp); [lia | now rewrite (Ht x Hx)].
  Qed.

  (* every entry of the kriging matrix and of the right-hand sides depends on the (isometrized) positions
     only through pairwise distances, which rotations of the sphere preserve *)
  Theorem krige_rotation_invariant n kpos tgt : (3 <= n)%nat ->
    Forall (fun p => length p = n) kpos -> Forall (fun p => length p = n) tgt ->
    krige_mat RO cf unbiased cond_err (map (rot Q) kpos) = krige_mat RO cf unbiased cond_err kpos /\
    krige_vecs RO cfr unbiased (map (rot Q) kpos) (map (rot Q) tgt) = krige_vecs RO cfr unbiased kpos tgt.
  Proof.
    intros Hn Hk Ht. unfold krige_mat, krige_vecs.
    rewrite (krige_cov_mat_rot n), (krige_cov_vecs_rot n), !map_length by auto. auto.
  Qed.
End Krige.

(* in lat-lon terms: rotate the data and target locations ON THE SPHERE (convert to 3-D, rotate, convert back);
   the system handed to the solver is unchanged, hence so is every kriging output, for any solver *)
Definition rot_latlon (m : geomodel (T := R)) (Q : list (list R)) (p : list R) : list R :=
  anisometrize RO m (rot Q (isometrize RO m p)).

Lemma isometrize_rot_latlon m Q p : orth3 Q -> g_latlon m = true -> 0 < g_geo_scale m ->
  (g_temporal m = true -> last (g_anis m) 0 <> 0) ->
  length p = (2 + b2n (g_temporal m))%nat ->
  isometrize RO m (rot_latlon m Q p) = rot Q (isometrize RO m p).
Proof.
  intros HQ Hl Hg Ha Hp. unfold rot_latlon, isometrize, anisometrize. rewrite Hl.
  destruct (g_temporal m) eqn:Ht.
  - destruct p as [|la [|lo [|t [|? ?]]]]; simpl in Hp; try lia.
    rewrite (latlon2pos_time_appended RO _ _ 1). rewrite latlon2pos_R. cbn [app].
    unfold rot. cbn [firstn skipn app].
    set (q := matvec RO 3 Q [cX (g_geo_scale m) la lo; cY (g_geo_scale m) la lo; cZ (g_geo_scale m) la]).
    assert (Hq : exists x y z, q = [x; y; z]) by (unfold q, matvec; cbn [seq map]; eauto).
    destruct Hq as (x & y & z & Eq). rewrite Eq. cbn [app].
    apply pos_latlon_pos_time; auto.
    pose proof (rot3_norm Q (cX (g_geo_scale m) la lo) (cY (g_geo_scale m) la lo) (cZ (g_geo_scale m) la) HQ) as Hn.
    cbv zeta in Hn. fold q in Hn. rewrite Eq in Hn. cbn [aget nth] in Hn. rewrite Hn. apply on_sphere_xyz.
  - destruct p as [|la [|lo [|? ?]]]; simpl in Hp; try lia.
    rewrite latlon2pos_R. cbn [app]. unfold rot. cbn [firstn skipn app]. rewrite app_nil_r.
    set (q := matvec RO 3 Q [cX (g_geo_scale m) la lo; cY (g_geo_scale m) la lo; cZ (g_geo_scale m) la]).
    assert (Hq : exists x y z, q = [x; y; z]) by (unfold q, matvec; cbn [seq map]; eauto).
    destruct Hq as (x & y & z & Eq). rewrite Eq.
    replace (pos2latlon RO (g_geo_scale m) false (last (g_anis m) 0) [x; y; z])
      with (pos2latlon RO (g_geo_scale m) false 1 [x; y; z]) by reflexivity.
    replace (latlon2pos RO (g_geo_scale m) false (last (g_anis m) 0) (pos2latlon RO (g_geo_scale m) false 1 [x; y; z]))
      with (latlon2pos RO (g_geo_scale m) false 1 (pos2latlon RO (g_geo_scale m) false 1 [x; y; z])) by reflexivity.
    apply pos_latlon_pos; auto.
    pose proof (rot3_norm Q (cX (g_geo_scale m) la lo) (cY (g_geo_scale m) la lo) (cZ (g_geo_scale m) la) HQ) as Hn.
    cbv zeta in Hn. fold q in Hn. rewrite Eq in Hn. cbn [aget nth] in Hn. rewrite Hn. apply on_sphere_xyz.
Qed.

Lemma isometrize_latlon_length m p : g_latlon m = true ->
  length (isometrize RO m p) = (3 + b2n (g_temporal m))%nat.
Proof. intros Hl. unfold isometrize, latlon2pos. rewrite Hl. destruct (g_temporal m); reflexivity. Qed.

Theorem krige_sphere_rotation_invariant m cf cfr unbiased cond_err Q cond tgt :
  orth3 Q -> g_latlon m = true -> 0 < g_geo_scale m -> (g_temporal m = true -> last (g_anis m) 0 <> 0) ->
  Forall (fun p => length p = (2 + b2n (g_temporal m))%nat) cond ->
  Forall (fun p => length p = (2 + b2n (g_temporal m))%nat) tgt ->
  krige_system RO m cf cfr unbiased cond_err (map (rot_latlon m Q) cond) (map (rot_latlon m Q) tgt)
  = krige_system RO m cf cfr unbiased cond_err cond tgt.
Proof.
  intros HQ Hl Hg Ha Hc Ht. unfold krige_system. rewrite !map_map.
  assert (E : forall l, Forall (fun p => length p = (2 + b2n (g_temporal m))%nat) l ->
              map (fun x => isometrize RO m (rot_latlon m Q x)) l = map (rot Q) (map (isometrize RO m) l)).
  { intros l Hall. rewrite map_map. apply map_ext_in. intros p Hp. rewrite Forall_forall in Hall.
    apply isometrize_rot_latlon; auto. }
  rewrite (E cond Hc), (E tgt Ht).
  assert (L : forall l, Forall (fun p => length p = (3 + b2n (g_temporal m))%nat) (map (isometrize RO m) l)).
  { intros l. apply Forall_forall. intros q Hq. apply in_map_iff in Hq. destruct Hq as (p & <- & _).
    now apply isometrize_latlon_length. }
  destruct (krige_rotation_invariant cf cfr unbiased cond_err Q HQ (3 + b2n (g_temporal m))
              (map (isometrize RO m) cond) (map (isometrize RO m) tgt) ltac:(lia) (L cond) (L tgt)) as [E1 E2].
  now rewrite E1, E2.
Qed.

(* ---------- non-vacuity of the hypotheses *)
Example orth3_rotz a : orth3 [[cos a; - sin a; 0]; [sin a; cos a; 0]; [0; 0; 1]].
Proof.
  intros i j Hi Hj. pose proof (cs1 a) as H.
  destruct i as [|[|[|i]]]; try lia; destruct j as [|[|[|j]]]; try lia;
    unfold ent, aget2, arow, aget; cbn [nth Nat.eqb]; nra.
Qed.

Example construct_example :
  exists m, construct RO 2 None true true 6371 [1000] [1; 1; / 2] [] = Some m /\
            g_temporal m = true /\ 0 < g_geo_scale m /\ last (g_anis m) 0 <> 0.
Proof.
  unfold construct. cbn [b2n Nat.add Nat.ltb Nat.leb].
  unfold set_len_anis. cbn [firstn length Nat.eqb set_anis Nat.sub repeat app forallb nltb n0 Rops_with].
  assert (H1 : Rltb 0 1 = true) by (apply Rltb_true; lra).
  assert (H2 : Rltb 0 (/ 2) = true) by (apply Rltb_true; lra).
  rewrite H1, H2. cbn [andb]. eexists. split; [reflexivity|].
  cbn [g_temporal g_geo_scale g_anis nabs Rops_with seq map Nat.ltb Nat.leb aget nth last n1].
  rewrite Rabs_right by lra. repeat split; lra.
Qed.

End RealPart.
