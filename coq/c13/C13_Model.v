(* C13_Model.v — Gallina model of the geographic / spatio-temporal coordinate handling of GSTools,
   written once for every number type (NumOps T): proved about at R (C13_Geo.v, C13_Time.v),
   executed at OCaml floats against /repo (harness/c13.py).

   modelled code                                   model
   tools/geometric.py latlon2pos / pos2latlon       latlon2pos / pos2latlon
   tools/geometric.py chordal_to_great_circle ...   chordal_to_great_circle / great_circle_to_chordal
   variogram/estimator.pyx dist_haversine           Estimator_gen.dist_haversine (TRANSLATED, not here)
   tools/geometric.py no_of_angles, rotation_planes, set_angles, set_anis, givens_rotation,
       matrix_rotate/derotate/isotropify/anisotropify/isometrize/anisometrize
   covmodel/tools.py set_len_anis, set_model_angles, set_dim (dimension forcing)
   covmodel/base.py  __init__ (lat-lon / temporal part), isometrize, anisometrize, cov_yadrenko
   krige/base.py     _get_dists (cdist), _get_krige_mat (before inversion), _get_krige_vecs
   variogram/binning.py standard_bins (max_dist for lat-lon)
   covmodel/fit.py   _check_vario (great-circle lags -> chordal lags)                           *)
From Coq Require Import ZArith List Bool Arith Lia.
From GS Require Import Num Loops.
Import ListNotations.

Section Model.
Context {T : Type} (O : NumOps T).

Local Notation "a +! b" := (nadd O a b) (at level 50, left associativity).
Local Notation "a -! b" := (nsub O a b) (at level 50, left associativity).
Local Notation "a *! b" := (nmul O a b) (at level 40, left associativity).
Local Notation "a /! b" := (ndiv O a b) (at level 40, left associativity).
Local Notation zero := (n0 O).
Local Notation one := (n1 O).

(* ---------- scalar helpers (numpy ufuncs) *)
Definition deg2rad (x : T) : T := x *! (npi O /! nlit O 180 0).     (* np.deg2rad *)
Definition rad2deg (x : T) : T := x *! (nlit O 180 0 /! npi O).     (* np.rad2deg *)
Definition nmin (a b : T) : T := if nltb O b a then b else a.        (* np.minimum on non-NaN *)
Definition nmax (a b : T) : T := if nltb O a b then b else a.        (* np.maximum on non-NaN *)
Definition two : T := nlit O 2 0.

(* ---------- tools/geometric.py : sphere *)
(* one point: [lat; lon] or [lat; lon; t]  ->  [x; y; z] or [x; y; z; t / time_scale] *)
Definition latlon2pos (radius : T) (temporal : bool) (time_scale : T) (p : list T) : list T :=
  let lat := deg2rad (aget zero p 0) in
  let lon := deg2rad (aget zero p 1) in
  [ radius *! ncos O lat *! ncos O lon ; radius *! ncos O lat *! nsin O lon ; radius *! nsin O lat *! one ]
  ++ (if temporal then [aget zero p 2 /! time_scale] else []).

Definition pos2latlon (radius : T) (temporal : bool) (time_scale : T) (p : list T) : list T :=
  let lat := nasin O (nmax (nmin (aget zero p 2 /! radius) one) (nneg O one)) in
  let lon := natan2 O (aget zero p 1) (aget zero p 0) in
  [ rad2deg lat ; rad2deg lon ] ++ (if temporal then [aget zero p 3 *! time_scale] else []).

Definition chordal_to_great_circle (dist radius : T) : T :=
  let diameter := two *! radius in
  diameter *! nasin O (nmax (nmin (dist /! diameter) one) zero).

Definition great_circle_to_chordal (dist radius : T) : T :=
  let diameter := two *! radius in
  diameter *! nsin O (dist /! diameter).

(* scipy cdist (euclidean) between two points given as coordinate lists *)
Definition sqdist (u v : list T) : T :=
  fold_left (fun acc ab => acc +! (fst ab -! snd ab) *! (fst ab -! snd ab)) (combine u v) zero.
Definition dist (u v : list T) : T := nsqrt O (sqdist u v).

(* ---------- tools/geometric.py : angles, ratios, matrices (every dimension) *)
Definition no_of_angles (dim : nat) : nat := (dim * (dim - 1)) / 2.

(* [(i, j) for j in range(1, dim) for i in range(j)] *)
Definition rotation_planes (dim : nat) : list (nat * nat) :=
  flat_map (fun j => map (fun i => (i, j)) (seq 0 j)) (seq 1 (dim - 1)).

Definition set_angles (dim : nat) (angles : list T) : list T :=
  let a := firstn (no_of_angles dim) angles in
  a ++ repeat zero (no_of_angles dim - length a).

Definition set_anis (dim : nat) (anis : list T) : list T :=
  let a := firstn (dim - 1) anis in
  repeat one (dim - 1 - length a) ++ a.

(* square matrices: list of rows built from an index function *)
Definition mk (n : nat) (f : nat -> nat -> T) : list (list T) :=
  map (fun i => map (fun j => f i j) (seq 0 n)) (seq 0 n).
Definition ent (M : list (list T)) (i j : nat) : T := aget2 zero M i j.
Definition sumn (n : nat) (f : nat -> T) : T := fold_left (fun acc k => acc +! f k) (seq 0 n) zero.
Definition mmul (n : nat) (A B : list (list T)) : list (list T) :=
  mk n (fun i j => sumn n (fun k => ent A i k *! ent B k j)).
Definition eye (n : nat) : list (list T) := mk n (fun i j => if Nat.eqb i j then one else zero).
Definition matvec (n : nat) (M : list (list T)) (v : list T) : list T :=
  map (fun i => sumn n (fun k => ent M i k *! aget zero v k)) (seq 0 n).

Definition givens_rotation (dim : nat) (plane : nat * nat) (angle : T) : list (list T) :=
  let p := fst plane in let q := snd plane in
  mk dim (fun i j =>
    if Nat.eqb i p && Nat.eqb j p then ncos O angle
    else if Nat.eqb i q && Nat.eqb j q then ncos O angle
    else if Nat.eqb i p && Nat.eqb j q then nneg O (nsin O angle)
    else if Nat.eqb i q && Nat.eqb j p then nsin O angle
    else if Nat.eqb i j then one else zero).

(* (-1) ** i * angle *)
Definition alt_sign (i : nat) (a : T) : T := if Nat.even i then one *! a else nneg O one *! a.

(* result = G_k . result, k = 0, 1, ... *)
Definition matrix_rotate (dim : nat) (angles : list T) : list (list T) :=
  let ang := set_angles dim angles in
  fold_left (fun res kp => mmul dim (givens_rotation dim (snd kp) (alt_sign (fst kp) (aget zero ang (fst kp)))) res)
            (combine (seq 0 (no_of_angles dim)) (rotation_planes dim)) (eye dim).

(* result = result . G_k with the negated angles *)
Definition matrix_derotate (dim : nat) (angles : list T) : list (list T) :=
  let ang := map (nneg O) (set_angles dim angles) in
  fold_left (fun res kp => mmul dim res (givens_rotation dim (snd kp) (alt_sign (fst kp) (aget zero ang (fst kp)))))
            (combine (seq 0 (no_of_angles dim)) (rotation_planes dim)) (eye dim).

Definition diag (n : nat) (d : list T) : list (list T) :=
  mk n (fun i j => if Nat.eqb i j then aget zero d i else zero).
Definition matrix_isotropify (dim : nat) (anis : list T) : list (list T) :=
  diag dim (one :: map (fun a => one /! a) (set_anis dim anis)).
Definition matrix_anisotropify (dim : nat) (anis : list T) : list (list T) :=
  diag dim (one :: set_anis dim anis).
Definition matrix_isometrize (dim : nat) (angles anis : list T) : list (list T) :=
  mmul dim (matrix_isotropify dim anis) (matrix_derotate dim angles).
Definition matrix_anisometrize (dim : nat) (angles anis : list T) : list (list T) :=
  mmul dim (matrix_rotate dim angles) (matrix_anisotropify dim anis).

(* ---------- covmodel/tools.py *)
Definition pad_edge (n : nat) (l : list T) : list T :=   (* np.pad(l, (0, n - len l), "edge"), l non-empty *)
  l ++ repeat (last l zero) (n - length l).

(* set_len_anis(dim, len_scale, anis, latlon); None = ValueError.  len_scale is a non-empty list
   (a scalar is the one-element list) *)
Definition set_len_anis (dim : nat) (len_scale anis : list T) (latlon : bool) : option (T * list T) :=
  let ls := firstn dim len_scale in
  let out_len := aget zero ls 0 in
  let out_anis :=
    if Nat.eqb (length ls) 1 then set_anis dim anis
    else let ls := pad_edge dim ls in map (fun i => aget zero ls i /! aget zero ls 0) (seq 1 (dim - 1)) in
  if forallb (fun a => nltb O zero a) out_anis
  then Some (out_len, if latlon then map (fun i => if Nat.ltb i 2 then one else aget zero out_anis i) (seq 0 (length out_anis))
                      else out_anis)
  else None.

Definition set_model_angles (dim : nat) (angles : list T) (latlon temporal : bool) : list T :=
  if latlon then repeat zero (no_of_angles dim)
  else
    let out := set_angles dim angles in
    if temporal then firstn (no_of_angles (dim - 1)) out ++ repeat zero (length out - no_of_angles (dim - 1))
    else out.

(* ---------- covmodel/base.py: the lat-lon / temporal part of the model state *)
Record geomodel := mkGeo {
  g_dim : nat; g_latlon : bool; g_temporal : bool; g_geo_scale : T;
  g_len_scale : T; g_anis : list T; g_angles : list T }.

Definition b2n (b : bool) : nat := if b then 1 else 0.

(* CovModel.__init__ restricted to dim / latlon / temporal / geo_scale / len_scale / anis / angles
   (set_dim forces dim 3 (+1) for lat-lon models; spatial_dim adds the time axis) *)
Definition construct (dim : nat) (spatial_dim : option nat) (latlon temporal : bool) (geo_scale : T)
    (len_scale anis angles : list T) : option geomodel :=
  let d0 := match spatial_dim with None => dim | Some s => s + b2n temporal end in
  let d := if latlon then 3 + b2n temporal else d0 in
  if Nat.ltb d 1 then None else
  match set_len_anis d len_scale anis latlon with
  | None => None
  | Some (l, a) => Some (mkGeo d latlon temporal (nabs O geo_scale) l a (set_model_angles d angles latlon temporal))
  end.

(* the setters len_scale / anis / angles / dim of CovModel (bounds checks of check_arg_bounds not modelled:
   callers stay inside the bounds) *)
Inductive gop := OpLen (ls : list T) | OpAnis (a : list T) | OpAngles (a : list T) | OpDim (d : nat).
Definition gstep (m : geomodel) (op : gop) : option geomodel :=
  match op with
  | OpLen ls =>
      match set_len_anis (g_dim m) ls (g_anis m) (g_latlon m) with
      | None => None
      | Some (l, a) => Some (mkGeo (g_dim m) (g_latlon m) (g_temporal m) (g_geo_scale m) l a (g_angles m))
      end
  | OpAnis an =>
      match set_len_anis (g_dim m) [g_len_scale m] an (g_latlon m) with
      | None => None
      | Some (l, a) => Some (mkGeo (g_dim m) (g_latlon m) (g_temporal m) (g_geo_scale m) l a (g_angles m))
      end
  | OpAngles ang =>
      Some (mkGeo (g_dim m) (g_latlon m) (g_temporal m) (g_geo_scale m) (g_len_scale m) (g_anis m)
                  (set_model_angles (g_dim m) ang (g_latlon m) (g_temporal m)))
  | OpDim d =>
      (* covmodel/tools.py set_dim: forced dimension for lat-lon, ratios re-padded / truncated by set_len_anis (called WITHOUT the
         latlon flag), angles re-normalised by set_model_angles with the latlon and temporal flags *)
      let d' := if g_latlon m then 3 + b2n (g_temporal m) else d in
      if Nat.ltb d' 1 then None else
      match set_len_anis d' [g_len_scale m] (g_anis m) false with
      | None => None
      | Some (l, a) => Some (mkGeo d' (g_latlon m) (g_temporal m) (g_geo_scale m) l a
                                   (set_model_angles d' (g_angles m) (g_latlon m) (g_temporal m)))
      end
  end.
Fixpoint gsteps (m : geomodel) (ops : list gop) : option geomodel :=
  match ops with
  | [] => Some m
  | op :: r => match gstep m op with None => None | Some m' => gsteps m' r end
  end.

Definition field_dim (m : geomodel) : nat := if g_latlon m then 2 + b2n (g_temporal m) else g_dim m.
Definition spatial_dim (m : geomodel) : nat := if g_latlon m then 2 else g_dim m - b2n (g_temporal m).

(* CovModel.isometrize / anisometrize for ONE point (the code maps them over the columns) *)
Definition isometrize (m : geomodel) (p : list T) : list T :=
  if g_latlon m then latlon2pos (g_geo_scale m) (g_temporal m) (last (g_anis m) zero) p
  else matvec (g_dim m) (matrix_isometrize (g_dim m) (g_angles m) (g_anis m)) p.
Definition anisometrize (m : geomodel) (p : list T) : list T :=
  if g_latlon m then pos2latlon (g_geo_scale m) (g_temporal m) (last (g_anis m) zero) p
  else matvec (g_dim m) (matrix_anisometrize (g_dim m) (g_angles m) (g_anis m)) p.

(* cov_yadrenko for an arbitrary isotropic covariance function cf of the model *)
Definition cov_yadrenko (cf : T -> T) (geo_scale : T) (zeta : T) : T := cf (great_circle_to_chordal zeta geo_scale).

(* ---------- krige/base.py: covariance part of the kriging system, before inversion.
   cf = model.covariance (matrix) / model.cov_nugget or covariance (right-hand sides) *)
Definition krige_cov_mat (cf : T -> T) (cond_err : list T) (kpos : list (list T)) : list (list T) :=
  map (fun i => map (fun j =>
        let c := cf (dist (nth i kpos []) (nth j kpos [])) in
        if Nat.eqb i j then c +! aget zero cond_err i else c) (seq 0 (length kpos))) (seq 0 (length kpos)).
Definition krige_cov_vecs (cf : T -> T) (kpos tgt : list (list T)) : list (list T) :=
  map (fun p => map (fun x => cf (dist p x)) tgt) kpos.
(* full system (simple: unbiased = false, ordinary: unbiased = true) *)
Definition krige_mat (cf : T -> T) (unbiased : bool) (cond_err : list T) (kpos : list (list T)) : list (list T) :=
  let c := krige_cov_mat cf cond_err kpos in
  if unbiased then map (fun r => r ++ [one]) c ++ [repeat one (length kpos) ++ [zero]] else c.
Definition krige_vecs (cf : T -> T) (unbiased : bool) (kpos tgt : list (list T)) : list (list T) :=
  let v := krige_cov_vecs cf kpos tgt in
  if unbiased then v ++ [repeat one (length tgt)] else v.

(* what Krige.set_condition / __call__ hand to the solver for lat-lon(-time) data *)
Definition krige_system (m : geomodel) (cf cfr : T -> T) (unbiased : bool) (cond_err : list T)
    (cond tgt : list (list T)) : list (list T) * list (list T) :=
  let kpos := map (isometrize m) cond in
  (krige_mat cf unbiased cond_err kpos, krige_vecs cfr unbiased kpos (map (isometrize m) tgt)).

(* ---------- krige/base.py: the holder of a model, conditioning positions and the CACHED isometrized positions
   (Krige._krige_pos).  Operations: model replacement (setter -> set_condition()), in-place change of the held model
   (nothing is recomputed: the cache is stale until the documented refresh), set_condition() (refresh),
   set_condition(new positions). *)
Record holder := mkHolder { h_model : geomodel; h_cond : list (list T); h_kpos : list (list T) }.
Inductive hop := HSetModel (m : geomodel) | HInPlace (op : gop) | HRefresh | HSetCond (c : list (list T)).
Definition hinit (m : geomodel) (cond : list (list T)) : holder := mkHolder m cond (map (isometrize m) cond).
Definition hstep (h : holder) (op : hop) : holder :=
  match op with
  | HSetModel m => mkHolder m (h_cond h) (map (isometrize m) (h_cond h))
  | HInPlace g => match gstep (h_model h) g with
                  | Some m => mkHolder m (h_cond h) (h_kpos h)
                  | None => h
                  end
  | HRefresh => mkHolder (h_model h) (h_cond h) (map (isometrize (h_model h)) (h_cond h))
  | HSetCond c => mkHolder (h_model h) c (map (isometrize (h_model h)) c)
  end.
Definition hrun (h : holder) (ops : list hop) : holder := fold_left hstep ops h.
Definition refreshing (op : hop) : bool := match op with HInPlace _ => false | _ => true end.
(* the system an evaluation hands to the solver: cached conditioning positions, targets isometrized now *)
Definition holder_system (h : holder) (cf cfr : T -> T) (unbiased : bool) (cond_err : list T) (tgt : list (list T)) :=
  (krige_mat cf unbiased cond_err (h_kpos h), krige_vecs cfr unbiased (h_kpos h) (map (isometrize (h_model h)) tgt)).

(* ---------- variogram/binning.py standard_bins: max_dist for lat-lon positions *)
Definition lmin (l : list T) : T := fold_left nmin (tl l) (hd zero l).
Definition lmax (l : list T) : T := fold_left nmax (tl l) (hd zero l).
Definition latlon_bins_max_dist (geo_scale : T) (pts : list (list T)) : T :=
  let p3 := map (latlon2pos geo_scale false one) pts in
  let lo := map (fun k => lmin (map (fun p => aget zero p k) p3)) (seq 0 3) in
  let hi := map (fun k => lmax (map (fun p => aget zero p k) p3)) (seq 0 3) in
  chordal_to_great_circle (dist lo hi) geo_scale /! nlit O 3 0.

(* standard_bins(latlon=True): the maximal edge for each combination of the options; a user-given max_dist is
   already in the unit of geo_scale and is used as it is *)
Definition latlon_bins_last_edge (geo_scale : T) (pts : list (list T)) (max_dist : option T) : T :=
  match max_dist with Some d => d | None => latlon_bins_max_dist geo_scale pts end.

(* the estimator's great-circle distance in the unit of the bins (bin_edges /= geo_scale) *)
Definition in_bin (lo hi d : T) : bool := nleb O lo d && nltb O d hi.

End Model.
