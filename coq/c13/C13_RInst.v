(* C13_RInst.v — the real-number instance of NumOps used by the C13 theorems, and the facts about
   it that the geometry needs: integer powers, the two-argument arctangent (defined by the usual
   case split on the quadrant; its characteristic properties are PROVED below, so the definition
   is not an assumption), angle uniqueness on (-PI, PI]. *)
From Coq Require Import Reals Lra Lia ZArith List Bool.
From GS Require Import Num Loops.
Import ListNotations.
Local Open Scope R_scope.

Definition Rltb (x y : R) : bool := if Rlt_dec x y then true else false.
Definition Rleb (x y : R) : bool := if Rle_dec x y then true else false.
Definition Reqb (x y : R) : bool := if Req_EM_T x y then true else false.

(* C pow(x, y): for an integral exponent it is the integer power (defined for negative bases),
   otherwise exp (y ln x) *)
Definition Rpow (x y : R) : R :=
  if Req_EM_T y (IZR (Int_part y)) then powerRZ x (Int_part y) else Rpower x y.

(* atan2 y x: the angle in (-PI, PI] of the point (x, y); 0 at the origin (as C's atan2) *)
Definition Ratan2 (y x : R) : R :=
  if Rlt_dec 0 x then atan (y / x)
  else if Rlt_dec x 0 then (if Rle_dec 0 y then atan (y / x) + PI else atan (y / x) - PI)
  else if Rlt_dec 0 y then PI / 2
  else if Rlt_dec y 0 then - (PI / 2)
  else 0.

Definition Rops_with (ora : nat -> list R -> R) : NumOps R :=
  mkNumOps R 0 1 Rplus Rminus Rmult Rdiv Ropp Rabs sqrt cos sin exp ln acos asin atan Ratan2 Rpow
    Rltb Rleb Reqb (fun _ => false) IZR PI ora.
Definition Rops : NumOps R := Rops_with (fun _ _ => 0).

Lemma Rltb_true x y : Rltb x y = true <-> x < y.
Proof. unfold Rltb; destruct (Rlt_dec x y); split; intros; try lra; try discriminate; auto. Qed.
Lemma Rltb_false x y : Rltb x y = false <-> y <= x.
Proof. unfold Rltb; destruct (Rlt_dec x y); split; intros; try lra; try discriminate; auto. Qed.

Lemma Int_part_IZR z : Int_part (IZR z) = z.
Proof.
  unfold Int_part. assert (H : (z + 1)%Z = up (IZR z)).
  { apply tech_up; rewrite plus_IZR; simpl; lra. }
  rewrite <- H. lia.
Qed.

Lemma Rpow_2 x : Rpow x 2 = x * x.
Proof.
  unfold Rpow. change 2 with (IZR 2). rewrite Int_part_IZR.
  destruct (Req_EM_T (IZR 2) (IZR 2)) as [_|n]; [|contradiction]. simpl. ring.
Qed.

Lemma nlit_R ora p : nlit (Rops_with ora) p 0 = IZR p.
Proof. reflexivity. Qed.

(* ---------- trigonometric helpers *)
Lemma sin2_half x : sin (x / 2) * sin (x / 2) = (1 - cos x) / 2.
Proof.
  pose proof (cos_2a_sin (x / 2)) as H. replace (2 * (x / 2)) with x in H by field. lra.
Qed.

Lemma cs1 x : cos x * cos x + sin x * sin x = 1.
Proof. pose proof (sin2_cos2 x) as H; unfold Rsqr in H; lra. Qed.

Lemma sqrt_sq_nonneg x : 0 <= x -> sqrt (x * x) = x.
Proof. intros; apply sqrt_square; auto. Qed.

(* cos (atan t) and sin (atan t) in the form used below *)
Lemma cos_atan_pos t : 0 < cos (atan t).
Proof. apply cos_gt_0; pose proof (atan_bound t); lra. Qed.

Lemma atan_polar t : cos (atan t) = / sqrt (1 + t * t) /\ sin (atan t) = t / sqrt (1 + t * t).
Proof.
  split.
  - rewrite cos_atan. unfold Rdiv, Rsqr. now rewrite Rmult_1_l.
  - rewrite sin_atan. reflexivity.
Qed.

(* ---------- atan2: characteristic properties *)
Lemma Ratan2_bound y x : - PI < Ratan2 y x <= PI.
Proof.
  unfold Ratan2. pose proof PI_RGT_0 as HP.
  destruct (Rlt_dec 0 x) as [Hx|Hx].
  { pose proof (atan_bound (y / x)); lra. }
  destruct (Rlt_dec x 0) as [Hx'|Hx'].
  { destruct (Rle_dec 0 y) as [Hy|Hy].
    - assert (y / x <= 0).
      { unfold Rdiv. replace 0 with (y * 0) by ring. apply Rmult_le_compat_l; auto.
        left; apply Rinv_lt_0_compat; auto. }
      assert (atan (y / x) <= 0).
      { destruct (Req_dec (y / x) 0) as [->|Hn]; [rewrite atan_0; lra|].
        left. rewrite <- atan_0. apply atan_increasing. lra. }
      pose proof (atan_bound (y / x)). lra.
    - assert (0 < y / x).
      { unfold Rdiv. replace (y * / x) with ((- y) * (- / x)) by ring.
        apply Rmult_lt_0_compat; [lra|]. pose proof (Rinv_lt_0_compat x Hx'). lra. }
      assert (0 < atan (y / x)). { rewrite <- atan_0. apply atan_increasing; auto. }
      pose proof (atan_bound (y / x)). lra. }
  destruct (Rlt_dec 0 y); [lra|]. destruct (Rlt_dec y 0); lra.
Qed.

(* the point (x, y) is  sqrt(x^2+y^2) * (cos, sin) (atan2 y x) *)
Lemma Ratan2_polar y x :
  x = sqrt (x * x + y * y) * cos (Ratan2 y x) /\ y = sqrt (x * x + y * y) * sin (Ratan2 y x) \/
  (x = 0 /\ y = 0).
Proof.
  unfold Ratan2.
  destruct (Rlt_dec 0 x) as [Hx|Hx]; [|destruct (Rlt_dec x 0) as [Hx'|Hx']].
  - left. destruct (atan_polar (y / x)) as [Hc Hs]. rewrite Hc, Hs.
    assert (E : x * x + y * y = (x * x) * (1 + y / x * (y / x))) by (field; lra).
    assert (Hq : 0 < 1 + y / x * (y / x)) by nra.
    rewrite E, sqrt_mult by nra. rewrite sqrt_sq_nonneg by lra.
    pose proof (sqrt_lt_R0 _ Hq). split; field; lra.
  - left. destruct (atan_polar (y / x)) as [Hc Hs].
    assert (E : x * x + y * y = ((- x) * (- x)) * (1 + y / x * (y / x))) by (field; lra).
    assert (Hq : 0 < 1 + y / x * (y / x)) by nra.
    pose proof (sqrt_lt_R0 _ Hq).
    destruct (Rle_dec 0 y).
    + rewrite cos_plus, sin_plus, cos_PI, sin_PI, Hc, Hs.
      rewrite E, sqrt_mult by nra. rewrite sqrt_sq_nonneg by lra. split; field; lra.
    + rewrite cos_minus, sin_minus, cos_PI, sin_PI, Hc, Hs.
      rewrite E, sqrt_mult by nra. rewrite sqrt_sq_nonneg by lra. split; field; lra.
  - assert (x = 0) by lra. subst x.
    destruct (Rlt_dec 0 y) as [Hy|Hy]; [|destruct (Rlt_dec y 0) as [Hy'|Hy']].
    + left. rewrite cos_PI2, sin_PI2. replace (0 * 0 + y * y) with (y * y) by ring.
      rewrite sqrt_sq_nonneg by lra. lra.
    + left. rewrite cos_neg, sin_neg, cos_PI2, sin_PI2. replace (0 * 0 + y * y) with ((- y) * (- y)) by ring.
      rewrite sqrt_sq_nonneg by lra. lra.
    + right. lra.
Qed.

(* two angles in (-PI, PI] with the same cosine and sine coincide *)
Lemma angle_unique a b : - PI < a <= PI -> - PI < b <= PI -> cos a = cos b -> sin a = sin b -> a = b.
Proof.
  intros Ha Hb Hc Hs. pose proof PI_RGT_0 as HP.
  assert (S0 : sin (a - b) = 0) by (rewrite sin_minus, Hc, Hs; ring).
  assert (C1 : cos (a - b) = 1) by (rewrite cos_minus, Hc, Hs; apply cs1).
  destruct (sin_eq_0_0 _ S0) as [k Hk].
  assert (Hk2 : -2 < IZR k < 2) by (split; nra).
  assert (Hk3 : (-2 < k < 2)%Z) by (split; apply lt_IZR; simpl; lra).
  assert (Hcase : k = (-1)%Z \/ k = 0%Z \/ k = 1%Z) by lia.
  destruct Hcase as [ -> | [ -> | -> ] ]; simpl in Hk.
  - replace (a - b) with (- PI) in C1 by lra. rewrite cos_neg, cos_PI in C1. lra.
  - lra.
  - replace (a - b) with PI in C1 by lra. rewrite cos_PI in C1. lra.
Qed.

(* atan2 inverts the polar parametrisation with positive radius *)
Lemma Ratan2_of_polar k l : 0 < k -> - PI < l <= PI -> Ratan2 (k * sin l) (k * cos l) = l.
Proof.
  intros Hk Hl. apply angle_unique; auto using Ratan2_bound.
  - destruct (Ratan2_polar (k * sin l) (k * cos l)) as [[H1 H2]|[H1 H2]].
    + assert (E : k * cos l * (k * cos l) + k * sin l * (k * sin l) = k * k).
      { replace (k * cos l * (k * cos l) + k * sin l * (k * sin l)) with (k * k * (cos l * cos l + sin l * sin l)) by ring.
        rewrite cs1; ring. }
      rewrite E, sqrt_sq_nonneg in H1 by lra. nra.
    + exfalso. pose proof (cs1 l). assert (cos l = 0) by nra. assert (sin l = 0) by nra. nra.
  - destruct (Ratan2_polar (k * sin l) (k * cos l)) as [[H1 H2]|[H1 H2]].
    + assert (E : k * cos l * (k * cos l) + k * sin l * (k * sin l) = k * k).
      { replace (k * cos l * (k * cos l) + k * sin l * (k * sin l)) with (k * k * (cos l * cos l + sin l * sin l)) by ring.
        rewrite cs1; ring. }
      rewrite E, sqrt_sq_nonneg in H2 by lra. nra.
    + exfalso. pose proof (cs1 l). assert (cos l = 0) by nra. assert (sin l = 0) by nra. nra.
Qed.

(* for a in [0,1]:  atan2 (sqrt a) (sqrt (1-a)) = asin (sqrt a), an angle in [0, PI/2] *)
Lemma Ratan2_sqrt_asin a : 0 <= a <= 1 -> Ratan2 (sqrt a) (sqrt (1 - a)) = asin (sqrt a).
Proof.
  intros Ha. pose proof PI_RGT_0 as HP.
  assert (Hs0 : 0 <= sqrt a) by apply sqrt_pos.
  assert (Hs1 : sqrt a <= 1). { rewrite <- sqrt_1. apply sqrt_le_1_alt; lra. }
  assert (Hsq : sqrt a * sqrt a = a) by (apply sqrt_sqrt; lra).
  assert (Hsq' : sqrt (1 - a) * sqrt (1 - a) = 1 - a) by (apply sqrt_sqrt; lra).
  pose proof (asin_bound (sqrt a)) as Hb.
  assert (Hsin : sin (asin (sqrt a)) = sqrt a) by (apply sin_asin; lra).
  assert (Hcos : cos (asin (sqrt a)) = sqrt (1 - a)).
  { rewrite cos_asin by lra. f_equal. unfold Rsqr. lra. }
  apply angle_unique; try (apply Ratan2_bound); try lra.
  - destruct (Ratan2_polar (sqrt a) (sqrt (1 - a))) as [[H1 H2]|[H1 H2]].
    + rewrite Hsq, Hsq' in H1. replace (1 - a + a) with 1 in H1 by ring. rewrite sqrt_1 in H1. lra.
    + exfalso. rewrite H1 in Hsq'. rewrite H2 in Hsq. lra.
  - destruct (Ratan2_polar (sqrt a) (sqrt (1 - a))) as [[H1 H2]|[H1 H2]].
    + rewrite Hsq, Hsq' in H2. replace (1 - a + a) with 1 in H2 by ring. rewrite sqrt_1 in H2. lra.
    + exfalso. rewrite H1 in Hsq'. rewrite H2 in Hsq. lra.
Qed.
