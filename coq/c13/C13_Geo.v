(* C13_Geo.v — sphere geometry at the real instance: on-sphere, chord = haversine (tied to the
   TRANSLATED estimator kernel dist_haversine), angle identity, Yadrenko covariance, round trips. *)
From Coq Require Import Reals Lra Lia ZArith List Bool.
From GS Require Import Num Loops Estimator_gen C13_RInst C13_Model.
Import ListNotations.
Local Open Scope R_scope.

Ltac rsimp := cbn [nadd nsub nmul ndiv nneg nabs nsqrt ncos nsin nasin natan2 npow nltb nleb n0 n1 npi nofZ
                   Rops Rops_with nlit] in *.

(* ---------- unit conversions *)
Lemma deg2rad_R ora x : deg2rad (Rops_with ora) x = x * (PI / 180).
Proof. reflexivity. Qed.
Lemma rad2deg_R ora x : rad2deg (Rops_with ora) x = x * (180 / PI).
Proof. reflexivity. Qed.
Lemma deg2rad_rad2deg ora x : deg2rad (Rops_with ora) (rad2deg (Rops_with ora) x) = x.
Proof. rewrite deg2rad_R, rad2deg_R. pose proof PI_RGT_0. field. lra. Qed.
Lemma rad2deg_deg2rad ora x : rad2deg (Rops_with ora) (deg2rad (Rops_with ora) x) = x.
Proof. rewrite deg2rad_R, rad2deg_R. pose proof PI_RGT_0. field. lra. Qed.

Lemma nmin_R ora a b : nmin (Rops_with ora) a b = Rmin a b.
Proof.
  unfold nmin; rsimp. unfold Rltb, Rmin. destruct (Rlt_dec b a), (Rle_dec a b); lra.
Qed.
Lemma nmax_R ora a b : nmax (Rops_with ora) a b = Rmax a b.
Proof.
  unfold nmax; rsimp. unfold Rltb, Rmax. destruct (Rlt_dec a b), (Rle_dec a b); lra.
Qed.
Lemma clamp_id lo hi x : lo <= x <= hi -> Rmax (Rmin x hi) lo = x.
Proof. intros H. rewrite Rmin_left by lra. rewrite Rmax_left by lra. reflexivity. Qed.

(* ---------- the three Cartesian coordinates *)
Definition cX r la lo := r * cos (la * (PI / 180)) * cos (lo * (PI / 180)).
Definition cY r la lo := r * cos (la * (PI / 180)) * sin (lo * (PI / 180)).
Definition cZ r la := r * sin (la * (PI / 180)) * 1.

Lemma latlon2pos_R ora r temporal ts la lo rest :
  latlon2pos (Rops_with ora) r temporal ts (la :: lo :: rest)
  = [cX r la lo; cY r la lo; cZ r la] ++ (if temporal then [aget 0 rest 0 / ts] else []).
Proof. unfold latlon2pos. destruct temporal; reflexivity. Qed.

(* C13_on_sphere *)
Lemma on_sphere_xyz r la lo : cX r la lo * cX r la lo + cY r la lo * cY r la lo + cZ r la * cZ r la = r * r.
Proof.
  unfold cX, cY, cZ. pose proof (cs1 (la * (PI / 180))) as H1. pose proof (cs1 (lo * (PI / 180))) as H2.
  set (c := cos (la * (PI / 180))) in *. set (s := sin (la * (PI / 180))) in *.
  set (cl := cos (lo * (PI / 180))) in *. set (sl := sin (lo * (PI / 180))) in *.
  replace (r * c * cl * (r * c * cl) + r * c * sl * (r * c * sl) + r * s * 1 * (r * s * 1))
    with (r * r * (c * c * (cl * cl + sl * sl) + s * s)) by ring.
  rewrite H2, Rmult_1_r, H1. ring.
Qed.

Theorem on_sphere ora r temporal ts la lo rest :
  let p := latlon2pos (Rops_with ora) r temporal ts (la :: lo :: rest) in
  aget 0 p 0 * aget 0 p 0 + aget 0 p 1 * aget 0 p 1 + aget 0 p 2 * aget 0 p 2 = r * r
  /\ dist (Rops_with ora) (firstn 3 p) [0; 0; 0] = Rabs r.
Proof.
  cbv zeta. rewrite latlon2pos_R. split.
  - cbn [app aget nth]. apply on_sphere_xyz.
  - cbn [app firstn]. unfold dist, sqdist. cbn [combine fold_left fst snd]. rsimp.
    rewrite <- sqrt_Rsqr_abs. f_equal. unfold Rsqr. rewrite <- (on_sphere_xyz r la lo). ring.
Qed.

(* ---------- chord and haversine argument *)
Definition hav_arg (p1 l1 p2 l2 : R) : R :=
  sin ((p2 - p1) / 2) * sin ((p2 - p1) / 2) + cos p1 * cos p2 * (sin ((l2 - l1) / 2) * sin ((l2 - l1) / 2)).

Section Poly.
  Variables p1 l1 p2 l2 : R.
  Let c1 := cos p1. Let s1 := sin p1. Let c2 := cos p2. Let s2 := sin p2.
  Let cl1 := cos l1. Let sl1 := sin l1. Let cl2 := cos l2. Let sl2 := sin l2.

  Lemma hav_arg_poly : 4 * hav_arg p1 l1 p2 l2 = 2 - 2 * (c1 * c2 * (cl1 * cl2 + sl1 * sl2) + s1 * s2).
  Proof.
    unfold hav_arg. rewrite !sin2_half, !cos_minus. fold c1 s1 c2 s2 cl1 sl1 cl2 sl2. field.
  Qed.

  Lemma unit_chord :
    (c1 * cl1 - c2 * cl2) * (c1 * cl1 - c2 * cl2) + (c1 * sl1 - c2 * sl2) * (c1 * sl1 - c2 * sl2) + (s1 - s2) * (s1 - s2)
    = 4 * hav_arg p1 l1 p2 l2.
  Proof.
    rewrite hav_arg_poly.
    pose proof (cs1 p1) as H1. pose proof (cs1 p2) as H2. pose proof (cs1 l1) as H3. pose proof (cs1 l2) as H4.
    fold c1 s1 in H1. fold c2 s2 in H2. fold cl1 sl1 in H3. fold cl2 sl2 in H4.
    replace ((c1 * cl1 - c2 * cl2) * (c1 * cl1 - c2 * cl2) + (c1 * sl1 - c2 * sl2) * (c1 * sl1 - c2 * sl2) + (s1 - s2) * (s1 - s2))
      with (c1 * c1 * (cl1 * cl1 + sl1 * sl1) + c2 * c2 * (cl2 * cl2 + sl2 * sl2) + (s1 * s1 + s2 * s2)
            - 2 * (c1 * c2 * (cl1 * cl2 + sl1 * sl2) + s1 * s2)) by ring.
    rewrite H3, H4. lra.
  Qed.

  Lemma unit_antichord :
    (c1 * cl1 + c2 * cl2) * (c1 * cl1 + c2 * cl2) + (c1 * sl1 + c2 * sl2) * (c1 * sl1 + c2 * sl2) + (s1 + s2) * (s1 + s2)
    = 4 * (1 - hav_arg p1 l1 p2 l2).
  Proof.
    replace (4 * (1 - hav_arg p1 l1 p2 l2)) with (4 - 4 * hav_arg p1 l1 p2 l2) by ring. rewrite hav_arg_poly.
    pose proof (cs1 p1) as H1. pose proof (cs1 p2) as H2. pose proof (cs1 l1) as H3. pose proof (cs1 l2) as H4.
    fold c1 s1 in H1. fold c2 s2 in H2. fold cl1 sl1 in H3. fold cl2 sl2 in H4.
    replace ((c1 * cl1 + c2 * cl2) * (c1 * cl1 + c2 * cl2) + (c1 * sl1 + c2 * sl2) * (c1 * sl1 + c2 * sl2) + (s1 + s2) * (s1 + s2))
      with (c1 * c1 * (cl1 * cl1 + sl1 * sl1) + c2 * c2 * (cl2 * cl2 + sl2 * sl2) + (s1 * s1 + s2 * s2)
            + 2 * (c1 * c2 * (cl1 * cl2 + sl1 * sl2) + s1 * s2)) by ring.
    rewrite H3, H4. lra.
  Qed.

  (* the haversine argument lies in [0,1] for ALL latitudes / longitudes (also outside [-90,90]) *)
  Lemma hav_arg_range : 0 <= hav_arg p1 l1 p2 l2 <= 1.
  Proof.
    pose proof unit_chord as Hc. pose proof unit_antichord as Ha.
    assert (Sq : forall u v w : R, 0 <= u * u + v * v + w * w).
    { intros u v w. pose proof (Rle_0_sqr u). pose proof (Rle_0_sqr v). pose proof (Rle_0_sqr w). unfold Rsqr in *. lra. }
    pose proof (Sq (c1 * cl1 - c2 * cl2) (c1 * sl1 - c2 * sl2) (s1 - s2)) as S1. rewrite Hc in S1.
    pose proof (Sq (c1 * cl1 + c2 * cl2) (c1 * sl1 + c2 * sl2) (s1 + s2)) as S2. rewrite Ha in S2.
    lra.
  Qed.
End Poly.

Definition d2r (x : R) := x * (PI / 180).

(* C13_chord_is_haversine: squared chord between two lat-lon points on the sphere of radius r *)
Theorem chord_sq_haversine ora r la1 lo1 la2 lo2 :
  sqdist (Rops_with ora) (latlon2pos (Rops_with ora) r false 1 [la1; lo1]) (latlon2pos (Rops_with ora) r false 1 [la2; lo2])
  = 4 * (r * r) * hav_arg (d2r la1) (d2r lo1) (d2r la2) (d2r lo2).
Proof.
  rewrite !latlon2pos_R. unfold sqdist. cbn [app combine fold_left fst snd]. rsimp.
  pose proof (unit_chord (d2r la1) (d2r lo1) (d2r la2) (d2r lo2)) as H. unfold d2r in *.
  replace (4 * (r * r) * hav_arg (la1 * (PI / 180)) (lo1 * (PI / 180)) (la2 * (PI / 180)) (lo2 * (PI / 180)))
    with (r * r * (4 * hav_arg (la1 * (PI / 180)) (lo1 * (PI / 180)) (la2 * (PI / 180)) (lo2 * (PI / 180)))) by ring.
  rewrite <- H. unfold cX, cY, cZ. ring.
Qed.

(* the translated kernel at the real instance *)
Lemma dist_haversine_R ora dim pos i j :
  dist_haversine (Rops_with ora) dim pos i j
  = 2 * Ratan2 (sqrt (hav_arg (d2r (aget2 0 pos 0 i)) (d2r (aget2 0 pos 1 i)) (d2r (aget2 0 pos 0 j)) (d2r (aget2 0 pos 1 j))))
               (sqrt (1 - hav_arg (d2r (aget2 0 pos 0 i)) (d2r (aget2 0 pos 1 i)) (d2r (aget2 0 pos 0 j)) (d2r (aget2 0 pos 1 j)))).
Proof.
  unfold dist_haversine. rsimp. rewrite !Rpow_2. unfold hav_arg, d2r.
  set (pi := aget2 0 pos 0 i). set (pj := aget2 0 pos 0 j). set (li := aget2 0 pos 1 i). set (lj := aget2 0 pos 1 j).
  replace ((pj - pi) * (PI / 180) / 2) with ((pj * (PI / 180) - pi * (PI / 180)) / 2) by field.
  replace ((lj - li) * (PI / 180) / 2) with ((lj * (PI / 180) - li * (PI / 180)) / 2) by field.
  reflexivity.
Qed.

(* C13_haversine_angle *)
Theorem haversine_angle a : 0 <= a <= 1 ->
  let theta := 2 * Ratan2 (sqrt a) (sqrt (1 - a)) in
  theta = 2 * asin (sqrt a) /\ 0 <= theta <= PI /\ sin (theta / 2) = sqrt a.
Proof.
  intros Ha. cbv zeta. rewrite Ratan2_sqrt_asin by auto.
  assert (Hs0 : 0 <= sqrt a) by apply sqrt_pos.
  assert (Hs1 : sqrt a <= 1). { rewrite <- sqrt_1. apply sqrt_le_1_alt; lra. }
  split; [reflexivity|]. split.
  - pose proof (asin_bound (sqrt a)). assert (0 <= asin (sqrt a)).
    { destruct (Rle_dec 0 (asin (sqrt a))) as [|Hn]; auto. exfalso.
      assert (Hneg : sin (asin (sqrt a)) < 0) by (apply sin_lt_0_var; pose proof PI_RGT_0; lra).
      rewrite sin_asin in Hneg by lra. lra. }
    lra.
  - replace (2 * asin (sqrt a) / 2) with (asin (sqrt a)) by field. apply sin_asin; lra.
Qed.

Lemma dist_haversine_range ora dim pos i j : 0 <= dist_haversine (Rops_with ora) dim pos i j <= PI.
Proof.
  rewrite dist_haversine_R. apply (haversine_angle _ (hav_arg_range _ _ _ _)).
Qed.

(* cross-module statement: the Euclidean distance of the two isometrized (3-D) points equals the chordal
   distance the model computes from the estimator's great-circle distance (in units of the radius) *)
Theorem chord_is_haversine ora r pos i j : 0 < r ->
  dist (Rops_with ora) (latlon2pos (Rops_with ora) r false 1 [aget2 0 pos 0 i; aget2 0 pos 1 i])
                       (latlon2pos (Rops_with ora) r false 1 [aget2 0 pos 0 j; aget2 0 pos 1 j])
  = great_circle_to_chordal (Rops_with ora) (r * dist_haversine (Rops_with ora) 2 pos i j) r.
Proof.
  intros Hr. unfold dist. rewrite chord_sq_haversine. unfold great_circle_to_chordal, two. rsimp.
  rewrite dist_haversine_R.
  set (a := hav_arg _ _ _ _). assert (Ha : 0 <= a <= 1) by apply hav_arg_range.
  destruct (haversine_angle a Ha) as (_ & _ & Hs).
  replace (r * (2 * Ratan2 (sqrt a) (sqrt (1 - a))) / (2 * r)) with (2 * Ratan2 (sqrt a) (sqrt (1 - a)) / 2) by (field; lra).
  rewrite Hs. replace (4 * (r * r) * a) with ((2 * r) * (2 * r) * a) by ring.
  rewrite sqrt_mult by nra. rewrite sqrt_sq_nonneg by lra. reflexivity.
Qed.

(* and back: the great-circle distance recovered from the chord is the estimator's distance *)
Theorem great_circle_of_chord ora r pos i j : 0 < r ->
  chordal_to_great_circle (Rops_with ora)
    (dist (Rops_with ora) (latlon2pos (Rops_with ora) r false 1 [aget2 0 pos 0 i; aget2 0 pos 1 i])
                          (latlon2pos (Rops_with ora) r false 1 [aget2 0 pos 0 j; aget2 0 pos 1 j])) r
  = r * dist_haversine (Rops_with ora) 2 pos i j.
Proof.
  intros Hr. unfold dist. rewrite chord_sq_haversine. unfold chordal_to_great_circle, two. rsimp.
  rewrite dist_haversine_R. rewrite nmin_R, nmax_R.
  set (a := hav_arg _ _ _ _). assert (Ha : 0 <= a <= 1) by apply hav_arg_range.
  replace (4 * (r * r) * a) with ((2 * r) * (2 * r) * a) by ring.
  rewrite sqrt_mult by nra. rewrite sqrt_sq_nonneg by lra.
  replace (2 * r * sqrt a / (2 * r)) with (sqrt a) by (field; lra).
  assert (Hs0 : 0 <= sqrt a) by apply sqrt_pos.
  assert (Hs1 : sqrt a <= 1). { rewrite <- sqrt_1. apply sqrt_le_1_alt; lra. }
  rewrite clamp_id by lra. rewrite Ratan2_sqrt_asin by auto. ring.
Qed.

(* the two conversions are mutually inverse on their ranges *)
Theorem chordal_great_circle_inverse ora r d : 0 < r -> 0 <= d <= 2 * r ->
  great_circle_to_chordal (Rops_with ora) (chordal_to_great_circle (Rops_with ora) d r) r = d.
Proof.
  intros Hr Hd. unfold great_circle_to_chordal, chordal_to_great_circle, two. rsimp. rewrite nmin_R, nmax_R.
  assert (0 <= d / (2 * r) <= 1).
  { split; [apply Rmult_le_pos; [lra | left; apply Rinv_0_lt_compat; lra]|].
    apply Rmult_le_reg_r with (2 * r); [lra|]. unfold Rdiv. rewrite Rmult_assoc, Rinv_l by lra. lra. }
  rewrite clamp_id by lra.
  replace (2 * r * asin (d / (2 * r)) / (2 * r)) with (asin (d / (2 * r))) by (field; lra).
  rewrite sin_asin by lra. field; lra.
Qed.

Theorem great_circle_chordal_inverse ora r z : 0 < r -> 0 <= z <= PI * r ->
  chordal_to_great_circle (Rops_with ora) (great_circle_to_chordal (Rops_with ora) z r) r = z.
Proof.
  intros Hr Hz. unfold great_circle_to_chordal, chordal_to_great_circle, two. rsimp. rewrite nmin_R, nmax_R.
  replace (2 * r * sin (z / (2 * r)) / (2 * r)) with (sin (z / (2 * r))) by (field; lra).
  pose proof PI_RGT_0 as HP.
  assert (Hq : 0 <= z / (2 * r) <= PI / 2).
  { split; [apply Rmult_le_pos; [lra | left; apply Rinv_0_lt_compat; lra]|].
    apply Rmult_le_reg_r with (2 * r); [lra|]. unfold Rdiv at 1. rewrite Rmult_assoc, Rinv_l by lra. lra. }
  assert (0 <= sin (z / (2 * r)) <= 1).
  { split; [apply sin_ge_0; lra | apply SIN_bound]. }
  rewrite clamp_id by lra. rewrite asin_sin by lra. field; lra.
Qed.

(* ---------- C13_cov_is_yadrenko: lat-lon model, any covariance function of the distance *)
Theorem cov_is_yadrenko ora (cf : R -> R) (m : geomodel (T := R)) la1 lo1 la2 lo2 :
  g_latlon m = true -> g_temporal m = false -> 0 < g_geo_scale m ->
  cf (dist (Rops_with ora) (isometrize (Rops_with ora) m [la1; lo1]) (isometrize (Rops_with ora) m [la2; lo2]))
  = cov_yadrenko (Rops_with ora) cf (g_geo_scale m)
      (g_geo_scale m * dist_haversine (Rops_with ora) 2 [[la1; la2]; [lo1; lo2]] 0 1).
Proof.
  intros Hl Ht Hg. unfold isometrize, cov_yadrenko. rewrite Hl, Ht. f_equal.
  pose proof (chord_is_haversine ora (g_geo_scale m) [[la1; la2]; [lo1; lo2]] 0 1 Hg) as H.
  cbn [aget2 arow aget nth] in H.
  rewrite <- H. unfold latlon2pos. reflexivity.
Qed.

(* ---------- round trips *)
(* C13_pos_latlon_pos : latlon2pos o pos2latlon = id on the sphere (and on the time axis) *)
Theorem pos_latlon_pos ora r x y z : 0 < r -> x * x + y * y + z * z = r * r ->
  latlon2pos (Rops_with ora) r false 1 (pos2latlon (Rops_with ora) r false 1 [x; y; z]) = [x; y; z].
Proof.
  intros Hr Hs. unfold pos2latlon. cbn [app aget nth]. unfold latlon2pos. cbn [app aget nth].
  rewrite !deg2rad_rad2deg. rsimp. rewrite nmin_R, nmax_R.
  assert (Hz : -1 <= z / r <= 1).
  { assert (z * z <= r * r) by nra. assert (- r <= z <= r) by nra.
    split; [apply Rmult_le_reg_r with r; [lra|] | apply Rmult_le_reg_r with r; [lra|]];
      unfold Rdiv; rewrite Rmult_assoc, Rinv_l by lra; lra. }
  replace (- (1)) with (-1) by ring.
  rewrite clamp_id by lra. rewrite sin_asin by lra. rewrite cos_asin by lra.
  assert (Hc : sqrt (1 - (z / r)²) = sqrt (x * x + y * y) / r).
  { replace (1 - (z / r)²) with ((x * x + y * y) * (/ r * / r)).
    - rewrite sqrt_mult by (try nra; pose proof (Rinv_0_lt_compat r Hr); nra).
      rewrite sqrt_sq_nonneg by (left; apply Rinv_0_lt_compat; lra). reflexivity.
    - unfold Rsqr. replace (x * x + y * y) with (r * r - z * z) by lra. field; lra. }
  rewrite Hc.
  destruct (Ratan2_polar y x) as [[Hx Hy]|[Hx Hy]].
  - f_equal; [|f_equal; [|f_equal]].
    + transitivity (sqrt (x * x + y * y) * cos (Ratan2 y x)); [field; lra | symmetry; exact Hx].
    + transitivity (sqrt (x * x + y * y) * sin (Ratan2 y x)); [field; lra | symmetry; exact Hy].
    + field; lra.
  - subst x y. replace (0 * 0 + 0 * 0) with 0 by ring. rewrite sqrt_0.
    f_equal; [|f_equal; [|f_equal]]; field; lra.
Qed.

Theorem pos_latlon_pos_time ora r ts x y z t : 0 < r -> ts <> 0 -> x * x + y * y + z * z = r * r ->
  latlon2pos (Rops_with ora) r true ts (pos2latlon (Rops_with ora) r true ts [x; y; z; t]) = [x; y; z; t].
Proof.
  intros Hr Hts Hs. pose proof (pos_latlon_pos ora r x y z Hr Hs) as H.
  assert (E1 : pos2latlon (Rops_with ora) r true ts [x; y; z; t]
               = pos2latlon (Rops_with ora) r false 1 [x; y; z] ++ [t * ts]) by reflexivity.
  rewrite E1. remember (pos2latlon (Rops_with ora) r false 1 [x; y; z]) as q eqn:Eq.
  assert (Hq : exists A B, q = [A; B]) by (rewrite Eq; unfold pos2latlon; cbn [app]; eauto).
  destruct Hq as (A & B & ->). cbn [app].
  assert (E2 : latlon2pos (Rops_with ora) r true ts [A; B; t * ts]
               = latlon2pos (Rops_with ora) r false 1 [A; B] ++ [t * ts / ts]) by reflexivity.
  rewrite E2, H. cbn [app]. do 4 f_equal. field; auto.
Qed.

(* C13_latlon_pos_latlon : identity for lat in (-90, 90), lon in (-180, 180] *)
Theorem latlon_pos_latlon ora r la lo : 0 < r -> -90 < la < 90 -> -180 < lo <= 180 ->
  pos2latlon (Rops_with ora) r false 1 (latlon2pos (Rops_with ora) r false 1 [la; lo]) = [la; lo].
Proof.
  intros Hr Hla Hlo. pose proof PI_RGT_0 as HP.
  unfold latlon2pos. cbn [app aget nth]. unfold pos2latlon. cbn [app aget nth].
  rewrite !deg2rad_R. rsimp. rewrite nmin_R, nmax_R.
  assert (Hphi : - (PI / 2) < la * (PI / 180) < PI / 2) by (split; nra).
  assert (Hlam : - PI < lo * (PI / 180) <= PI) by (split; nra).
  replace (r * sin (la * (PI / 180)) * 1 / r) with (sin (la * (PI / 180))) by (field; lra).
  replace (- (1)) with (-1) by ring.
  pose proof (SIN_bound (la * (PI / 180))).
  rewrite clamp_id by lra. rewrite asin_sin by lra.
  assert (Hk : 0 < r * cos (la * (PI / 180))) by (apply Rmult_lt_0_compat; [lra | apply cos_gt_0; lra]).
  rewrite (Ratan2_of_polar (r * cos (la * (PI / 180))) (lo * (PI / 180)) Hk Hlam).
  rewrite <- !(deg2rad_R ora), !rad2deg_deg2rad. reflexivity.
Qed.

(* the latitude is recovered on the closed range, for every longitude (poles included) *)
Theorem latlon_pos_lat ora r la lo : 0 < r -> -90 <= la <= 90 ->
  aget 0 (pos2latlon (Rops_with ora) r false 1 (latlon2pos (Rops_with ora) r false 1 [la; lo])) 0 = la.
Proof.
  intros Hr Hla. pose proof PI_RGT_0 as HP.
  unfold latlon2pos. cbn [app aget nth]. unfold pos2latlon. cbn [app aget nth].
  rewrite !deg2rad_R. rsimp. rewrite nmin_R, nmax_R.
  assert (Hphi : - (PI / 2) <= la * (PI / 180) <= PI / 2) by (split; nra).
  replace (r * sin (la * (PI / 180)) * 1 / r) with (sin (la * (PI / 180))) by (field; lra).
  replace (- (1)) with (-1) by ring.
  pose proof (SIN_bound (la * (PI / 180))).
  rewrite clamp_id by lra. rewrite asin_sin by lra.
  rewrite <- !(deg2rad_R ora), !rad2deg_deg2rad. reflexivity.
Qed.

(* stated limit: at the poles the longitude is NOT recoverable — every longitude maps to the same point *)
Theorem pole_longitude_lost ora r lo lo' :
  latlon2pos (Rops_with ora) r false 1 [90; lo] = latlon2pos (Rops_with ora) r false 1 [90; lo'].
Proof.
  rewrite !latlon2pos_R. unfold cX, cY, cZ. replace (90 * (PI / 180)) with (PI / 2) by field.
  rewrite cos_PI2. cbn [app]. f_equal; [ring | f_equal; ring].
Qed.

(* modulo 360 degrees: any longitude gives the same 3-D point, hence the same round trip *)
Theorem longitude_periodic ora r la lo (k : Z) :
  latlon2pos (Rops_with ora) r false 1 [la; lo + 360 * IZR k] = latlon2pos (Rops_with ora) r false 1 [la; lo].
Proof.
  rewrite !latlon2pos_R. unfold cX, cY.
  replace ((lo + 360 * IZR k) * (PI / 180)) with (lo * (PI / 180) + 2 * IZR k * PI) by field.
  assert (Hc : forall x z, cos (x + 2 * IZR z * PI) = cos x /\ sin (x + 2 * IZR z * PI) = sin x).
  { intros x z. rewrite cos_plus, sin_plus.
    assert (Hs : sin (2 * IZR z * PI) = 0).
    { apply sin_eq_0_1. exists (2 * z)%Z. rewrite mult_IZR. simpl. ring. }
    assert (Hco : cos (2 * IZR z * PI) = 1).
    { replace (2 * IZR z * PI) with (2 * (IZR z * PI)) by ring. rewrite cos_2a_sin.
      assert (Hz : sin (IZR z * PI) = 0) by (apply sin_eq_0_1; exists z; reflexivity).
      rewrite Hz. ring. }
    rewrite Hs, Hco. split; ring. }
  destruct (Hc (lo * (PI / 180)) k) as [-> ->]. reflexivity.
Qed.

(* ---------- bins: variogram.py divides the bin edges by geo_scale and the kernel compares them with the angle;
   that is the same as comparing the great-circle distance geo_scale * angle with the user's edges *)
Theorem bins_geo_scale ora g lo hi theta : 0 < g ->
  in_bin (Rops_with ora) (lo / g) (hi / g) theta = in_bin (Rops_with ora) lo hi (g * theta).
Proof.
  intros Hg. unfold in_bin. rsimp. unfold Rleb, Rltb.
  assert (E1 : lo / g <= theta <-> lo <= g * theta).
  { split; intros H.
    - apply Rmult_le_compat_l with (r := g) in H; [|lra]. replace (g * (lo / g)) with lo in H by (field; lra). exact H.
    - apply Rmult_le_reg_l with g; [lra|]. replace (g * (lo / g)) with lo by (field; lra). exact H. }
  assert (E2 : theta < hi / g <-> g * theta < hi).
  { split; intros H.
    - apply Rmult_lt_compat_l with (r := g) in H; [|lra]. replace (g * (hi / g)) with hi in H by (field; lra). exact H.
    - apply Rmult_lt_reg_l with g; [lra|]. replace (g * (hi / g)) with hi by (field; lra). exact H. }
  destruct (Rle_dec (lo / g) theta), (Rle_dec lo (g * theta)), (Rlt_dec theta (hi / g)), (Rlt_dec (g * theta) hi);
    try reflexivity; tauto.
Qed.
