(* C13_Tie.v — the hand model's distance conversions ARE the formulas translated from tools/geometric.py
   (coq/gen/Formulas_gen.v, regenerated from /repo by tools/py2coq.py on every proof stage): syntactically equal up
   to unfolding, hence for EVERY number type and without side conditions (np.minimum/np.maximum appear as one
   comparison each on both sides: Formulas.fmin/fmax = C13_Model.nmin/nmax).  The theorems about the conversions
   are then restated on the generated definitions. *)
From Coq Require Import Reals Lra List ZArith Bool.
From GS Require Import Num Loops Formulas Formulas_gen Estimator_gen C13_RInst C13_Model C13_Geo.
Import ListNotations.

Lemma great_circle_to_chordal_tie (T : Type) (O : NumOps T) (dist radius : T) :
  Formulas_gen.great_circle_to_chordal O dist radius = C13_Model.great_circle_to_chordal O dist radius.
Proof. reflexivity. Qed.

Lemma chordal_to_great_circle_tie (T : Type) (O : NumOps T) (dist radius : T) :
  Formulas_gen.chordal_to_great_circle O dist radius = C13_Model.chordal_to_great_circle O dist radius.
Proof. reflexivity. Qed.

Local Open Scope R_scope.

(* inverse pair, on the translated source formulas *)
Lemma gen_chordal_great_circle_inverse ora r : 0 < r ->
  (forall d, 0 <= d <= 2 * r ->
     Formulas_gen.great_circle_to_chordal (Rops_with ora) (Formulas_gen.chordal_to_great_circle (Rops_with ora) d r) r = d) /\
  (forall z, 0 <= z <= PI * r ->
     Formulas_gen.chordal_to_great_circle (Rops_with ora) (Formulas_gen.great_circle_to_chordal (Rops_with ora) z r) r = z).
Proof.
  intros Hr. split; intros x Hx; rewrite great_circle_to_chordal_tie, chordal_to_great_circle_tie.
  - now apply chordal_great_circle_inverse.
  - now apply great_circle_chordal_inverse.
Qed.

(* cross-module statement on translated kernel AND translated conversions *)
Lemma gen_estimator_distance_is_model_distance ora r pos i j : 0 < r ->
  dist (Rops_with ora) (latlon2pos (Rops_with ora) r false 1 [aget2 0 pos 0 i; aget2 0 pos 1 i])
                       (latlon2pos (Rops_with ora) r false 1 [aget2 0 pos 0 j; aget2 0 pos 1 j])
  = Formulas_gen.great_circle_to_chordal (Rops_with ora) (r * dist_haversine (Rops_with ora) 2 pos i j) r
  /\ Formulas_gen.chordal_to_great_circle (Rops_with ora)
       (dist (Rops_with ora) (latlon2pos (Rops_with ora) r false 1 [aget2 0 pos 0 i; aget2 0 pos 1 i])
                             (latlon2pos (Rops_with ora) r false 1 [aget2 0 pos 0 j; aget2 0 pos 1 j])) r
     = r * dist_haversine (Rops_with ora) 2 pos i j.
Proof.
  intros Hr. rewrite great_circle_to_chordal_tie, chordal_to_great_circle_tie.
  split; [now apply chord_is_haversine | now apply great_circle_of_chord].
Qed.

(* cov_yadrenko of the source: covariance o (translated great_circle_to_chordal) *)
Lemma gen_cov_yadrenko (T : Type) (O : NumOps T) (cf : T -> T) geo zeta :
  cov_yadrenko O cf geo zeta = cf (Formulas_gen.great_circle_to_chordal O zeta geo).
Proof. reflexivity. Qed.
