(* C10_Refute.v — the bookkeeping of the PINNED tree (fx = false) violates the property: concrete optimiser traces over Q,
   every evaluation point and popt inside the bounds.  (The repaired bookkeeping, fx = true, is what C10_RProofs is about.) *)
From Coq Require Import QArith Qabs List Arith Bool ZArith Lia.
From GS Require Import Num Loops C10_Model.
Import ListNotations.

(* rationals as a number type; var_factor [code 100] := the first argument (len_scale), a stand-in for the TPL models'
   dependence of var_factor on len_scale; every other oracle code is 1 *)
Definition Qops (vf_len : bool) : NumOps Q := {|
  n0 := 0; n1 := 1;
  nadd := Qplus; nsub := Qminus; nmul := Qmult; ndiv := Qdiv;
  nneg := Qopp; nabs := Qabs; nsqrt := fun x => x;
  ncos := fun x => x; nsin := fun x => x; nexp := fun x => x; nln := fun x => x;
  nacos := fun x => x; nasin := fun x => x; natan := fun x => x; natan2 := fun x _ => x;
  npow := fun x _ => x;
  nltb := fun x y => negb (Qle_bool y x); nleb := Qle_bool; neqb := Qeq_bool;
  nisnan := fun _ => false;
  nofZ := inject_Z;
  npi := 3;
  noracle := fun code args => if vf_len then match args with l :: _ => l | [] => 1 end else 1
|}.

Definition bnd_pos : Bnd Q := mkBnd (Some 0) None false true.        (* (0, inf)  "oo" *)
Definition bnd_nug : Bnd Q := mkBnd (Some 0) None true false.         (* [0, inf)  "co" *)
Definition cfg1 : Cfg Q := mkCfg bnd_pos bnd_pos bnd_nug bnd_pos [] 1 false 1.
Definition st1 : MState Q := mkSt 1 1 0 [] [].

(* sill = 1 prescribed, len_scale deselected, var the only fitted parameter (the nugget is determined by the sill);
   the optimiser evaluates var = 1/2, then 3/4 (a finite-difference step), and returns popt = 1/2 *)
Lemma sill_refuted :
  exists (s' : MState Q) (d : Dict Q),
    check_ok (Qops false) cfg1 st1 = true /\
    fit_run (Qops false) false cfg1 0 [(1%nat, SDesel)] (SillVal 1) ATrue false [[1 # 2]; [3 # 4]] [1 # 2] st1 = Ok (s', d)
    /\ ~ (get_var (Qops false) s' + m_nug s' == 1)
    /\ get_var (Qops false) s' + m_nug s' == 3 # 4.
Proof.
  eexists. eexists. split; [vm_compute; reflexivity|]. split; [vm_compute; reflexivity|].
  split; vm_compute; intros; try discriminate; reflexivity.
Qed.

(* the repaired bookkeeping on the same trace *)
Lemma sill_repaired_witness :
  exists (s' : MState Q) (d : Dict Q),
    fit_run (Qops false) true cfg1 0 [(1%nat, SDesel)] (SillVal 1) ATrue false [[1 # 2]; [3 # 4]] [1 # 2] st1 = Ok (s', d)
    /\ get_var (Qops false) s' + m_nug s' == 1 /\ d_nug d == m_nug s'.
Proof.
  eexists. eexists. split; [vm_compute; reflexivity|]. split; vm_compute; reflexivity.
Qed.

(* var fixed to 2, nugget deselected, len_scale fitted, var_factor = len_scale: evaluations at len_scale 2 and 3, popt = 2.
   The raw variance is left at 2/3 (from the last evaluation), so var = 4/3, and the dictionary says 2. *)
Lemma fixed_var_refuted :
  exists (s' : MState Q) (d : Dict Q),
    check_ok (Qops true) cfg1 st1 = true /\
    fit_run (Qops true) false cfg1 0 [(0%nat, SFixed 2); (2%nat, SDesel)] SillNone ATrue false [[2]; [3]] [2] st1 = Ok (s', d)
    /\ ~ (get_var (Qops true) s' == 2) /\ ~ (d_var d == get_var (Qops true) s').
Proof.
  eexists. eexists. split; [vm_compute; reflexivity|]. split; [vm_compute; reflexivity|].
  split; vm_compute; intros; discriminate.
Qed.

(* var deselected (value 1 before the call), len_scale fixed to 2, var_factor = len_scale: the first loop of _pre_para
   changes the variance to 2 and it stays there *)
Lemma desel_var_refuted :
  exists (s' : MState Q) (d : Dict Q),
    check_ok (Qops true) cfg1 st1 = true /\
    fit_run (Qops true) false cfg1 0 [(0%nat, SDesel); (1%nat, SFixed 2)] SillNone ATrue false [[1 # 3]] [1 # 3] st1 = Ok (s', d)
    /\ get_var (Qops true) st1 == 1 /\ ~ (get_var (Qops true) s' == 1).
Proof.
  eexists. eexists. split; [vm_compute; reflexivity|]. split; [vm_compute; reflexivity|].
  split; vm_compute; intros; try discriminate; reflexivity.
Qed.

Lemma fixed_var_repaired_witness :
  exists (s' : MState Q) (d : Dict Q),
    fit_run (Qops true) true cfg1 0 [(0%nat, SFixed 2); (2%nat, SDesel)] SillNone ATrue false [[2]; [3]] [2] st1 = Ok (s', d)
    /\ get_var (Qops true) s' == 2 /\ d_var d == get_var (Qops true) s'.
Proof.
  eexists. eexists. split; [vm_compute; reflexivity|]. split; vm_compute; reflexivity.
Qed.
