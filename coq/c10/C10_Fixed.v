(* C10_Fixed.v — parameters that are deselected or given fixed values keep their values. *)
From Coq Require Import Reals List Arith Bool ZArith Lia Lra.
From GS Require Import Num Loops RInst C10_Model C10_Proofs C10_RProofs.
Import ListNotations.
Close Scope R_scope.

Section FixedGeneric.
  Context {T : Type} (O : NumOps T).
  Notation MS := (MState T).

  (* the value the first loop of _pre_para leaves in parameter i (keywords are processed in order) *)
  Fixpoint lastfix (sel : list (nat * Sel T)) (i : nat) (d : T) : T :=
    match sel with
    | [] => d
    | (j, k) :: r => lastfix r i (match k with SFixed v => if j =? i then v else d | _ => d end)
    end.

  Lemma lastfix_nofix sel i : forall d, (forall v, ~ In (i, SFixed v) sel) -> lastfix sel i d = d.
  Proof.
    induction sel as [|[j k] r IH]; intros d H; simpl; auto.
    rewrite IH.
    - destruct k as [| |v]; auto. destruct (j =? i) eqn:E; auto. apply Nat.eqb_eq in E. subst j.
      exfalso. apply (H v). left; auto.
    - intros v Hv. apply (H v). right; auto.
  Qed.
  Lemma lastfix_fixed sel i v : forall d, NoDup (map fst sel) -> In (i, SFixed v) sel -> lastfix sel i d = v.
  Proof.
    induction sel as [|[j k] r IH]; intros d ND H; simpl in *; [contradiction|].
    inversion ND as [|? ? Hn ND']; subst. destruct H as [H|H].
    - inversion H; subst. rewrite Nat.eqb_refl. apply lastfix_nofix.
      intros w Hw. apply Hn. change i with (fst (i, SFixed w)). apply in_map. auto.
    - apply IH; auto.
  Qed.
  Lemma nf_in_In (sel : list (nat * Sel T)) i k : In (i, k) sel -> is_nf k = true -> nf_in sel i = true.
  Proof.
    intros H K. unfold nf_in. apply existsb_exists. exists (i, k). split; auto. simpl. rewrite Nat.eqb_refl, K. auto.
  Qed.

  Lemma apply_fixed_vals (d0 : T) c nopt sel : forall s s', apply_fixed O c nopt sel s = Ok s' ->
    length (m_opt s) = nopt ->
    m_varraw s' = m_varraw s /\ m_len s' = lastfix sel 1 (m_len s) /\ m_nug s' = lastfix sel 2 (m_nug s)
    /\ (forall j, j < nopt -> aget d0 (m_opt s') j = lastfix sel (3 + j) (aget d0 (m_opt s) j))
    /\ m_anis s' = m_anis s.
  Proof.
    induction sel as [|[i k] r IH]; intros s s' H Hn.
    - inversion H; subst. simpl. auto 6.
    - rewrite apply_fixed_cons in H. destruct (3 + nopt <=? i) eqn:Ei; [discriminate|].
      apply Nat.leb_gt in Ei.
      destruct k as [| |v]; try (apply IH in H; auto; exact H).
      destruct (i =? 0) eqn:E0.
      + apply Nat.eqb_eq in E0. subst i. apply IH in H; auto.
      + apply Nat.eqb_neq in E0. bk H s1 E. destruct i as [|[|[|j0]]]; [lia| | |]; simpl in E;
          apply chk_ok in E; destruct E as [-> _]; apply IH in H; simpl in *; auto;
          destruct H as [H1 [H2 [H3 [H4 H5]]]]; repeat split; auto.
        * intros j Hj. rewrite H4 by auto. f_equal.
          destruct (j0 =? j) eqn:Ej.
          -- apply Nat.eqb_eq in Ej. subst. apply aget_aupd_same. lia.
          -- apply Nat.eqb_neq in Ej. apply aget_aupd_other. auto.
        * rewrite aupd_length. auto.
  Qed.

  Lemma ov_opts_below (d0 : T) vs : forall n l i, i < n -> aget d0 (ov_opts vs n l) i = aget d0 l i.
  Proof.
    induction vs as [|o vs IH]; intros n l i Hi; simpl; auto.
    rewrite IH by lia. destruct o; auto. apply aget_aupd_other. lia.
  Qed.
  Lemma ov_opts_untouched (d0 : T) mask : forall a i l k, nth k mask true = false ->
    aget d0 (ov_opts (take_opts O mask a) i l) (i + k) = aget d0 l (i + k).
  Proof.
    induction mask as [|m r IH]; intros a i l k H; simpl in *.
    - destruct k; discriminate.
    - destruct k as [|k].
      + subst m. simpl. rewrite Nat.add_0_r. apply ov_opts_below. lia.
      + destruct m; simpl; replace (i + S k) with (S i + k) by lia.
        * rewrite IH by auto. apply aget_aupd_other. lia.
        * apply IH; auto.
  Qed.

  (* what _pre_para leaves in the parameters that are not handed to the optimiser *)
  Lemma pre_para_vals (d0 : T) fx c nopt sel sill anis (s0 s1 : MS) para so af :
    pre_para O fx c nopt sel sill anis s0 = Ok (s1, para, so, af) ->
    length (m_opt s0) = nopt ->
    m_len s1 = lastfix sel 1 (m_len s0)
    /\ (sill = SillNone -> m_nug s1 = lastfix sel 2 (m_nug s0) /\ p_nug para = negb (nf_in sel 2) /\ p_var para = negb (nf_in sel 0) /\ so = None)
    /\ (forall j, j < nopt -> aget d0 (m_opt s1) j = lastfix sel (3 + j) (aget d0 (m_opt s0) j))
    /\ p_len para = negb (nf_in sel 1)
    /\ p_opt para = map (fun i => negb (nf_in sel (3 + i))) (seq 0 nopt)
    /\ match anis with
       | AFixed a => m_anis s1 = norm_anis O c a /\ af = false
       | ATrue => m_anis s1 = m_anis s0 /\ af = true
       | AFalse => m_anis s1 = m_anis s0 /\ af = false
       end.
  Proof.
    unfold pre_para. intros H Hn.
    bk H t1 Pa. bk H t2 Pb. bk H r Pc. destruct r as [[[t3 nfv] nfn] so'].
    apply (apply_fixed_vals d0) in Pa; auto. destruct Pa as [V1 [V2 [V3 [V4 V5]]]].
    apply oset_var_ok in Pb. destruct Pb as [-> _].
    assert (W : forall o, m_len (oupd (upd_var O) o t1) = m_len t1 /\ m_nug (oupd (upd_var O) o t1) = m_nug t1
                 /\ m_opt (oupd (upd_var O) o t1) = m_opt t1 /\ m_anis (oupd (upd_var O) o t1) = m_anis t1)
      by (intros [?|]; simpl; auto).
    destruct (W (var_target O fx sel s0)) as [W1 [W2 [W3 W4]]].
    pose proof (sill_book_frame O _ _ _ _ _ _ _ _ _ Pc) as [_ [F2 [F3 [F4 _]]]].
    assert (SN : sill = SillNone -> t3 = oupd (upd_var O) (var_target O fx sel s0) t1 /\ nfv = nf_in sel 0 /\ nfn = nf_in sel 2 /\ so' = None).
    { intros ->. simpl in Pc. inversion Pc; subst; auto. }
    assert (C1 : m_len t3 = lastfix sel 1 (m_len s0)) by congruence.
    assert (C3 : forall j, j < nopt -> aget d0 (m_opt t3) j = lastfix sel (3 + j) (aget d0 (m_opt s0) j))
      by (intros j Hj; rewrite F4, W3; auto).
    assert (C2 : sill = SillNone -> m_nug t3 = lastfix sel 2 (m_nug s0) /\ nfn = nf_in sel 2 /\ nfv = nf_in sel 0 /\ so' = None).
    { intros Hs. destruct (SN Hs) as [-> [-> [-> ->]]]. repeat split; auto. congruence. }
    assert (C5 : m_anis t3 = m_anis s0) by congruence.
    destruct anis as [| |a].
    - inversion H; subst; simpl. split; [exact C1|].
      split; [intros Hs; destruct (C2 Hs) as [? [-> [-> ?]]]; auto|].
      split; [exact C3|]. split; [reflexivity|]. split; [reflexivity|]. split; auto.
    - inversion H; subst; simpl. split; [exact C1|].
      split; [intros Hs; destruct (C2 Hs) as [? [-> [-> ?]]]; auto|].
      split; [exact C3|]. split; [reflexivity|]. split; [reflexivity|]. split; auto.
    - bk H t4 Pd. apply set_anis_ok in Pd. destruct Pd as [-> _]. inversion H; subst; simpl.
      split; [exact C1|].
      split; [intros Hs; destruct (C2 Hs) as [? [-> [-> ?]]]; auto|].
      split; [exact C3|]. split; [reflexivity|]. split; [reflexivity|]. split; auto.
  Qed.

  (* STRUCTURAL part of "fixed / deselected parameters are untouched" (every number type):
     len_scale, nugget (no sill prescribed), optional arguments, anisotropy *)
  Theorem untouched_structural (d0 : T) c nopt sel sill anis isdir evs popt (s0 s' : MS) d :
    length (m_opt s0) = nopt ->
    fit_run O true c nopt sel sill anis isdir evs popt s0 = Ok (s', d) ->
    (nf_in sel 1 = true -> m_len s' = lastfix sel 1 (m_len s0))
    /\ (nf_in sel 2 = true -> sill = SillNone -> m_nug s' = lastfix sel 2 (m_nug s0))
    /\ (forall j, j < nopt -> nf_in sel (3 + j) = true ->
          aget d0 (m_opt s') j = lastfix sel (3 + j) (aget d0 (m_opt s0) j))
    /\ match anis with
       | AFixed a => m_anis s' = norm_anis O c a
       | ATrue => isdir = false -> m_anis s' = m_anis s0
       | AFalse => m_anis s' = m_anis s0
       end.
  Proof.
    intros Hn. rewrite fit_run_split.
    destruct (pre_para O true c nopt sel sill anis s0) as [[[[s1 para] so] af]|] eqn:Ep; cbn [bind fst snd]; [|discriminate].
    intros H. destruct (pre_para_frame O _ _ _ _ _ _ _ _ _ _ _ Ep Hn) as [Hl _].
    apply after_pre_ok in H; auto. destruct H as [-> _].
    destruct (pre_para_vals d0 _ _ _ _ _ _ _ _ _ _ _ Ep Hn) as [P1 [P2 [P3 [P4 [P5 P6]]]]].
    unfold final_pure. cbn [m_len m_nug m_opt m_anis].
    split; [|split; [|split]].
    - intros N1. rewrite (v_len_none O c para _ popt) by (rewrite P4, N1; reflexivity). simpl. auto.
    - intros N2 Hs. destruct (P2 Hs) as [Q1 [Q2 [Q3 ->]]].
      rewrite (v_nug_none O c para _ popt) by (rewrite Q2, N2; reflexivity).
      destruct (v_var _); simpl; auto.
    - intros j Hj Nj. destruct (v_opt_mask O c para (af && isdir) popt) as [a ->].
      rewrite <- (P3 j Hj). change j with (0 + j) at 1 2. apply ov_opts_untouched.
      rewrite P5. rewrite nth_indep with (d' := negb (nf_in sel (3 + 0))) by (rewrite map_length, seq_length; auto).
      rewrite map_nth with (f := fun i => negb (nf_in sel (3 + i))). rewrite seq_nth by auto. simpl. simpl in Nj. rewrite Nj. reflexivity.
    - destruct anis as [| |a]; destruct P6 as [P6 ->]; cbn [andb]; rewrite ?v_anis_none; auto.
      intros ->. rewrite ?andb_false_r. rewrite v_anis_none. auto.
  Qed.

  Lemma nodup_key_unique (sel : list (nat * Sel T)) i k1 k2 :
    NoDup (map fst sel) -> In (i, k1) sel -> In (i, k2) sel -> k1 = k2.
  Proof.
    induction sel as [|[j k] r IH]; intros ND H1 H2; simpl in *; [contradiction|].
    inversion ND as [|? ? Hn ND']; subst.
    destruct H1 as [H1|H1], H2 as [H2|H2].
    - congruence.
    - inversion H1; subst. exfalso. apply Hn. change i with (fst (i, k2)). apply in_map; auto.
    - inversion H2; subst. exfalso. apply Hn. change i with (fst (i, k1)). apply in_map; auto.
    - auto.
  Qed.
  Lemma lastfix_desel sel i d : NoDup (map fst sel) -> In (i, SDesel) sel -> lastfix sel i d = d.
  Proof.
    intros ND H. apply lastfix_nofix. intros v Hv. pose proof (nodup_key_unique _ _ _ _ ND H Hv). discriminate.
  Qed.

  (* the user-facing form: keyword arguments are distinct names *)
  Theorem fixed_untouched (d0 : T) c nopt sel sill anis isdir evs popt (s0 s' : MS) d :
    length (m_opt s0) = nopt -> NoDup (map fst sel) ->
    fit_run O true c nopt sel sill anis isdir evs popt s0 = Ok (s', d) ->
    ((forall v, In (1, SFixed v) sel -> m_len s' = v) /\ (In (1, SDesel) sel -> m_len s' = m_len s0))
    /\ (sill = SillNone ->
        (forall v, In (2, SFixed v) sel -> m_nug s' = v) /\ (In (2, SDesel) sel -> m_nug s' = m_nug s0))
    /\ (forall j, j < nopt ->
        (forall v, In (3 + j, SFixed v) sel -> aget d0 (m_opt s') j = v)
        /\ (In (3 + j, SDesel) sel -> aget d0 (m_opt s') j = aget d0 (m_opt s0) j))
    /\ match anis with
       | AFixed a => m_anis s' = norm_anis O c a
       | ATrue => isdir = false -> m_anis s' = m_anis s0
       | AFalse => m_anis s' = m_anis s0
       end.
  Proof.
    intros Hn ND H. destruct (untouched_structural d0 _ _ _ _ _ _ _ _ _ _ _ Hn H) as [U1 [U2 [U3 U4]]].
    split; [split|split; [|split]].
    - intros v Hv. rewrite U1 by (eapply nf_in_In; eauto). apply lastfix_fixed; auto.
    - intros Hv. rewrite U1 by (eapply nf_in_In; eauto). apply lastfix_desel; auto.
    - intros Hs. split.
      + intros v Hv. rewrite U2; auto; [|eapply nf_in_In; eauto]. apply lastfix_fixed; auto.
      + intros Hv. rewrite U2; auto; [|eapply nf_in_In; eauto]. apply lastfix_desel; auto.
    - intros j Hj. split.
      + intros v Hv. rewrite U3; auto; [|eapply nf_in_In; eauto]. apply lastfix_fixed; auto.
      + intros Hv. rewrite U3; auto; [|eapply nf_in_In; eauto]. apply lastfix_desel; auto.
    - exact U4.
  Qed.
End FixedGeneric.

Section FixedR.
  Variable ora : nat -> list R -> R.
  Hypothesis ora_nz : forall args, ora ORA_VARFACTOR args <> 0%R.
  Notation O := (Rops ora).
  Notation MS := (MState R).
  Open Scope R_scope.

  Lemma var_target_fixed fx sel (s0 : MS) v : NoDup (map fst sel) -> In (0%nat, SFixed v) sel -> var_target O fx sel s0 = Some v.
  Proof.
    unfold var_target. induction sel as [|[j k] r IH]; intros ND H; simpl in *; [contradiction|].
    inversion ND as [|? ? Hn ND']; subst. destruct H as [H|H].
    - inversion H; subst. reflexivity.
    - destruct (j =? 0)%nat eqn:E; [|apply IH; auto].
      apply Nat.eqb_eq in E. subst j. exfalso. apply Hn. change 0%nat with (fst (0%nat, @SFixed R v)). apply in_map. auto.
  Qed.
  Lemma var_target_desel sel (s0 : MS) : NoDup (map fst sel) -> In (0%nat, SDesel) sel -> var_target O true sel s0 = Some (get_var O s0).
  Proof.
    unfold var_target. induction sel as [|[j k] r IH]; intros ND H; simpl in *; [contradiction|].
    inversion ND as [|? ? Hn ND']; subst. destruct H as [H|H].
    - inversion H; subst. reflexivity.
    - destruct (j =? 0)%nat eqn:E; [|apply IH; auto].
      apply Nat.eqb_eq in E. subst j. exfalso. apply Hn. change 0%nat with (fst (0%nat, @SDesel R)). apply in_map. auto.
  Qed.

  (* the variance: not fitted, no sill prescribed => it is the fixed value / the value before the call,
     although every evaluation of the curve and every change of len_scale / opt args rescaled the raw variance *)
  Theorem untouched_var c nopt sel anis isdir evs popt (s0 s' : MS) d tv :
    length (m_opt s0) = nopt ->
    fit_run O true c nopt sel SillNone anis isdir evs popt s0 = Ok (s', d) ->
    nf_in sel 0 = true -> var_target O true sel s0 = Some tv ->
    get_var O s' = tv.
  Proof.
    intros Hn. rewrite fit_run_split.
    destruct (pre_para O true c nopt sel SillNone anis s0) as [[[[s1 para] so] af]|] eqn:Ep; cbn [bind fst snd]; [|discriminate].
    intros H N0 Ht. destruct (pre_para_frame O _ _ _ _ _ _ _ _ _ _ _ Ep Hn) as [Hl _].
    apply after_pre_ok in H; auto. destruct H as [-> _].
    destruct (pre_para_vals O 0 _ _ _ _ _ _ _ _ _ _ _ Ep Hn) as [_ [P2 _]].
    destruct (P2 eq_refl) as [_ [_ [Q3 _]]].
    rewrite (get_var_final ora ora_nz).
    rewrite (v_var_none O c para _ popt) by (rewrite Q3, N0; reflexivity). cbn [odflt].
    (* the variance after _pre_para is the target *)
    revert Ep. unfold pre_para. intros H. bk H t1 Pa. bk H t2 Pb. bk H r Pc. destruct r as [[[t3 nfv] nfn] so'].
    rewrite Ht in Pb. simpl in Pb. apply set_var_ok in Pb. destruct Pb as [-> _].
    simpl in Pc. inversion Pc; subst.
    destruct anis as [| |a].
    - inversion H; subst. apply (get_upd_var ora ora_nz).
    - inversion H; subst. apply (get_upd_var ora ora_nz).
    - bk H t4 Pd. apply set_anis_ok in Pd. destruct Pd as [-> _]. inversion H; subst.
      unfold upd_anis_n. rewrite get_var_upd_anis. apply (get_upd_var ora ora_nz).
  Qed.

  Theorem fixed_untouched_var c nopt sel anis isdir evs popt (s0 s' : MS) d :
    length (m_opt s0) = nopt -> NoDup (map fst sel) ->
    fit_run O true c nopt sel SillNone anis isdir evs popt s0 = Ok (s', d) ->
    (forall v, In (0%nat, SFixed v) sel -> get_var O s' = v)
    /\ (In (0%nat, SDesel) sel -> get_var O s' = get_var O s0).
  Proof.
    intros Hn ND H. split.
    - intros v Hv. eapply untouched_var; eauto.
      + eapply nf_in_In; eauto.
      + apply var_target_fixed; auto.
    - intros Hv. eapply untouched_var; eauto.
      + eapply nf_in_In; eauto.
      + apply var_target_desel; auto.
  Qed.

  Example ora_nz_satisfiable : exists ora0 : nat -> list R -> R, forall args, ora0 ORA_VARFACTOR args <> 0.
  Proof. exists (fun _ _ => 1). intros; lra. Qed.
End FixedR.
