(* C10_Proofs.v — structural facts about FitBook (every number type):
   every successful setter is a pure field update, the state after the call is a closed form of
   (state after _pre_para, popt) — whatever the optimiser evaluated in between. *)
From Coq Require Import List Arith Bool ZArith Lia.
From GS Require Import Num Loops C10_Model.
Import ListNotations.

Lemma bind_Ok {A B} (r : Res A) (f : A -> Res B) b : bind r f = Ok b -> exists a, r = Ok a /\ f a = Ok b.
Proof. destruct r; simpl; intros H; [eauto|discriminate]. Qed.
Lemma last_cons_dflt {A} (l : list A) : forall x d, last (x :: l) d = last l x.
Proof.
  induction l as [|y l IH]; intros x d; [reflexivity|].
  change (last (x :: y :: l) d) with (last (y :: l) d). rewrite (IH y d), (IH y x). reflexivity.
Qed.
Ltac bk H x E := cbv zeta in H; apply bind_Ok in H; destruct H as [x [E H]].

Section Structural.
  Context {T : Type} (O : NumOps T).
  Notation MS := (MState T).

  (* ---------- setters *)
  Lemma chk_ok c (x s : MS) : chk O c x = Ok s -> s = x /\ check_ok O c s = true.
  Proof. unfold chk. destruct (check_ok O c x) eqn:E; intros H; inversion H; subst; auto. Qed.

  Definition upd_optl (s : MS) (l : list T) : MS := mkSt (m_varraw s) (m_len s) (m_nug s) l (m_anis s).
  Definition oupd {A} (f : MS -> A -> MS) (o : option A) (s : MS) : MS :=
    match o with Some v => f s v | None => s end.
  Definition upd_anis_n c (s : MS) (a : list T) : MS := upd_anis s (norm_anis O c a).

  Lemma set_var_ok c s v s' : set_var O c s v = Ok s' -> s' = upd_var O s v /\ check_ok O c s' = true.
  Proof. apply chk_ok. Qed.
  Lemma set_len_ok c s v s' : set_len O c s v = Ok s' -> s' = upd_len s v /\ check_ok O c s' = true.
  Proof. apply chk_ok. Qed.
  Lemma set_nug_ok c s v s' : set_nug O c s v = Ok s' -> s' = upd_nug s v /\ check_ok O c s' = true.
  Proof. apply chk_ok. Qed.
  Lemma set_opt_ok c i s v s' : set_opt O c i s v = Ok s' -> s' = upd_opt i s v /\ check_ok O c s' = true.
  Proof. apply chk_ok. Qed.
  Lemma set_anis_ok c s a s' : set_anis O c s a = Ok s' -> s' = upd_anis_n c s a /\ check_ok O c s' = true.
  Proof.
    unfold set_anis. destruct (forallb _ _); [|discriminate]. apply chk_ok.
  Qed.

  Lemma oset_len_ok c o s s' : oset (set_len O c) o s = Ok s' ->
    s' = oupd upd_len o s /\ (check_ok O c s = true -> check_ok O c s' = true).
  Proof. destruct o; simpl; intros H. - apply set_len_ok in H. tauto. - inversion H; auto. Qed.
  Lemma oset_nug_ok c o s s' : oset (set_nug O c) o s = Ok s' ->
    s' = oupd upd_nug o s /\ (check_ok O c s = true -> check_ok O c s' = true).
  Proof. destruct o; simpl; intros H. - apply set_nug_ok in H. tauto. - inversion H; auto. Qed.
  Lemma oset_var_ok c o s s' : oset (set_var O c) o s = Ok s' ->
    s' = oupd (upd_var O) o s /\ (check_ok O c s = true -> check_ok O c s' = true).
  Proof. destruct o; simpl; intros H. - apply set_var_ok in H. tauto. - inversion H; auto. Qed.
  Lemma oset_anis_ok c o s s' : oset (set_anis O c) o s = Ok s' ->
    s' = oupd (upd_anis_n c) o s /\ (check_ok O c s = true -> check_ok O c s' = true).
  Proof. destruct o; simpl; intros H. - apply set_anis_ok in H. tauto. - inversion H; auto. Qed.

  (* ---------- optional arguments *)
  Fixpoint ov_opts (vs : list (option T)) (i : nat) (l : list T) : list T :=
    match vs with
    | [] => l
    | o :: r => ov_opts r (S i) (match o with Some v => aupd l i v | None => l end)
    end.

  Lemma set_opts_ok c vs : forall i s s', set_opts O c vs i s = Ok s' ->
    s' = upd_optl s (ov_opts vs i (m_opt s)) /\ (check_ok O c s = true -> check_ok O c s' = true).
  Proof.
    induction vs as [|o r IH]; intros i s s' H; simpl in *.
    - inversion H; subst. destruct s'; auto.
    - destruct (oset (set_opt O c i) o s) as [s1|] eqn:E; simpl in H; [|discriminate].
      apply IH in H. destruct H as [H1 H2]. destruct o as [v|]; simpl in E.
      + apply set_opt_ok in E. destruct E as [E1 E2]. subst s1. simpl in *. split; auto.
      + inversion E; subst. split; auto.
  Qed.

  Lemma ov_opts_length vs : forall i l, length (ov_opts vs i l) = length l.
  Proof. induction vs as [|o r IH]; intros; simpl; auto. rewrite IH. destruct o; auto. apply aupd_length. Qed.

  Lemma ov_opts_aupd_comm vs : forall i j l v, j < i -> ov_opts vs i (aupd l j v) = aupd (ov_opts vs i l) j v.
  Proof.
    induction vs as [|o r IH]; intros i j l v Hj; simpl; auto.
    destruct o as [w|].
    - rewrite aupd_comm by lia. apply IH; lia.
    - apply IH; lia.
  Qed.

  (* the cells written are determined by the mask alone, so a later assignment erases an earlier one *)
  Lemma ov_opts_absorb mask : forall a b i l,
    ov_opts (take_opts O mask a) i (ov_opts (take_opts O mask b) i l) = ov_opts (take_opts O mask a) i l.
  Proof.
    induction mask as [|m r IH]; intros a b i l; simpl; auto.
    destruct m; simpl.
    - rewrite (ov_opts_aupd_comm _ (S i) i l) by lia.
      rewrite aupd_aupd_same.
      rewrite <- (ov_opts_aupd_comm _ (S i) i l) by lia.
      apply IH.
    - apply IH.
  Qed.

  Lemma firstn_S_aupd (l : list T) : forall i v, i < length l -> firstn (S i) (aupd l i v) = firstn i l ++ [v].
  Proof.
    induction l as [|x l IH]; intros [|i] v H; simpl in *; try lia; auto.
    f_equal. apply IH. lia.
  Qed.
  Lemma firstn_S_aget (d : T) (l : list T) : forall i, i < length l -> firstn (S i) l = firstn i l ++ [aget d l i].
  Proof.
    unfold aget. induction l as [|x l IH]; intros [|i] H; simpl in *; try lia; auto.
    f_equal. apply IH. lia.
  Qed.
  Lemma firstn_aupd_ge (l : list T) : forall i j v, i <= j -> firstn i (aupd l j v) = firstn i l.
  Proof.
    induction l as [|x l IH]; intros [|i] [|j] v H; simpl in *; try lia; auto.
    f_equal. apply IH. lia.
  Qed.

  Lemma post_opts_ok c vs : forall i acc s s' d, post_opts O c vs i acc s = Ok (s', d) ->
    s' = upd_optl s (ov_opts vs i (m_opt s)) /\ (check_ok O c s = true -> check_ok O c s' = true)
    /\ (i + length vs = length (m_opt s) -> rev acc = firstn i (m_opt s) -> d = m_opt s').
  Proof.
    induction vs as [|o r IH]; intros i acc s s' d H; simpl in *.
    - inversion H; subst. split; [destruct s'; auto|]. split; auto.
      intros Hl Hr. rewrite Hr. rewrite Nat.add_0_r in Hl. subst i. apply firstn_all.
    - destruct o as [v|].
      + destruct (set_opt O c i s v) as [s1|] eqn:E; simpl in H; [|discriminate].
        apply set_opt_ok in E. destruct E as [E1 E2]. subst s1.
        apply IH in H. destruct H as [H1 [H2 H3]]. simpl in *. split; auto. split; auto.
        intros Hl Hr. apply H3.
        * rewrite aupd_length. lia.
        * simpl. rewrite Hr. symmetry. apply firstn_S_aupd. lia.
      + apply IH in H. destruct H as [H1 [H2 H3]]. split; auto. split; auto.
        intros Hl Hr. apply H3; [lia|]. simpl. rewrite Hr. symmetry. apply firstn_S_aget. lia.
  Qed.

  (* ---------- the layout of an argument vector depends on the selection only *)
  Lemma v_var_some c p fa args : p_var p = true -> v_var (vals_of O c p fa args) = Some (hd (n0 O) args).
  Proof. intros H. unfold vals_of, take1. rewrite H. reflexivity. Qed.
  Lemma v_var_none c p fa args : p_var p = false -> v_var (vals_of O c p fa args) = None.
  Proof. intros H. unfold vals_of, take1. rewrite H. reflexivity. Qed.
  Lemma v_len_none c p fa args : p_len p = false -> v_len (vals_of O c p fa args) = None.
  Proof. intros H. unfold vals_of, take1. rewrite H. destruct (p_var p); reflexivity. Qed.
  Lemma v_len_some c p fa args : p_len p = true -> exists v, v_len (vals_of O c p fa args) = Some v.
  Proof. intros H. unfold vals_of, take1. rewrite H. destruct (p_var p); simpl; eauto. Qed.
  Lemma v_nug_none c p fa args : p_nug p = false -> v_nug (vals_of O c p fa args) = None.
  Proof. intros H. unfold vals_of, take1. rewrite H. destruct (p_var p), (p_len p); reflexivity. Qed.
  Lemma v_nug_some c p fa args : p_nug p = true -> exists v, v_nug (vals_of O c p fa args) = Some v.
  Proof. intros H. unfold vals_of, take1. rewrite H. destruct (p_var p), (p_len p); simpl; eauto. Qed.
  Lemma v_opt_mask c p fa args : exists a, v_opt (vals_of O c p fa args) = take_opts O (p_opt p) a.
  Proof. unfold vals_of. simpl. eauto. Qed.
  Lemma v_anis_none c p args : v_anis (vals_of O c p false args) = None.
  Proof. reflexivity. Qed.
  Lemma v_anis_some c p args : exists a, v_anis (vals_of O c p true args) = Some a.
  Proof. simpl. eauto. Qed.

  (* ---------- one evaluation of the curve, as a pure update *)
  Definition curve_pure c (vs : Vals T) (var_save : T) (s0 : MS) : MS :=
    let s1 := oupd upd_len (v_len vs) s0 in
    let s2 := oupd upd_nug (v_nug vs) s1 in
    let s3 := upd_optl s2 (ov_opts (v_opt vs) 0 (m_opt s2)) in
    let s4 := upd_var O s3 (odflt (v_var vs) var_save) in
    oupd (upd_anis_n c) (v_anis vs) s4.

  Lemma curve_go_ok c vs var_save s0 s' : curve_go O c vs var_save s0 = Ok s' ->
    s' = curve_pure c vs var_save s0 /\ check_ok O c s' = true.
  Proof.
    unfold curve_go, curve_pure. intros H.
    destruct (oset (set_len O c) (v_len vs) s0) as [s1|] eqn:E1; simpl in H; [|discriminate].
    destruct (oset (set_nug O c) (v_nug vs) s1) as [s2|] eqn:E2; simpl in H; [|discriminate].
    destruct (set_opts O c (v_opt vs) 0 s2) as [s3|] eqn:E3; simpl in H; [|discriminate].
    destruct (set_var O c s3 _) as [s4|] eqn:E4; simpl in H; [|discriminate].
    apply oset_len_ok in E1. apply oset_nug_ok in E2. apply set_opts_ok in E3. apply set_var_ok in E4.
    apply oset_anis_ok in H.
    destruct E1 as [-> _], E2 as [-> _], E3 as [-> _], E4 as [-> K4], H as [-> K].
    split; auto.
  Qed.

  (* the state after one evaluation: either untouched (punishment) or the pure update of the state
     with the dependent nugget *)
  Definition curve_step_pure c p so fa var_save (s : MS) (args : list T) : MS :=
    let vs := vals_of O c p fa args in
    match v_var vs, so with
    | Some v, Some sv =>
        let nt := nsub O sv v in
        if bnd_case O (c_bnug c) nt =? 0 then curve_pure c vs var_save (upd_nug s nt) else s
    | _, _ => curve_pure c vs var_save s
    end.
  Lemma curve_step_ok c p so fa var_save s args s' : curve_step O c p so fa var_save s args = Ok s' ->
    s' = curve_step_pure c p so fa var_save s args /\ (check_ok O c s = true -> check_ok O c s' = true).
  Proof.
    unfold curve_step, curve_step_pure. intros H.
    destruct (v_var (vals_of O c p fa args)) as [v|] eqn:Ev.
    - destruct so as [sv|].
      + destruct (bnd_case O (c_bnug c) (nsub O sv v) =? 0).
        * destruct (set_nug O c s (nsub O sv v)) as [s0|] eqn:E0; simpl in H; [|discriminate].
          apply set_nug_ok in E0. destruct E0 as [-> _]. apply curve_go_ok in H. tauto.
        * inversion H; subst; auto.
      + apply curve_go_ok in H. tauto.
    - apply curve_go_ok in H. destruct so; tauto.
  Qed.

  (* ---------- closed form of the state after the call (repaired bookkeeping) *)
  Definition final_pure c (p : Para) (so : option T) (fa : bool) (var_save : T) (s : MS) (popt : list T) : MS :=
    let vs := vals_of O c p fa popt in
    let len' := odflt (v_len vs) (m_len s) in
    let nug' := match v_var vs, so with
                | Some v, Some sv => nsub O sv v
                | _, _ => odflt (v_nug vs) (m_nug s)
                end in
    let opt' := ov_opts (v_opt vs) 0 (m_opt s) in
    let anis' := match v_anis vs with Some a => norm_anis O c a | None => m_anis s end in
    mkSt (ndiv O (odflt (v_var vs) var_save) (noracle O ORA_VARFACTOR (len' :: opt'))) len' nug' opt' anis'.

  Definition dict_pure (p : Para) (isdir : bool) (vs : Vals T) (s' : MS) : Dict T :=
    mkDict (odflt (v_var vs) (get_var O s')) (m_len s') (m_nug s') (m_opt s')
           (if isdir then Some (m_anis s') else None).

  Lemma odflt_oupd_len o (s : MS) : m_len (oupd upd_len o s) = odflt o (m_len s).
  Proof. destruct o; reflexivity. Qed.
  Lemma odflt_oupd_nug o (s : MS) : m_nug (oupd upd_nug o s) = odflt o (m_nug s).
  Proof. destruct o; reflexivity. Qed.

  Lemma post_ok c p so fa isdir var_save s popt s' d :
    post O true c p so fa isdir var_save s popt = Ok (s', d) ->
    length (p_opt p) = length (m_opt s) ->
    s' = final_pure c p so fa var_save s popt
    /\ d = dict_pure p isdir (vals_of O c p fa popt) s'
    /\ (check_ok O c s = true -> check_ok O c s' = true).
  Proof.
    unfold post. remember (vals_of O c p fa popt) as vs eqn:Hvs. intros H Hlen.
    bk H s1 E1. bk H s2 E2. bk H so3 E3. destruct so3 as [s3 dopt]. bk H s4 E4. simpl fst in *. simpl snd in *.
    apply oset_len_ok in E1. apply oset_nug_ok in E2. pose proof (post_opts_ok _ _ _ _ _ _ _ E3) as E3'. apply oset_anis_ok in E4.
    destruct E1 as [-> K1], E2 as [-> K2], E3' as [-> [K3 D3]], E4 as [-> K4].
    assert (Hm : forall o1 o2, m_opt (oupd upd_nug o2 (oupd upd_len o1 s)) = m_opt s)
      by (intros [?|] [?|]; reflexivity).
    assert (Hopt : dopt = ov_opts (v_opt vs) 0 (m_opt s)).
    { rewrite D3.
      - unfold upd_optl; simpl. rewrite Hm. reflexivity.
      - rewrite Hm. destruct (v_opt_mask c p fa popt) as [a Ha]. rewrite <- Hvs in Ha.
        assert (length (v_opt vs) = length (p_opt p)) as ->.
        { rewrite Ha. clear. generalize a. induction (p_opt p) as [|[|] r IH]; intros; simpl; auto. }
        simpl. auto.
      - reflexivity. }
    subst dopt.
    rewrite Hm in *.
    destruct (v_var vs) as [v|] eqn:Ev.
    - bk H s5 E5.
      apply set_var_ok in E5. destruct E5 as [-> K5].
      destruct so as [sv|].
      + bk H s6 E6.
        apply set_nug_ok in E6. destruct E6 as [-> K6]. inversion H; subst s' d; clear H.
        unfold final_pure, dict_pure. rewrite <- Hvs. rewrite Ev.
        destruct (v_len vs), (v_nug vs), (v_anis vs), isdir; simpl; auto.
      + inversion H; subst s' d; clear H.
        unfold final_pure, dict_pure. rewrite <- Hvs. rewrite Ev.
        destruct (v_len vs), (v_nug vs), (v_anis vs), isdir; simpl; auto.
    - bk H s5 E5.
      apply set_var_ok in E5. destruct E5 as [-> K5]. inversion H; subst s' d; clear H.
      unfold final_pure, dict_pure. rewrite <- Hvs. rewrite Ev.
      destruct (v_len vs), (v_nug vs), (v_anis vs), isdir, so; simpl; auto.
  Qed.

  (* an evaluation of the curve does not change what the call will finally produce *)
  Lemma final_curve_step c p so fa var_save s args popt :
    final_pure c p so fa var_save (curve_step_pure c p so fa var_save s args) popt
    = final_pure c p so fa var_save s popt.
  Proof.
    unfold final_pure, curve_step_pure, curve_pure.
    destruct (v_opt_mask c p fa popt) as [a Ha]. destruct (v_opt_mask c p fa args) as [b Hb].
    rewrite Ha, Hb.
    destruct (p_var p) eqn:Pv; [rewrite !(v_var_some c p fa) by auto | rewrite !(v_var_none c p fa) by auto];
    (destruct (p_len p) eqn:Pl;
      [destruct (v_len_some c p fa args Pl) as [l1 ->]; destruct (v_len_some c p fa popt Pl) as [l2 ->]
      | rewrite !(v_len_none c p fa) by auto]);
    (destruct (p_nug p) eqn:Pn;
      [destruct (v_nug_some c p fa args Pn) as [n1 ->]; destruct (v_nug_some c p fa popt Pn) as [n2 ->]
      | rewrite !(v_nug_none c p fa) by auto]);
    (destruct fa;
      [destruct (v_anis_some c p args) as [a1 ->]; destruct (v_anis_some c p popt) as [a2 ->]
      | rewrite !v_anis_none]);
    destruct so as [sv|]; simpl;
    try (destruct (bnd_case O (c_bnug c) (nsub O sv (hd (n0 O) args)) =? 0); simpl);
    rewrite ?ov_opts_absorb; reflexivity.
  Qed.

  Lemma curve_pure_len c vs var_save s : length (m_opt (curve_pure c vs var_save s)) = length (m_opt s).
  Proof.
    unfold curve_pure. destruct (v_anis vs), (v_len vs), (v_nug vs); simpl; rewrite ov_opts_length; reflexivity.
  Qed.
  Lemma curve_step_pure_len c p so fa var_save s args :
    length (m_opt (curve_step_pure c p so fa var_save s args)) = length (m_opt s).
  Proof.
    unfold curve_step_pure. destruct (v_var (vals_of O c p fa args)) as [v|]; [destruct so as [sv|]|].
    - destruct (bnd_case O (c_bnug c) (nsub O sv v) =? 0); [rewrite curve_pure_len|]; reflexivity.
    - apply curve_pure_len.
    - apply curve_pure_len.
  Qed.

  Lemma run_evals_ok c p so fa var_save evs : forall s s', run_evals O c p so fa var_save evs s = Ok s' ->
    (forall popt, final_pure c p so fa var_save s' popt = final_pure c p so fa var_save s popt)
    /\ length (m_opt s') = length (m_opt s)
    /\ (check_ok O c s = true -> check_ok O c s' = true).
  Proof.
    induction evs as [|a r IH]; intros s s' H; simpl in H.
    - inversion H; subst; auto.
    - destruct (curve_step O c p so fa var_save s a) as [s1|] eqn:E; simpl in H; [|discriminate].
      apply curve_step_ok in E. destruct E as [-> K1]. apply IH in H. destruct H as [H1 [H2 H3]].
      split; [|split].
      + intros popt. rewrite H1. apply final_curve_step.
      + rewrite H2. apply curve_step_pure_len.
      + auto.
  Qed.

  (* the per-evaluation trace is the very fold the call performs: its last state is the one _post_fitting starts from *)
  Lemma evals_states_run c p so fa var_save evs : forall s l, evals_states O c p so fa var_save evs s = Ok l ->
    length l = length evs /\ run_evals O c p so fa var_save evs s = Ok (last l s).
  Proof.
    induction evs as [|a r IH]; intros s l H; simpl in H.
    - inversion H; subst; auto.
    - bk H s1 E. bk H l1 E'. inversion H; subst. apply IH in E'. destruct E' as [L R]. simpl. rewrite E. simpl.
      split; [simpl; congruence|]. rewrite R. f_equal. symmetry. apply last_cons_dflt.
  Qed.
  Lemma evals_states_step c p so fa var_save evs : forall s l, evals_states O c p so fa var_save evs s = Ok l ->
    forall k, k < length evs ->
      nth k l s = curve_step_pure c p so fa var_save (match k with 0 => s | S k' => nth k' l s end) (nth k evs []).
  Proof.
    induction evs as [|a r IH]; intros s l H k Hk; simpl in *; [lia|].
    bk H s1 E. bk H l1 E'. inversion H; subst. apply curve_step_ok in E. destruct E as [E _].
    destruct k as [|k]; simpl; auto.
    rewrite (nth_indep _ s s1) by (apply evals_states_run in E'; destruct E' as [L _]; lia).
    rewrite (IH _ _ E' k) by lia. destruct k; auto.
    rewrite (nth_indep _ s s1); auto. apply evals_states_run in E'. destruct E' as [L _]. lia.
  Qed.

  (* ---------- the whole call after _pre_para *)
  Definition after_pre (fx : bool) c (para : Para) (so : option T) (af isdir : bool) (evs : list (list T)) (popt : list T)
      (s1 : MS) : Res (MS * Dict T) :=
    if isdir && c_latlon c then Err E_LATLON else
    s2 <- run_evals O c para so (af && isdir) (get_var O s1) evs s1;;
    post O fx c para so (af && isdir) isdir (get_var O s1) s2 popt.

  Lemma fit_run_split fx c nopt sel sill anis isdir evs popt s0 :
    fit_run O fx c nopt sel sill anis isdir evs popt s0 =
    (pp <- pre_para O fx c nopt sel sill anis s0;;
     after_pre fx c (snd (fst (fst pp))) (snd (fst pp)) (snd pp) isdir evs popt (fst (fst (fst pp)))).
  Proof.
    unfold fit_run, after_pre. destruct (pre_para O fx c nopt sel sill anis s0) as [[[[s1 para] so] af]|]; reflexivity.
  Qed.

  Lemma after_pre_ok c para so af isdir evs popt s1 s' d :
    after_pre true c para so af isdir evs popt s1 = Ok (s', d) ->
    length (p_opt para) = length (m_opt s1) ->
    s' = final_pure c para so (af && isdir) (get_var O s1) s1 popt
    /\ d = dict_pure para isdir (vals_of O c para (af && isdir) popt) s'
    /\ (check_ok O c s1 = true -> check_ok O c s' = true).
  Proof.
    unfold after_pre. intros H Hl. destruct (isdir && c_latlon c); [discriminate|].
    destruct (run_evals O c para so (af && isdir) (get_var O s1) evs s1) as [s2|] eqn:E; simpl in H; [|discriminate].
    apply run_evals_ok in E. destruct E as [E1 [E2 E3]].
    apply post_ok in H; [|congruence]. destruct H as [H1 [H2 H3]].
    rewrite E1 in H1. auto.
  Qed.

  (* ---------- _pre_para keeps the number of optional arguments; the mask has one entry per argument *)
  Lemma set_par_frame c i s v s' : set_par O c i s v = Ok s' ->
    length (m_opt s') = length (m_opt s) /\ m_anis s' = m_anis s /\ check_ok O c s' = true.
  Proof.
    destruct i as [|[|[|j]]]; simpl; intros H; apply chk_ok in H; destruct H as [-> K]; simpl; auto.
    rewrite aupd_length; auto.
  Qed.
  Lemma apply_fixed_cons c nopt i k r s :
    apply_fixed O c nopt ((i, k) :: r) s =
    if 3 + nopt <=? i then Err E_UNKNOWN else
    match k with
    | SFixed v => if i =? 0 then apply_fixed O c nopt r s
                  else (s1 <- set_par O c i s v;; apply_fixed O c nopt r s1)
    | _ => apply_fixed O c nopt r s
    end.
  Proof. reflexivity. Qed.
  Lemma apply_fixed_frame c nopt sel : forall s s', apply_fixed O c nopt sel s = Ok s' ->
    length (m_opt s') = length (m_opt s) /\ m_anis s' = m_anis s /\ (check_ok O c s = true -> check_ok O c s' = true).
  Proof.
    induction sel as [|[i k] r IH]; intros s s' H.
    - inversion H; subst; auto.
    - rewrite apply_fixed_cons in H. destruct (3 + nopt <=? i); [discriminate|].
      destruct k as [| |v]; try (apply IH in H; exact H).
      destruct (i =? 0); [apply IH in H; exact H|].
      bk H s1 E. apply set_par_frame in E. apply IH in H. destruct E as [E1 [E2 E3]], H as [H1 [H2 H3]].
      repeat split; try congruence. auto.
  Qed.
  Lemma sill_book_frame c sill nfv nfn s s' a b so : sill_book O c sill nfv nfn s = Ok (s', a, b, so) ->
    length (m_opt s') = length (m_opt s) /\ m_anis s' = m_anis s /\ m_len s' = m_len s /\ m_opt s' = m_opt s
    /\ (check_ok O c s = true -> check_ok O c s' = true).
  Proof.
    unfold sill_book. intros H.
    assert (G : forall sv, (if sill_in_range O c sv
        then if nfv && nfn
             then if nltb O sv (get_var O s)
                  then match b_lo (c_bnug c) with
                       | Some l => s1 <- set_nug O c s l;; s2 <- set_var O c s1 (nsub O sv (m_nug s1));; Ok (s2, true, true, Some sv)
                       | None => Err E_OTHER
                       end
                  else (s1 <- set_nug O c s (nsub O sv (get_var O s));; Ok (s1, true, true, Some sv))
             else if nfv
                  then if nltb O sv (get_var O s) then Err E_VARSILL
                       else (s1 <- set_nug O c s (nsub O sv (get_var O s));; Ok (s1, true, true, Some sv))
                  else if nfn
                       then if nltb O sv (m_nug s) then Err E_NUGSILL
                            else (s1 <- set_var O c s (nsub O sv (m_nug s));; Ok (s1, true, true, Some sv))
                       else Ok (s, false, true, Some sv)
        else Err E_SILL) = Ok (s', a, b, so) ->
      length (m_opt s') = length (m_opt s) /\ m_anis s' = m_anis s /\ m_len s' = m_len s /\ m_opt s' = m_opt s
      /\ (check_ok O c s = true -> check_ok O c s' = true)).
    { clear H. intros sv H. destruct (sill_in_range O c sv); [|discriminate].
      destruct (nfv && nfn).
      - destruct (nltb O sv (get_var O s)).
        + destruct (b_lo (c_bnug c)) as [l|]; [|discriminate].
          bk H s1 E1. bk H s2 E2. apply set_nug_ok in E1. apply set_var_ok in E2.
          destruct E1 as [-> _], E2 as [-> K]. inversion H; subst. simpl. auto 6.
        + bk H s1 E1. apply set_nug_ok in E1. destruct E1 as [-> K]. inversion H; subst; simpl; auto 6.
      - destruct nfv.
        + destruct (nltb O sv (get_var O s)); [discriminate|].
          bk H s1 E1. apply set_nug_ok in E1. destruct E1 as [-> K]. inversion H; subst; simpl; auto 6.
        + destruct nfn.
          * destruct (nltb O sv (m_nug s)); [discriminate|].
            bk H s1 E1. apply set_var_ok in E1. destruct E1 as [-> K]. inversion H; subst; simpl; auto 6.
          * inversion H; subst; auto 6. }
    destruct sill as [| |v].
    - inversion H; subst; auto 6.
    - apply (G _ H).
    - apply (G _ H).
  Qed.

  Lemma pre_para_frame fx c nopt sel sill anis s0 s1 para so af :
    pre_para O fx c nopt sel sill anis s0 = Ok (s1, para, so, af) ->
    length (m_opt s0) = nopt ->
    length (p_opt para) = length (m_opt s1) /\ (check_ok O c s0 = true -> check_ok O c s1 = true).
  Proof.
    unfold pre_para. intros H Hn.
    bk H t1 A1. bk H t2 A2. bk H r A3. destruct r as [[[t3 nfv] nfn] so'].
    apply apply_fixed_frame in A1. apply oset_var_ok in A2. apply sill_book_frame in A3.
    destruct A1 as [L1 [_ K1]], A2 as [-> K2], A3 as [L3 [_ [_ [_ K3]]]].
    assert (L2 : length (m_opt (oupd (upd_var O) (var_target O fx sel s0) t1)) = nopt).
    { destruct (var_target O fx sel s0); simpl; congruence. }
    destruct anis as [| |a].
    - inversion H; subst; simpl. rewrite map_length, seq_length. split; [congruence|auto].
    - inversion H; subst; simpl. rewrite map_length, seq_length. split; [congruence|auto].
    - bk H t4 A4. apply set_anis_ok in A4. destruct A4 as [-> K4]. inversion H; subst; simpl.
      rewrite map_length, seq_length. split; [congruence|auto].
  Qed.

  (* THE STRUCTURAL THEOREM: two runs of the same call whose optimisers evaluated the curve at different points but
     returned the same popt leave the same model state and return the same dictionary.  Every number type. *)
  Theorem trace_independent c nopt sel sill anis isdir evs1 evs2 popt s0 r1 r2 :
    length (m_opt s0) = nopt ->
    fit_run O true c nopt sel sill anis isdir evs1 popt s0 = Ok r1 ->
    fit_run O true c nopt sel sill anis isdir evs2 popt s0 = Ok r2 ->
    r1 = r2.
  Proof.
    intros Hn. rewrite !fit_run_split.
    destruct (pre_para O true c nopt sel sill anis s0) as [[[[s1 para] so] af]|] eqn:Ep; simpl; [|discriminate].
    intros H1 H2. destruct r1 as [sa da], r2 as [sb db].
    destruct (pre_para_frame _ _ _ _ _ _ _ _ _ _ _ Ep Hn) as [Hl _].
    apply after_pre_ok in H1; auto. apply after_pre_ok in H2; auto.
    destruct H1 as [-> [-> _]], H2 as [-> [-> _]]. reflexivity.
  Qed.

  (* the state after a successful call satisfies every declared bound (check_arg_bounds ran after the last setter) *)
  Theorem final_checked c nopt sel sill anis isdir evs popt s0 s' d :
    length (m_opt s0) = nopt -> check_ok O c s0 = true ->
    fit_run O true c nopt sel sill anis isdir evs popt s0 = Ok (s', d) ->
    check_ok O c s' = true.
  Proof.
    intros Hn K0. rewrite fit_run_split.
    destruct (pre_para O true c nopt sel sill anis s0) as [[[[s1 para] so] af]|] eqn:Ep; simpl; [|discriminate].
    intros H. destruct (pre_para_frame _ _ _ _ _ _ _ _ _ _ _ Ep Hn) as [Hl K1].
    apply after_pre_ok in H; auto. destruct H as [_ [_ K]]. auto.
  Qed.

  (* the returned dictionary is read off the final state (every number type; the variance needs the field laws: C10_RProofs) *)
  Theorem dict_structural c nopt sel sill anis isdir evs popt s0 s' d :
    length (m_opt s0) = nopt ->
    fit_run O true c nopt sel sill anis isdir evs popt s0 = Ok (s', d) ->
    d_len d = m_len s' /\ d_nug d = m_nug s' /\ d_opt d = m_opt s'
    /\ d_anis d = (if isdir then Some (m_anis s') else None).
  Proof.
    intros Hn. rewrite fit_run_split.
    destruct (pre_para O true c nopt sel sill anis s0) as [[[[s1 para] so] af]|] eqn:Ep; simpl; [|discriminate].
    intros H. destruct (pre_para_frame _ _ _ _ _ _ _ _ _ _ _ Ep Hn) as [Hl _].
    apply after_pre_ok in H; auto. destruct H as [_ [-> _]]. unfold dict_pure; simpl. auto.
  Qed.
End Structural.
