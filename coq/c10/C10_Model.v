(* C10_Model.v — FitBook: the parameter bookkeeping of gstools.covmodel.fit.fit_variogram
   (hand model of /repo/src/gstools/covmodel/fit.py: _pre_para, _pre_init_guess, _init_curve_fit_para,
   the `curve` closure of _get_curve, _post_fitting) on the parameter state of a CovModel
   (/repo/src/gstools/covmodel/base.py: var/len_scale/nugget/anis/opt-arg setters, each followed by
   check_arg_bounds).

   The optimiser scipy.optimize.curve_fit is NOT modelled: it is an oracle that calls `curve` at an
   arbitrary finite list of argument vectors [evs] and returns [popt].  The value returned by `curve`
   (the variogram) is irrelevant for the bookkeeping and is not part of the model.

   The model is written once for every number type (NumOps T); it is executed at OCaml floats against
   the implementation and proved about at R (and for every T where no algebra is needed).
   var_factor (TPL models: var = var_raw * var_factor(len_scale, opt args)) is the oracle code 100.

   [fx : bool] selects the bookkeeping: true = the repaired code of the current tree,
   false = the behaviour of the pinned tree (kept for the refutation theorems). *)
From Coq Require Import List Arith Bool ZArith Lia.
From GS Require Import Num Loops.
Import ListNotations.

Definition ORA_VARFACTOR := 100%nat.

Inductive Res (A : Type) : Type := Ok (a : A) | Err (e : nat).
Arguments Ok {A}. Arguments Err {A}.
Definition bind {A B} (r : Res A) (f : A -> Res B) : Res B :=
  match r with Ok a => f a | Err e => Err e end.
Notation "x <- r ;; k" := (bind r (fun x => k)) (at level 61, r at next level, right associativity).

(* error kinds (all are ValueError in the implementation; the harness maps messages to these) *)
Definition E_UNKNOWN := 1%nat.   (* fit: unknown parameter in selection *)
Definition E_SILL := 2%nat.      (* fit: sill out of bounds *)
Definition E_VARSILL := 3%nat.   (* sill fixed, variance deselected and bigger than the sill *)
Definition E_NUGSILL := 4%nat.   (* sill fixed, nugget deselected and bigger than the sill *)
Definition E_BOUNDS := 5%nat.    (* check_arg_bounds: "<arg> needs to be ..." *)
Definition E_ANIS := 6%nat.      (* anisotropy-ratios needs to be > 0 *)
Definition E_LATLON := 7%nat.    (* lat-lon models don't support anisotropy *)
Definition E_OTHER := 8%nat.

Inductive Sel (T : Type) : Type := SFit | SDesel | SFixed (v : T).
Arguments SFit {T}. Arguments SDesel {T}. Arguments SFixed {T}.
Inductive SillSpec (T : Type) : Type := SillNone | SillCurrent | SillVal (v : T).
Arguments SillNone {T}. Arguments SillCurrent {T}. Arguments SillVal {T}.
Inductive AnisSpec (T : Type) : Type := ATrue | AFalse | AFixed (l : list T).
Arguments ATrue {T}. Arguments AFalse {T}. Arguments AFixed {T}.

(* bounds: None = infinite *)
Record Bnd (T : Type) : Type := mkBnd { b_lo : option T; b_hi : option T; b_loc : bool; b_hic : bool }.
Arguments mkBnd {T}. Arguments b_lo {T}. Arguments b_hi {T}. Arguments b_loc {T}. Arguments b_hic {T}.

Record Cfg (T : Type) : Type := mkCfg {
  c_bvar : Bnd T; c_blen : Bnd T; c_bnug : Bnd T; c_banis : Bnd T; c_bopt : list (Bnd T);
  c_dim : nat; c_latlon : bool; c_rescale : T }.
Arguments mkCfg {T}. Arguments c_bvar {T}. Arguments c_blen {T}. Arguments c_bnug {T}.
Arguments c_banis {T}. Arguments c_bopt {T}. Arguments c_dim {T}. Arguments c_latlon {T}. Arguments c_rescale {T}.

(* the parameter state of a CovModel: _var (raw), _len_scale, _nugget, optional arguments, _anis *)
Record MState (T : Type) : Type := mkSt {
  m_varraw : T; m_len : T; m_nug : T; m_opt : list T; m_anis : list T }.
Arguments mkSt {T}. Arguments m_varraw {T}. Arguments m_len {T}. Arguments m_nug {T}.
Arguments m_opt {T}. Arguments m_anis {T}.

(* which parameters are handed to the optimiser *)
Record Para : Type := mkPara { p_var : bool; p_len : bool; p_nug : bool; p_opt : list bool }.

(* the values cut out of an argument vector of the optimiser *)
Record Vals (T : Type) : Type := mkVals {
  v_var : option T; v_len : option T; v_nug : option T; v_opt : list (option T); v_anis : option (list T) }.
Arguments mkVals {T}. Arguments v_var {T}. Arguments v_len {T}. Arguments v_nug {T}.
Arguments v_opt {T}. Arguments v_anis {T}.

(* the returned dictionary *)
Record Dict (T : Type) : Type := mkDict {
  d_var : T; d_len : T; d_nug : T; d_opt : list T; d_anis : option (list T) }.
Arguments mkDict {T}. Arguments d_var {T}. Arguments d_len {T}. Arguments d_nug {T}.
Arguments d_opt {T}. Arguments d_anis {T}.

Section FitBook.
  Context {T : Type} (O : NumOps T).

  (* ---------------- bounds: covmodel/tools.py check_arg_in_bounds (error case 0..4) *)
  Definition bnd_case (b : Bnd T) (v : T) : nat :=
    let c1 := match b_lo b with
              | None => 0
              | Some l => if b_loc b then (if nltb O v l then 1 else 0) else (if nleb O v l then 2 else 0)
              end in
    match b_hi b with
    | None => c1
    | Some h => if b_hic b then (if nltb O h v then 3 else c1) else (if nleb O h v then 4 else c1)
    end.
  Definition bnd_case_vec (b : Bnd T) (vs : list T) : nat :=
    let c1 := match b_lo b with
              | None => 0
              | Some l => if b_loc b then (if existsb (fun v => nltb O v l) vs then 1 else 0)
                          else (if existsb (fun v => nleb O v l) vs then 2 else 0)
              end in
    match b_hi b with
    | None => c1
    | Some h => if b_hic b then (if existsb (fun v => nltb O h v) vs then 3 else c1)
                else (if existsb (fun v => nleb O h v) vs then 4 else c1)
    end.

  (* covmodel/tools.py default_arg_from_bounds *)
  Definition two : T := nadd O (n1 O) (n1 O).
  Definition default_from (lo hi : option T) : T :=
    match lo, hi with
    | Some l, Some h => ndiv O (nadd O l h) two
    | Some l, None => nadd O l (n1 O)
    | None, Some h => nsub O h (n1 O)
    | None, None => n0 O
    end.
  (* fit.py _init_guess *)
  Definition init_guess1 (lo hi : option T) (dflt : T) : T :=
    let okl := match lo with None => true | Some l => nltb O l dflt end in
    let okh := match hi with None => true | Some h => nltb O dflt h end in
    if okl && okh then dflt else default_from lo hi.

  (* ---------------- the model state and its setters (base.py) *)
  Definition vfac (s : MState T) : T := noracle O ORA_VARFACTOR (m_len s :: m_opt s).
  Definition get_var (s : MState T) : T := nmul O (m_varraw s) (vfac s).

  Definition check_ok (c : Cfg T) (s : MState T) : bool :=
    (bnd_case (c_bvar c) (get_var s) =? 0) && (bnd_case (c_blen c) (m_len s) =? 0)
    && (bnd_case (c_bnug c) (m_nug s) =? 0) && (bnd_case_vec (c_banis c) (m_anis s) =? 0)
    && forallb (fun bv => bnd_case (fst bv) (snd bv) =? 0) (combine (c_bopt c) (m_opt s)).
  Definition chk (c : Cfg T) (s : MState T) : Res (MState T) := if check_ok c s then Ok s else Err E_BOUNDS.

  Definition upd_varraw (s : MState T) (v : T) := mkSt v (m_len s) (m_nug s) (m_opt s) (m_anis s).
  Definition upd_var (s : MState T) (v : T) := upd_varraw s (ndiv O v (vfac s)).
  Definition upd_len (s : MState T) (v : T) := mkSt (m_varraw s) v (m_nug s) (m_opt s) (m_anis s).
  Definition upd_nug (s : MState T) (v : T) := mkSt (m_varraw s) (m_len s) v (m_opt s) (m_anis s).
  Definition upd_opt (i : nat) (s : MState T) (v : T) := mkSt (m_varraw s) (m_len s) (m_nug s) (aupd (m_opt s) i v) (m_anis s).
  Definition upd_anis (s : MState T) (a : list T) := mkSt (m_varraw s) (m_len s) (m_nug s) (m_opt s) a.

  (* tools/geometric.py set_anis + covmodel/tools.py set_len_anis (scalar len_scale) *)
  Definition pad_anis (dim : nat) (a : list T) : list T :=
    let a' := firstn (dim - 1) a in repeat (n1 O) (dim - 1 - length a') ++ a'.
  Definition latfix (a : list T) : list T :=
    match a with
    | _ :: _ :: r => n1 O :: n1 O :: r
    | [_] => [n1 O]
    | [] => []
    end.
  Definition norm_anis (c : Cfg T) (a : list T) : list T :=
    let p := pad_anis (c_dim c) a in if c_latlon c then latfix p else p.

  Definition set_var c s v := chk c (upd_var s v).
  Definition set_len c s v := chk c (upd_len s v).
  Definition set_nug c s v := chk c (upd_nug s v).
  Definition set_opt c i s v := chk c (upd_opt i s v).
  Definition set_anis c s (a : list T) :=
    let a' := norm_anis c a in
    if forallb (fun x => nltb O (n0 O) x) a' then chk c (upd_anis s a') else Err E_ANIS.
  Definition set_par c (i : nat) s v :=
    match i with
    | 0 => set_var c s v
    | 1 => set_len c s v
    | 2 => set_nug c s v
    | S (S (S j)) => set_opt c j s v
    end.

  (* optional assignment: `if para[...]: setattr(...)` *)
  Definition oset {A} (f : MState T -> A -> Res (MState T)) (o : option A) (s : MState T) : Res (MState T) :=
    match o with Some v => f s v | None => Ok s end.
  Fixpoint set_opts c (vs : list (option T)) (i : nat) (s : MState T) : Res (MState T) :=
    match vs with
    | [] => Ok s
    | o :: r => s1 <- oset (set_opt c i) o s;; set_opts c r (S i) s1
    end.

  (* ---------------- _pre_para *)
  Definition is_nf (k : Sel T) : bool := match k with SFit => false | _ => true end.
  Definition nf_in (sel : list (nat * Sel T)) (i : nat) : bool :=
    existsb (fun jk => (fst jk =? i) && is_nf (snd jk)) sel.

  (* first loop: unknown names are rejected, fixed values are applied in keyword order, var is kept for last *)
  Fixpoint apply_fixed c (nopt : nat) (sel : list (nat * Sel T)) (s : MState T) : Res (MState T) :=
    match sel with
    | [] => Ok s
    | (i, k) :: r =>
        if 3 + nopt <=? i then Err E_UNKNOWN else
        match k with
        | SFixed v => if i =? 0 then apply_fixed c nopt r s
                      else (s1 <- set_par c i s v;; apply_fixed c nopt r s1)
        | _ => apply_fixed c nopt r s
        end
    end.
  (* the value `model.var = var_tmp` is set to after the loop (repaired: a deselected variance is restored too,
     because fixed len_scale / opt args change var_factor) *)
  Definition var_target (fx : bool) (sel : list (nat * Sel T)) (s0 : MState T) : option T :=
    match find (fun jk => fst jk =? 0) sel with
    | Some (_, SFixed v) => Some v
    | Some (_, SDesel) => if fx then Some (get_var s0) else None
    | _ => None
    end.

  Definition oadd (a b : option T) : option T :=
    match a, b with Some x, Some y => Some (nadd O x y) | _, _ => None end.
  Definition sill_in_range (c : Cfg T) (sv : T) : bool :=
    (match oadd (b_lo (c_bvar c)) (b_lo (c_bnug c)) with None => true | Some l => nleb O l sv end)
    && (match oadd (b_hi (c_bvar c)) (b_hi (c_bnug c)) with None => true | Some u => nleb O sv u end).

  (* result of the sill bookkeeping: state, "var not fitted", "nugget not fitted", constrained sill *)
  Definition sill_book c (sill : SillSpec T) (nfv nfn : bool) (s : MState T)
      : Res (MState T * bool * bool * option T) :=
    match sill with
    | SillNone => Ok (s, nfv, nfn, None)
    | _ =>
      let sv := match sill with SillVal v => v | _ => nadd O (get_var s) (m_nug s) end in
      if sill_in_range c sv then
        if nfv && nfn then
          if nltb O sv (get_var s) then
            match b_lo (c_bnug c) with
            | Some l => s1 <- set_nug c s l;; s2 <- set_var c s1 (nsub O sv (m_nug s1));; Ok (s2, true, true, Some sv)
            | None => Err E_OTHER
            end
          else (s1 <- set_nug c s (nsub O sv (get_var s));; Ok (s1, true, true, Some sv))
        else if nfv then
          if nltb O sv (get_var s) then Err E_VARSILL
          else (s1 <- set_nug c s (nsub O sv (get_var s));; Ok (s1, true, true, Some sv))
        else if nfn then
          if nltb O sv (m_nug s) then Err E_NUGSILL
          else (s1 <- set_var c s (nsub O sv (m_nug s));; Ok (s1, true, true, Some sv))
        else Ok (s, false, true, Some sv)
      else Err E_SILL
    end.

  Definition pre_para (fx : bool) c (nopt : nat) (sel : list (nat * Sel T)) (sill : SillSpec T) (anis : AnisSpec T)
      (s0 : MState T) : Res (MState T * Para * option T * bool) :=
    s1 <- apply_fixed c nopt sel s0;;
    s2 <- oset (set_var c) (var_target fx sel s0) s1;;
    r <- sill_book c sill (nf_in sel 0) (nf_in sel 2) s2;;
    let '(s3, nfv, nfn, so) := r in
    let para := mkPara (negb nfv) (negb (nf_in sel 1)) (negb nfn)
                       (map (fun i => negb (nf_in sel (3 + i))) (seq 0 nopt)) in
    match anis with
    | AFixed a => s4 <- set_anis c s3 a;; Ok (s4, para, so, false)
    | ATrue => Ok (s3, para, so, true)
    | AFalse => Ok (s3, para, so, false)
    end.

  (* ---------------- the layout of an argument vector: var, len_scale, nugget, opt args, anis (last dim-1) *)
  Definition take1 (b : bool) (args : list T) : option T * list T :=
    if b then (Some (hd (n0 O) args), tl args) else (None, args).
  Fixpoint take_opts (mask : list bool) (args : list T) : list (option T) :=
    match mask with
    | [] => []
    | true :: m => Some (hd (n0 O) args) :: take_opts m (tl args)
    | false :: m => None :: take_opts m args
    end.
  Definition vals_of (c : Cfg T) (p : Para) (fitanis : bool) (args : list T) : Vals T :=
    let a1 := snd (take1 (p_var p) args) in
    let a2 := snd (take1 (p_len p) a1) in
    let a3 := snd (take1 (p_nug p) a2) in
    mkVals (fst (take1 (p_var p) args)) (fst (take1 (p_len p) a1)) (fst (take1 (p_nug p) a2))
           (take_opts (p_opt p) a3)
           (if fitanis then Some (skipn (length args - (c_dim c - 1)) args) else None).

  (* ---------------- _pre_init_guess + _init_curve_fit_para: bounds and start vector given to curve_fit *)
  Definition find_given (given : list (nat * T)) (i : nat) : option T :=
    match find (fun jv => fst jv =? i) given with Some (_, v) => Some v | None => None end.
  Definition guess_par c (dflt : bool) (given : list (nat * T)) (mean_x mean_y : T) (s : MState T) (i : nat) : T :=
    match find_given given i with
    | Some v => v
    | None =>
      match i with
      | 0 => if dflt then mean_y else get_var s
      | 1 => if dflt then nmul O mean_x (c_rescale c) else m_len s
      | 2 => if dflt then mean_y else m_nug s
      | S (S (S j)) => if dflt then (let b := nth j (c_bopt c) (mkBnd None None true true) in default_from (b_lo b) (b_hi b))
                       else aget (n0 O) (m_opt s) j
      end
    end.
  Definition guess_anis c (dflt : bool) (ganis : option (list T)) (s : MState T) : list T :=
    pad_anis (c_dim c)
      (match ganis with
       | Some a => a
       | None => if dflt then [default_from (b_lo (c_banis c)) (b_hi (c_banis c))] else m_anis s
       end).

  Definition entry (lo hi : option T) (g : T) : option T * option T * T := (lo, hi, init_guess1 lo hi g).
  Definition init_para c (p : Para) (so : option T) (fitanis : bool) (dflt : bool) (given : list (nat * T))
      (ganis : option (list T)) (mean_x mean_y : T) (s : MState T) : list (option T * option T * T) :=
    let g := guess_par c dflt given mean_x mean_y s in
    (if p_var p then [entry (b_lo (c_bvar c)) (match so with Some sv => Some sv | None => b_hi (c_bvar c) end) (g 0)] else [])
    ++ (if p_len p then [entry (b_lo (c_blen c)) (b_hi (c_blen c)) (g 1)] else [])
    ++ (if p_nug p then [entry (b_lo (c_bnug c)) (b_hi (c_bnug c)) (g 2)] else [])
    ++ concat (map (fun ib : nat * bool => let b := nth (fst ib) (c_bopt c) (mkBnd None None true true) in
                             if snd ib then [entry (b_lo b) (b_hi b) (g (3 + fst ib))] else [])
                   (combine (seq 0 (length (p_opt p))) (p_opt p)))
    ++ (if fitanis then map (fun a => entry (b_lo (c_banis c)) (b_hi (c_banis c)) a)
                            (firstn (c_dim c - 1) (guess_anis c dflt ganis s)) else []).

  (* ---------------- the `curve` closure: one evaluation = one state transition *)
  Definition curve_go c (vs : Vals T) (var_save : T) (s0 : MState T) : Res (MState T) :=
    s1 <- oset (set_len c) (v_len vs) s0;;
    s2 <- oset (set_nug c) (v_nug vs) s1;;
    s3 <- set_opts c (v_opt vs) 0 s2;;
    s4 <- set_var c s3 (match v_var vs with Some v => v | None => var_save end);;
    oset (set_anis c) (v_anis vs) s4.
  Definition curve_step c (p : Para) (so : option T) (fitanis : bool) (var_save : T) (s : MState T) (args : list T)
      : Res (MState T) :=
    let vs := vals_of c p fitanis args in
    match v_var vs, so with
    | Some v, Some sv =>
        let nt := nsub O sv v in
        if bnd_case (c_bnug c) nt =? 0 then (s0 <- set_nug c s nt;; curve_go c vs var_save s0)
        else Ok s      (* punishment: np.inf is returned, the model is not touched *)
    | _, _ => curve_go c vs var_save s
    end.
  Fixpoint run_evals c p so fitanis var_save (evs : list (list T)) (s : MState T) : Res (MState T) :=
    match evs with
    | [] => Ok s
    | a :: r => s1 <- curve_step c p so fitanis var_save s a;; run_evals c p so fitanis var_save r s1
    end.

  (* the model state after EACH evaluation (what the optimiser's curve values are computed from) *)
  Fixpoint evals_states c p so fitanis var_save (evs : list (list T)) (s : MState T) : Res (list (MState T)) :=
    match evs with
    | [] => Ok []
    | a :: r => s1 <- curve_step c p so fitanis var_save s a;;
                l <- evals_states c p so fitanis var_save r s1;; Ok (s1 :: l)
    end.

  (* ---------------- _post_fitting *)
  Fixpoint post_opts c (vs : list (option T)) (i : nat) (acc : list T) (s : MState T) : Res (MState T * list T) :=
    match vs with
    | [] => Ok (s, rev acc)
    | Some v :: r => s1 <- set_opt c i s v;; post_opts c r (S i) (v :: acc) s1
    | None :: r => post_opts c r (S i) (aget (n0 O) (m_opt s) i :: acc) s
    end.
  Definition odflt (o : option T) (d : T) : T := match o with Some v => v | None => d end.

  Definition post (fx : bool) c (p : Para) (so : option T) (fitanis isdir : bool) (var_save : T)
      (s : MState T) (popt : list T) : Res (MState T * Dict T) :=
    let vs := vals_of c p fitanis popt in
    let dv := odflt (v_var vs) (get_var s) in
    s1 <- oset (set_len c) (v_len vs) s;;
    let dl := odflt (v_len vs) (m_len s1) in
    s2 <- oset (set_nug c) (v_nug vs) s1;;
    let dn := odflt (v_nug vs) (m_nug s2) in
    so3 <- post_opts c (v_opt vs) 0 [] s2;;
    let s3 := fst so3 in
    let dopt := snd so3 in
    s4 <- oset (set_anis c) (v_anis vs) s3;;
    let da := if isdir then Some (m_anis s4) else None in
    match v_var vs with
    | Some v =>
        s5 <- set_var c s4 v;;
        match so with
        | Some sv => if fx then (s6 <- set_nug c s5 (nsub O sv v);; Ok (s6, mkDict dv dl (m_nug s6) dopt da))
                     else Ok (s5, mkDict dv dl dn dopt da)
        | None => Ok (s5, mkDict dv dl dn dopt da)
        end
    | None =>
        if fx then (s5 <- set_var c s4 var_save;; Ok (s5, mkDict (get_var s5) dl dn dopt da))
        else Ok (s4, mkDict dv dl dn dopt da)
    end.

  (* ---------------- _r2_score: 1 - ss_res / ss_tot of the fitted curve [vs] against the data [ys] *)
  Definition sum_l (l : list T) : T := fold_left (nadd O) l (n0 O).
  Definition mean_l (l : list T) : T := ndiv O (sum_l l) (nofZ O (Z.of_nat (length l))).
  Definition sqr (x : T) : T := nmul O x x.
  Definition ss_res (ys vs : list T) : T := sum_l (map (fun p => sqr (nsub O (fst p) (snd p))) (combine ys vs)).
  Definition ss_tot (ys : list T) : T := sum_l (map (fun y => sqr (nsub O y (mean_l ys))) ys).
  Definition r2_score (ys vs : list T) : T := nsub O (n1 O) (ndiv O (ss_res ys vs) (ss_tot ys)).

  (* ---------------- fit_variogram, the optimiser being the oracle (evs, popt) *)
  Definition fit_run (fx : bool) c (nopt : nat) (sel : list (nat * Sel T)) (sill : SillSpec T) (anis : AnisSpec T)
      (isdir : bool) (evs : list (list T)) (popt : list T) (s0 : MState T) : Res (MState T * Dict T) :=
    pp <- pre_para fx c nopt sel sill anis s0;;
    let '(s1, para, so, af) := pp in
    if isdir && c_latlon c then Err E_LATLON else
    let fitanis := af && isdir in
    let var_save := get_var s1 in
    s2 <- run_evals c para so fitanis var_save evs s1;;
    post fx c para so fitanis isdir var_save s2 popt.

  (* the states the model object goes through during the optimisation, for the correspondence *)
  Definition fit_trace (fx : bool) c (nopt : nat) (sel : list (nat * Sel T)) (sill : SillSpec T) (anis : AnisSpec T)
      (isdir : bool) (evs : list (list T)) (s0 : MState T) : Res (list (MState T)) :=
    pp <- pre_para fx c nopt sel sill anis s0;;
    let '(s1, para, so, af) := pp in
    if isdir && c_latlon c then Err E_LATLON else
    evals_states c para so (af && isdir) (get_var s1) evs s1.

  (* what is handed to curve_fit (bounds and p0), for the correspondence *)
  Definition fit_init (fx : bool) c (nopt : nat) (sel : list (nat * Sel T)) (sill : SillSpec T) (anis : AnisSpec T)
      (isdir : bool) (dflt : bool) (given : list (nat * T)) (ganis : option (list T)) (mean_x mean_y : T)
      (s0 : MState T) : Res (list (option T * option T * T)) :=
    pp <- pre_para fx c nopt sel sill anis s0;;
    let '(s1, para, so, af) := pp in
    if isdir && c_latlon c then Err E_LATLON else
    Ok (init_para c para so (af && isdir) dflt given ganis mean_x mean_y s1).
End FitBook.
