(* C10_RProofs.v — FitBook at the real numbers: the variance survives the var_factor round trip,
   so the prescribed sill is met exactly, the dictionary equals the state, the bounds hold.
   [ora] (code 100 = var_factor) is an arbitrary function with the single hypothesis that it is non-zero. *)
From Coq Require Import Reals List Arith Bool ZArith Lia Lra.
From GS Require Import Num Loops RInst C10_Model C10_Proofs.
Import ListNotations.
Local Open Scope R_scope.

Section AtR.
  Variable ora : nat -> list R -> R.
  Hypothesis ora_nz : forall args, ora ORA_VARFACTOR args <> 0.
  Notation O := (Rops ora).
  Notation MS := (MState R).

  Lemma get_upd_var (s : MS) v : get_var O (upd_var O s v) = v.
  Proof. unfold get_var, upd_var, upd_varraw, vfac; simpl. field. apply ora_nz. Qed.
  Lemma get_var_upd_nug (s : MS) v : get_var O (upd_nug s v) = get_var O s.
  Proof. reflexivity. Qed.
  Lemma get_var_upd_anis (s : MS) a : get_var O (upd_anis s a) = get_var O s.
  Proof. reflexivity. Qed.

  (* the variance of the closed-form final state *)
  Lemma get_var_final c p so fa var_save (s : MS) popt :
    get_var O (final_pure O c p so fa var_save s popt) = odflt (v_var (vals_of O c p fa popt)) var_save.
  Proof. unfold final_pure, get_var, vfac; simpl. field. apply ora_nz. Qed.

  (* ---------- the sill bookkeeping of _pre_para *)
  Lemma sill_book_inv c sill nfv nfn (s s' : MS) a b sv :
    sill_book O c sill nfv nfn s = Ok (s', a, b, Some sv) ->
    b = true /\ (a = true -> get_var O s' + m_nug s' = sv) /\ (a = false -> nfv = false)
    /\ sv = match sill with SillVal v => v | _ => get_var O s + m_nug s end.
  Proof.
    unfold sill_book. intros H.
    assert (G : forall sv0, (if sill_in_range O c sv0
        then if nfv && nfn
             then if nltb O sv0 (get_var O s)
                  then match b_lo (c_bnug c) with
                       | Some l => s1 <- set_nug O c s l;; s2 <- set_var O c s1 (nsub O sv0 (m_nug s1));; Ok (s2, true, true, Some sv0)
                       | None => Err E_OTHER
                       end
                  else (s1 <- set_nug O c s (nsub O sv0 (get_var O s));; Ok (s1, true, true, Some sv0))
             else if nfv
                  then if nltb O sv0 (get_var O s) then Err E_VARSILL
                       else (s1 <- set_nug O c s (nsub O sv0 (get_var O s));; Ok (s1, true, true, Some sv0))
                  else if nfn
                       then if nltb O sv0 (m_nug s) then Err E_NUGSILL
                            else (s1 <- set_var O c s (nsub O sv0 (m_nug s));; Ok (s1, true, true, Some sv0))
                       else Ok (s, false, true, Some sv0)
        else Err E_SILL) = Ok (s', a, b, Some sv) ->
      b = true /\ (a = true -> get_var O s' + m_nug s' = sv) /\ (a = false -> nfv = false) /\ sv = sv0).
    { clear H. intros sv0 H. destruct (sill_in_range O c sv0); [|discriminate].
      destruct (nfv && nfn) eqn:Eb.
      - destruct (nltb O sv0 (get_var O s)).
        + destruct (b_lo (c_bnug c)) as [l|]; [|discriminate].
          bk H s1 Q1. bk H s2 Q2. apply set_nug_ok in Q1. apply set_var_ok in Q2.
          destruct Q1 as [-> _], Q2 as [-> K]. inversion H; subst. repeat split; try discriminate.
          intros _. rewrite get_upd_var. simpl. lra.
        + bk H s1 Q1. apply set_nug_ok in Q1. destruct Q1 as [-> K]. inversion H; subst.
          repeat split; try discriminate. intros _. rewrite get_var_upd_nug. simpl. lra.
      - destruct nfv.
        + destruct (nltb O sv0 (get_var O s)); [discriminate|].
          bk H s1 Q1. apply set_nug_ok in Q1. destruct Q1 as [-> K]. inversion H; subst.
          repeat split; try discriminate. intros _. rewrite get_var_upd_nug. simpl. lra.
        + destruct nfn.
          * destruct (nltb O sv0 (m_nug s)); [discriminate|].
            bk H s1 Q1. apply set_var_ok in Q1. destruct Q1 as [-> K]. inversion H; subst.
            repeat split; try discriminate. intros _. rewrite get_upd_var. simpl. lra.
          * inversion H; subst. repeat split; auto; discriminate. }
    destruct sill as [| |v]; [discriminate| |]; apply G in H; tauto.
  Qed.

  (* everything _pre_para hands on when the sill is constrained *)
  Lemma pre_para_sill fx c nopt sel sill anis (s0 s1 : MS) para sv af :
    pre_para O fx c nopt sel sill anis s0 = Ok (s1, para, Some sv, af) ->
    p_nug para = false /\ (p_var para = false -> get_var O s1 + m_nug s1 = sv).
  Proof.
    unfold pre_para. intros H.
    bk H t1 Pa. bk H t2 Pb. bk H r Pc. destruct r as [[[t3 nfv] nfn] so'].
    assert (R3 : so' = Some sv /\ exists s4, s1 = upd_anis t3 s4 \/ s1 = t3).
    { destruct anis as [| |a].
      - inversion H; subst. split; auto. exists []. right. reflexivity.
      - inversion H; subst. split; auto. exists []. right. reflexivity.
      - bk H t4 Pd. apply set_anis_ok in Pd. destruct Pd as [-> _]. inversion H; subst. unfold upd_anis_n.
        split; auto. eexists. left. reflexivity. }
    destruct R3 as [-> [s4 Hs1]].
    apply sill_book_inv in Pc. destruct Pc as [-> [Pc _]].
    assert (Hp : p_var para = negb nfv /\ p_nug para = false).
    { destruct anis as [| |a]; [inversion H; subst; auto| inversion H; subst; auto|].
      bk H t4 Pd. inversion H; subst; auto. }
    destruct Hp as [Hp1 Hp2]. split; auto. intros Hv. rewrite Hp1 in Hv.
    assert (nfv = true) by (destruct nfv; auto; discriminate).
    destruct Hs1 as [-> | ->]; [rewrite get_var_upd_anis; simpl|]; auto.
  Qed.

  (* ---------- C10_sill_exact *)
  Theorem sill_exact_gen c nopt sel sill anis isdir evs popt (s0 s1 s' : MS) para sv af d :
    length (m_opt s0) = nopt ->
    pre_para O true c nopt sel sill anis s0 = Ok (s1, para, Some sv, af) ->
    fit_run O true c nopt sel sill anis isdir evs popt s0 = Ok (s', d) ->
    get_var O s' + m_nug s' = sv.
  Proof.
    intros Hn Ep. rewrite fit_run_split, Ep. cbn [bind fst snd]. intros H.
    destruct (pre_para_frame _ _ _ _ _ _ _ _ _ _ _ _ Ep Hn) as [Hl _].
    apply after_pre_ok in H; auto. destruct H as [-> _].
    destruct (pre_para_sill _ _ _ _ _ _ _ _ _ _ _ Ep) as [Pn Pv].
    rewrite get_var_final. unfold final_pure. cbn [m_nug].
    destruct (p_var para) eqn:Ev.
    - rewrite !(v_var_some O c para _ popt Ev). simpl. lra.
    - rewrite !(v_var_none O c para _ popt Ev). rewrite (v_nug_none O c para _ popt Pn). simpl. auto.
  Qed.

  Lemma pre_para_so fx c nopt sel sill anis (s0 s1 : MS) para so af :
    pre_para O fx c nopt sel sill anis s0 = Ok (s1, para, so, af) ->
    match sill with
    | SillNone => so = None
    | SillVal v => so = Some v
    | SillCurrent => forall t1 t2, apply_fixed O c nopt sel s0 = Ok t1 ->
                       oset (set_var O c) (var_target O fx sel s0) t1 = Ok t2 -> so = Some (get_var O t2 + m_nug t2)
    end.
  Proof.
    unfold pre_para. intros H.
    bk H t1 Pa. bk H t2 Pb. bk H r Pc. destruct r as [[[t3 nfv] nfn] so'].
    assert (so' = so).
    { destruct anis as [| |a]; [inversion H; subst; auto| inversion H; subst; auto|].
      bk H t4 Pd. inversion H; subst; auto. }
    subst so'. destruct so as [sv|].
    - destruct sill as [| |v].
      + unfold sill_book in Pc. discriminate.
      + apply sill_book_inv in Pc. destruct Pc as [_ [_ [_ Pc]]]. intros u1 u2 U1 U2.
        rewrite U1 in Pa; inversion Pa; subst. rewrite U2 in Pb; inversion Pb; subst. reflexivity.
      + apply sill_book_inv in Pc. destruct Pc as [_ [_ [_ Pc]]]. congruence.
    - destruct sill as [| |v]; auto.
      + exfalso. unfold sill_book in Pc. destruct (sill_in_range _ _ _); [|discriminate].
        destruct (_ && _); [destruct (nltb O _ _); [destruct (b_lo _); [|discriminate]; bk Pc x1 X1; bk Pc x2 X2|bk Pc x1 X1]; discriminate|].
        destruct (nf_in sel 0); [destruct (nltb O _ _); [discriminate|bk Pc x1 X1; discriminate]|].
        destruct (nf_in sel 2); [destruct (nltb O _ _); [discriminate|bk Pc x1 X1; discriminate]|discriminate].
      + exfalso. unfold sill_book in Pc. destruct (sill_in_range _ _ _); [|discriminate].
        destruct (_ && _); [destruct (nltb O _ _); [destruct (b_lo _); [|discriminate]; bk Pc x1 X1; bk Pc x2 X2|bk Pc x1 X1]; discriminate|].
        destruct (nf_in sel 0); [destruct (nltb O _ _); [discriminate|bk Pc x1 X1; discriminate]|].
        destruct (nf_in sel 2); [destruct (nltb O _ _); [discriminate|bk Pc x1 X1; discriminate]|discriminate].
  Qed.

  Theorem sill_exact c nopt sel anis isdir evs popt (s0 s' : MS) d v :
    length (m_opt s0) = nopt ->
    fit_run O true c nopt sel (SillVal v) anis isdir evs popt s0 = Ok (s', d) ->
    get_var O s' + m_nug s' = v.
  Proof.
    intros Hn H. pose proof H as H0. rewrite fit_run_split in H0.
    destruct (pre_para O true c nopt sel (SillVal v) anis s0) as [[[[s1 para] so] af]|] eqn:Ep; [|discriminate].
    pose proof (pre_para_so _ _ _ _ _ _ _ _ _ _ _ Ep) as Hs. simpl in Hs. subst so.
    eapply sill_exact_gen; eauto.
  Qed.

  Theorem sill_exact_current c nopt sel anis isdir evs popt (s0 s' t1 t2 : MS) d :
    length (m_opt s0) = nopt ->
    apply_fixed O c nopt sel s0 = Ok t1 ->
    oset (set_var O c) (var_target O true sel s0) t1 = Ok t2 ->
    fit_run O true c nopt sel SillCurrent anis isdir evs popt s0 = Ok (s', d) ->
    get_var O s' + m_nug s' = get_var O t2 + m_nug t2.
  Proof.
    intros Hn Pa Pb H. pose proof H as H0. rewrite fit_run_split in H0.
    destruct (pre_para O true c nopt sel SillCurrent anis s0) as [[[[s1 para] so] af]|] eqn:Ep; [|discriminate].
    pose proof (pre_para_so _ _ _ _ _ _ _ _ _ _ _ Ep) as Hs. simpl in Hs. specialize (Hs _ _ Pa Pb). subst so.
    eapply sill_exact_gen; eauto.
  Qed.

  (* ---------- C10_dict_equals_state *)
  Theorem dict_equals_state c nopt sel sill anis isdir evs popt (s0 s' : MS) d :
    length (m_opt s0) = nopt ->
    fit_run O true c nopt sel sill anis isdir evs popt s0 = Ok (s', d) ->
    d_var d = get_var O s' /\ d_len d = m_len s' /\ d_nug d = m_nug s' /\ d_opt d = m_opt s'
    /\ d_anis d = (if isdir then Some (m_anis s') else None).
  Proof.
    intros Hn. rewrite fit_run_split.
    destruct (pre_para O true c nopt sel sill anis s0) as [[[[s1 para] so] af]|] eqn:Ep; cbn [bind fst snd]; [|discriminate].
    intros H. destruct (pre_para_frame _ _ _ _ _ _ _ _ _ _ _ _ Ep Hn) as [Hl _].
    apply after_pre_ok in H; auto. destruct H as [Hs [-> _]]. unfold dict_pure; cbn [d_var d_len d_nug d_opt d_anis].
    repeat split; auto.
    destruct (v_var (vals_of O c para (af && isdir) popt)) as [v|] eqn:Ev; cbn [odflt]; auto.
    rewrite Hs, get_var_final, Ev. reflexivity.
  Qed.

  (* ---------- C10_inside_bounds *)
  Definition in_bnd (b : Bnd R) (v : R) : Prop :=
    match b_lo b with Some l => if b_loc b then l <= v else l < v | None => True end
    /\ match b_hi b with Some h => if b_hic b then v <= h else v < h | None => True end.

  Lemma bnd_case_0 b v : bnd_case O b v = 0%nat -> in_bnd b v.
  Proof.
    unfold bnd_case, in_bnd. simpl.
    destruct (b_lo b) as [l|], (b_hi b) as [h|], (b_loc b), (b_hic b); simpl;
    repeat match goal with
    | |- context [Rltb ?x ?y] => let E := fresh in destruct (Rltb x y) eqn:E;
        [apply Rltb_true in E | apply Rltb_false in E]
    | |- context [Rleb ?x ?y] => let E := fresh in destruct (Rleb x y) eqn:E;
        [apply Rleb_true in E | apply Rleb_false in E]
    end; intros; try discriminate; split; auto; lra.
  Qed.
  Lemma bnd_case_vec_0 b vs : bnd_case_vec O b vs = 0%nat -> Forall (in_bnd b) vs.
  Proof.
    intros H. apply Forall_forall. intros v Hv. apply bnd_case_0.
    revert H. unfold bnd_case_vec, bnd_case.
    assert (X : forall f, existsb f vs = false -> f v = false).
    { intros f Hf. destruct (f v) eqn:E; auto. assert (existsb f vs = true) by (apply existsb_exists; eauto). congruence. }
    destruct (b_lo b) as [l|], (b_hi b) as [h|], (b_loc b), (b_hic b);
    repeat match goal with
    | |- context [existsb ?f vs] => let E := fresh in destruct (existsb f vs) eqn:E; [|apply X in E; rewrite ?E]
    end; intros; try discriminate; auto.
  Qed.

  Lemma check_ok_bounds c (s : MS) : check_ok O c s = true ->
    in_bnd (c_bvar c) (get_var O s) /\ in_bnd (c_blen c) (m_len s) /\ in_bnd (c_bnug c) (m_nug s)
    /\ Forall (in_bnd (c_banis c)) (m_anis s)
    /\ (forall j b v, nth_error (c_bopt c) j = Some b -> nth_error (m_opt s) j = Some v -> in_bnd b v).
  Proof.
    unfold check_ok. rewrite !andb_true_iff, !Nat.eqb_eq. intros [[[[H1 H2] H3] H4] H5].
    split; [apply bnd_case_0; exact H1|]. split; [apply bnd_case_0; exact H2|]. split; [apply bnd_case_0; exact H3|].
    split; [apply bnd_case_vec_0; exact H4|].
    intros j b v Hb Hv. rewrite forallb_forall in H5.
    assert (In (b, v) (combine (c_bopt c) (m_opt s))).
    { clear H5. revert j Hb Hv. generalize (m_opt s). induction (c_bopt c) as [|b0 bl IH]; intros [|v0 vl] [|j] Hb Hv; simpl in *; try discriminate.
      - inversion Hb; inversion Hv; subst; auto.
      - right. eapply IH; eauto. }
    apply H5 in H. simpl in H. apply Nat.eqb_eq in H. apply bnd_case_0; auto.
  Qed.

  Theorem inside_bounds c nopt sel sill anis isdir evs popt (s0 s' : MS) d :
    length (m_opt s0) = nopt -> check_ok O c s0 = true ->
    fit_run O true c nopt sel sill anis isdir evs popt s0 = Ok (s', d) ->
    in_bnd (c_bvar c) (get_var O s') /\ in_bnd (c_blen c) (m_len s') /\ in_bnd (c_bnug c) (m_nug s')
    /\ Forall (in_bnd (c_banis c)) (m_anis s')
    /\ (forall j b v, nth_error (c_bopt c) j = Some b -> nth_error (m_opt s') j = Some v -> in_bnd b v).
  Proof.
    intros Hn K0 H. apply check_ok_bounds. eapply final_checked; eauto.
  Qed.

  (* ---------- the fitted parameters are the optimum: closed form of the state after the call *)
  Theorem popt_applied c nopt sel sill anis isdir evs popt (s0 s1 s' : MS) para so af d :
    length (m_opt s0) = nopt ->
    pre_para O true c nopt sel sill anis s0 = Ok (s1, para, so, af) ->
    fit_run O true c nopt sel sill anis isdir evs popt s0 = Ok (s', d) ->
    let vs := vals_of O c para (af && isdir) popt in
    (forall v, v_var vs = Some v -> get_var O s' = v /\ (forall sv, so = Some sv -> m_nug s' = sv - v))
    /\ (forall v, v_len vs = Some v -> m_len s' = v)
    /\ (forall v, v_nug vs = Some v -> so = None -> m_nug s' = v)
    /\ m_opt s' = ov_opts (v_opt vs) 0 (m_opt s1)
    /\ (forall a, v_anis vs = Some a -> m_anis s' = norm_anis O c a).
  Proof.
    intros Hn Ep. rewrite fit_run_split, Ep. cbn [bind fst snd]. intros H.
    destruct (pre_para_frame _ _ _ _ _ _ _ _ _ _ _ _ Ep Hn) as [Hl _].
    apply after_pre_ok in H; auto. destruct H as [-> _].

    split; [intros v Hv; split; [rewrite get_var_final, Hv; reflexivity | intros sv ->; unfold final_pure; cbn [m_nug]; rewrite Hv; reflexivity]|].
    split; [intros v Hv; unfold final_pure; cbn [m_len]; rewrite Hv; reflexivity|].
    split; [intros v Hv ->; unfold final_pure; cbn [m_nug]; rewrite Hv; destruct (v_var _); reflexivity|].
    split; [reflexivity|].
    intros a Ha. unfold final_pure; cbn [m_anis]. rewrite Ha. reflexivity.
  Qed.

  (* ---------- every evaluation of the curve sees the requested variance (the curve values the optimiser fits
     against are those of the model with the fixed / deselected variance, also for TPL models) *)
  Lemma get_var_curve_pure c vs var_save (s : MS) :
    get_var O (curve_pure O c vs var_save s) = odflt (v_var vs) var_save.
  Proof.
    unfold curve_pure. destruct (v_anis vs); cbn [oupd]; unfold upd_anis_n; rewrite ?get_var_upd_anis; apply get_upd_var.
  Qed.
  Theorem curve_restores_variance c p so fa var_save evs : forall (s : MS) l,
    p_var p = false ->
    evals_states O c p so fa var_save evs s = Ok l ->
    Forall (fun s' => get_var O s' = var_save) l.
  Proof.
    induction evs as [|a r IH]; intros s l Pv H; simpl in H.
    - inversion H; subst. constructor.
    - bk H s1 Q1. bk H l1 Q2. inversion H; subst. constructor; [|eapply IH; eauto].
      apply curve_step_ok in Q1. destruct Q1 as [-> _]. unfold curve_step_pure.
      rewrite (v_var_none O c p fa a Pv). rewrite get_var_curve_pure. rewrite (v_var_none O c p fa a Pv). reflexivity.
  Qed.
  Theorem trace_restores_variance c nopt sel sill anis isdir evs (s0 s1 : MS) para so af l :
    pre_para O true c nopt sel sill anis s0 = Ok (s1, para, so, af) ->
    p_var para = false ->
    fit_trace O true c nopt sel sill anis isdir evs s0 = Ok l ->
    Forall (fun s' => get_var O s' = get_var O s1) l.
  Proof.
    intros Ep Pv. unfold fit_trace. rewrite Ep. cbn [bind]. destruct (isdir && c_latlon c); [discriminate|].
    intros H. eapply curve_restores_variance; eauto.
  Qed.

  (* ---------- r2: at most 1, and exactly 1 iff the fitted curve passes through every data point *)
  Lemma sum_l_acc (l : list R) : forall a, fold_left Rplus l a = a + fold_left Rplus l 0.
  Proof.
    induction l as [|x l IH]; intros a; simpl; [lra|]. rewrite (IH (a + x)), (IH (0 + x)). lra.
  Qed.
  Lemma sum_l_cons x (l : list R) : sum_l O (x :: l) = x + sum_l O l.
  Proof. unfold sum_l; simpl. rewrite sum_l_acc. lra. Qed.
  Lemma sum_l_nonneg (l : list R) : Forall (fun x => 0 <= x) l -> 0 <= sum_l O l.
  Proof.
    induction 1 as [|x l Hx _ IH]; [unfold sum_l; simpl; lra|]. rewrite sum_l_cons. lra.
  Qed.
  Lemma sum_l_zero (l : list R) : Forall (fun x => 0 <= x) l -> sum_l O l = 0 -> Forall (fun x => x = 0) l.
  Proof.
    induction 1 as [|x l Hx Hl IH]; intros H; [constructor|]. rewrite sum_l_cons in H.
    pose proof (sum_l_nonneg l Hl). constructor; [lra|apply IH; lra].
  Qed.
  Lemma res_nonneg (ys vs : list R) :
    Forall (fun x => 0 <= x) (map (fun p => sqr O (nsub O (fst p) (snd p))) (combine ys vs)).
  Proof. apply Forall_forall. intros x Hx. apply in_map_iff in Hx. destruct Hx as [[a b] [<- _]]. unfold sqr; simpl. pose proof (Rle_0_sqr (a - b)) as Hs. unfold Rsqr in Hs. exact Hs. Qed.

  Lemma ss_res_self (ys : list R) : ss_res O ys ys = 0.
  Proof.
    induction ys as [|y ys IH]; [reflexivity|]. unfold ss_res in *. cbn [combine map]. rewrite sum_l_cons, IH.
    unfold sqr; simpl. ring.
  Qed.
  Theorem r2_le_1 (ys vs : list R) : 0 < ss_tot O ys -> r2_score O ys vs <= 1.
  Proof.
    intros Ht. unfold r2_score; simpl. pose proof (sum_l_nonneg _ (res_nonneg ys vs)) as Hr. fold (ss_res O ys vs) in Hr.
    assert (0 <= ss_res O ys vs / ss_tot O ys) by (apply Rmult_le_pos; [lra|left; apply Rinv_0_lt_compat; lra]). lra.
  Qed.
  Theorem r2_eq_1_iff (ys vs : list R) : length ys = length vs -> 0 < ss_tot O ys ->
    (r2_score O ys vs = 1 <-> ys = vs).
  Proof.
    intros Hl Ht. unfold r2_score; simpl. split.
    - intros H. assert (Hz : ss_res O ys vs = 0).
      { assert (ss_res O ys vs / ss_tot O ys = 0) by lra. unfold Rdiv in H0. apply Rmult_integral in H0.
        destruct H0; auto. exfalso. assert (0 < / ss_tot O ys) by (apply Rinv_0_lt_compat; lra). lra. }
      apply sum_l_zero in Hz; [|apply res_nonneg]. clear H Ht. revert vs Hl Hz.
      induction ys as [|y ys IH]; intros [|v vs] Hl Hz; simpl in *; try discriminate; auto.
      inversion Hz as [|? ? H1 H2]; subst. f_equal; [|apply IH; auto].
      unfold sqr in H1; simpl in H1. nra.
    - intros <-. rewrite ss_res_self. unfold Rdiv. lra.
  Qed.
  (* ---------- the decision table of the sill bookkeeping: which of var / nugget gives way *)
  Definition sill_body c (nfv nfn : bool) (s : MS) (sv0 : R) : Res (MS * bool * bool * option R) :=
    if sill_in_range O c sv0
    then if nfv && nfn
         then if nltb O sv0 (get_var O s)
              then match b_lo (c_bnug c) with
                   | Some l => s1 <- set_nug O c s l;; s2 <- set_var O c s1 (nsub O sv0 (m_nug s1));; Ok (s2, true, true, Some sv0)
                   | None => Err E_OTHER
                   end
              else (s1 <- set_nug O c s (nsub O sv0 (get_var O s));; Ok (s1, true, true, Some sv0))
         else if nfv
              then if nltb O sv0 (get_var O s) then Err E_VARSILL
                   else (s1 <- set_nug O c s (nsub O sv0 (get_var O s));; Ok (s1, true, true, Some sv0))
              else if nfn
                   then if nltb O sv0 (m_nug s) then Err E_NUGSILL
                        else (s1 <- set_var O c s (nsub O sv0 (m_nug s));; Ok (s1, true, true, Some sv0))
                   else Ok (s, false, true, Some sv0)
    else Err E_SILL.
  Lemma sill_book_body c sill nfv nfn (s : MS) :
    sill_book O c sill nfv nfn s =
    match sill with
    | SillNone => Ok (s, nfv, nfn, None)
    | SillCurrent => sill_body c nfv nfn s (get_var O s + m_nug s)
    | SillVal v => sill_body c nfv nfn s v
    end.
  Proof. destruct sill; reflexivity. Qed.

  Lemma sill_body_table c nfv nfn (s s' : MS) a b so sv :
    sill_body c nfv nfn s sv = Ok (s', a, b, so) ->
    so = Some sv /\ b = true
    /\ (nfv = true -> nfn = true -> sv < get_var O s ->
         a = true /\ exists l, b_lo (c_bnug c) = Some l /\ m_nug s' = l /\ get_var O s' = sv - l)
    /\ (nfv = true -> (nfn = true -> ~ sv < get_var O s) ->
         a = true /\ get_var O s' = get_var O s /\ m_nug s' = sv - get_var O s)
    /\ (nfv = false -> nfn = true -> a = true /\ m_nug s' = m_nug s /\ get_var O s' = sv - m_nug s)
    /\ (nfv = false -> nfn = false -> a = false /\ s' = s).
  Proof.
    unfold sill_body. intros H. destruct (sill_in_range O c sv); [|discriminate].
    destruct nfv, nfn; cbn [andb] in H.
    - change (nltb O sv (get_var O s)) with (Rltb sv (get_var O s)) in H.
      destruct (Rltb sv (get_var O s)) eqn:Eb; [apply Rltb_true in Eb | apply Rltb_false in Eb].
      + destruct (b_lo (c_bnug c)) as [l|] eqn:El; [|discriminate].
        bk H s1 Q1. bk H s2 Q2. apply set_nug_ok in Q1. apply set_var_ok in Q2.
        destruct Q1 as [-> _], Q2 as [-> _]. inversion H; subst.
        split; auto. split; auto. split; [|split; [|split]]; try (intros; discriminate).
        * intros _ _ _. split; auto. exists l. split; auto. split; [reflexivity|]. rewrite get_upd_var. reflexivity.
        * intros _ Hn. exfalso. apply Hn; auto.
      + bk H s1 Q1. apply set_nug_ok in Q1. destruct Q1 as [-> _]. inversion H; subst.
        split; auto. split; auto. split; [|split; [|split]]; try (intros; discriminate).
        * intros _ _ Hlt. lra.
        * intros _ _. split; auto.
    - change (nltb O sv (get_var O s)) with (Rltb sv (get_var O s)) in H.
      destruct (Rltb sv (get_var O s)); [discriminate|].
      bk H s1 Q1. apply set_nug_ok in Q1. destruct Q1 as [-> _]. inversion H; subst.
      split; auto. split; auto. split; [|split; [|split]]; try (intros; discriminate).
      intros _ _. split; auto.
    - destruct (nltb O sv (m_nug s)); [discriminate|].
      bk H s1 Q1. apply set_var_ok in Q1. destruct Q1 as [-> _]. inversion H; subst.
      split; auto. split; auto. split; [|split; [|split]]; try (intros; discriminate).
      intros _ _. split; auto. split; [reflexivity|]. rewrite get_upd_var. reflexivity.
    - inversion H; subst. split; auto. split; auto. split; [|split; [|split]]; try (intros; discriminate). auto.
  Qed.

  (* lifted to the whole call with a prescribed sill value: [t2] is the model right after the fixed values were applied *)
  Theorem sill_decision_table c nopt sel anis isdir evs popt (s0 s' t1 t2 : MS) d v :
    length (m_opt s0) = nopt ->
    apply_fixed O c nopt sel s0 = Ok t1 ->
    oset (set_var O c) (var_target O true sel s0) t1 = Ok t2 ->
    fit_run O true c nopt sel (SillVal v) anis isdir evs popt s0 = Ok (s', d) ->
    (nf_in sel 0 = true -> nf_in sel 2 = true -> v < get_var O t2 ->
       exists l, b_lo (c_bnug c) = Some l /\ m_nug s' = l /\ get_var O s' = v - l)
    /\ (nf_in sel 0 = true -> (nf_in sel 2 = true -> ~ v < get_var O t2) ->
       get_var O s' = get_var O t2 /\ m_nug s' = v - get_var O t2)
    /\ (nf_in sel 0 = false -> nf_in sel 2 = true -> m_nug s' = m_nug t2 /\ get_var O s' = v - m_nug t2).
  Proof.
    intros Hn Pa Pb H. pose proof H as H0. rewrite fit_run_split in H0.
    destruct (pre_para O true c nopt sel (SillVal v) anis s0) as [[[[s1 para] so] af]|] eqn:Ep; [|discriminate].
    cbn [bind fst snd] in H0.
    destruct (pre_para_frame _ _ _ _ _ _ _ _ _ _ _ _ Ep Hn) as [Hl _].
    apply after_pre_ok in H0; auto. destruct H0 as [Hs' _].
    (* open _pre_para *)
    pose proof Ep as Ep'. unfold pre_para in Ep'. rewrite Pa in Ep'. cbn [bind] in Ep'. rewrite Pb in Ep'. cbn [bind] in Ep'.
    bk Ep' r Pc. destruct r as [[[t3 nfv'] nfn'] so'].
    rewrite sill_book_body in Pc. apply sill_body_table in Pc. destruct Pc as [-> [-> [T1 [T2 [T3 T4]]]]].
    assert (S1 : get_var O s1 = get_var O t3 /\ m_nug s1 = m_nug t3 /\ para = mkPara (negb nfv') (negb (nf_in sel 1)) false
                   (map (fun i => negb (nf_in sel (3 + i))) (seq 0 nopt)) /\ so = Some v).
    { destruct anis as [| |a0].
      - inversion Ep'; subst; auto.
      - inversion Ep'; subst; auto.
      - bk Ep' t4 Pd. apply set_anis_ok in Pd. destruct Pd as [-> _]. inversion Ep'; subst. unfold upd_anis_n.
        rewrite get_var_upd_anis. auto. }
    destruct S1 as [V1 [N1 [-> ->]]].
    assert (F : nfv' = true -> get_var O s' = get_var O t3 /\ m_nug s' = m_nug t3).
    { intros ->. rewrite Hs'.
      match goal with |- context [final_pure O c ?p0 _ _ _ _ _] => set (pp := p0) end.
      assert (Pv : p_var pp = false) by reflexivity. assert (Pn : p_nug pp = false) by reflexivity.
      rewrite get_var_final. unfold final_pure. cbn [m_nug].
      rewrite ?(v_var_none O c pp (af && isdir) popt Pv). cbn [odflt]. rewrite (v_nug_none O c pp (af && isdir) popt Pn). cbn [odflt]. split; congruence. }
    split; [|split].
    - intros A B Hlt. destruct (T1 A B Hlt) as [-> [l [L1 [L2 L3]]]]. destruct (F eq_refl) as [F1 F2].
      exists l. split; auto. split; congruence.
    - intros A B. destruct (T2 A B) as [-> [L2 L3]]. destruct (F eq_refl) as [F1 F2]. split; congruence.
    - intros A B. destruct (T3 A B) as [-> [L2 L3]]. destruct (F eq_refl) as [F1 F2]. split; congruence.
  Qed.
End AtR.
