(* C08_Math.v — what the pair-enumeration specification of the estimators means over the reals:
   half-open bins, counts and sums over the SET of pairs (order free), Matheron / Cressie formulas. *)
From Coq Require Import Reals ZArith List Bool Arith Lia Lra Permutation.
From GS Require Import Num Loops Cellwise RInst Estimator_gen C15_VarioSpec.
Import ListNotations.
Open Scope R_scope.

Section M.
Variable ora : nat -> list R -> R.
Notation O := (Rops ora).

Definition Rsum (l : list R) : R := fold_right Rplus 0 l.
Lemma Rsum_app l1 l2 : Rsum (l1 ++ l2) = Rsum l1 + Rsum l2.
Proof. induction l1; simpl; lra. Qed.
Lemma Rsum_perm l1 l2 : Permutation l1 l2 -> Rsum l1 = Rsum l2.
Proof. induction 1; simpl; lra. Qed.

(* ---- half-open bins *)
Lemma in_bin_half_open edges i d :
  in_bin O edges i d = true <-> aget 0 edges i <= d < aget 0 edges (i + 1).
Proof.
  unfold in_bin. simpl. rewrite negb_true_iff, orb_false_iff, Rltb_false, Rleb_false. tauto.
Qed.

(* ---- one pair: every field counts (no NaN in R), the increments are summed *)
Definition pair_term (f : list (list R)) (est : R -> R) (j k : nat) : R :=
  Rsum (map (fun m => est (aget2 0 f m k - aget2 0 f m j)) (seq 0 (shape0 f))).

Lemma pair_contrib_R f est j k (acc : Z * R) :
  pair_contrib O f est j k acc = ((fst acc + Z.of_nat (shape0 f))%Z, snd acc + pair_term f est j k).
Proof.
  unfold pair_contrib, pair_term, for_, valid_pair. simpl nisnan. simpl orb. simpl negb. cbv iota.
  rewrite Nat.sub_0_r. generalize (shape0 f) as n. intros n.
  assert (G : forall lo (acc : Z * R),
     fold_left (fun (st : Z * R) (i : nat) => ((fst st + 1)%Z, nadd O (snd st) (est (nsub O (aget2 0 f i k) (aget2 0 f i j))))) (seq lo n) acc
     = ((fst acc + Z.of_nat n)%Z, snd acc + Rsum (map (fun m => est (aget2 0 f m k - aget2 0 f m j)) (seq lo n)))).
  { induction n as [|n IH]; intros lo [c s]; simpl.
    - f_equal; [lia | lra].
    - rewrite IH. simpl. f_equal; [lia | lra]. }
  apply G.
Qed.

(* ---- a bin: count and sum over the pairs that fall into it, for ANY enumeration order *)
Definition bin_fold (dist : nat -> nat -> R) f est edges i (l : list (nat * nat)) (acc : Z * R) : Z * R :=
  fold_left (fun acc jk =>
      if in_bin O edges i (dist (fst jk) (snd jk)) then pair_contrib O f est (fst jk) (snd jk) acc else acc) l acc.
Definition sel (dist : nat -> nat -> R) edges i (l : list (nat * nat)) :=
  filter (fun jk => in_bin O edges i (dist (fst jk) (snd jk))) l.

Lemma bin_fold_R dist f est edges i l acc :
  bin_fold dist f est edges i l acc
  = ((fst acc + Z.of_nat (shape0 f) * Z.of_nat (length (sel dist edges i l)))%Z,
     snd acc + Rsum (map (fun jk => pair_term f est (fst jk) (snd jk)) (sel dist edges i l))).
Proof.
  unfold bin_fold, sel. revert acc. induction l as [|[j k] l IH]; intros [c s]; simpl.
  - f_equal; [lia | lra].
  - destruct (in_bin O edges i (dist j k)) eqn:E.
    + rewrite IH, pair_contrib_R. simpl. f_equal; [lia | lra].
    + rewrite IH. reflexivity.
Qed.

Lemma filter_perm {A} (p : A -> bool) l1 l2 : Permutation l1 l2 -> Permutation (filter p l1) (filter p l2).
Proof.
  induction 1; simpl; auto.
  - destruct (p x); auto.
  - destruct (p x), (p y); auto. apply perm_swap.
  - eapply Permutation_trans; eauto.
Qed.

Lemma bin_acc_fold dist f est edges n i :
  bin_acc O dist f est edges n i = bin_fold dist f est edges i (pairs n) (0%Z, 0).
Proof. reflexivity. Qed.

Theorem bin_order_free dist f est edges n i (l : list (nat * nat)) :
  Permutation l (pairs n) -> bin_fold dist f est edges i l (0%Z, 0) = bin_acc O dist f est edges n i.
Proof.
  intros P. rewrite bin_acc_fold, !bin_fold_R. pose proof (filter_perm (fun jk => in_bin O edges i (dist (fst jk) (snd jk))) _ _ P) as PF.
  unfold sel. f_equal.
  - now rewrite (Permutation_length PF).
  - f_equal. apply Rsum_perm. now apply Permutation_map.
Qed.

(* the bin accumulator in closed form *)
Theorem bin_acc_R dist f est edges n i :
  bin_acc O dist f est edges n i
  = ((Z.of_nat (shape0 f) * Z.of_nat (length (sel dist edges i (pairs n))))%Z,
     Rsum (map (fun jk => pair_term f est (fst jk) (snd jk)) (sel dist edges i (pairs n)))).
Proof.
  rewrite bin_acc_fold, bin_fold_R. cbn [fst snd]. f_equal; try lia; lra.
Qed.

Lemma in_sel dist edges i n j k :
  In (j, k) (sel dist edges i (pairs n)) <-> (j < k < n)%nat /\ aget 0 edges i <= dist j k < aget 0 edges (i + 1).
Proof. unfold sel. rewrite filter_In, in_pairs, in_bin_half_open. simpl. tauto. Qed.

(* ---- estimators and normalisation as documented *)
Lemma est_matheron d : est_of O 109 d = d * d.
Proof. reflexivity. Qed.
Lemma est_cressie et d : et <> 109%Z -> est_of O et d = sqrt (Rabs d).
Proof. intros H. unfold est_of. apply Z.eqb_neq in H. rewrite H. reflexivity. Qed.

Lemma nlit_R p k : nlit O p k = IZR p / IZR (10 ^ Z.of_nat k).
Proof. unfold nlit. destruct k; simpl; [|reflexivity]. unfold Rdiv. rewrite Rinv_1. ring. Qed.

Theorem norm_matheron_R v c : (1 <= c)%Z -> norm1 O 109 v c = v / (2 * IZR c).
Proof.
  intros H. unfold norm1. rewrite Z.max_l by lia. simpl. f_equal.
Qed.
Theorem norm_matheron_empty v c : (c <= 0)%Z -> norm1 O 109 v c = v / 2.
Proof. intros H. unfold norm1. rewrite Z.max_r by lia. simpl. field. Qed.

Theorem norm_cressie_R et v c : et <> 109%Z -> (1 <= c)%Z ->
  norm1 O et v c = (1 / 2 * powerRZ (1 / IZR c * v) 4) / (457 / 1000 + (494 / 1000) / IZR c + (45 / 1000) / IZR (c ^ 2)).
Proof.
  intros He H. unfold norm1. apply Z.eqb_neq in He. rewrite He. rewrite Z.max_l by lia.
  unfold nlit. cbn [nmul ndiv nadd n1 nofZ npow Rops].
  change (10 ^ Z.of_nat 1)%Z with 10%Z. change (10 ^ Z.of_nat 3)%Z with 1000%Z.
  rewrite (Rpow_IZR _ 4). f_equal. f_equal. lra.
Qed.

(* Euclidean distance of the kernel = sqrt of the sum of squared coordinate differences *)
Theorem dist_euclid_R dim pos i j :
  dist_euclid O dim pos i j
  = sqrt (Rsum (map (fun d => (aget2 0 pos d i - aget2 0 pos d j) * (aget2 0 pos d i - aget2 0 pos d j)) (seq 0 dim))).
Proof.
  unfold dist_euclid. cbv zeta. cbn [nsqrt Rops]. f_equal. unfold for_. rewrite Nat.sub_0_r.
  assert (G : forall lo a, fold_left (fun (st : R) (d : nat) =>
     nadd O st (nmul O (nsub O (aget2 (n0 O) pos d i) (aget2 (n0 O) pos d j)) (nsub O (aget2 (n0 O) pos d i) (aget2 (n0 O) pos d j)))) (seq lo dim) a
     = a + Rsum (map (fun d => (aget2 0 pos d i - aget2 0 pos d j) * (aget2 0 pos d i - aget2 0 pos d j)) (seq lo dim))).
  { induction dim as [|n IH]; intros lo a; simpl; [lra|]. rewrite IH. simpl. lra. }
  rewrite G. cbn [n0 Rops]. lra.
Qed.

(* masked axis estimator: a lag-k pair contributes iff BOTH of its cells are unmasked *)
Theorem mask_is_filter f mask est k :
  lag_acc O (fun i j k => andb (Z.eqb (aget2 0%Z mask i j) 0) (Z.eqb (aget2 0%Z mask (i + k) j) 0)) f est k
  = for_ 0 (shape0 f - 1) (fun i (acc : Z * R) => for_ 0 (shape1 f) (fun j (acc : Z * R) =>
      if andb (andb (Nat.leb 1 k) (Nat.ltb k (shape0 f - 1 + 1 - i)))
              (andb (Z.eqb (aget2 0%Z mask i j) 0) (Z.eqb (aget2 0%Z mask (i + k) j) 0))
      then ((fst acc + 1)%Z, snd acc + est (aget2 0 f i j - aget2 0 f (i + k) j)) else acc) acc) (0%Z, 0).
Proof. reflexivity. Qed.
End M.
