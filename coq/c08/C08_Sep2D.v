(* C08_Sep2D.v — in the plane, directions that vario_estimate declares "separated"
   (angle between their axes >= 2 * angles_tol) cannot both accept the same point pair of positive length:
   the premise of the break-harmless lemma holds in 2-D. *)
From Coq Require Import Reals Lra Lia ZArith List Bool.
From GS Require Import Num Loops Cellwise RInst Estimator_gen C15_VarioSpec C15_DirSpec.
Import ListNotations.
Open Scope R_scope.

(* planar identity: u1.u2 = (w.u1)(w.u2) + (w x u1)(w x u2) for a unit vector w *)
Lemma planar_dot p q r s x y : x * x + y * y = 1 ->
  p * r + q * s = (x * p + y * q) * (x * r + y * s) + (x * q - y * p) * (x * s - y * r).
Proof.
  intros H.
  replace ((x * p + y * q) * (x * r + y * s) + (x * q - y * p) * (x * s - y * r))
    with ((x * x + y * y) * (p * r + q * s)) by ring.
  rewrite H. ring.
Qed.

Lemma cross_sq p q x y : x * x + y * y = 1 -> p * p + q * q = 1 ->
  (x * q - y * p) * (x * q - y * p) = 1 - (x * p + y * q) * (x * p + y * q).
Proof.
  intros H1 H2.
  replace ((x * q - y * p) * (x * q - y * p)) with ((x * x + y * y) * (p * p + q * q) - (x * p + y * q) * (x * p + y * q)) by ring.
  rewrite H1, H2. ring.
Qed.

(* core: unit vectors u1 = (p,q), u2 = (r,s), w = (x,y); C = cos tol in [0,1).
   If |w.u1| > C and |w.u2| > C then |u1.u2| > 2 C^2 - 1 = cos (2 tol). *)
Lemma sep2d_core p q r s x y C : 0 <= C -> C < 1 ->
  p * p + q * q = 1 -> r * r + s * s = 1 -> x * x + y * y = 1 ->
  C < Rabs (x * p + y * q) -> C < Rabs (x * r + y * s) ->
  2 * C * C - 1 < Rabs (p * r + q * s).
Proof.
  intros HC0 HC1 H1 H2 Hw Ha Hb.
  set (a := x * p + y * q) in *. set (b := x * r + y * s) in *.
  set (ca := x * q - y * p). set (cb := x * s - y * r).
  assert (E : p * r + q * s = a * b + ca * cb) by (unfold a, b, ca, cb; apply planar_dot; auto).
  assert (Eca : ca * ca = 1 - a * a) by (unfold ca, a; apply cross_sq; auto).
  assert (Ecb : cb * cb = 1 - b * b) by (unfold cb, b; apply cross_sq; auto).
  assert (Haa : C * C < a * a).
  { pose proof (Rabs_pos a).
    assert (a * a = Rabs a * Rabs a) by (unfold Rabs; destruct (Rcase_abs a); ring). nra. }
  assert (Hbb : C * C < b * b).
  { pose proof (Rabs_pos b).
    assert (b * b = Rabs b * Rabs b) by (unfold Rabs; destruct (Rcase_abs b); ring). nra. }
  assert (Hab : C * C < Rabs (a * b)).
  { rewrite Rabs_mult. pose proof (Rabs_pos a). pose proof (Rabs_pos b). nra. }
  assert (Hcc : Rabs (ca * cb) < 1 - C * C).
  { rewrite Rabs_mult.
    assert (A1 : Rabs ca * Rabs ca = 1 - a * a) by (rewrite <- Eca; unfold Rabs; destruct (Rcase_abs ca); ring).
    assert (A2 : Rabs cb * Rabs cb = 1 - b * b) by (rewrite <- Ecb; unfold Rabs; destruct (Rcase_abs cb); ring).
    pose proof (Rabs_pos ca). pose proof (Rabs_pos cb).
    (* (|ca| |cb|)^2 = (1-a^2)(1-b^2) < (1-C^2)^2 and both sides non-negative *)
    assert (S : (Rabs ca * Rabs cb) * (Rabs ca * Rabs cb) < (1 - C * C) * (1 - C * C)) by nra.
    nra. }
  rewrite E.
  pose proof (Rabs_triang_inv (a * b) (- (ca * cb))) as T.
  replace (a * b - - (ca * cb)) with (a * b + ca * cb) in T by ring.
  rewrite Rabs_Ropp in T. lra.
Qed.

(* ---- the angle test of dir_test over the reals *)
Definition in_angle_R (sp dist tol : R) : bool :=
  if Rltb 0 dist then (if Rltb (Rabs sp / dist) 1 then Rltb (acos (Rabs sp / dist)) tol else true) else true.

Lemma acos_lt_cos t tol : 0 <= t <= 1 -> 0 < tol <= PI / 2 -> acos t < tol -> cos tol < t.
Proof.
  intros Ht Htol H. pose proof PI_RGT_0.
  assert (B : 0 <= acos t <= PI) by (apply acos_bound).
  rewrite <- (cos_acos t) by lra. apply cos_decreasing_1; lra.
Qed.

Lemma in_angle_gt sp dist tol : 0 < dist -> Rabs sp <= dist -> 0 < tol <= PI / 2 ->
  in_angle_R sp dist tol = true -> cos tol < Rabs sp / dist.
Proof.
  intros Hd Hle Htol H. unfold in_angle_R in H.
  assert (Hq : 0 <= Rabs sp / dist) by (apply Rmult_le_pos; [apply Rabs_pos | left; now apply Rinv_0_lt_compat]).
  assert (Hq1 : Rabs sp / dist <= 1) by (apply Rmult_le_reg_r with dist; auto; unfold Rdiv; rewrite Rmult_assoc, Rinv_l by lra; lra).
  destruct (Rltb 0 dist) eqn:E0; [|apply Rltb_false in E0; lra].
  destruct (Rltb (Rabs sp / dist) 1) eqn:E1.
  - apply Rltb_true in H. apply acos_lt_cos; auto.
  - apply Rltb_false in E1. assert (cos tol < 1).
    { rewrite <- cos_0. pose proof PI_RGT_0. apply cos_decreasing_1; lra. }
    lra.
Qed.

Lemma unit_dot_le1 p q r s : p * p + q * q = 1 -> r * r + s * s = 1 -> Rabs (p * r + q * s) <= 1.
Proof.
  intros H1 H2. apply Rabs_le.
  assert ((p * r + q * s) * (p * r + q * s) <= 1).
  { replace 1 with ((p * p + q * q) * (r * r + s * s)) by (rewrite H1, H2; ring).
    assert (0 <= (p * s - q * r) * (p * s - q * r)) by apply Rle_0_sqr. nra. }
  split; nra.
Qed.

(* the separation test of vario_estimate: arccos(min(|u1.u2|, 1)) >= 2 tol *)
Theorem sep2d p q r s vx vy tol :
  0 < tol <= PI / 2 ->
  p * p + q * q = 1 -> r * r + s * s = 1 ->
  2 * tol <= acos (Rmin (Rabs (p * r + q * s)) 1) ->
  let dist := sqrt (vx * vx + vy * vy) in
  0 < dist ->
  in_angle_R (vx * p + vy * q) dist tol = true ->
  in_angle_R (vx * r + vy * s) dist tol = false.
Proof.
  intros Htol H1 H2 Hsep dist Hd Hp.
  destruct (in_angle_R (vx * r + vy * s) dist tol) eqn:Hq; [exfalso|reflexivity].
  pose proof PI_RGT_0 as HPI.
  assert (Hd2 : dist * dist = vx * vx + vy * vy).
  { unfold dist. apply sqrt_sqrt. nra. }
  set (x := vx / dist). set (y := vy / dist).
  assert (Hw : x * x + y * y = 1).
  { unfold x, y. replace (vx / dist * (vx / dist) + vy / dist * (vy / dist)) with ((vx * vx + vy * vy) / (dist * dist)) by (field; lra).
    rewrite <- Hd2. field. lra. }
  assert (CS : forall a b, a * a + b * b = 1 -> Rabs (vx * a + vy * b) <= dist).
  { intros a b Hab. apply Rabs_le.
    assert ((vx * a + vy * b) * (vx * a + vy * b) <= dist * dist).
    { rewrite Hd2. replace (vx * vx + vy * vy) with ((vx * vx + vy * vy) * (a * a + b * b)) by (rewrite Hab; ring).
      assert (0 <= (vx * b - vy * a) * (vx * b - vy * a)) by apply Rle_0_sqr. nra. }
    split; nra. }
  pose proof (in_angle_gt _ _ _ Hd (CS p q H1) Htol Hp) as G1.
  pose proof (in_angle_gt _ _ _ Hd (CS r s H2) Htol Hq) as G2.
  assert (E1 : Rabs (vx * p + vy * q) / dist = Rabs (x * p + y * q)).
  { unfold x, y. replace (vx / dist * p + vy / dist * q) with ((vx * p + vy * q) / dist) by (field; lra).
    unfold Rdiv. rewrite Rabs_mult, (Rabs_right (/ dist)); auto. left. now apply Rinv_0_lt_compat. }
  assert (E2 : Rabs (vx * r + vy * s) / dist = Rabs (x * r + y * s)).
  { unfold x, y. replace (vx / dist * r + vy / dist * s) with ((vx * r + vy * s) / dist) by (field; lra).
    unfold Rdiv. rewrite Rabs_mult, (Rabs_right (/ dist)); auto. left. now apply Rinv_0_lt_compat. }
  rewrite E1 in G1. rewrite E2 in G2.
  assert (HC0 : 0 <= cos tol) by (apply cos_ge_0; lra).
  assert (HC1 : cos tol < 1) by (rewrite <- cos_0; apply cos_decreasing_1; lra).
  pose proof (sep2d_core p q r s x y (cos tol) HC0 HC1 H1 H2 Hw G1 G2) as Core.
  (* separation gives |u1.u2| <= cos (2 tol) *)
  pose proof (unit_dot_le1 p q r s H1 H2) as Hc1.
  rewrite Rmin_left in Hsep by exact Hc1.
  assert (Hc0 : 0 <= Rabs (p * r + q * s)) by apply Rabs_pos.
  assert (B : 0 <= acos (Rabs (p * r + q * s)) <= PI) by apply acos_bound.
  assert (Hcos : Rabs (p * r + q * s) <= cos (2 * tol)).
  { rewrite <- (cos_acos (Rabs (p * r + q * s))) by lra. apply cos_decr_1; lra. }
  rewrite cos_2a_cos in Hcos. lra.
Qed.

(* ---- tie to the translated dir_test / dist_euclid in dimension 2 *)
Section Tie.
Variable ora : nat -> list R -> R.
Notation O := (Rops ora).

Lemma nlit_10_1 : nlit O 10 1 = 1.
Proof. unfold nlit. simpl. change (10 ^ 1)%Z with 10%Z. field. Qed.

Definition sprod2 (pos direction : list (list R)) (i j d : nat) : R :=
  (aget2 0 pos 0 i - aget2 0 pos 0 j) * aget2 0 direction d 0
  + (aget2 0 pos 1 i - aget2 0 pos 1 j) * aget2 0 direction d 1.

Lemma dir_test_in_angle pos direction dist tol bw i j d :
  dir_test O 2 pos dist direction tol bw i j d = true ->
  in_angle_R (sprod2 pos direction i j d) dist tol = true.
Proof.
  unfold dir_test. cbv zeta. intros H. apply andb_true_iff in H. destruct H as [_ H].
  unfold in_angle_R, sprod2.
  assert (E : for_ 0 2 (fun (k : nat) (s_prod : R) =>
        nadd O s_prod (nmul O (nsub O (aget2 (n0 O) pos k i) (aget2 (n0 O) pos k j)) (aget2 (n0 O) direction d k))) (n0 O)
      = (aget2 0 pos 0 i - aget2 0 pos 0 j) * aget2 0 direction d 0 + (aget2 0 pos 1 i - aget2 0 pos 1 j) * aget2 0 direction d 1).
  { unfold for_. simpl. ring. }
  rewrite E in H. clear E. exact H.
Qed.

Lemma dist_euclid_2 pos j k :
  dist_euclid O 2 pos j k
  = sqrt ((aget2 0 pos 0 k - aget2 0 pos 0 j) * (aget2 0 pos 0 k - aget2 0 pos 0 j)
          + (aget2 0 pos 1 k - aget2 0 pos 1 j) * (aget2 0 pos 1 k - aget2 0 pos 1 j)).
Proof. unfold dist_euclid. cbv zeta. unfold for_. simpl. f_equal. ring. Qed.

(* two directions of a 2-D direction set that vario_estimate's _separate_dirs_test accepts as separated cannot both
   pass the direction test for the same pair of distinct points: the early break of the kernel changes nothing *)
Theorem separated_2d pos direction tol bw j k d1 d2 :
  0 < tol <= PI / 2 ->
  aget2 0 direction d1 0 * aget2 0 direction d1 0 + aget2 0 direction d1 1 * aget2 0 direction d1 1 = 1 ->
  aget2 0 direction d2 0 * aget2 0 direction d2 0 + aget2 0 direction d2 1 * aget2 0 direction d2 1 = 1 ->
  2 * tol <= acos (Rmin (Rabs (aget2 0 direction d1 0 * aget2 0 direction d2 0
                               + aget2 0 direction d1 1 * aget2 0 direction d2 1)) 1) ->
  0 < dist_euclid O 2 pos j k ->
  dir_test O 2 pos (dist_euclid O 2 pos j k) direction tol bw k j d1 = true ->
  dir_test O 2 pos (dist_euclid O 2 pos j k) direction tol bw k j d2 = false.
Proof.
  intros Htol U1 U2 Hsep Hd H1.
  destruct (dir_test O 2 pos (dist_euclid O 2 pos j k) direction tol bw k j d2) eqn:H2; [exfalso|reflexivity].
  apply dir_test_in_angle in H1. apply dir_test_in_angle in H2.
  rewrite dist_euclid_2 in *.
  pose proof (sep2d _ _ _ _ (aget2 0 pos 0 k - aget2 0 pos 0 j) (aget2 0 pos 1 k - aget2 0 pos 1 j) tol Htol U1 U2 Hsep Hd) as S.
  unfold sprod2 in H1, H2. rewrite (S H1) in H2. discriminate.
Qed.
End Tie.
