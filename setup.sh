#!/bin/sh
# offline build of the whole framework: Coq development (full .vo), extraction, OCaml drivers
set -e
cd "$(dirname "$0")"
exec /venv/bin/python harness/setup.py
