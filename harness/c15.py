"""C15 — compiled kernels equal their source semantics under every thread count.

stages: translate .pyx -> Gallina (tie 1) ; theorems props/C15.v ; extraction + driver ;
        correspondence model / .so / source interpretation / OpenMP build (tie 2 + search) ;
        wrapper probes (config.NUM_THREADS dispatch)."""
import numpy as np

import common as C
import kernels as K

SIZES_Q = [0, 1, 2, 3, 5, 17]
SIZES_T = [0, 1, 2, 3, 5, 17, 64]
THREADS = [None, 1, 2, 3, 4, 8, 16]


def special_values(rng, shape, kind):
    a = rng.normal(size=shape)
    if kind == "huge":
        a *= 1e150
    elif kind == "tiny":
        a *= 1e-160
    elif kind == "mixed":
        a *= 10.0 ** rng.integers(-8, 8, size=shape)
    elif kind == "int":
        a = rng.integers(-3, 4, size=shape).astype(float)
    return np.ascontiguousarray(a)


def gen_cases(rng, tier):
    sizes = SIZES_T if tier == "thorough" else SIZES_Q
    reps = 3 if tier == "thorough" else 1
    cases = []
    kinds = ["normal", "mixed", "int", "huge", "tiny"]
    for rep in range(reps):
        for dim in (1, 2, 3, 4):
            for n_pts in sizes:
                n_modes = int(rng.choice(sizes))
                kind = kinds[int(rng.integers(len(kinds)))]
                ks = special_values(rng, (dim, n_modes), kind)
                pos = special_values(rng, (dim, n_pts), "normal" if kind in ("huge", "tiny") else kind)
                z1 = special_values(rng, (n_modes,), "normal")
                z2 = special_values(rng, (n_modes,), "normal")
                sf = np.abs(special_values(rng, (n_modes,), "normal"))
                cases.append(("summate", dict(dim=dim, n=n_pts, m=n_modes, kind=kind), (ks, z1, z2, pos)))
                cases.append(("summate_fourier", dict(dim=dim, n=n_pts, m=n_modes, kind=kind), (sf, ks, z1, z2, pos)))
                if dim >= 2 or True:
                    ks2 = ks.copy()
                    cases.append(("summate_incompr", dict(dim=dim, n=n_pts, m=n_modes, kind=kind), (ks2, z1, z2, pos)))
        for n_cond in sizes:
            for n_tgt in (0, 1, 3, 17) if tier == "quick" else sizes:
                kind = kinds[int(rng.integers(3))]
                mat = special_values(rng, (n_cond, n_cond), kind)
                vecs = special_values(rng, (n_cond, n_tgt), kind)
                cond = special_values(rng, (n_cond,), "normal")
                if n_cond == 0:
                    # krig_vecs of shape (0, n) : shape[1] is still n in numpy, 0 in the list model
                    vecs = np.zeros((0, 0))
                cases.append(("calc_field_krige", dict(nc=n_cond, nt=n_tgt, kind=kind), (mat, vecs, cond)))
                cases.append(("calc_field_krige_and_variance", dict(nc=n_cond, nt=n_tgt, kind=kind), (mat, vecs, cond)))
        # variogram estimators
        for dim in (1, 2, 3):
            for n_pts in sizes[:6]:
                for est in ("m", "c"):
                    nf = int(rng.integers(1, 4))
                    pos = special_values(rng, (dim, n_pts), "int" if rng.random() < 0.4 else "normal")
                    f = special_values(rng, (nf, n_pts), "normal")
                    if n_pts and rng.random() < 0.6:
                        f[rng.random(size=f.shape) < 0.2] = np.nan
                    nb = int(rng.integers(1, 6))
                    edges = np.sort(np.abs(rng.normal(size=nb + 1))) * 2.5
                    if rng.random() < 0.5:
                        edges[0] = 0.0
                    if n_pts >= 3 and rng.random() < 0.5:
                        # bin edges that coincide EXACTLY with pair distances (half-open bins are decided here)
                        dd = np.unique(np.sqrt(((pos[:, :, None] - pos[:, None, :]) ** 2).sum(axis=0)).ravel())
                        pick = np.sort(rng.choice(dd, size=min(len(dd), nb + 1), replace=False))
                        if len(pick) >= 2:
                            edges = pick
                            nb = len(edges) - 1
                    cases.append(("unstructured", dict(dim=dim, n=n_pts, nf=nf, nb=nb, est=est, dist="e"),
                                  (f, edges, pos, est, "e")))
                    if dim == 2:
                        ll = np.vstack([rng.uniform(-90, 90, n_pts), rng.uniform(-200, 400, n_pts)])
                        if n_pts > 2:
                            ll[:, 1] = ll[:, 0]          # duplicate point
                            ll[0, 2 % n_pts] = 90.0      # pole
                        e2 = np.sort(rng.uniform(0, np.pi, nb + 1))
                        e2[0] = 0.0
                        cases.append(("unstructured", dict(dim=dim, n=n_pts, nf=nf, nb=nb, est=est, dist="h"),
                                      (f, e2, np.ascontiguousarray(ll), est, "h")))
                    if dim >= 2:
                        nd = int(rng.integers(1, 4))
                        dirs = rng.normal(size=(nd, dim))
                        dirs /= np.linalg.norm(dirs, axis=1)[:, None]
                        tol = float(rng.uniform(0.05, np.pi / 2))
                        bw = float(rng.choice([-1.0, 0.5, 2.0]))
                        sep = bool(rng.random() < 0.5)
                        cases.append(("directional", dict(dim=dim, n=n_pts, nf=nf, nb=nb, est=est, nd=nd, sep=sep, bw=bw),
                                      (f, edges, pos, np.ascontiguousarray(dirs), tol, bw, sep, est)))
        # "rich" estimator cases: enough points, several fields with different NaN patterns, bins covering the
        # whole distance range, wide and narrow cones — so that every branch of the pair loop is taken many times
        for rich in range(10):
            dim = int(rng.integers(1, 4))
            n_pts = int(rng.integers(10, 24))
            nf = int(rng.integers(2, 4))
            est = "m" if rich % 2 == 0 else "c"
            pos = special_values(rng, (dim, n_pts), "int" if rich % 3 == 0 else "normal")
            f = special_values(rng, (nf, n_pts), "normal")
            f[rng.random(size=f.shape) < 0.25] = np.nan
            dmax = float(np.sqrt(((pos.max(axis=1) - pos.min(axis=1)) ** 2).sum())) + 0.5
            nb = int(rng.integers(2, 6))
            edges = np.linspace(0.0, dmax, nb + 1)
            cases.append(("unstructured", dict(dim=dim, n=n_pts, nf=nf, nb=nb, est=est, dist="e", rich=True), (f, edges, pos, est, "e")))
            if dim >= 2:
                nd = int(rng.integers(1, 4))
                dirs = rng.normal(size=(nd, dim))
                dirs /= np.linalg.norm(dirs, axis=1)[:, None]
                tol = float(rng.choice([np.pi / 2, 1.0, 0.4]))
                bw = float(rng.choice([-1.0, 1.5, 4.0]))
                sep = bool(rich % 2)
                cases.append(("directional", dict(dim=dim, n=n_pts, nf=nf, nb=nb, est=est, nd=nd, sep=sep, bw=bw, rich=True),
                              (f, edges, pos, np.ascontiguousarray(dirs), tol, bw, sep, est)))
        for (nx, ny) in [(1, 1), (2, 1), (3, 2), (5, 4), (9, 3), (17, 5)]:
            for est in ("m", "c"):
                f = special_values(rng, (nx, ny), "normal")
                mask = (rng.random(size=(nx, ny)) < 0.3)
                cases.append(("structured", dict(nx=nx, ny=ny, est=est), (f, est)))
                cases.append(("ma_structured", dict(nx=nx, ny=ny, est=est), (f, mask, est)))
    return cases


MOD_OF = {
    "summate": "summator", "summate_fourier": "summator", "summate_incompr": "summator",
    "calc_field_krige": "krigesum", "calc_field_krige_and_variance": "krigesum",
    "unstructured": "estimator", "directional": "estimator", "structured": "estimator", "ma_structured": "estimator",
}
HAS_PRANGE = {"summate", "summate_fourier", "calc_field_krige", "calc_field_krige_and_variance",
              "unstructured", "directional", "structured", "ma_structured"}


def call_impl(mod, fn, args, num_threads=None):
    a = list(args)
    if fn == "ma_structured":
        a[1] = np.ascontiguousarray(a[1]).astype(np.uint8) if hasattr(mod, "__pyx_capi__") or True else a[1]
    try:
        if fn == "summate_incompr":
            r = getattr(mod, fn)(*a)
        else:
            r = getattr(mod, fn)(*a, num_threads=num_threads)
    except ValueError:
        return "ValueError"
    return r


def strided_variants(rng, args):
    """the same argument values held in NON-contiguous / offset views (step-2 slices of a larger buffer, Fortran order):
    the kernels take strided memoryviews, so results must not depend on the memory layout"""
    out = []
    for which in range(len(args)):
        a = args[which]
        if not isinstance(a, np.ndarray) or a.size == 0 or a.dtype == bool:
            continue
        new = list(args)
        if a.ndim == 1:
            buf = np.full(2 * a.shape[0] + 3, 7.25)
            buf[1:1 + 2 * a.shape[0]:2] = a
            new[which] = buf[1:1 + 2 * a.shape[0]:2]
        elif a.ndim == 2:
            if rng.random() < 0.5:
                new[which] = np.asfortranarray(a)
            else:
                buf = np.full((2 * a.shape[0] + 1, 2 * a.shape[1] + 1), -3.5)
                buf[1::2, 1::2][:a.shape[0], :a.shape[1]] = a
                new[which] = buf[1::2, 1::2][:a.shape[0], :a.shape[1]]
        else:
            continue
        assert not (new[which].flags["C_CONTIGUOUS"] and new[which].ndim == 1 and a.shape[0] > 1) or a.shape[0] <= 1
        out.append((which, tuple(new)))
    return out


def call_spec(drv, fn, args):
    a = list(args)
    enc = []
    for x in a:
        if isinstance(x, str):
            enc.append(("z", ord(x)))
        elif isinstance(x, (bool, np.bool_)):
            enc.append(bool(x))
        elif isinstance(x, float):
            enc.append(float(x))
        else:
            x = np.asarray(x)
            if x.dtype == bool:
                x = x.astype(np.int64)
            enc.append(x)
    r = drv.call("spec:" + fn, *enc)
    if r is None:
        return "ValueError"
    return r


def call_model(drv, fn, args, sched):
    a = list(args)
    enc = []
    for x in a:
        if isinstance(x, str):
            enc.append(("z", ord(x)))
        elif isinstance(x, (bool, np.bool_)):
            enc.append(bool(x))
        elif isinstance(x, float):
            enc.append(float(x))
        else:
            x = np.asarray(x)
            if x.dtype == bool:
                x = x.astype(np.int64)
            enc.append(x)
    if fn == "summate_incompr":
        r = drv.call(fn, *enc)
    else:
        r = drv.call(fn, ("n", sched), *enc)
    if r is None:
        return "ValueError"
    return r


def same(a, b):
    """bitwise equality of results (tuples of arrays, arrays, or the error marker)"""
    if isinstance(a, str) or isinstance(b, str):
        return isinstance(a, str) and isinstance(b, str) and a == b
    if isinstance(a, tuple) or isinstance(b, tuple):
        if not (isinstance(a, tuple) and isinstance(b, tuple)) or len(a) != len(b):
            return False
        return all(same(x, y) for x, y in zip(a, b))
    a = np.asarray(a)
    b = np.asarray(b)
    if a.shape != b.shape:
        # the list model cannot represent (0, n) / (n, 0) shapes separately
        if a.size == 0 and b.size == 0:
            return True
        return False
    if a.dtype.kind in "iu" or b.dtype.kind in "iu":
        return bool((a == b).all())
    return C.bit_equal(a, b)


def describe(args):
    out = []
    for x in args:
        if isinstance(x, np.ndarray):
            out.append(dict(shape=list(x.shape), hex=[C.fhex(v) for v in x.astype(float).ravel()[:4000]]))
        else:
            out.append(x if not isinstance(x, (np.bool_,)) else bool(x))
    return out


def nontrivial(fn, meta):
    m = dict(meta)
    sz = [v for k, v in m.items() if k in ("n", "m", "nc", "nt", "nx")]
    return all(s >= 2 for s in sz)


def run(ctx):
    rng = C.Rng(ctx.seed, "C15")
    ctx.rule = ("cases = kernel entry point x dim 1-4 x sizes {0,1,2,3,5,17(,64)} x value kind; a case is non-trivial when all "
                "extents are >= 2; distinct = distinct (kernel, shape, value kind, estimator/direction options) keys")
    ctx.trusted = [
        "Coq 8.16.1 kernel (coqc); no native_compute",
        "translators tools/pyx2py.py, tools/pyx2coq.py (construct table = assumed semantics of the Cython subset)",
        "extraction (ExtrOcamlBasic only, no Extract Constant/Inductive of our own), OCaml 4.13, ocaml/proto.ml float instance (glibc libm)",
        "DRF-SC: data-race-free prange iterations behave as some interleaving of whole iterations",
        "Cython compiler and gcc/OpenMP runtime are compared by execution only",
    ]
    ctx.not_proved = ["IEEE rounding is not modelled in theorems: they are generic in the number type (hold for doubles as they are)",
                      "summate_incompr has no prange; its refinement to a closed-form spec is not proved, it is tied by translation + execution",
                      "all eight prange kernels are proved; the exact statements are in coq/props/C15.v"]
    # 1. tie by translation
    gen = C.regenerate()
    tie_broken = [k for k, v in gen.items() if v]
    for k, v in gen.items():
        ctx.tie[k] = "translated (pyx2coq)" if not v else "TRANSLATION FAILED: " + v
    # 2. theorems
    proofs_ok = (not tie_broken) and ctx.proofs("props/C15.v")
    # 3. driver
    drv = None
    if not tie_broken:
        ok, out = C.build_driver("c15")
        if ok:
            drv = C.Driver("c15")
        else:
            tie_broken.append("extraction/driver build: " + out[-400:])
    # 4. implementations
    so = K.load_so()
    try:
        src = K.load_src()
        src_err = None
    except Exception as e:
        src, src_err = None, repr(e)
        tie_broken.append("pyx2py: " + src_err)
    omp = K.OmpBuild()
    ompm = omp.build()
    for k, v in omp.errors.items():
        ctx.notes.append("OpenMP build of %s failed: %s" % (k, v))
    try:
        cases = gen_cases(rng, ctx.tier)
        n_model = n_src = n_thr = n_lay = 0
        for fn, meta, args in cases:
            ref = call_impl(so[MOD_OF[fn]], fn, args)
            key = (fn,) + tuple(sorted(meta.items()))
            ctx.count(key if nontrivial(fn, meta) else None, hist=dict(kernel=fn, dim=meta.get("dim", "-"),
                      size=meta.get("n", meta.get("nc", meta.get("nx"))), kind=meta.get("kind", meta.get("est"))))
            ctx.sample(dict(kernel=fn, meta=meta))
            case = dict(kernel=fn, meta=meta, args=describe(args))
            # model (three schedules) vs .so
            if drv is not None:
                for sched in (0, 1, 2):
                    if fn == "summate_incompr" and sched:
                        continue
                    r = call_model(drv, fn, args, sched)
                    n_model += 1
                    if not same(ref, r):
                        ctx.violation("correspondence: model(%s, schedule %d) vs compiled .so" % (fn, sched),
                                      "translated source semantics and compiled artefact differ on %s" % fn,
                                      dict(case, expected_so=describe([ref] if not isinstance(ref, tuple) else list(ref)),
                                           model=describe([r] if not isinstance(r, tuple) else list(r))),
                                      key="%s:model-vs-so" % fn)
                        break
            # hand-written specification (defining sums / pair enumeration) vs .so
            if drv is not None and fn != "summate_incompr":
                r = call_spec(drv, fn, args)
                n_model += 1
                if not same(ref, r):
                    ctx.violation("correspondence: defining sums (specification of %s) vs compiled .so" % fn,
                                  "the compiled kernel does not return its defining sums on %s" % fn,
                                  dict(case, expected_spec=describe([r] if not isinstance(r, tuple) else list(r)),
                                       so=describe([ref] if not isinstance(ref, tuple) else list(ref))),
                                  key="%s:spec-vs-so" % fn)
            # memory layout: strided / Fortran-ordered views of the same values
            for which, vargs in strided_variants(rng, args):
                r = call_impl(so[MOD_OF[fn]], fn, vargs)
                n_lay += 1
                if not same(ref, r):
                    ctx.violation("layout: %s with argument %d as a non-contiguous view" % (fn, which),
                                  "the compiled kernel's result depends on the memory layout of an argument",
                                  dict(case, strided_argument=which), key="%s:layout" % fn)
                    break
            # plain interpretation of the source vs .so
            if src is not None:
                try:
                    r = call_impl(src[MOD_OF[fn]], fn, args)
                except Exception as e:       # a construct outside the translated subset: the tie is broken, keep searching
                    tie_broken.append("pyx2py interpretation of %s raised %r" % (fn, e))
                    src = None
                    r = ref
                n_src += 1
                if not same(ref, r):
                    ctx.violation("correspondence: source interpretation(%s) vs compiled .so" % fn,
                                  "the compiled artefact disagrees with a plain interpretation of its own source on %s" % fn,
                                  case, key="%s:src-vs-so" % fn)
            # thread counts, serial artefact and OpenMP build
            if fn in HAS_PRANGE:
                for build, mods in (("so", so), ("omp", ompm)):
                    if MOD_OF[fn] not in mods:
                        continue
                    base = call_impl(mods[MOD_OF[fn]], fn, args, 1)
                    if not same(base, ref):
                        ctx.violation("threads: %s build, 1 thread vs shipped .so (%s)" % (build, fn),
                                      "OpenMP build of the tree's generated C differs from the shipped artefact", case,
                                      key="%s:omp-vs-so" % fn)
                    for nt in THREADS:
                        r = call_impl(mods[MOD_OF[fn]], fn, args, nt)
                        n_thr += 1
                        if not same(base, r):
                            ctx.violation("threads: %s build num_threads=%s (%s)" % (build, nt, fn),
                                          "result depends on the number of threads", dict(case, num_threads=nt),
                                          key="%s:threads" % fn)
                            break
        ctx.notes.append("model+spec runs %d, source-interpretation runs %d, thread-count runs %d, layout-variant runs %d" % (n_model, n_src, n_thr, n_lay))
        big_shapes(ctx, rng, so, ompm)
        wrapper_probes(ctx, rng)
    finally:
        omp.cleanup()
        if drv:
            drv.close()
    if (tie_broken or not proofs_ok) and not ctx.violations:
        ctx.violation("proof/tie", "proof obligations or the model/code tie of C15 no longer check: %s" % (
            tie_broken or getattr(ctx, "proof_failure", {}).get("output_tail", "")[-600:]),
            dict(tie_broken=tie_broken, proof=getattr(ctx, "proof_failure", None)), no_input=True)


def big_shapes(ctx, rng, so, ompm):
    """thousands of points: shipped .so vs OpenMP build vs thread counts (no model evaluation needed:
    the theorems cover every size)"""
    n = 4096 if ctx.tier == "thorough" else 1500
    for dim in (1, 3):
        ks = rng.normal(size=(dim, 257)); z1 = rng.normal(size=257); z2 = rng.normal(size=257)
        pos = rng.normal(size=(dim, n)) * 10
        ref = so["summator"].summate(ks, z1, z2, pos)
        ref_f = so["summator"].summate_fourier(np.abs(z1), ks, z1, z2, pos)
        for nt in THREADS:
            for name, mods in (("so", so), ("omp", ompm)):
                if "summator" not in mods:
                    continue
                ctx.count(("big", "summate", dim, name), hist=dict(kernel="summate[big]"))
                if not same(ref, mods["summator"].summate(ks, z1, z2, pos, num_threads=nt)):
                    ctx.violation("threads: big summate %s nt=%s" % (name, nt), "summate depends on thread count/build",
                                  dict(dim=dim, n=n, nt=nt, build=name, seed=ctx.seed), key="summate:threads")
                if not same(ref_f, mods["summator"].summate_fourier(np.abs(z1), ks, z1, z2, pos, num_threads=nt)):
                    ctx.violation("threads: big summate_fourier %s nt=%s" % (name, nt), "summate_fourier depends on thread count/build",
                                  dict(dim=dim, n=n, nt=nt, build=name, seed=ctx.seed), key="summate_fourier:threads")
    nc = 60
    mat = rng.normal(size=(nc, nc)); vecs = rng.normal(size=(nc, n)); cond = rng.normal(size=nc)
    ref = so["krigesum"].calc_field_krige_and_variance(mat, vecs, cond)
    for nt in THREADS:
        for name, mods in (("so", so), ("omp", ompm)):
            if "krigesum" in mods:
                ctx.count(("big", "krige", name), hist=dict(kernel="krige[big]"))
                if not same(ref, mods["krigesum"].calc_field_krige_and_variance(mat, vecs, cond, num_threads=nt)):
                    ctx.violation("threads: big krige %s nt=%s" % (name, nt), "kriging sums depend on thread count/build",
                                  dict(n=n, nt=nt, build=name, seed=ctx.seed), key="krige:threads")
    npts = 700 if ctx.tier == "thorough" else 300
    pos = rng.normal(size=(2, npts)); f = rng.normal(size=(2, npts)); f[0, ::7] = np.nan
    edges = np.linspace(0, 3, 12)
    dirs = np.array([[1.0, 0.0], [0.0, 1.0]])
    refu = so["estimator"].unstructured(f, edges, pos)
    refd = so["estimator"].directional(f, edges, pos, dirs, np.pi / 8, -1.0, False, "m")
    g = rng.normal(size=(120, 40)); msk = (rng.random(size=(120, 40)) < 0.2).astype(np.uint8)
    refs = so["estimator"].structured(g, "c")
    refm = so["estimator"].ma_structured(g, msk, "m")
    for nt in THREADS:
        for name, mods in (("so", so), ("omp", ompm)):
            if "estimator" not in mods:
                continue
            e = mods["estimator"]
            ctx.count(("big", "vario", name), hist=dict(kernel="variogram[big]"))
            if not same(refu, e.unstructured(f, edges, pos, num_threads=nt)):
                ctx.violation("threads: big unstructured %s nt=%s" % (name, nt), "unstructured depends on thread count/build",
                              dict(nt=nt, build=name, seed=ctx.seed), key="unstructured:threads")
            if not same(refd, e.directional(f, edges, pos, dirs, np.pi / 8, -1.0, False, "m", num_threads=nt)):
                ctx.violation("threads: big directional %s nt=%s" % (name, nt), "directional depends on thread count/build",
                              dict(nt=nt, build=name, seed=ctx.seed), key="directional:threads")
            if not same(refs, e.structured(g, "c", num_threads=nt)):
                ctx.violation("threads: big structured %s nt=%s" % (name, nt), "structured depends on thread count/build",
                              dict(nt=nt, build=name, seed=ctx.seed), key="structured:threads")
            if not same(refm, e.ma_structured(g, msk, "m", num_threads=nt)):
                ctx.violation("threads: big ma_structured %s nt=%s" % (name, nt), "ma_structured depends on thread count/build",
                              dict(nt=nt, build=name, seed=ctx.seed), key="ma_structured:threads")


def wrapper_probes(ctx, rng):
    """Python wrappers: dispatch to the kernels with config.NUM_THREADS must not change results,
    and the wrappers must pass their arguments through unchanged."""
    import gstools as gs
    from gstools import config
    from gstools.field import generator as G
    from gstools.krige import base as KB
    from gstools.variogram import variogram as V
    from gstools.field import summator as S
    from gstools.krige import krigesum as KS
    from gstools.variogram import estimator as E
    old = config.NUM_THREADS
    try:
        ks = rng.normal(size=(2, 30)); z1 = rng.normal(size=30); z2 = rng.normal(size=30); pos = rng.normal(size=(2, 50))
        sf = np.abs(rng.normal(size=30))
        mat = rng.normal(size=(7, 7)); vecs = rng.normal(size=(7, 20)); cond = rng.normal(size=7)
        f = rng.normal(size=(1, 50)); edges = np.linspace(0, 2, 6)
        g = rng.normal(size=(12, 5)); msk = rng.random(size=(12, 5)) < 0.3
        checks = [
            ("_summate", lambda nt: G._summate(ks, z1, z2, pos, nt), lambda: S.summate(ks, z1, z2, pos)),
            ("_summate_incompr", lambda nt: G._summate_incompr(ks, z1, z2, pos, nt), lambda: S.summate_incompr(ks, z1, z2, pos)),
            ("_summate_fourier", lambda nt: G._summate_fourier(sf, ks, z1, z2, pos, nt), lambda: S.summate_fourier(sf, ks, z1, z2, pos)),
            ("_calc_field_krige", lambda nt: KB._calc_field_krige(mat, vecs, cond, nt), lambda: KS.calc_field_krige(mat, vecs, cond)),
            ("_calc_field_krige_and_variance", lambda nt: KB._calc_field_krige_and_variance(mat, vecs, cond, nt),
             lambda: KS.calc_field_krige_and_variance(mat, vecs, cond)),
            ("_unstructured", lambda nt: V._unstructured(f, edges, pos, "m", "e", nt), lambda: E.unstructured(f, edges, pos, "m", "e")),
            ("_structured", lambda nt: V._structured(g, "m", nt), lambda: E.structured(g, "m")),
            ("_ma_structured", lambda nt: V._ma_structured(g, msk, "m", nt), lambda: E.ma_structured(g, msk.astype(np.uint8), "m")),
        ]
        for name, wrap, direct in checks:
            ref = direct()
            for nt in (None, 1, 4):
                ctx.count(("wrapper", name), hist=dict(kernel="wrapper:" + name))
                if not same(ref, wrap(nt)):
                    ctx.violation("wrapper %s num_threads=%s" % (name, nt), "Python wrapper changes the kernel result",
                                  dict(wrapper=name, nt=nt, seed=ctx.seed), key="wrapper:" + name)
        # end-to-end: results do not depend on config.NUM_THREADS
        model = gs.Exponential(dim=2, var=1.3, len_scale=2.0)
        x = rng.uniform(0, 10, 40); y = rng.uniform(0, 10, 40)
        outs = []
        for nt in (None, 1, 4):
            config.NUM_THREADS = nt
            srf = gs.SRF(model, seed=7)
            fld = srf((x, y))
            kr = gs.krige.Ordinary(model, (x[:10], y[:10]), fld[:10])
            kf, kv = kr((x, y))
            be, gam = gs.vario_estimate((x, y), fld, np.linspace(0, 5, 8))
            outs.append((fld, kf, kv, gam))
            ctx.count(("e2e", nt), hist=dict(kernel="end-to-end"))
        for o in outs[1:]:
            if not all(same(a, b) for a, b in zip(outs[0], o)):
                ctx.violation("end-to-end config.NUM_THREADS", "results depend on config.NUM_THREADS",
                              dict(seed=ctx.seed), key="e2e:threads")
    finally:
        config.NUM_THREADS = old


def replay(ctx, path):
    import json
    rec = json.load(open(path))
    print(json.dumps({k: rec[k] for k in ("stage", "what")}, indent=1))
    run(ctx)
    return ctx.finish()
