"""C04 — spectral representation is the Fourier pair of the covariance (PARTIAL by design).

stages: theorems props/C04.v (R-level: radial pdf = surface factor * density, l^d-scaling of all eight analytic
        densities, cdf' = pdf, cdf limits, integral of the pdf = 1, ppf o cdf = id, Fourier pair Exponential 1D) ;
        extraction + driver ; correspondence of spectral_density / spectrum / spectral_rad_pdf / ln pdf / cdf / ppf /
        has_cdf / has_ppf of the eight classes with analytic spectra against the extracted model (special functions
        answered with the scipy / gstools function the implementation calls) ;
        probes on the implementation: numerical d-dimensional Fourier transform of model.correlation (graded
        Gauss-Legendre panels, cross-checked with mpmath) against spectral_density for all 17 classes x dim 1-3,
        inverse transform over the compact spectral support for JBessel (Gauss-Jacobi), integral of the radial pdf,
        cdf' vs pdf, ppf o cdf, spectrum = var * density, finiteness in the far tail."""
import json
import math
import os
import warnings

import numpy as np
from scipy import special as sps

import common as C

PID = "C04"
T_ANALYTIC = 1e-8       # |S_code - FT| / S(0), analytic spectra (quadrature + special functions are at 1e-13)
T_HANKEL = 1e-2         # default numerical path at HANKEL_DEFAULT, k = 0 and k*l >= 1 (measured <= 3.8e-3, falls like 1/k)
KEY_HANKEL_SMALLK = "default-hankel:0<k*len_rescaled<1"
KEY_TPLEXP_TAIL = "TPLExponential:far-tail:k*len_rescaled>=1e7:hyp2f1-argument-rounds-to-1"
KEY_INTEGRAL_UNDERFLOW = "Integral:nu>=20:0<k*len_rescaled<=1e-5:x**s-underflow"


def oracle(code, xs):
    from gstools.tools.special import inc_gamma_low
    f = {0: sps.gamma, 8: sps.loggamma, 2: sps.jv, 3: sps.hyp2f1, 6: sps.erf, 7: sps.erfinv, 9: inc_gamma_low}[code]
    with np.errstate(all="ignore"):
        return float(np.real(f(*xs)))


def lu(rng, lo, hi):
    return float(math.exp(rng.uniform(math.log(lo), math.log(hi))))


# --------------------------------------------------------------------------- classes

ANALYTIC = {"Gaussian": 0, "Exponential": 1, "Matern": 2, "Integral": 3, "HyperSpherical": 4, "JBessel": 5,
            "TPLGaussian": 6, "TPLExponential": 7}
DEFAULT_PATH = ["Stable", "Rational", "Cubic", "Linear", "Circular", "Spherical", "SuperSpherical", "TPLStable", "TPLSimple"]
COMPACT = {"Cubic", "Linear", "Circular", "Spherical", "HyperSpherical", "SuperSpherical", "TPLSimple"}


def make(name, d, ls, rs=None, params=None, var=1.0, **kw):
    import gstools as gs
    a = dict(dim=d, len_scale=ls, var=var)
    if rs is not None:
        a["rescale"] = rs
    a.update(params or {})
    bounds = a.pop("_bounds", None)             # enlarged argument bounds: set_arg_bounds first, then the value
    late = {k_: a.pop(k_) for k_ in list(bounds or {}) if k_ in a}
    via_dim = kw.pop("via_dim", None)
    ctor = kw.pop("ctor", None)
    a.update(kw)
    if ctor == "temporal":                      # dim = spatial_dim + 1
        a.pop("dim")
        a.update(spatial_dim=d - 1, temporal=True)
    elif ctor == "latlon_temporal":             # dim = 3 + 1
        a.pop("dim")
        a.update(latlon=True, temporal=True)
    with warnings.catch_warnings():
        warnings.simplefilter("ignore")
        if bounds:
            m = getattr(gs, name)(**a)
            m.set_arg_bounds(**bounds)
            for k_, v_ in late.items():
                setattr(m, k_, v_)
            if "var" in a:
                m.var = a["var"]
            return m
        if via_dim is None:
            return getattr(gs, name)(**a)
        a["dim"] = via_dim                      # built in another dimension, then moved with the dim setter
        m = getattr(gs, name)(**a)
        m.dim = d
        return m


def resolve(params, ls):
    """shape parameters given relative to len_scale -> absolute"""
    if "len_low_rel" in params:
        p = {k: v for k, v in params.items() if k != "len_low_rel"}
        p["len_low"] = params["len_low_rel"] * ls
        return p
    return params


def rescales(rng):
    """rescale in {class default (None: not passed), < 1, > 1}: every function is exercised with all three"""
    return [lu(rng, 0.3, 0.8), lu(rng, 1.3, 3.0), None]


def pick_sets(name, psets, rng, n):
    """rotating subset of the parameter sets; truncated power laws always keep one substantial lower cut-off of each size"""
    if len(psets) <= n:
        return psets
    keep = []
    if name in ("TPLGaussian", "TPLExponential"):
        for rel in (0.4, 2.0):
            c = [p for p in psets if p.get("len_low_rel") == rel]
            keep.append(c[int(rng.integers(len(c)))])
    rest = [p for p in psets if p not in keep]
    idx = sorted(rng.choice(len(rest), size=max(n - len(keep), 1), replace=False))
    return keep + [rest[i] for i in idx]


def model_params(name, params):
    """(p1, p2) of the Gallina class"""
    if name in ("Matern", "Integral", "JBessel"):
        return float(params["nu"]), 0.0
    if name in ("TPLGaussian", "TPLExponential"):
        return float(params["hurst"]), float(params.get("len_low", 0.0))
    return 0.0, 0.0


def param_sets(name, d, rng, tier, for_probe=False, enlarged=False):
    """shape parameters over the bounds incl. the bounds and the branch points of the code; enlarged=True adds values beyond
    the default bounds (set_arg_bounds) just above the branch thresholds that lie ON a bound (Integral: nu > 50)"""
    n_rand = 1 if tier == "quick" else 3
    if enlarged and name == "Integral":
        big = dict(nu=[0.0, 1e6, "oo"])
        # s = 1 + nu/2 kept away from integers: exp_int's isclose(s, round(s)) shortcut is a C03 matter
        return param_sets(name, d, rng, tier, for_probe) + [dict(nu=v, _bounds=big) for v in
                                                            ([50.001, 51.0, 107.3] if tier == "quick" else [50.001, 50.5, 51.0, 63.7, 107.3, 1000.3])]
    if name == "Matern":
        fixed = [0.2, 0.5, 1.0, 2.5, 20.0, 20.000001, 30.0]
        return [dict(nu=v) for v in fixed] + [dict(nu=lu(rng, 0.2, 30)) for _ in range(n_rand)]
    if name == "Integral":
        fixed = [0.3, 1.0, 3.0, 50.0] + ([] if for_probe else [0.01])
        return [dict(nu=v) for v in fixed] + [dict(nu=lu(rng, 0.3, 50)) for _ in range(n_rand)]
    if name == "JBessel":
        fixed = [d / 2 - 1 + 0.3, d / 2, d / 2 + 0.5, 3.7, 50.0] + ([] if for_probe else [d / 2 - 1 + 0.005])
        return [dict(nu=v) for v in fixed] + [dict(nu=d / 2 - 1 + lu(rng, 0.3, 20)) for _ in range(n_rand)]
    if name in ("TPLGaussian", "TPLExponential"):
        out = []
        # len_low: 0, a tiny absolute value (the former isclose shortcut), and substantial cut-offs RELATIVE to len_scale
        for h in [0.11, 0.5, 0.9] + [float(rng.uniform(0.15, 0.95)) for _ in range(n_rand)]:
            out.append(dict(hurst=h, len_low=0.0))
            out.append(dict(hurst=h, len_low=1e-9))
            for rel in ([0.4, 2.0] if tier == "quick" else [0.4, 2.0, 7.0]):
                out.append(dict(hurst=h, len_low_rel=rel))
        return out
    if name == "Stable":
        return [dict(alpha=a) for a in [0.7, 1.5, 2.0] + [float(rng.uniform(0.7, 2.0)) for _ in range(n_rand)]]
    if name == "Rational":   # alpha > d/2 + 1/2: the correlation is absolutely integrable with a finite S(0)
        return [dict(alpha=a) for a in [2.5, 5.0, 50.0]]
    if name == "SuperSpherical":
        return [dict(nu=v) for v in [(d - 1) / 2, (d - 1) / 2 + 1.5, 7.0]]
    if name == "TPLStable":
        return [dict(alpha=1.5, hurst=0.5, len_low=0.0), dict(alpha=0.8, hurst=0.3, len_low=0.0), dict(alpha=2.0, hurst=0.7, len_low=0.5)]
    if name == "TPLSimple":
        return [dict(nu=v) for v in [(d + 1) / 2, (d + 1) / 2 + 2.0, 9.0]]
    return [dict()]


# --------------------------------------------------------------------------- numerical Fourier transforms (reference)

_X, _W = np.polynomial.legendre.leggauss(24)


def panels_integrate(f, edges):
    a = np.asarray(edges[:-1])[:, None]
    b = np.asarray(edges[1:])[:, None]
    x = 0.5 * (b + a) + 0.5 * (b - a) * _X[None, :]
    w = 0.5 * (b - a) * _W[None, :]
    with np.errstate(all="ignore"):
        v = np.asarray(f(x.ravel()), dtype=float).reshape(x.shape)
    return float(np.sum(w * v))


def edges_for(rmax, k, kinks=(), grade=44):
    """panel edges on [0, rmax]: width <= a quarter period of the kernel, geometric grading toward 0 and every kink"""
    h = rmax / 64.0
    if k > 0:
        h = min(h, math.pi / (2 * k))
    n = int(math.ceil(rmax / h))
    e = list(np.linspace(0, rmax, n + 1))
    for c in [0.0] + [c for c in kinks if 0 < c <= rmax]:
        for j in range(1, grade):
            for s in (+1, -1):
                p = c + s * h * 2.0 ** (-j)
                if 0 < p < rmax:
                    e.append(p)
    return np.array(sorted(set(e)))


class ReferenceUnavailable(Exception):
    """model.correlation is not a usable integrand (non-finite or outside [-1, 1] on the quadrature nodes): that is a defect
    of the correlation (property C03), and no reference transform exists for this case"""


def checked(cor):
    def f(r):
        v = np.asarray(cor(r), dtype=float)
        if not np.all(np.isfinite(v)) or np.any(np.abs(v) > 1 + 1e-5):
            raise ReferenceUnavailable("correlation not finite / outside [-1,1] at %d of %d nodes" % (
                int(np.sum(~np.isfinite(v) | (np.abs(v) > 1 + 1e-5))), v.size))
        return v
    return f


def ft_forward(cor, d, k, rmax, kinks=()):
    """S(k) = (2 pi)^-d int rho(|r|) e^{ik.r} d^d r of a radial function supported (numerically) on [0, rmax]"""
    cor = checked(cor)
    if d == 1:
        g = lambda r: cor(r) * np.cos(k * r) / np.pi
    elif d == 2:
        g = lambda r: cor(r) * sps.j0(k * r) * r / (2 * np.pi)
    elif d == 3:
        g = lambda r: cor(r) * np.sinc(k * r / np.pi) * r * r / (2 * np.pi ** 2)
    else:   # (2 pi)^-d/2 k^(1-d/2) int rho J_{d/2-1}(k r) r^{d/2} dr  =  (2 pi)^-d/2 int rho Lambda(k r) r^{d-1} dr
        g = lambda r: cor(r) * bessel_lambda(d / 2.0 - 1.0, k * r) * r ** (d - 1) / (2 * np.pi) ** (d / 2.0)
    return panels_integrate(g, edges_for(rmax, k, kinks))


def bessel_lambda(nu, x):
    """J_nu(x) / x^nu, with its limit 1 / (2^nu Gamma(nu+1)) at x = 0"""
    x = np.asarray(x, dtype=float)
    out = np.full_like(x, 1.0 / (2.0 ** nu * sps.gamma(nu + 1.0)))
    nz = x > 1e-6
    out[nz] = sps.jv(nu, x[nz]) / x[nz] ** nu
    return out


def sphere_surface(d, r):
    """surface of the (d-1)-sphere of radius r: 2 pi^(d/2) / Gamma(d/2) r^(d-1) (independent of the code's rad_fac)"""
    return 2.0 * np.pi ** (d / 2.0) / sps.gamma(d / 2.0) * np.abs(r) ** (d - 1)


def ft_forward_mp(cor, d, k, rmax):
    """the same integral with mpmath (tanh-sinh on the half periods), independent of the panel code"""
    import mpmath as mp
    f = lambda r: mp.mpf(float(cor(np.array([float(r)]))[0]))
    if d == 1:
        g = lambda r: f(r) * mp.cos(k * r) / mp.pi
    elif d == 2:
        g = lambda r: f(r) * mp.besselj(0, k * r) * r / (2 * mp.pi)
    else:
        g = (lambda r: f(r) * mp.sin(k * r) * r / (2 * mp.pi ** 2 * k)) if k > 0 else (lambda r: f(r) * r * r / (2 * mp.pi ** 2))
    pts = [0.0]
    step = math.pi / k if k > 0 else rmax / 8
    step = min(step, rmax / 8)
    while pts[-1] + step < rmax:
        pts.append(pts[-1] + step)
    pts.append(rmax)
    pts = sorted(set(pts + [rmax * 2.0 ** -j for j in (4, 8, 16, 32)]))
    return float(mp.quad(g, pts))


def find_rmax(m, d, name):
    l = m.len_rescaled
    if name in COMPACT:
        return l
    if name in ("TPLGaussian", "TPLExponential", "TPLStable"):
        l = m.len_up_rescaled
    if name == "Rational":
        return 400.0 * l
    r = 4.0 * l
    while r < 1e5 * l:
        x = np.linspace(r, 1.5 * r, 7)
        with np.errstate(all="ignore"):
            if np.max(np.abs(m.correlation(x)) * (x / l) ** (d - 1)) < 1e-19:
                break
        r *= 1.5
    return r


def jbessel_inverse(m, d, r, n=400):
    """rho(r) = (2 pi)^{d/2} r^{1-d/2} int_0^{1/l} S(k) J_{d/2-1}(k r) k^{d/2} dk with the code's S; the end-point
    singularity (1 - (k l)^2)^(nu - d/2) is the Gauss-Jacobi weight"""
    l = m.len_rescaled
    a = m.nu - d / 2.0
    t, w = sps.roots_jacobi(n, a, 0.0)
    x = (t + 1) / 2.0                       # k l in (0, 1)
    k = x / l
    # S(k) = c * (1-x)^a (1+x)^a  -> evaluate c from the code away from the end point
    with np.errstate(all="ignore"):
        s = m.spectral_density(k)
        smooth = s / (1.0 - x) ** a        # code value without the Jacobi weight factor (finite: (1+x)^a * c)
    if d == 1:
        ker = 2.0 * np.cos(k * r)
    elif d == 2:
        ker = 2 * np.pi * sps.j0(k * r) * k
    elif d == 3:
        ker = 4 * np.pi * np.sinc(k * r / np.pi) * k * k
    else:
        ker = (2 * np.pi) ** (d / 2.0) * bessel_lambda(d / 2.0 - 1.0, k * r) * k ** (d - 1)
    return float(0.5 ** (a + 1) * np.sum(w * smooth * ker) / l)


def int_pdf_log(m, name):
    """int_0^oo spectral_rad_pdf(r) dr with r = e^y / l (smooth integrand, algebraic tails become exponential)"""
    l = m.len_rescaled
    f = lambda y: m.spectral_rad_pdf(np.exp(y) / l) * np.exp(y) / l
    ys = np.linspace(-45.0, 260.0, 1221)
    with np.errstate(all="ignore"):
        v = f(ys)
    v = np.where(np.isfinite(v), v, 0.0)
    big = np.nonzero(v > 1e-19 * np.max(v))[0]
    lo, hi = ys[max(big[0] - 1, 0)], ys[min(big[-1] + 1, len(ys) - 1)]
    edges = np.linspace(lo, hi, int((hi - lo) / 0.125) + 2)
    return panels_integrate(f, edges), float(np.exp(hi))


# --------------------------------------------------------------------------- checks (each returns (ok, detail))

_LAST_MODEL = {}


def chk_corr(drv, case):
    """model vs implementation on one argument of one function"""
    name, d, ls, rs, params, fn, x = case["cls"], case["dim"], case["len_scale"], case["rescale"], case["params"], case["fn"], case["x"]
    var = case.get("var", 1.0)
    key = (name, d, ls, rs, json.dumps(params, sort_keys=True), var)
    if _LAST_MODEL.get("key") != key:                    # consecutive cases share the model object (construction costs ~15 ms)
        _LAST_MODEL.update(key=key, model=make(name, d, ls, rs, params, var=var))
    m = _LAST_MODEL["model"]
    rs = float(m.rescale) if rs is None else rs          # None: the class default (sqrt(pi)/2 for Gaussian, 1 otherwise)
    p1, p2 = model_params(name, params)
    args = (("n", ANALYTIC[name]), p1, p2, ("z", d), float(ls), float(rs))
    xa = np.array([x], dtype=float)
    with np.errstate(all="ignore"), warnings.catch_warnings():
        warnings.simplefilter("ignore")
        if fn == "density":
            impl, mod = float(m.spectral_density(xa)[0]), drv.call("density", *args, float(x))
        elif fn == "spectrum":
            impl, mod = float(m.spectrum(xa)[0]), drv.call("spectrum", *args, float(var), float(x))
        elif fn == "pdf":
            impl, mod = float(m.spectral_rad_pdf(xa)[0]), drv.call("pdf", *args, float(x))
        elif fn == "lnpdf":
            impl, mod = float(m.ln_spectral_rad_pdf(xa)[0]), drv.call("lnpdf", *args, float(x))
        elif fn in ("cdf", "ppf"):
            has = m.has_cdf if fn == "cdf" else m.has_ppf
            hm = drv.call("has", ("n", ANALYTIC[name]), ("z", d))[0 if fn == "cdf" else 1]
            mod = drv.call(fn, *args, float(x))
            impl = None
            if hasattr(m, "spectral_rad_" + fn):
                r = getattr(m, "spectral_rad_" + fn)(xa)
                impl = None if r is None else float(np.asarray(r).ravel()[0])
            pdf_f, cdf_f, ppf_f = m.dist_func
            offered = (cdf_f if fn == "cdf" else ppf_f) is not None
            if bool(has) != bool(hm) or offered != bool(has) or (has and impl is None):
                return False, dict(impl_has=bool(has), model_has=bool(hm), offered=offered, impl=impl, model=mod)
            if impl is None or mod is None:
                return (impl is None) == (mod is None) or not has, dict(impl=impl, model=mod)
        else:
            raise ValueError(fn)
    scale = corr_scale(m, name, d, params, fn, x, var)
    if scale is None:
        ok = C.close(impl, mod, rtol=1e-9)
    elif fn == "lnpdf":
        # the log of a value that is rounding noise of a cancelling difference is not comparable: compare in pdf space
        ok = C.close(math.exp(impl) if np.isfinite(impl) else 0.0, math.exp(mod) if np.isfinite(mod) else 0.0, rtol=1e-9, scale=scale)
    else:
        ok = C.close(impl, mod, rtol=1e-9, scale=scale)
    return ok, dict(impl=C.fhex(impl), model=C.fhex(mod), impl_f=impl, model_f=mod, scale=scale)


def corr_scale(m, name, d, params, fn, x, var):
    """comparison scale (DESIGN 3.4: sum of the absolute values of the accumulated terms).  Only the lower cut-off
    superposition (fac_up*spec_up - fac_low*spec_low)/(fac_up - fac_low) cancels; everything else is compared relatively."""
    if name not in ("TPLGaussian", "TPLExponential") or m.len_low_rescaled == 0.0 or fn in ("cdf", "ppf"):
        return None
    from gstools.tools.special import tpl_exp_spec_dens, tpl_gau_spec_dens
    f = tpl_gau_spec_dens if name == "TPLGaussian" else tpl_exp_spec_dens
    k = np.array([abs(x) if fn in ("pdf", "lnpdf") else x], dtype=float)
    h, low, l = m.hurst, m.len_low_rescaled, m.len_rescaled
    with np.errstate(all="ignore"):
        fu, fl = (l + low) ** (2 * h), low ** (2 * h)
        sc = float((fu * abs(f(k, d, l + low, h)[0]) + fl * abs(f(k, d, low, h)[0])) / (fu - fl))
    if not np.isfinite(sc):
        return None
    if fn in ("pdf", "lnpdf"):
        sc *= float(sphere_surface(d, x))
    if fn == "spectrum":
        sc *= var
    return sc


def chk_ft(case):
    """|S_code(k) - FT[correlation](k)| / S_ref(0) for one class / dim / parameters / wave number"""
    name, d, ls, rs, params, kl = case["cls"], case["dim"], case["len_scale"], case["rescale"], case["params"], case["kl"]
    m = make(name, d, ls, rs, params, **({"hankel_kw": case["hankel_kw"]} if case.get("hankel_kw") else {}),
             **({"via_dim": case["via_dim"]} if case.get("via_dim") else {}))
    l = m.len_rescaled
    k = kl / l
    rmax = find_rmax(m, d, name)
    kinks = (rmax,) if name in COMPACT else ()
    s0 = ft_forward(m.correlation, d, 0.0, rmax, kinks)
    ref = ft_forward(m.correlation, d, k, rmax, kinks) if not case.get("mp") else ft_forward_mp(m.correlation, d, k, rmax)
    with np.errstate(all="ignore"), warnings.catch_warnings():
        warnings.simplefilter("ignore")
        code = float(m.spectral_density(np.array([k], dtype=float))[0])
    err = abs(code - ref) / abs(s0) if np.isfinite(code) else float("inf")
    return err <= case["tol"], dict(code=code, reference=ref, s0=s0, err=err, tol=case["tol"], rmax=rmax, k=k)


def chk_jb_inverse(case):
    d, ls, rs, params, rl = case["dim"], case["len_scale"], case["rescale"], case["params"], case["rl"]
    m = make("JBessel", d, ls, rs, params)
    r = rl * m.len_rescaled
    ref = float(m.correlation(np.array([r]))[0])
    got = jbessel_inverse(m, d, r)
    err = abs(got - ref)
    return err <= case["tol"], dict(rho=ref, inverse_transform_of_code_spectrum=got, err=err, tol=case["tol"], r=r)


def chk_int_pdf(case):
    name, d, ls, rs, params = case["cls"], case["dim"], case["len_scale"], case["rescale"], case["params"]
    m = make(name, d, ls, rs, params, **({"ctor": case["ctor"]} if case.get("ctor") else {}))
    if name == "JBessel":
        l = m.len_rescaled
        a = m.nu - d / 2.0
        t, w = sps.roots_jacobi(300, a, 0.0)
        x = (t + 1) / 2.0
        with np.errstate(all="ignore"):
            p = m.spectral_rad_pdf(x / l) / (1.0 - x) ** a
        val = float(0.5 ** (a + 1) * np.sum(w * p) / l)
        upper = 1.0 / l
    else:
        val, upper = int_pdf_log(m, name)
    err = abs(val - 1.0)
    return err <= case["tol"], dict(integral=val, err=err, tol=case["tol"], upper_k_len=upper)


def chk_cdf_pdf(case):
    """cdf' = pdf by central differences, cdf(0) = 0, cdf -> 1, ppf(cdf(r)) = r, cdf(ppf(u)) = u"""
    name, d, ls, rs = case["cls"], case["dim"], case["len_scale"], case["rescale"]
    m = make(name, d, ls, rs, {})
    l = m.len_rescaled
    bad = {}
    with np.errstate(all="ignore"):
        r = np.array(case["rl"], dtype=float) / l
        h = 1e-5 / l
        num = (m.spectral_rad_cdf(r + h) - m.spectral_rad_cdf(r - h)) / (2 * h)
        pdf = m.spectral_rad_pdf(r)
        e = np.max(np.abs(num - pdf) * l)          # pdf * l is dimensionless, O(1)
        if e > 1e-6:                               # central difference: h^2 pdf'' ~ 1e-10, rounding 1e-16/1e-5 = 1e-11
            bad["cdf_derivative"] = float(e)
        c0 = float(m.spectral_rad_cdf(np.array([0.0]))[0])
        cinf = float(m.spectral_rad_cdf(np.array([1e9 / l]))[0])
        if abs(c0) > 1e-15 or abs(cinf - 1) > 1e-8:
            bad["cdf_limits"] = [c0, cinf]
        if m.has_ppf:
            u = m.spectral_rad_cdf(r)
            back = m.spectral_rad_ppf(u)
            # conditioning of the inversion: d r = d u / pdf
            tol = 1e-9 * (np.abs(r) + 1 / l) + 4e-16 / np.maximum(pdf, 1e-300)
            if np.any(np.abs(back - r) > tol):
                bad["ppf_of_cdf"] = [float(x) for x in np.abs(back - r) * l]
            uu = np.array(list(case["u"]) + [10.0 ** -j for j in range(1, 13)] + [1 - 10.0 ** -j for j in range(1, 13)], dtype=float)
            if name == "Exponential" and d == 2:
                # the code's documented mask: |1 - u| <= 1e-8 -> inf (modelled; C04_ppf_inverts_cdf_exponential_2d excludes it)
                masked = uu[1 - uu <= 1e-8]
                if masked.size and not np.all(np.isinf(m.spectral_rad_ppf(masked))):
                    bad["ppf_mask"] = [float(x) for x in masked]
                uu = uu[1 - uu > 1.0001e-8]
            pp = m.spectral_rad_ppf(uu)
            fw = m.spectral_rad_cdf(pp)
            tol_u = 1e-9 * np.minimum(uu, 1 - uu) + 1e-15      # relative to the distance from the nearer end of [0, 1]
            if np.any(~np.isfinite(pp)) or np.any(np.abs(fw - uu) > tol_u):
                worst = int(np.argmax(np.where(np.isfinite(pp), np.abs(fw - uu) / tol_u, np.inf)))
                bad["cdf_of_ppf"] = dict(u=float(uu[worst]), one_minus_u=float(1 - uu[worst]), ppf=float(pp[worst]), cdf_of_ppf=float(fw[worst]),
                                         n_failing=int(np.sum(~np.isfinite(pp) | (np.abs(fw - uu) > tol_u))))
            p0 = float(m.spectral_rad_ppf(np.array([0.0]))[0])
            if p0 != 0.0:
                bad["ppf(0)"] = p0
    return not bad, bad


def chk_pdf_statement(case):
    """spectral_rad_pdf = rad_fac * |density| (unmasked), spectrum = var * density, on the implementation"""
    from gstools.covmodel.tools import rad_fac
    name, d, ls, rs, params, var = case["cls"], case["dim"], case["len_scale"], case["rescale"], case["params"], case["var"]
    m = make(name, d, ls, rs, params, var=var, **({"ctor": case["ctor"]} if case.get("ctor") else {}))
    d = int(m.dim)                               # latlon + temporal forces 3 + 1
    l = m.len_rescaled
    r = np.array(case["rl"], dtype=float) / l
    bad = {}
    with np.errstate(all="ignore"), warnings.catch_warnings():
        warnings.simplefilter("ignore")
        dens = m.spectral_density(np.abs(r))
        pdf = m.spectral_rad_pdf(r)
        fac = sphere_surface(d, r)
        exp = fac * np.abs(dens)
        exp = np.where(np.isfinite(exp), exp, 0.0)
        if d > 1:
            exp = np.where(np.abs(r) <= 1e-8, 0.0, exp)
        if not C.close(pdf, exp, rtol=1e-12):
            bad["pdf"] = dict(code=[float(x) for x in pdf], surface_times_density=[float(x) for x in exp])
        if np.any(pdf < 0) or np.any(~np.isfinite(pdf)):
            bad["pdf_range"] = True
        sp = m.spectrum(np.abs(r))
        if not C.close(sp, var * dens, rtol=1e-14):
            bad["spectrum"] = [float(x) for x in np.abs(sp - var * dens)]
        if not C.close(rad_fac(d, np.abs(r)) * np.ones_like(r), fac, rtol=1e-14):
            bad["rad_fac"] = dict(code=[float(x) for x in rad_fac(d, np.abs(r)) * np.ones_like(r)], sphere_surface=[float(x) for x in fac])
    return not bad, bad


def chk_tail_finite(case):
    name, d, ls, rs, params, kl = case["cls"], case["dim"], case["len_scale"], case["rescale"], case["params"], case["kl"]
    m = make(name, d, ls, rs, params)
    with np.errstate(all="ignore"), warnings.catch_warnings():
        warnings.simplefilter("ignore")
        s0 = float(m.spectral_density(np.array([0.0]))[0])
        s = float(m.spectral_density(np.array([kl / m.len_rescaled]))[0])
    # the lower cut-off superposition subtracts two nearly equal terms: rounding-level negative values are not a finding
    ok = np.isfinite(s) and -1e-15 * s0 <= s <= s0 * (1 + 1e-9)
    return bool(ok), dict(density=s, density0=s0)


HISTORIES = ["dim", "deepcopy+dim", "scales", "anis", "opt_arg", "hankel_kw", "hankel_kw+dim", "dim+back", "interference", "deepcopy", "pickle"]


def spectral_table(m, kgrid, ugrid):
    """every spectral function of the model on a grid (None where not offered)"""
    out = {}
    with np.errstate(all="ignore"), warnings.catch_warnings():
        warnings.simplefilter("ignore")
        out["spectral_density"] = np.asarray(m.spectral_density(kgrid), dtype=float)
        out["spectrum"] = np.asarray(m.spectrum(kgrid), dtype=float)
        out["spectral_rad_pdf"] = np.asarray(m.spectral_rad_pdf(kgrid), dtype=float)
        out["ln_spectral_rad_pdf"] = np.asarray(m.ln_spectral_rad_pdf(kgrid), dtype=float)
        out["has"] = np.array([float(m.has_cdf), float(m.has_ppf)])
        pdf_f, cdf_f, ppf_f = m.dist_func
        out["dist_func"] = np.array([float(cdf_f is not None), float(ppf_f is not None)])
        if m.has_cdf:
            out["spectral_rad_cdf"] = np.asarray(m.spectral_rad_cdf(kgrid), dtype=float)
        if m.has_ppf:
            out["spectral_rad_ppf"] = np.asarray(m.spectral_rad_ppf(ugrid), dtype=float)
    return out


def chk_history(case):
    """a model brought to its parameters by setters answers every spectral function like a freshly constructed one"""
    import copy
    import gstools as gs
    name, d, d0, ls, rs, var, params, hist = (case["cls"], case["dim"], case["dim0"], case["len_scale"], case["rescale"], case["var"],
                                              case["params"], case["history"])
    cls = getattr(gs, name)
    hk = dict(N=300, h=0.002)
    anis = [0.5, 0.25][: d - 1]
    with warnings.catch_warnings():
        warnings.simplefilter("ignore")
        final = dict(dim=d, var=var, len_scale=ls, rescale=rs, **params)
        if hist == "dim":
            m = cls(**dict(final, dim=d0))
            m.dim = d
        elif hist == "dim+back":
            m = cls(**final)
            m.dim = d0
            m.dim = d
        elif hist == "deepcopy+dim":
            m = copy.deepcopy(cls(**dict(final, dim=d0)))
            m.dim = d
        elif hist == "scales":
            m = cls(**dict(final, var=1.0, len_scale=3.0 * ls, rescale=0.5 * rs))
            m.len_scale = ls
            m.rescale = rs
            m.var = var
        elif hist == "anis":
            final["anis"] = anis
            m = cls(**dict(final, anis=1.0))
            m.anis = anis
        elif hist == "opt_arg":
            m = cls(dim=d, var=var, len_scale=ls, rescale=rs)
            for k_, v_ in params.items():
                setattr(m, k_, v_)
            m.var = var        # truncated power laws: var = var_raw * var_factor(hurst, lengths), so the variance is (re)set last
        elif hist == "hankel_kw":
            final["hankel_kw"] = hk
            m = cls(**dict(final, hankel_kw=None))
            m.hankel_kw = hk
        elif hist == "hankel_kw+dim":
            final["hankel_kw"] = hk
            m = cls(**dict(final, dim=d0, hankel_kw=None))
            m.hankel_kw = hk
            m.dim = d
        elif hist == "interference":
            # the spectral functions are functions of the object's own parameters: creating / tuning / evaluating OTHER models
            # (same and other dims, custom hankel_kw, enlarged argument bounds, other classes) in between must not change them
            m = cls(**final)
            l0 = ls / rs
            k0 = np.array(case["kl"], dtype=float) / l0
            before = spectral_table(m, k0, np.array([0.0, 1e-6, 0.25, 0.5, 0.9, 0.999]))
            others = []
            for oname, okw in (("Stable", dict(alpha=1.3, hankel_kw=dict(N=50, h=0.01))), ("Cubic", dict(hankel_kw=dict(N=77))),
                               (name, dict(params, hankel_kw=dict(a=-1, b=1, N=33, h=0.02)) if name not in () else {}),
                               ("Integral", dict(nu=3.3)), ("Gaussian", dict(rescale=2.0))):
                for od in (d, d0):
                    o = getattr(gs, oname)(dim=od, len_scale=0.37 * ls, var=2.0, **okw)
                    o.spectral_density(k0)
                    o.spectral_rad_pdf(k0)
                    others.append(o)
            others[0].hankel_kw = dict(N=20)
            others[3].dim = d
            io = gs.Integral(dim=d)
            io.set_arg_bounds(nu=[0.0, 1e3, "oo"])
            io.nu = 77.7
            io.spectral_density(k0)
            copy.deepcopy(others[1]).spectral_density(k0)
            after = spectral_table(m, k0, np.array([0.0, 1e-6, 0.25, 0.5, 0.9, 0.999]))
            diff = [fn for fn in before if not C.bit_equal(before[fn], after[fn])]
            if diff:
                return False, dict(changed_by_other_objects=diff, before={fn: [float(x) for x in before[fn]][:6] for fn in diff},
                                   after={fn: [float(x) for x in after[fn]][:6] for fn in diff})
        elif hist == "deepcopy":
            m = copy.deepcopy(cls(**final))
        elif hist == "pickle":
            import pickle
            m = pickle.loads(pickle.dumps(cls(**final)))
        else:
            raise ValueError(hist)
        fresh = cls(**final)
    l = ls / rs
    kgrid = np.array(case["kl"], dtype=float) / l
    ugrid = np.array([0.0, 1e-6, 0.25, 0.5, 0.9, 0.999])
    a, b = spectral_table(m, kgrid, ugrid), spectral_table(fresh, kgrid, ugrid)
    bad = {}
    for fn in sorted(set(a) | set(b)):
        if fn not in a or fn not in b or not C.close(a[fn], b[fn], rtol=1e-12):
            bad[fn] = dict(after_setters=[float(x) for x in a.get(fn, [])][:6], fresh=[float(x) for x in b.get(fn, [])][:6])
    return not bad, bad


def source_size_constants():
    """numeric constants >= 1e4 (<= 2e6) in covmodel/*.py of the tree under test (literals and literal powers such as 2**16):
    array sizes around them are size classes of the spectral functions"""
    import ast
    import glob
    out = set()
    for f in glob.glob(os.path.join(C.REPO, "src", "gstools", "covmodel", "*.py")):
        try:
            tree = ast.parse(open(f).read())
        except Exception:
            continue
        for node in ast.walk(tree):
            v = None
            if isinstance(node, ast.Constant) and isinstance(node.value, (int, float)) and not isinstance(node.value, bool):
                v = node.value
            elif (isinstance(node, ast.BinOp) and isinstance(node.op, ast.Pow) and isinstance(node.left, ast.Constant)
                  and isinstance(node.right, ast.Constant) and isinstance(node.left.value, int) and isinstance(node.right.value, int)
                  and 0 < node.right.value < 64):
                v = node.left.value ** node.right.value
            if v is not None and 1e4 <= v <= 2e6 and float(v) == int(v):
                out.add(int(v))
    return sorted(out)


def chk_sizes(case):
    """the value at a wave number does not depend on which other wave numbers are in the call: spectral_density / spectrum /
    spectral_rad_pdf on a large n-D array equal the same entries evaluated in small pieces, and keep the shape"""
    name, d, ls, rs, params, shape = case["cls"], case["dim"], case["len_scale"], case["rescale"], case["params"], tuple(case["shape"])
    m = make(name, d, ls, rs, params, var=case.get("var", 1.0))
    l = m.len_rescaled
    n = int(np.prod(shape))
    k_flat = (0.05 + 8.0 * np.modf(np.arange(n) * 0.6180339887498949)[0]) / l
    k = k_flat.reshape(shape)
    idx = np.unique(np.concatenate([np.arange(min(3, n)), np.arange(max(n - 300, 0), n), np.arange(0, n, max(n // 150, 1)),
                                    np.array([n // 2, min(65535, n - 1), min(65536, n - 1)])]))
    bad = {}
    with np.errstate(all="ignore"), warnings.catch_warnings():
        warnings.simplefilter("ignore")
        for fn in case["fns"]:
            full = np.asarray(getattr(m, fn)(k), dtype=float)
            if full.shape != k.shape:
                bad[fn] = dict(shape=list(full.shape), expected=list(k.shape))
                continue
            full = full.reshape(-1)
            piece = np.concatenate([np.asarray(getattr(m, fn)(k_flat[idx[i:i + 64]]), dtype=float).reshape(-1) for i in range(0, len(idx), 64)])
            ok = np.isclose(full[idx], piece, rtol=1e-12, atol=0.0, equal_nan=True)
            if not ok.all():
                j = int(idx[np.argmin(ok)])
                bad[fn] = dict(first_flat_index=j, k=float(k_flat[j]), in_large_call=float(full[j]), alone=float(piece[np.argmin(ok)]),
                               n_differing=int((~ok).sum()), of=len(idx))
    return not bad, bad


CHECKS = dict(sizes=chk_sizes, history=chk_history, ft=chk_ft, jb_inverse=chk_jb_inverse, int_pdf=chk_int_pdf, cdf_pdf=chk_cdf_pdf, pdf_statement=chk_pdf_statement,
              tail_finite=chk_tail_finite)


# --------------------------------------------------------------------------- run

def case_key(case, detail=None):
    k = case["kind"]
    if k == "ft" and case["cls"] in DEFAULT_PATH and not case.get("hankel_kw") and 0 < case["kl"] < 1:
        return KEY_HANKEL_SMALLK
    if k == "ft" and case["cls"] == "Integral" and case["params"]["nu"] >= 20 and 0 < case["kl"] <= 1e-5:
        return KEY_INTEGRAL_UNDERFLOW
    if k == "int_pdf" and case["cls"] == "TPLExponential" and detail and detail.get("err", 1.0) <= 1e-3:
        return KEY_TPLEXP_TAIL       # the radial mass lost / gained where the far-tail density is wrong (3e-7 .. 2e-4 as hurst -> 0.5)
    if k == "int_pdf" and case["cls"] == "Integral" and case["params"]["nu"] >= 20 and detail and detail.get("err", 1.0) <= 1e-4:
        return KEY_INTEGRAL_UNDERFLOW  # 1D: the pdf is 0 instead of 2 S(0) for k*l < 2.4e-6 (nu = 50): 3e-6 of the mass
    if k == "tail_finite" and case["cls"] == "TPLExponential" and case["params"]["hurst"] >= 0.5 and case["kl"] >= 1e7:
        return KEY_TPLEXP_TAIL
    if k == "history":
        return "history:%s:%s" % (case["cls"], case["history"])
    if k == "sizes":
        return "sizes:%s:%s" % (case["cls"], "x".join(str(x) for x in case["shape"]))
    return "%s:%s:d%d" % (k, case.get("cls", "JBessel"), case["dim"])


def load_local_findings(ctx):
    """known_findings.json is assembled from known_findings.d/*.json at development time; read our fragment too so the
    check does not depend on the assembled file being current"""
    p = os.path.join(C.VERIF, "known_findings.d", "%s.json" % PID)
    if os.path.exists(p):
        have = {k["key"] for k in ctx.kf}
        for e in json.load(open(p)):
            if e.get("property") == PID and e["key"] not in have:
                ctx.kf.append(e)


def run_probe(ctx, case, hist=None):
    kind = case["kind"]
    try:
        ok, detail = CHECKS[kind](case)
    except ReferenceUnavailable as e:
        if "_bounds" in (case.get("params") or {}):
            # beyond the default argument bounds (e.g. Integral nu = 1000.3: exp_int of order 500): noted, not judged
            ctx.skipped = getattr(ctx, "skipped", 0) + 1
            ctx.skip_example = "%s dim=%d %s: %s" % (case.get("cls"), case["dim"], case.get("params"), e)
            return True, {}
        # within the bounds the unchanged tree never gets here: a correlation that is non-finite or exceeds 1 in modulus cannot be
        # the transform pair of the (finite, integrable) spectral density the model reports
        ok, detail = False, dict(correlation_is_not_a_correlation_function=str(e))
    except Exception as e:   # the implementation (or the reference) raised on this input
        ok, detail = False, dict(exception=repr(e))
    trivial = kind in ("pdf_statement",) and False
    ctx.count(None if trivial else (kind, case.get("cls", "JBessel"), case["dim"], json.dumps(case.get("params", {}), sort_keys=True),
                                      case.get("history", case.get("dim0")),
                                      (lambda v: None if isinstance(v, list) else v)(case.get("kl", case.get("rl")))),
              hist=dict(probe=kind, cls=case.get("cls", "JBessel"), dim=case["dim"], **(hist or {})))
    if not ok:
        ctx.violation("probe: %s" % kind, "%s fails for %s dim=%d %s: %s" % (kind, case.get("cls", "JBessel"), case["dim"], case.get("params", {}),
                                                                          json.dumps(detail, default=str)[:300]),
                      dict(case=case, detail=detail), key=case_key(case, detail))
    return ok, detail


def correspondence(ctx, rng, drv):
    quick = ctx.tier == "quick"
    for name in ANALYTIC:
        for d in (1, 2, 3, 4, 5):
            psets = param_sets(name, d, rng, ctx.tier, enlarged=True)
            extra = [p for p in psets if "_bounds" in p]             # beyond the default bounds: always kept
            psets = [p for p in psets if "_bounds" not in p]
            if quick or d > 3:
                psets = pick_sets(name, psets, rng, 6 if d <= 3 else 2)
            psets = psets + (extra if d <= 3 else extra[:1])
            for params0, rs in [(p, r) for p in psets for r in (rescales(rng) if d <= 3 else rescales(rng)[:1])]:
                # every function below is compared for rescale < 1, > 1 and the class default: len_rescaled = len_scale / rescale
                # enters each of them separately, so a slip in a single function shows
                ls = lu(rng, 0.02, 80.0)
                params = resolve(params0, ls)
                var = lu(rng, 0.1, 10.0)
                l = ls / (rs if rs is not None else float(make(name, d, ls, None, params).rescale))
                kls = [0.0, 3e-9 * l, 1e-8 * l, 1.5e-8 * l, 1e-6, 0.3, 0.6, 0.999999, 1.0, 1.000001, 2.5, 7.0, 30.0, -0.7, lu(rng, 1e-3, 50)]
                if quick and (rs is None or rs > 1):     # the full list (mask edges, branch points) runs with rescale < 1
                    kls = [0.0, 1e-6, 0.3, 1.0, 2.5, 30.0, -0.7]
                for kl in kls:
                    x = kl / l
                    for fn in ("density", "pdf", "lnpdf", "spectrum"):
                        if fn in ("lnpdf", "spectrum") and kl not in (0.0, 0.3, 2.5, 7.0, -0.7):
                            continue
                        case = dict(kind="corr", cls=name, dim=d, len_scale=ls, rescale=rs, params=params, fn=fn, x=x, var=var)
                        ok, det = chk_corr(drv, case)
                        ctx.count(("corr", name, d, fn, json.dumps(params, sort_keys=True), rs, round(kl, 6)) if kl != 0.0 else None,
                                  hist=dict(corr_fn=fn, cls=name, dim=d, rescale=rs_kind(rs)))
                        if not ok:
                            report_corr(ctx, case, det)
                if name in ("Gaussian", "Exponential"):
                    for x in [0.0, 1e-9 / l, 0.2 / l, 1.0 / l, 3.0 / l, 40.0 / l]:
                        case = dict(kind="corr", cls=name, dim=d, len_scale=ls, rescale=rs, params=params, fn="cdf", x=x)
                        ok, det = chk_corr(drv, case)
                        ctx.count(("corr", name, d, "cdf", rs, round(x * l, 6)), hist=dict(corr_fn="cdf", cls=name, dim=d, rescale=rs_kind(rs)))
                        if not ok:
                            report_corr(ctx, case, det)
                    # both tails geometrically (u = 10^-j and 1 - 10^-j, j = 1..12): guards / masks next to 0 and 1 have a width
                    for u in [0.0, 0.5, 1 - 5e-9, 1.0, float(rng.random())] + [10.0 ** -j for j in range(1, 13)] + [1 - 10.0 ** -j for j in range(1, 13)]:
                        case = dict(kind="corr", cls=name, dim=d, len_scale=ls, rescale=rs, params=params, fn="ppf", x=u)
                        ok, det = chk_corr(drv, case)
                        ctx.count(("corr", name, d, "ppf", rs, round(u, 9)), hist=dict(corr_fn="ppf", cls=name, dim=d, rescale=rs_kind(rs)))
                        if not ok:
                            report_corr(ctx, case, det)
                else:
                    for fn in ("cdf", "ppf"):
                        case = dict(kind="corr", cls=name, dim=d, len_scale=ls, rescale=rs, params=params, fn=fn, x=0.5)
                        ok, det = chk_corr(drv, case)
                        ctx.count(None, hist=dict(corr_fn=fn, cls=name, dim=d))
                        if not ok:
                            report_corr(ctx, case, det)
            ctx.sample(dict(stage="correspondence", cls=name, dim=d, params=psets[0], rescales="<1, >1, class default"))
    # rad_fac incl. the general-dimension branch
    from gstools.covmodel.tools import rad_fac
    for d in (1, 2, 3, 4, 5, 7):
        for r in (0.0, 1e-3, 0.7, 12.0):
            impl = float(np.asarray(rad_fac(d, np.array([r]))).ravel()[0]) if d > 1 else float(rad_fac(d, np.array([r])))
            mod = drv.call("rad_fac", ("z", d), float(r))
            ctx.count(("rad_fac", d, r), hist=dict(corr_fn="rad_fac", dim=d))
            surf = float(sphere_surface(d, r))
            prop_ok = C.close(impl, surf, rtol=1e-13)
            if not prop_ok:
                ctx.violation("probe: rad_fac", "rad_fac(%d, %r) = %r is not the surface 2 pi^(d/2)/Gamma(d/2) r^(d-1) = %r of the sphere" % (d, r, impl, surf),
                              dict(case=dict(kind="rad_fac", dim=d, r=r), impl=impl, sphere_surface=surf), key="rad_fac:surface:d%d" % d)
            if not C.close(impl, mod, rtol=1e-12):
                ctx.violation("correspondence: rad_fac", "rad_fac(%d, %r): implementation %r, model %r" % (d, r, impl, mod),
                              dict(case=dict(kind="rad_fac", dim=d, r=r), impl=impl, model=mod), key="corr:rad_fac", no_input=prop_ok)


def rs_kind(rs):
    return "default" if rs is None else ("<1" if rs < 1 else ">1")


def report_corr(ctx, case, det):
    """a disagreement between model and code: is the property itself broken on this input?  (Fourier probe at the same point)"""
    prop = None
    if case["fn"] in ("density", "spectrum", "pdf", "lnpdf") and case["cls"] != "JBessel":
        try:
            rsv = case["rescale"] if case["rescale"] is not None else float(make(case["cls"], case["dim"], case["len_scale"], None, case["params"]).rescale)
            kl = abs(case["x"]) * case["len_scale"] / rsv
            prop, _ = chk_ft(dict(kind="ft", cls=case["cls"], dim=case["dim"], len_scale=case["len_scale"], rescale=case["rescale"],
                                  params=case["params"], kl=kl, tol=T_ANALYTIC))
        except Exception:
            prop = None
    ctx.violation("correspondence: %s" % case["fn"],
                  "implementation and model disagree on %s.%s dim=%d %s at %r%s" % (
                      case["cls"], case["fn"], case["dim"], case["params"], case["x"],
                      "" if prop is None else " (Fourier-pair statement %s at this wave number)" % ("holds" if prop else "FAILS")),
                  dict(case=case, detail=det), key="corr:%s:%s" % (case["fn"], case["cls"]), no_input=(prop is True))


def probes(ctx, rng):
    quick = ctx.tier == "quick"
    all_names = list(ANALYTIC) + DEFAULT_PATH
    worst = {}
    # ---- Fourier pair: all 17 classes x dim 1-3
    for name in all_names:
        analytic = name in ANALYTIC
        for d in ((1, 2, 3, 4, 5) if analytic else (1, 2, 3)):       # dim 4, 5: 3D + time, lat-lon + time
            psets = param_sets(name, d, rng, ctx.tier, for_probe=True, enlarged=True)
            extra = [p for p in psets if "_bounds" in p]
            psets = [p for p in psets if "_bounds" not in p]
            if quick or d > 3:
                # rotating subset in the quick tier (all in thorough): 2 parameter sets per class and dim, 3 for the truncated power
                # laws (always one with len_low = 0.4 len_scale and one with 2 len_scale)
                psets = pick_sets(name, psets, rng, 3 if name in ("TPLGaussian", "TPLExponential") else 2)
            psets = psets + (extra if d <= 3 else extra[:1])          # just above the branch thresholds beyond the default bounds
            for i, params0 in enumerate(psets):
                ls = lu(rng, 0.05, 50.0)
                rs = rescales(rng)[i % 3]            # < 1, > 1, class default in turn: never only the default
                params = resolve(params0, ls)
                if name == "JBessel":
                    for rl in [0.0, 0.5, 2.0, 7.0, 20.0] + ([] if quick else [float(rng.uniform(0, 30)) for _ in range(3)]):
                        run_probe(ctx, dict(kind="jb_inverse", cls="JBessel", dim=d, len_scale=ls, rescale=rs, params=params, rl=rl, tol=T_ANALYTIC))
                    continue
                if analytic:
                    kls = [0.0, 1e-6, 0.3, 0.63, 1.0, 3.0, 8.0] + ([] if quick else [30.0, 100.0, lu(rng, 1e-3, 50), lu(rng, 1e-3, 50)])
                    if name == "TPLGaussian":
                        kls += [2 * math.sqrt(0.0999), 2 * math.sqrt(0.1001), 2 * math.sqrt(0.05)]   # the series / incomplete gamma branch point
                    tol, path = T_ANALYTIC, "analytic"
                    if name == "Integral" and params["nu"] > 50:
                        # documented approximation of the nu > 50 branch ('approximation of the gaussian model'): measured error of the
                        # unchanged code 2.0 .. 2.1 / nu^2 * S(0) (7.9e-4 at nu = 50, 2.1e-4 at 100, 2.1e-6 at 1000), all dims
                        tol, path = 3.2 / params["nu"] ** 2, "analytic-enlarged-bounds"
                    if d > 3:
                        kls = [0.0, 0.3, 1.0, 3.0]
                    for kl in kls:
                        ok, det = run_probe(ctx, dict(kind="ft", cls=name, dim=d, len_scale=ls, rescale=rs, params=params, kl=kl, tol=tol),
                                            hist=dict(path=path))
                        if "err" in det:
                            worst[name] = max(worst.get(name, 0.0), det["err"])
                else:
                    kls = [0.0, 1.0, 3.0, 8.0] + ([] if quick else [30.0, lu(rng, 1.0, 50.0)])
                    for kl in kls:
                        ok, det = run_probe(ctx, dict(kind="ft", cls=name, dim=d, len_scale=ls, rescale=rs, params=params, kl=kl, tol=T_HANKEL),
                                            hist=dict(path="hankel-default"))
                        if "err" in det:
                            worst[name] = max(worst.get(name, 0.0), det["err"])
                    for kl in [1e-6, 0.01, 0.1, 0.3]:                           # known finding: below 1 / len_rescaled
                        run_probe(ctx, dict(kind="ft", cls=name, dim=d, len_scale=ls, rescale=rs, params=params, kl=kl, tol=T_HANKEL),
                                  hist=dict(path="hankel-default-smallk"))
            ctx.sample(dict(stage="probe ft", cls=name, dim=d, params=psets[0]))
            ctx.count(None, n=0, hist=dict(ft_sets_per_class_dim=len(psets)))
    if getattr(ctx, "skipped", 0):
        ctx.notes.append("%d transform cases skipped because model.correlation itself is not finite / not in [-1,1] on the quadrature nodes "
                         "(only cases beyond the default argument bounds are skipped), e.g. %s" % (ctx.skipped, ctx.skip_example))
    ctx.notes.append("largest |S_code - FT|/S(0) per class on this run (default-path classes: k=0 and k*l>=1 only): %s" % json.dumps(
        {k: float("%.2g" % v) for k, v in worst.items()}))
    # ---- setter histories: dim a -> b, deepcopy then dim, len_scale / rescale / var, anis, optional arguments, hankel_kw (deterministic)
    transitions = [(1, 3), (3, 2), (2, 1)] if quick else [(1, 3), (3, 2), (2, 1), (1, 2), (2, 3), (3, 1)]
    for name in all_names:
        p3 = param_sets(name, 3, rng, "quick", for_probe=True)          # shape parameters valid in every dimension <= 3
        for hi, hist in enumerate(HISTORIES):
            for ti, (d0, d) in enumerate(transitions):
                if hist not in ("dim", "deepcopy+dim", "hankel_kw+dim", "dim+back", "interference") and ti > 0:
                    continue                                           # the other histories do not involve a second dimension
                if hist == "anis" and d == 1:
                    d = 3
                ls = lu(rng, 0.05, 50)
                params = resolve(p3[(hi + ti) % len(p3)], ls)
                if hist == "opt_arg" and not params:
                    continue
                run_probe(ctx, dict(kind="history", cls=name, dim=d, dim0=d0, len_scale=ls, rescale=rescales(rng)[(hi + ti) % 2],
                                    var=lu(rng, 0.1, 10), params=params, history=hist, kl=[0.0, 0.05, 0.3, 1.0, 3.0, 8.0]),
                          hist=dict(history=hist))
    # ---- default-path transforms on models that reached their dimension through the dim setter
    for name in DEFAULT_PATH:
        for d in (1, 2, 3):
            ls = lu(rng, 0.05, 50)
            params = resolve(param_sets(name, 3, rng, "quick", for_probe=True)[0], ls)
            for kl in (0.0, 1.0, 3.0):
                run_probe(ctx, dict(kind="ft", cls=name, dim=d, len_scale=ls, rescale=rescales(rng)[d % 2], params=params, kl=kl, tol=T_HANKEL,
                                    via_dim=d % 3 + 1), hist=dict(path="hankel-default-after-dim-setter"))
    # ---- exponential-integral orders approaching integers from both sides (|s - n| = 10^-j and 1 ulp): Integral s = 1 + nu/2,
    #      TPLExponential s = 1 + 2 hurst, TPLGaussian s = 1 + hurst.  exp_int snaps s to the integer n inside |s - n| <= 1e-8 + 1e-5 n
    #      (C03's open finding exp_int:s-snapped-to-integer); measured effect on the unchanged tree: 0.67 |s - n| S(0) inside the window
    #      (<= 4e-12 outside), so the tolerance is 1e-8 + |s - n| inside the window and 1e-8 outside
    js = [3, 5, 8, 12] if quick else list(range(3, 17))
    deltas = [10.0 ** -j for j in js] + [None]                        # None: one ulp
    ci = 0
    for sgn in (+1, -1):
        for de in deltas:
            near = []
            for n_ in (2, 3):
                nu0 = 2.0 * (n_ - 1)
                nu = float(np.nextafter(nu0, nu0 + sgn)) if de is None else nu0 + 2 * sgn * de
                near.append(("Integral", dict(nu=nu), 1 + nu / 2))
            h = float(np.nextafter(0.5, 0.5 + sgn)) if de is None else 0.5 + sgn * de / 2
            near.append(("TPLExponential", dict(hurst=h, len_low=0.0), 1 + 2 * h))
            if sgn < 0:
                h = float(np.nextafter(1.0, 0.0)) if de is None else 1.0 - de
                near.append(("TPLGaussian", dict(hurst=h, len_low=0.0), 1 + h))
            near.append(("Integral", dict(nu=4.1 - 2.1), 1 + (4.1 - 2.1) / 2))          # a parameter that LOOKS integer
            for name, params, s_ in near:
                n_ = round(s_)
                dist = abs(s_ - n_)
                tol = T_ANALYTIC + (dist if dist <= 1e-8 + 1e-5 * n_ else 0.0)
                d = ci % 3 + 1
                ci += 1
                for kl in (0.0, 1.0) if quick else (0.0, 0.3, 1.0, 3.0):
                    run_probe(ctx, dict(kind="ft", cls=name, dim=d, len_scale=lu(rng, 0.05, 50), rescale=rescales(rng)[ci % 3], params=params, kl=kl,
                                        tol=tol), hist=dict(path="analytic-near-integer-order"))
    # ---- size classes: large n-D wave-number arrays vs the same entries evaluated in small pieces
    consts = source_size_constants()
    shapes = [(65535,), (65536,), (65537,), (70001,), (300, 300), (42, 42, 42)]
    for c_ in consts:
        for s_ in ((c_ - 1,), (c_ + 1,), (c_ + 4321,), (2 * c_ + 1,), (3, c_ // 2 + 7)):
            if s_ not in shapes and np.prod(s_) <= 3e5:
                shapes.append(s_)
    ctx.notes.append("size classes: numeric constants >= 1e4 found in covmodel/*.py of the tree under test: %s; shapes %s" % (consts, shapes))
    off = int(rng.integers(len(shapes)))
    si = 0
    for name in DEFAULT_PATH + ["Gaussian", "Matern", "Integral", "HyperSpherical", "JBessel", "TPLGaussian", "TPLExponential", "Exponential"]:
        slow = name == "TPLStable"                                  # exp_int on 14 million lags: one function, one shape
        per_class = 1 if slow else (2 if quick else 3)
        for _ in range(per_class):
            shape = shapes[(off + si) % len(shapes)]
            si += 1
            d = si % 3 + 1
            ls = lu(rng, 0.05, 50)
            params = resolve(param_sets(name, 3, rng, "quick", for_probe=True)[0], ls)
            run_probe(ctx, dict(kind="sizes", cls=name, dim=d, len_scale=ls, rescale=rescales(rng)[si % 3], params=params, var=lu(rng, 0.1, 10),
                                shape=list(shape), fns=["spectral_density"] if slow else ["spectral_density", "spectrum", "spectral_rad_pdf"]),
                      hist=dict(size_shape="x".join(str(x) for x in shape)))
    # ---- mpmath cross-check of the panel quadrature itself (rotating subset)
    n_mp = 3 if quick else 12
    cand = [(n, d) for n in ("Gaussian", "Exponential", "Matern", "Integral", "TPLGaussian", "TPLExponential", "HyperSpherical") for d in (1, 2, 3)]
    for i in rng.choice(len(cand), size=n_mp, replace=False):
        name, d = cand[i]
        params = resolve(param_sets(name, d, rng, "quick", for_probe=True)[0], 1.7)
        kl = float(rng.choice([0.0, 0.3, 1.0]))
        run_probe(ctx, dict(kind="ft", cls=name, dim=d, len_scale=1.7, rescale=1.0, params=params, kl=kl, tol=T_ANALYTIC, mp=True),
                  hist=dict(path="analytic-mpmath"))
    # ---- integral of the radial pdf (analytic spectra; HyperSpherical's J^2/k tail is covered by the pointwise transform)
    for name in ("Gaussian", "Exponential", "Matern", "Integral", "JBessel", "TPLGaussian", "TPLExponential"):
        for d in (1, 2, 3):
            psets = [p for p in param_sets(name, d, rng, ctx.tier, for_probe=True)
                     if not (name == "Integral" and p["nu"] < 0.3) and not (name.startswith("TPL") and p["hurst"] < 0.15)]
            if quick:
                psets = pick_sets(name, psets, rng, 3 if name.startswith("TPL") else 2)
            for i, params0 in enumerate(psets):
                ls = lu(rng, 0.05, 50)
                params = resolve(params0, ls)
                # tail cut at e^260 / l: relative mass beyond is < 1e-19 for every exponent used here (quadrature ~1e-12) -> 1e-6;
                # TPLExponential: the far-tail density is wrong beyond k*l ~ 1e7 (known finding); deviations up to 1e-3 of the
                # mass are attributed to it (case_key), the pointwise transform probes cover k*l <= 100 at 1e-8
                tol = 1e-6
                run_probe(ctx, dict(kind="int_pdf", cls=name, dim=d, len_scale=ls, rescale=rescales(rng)[i % 3], params=params, tol=tol),
                          hist=dict(int_pdf_rescale=["<1", ">1", "default"][i % 3]))
    # ---- dim 4 and 5 (general branch of rad_fac): normalisation and pdf = sphere surface * |density|, also through the documented ways
    #      to get there (spatial_dim = 3 + temporal, latlon + temporal)
    for name in ("Gaussian", "Exponential", "Matern", "Integral", "JBessel", "TPLGaussian", "TPLExponential"):
        for d, ctor in ((4, None), (5, None), (4, "temporal"), (4, "latlon_temporal")):
            if quick and ctor is None and name not in ("Gaussian", "Matern", "JBessel", "TPLGaussian"):
                continue
            psets = [p for p in param_sets(name, d, rng, "quick", for_probe=True)
                     if not (name == "Integral" and p["nu"] < 0.3) and not (name.startswith("TPL") and p["hurst"] < 0.15)]
            ls = lu(rng, 0.05, 50)
            params = resolve(psets[int(rng.integers(len(psets)))], ls)
            extra = {"ctor": ctor} if ctor else {}
            run_probe(ctx, dict(kind="int_pdf", cls=name, dim=d, len_scale=ls, rescale=rescales(rng)[d % 3], params=params, tol=1e-6, **extra),
                      hist=dict(highdim=str((d, ctor))))
            run_probe(ctx, dict(kind="pdf_statement", cls=name, dim=d, len_scale=ls, rescale=rescales(rng)[(d + 1) % 3], params=params,
                                var=lu(rng, 0.1, 10), rl=[0.0, 5e-9, 2e-8, 1e-3, 0.5, 1.0, 4.0, -1.0, 30.0], **extra),
                      hist=dict(highdim=str((d, ctor))))
    # ---- cdf / ppf
    for name in ("Gaussian", "Exponential"):
        for d in (1, 2, 3):
            for _ in range(1 if quick else 4):
                for rs in rescales(rng):           # cdf' = pdf, limits, ppf o cdf, cdf o ppf with rescale < 1, > 1 and the default
                    run_probe(ctx, dict(kind="cdf_pdf", cls=name, dim=d, len_scale=lu(rng, 0.05, 50), rescale=rs,
                                        rl=[0.01, 0.3, 1.0, 2.5, float(rng.uniform(0.05, 4))], u=[1e-6, 0.1, 0.5, 0.9, float(rng.random()) * 0.98]),
                              hist=dict(cdf_pdf_rescale=rs_kind(rs)))
    # ---- statement of the radial pdf and of the spectrum on every class (default path included)
    for name in all_names:
        for d in (1, 2, 3):
            ls = lu(rng, 0.05, 50)
            params = resolve(param_sets(name, d, rng, "quick", for_probe=True)[0], ls)
            for rs in rescales(rng)[:(2 if quick else 3)]:
                run_probe(ctx, dict(kind="pdf_statement", cls=name, dim=d, len_scale=ls, rescale=rs, params=params, var=lu(rng, 0.1, 10),
                                    rl=[0.0, 5e-9, 2e-8, 1e-3, 0.5, 1.0, 4.0, -1.0, 30.0]))
    # ---- far tail stays finite and below S(0)
    for name in ANALYTIC:
        for d in (1, 2, 3):
            for i, params0 in enumerate(param_sets(name, d, rng, "quick", for_probe=True)[:4]):
                ls = lu(rng, 0.05, 50)
                for kl in (1e4, 1e6, 1e7, 1e9, 1e12):
                    run_probe(ctx, dict(kind="tail_finite", cls=name, dim=d, len_scale=ls, rescale=rescales(rng)[i % 3], params=resolve(params0, ls), kl=kl))


def run(ctx):
    load_local_findings(ctx)
    rng = C.Rng(ctx.seed, PID)
    ctx.rule = ("one case = (function or probe, class, dim, shape parameters, wave number / radius / probability); k = 0 correspondence "
                "cases counted as trivial")
    ctx.trusted = [
        "Coq 8.16.1 kernel; stdlib Reals axioms as printed per theorem; Coquelicot 3.x (no further axioms)",
        "special functions (scipy gamma, loggamma, jv, hyp2f1, erf, erfinv; gstools inc_gamma_low) are oracles: universally quantified "
        "in the theorems, answered by the same Python function in the executable model",
        "hypotheses on the oracles used by some theorems: Gamma(1)=1, Gamma(3/2)=sqrt(pi)/2, Gamma(2)=1 (Gamma(5/2) for the general rad_fac), "
        "erf' = 2/sqrt(pi) exp(-x^2), erf(0)=0, erf -> 1, erfinv(erf x) = x",
        "extraction (ExtrOcamlBasic), OCaml float instance (ocaml/proto.ml), harness; numpy / scipy / hankel / mpmath as executed",
        "reference transforms: graded 24-point Gauss-Legendre panels (cross-checked against mpmath tanh-sinh on a rotating subset), "
        "Gauss-Jacobi for the JBessel end-point singularity",
    ]
    ctx.not_proved = [
        "Fourier pair for every model except Exponential d=1 and d=3 (radial form) (Gaussian needs the Gaussian integral / differentiation under the integral; "
        "Matern, Integral, HyperSpherical, JBessel, TPL* need Bessel / hypergeometric / incomplete-gamma transforms): probes only",
        "accuracy of the default numerical spectrum (hankel.SymmetricFourierTransform): probes only, not modelled",
        "erf -> 1 at infinity (the Gaussian integral) is a hypothesis of the Gaussian d=1,3 limit / normalisation theorems",
        "cdf' = pdf, limits, normalisation are proved for Gaussian and Exponential (the classes that offer a cdf) and normalisation for "
        "Matern d=2 (every nu); normalisation of the other radial pdfs: probes only",
        "floating-point rounding; the special functions themselves",
    ]
    ctx.tie.update({"rad_fac; Gaussian / Exponential spectral_density, spectral_rad_cdf, spectral_rad_ppf; Matern, Integral, HyperSpherical, "
                    "JBessel spectral_density; tpl_exp_spec_dens, tpl_gau_spec_dens (+ _base); TPLGaussian / TPLExponential spectral_density "
                    "(17 functions)": "translated (py2coq, every run) + Coq equality with the hand model (C04_tie_*, no side condition) "
                                      "+ correspondence",
                    "spectral_rad_pdf (abs / mask / isfinite / clip wrapper), ln_spectral_rad_pdf, spectrum, len_rescaled = len_scale / rescale, "
                    "has_cdf, has_ppf, dist_func": "hand model + correspondence",
                    "default numerical spectral_density (hankel)": "not modelled: probes only"})
    ok = ctx.proofs("props/C04.v")
    okd, out = C.build_driver("c04")
    sig_bad = check_signatures() if ok else []
    if sig_bad:
        C.log("[C04] generated signatures differ from what the tie lemmas assume:\n  " + "\n  ".join(sig_bad))
        ctx.proof_failure = dict(file="gen/Formulas_gen.v", signatures=sig_bad, output_tail="")
    ctx.tie["attribute -> parameter position of the translated functions"] = "checked by name against the generated signatures (harness)"
    tie_ok = ok and okd and not sig_bad
    if okd:
        drv = C.Driver("c04", oracle)
        try:
            correspondence(ctx, rng, drv)
        finally:
            drv.close()
    else:
        C.log("[C04] driver build failed:\n" + out[-2000:])
    probes(ctx, rng)
    if not tie_ok:
        what = broken_obligation(ctx)
        C.log("[C04] " + what)
        if not any(not v["no_input"] for v in ctx.violations):
            ctx.violation("proof/tie", what, dict(proofs=ok, driver=okd, failure=getattr(ctx, "proof_failure", None)), no_input=True)


# the tie lemmas identify the parameters of a translated function by POSITION; which self attribute feeds which position is
# checked here against the names py2coq derived from the source (a `self.len_up_rescaled` passed where `self.len_rescaled`
# belongs keeps the Coq types and would otherwise slip through the equality)
GEN_SIGNATURES = {
    "rad_fac": "dim r",
    "Gaussian_spectral_density": "len_rescaled dim k", "Gaussian_spectral_rad_cdf": "dim len_rescaled r",
    "Gaussian_spectral_rad_ppf": "dim len_rescaled u",
    "Exponential_cor": "h",
    "Exponential_spectral_density": "len_rescaled dim k", "Exponential_spectral_rad_cdf": "dim len_rescaled r",
    "Exponential_spectral_rad_ppf": "dim len_rescaled u",
    "Matern_spectral_density": "len_rescaled nu dim k", "Integral_spectral_density": "len_rescaled dim nu k",
    "HyperSpherical_spectral_density": "len_rescaled dim k", "JBessel_spectral_density": "len_rescaled dim nu k",
    "tpl_exp_spec_dens_base": "k dim len_scale hurst", "tpl_exp_spec_dens": "k dim len_scale hurst len_low",
    "tpl_gau_spec_dens_base": "k dim len_scale hurst", "tpl_gau_spec_dens": "k dim len_scale hurst len_low",
    "TPLGaussian_spectral_density": "dim len_rescaled hurst len_low_rescaled k",
    "TPLExponential_spectral_density": "dim len_rescaled hurst len_low_rescaled k",
}


def check_signatures():
    """names and order of the parameters of the generated definitions the ties are about; returns list of mismatches"""
    import re
    src = open(os.path.join(C.COQ, "gen", "Formulas_gen.v")).read()
    bad = []
    for fn, want in GEN_SIGNATURES.items():
        m = re.search(r"^Definition %s((?: \(\w+ : T\))*) : " % re.escape(fn), src, re.M)
        got = " ".join(re.findall(r"\((\w+) : T\)", m.group(1))) if m else None
        if got != want:
            bad.append("%s: parameters (%s), expected (%s)" % (fn, got, want))
    # the classes call the module-level functions with (k, dim, len_rescaled, hurst, len_low_rescaled)
    for cls_fn, callee in (("TPLGaussian_spectral_density", "tpl_gau_spec_dens"), ("TPLExponential_spectral_density", "tpl_exp_spec_dens")):
        m = re.search(r"^Definition %s[^\n]*\n\s*\((\w+) ([^\n]*)\)\.$" % cls_fn, src, re.M)
        if not m or m.group(1) != callee or m.group(2).split() != "k dim len_rescaled hurst len_low_rescaled".split():
            bad.append("%s: body is not %s k dim len_rescaled hurst len_low_rescaled" % (cls_fn, callee))
    return bad


def broken_obligation(ctx):
    """name the lemma that no longer checks (a tie lemma: the formula translated from the source differs from the hand model)"""
    import re
    pf = getattr(ctx, "proof_failure", None) or {}
    if pf.get("signatures"):
        return "tie broken: a translated function takes other attributes than the tie lemmas assume: " + "; ".join(pf["signatures"])
    out = pf.get("output_tail", "")
    mk = re.search(r"\[Makefile:\d+: (c04/\w+|props/C04)\.vo\] Error", out)
    if mk and 'File "' not in out:      # the shared code keeps only the tail of make's output: ask coqc for the position
        try:
            rc, o2 = C.sh(["timeout", "300", "coqc", "-R", ".", "GS", mk.group(1) + ".v"], cwd=C.COQ, timeout=330)
            out = o2 + out
        except Exception:
            pass
    ms = list(re.finditer(r'File "\./(c04/\w+\.v|props/C04\.v)", line (\d+), characters [\d-]+:\s*\n?\s*Error', out))
    m = ms[-1] if ms else None
    if not m:
        return "props/C04.v or the extraction of the model no longer builds"
    f, line = m.group(1), int(m.group(2))
    name = "?"
    try:
        for ln in open(os.path.join(C.COQ, f)).read().split("\n")[:line][::-1]:
            mm = re.match(r"\s*(Lemma|Theorem|Example|Definition)\s+(\w+)", ln)
            if mm:
                name = mm.group(2)
                break
    except OSError:
        pass
    if f.endswith("C04_Tie.v"):
        return ("tie broken: %s (coq/%s line %d) no longer proves — the formula py2coq translates from the current source differs from the "
                "hand model the C04 theorems are about" % (name, f, line))
    return "proof broken: %s (coq/%s line %d)" % (name, f, line)


def replay(ctx, path):
    load_local_findings(ctx)
    rec = json.load(open(path))
    case = rec["case"].get("case", rec["case"])
    kind = case.get("kind")
    if kind == "corr":
        okd, out = C.build_driver("c04")
        drv = C.Driver("c04", oracle)
        ok, det = chk_corr(drv, case)
        drv.close()
    elif kind in CHECKS:
        ok, det = CHECKS[kind](case)
    else:
        print("replay: nothing executable in", path)
        return 1
    print("replay %s: %s\n%s" % (path, "passes now" if ok else "STILL FAILS", json.dumps(det, indent=1, default=str)))
    return 0 if ok else 1
