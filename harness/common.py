"""Shared plumbing of the /verif checks: Coq/OCaml builds, the driver protocol client,
evidence / replay / known-findings files, PRNG, comparison policy."""
import fcntl
import hashlib
import json
import math
import os
import re
import struct
import subprocess
import sys
import time

VERIF = os.path.dirname(os.path.dirname(os.path.abspath(__file__)))
REPO = os.environ.get("VERIF_REPO", "/repo")
COQ = os.path.join(VERIF, "coq")
OCAML = os.path.join(VERIF, "ocaml")
BUILD = os.path.join(VERIF, "build")
if os.path.realpath(REPO) != "/repo":
    # checking another checkout (scratch worktree): use a private copy of the Coq tree and build directory, so that
    # regenerated gen/*.v and rebuilt drivers never disturb checks of /repo running at the same time
    _tag = hashlib.sha256(os.path.realpath(REPO).encode()).hexdigest()[:10]
    _alt = os.path.join(VERIF, "build", "alt-" + _tag)
    os.makedirs(_alt, exist_ok=True)
    subprocess.run(["rsync", "-a", "--delete", "--exclude", ".lia.cache", os.path.join(VERIF, "coq") + "/", os.path.join(_alt, "coq") + "/"], check=True)
    COQ = os.path.join(_alt, "coq")
    BUILD = os.path.join(_alt, "build")
    os.makedirs(BUILD, exist_ok=True)
    # evidence and replays of a scratch run never overwrite those of /repo
    EVID = os.path.join(_alt, "evidence")
    REPLAYS = os.path.join(_alt, "replays")
else:
    EVID = os.path.join(VERIF, "evidence")
    REPLAYS = os.path.join(VERIF, "replays")
sys.path.insert(0, os.path.join(VERIF, "tools"))

STD_AXIOMS = {
    "ClassicalDedekindReals.sig_not_dec",
    "ClassicalDedekindReals.sig_forall_dec",
    "FunctionalExtensionality.functional_extensionality_dep",
    "Classical_Prop.classic",
    "Eqdep.Eq_rect_eq.eq_rect_eq",
    "ProofIrrelevance.proof_irrelevance",
    "JMeq.JMeq_eq",
    "PropExtensionality.propositional_extensionality",
    "ClassicalEpsilon.constructive_indefinite_description",
    "Coq.Logic.Classical_Prop.classic",
}


def log(*a):
    print(*a, flush=True)


def sh(cmd, cwd=None, timeout=900, env=None):
    e = dict(os.environ)
    if env:
        e.update(env)
    p = subprocess.run(cmd, cwd=cwd, shell=isinstance(cmd, str), stdout=subprocess.PIPE,
                       stderr=subprocess.STDOUT, timeout=timeout, env=e, text=True)
    return p.returncode, p.stdout


class Lock:
    def __init__(self, name):
        os.makedirs(BUILD, exist_ok=True)
        self.path = os.path.join(BUILD, name + ".lock")

    def __enter__(self):
        self.f = open(self.path, "w")
        fcntl.flock(self.f, fcntl.LOCK_EX)
        return self

    def __exit__(self, *a):
        fcntl.flock(self.f, fcntl.LOCK_UN)
        self.f.close()


def write_if_changed(path, content):
    old = None
    if os.path.exists(path):
        old = open(path).read()
    if old != content:
        os.makedirs(os.path.dirname(path), exist_ok=True)
        with open(path, "w") as f:
            f.write(content)
        return True
    return False


# --------------------------------------------------------------------------- Coq

FORBIDDEN = re.compile(
    r"\b(Admitted|admit|Axiom|Axioms|Parameter|Parameters|Conjecture|Abort All|Unset Guard Checking|"
    r"Unset Positivity Checking|Unset Universe Checking|bypass_check|Admit Obligations|"
    r"type-in-type|impredicative-set|native_compute)\b")


def strip_coq_comments(src):
    out, depth, i = [], 0, 0
    while i < len(src):
        if src.startswith("(*", i):
            depth += 1
            i += 2
        elif src.startswith("*)", i) and depth > 0:
            depth -= 1
            i += 2
        else:
            if depth == 0:
                out.append(src[i])
            i += 1
    return "".join(out)


def forbidden_scan():
    """grep the whole development for vernacular that would weaken the kernel's guarantee"""
    bad = []
    for root, _, files in os.walk(COQ):
        for fn in files:
            if fn.endswith(".v"):
                p = os.path.join(root, fn)
                src = strip_coq_comments(open(p).read())
                for m in FORBIDDEN.finditer(src):
                    ctx = src[max(0, m.start() - 30): m.end() + 10].replace("\n", " ")
                    # Variable/Hypothesis/Context are fine inside sections; Parameter(s) is not allowed at all
                    bad.append("%s: %s (...%s...)" % (os.path.relpath(p, VERIF), m.group(1), ctx))
    proj = open(os.path.join(COQ, "_CoqProject")).read()
    for w in ("type-in-type", "impredicative-set", "-vos", "-vok"):
        if w in proj:
            bad.append("_CoqProject: " + w)
    return bad


GEN_KERNELS = [
    ("field/summator.pyx", "Summator_gen.v"),
    ("krige/krigesum.pyx", "Krigesum_gen.v"),
    ("variogram/estimator.pyx", "Estimator_gen.v"),
]


def regenerate(which=None):
    """re-run the translators on /repo's current sources.  Returns dict name -> None | error string"""
    import pyx2coq
    res = {}
    with Lock("coq"):
        return _regenerate(which, pyx2coq, res)


def _regenerate(which, pyx2coq, res):
    for rel, out in GEN_KERNELS:
        if which is not None and out not in which:
            continue
        src = os.path.join(REPO, "src/gstools", rel)
        try:
            code = pyx2coq.translate(src)
            write_if_changed(os.path.join(COQ, "gen", out), code)
            res[out] = None
        except Exception as e:  # fail closed: tie broken
            res[out] = "%s: %s" % (type(e).__name__, e)
    return res


COQPROJECT_HEADER = """-R . GS
-arg -w -arg -notation-overridden,-deprecated-hint-without-locality,-deprecated-instance-without-locality,-ambiguous-paths,-deprecated-syntactic-definition
"""


def coq_files():
    """all .v files of the development, in dependency-friendly order: lib/FILES, gen/*.v, then every
    <dir>/FILES (one file name per line, in build order), then props/*.v"""
    files = []
    for d in ["lib"] + sorted(x for x in os.listdir(COQ) if os.path.isdir(os.path.join(COQ, x))
                               and x not in ("lib", "gen", "props", "extract")):
        fl = os.path.join(COQ, d, "FILES")
        if os.path.exists(fl):
            for ln in open(fl).read().split():
                if ln.endswith(".v") and os.path.exists(os.path.join(COQ, d, ln)):
                    files.append("%s/%s" % (d, ln))
        if d == "lib":
            files += sorted("gen/" + f for f in os.listdir(os.path.join(COQ, "gen")) if f.endswith(".v"))
    files += sorted("props/" + f for f in os.listdir(os.path.join(COQ, "props")) if f.endswith(".v"))
    return files


def write_coqproject():
    content = COQPROJECT_HEADER + "\n".join(coq_files()) + "\n"
    return write_if_changed(os.path.join(COQ, "_CoqProject"), content)


def regenerate_formulas():
    """re-run tools/py2coq.py on /repo's current sources: coq/gen/Formulas_gen.v (one Gallina definition per whitelisted
    formula function; a function that no longer translates is left out, so every tie lemma about it stops compiling).
    Returns {coq name: error} for the functions that did not translate."""
    import importlib
    import py2coq
    import formulas_table
    importlib.reload(formulas_table)
    with Lock("coq"):
        txt, errs = py2coq.translate_all(REPO, formulas_table.TABLE)
        write_if_changed(os.path.join(COQ, "gen", "Formulas_gen.v"), txt)
    return errs


def coq_make(targets, timeout=1500, jobs=16, remove_first=()):
    """make the given .vo targets (paths relative to coq/).  Returns (ok, output).
    remove_first: files (relative to coq/) deleted under the build lock before make (forces recompilation)."""
    with Lock("coq"):
        for f in remove_first:
            pth = os.path.join(COQ, f)
            if os.path.exists(pth):
                os.remove(pth)
        changed = write_coqproject()
        if changed or not os.path.exists(os.path.join(COQ, "Makefile")) or (
            os.path.getmtime(os.path.join(COQ, "Makefile")) < os.path.getmtime(os.path.join(COQ, "_CoqProject"))
        ):
            rc, out = sh("coq_makefile -f _CoqProject -o Makefile", cwd=COQ)
            if rc != 0:
                return False, out
        rc, out = sh(["timeout", str(timeout), "make", "-j%d" % jobs] + list(targets), cwd=COQ, timeout=timeout + 30)
        return rc == 0, out


def theorems_in(vfile):
    """(names of Theorem/Corollary statements, Print Assumptions targets) in a props file"""
    src = strip_coq_comments(open(os.path.join(COQ, vfile)).read())
    thms = re.findall(r"^\s*(?:Theorem|Corollary)\s+(\w+)", src, re.M)
    pas = re.findall(r"Print Assumptions\s+(\w+)", src)
    return thms, pas


def check_props(prop_file, timeout=1500):
    """compile props/<prop_file> from scratch enough to capture its Print Assumptions output.
    Returns dict(ok, theorems, axioms{thm:[...]}, nonstd_axioms, output)"""
    vo = prop_file[:-2] + ".vo"
    # force recompilation of the props file itself so that Print Assumptions output is captured
    # (deleted under the build lock: two checks of one property must not race)
    ok, out = coq_make([vo], timeout=timeout,
                       remove_first=[prop_file[:-2] + ext for ext in (".vo", ".glob", ".vos", ".vok")])
    thms, pas = theorems_in(prop_file)
    axioms = {}
    nonstd = []
    if ok:
        # parse "Axioms:" blocks / "Closed under the global context"
        blocks = re.split(r"(?=^Closed under the global context|^Axioms:)", out, flags=re.M)
        blocks = [b for b in blocks if b.startswith("Closed under") or b.startswith("Axioms:")]
        for name, b in zip(pas, blocks):
            if b.startswith("Closed"):
                axioms[name] = []
            else:
                ax = re.findall(r"^([\w\.]+)\s*:", b[len("Axioms:"):], re.M)
                axioms[name] = ax
                for a in ax:
                    if a not in STD_AXIOMS and not a.startswith("Coq.") and a not in nonstd:
                        nonstd.append(a)
        if len(blocks) != len(pas):
            ok = False
            out += "\n[check_props] %d Print Assumptions commands but %d outputs" % (len(pas), len(blocks))
        missing = [t for t in thms if t not in pas]
        if missing:
            ok = False
            out += "\n[check_props] theorems without Print Assumptions: %s" % missing
    return dict(ok=ok and not nonstd, theorems=thms, axioms=axioms, nonstd_axioms=nonstd, output=out)


def coqchk_props(prop_file, timeout=3000):
    """independent re-check (coqchk) of the compiled props module and everything it depends on; returns
    dict(ok, axioms, output).  Thorough tier only (a minute or more, several GB)."""
    mod = "GS." + prop_file[:-2].replace("/", ".")
    cmd = "ulimit -s unlimited 2>/dev/null; exec timeout %d coqchk -silent -o -R . GS %s" % (timeout, mod)
    try:
        p = subprocess.run(["sh", "-c", cmd], cwd=COQ, stdout=subprocess.PIPE, stderr=subprocess.STDOUT, text=True, timeout=timeout + 60)
        out, rc = p.stdout, p.returncode
    except subprocess.TimeoutExpired as e:
        out, rc = "coqchk timeout: %r" % (e,), 124
    axioms, bad = [], []
    sect = None
    for line in out.splitlines():
        m = re.match(r"\* ([^:]+):\s*(.*)$", line.strip())
        if m:
            sect = m.group(1)
            if sect != "Axioms" and not sect.startswith("Theory") and m.group(2).strip() not in ("<none>", ""):
                bad.append(line.strip())
            continue
        t = line.strip()
        if not t or sect is None:
            continue
        if sect == "Axioms":
            axioms.append(t)
        elif not sect.startswith("Theory") and t != "<none>":
            bad.append("%s: %s" % (sect, t))
    for a in axioms:
        short = a[4:] if a.startswith("Coq.") else a
        if not any(short.endswith(s) or s.endswith(short) for s in STD_AXIOMS):
            bad.append("axiom outside the standard library list: " + a)
    ok = rc == 0 and "CONTEXT SUMMARY" in out and not bad
    return dict(ok=ok, axioms=axioms, bad=bad, output=out)


# --------------------------------------------------------------------------- OCaml driver

def build_driver(tag, timeout=600):
    """extract coq/extract/<TAG>_extract.v and build ocaml/drv_<tag>.ml -> build/<tag>/driver.
    Returns (ok, output)."""
    tag_l = tag.lower()
    bdir = os.path.join(BUILD, tag_l)
    os.makedirs(bdir, exist_ok=True)
    ext_v = os.path.join(COQ, "extract", "%s_extract.v" % tag.upper())
    with Lock("ocaml_" + tag_l):
        # dependencies of the extraction file must be compiled
        src = open(ext_v).read()
        deps = []
        for m in re.finditer(r"From GS Require Import ([^.]+)\.", src):
            deps += m.group(1).split()
        targets = []
        proj = coq_files()
        for d in deps:
            for p in proj:
                if p.endswith("/" + d + ".v"):
                    targets.append(p[:-2] + ".vo")
        ok, out = coq_make(targets)
        if not ok:
            return False, out
        stamp = hashlib.sha256()
        for t in targets:
            stamp.update(open(os.path.join(COQ, t[:-1])).read().encode())
        for f in (ext_v, os.path.join(OCAML, "proto.ml"), os.path.join(OCAML, "drv_%s.ml" % tag_l)):
            stamp.update(open(f).read().encode())
        st = stamp.hexdigest()
        stf = os.path.join(bdir, "stamp")
        exe = os.path.join(bdir, "driver")
        if os.path.exists(exe) and os.path.exists(stf) and open(stf).read() == st:
            return True, "up to date"
        rc, out = sh(["timeout", str(timeout), "coqc", "-R", COQ, "GS", "-o", os.path.join(bdir, "%s_extract.vo" % tag.upper()), ext_v], cwd=bdir)
        if rc != 0:
            return False, out
        model = os.path.join(bdir, "%s_model.ml" % tag_l)
        allml = os.path.join(bdir, "all.ml")
        with open(allml, "w") as f:
            f.write(open(model).read())
            f.write("\n")
            f.write(open(os.path.join(OCAML, "proto.ml")).read())
            f.write("\n")
            f.write(open(os.path.join(OCAML, "drv_%s.ml" % tag_l)).read())
        rc, out2 = sh(["timeout", str(timeout), "ocamlfind", "ocamlopt", "-O3", "-w", "-a", "all.ml", "-o", "driver"], cwd=bdir)
        if rc != 0:
            rc, out2 = sh(["timeout", str(timeout), "ocamlfind", "ocamlopt", "-w", "-a", "all.ml", "-o", "driver"], cwd=bdir)
        if rc != 0:
            return False, out + out2
        open(stf, "w").write(st)
        return True, out + out2


def fhex(x):
    x = float(x)
    if math.isnan(x):
        return "nan"
    if math.isinf(x):
        return "inf" if x > 0 else "-inf"
    return x.hex()


def enc(v):
    """encode a python value for the driver protocol"""
    import numpy as np
    if isinstance(v, tuple) and len(v) == 2 and v[0] in ("n", "z", "b", "f"):
        k, x = v
        if k == "f":
            return "f:" + fhex(x)
        return "%s:%d" % (k, int(x))
    if isinstance(v, bool):
        return "b:%d" % int(v)
    if isinstance(v, float):
        return "f:" + fhex(v)
    a = np.asarray(v)
    if a.dtype.kind in "iub":
        if a.ndim == 1:
            return "zv:%d:%s" % (a.shape[0], ",".join(str(int(x)) for x in a))
        if a.ndim == 2:
            return "zm:%d:%d:%s" % (a.shape[0], a.shape[1], ",".join(str(int(x)) for x in a.ravel()))
    else:
        if a.ndim == 1:
            return "v:%d:%s" % (a.shape[0], ",".join(fhex(x) for x in a))
        if a.ndim == 2:
            return "m:%d:%d:%s" % (a.shape[0], a.shape[1], ",".join(fhex(x) for x in a.ravel()))
    raise ValueError("cannot encode %r" % (v,))


def dec_tok(tok):
    import numpy as np
    if tok == "none":
        return None
    if tok.startswith("error:"):
        return ("error", tok[6:])
    p = tok.split(":")
    k = p[0]
    if k == "f":
        return float.fromhex(p[1]) if p[1] not in ("nan", "inf", "-inf") else float(p[1])
    if k in ("n", "z"):
        return int(p[1])
    if k == "b":
        return p[1] == "1"

    def fl(s):
        return [float.fromhex(x) if x not in ("nan", "inf", "-inf") else float(x) for x in s.split(",")] if s else []
    if k == "v":
        return np.array(fl(p[2]), dtype=float)
    if k == "m":
        r, c = int(p[1]), int(p[2])
        return np.array(fl(p[3]), dtype=float).reshape(r, c)
    if k == "zv":
        return np.array([int(x) for x in p[2].split(",")] if p[2] else [], dtype=np.int64)
    if k == "zm":
        r, c = int(p[1]), int(p[2])
        return np.array([int(x) for x in p[3].split(",")] if p[3] else [], dtype=np.int64).reshape(r, c)
    raise ValueError("bad token " + tok)


class Driver:
    """client of build/<tag>/driver; answers oracle queries with `oracle_fn(code, args)`"""

    def __init__(self, tag, oracle_fn=None):
        self.exe = os.path.join(BUILD, tag.lower(), "driver")
        self.p = subprocess.Popen(["/bin/sh", "-c", "ulimit -s unlimited; exec " + self.exe],
                                  stdin=subprocess.PIPE, stdout=subprocess.PIPE, text=True, bufsize=1)
        self.oracle_fn = oracle_fn
        self.calls = 0

    def call(self, fn, *args):
        line = fn + " " + " ".join(enc(a) for a in args) + "\n"
        self.p.stdin.write(line)
        self.p.stdin.flush()
        self.calls += 1
        while True:
            out = self.p.stdout.readline()
            if out == "":
                raise RuntimeError("driver died on: " + line[:200])
            out = out.strip()
            if out.startswith("?"):
                code, *xs = out[1:].split()
                val = self.oracle_fn(int(code), [float.fromhex(x) if x not in ("nan", "inf", "-inf") else float(x) for x in xs])
                self.p.stdin.write(fhex(val) + "\n")
                self.p.stdin.flush()
                continue
            toks = out.split()
            vals = [dec_tok(t) for t in toks]
            return vals[0] if len(vals) == 1 else tuple(vals)

    def close(self):
        try:
            self.p.stdin.close()
            self.p.wait(timeout=5)
        except Exception:
            self.p.kill()


# --------------------------------------------------------------------------- comparison

def ulp_diff(a, b):
    """distance in units in the last place between two doubles (inf if signs/NaN-ness differ)"""
    if math.isnan(a) or math.isnan(b):
        return 0 if (math.isnan(a) and math.isnan(b)) else float("inf")
    if a == b:
        return 0
    if math.isinf(a) or math.isinf(b):
        return float("inf")
    ia = struct.unpack("<q", struct.pack("<d", a))[0]
    ib = struct.unpack("<q", struct.pack("<d", b))[0]
    if ia < 0:
        ia = -(ia & 0x7FFFFFFFFFFFFFFF)
    if ib < 0:
        ib = -(ib & 0x7FFFFFFFFFFFFFFF)
    return abs(ia - ib)


def close(a, b, rtol=1e-9, atol=1e-300, scale=None):
    """tolerance policy of DESIGN §3.4 for values through transcendental functions"""
    import numpy as np
    a = np.asarray(a, dtype=float)
    b = np.asarray(b, dtype=float)
    if a.shape != b.shape:
        return False
    na, nb = np.isnan(a), np.isnan(b)
    if (na != nb).any():
        return False
    ia, ib = np.isinf(a), np.isinf(b)
    if (ia != ib).any() or (a[ia] != b[ib]).any():
        return False
    m = ~(na | ia)
    if scale is None:
        sc = np.maximum(np.abs(a[m]), np.abs(b[m]))
    else:
        sc = scale
    return bool((np.abs(a[m] - b[m]) <= atol + rtol * sc).all())


def bit_equal(a, b):
    import numpy as np
    a = np.ascontiguousarray(np.asarray(a, dtype=float))
    b = np.ascontiguousarray(np.asarray(b, dtype=float))
    if a.shape != b.shape:
        return False
    na, nb = np.isnan(a), np.isnan(b)
    if (na != nb).any():
        return False
    return bool((a[~na].view(np.int64) == b[~nb].view(np.int64)).all()) or bool(
        ((a[~na] == b[~nb])).all())


# --------------------------------------------------------------------------- run context

class Ctx:
    """one check run: collects obligations, correspondence and probe statistics, violations"""

    def __init__(self, pid, tier, seed):
        self.pid = pid
        self.tier = tier
        self.seed = seed
        self.t0 = time.time()
        self.evaluations = 0
        self.nontrivial = set()
        self.samples = []
        self.obligations = []      # theorem names
        self.discharged = []
        self.axioms = {}
        self.violations = []       # dicts(kind, stage, detail, replay)
        self.known = []
        self.tie = {}              # how each function was tied on this run
        self.dist = {}             # input distribution histograms
        self.notes = []
        self.trusted = []
        self.not_proved = []
        self.checker_cmd = ""
        self.kf = load_known_findings().get(pid, [])
        os.makedirs(REPLAYS, exist_ok=True)
        os.makedirs(EVID, exist_ok=True)

    # -- bookkeeping
    def count(self, key=None, n=1, hist=None):
        self.evaluations += n
        if key is not None:
            self.nontrivial.add(key if isinstance(key, (str, int, tuple)) else repr(key))
        if hist:
            for k, v in hist.items():
                d = self.dist.setdefault(k, {})
                d[str(v)] = d.get(str(v), 0) + 1

    def sample(self, s, limit=6):
        if len(self.samples) < limit:
            self.samples.append(s)

    # -- proof stage
    def proofs(self, prop_file):
        log("[%s] proof obligations: coq/%s" % (self.pid, prop_file))
        try:
            ferr = regenerate_formulas()
            self.tie["Formulas_gen.v"] = "formula functions translated by py2coq on this run; not translatable: %s" % (sorted(ferr) or "none")
        except Exception as e:  # fail closed: ties that need the file will not compile
            self.tie["Formulas_gen.v"] = "py2coq FAILED: %r" % (e,)
        bad = forbidden_scan()
        r = check_props(prop_file)
        self.checker_cmd = "make -C coq %s.vo (coqc 8.16.1, full .vo build) + Print Assumptions per theorem" % prop_file[:-2]
        self.obligations = r["theorems"]
        if r["ok"] and not bad:
            self.discharged = list(r["theorems"])
            self.axioms = r["axioms"]
            log("[%s]   %d theorems checked" % (self.pid, len(self.discharged)))
            if self.tier == "thorough" and os.environ.get("VERIF_NO_COQCHK") != "1":
                c = coqchk_props(prop_file)
                if not c["ok"]:
                    # another run of the same property may have removed the compiled file in between: rebuild once and retry
                    r2 = check_props(prop_file)
                    if r2["ok"]:
                        c = coqchk_props(prop_file)
                self.trusted.append("coqchk -o on GS.%s (independent checker, this run): %s; axioms %s"
                                    % (prop_file[:-2].replace("/", "."), "ok" if c["ok"] else "FAILED", c["axioms"]))
                log("[%s]   coqchk: %s" % (self.pid, "ok, axioms %s" % c["axioms"] if c["ok"] else "FAILED"))
                if not c["ok"]:
                    self.discharged = []
                    self.proof_failure = dict(file=prop_file, forbidden=[], nonstd_axioms=c["bad"],
                                              output_tail="\n".join(c["output"].splitlines()[-25:]))
                    return False
            return True
        tail = "\n".join(r["output"].splitlines()[-25:])
        self.proof_failure = dict(file=prop_file, forbidden=bad, nonstd_axioms=r["nonstd_axioms"], output_tail=tail)
        log("[%s]   PROOF STAGE BROKEN:\n%s\n%s" % (self.pid, "\n".join(bad), tail))
        return False

    # -- violations
    def violation(self, stage, what, case, key=None, no_input=False):
        """record a violation; `key` is matched against known findings"""
        for kf in self.kf:
            if kf.get("status", "open") == "open" and key is not None and kf["key"] == key:
                if key not in [k["key"] for k in self.known]:
                    self.known.append(kf)
                return False
        n = len(self.violations)
        path = os.path.join(REPLAYS, "%s-%d.json" % (self.pid, n))
        rec = dict(property=self.pid, seed=self.seed, tier=self.tier, stage=stage, what=what, case=case,
                   key=key, no_failing_input_found=bool(no_input))
        with open(path, "w") as f:
            json.dump(rec, f, indent=1, default=str)
        self.violations.append(dict(stage=stage, what=what, replay=path, no_input=no_input))
        log("[%s] violation at %s: %s" % (self.pid, stage, what))
        return True

    def finish(self, extra=None):
        import numpy as np  # noqa
        wall = time.time() - self.t0
        cov = dict(
            obligations=len(self.obligations),
            discharged=len(self.discharged),
            checker_cmd=self.checker_cmd or "n/a",
            trusted_base=self.trusted + ["axioms per theorem (Print Assumptions): %s" % json.dumps(self.axioms)],
            theorems=self.obligations,
            evaluations=int(self.evaluations),
            distinct_nontrivial=len(self.nontrivial),
            rule=getattr(self, "rule", ""),
            samples=self.samples or [{"obligations": self.obligations[:5]}],
            input_distribution=self.dist,
            tie=self.tie,
            not_proved=self.not_proved,
            notes=self.notes,
            known_findings_hit=[k["key"] for k in self.known],
        )
        if not self.discharged:
            # failing run: fall back to the exploration-style keys so the file stays schema-valid
            cov["proof_obligations_total"] = cov.pop("obligations")
            cov.pop("discharged")
            cov["evaluations"] = max(1, cov["evaluations"])
        if extra:
            cov.update(extra)
        ev = dict(property_id=self.pid, tier=self.tier, seed=int(self.seed), level="proof", coverage=cov,
                  assumptions=self.trusted, wall_s=round(wall, 2), violations=len(self.violations))
        with open(os.path.join(EVID, "%s.json" % self.pid), "w") as f:
            json.dump(ev, f, indent=1, default=str)
        for k in self.known:
            print("KNOWN-FINDING: property=%s %s" % (self.pid, k["what"]), flush=True)
        if self.violations:
            # report a concrete failing input first if there is one
            vs = sorted(self.violations, key=lambda v: v["no_input"])
            v = vs[0]
            line = "VIOLATION property=%s replay=%s" % (self.pid, v["replay"])
            if v["no_input"]:
                line += " no-failing-input-found"
            print(line, flush=True)
            return 1
        log("[%s] OK  (%d theorems, %d evaluations, %d distinct non-trivial, %.1fs)" % (
            self.pid, len(self.discharged), self.evaluations, len(self.nontrivial), wall))
        return 0


def load_known_findings():
    """known_findings.json: {"findings": [{"property","key","status": "open"|"fixed","what",...}]}.
    Only status "open" suppresses (turns a violation with that exact key into a KNOWN-FINDING line)."""
    p = os.path.join(VERIF, "known_findings.json")
    if not os.path.exists(p):
        return {}
    data = json.load(open(p))
    out = {}
    for e in data.get("findings", []):
        out.setdefault(e["property"], []).append(e)
    return out


class Rng:
    """every random choice of a check derives from VERIF_SEED through this numpy Generator"""

    def __init__(self, seed, salt=""):
        import numpy as np
        h = int(hashlib.sha256(("%s/%s" % (seed, salt)).encode()).hexdigest()[:16], 16)
        self.g = np.random.default_rng(h)

    def __getattr__(self, n):
        return getattr(self.g, n)
